(* C02, CUBIC half: the congestion window of smoltcp's CUBIC controller never drops below one
   segment (hence is never 0), for EVERY sequence of controller events and EVERY value the
   floating-point expressions of cubic.rs could produce (Model/Cubic.v takes them as inputs).

   Before the repairs /repo 46f8035 (set_mss) and c276435 (leaving fast recovery) the statement
   was false for the faithful model: see [cubic_unrepaired_set_mss_refuted] and
   [cubic_unrepaired_fr_exit_refuted] below; both counter-models were reproduced on the real
   crate (corpus/C02/cubic-*.case). *)
From SV Require Import Lib.Base Gen.Consts Model.Cubic.

Ltac cb_simpl :=
  unfold cb_set_w_max, cb_set_cwnd, cb_set_mss, cb_set_ssthresh, cb_set_rwnd, cb_set_cwnd_prior,
         cb_set_recovery_start, cb_set_in_fast_recovery, cb_set_in_rto_recovery, cb_set_idle_start in *;
  cbn [cb_w_max cb_cwnd cb_mss cb_ssthresh cb_rwnd cb_cwnd_prior cb_recovery_start
       cb_in_fast_recovery cb_in_rto_recovery cb_idle_start] in *.

Ltac obind_inv H :=
  match type of H with
  | obind ?m _ = Ok _ =>
      let a := fresh "a" in let E := fresh "E" in
      destruct m as [a| |] eqn:E; cbn [obind] in H; [|discriminate H|discriminate H]
  end.

Lemma cubic_usize_max_pos : 0 < cubic_usize_max.
Proof. reflexivity. Qed.

Lemma cubic_as_usize_range : forall f, 0 <= cubic_as_usize f <= cubic_usize_max.
Proof. intros [z|]; unfold cubic_as_usize; pose proof cubic_usize_max_pos; lia. Qed.

Lemma cubic_clamp_ge : forall c x, cb_mss c <= cubic_clamp c x.
Proof. intros. unfold cubic_clamp. lia. Qed.

Lemma cubic_clamp_le : forall c x, cubic_clamp c x <= Z.max (cb_rwnd c) (cb_mss c).
Proof. intros. unfold cubic_clamp. lia. Qed.

(* ------------------------------------------------------------------------------------------ *)
(* 1. lower bound: one segment                                                                  *)
(* ------------------------------------------------------------------------------------------ *)
(* [3 * mss <= usize::MAX] keeps `2 * self.mss` / `3 * self.mss` from overflowing (in tcp.rs the
   MSS comes from a 16-bit option) *)
Definition cubic_inv (c : cubic) : Prop :=
  0 < cb_mss c /\ 3 * cb_mss c <= cubic_usize_max /\ cb_mss c <= cb_cwnd c /\ 0 <= cb_rwnd c.

(* the only constraint on the events: an MSS is positive (tcp.rs passes
   max(option value, MIN_REMOTE_MSS) and treats 0 as absent) and 3 * MSS fits a usize *)
Definition cubic_ev_ok (e : cubic_ev) : Prop :=
  match e with CSetMss m => 0 < m /\ 3 * m <= cubic_usize_max | _ => True end.

Lemma cubic_new_inv : cubic_inv cubic_new.
Proof.
  unfold cubic_inv, cubic_new. cb_simpl.
  split; [reflexivity|]. split; [vm_compute; discriminate|]. split; vm_compute; discriminate.
Qed.

Lemma cubic_wrap_small : forall dbg x, x <= cubic_usize_max -> cubic_wrap dbg x = Ok x.
Proof. intros dbg x H. unfold cubic_wrap. destruct (Z.leb_spec x cubic_usize_max); [reflexivity | lia]. Qed.

Lemma cubic_absorb_idle_inv : forall c now, cubic_inv c -> cubic_inv (cubic_absorb_idle c now).
Proof.
  intros [wmax cwnd mss ss rwnd prior rs fr rto idle] now H. unfold cubic_absorb_idle, cubic_inv in *.
  cb_simpl. destruct idle as [i|]; destruct rs as [s|]; try destruct (i <=? now); cb_simpl; exact H.
Qed.

Lemma cubic_on_ack_inv : forall dbg c now len fl lt fw ft c',
  cubic_inv c -> cubic_on_ack dbg c now len fl lt fw ft = Ok c' -> cubic_inv c'.
Proof.
  intros dbg c now len fl lt fw ft c' Hi H. unfold cubic_on_ack, cubic_clamp in H.
  apply (cubic_absorb_idle_inv c now) in Hi.
  assert (Em : cb_mss (cubic_absorb_idle c now) = cb_mss c).
  { destruct c as [wmax cwnd mss ss rwnd prior rs fr rto idle]. unfold cubic_absorb_idle. cb_simpl.
    destruct idle as [i|]; destruct rs as [s|]; try destruct (i <=? now); reflexivity. }
  rewrite <- Em in H. clear Em.
  destruct (cubic_absorb_idle c now) as [wmax cwnd mss ss rwnd prior rs fr rto idle]. clear c.
  unfold cubic_inv in Hi. cb_simpl. destruct Hi as (Hm & H3 & Hc & Hw).
  assert (G : forall c2, cb_mss c2 = mss -> mss <= cb_cwnd c2 -> cb_rwnd c2 = rwnd -> cubic_inv c2).
  { intros c2 E1 E2 E3. unfold cubic_inv. rewrite E1, E3. lia. }
  destruct (fl =? 0); cb_simpl;
    (destruct (len =? 0); [inversion H; subst c'; apply G; cb_simpl; auto|]);
    (destruct fr; [inversion H; subst c'; apply G; cb_simpl; auto; lia|]);
    (destruct (cwnd <? ss); [inversion H; subst c'; apply G; cb_simpl; auto; lia|]);
    (destruct rs as [t0|]; cb_simpl;
     [destruct (now - t0 <? 0)|destruct (now - now <? 0)];
     [inversion H; subst c'; apply G; cb_simpl; auto| |inversion H; subst c'; apply G; cb_simpl; auto|]);
    (destruct lt; [inversion H; subst c'; apply G; cb_simpl; auto; lia|]);
    obind_inv H; obind_inv H; obind_inv H; inversion H; subst c'; apply G; cb_simpl; auto; lia.
Qed.

Lemma cubic_on_dup_ack_inv : forall c now len fl, cubic_inv c -> cubic_inv (cubic_on_dup_ack c now len fl).
Proof.
  intros c now len fl (Hm & H3 & Hc & Hw). unfold cubic_on_dup_ack.
  destruct (cb_in_fast_recovery c); [|repeat split; assumption].
  unfold cubic_inv, cubic_clamp. cb_simpl. lia.
Qed.

Lemma cubic_post_transmit_inv : forall c now len, cubic_inv c -> cubic_inv (cubic_post_transmit c now len).
Proof. intros. apply cubic_absorb_idle_inv. assumption. Qed.

Lemma cubic_on_loss_inv : forall dbg c now fl fw fs c',
  cubic_inv c -> cubic_on_loss dbg c now fl fw fs = Ok c' -> cubic_inv c'.
Proof.
  intros dbg [wmax cwnd mss ss rwnd prior rs fr rto idle] now fl fw fs c' (Hm & H3 & Hc & Hw) H.
  unfold cubic_on_loss in H. cb_simpl.
  destruct fr.
  { inversion H; subst c'. unfold cubic_inv. cb_simpl. lia. }
  unfold cubic_mul in H. rewrite !cubic_wrap_small in H by lia. cbn [obind] in H. cb_simpl.
  inversion H; subst c'. unfold cubic_inv, cubic_sat_add. cb_simpl.
  pose proof (cubic_as_usize_range fs). lia.
Qed.

Lemma cubic_on_rto_inv : forall dbg c now fl fs c',
  cubic_inv c -> cubic_on_rto dbg c now fl fs = Ok c' -> cubic_inv c'.
Proof.
  intros dbg [wmax cwnd mss ss rwnd prior rs fr rto idle] now fl fs c' (Hm & H3 & Hc & Hw) H.
  unfold cubic_on_rto in H. cb_simpl.
  unfold cubic_mul in H. rewrite !cubic_wrap_small in H by lia.
  destruct rto; cbn [obind] in H; cb_simpl; inversion H; subst c'; unfold cubic_inv; cb_simpl; lia.
Qed.

Lemma cubic_set_mss_inv : forall c m,
  0 < m -> 3 * m <= cubic_usize_max -> cubic_inv c -> cubic_inv (cubic_set_mss c m).
Proof.
  intros c m Hm H3 (_ & _ & Hc & Hw). unfold cubic_set_mss, cubic_inv. cb_simpl. lia.
Qed.

Lemma cubic_set_remote_window_inv : forall c w, cubic_inv c -> cubic_inv (cubic_set_remote_window c w).
Proof.
  intros c w (Hm & H3 & Hc & Hw). unfold cubic_set_remote_window.
  destruct (Z.ltb_spec (cb_rwnd c) w); unfold cubic_inv; cb_simpl; lia.
Qed.

Lemma cubic_apply_inv : forall dbg c e c',
  cubic_ev_ok e -> cubic_inv c -> cubic_apply dbg c e = Ok c' -> cubic_inv c'.
Proof.
  intros dbg c e c' Hok Hi H. destruct e; cbn [cubic_apply cubic_ev_ok] in *.
  - inversion H; subst c'. apply cubic_set_mss_inv; tauto.
  - inversion H; subst c'. apply cubic_set_remote_window_inv; assumption.
  - eapply cubic_on_ack_inv; eassumption.
  - inversion H; subst c'. apply cubic_on_dup_ack_inv; assumption.
  - eapply cubic_on_loss_inv; eassumption.
  - eapply cubic_on_rto_inv; eassumption.
  - inversion H; subst c'. exact Hi.
  - inversion H; subst c'. apply cubic_post_transmit_inv; assumption.
Qed.

Lemma cubic_run_inv : forall dbg evs c c',
  Forall cubic_ev_ok evs -> cubic_inv c -> cubic_run dbg c evs = Ok c' -> cubic_inv c'.
Proof.
  induction evs as [|e evs IH]; intros c c' Hok Hi H; cbn [cubic_run] in H.
  - inversion H; subst c'. exact Hi.
  - inversion Hok; subst. obind_inv H. eapply IH; [eassumption| |exact H].
    eapply cubic_apply_inv; eassumption.
Qed.

(* THE C02 STATEMENT FOR CUBIC: after every sequence of controller events - set_mss with a positive
   MSS, set_remote_window, on_ack, on_dup_ack, on_loss (fast retransmit), on_rto, pre/post_transmit,
   at arbitrary times, with arbitrary lengths and flight sizes - and for EVERY value of the float
   expressions (w_cubic < w_est, w_est, w_cubic_target, the fast-convergence w_max, beta * in_flight;
   NaN and infinities included), in the debug and in the release profile:
   0 < mss <= window(), starting from Cubic::new(). *)
Theorem cubic_window_ge_mss : forall dbg evs c',
  Forall cubic_ev_ok evs -> cubic_run dbg cubic_new evs = Ok c' ->
  0 < cb_mss c' <= cubic_window c'.
Proof.
  intros dbg evs c' Hok H.
  destruct (cubic_run_inv dbg evs cubic_new c' Hok cubic_new_inv H) as (Hm & _ & Hc & _).
  unfold cubic_window. lia.
Qed.

(* same, from any controller state satisfying the invariant (what a re-used socket carries over) *)
Theorem cubic_window_ge_mss_from : forall dbg evs c c',
  cubic_inv c -> Forall cubic_ev_ok evs -> cubic_run dbg c evs = Ok c' ->
  0 < cb_mss c' <= cubic_window c'.
Proof.
  intros dbg evs c c' Hi Hok H.
  destruct (cubic_run_inv dbg evs c c' Hok Hi H) as (Hm & _ & Hc & _). unfold cubic_window. lia.
Qed.

(* ------------------------------------------------------------------------------------------ *)
(* 2. the release profile never panics (the only panic left is the division by cwnd, and cwnd > 0) *)
(* ------------------------------------------------------------------------------------------ *)
Lemma cubic_wrap_release : forall x, exists y, cubic_wrap false x = Ok y.
Proof. intros x. unfold cubic_wrap. destruct (x <=? cubic_usize_max); eauto. Qed.

Lemma cubic_on_ack_release_total : forall c now len fl lt fw ft,
  cubic_inv c -> exists c', cubic_on_ack false c now len fl lt fw ft = Ok c'.
Proof.
  intros c now len fl lt fw ft Hi. unfold cubic_on_ack.
  apply (cubic_absorb_idle_inv c now) in Hi.
  destruct (cubic_absorb_idle c now) as [wmax cwnd mss ss rwnd prior rs fr rto idle].
  unfold cubic_inv in Hi. cb_simpl. destruct Hi as (Hm & H3 & Hc & Hw).
  assert (Hz : (cwnd =? 0) = false) by lia.
  destruct (fl =? 0); cb_simpl;
    (destruct (len =? 0); [eauto|]);
    (destruct fr; [eauto|]);
    (destruct (cwnd <? ss); [eauto|]);
    (destruct rs as [t0|]; cb_simpl;
     [destruct (now - t0 <? 0)|destruct (now - now <? 0)]; [eauto| |eauto|]);
    (destruct lt; [eauto|]);
    unfold cubic_mul, cubic_add, cubic_div; rewrite Hz;
    match goal with |- context [cubic_wrap false ?x] => destruct (cubic_wrap_release x) as (y & ->) end;
    cbn [obind];
    match goal with |- context [cubic_wrap false ?x] => destruct (cubic_wrap_release x) as (y2 & ->) end;
    cbn [obind]; eauto.
Qed.

Lemma cubic_apply_release_total : forall c e,
  cubic_inv c -> exists c', cubic_apply false c e = Ok c'.
Proof.
  intros c e Hi. destruct e; cbn [cubic_apply]; eauto.
  - apply cubic_on_ack_release_total; assumption.
  - unfold cubic_on_loss, cubic_mul.
    destruct (cb_in_fast_recovery (cb_set_idle_start c None)); [eauto|].
    match goal with |- context [cubic_wrap false ?x] => destruct (cubic_wrap_release x) as (y & ->) end.
    cbn [obind].
    match goal with |- context [cubic_wrap false ?x] => destruct (cubic_wrap_release x) as (y2 & ->) end.
    cbn [obind]. eauto.
  - unfold cubic_on_rto, cubic_mul. destruct (cb_in_rto_recovery c); cbn [obind]; [eauto|].
    match goal with |- context [cubic_wrap false ?x] => destruct (cubic_wrap_release x) as (y & ->) end.
    cbn [obind]. eauto.
Qed.

Theorem cubic_release_never_panics : forall evs,
  Forall cubic_ev_ok evs -> exists c', cubic_run false cubic_new evs = Ok c'.
Proof.
  intros evs. generalize cubic_new cubic_new_inv.
  induction evs as [|e evs IH]; intros c Hi Hok; cbn [cubic_run]; [eauto|].
  inversion Hok; subst.
  destruct (cubic_apply_release_total c e Hi) as (c1 & E1). rewrite E1. cbn [obind].
  apply IH; [|assumption]. eapply cubic_apply_inv; eassumption.
Qed.

(* ------------------------------------------------------------------------------------------ *)
(* 3. upper clamp                                                                               *)
(* ------------------------------------------------------------------------------------------ *)
(* If every MSS is at most M, every announced peer window at most W and every `beta * in_flight`
   (the only float that reaches cwnd without passing `.min(rwnd)`: it becomes ssthresh, and cwnd
   is set to ssthresh when fast recovery ends) at most S, the window never exceeds
   max(W + 3 M, S): the largest peer window plus the three-segment fast-recovery inflation, or
   the largest ssthresh. *)
Definition cubic_ev_bounded (M W S : Z) (e : cubic_ev) : Prop :=
  match e with
  | CSetMss m => m <= M
  | CSetRemoteWindow w => w <= W
  | CLoss _ _ _ fs => cubic_as_usize fs <= S
  | CRto _ _ fs => cubic_as_usize fs <= S
  | _ => True
  end.

Definition cubic_bnd (M W S : Z) (c : cubic) : Prop :=
  cb_mss c <= M /\ cb_rwnd c <= W /\ cb_cwnd c <= Z.max (W + 3 * M) S /\
  (cb_in_fast_recovery c = true -> cb_ssthresh c <= Z.max (2 * M) S).

Lemma cubic_absorb_idle_bnd : forall M W S c now, cubic_bnd M W S c -> cubic_bnd M W S (cubic_absorb_idle c now).
Proof.
  intros M W S [wmax cwnd mss ss rwnd prior rs fr rto idle] now H. unfold cubic_absorb_idle, cubic_bnd in *.
  cb_simpl. destruct idle as [i|]; destruct rs as [s|]; try destruct (i <=? now); cb_simpl; exact H.
Qed.

Lemma cubic_wrap_le : forall dbg x y, 0 <= x -> cubic_wrap dbg x = Ok y -> y <= x.
Proof.
  intros dbg x y Hx H. unfold cubic_wrap in H.
  destruct (x <=? cubic_usize_max); [inversion H; lia|].
  destruct dbg; [discriminate|]. inversion H; subst y. apply Z.mod_le; [lia | reflexivity].
Qed.

Lemma cubic_on_ack_bnd : forall M W S dbg c now len fl lt fw ft c',
  0 < M -> 0 <= W -> cubic_inv c -> cubic_bnd M W S c ->
  cubic_on_ack dbg c now len fl lt fw ft = Ok c' -> cubic_bnd M W S c'.
Proof.
  intros M W S dbg c now len fl lt fw ft c' HM HW Hi Hb H. unfold cubic_on_ack, cubic_clamp in H.
  apply (cubic_absorb_idle_inv c now) in Hi. apply (cubic_absorb_idle_bnd M W S c now) in Hb.
  assert (Em : cb_mss (cubic_absorb_idle c now) = cb_mss c).
  { destruct c as [wmax cwnd mss ss rwnd prior rs fr rto idle]. unfold cubic_absorb_idle. cb_simpl.
    destruct idle as [i|]; destruct rs as [s|]; try destruct (i <=? now); reflexivity. }
  rewrite <- Em in H. clear Em.
  destruct (cubic_absorb_idle c now) as [wmax cwnd mss ss rwnd prior rs fr rto idle]. clear c.
  unfold cubic_inv in Hi. unfold cubic_bnd in Hb. cb_simpl.
  destruct Hi as (Hm & H3 & Hc & Hw). destruct Hb as (B1 & B2 & B3 & B4).
  destruct (fl =? 0); cb_simpl;
    (destruct (len =? 0); [inversion H; subst c'; unfold cubic_bnd; cb_simpl; auto|]);
    (destruct fr; [inversion H; subst c'; unfold cubic_bnd; cb_simpl; specialize (B4 eq_refl);
                   repeat split; try lia; try discriminate|]);
    (destruct (cwnd <? ss);
      [inversion H; subst c'; unfold cubic_bnd; cb_simpl; repeat split; try lia; try discriminate|]);
    (destruct rs as [t0|]; cb_simpl;
     [destruct (now - t0 <? 0)|destruct (now - now <? 0)];
     [inversion H; subst c'; unfold cubic_bnd; cb_simpl; repeat split; try lia; try discriminate|
      |inversion H; subst c'; unfold cubic_bnd; cb_simpl; repeat split; try lia; try discriminate|]);
    (destruct lt;
      [inversion H; subst c'; unfold cubic_bnd; cb_simpl; repeat split; try lia; try discriminate|]);
    obind_inv H; obind_inv H; obind_inv H; inversion H; subst c'; unfold cubic_bnd; cb_simpl;
    repeat split; try lia; try discriminate.
Qed.

Lemma cubic_apply_bnd : forall M W S dbg c e c',
  0 < M -> 0 <= W ->
  cubic_ev_ok e -> cubic_ev_bounded M W S e -> cubic_inv c -> cubic_bnd M W S c ->
  cubic_apply dbg c e = Ok c' -> cubic_bnd M W S c'.
Proof.
  intros M W S dbg c e c' HM HW Hok Hbd Hi Hb H.
  destruct e; cbn [cubic_apply cubic_ev_ok cubic_ev_bounded] in *.
  - inversion H; subst c'. destruct Hb as (B1 & B2 & B3 & B4).
    unfold cubic_set_mss, cubic_bnd. cb_simpl. repeat split; try lia; try exact B4.
  - inversion H; subst c'. destruct Hb as (B1 & B2 & B3 & B4). unfold cubic_set_remote_window.
    destruct (Z.ltb_spec (cb_rwnd c) w); unfold cubic_bnd; cb_simpl; repeat split; try lia; try exact B4.
  - eapply cubic_on_ack_bnd; eassumption.
  - inversion H; subst c'. destruct Hb as (B1 & B2 & B3 & B4). destruct Hi as (Hm & H3 & Hc & Hw).
    unfold cubic_on_dup_ack. destruct (cb_in_fast_recovery c) eqn:Ef.
    + unfold cubic_bnd, cubic_clamp. cb_simpl. rewrite Ef. repeat split; try lia; try (intros _; auto).
    + unfold cubic_bnd. rewrite Ef. repeat split; try lia; try discriminate.
  - destruct c as [wmax cwnd mss ss rwnd prior rs fr rto idle].
    destruct Hb as (B1 & B2 & B3 & B4). destruct Hi as (Hm & H3 & Hc & Hw). cb_simpl.
    unfold cubic_on_loss in H. cb_simpl. destruct fr.
    { inversion H; subst c'. unfold cubic_bnd. cb_simpl. repeat split; try lia; try exact B4. }
    unfold cubic_mul in H. rewrite !cubic_wrap_small in H by lia. cbn [obind] in H. cb_simpl.
    inversion H; subst c'. unfold cubic_bnd, cubic_sat_add. cb_simpl.
    pose proof (cubic_as_usize_range f_ss). repeat split; try lia; try (intros _; lia).
  - destruct c as [wmax cwnd mss ss rwnd prior rs fr rto idle].
    destruct Hb as (B1 & B2 & B3 & B4). destruct Hi as (Hm & H3 & Hc & Hw). cb_simpl.
    unfold cubic_on_rto in H. cb_simpl.
    unfold cubic_mul in H. rewrite !cubic_wrap_small in H by lia.
    destruct rto; cbn [obind] in H; cb_simpl; inversion H; subst c'; unfold cubic_bnd; cb_simpl;
      repeat split; try lia; try discriminate.
  - inversion H; subst c'. exact Hb.
  - inversion H; subst c'. apply cubic_absorb_idle_bnd. exact Hb.
Qed.

Lemma cubic_new_bnd : forall M W S,
  cubic_DEFAULT_MSS <= M -> 64 * cubic_DEFAULT_MSS <= W -> cubic_bnd M W S cubic_new.
Proof.
  intros M W S HM HW. unfold cubic_bnd, cubic_new. cb_simpl.
  assert (0 < cubic_DEFAULT_MSS) by reflexivity. repeat split; try lia; try discriminate.
Qed.

Theorem cubic_window_le_bounds : forall dbg M W S evs c',
  cubic_DEFAULT_MSS <= M -> 64 * cubic_DEFAULT_MSS <= W ->
  Forall cubic_ev_ok evs -> Forall (cubic_ev_bounded M W S) evs ->
  cubic_run dbg cubic_new evs = Ok c' ->
  cubic_window c' <= Z.max (W + 3 * M) S.
Proof.
  intros dbg M W S evs c' HM HW Hok Hbd H.
  assert (0 < cubic_DEFAULT_MSS) by reflexivity.
  assert (G : forall c, cubic_inv c -> cubic_bnd M W S c -> cubic_run dbg c evs = Ok c' -> cubic_bnd M W S c').
  { clear H. induction evs as [|e evs IH]; intros c Hi Hb H; cbn [cubic_run] in H.
    - inversion H; subst c'. exact Hb.
    - inversion Hok; subst. inversion Hbd; subst. obind_inv H.
      eapply (IH H4 H6); [| |exact H].
      + eapply cubic_apply_inv; eassumption.
      + eapply cubic_apply_bnd; try eassumption; lia. }
  destruct (G cubic_new cubic_new_inv (cubic_new_bnd M W S HM HW) H) as (_ & _ & B3 & _).
  exact B3.
Qed.

(* ------------------------------------------------------------------------------------------ *)
(* 3b. the debug profile does not panic either when the inputs are of realistic size             *)
(* ------------------------------------------------------------------------------------------ *)
(* additionally: ACK lengths are non-negative (usize) and `w_cubic_target as usize` is at most T
   (in the source it is clamped to 1.5 * cwnd), with max(W + 3 M, S) + T * M <= usize::MAX *)
Definition cubic_ev_small (T : Z) (e : cubic_ev) : Prop :=
  match e with CAck _ len _ _ _ ft => 0 <= len /\ cubic_as_usize ft <= T | _ => True end.

Lemma cubic_on_ack_debug_total : forall M W S T c now len fl lt fw ft,
  cubic_inv c -> cubic_bnd M W S c -> 0 <= len -> cubic_as_usize ft <= T ->
  Z.max (W + 3 * M) S + T * M <= cubic_usize_max ->
  exists c', cubic_on_ack true c now len fl lt fw ft = Ok c'.
Proof.
  intros M W S T c now len fl lt fw ft Hi Hb Hlen HT Hfit. unfold cubic_on_ack.
  apply (cubic_absorb_idle_inv c now) in Hi. apply (cubic_absorb_idle_bnd M W S c now) in Hb.
  assert (Em : cb_mss (cubic_absorb_idle c now) = cb_mss c).
  { destruct c as [wmax cwnd mss ss rwnd prior rs fr rto idle]. unfold cubic_absorb_idle. cb_simpl.
    destruct idle as [i|]; destruct rs as [s|]; try destruct (i <=? now); reflexivity. }
  rewrite <- Em. clear Em.
  destruct (cubic_absorb_idle c now) as [wmax cwnd mss ss rwnd prior rs fr rto idle].
  unfold cubic_inv in Hi. unfold cubic_bnd in Hb. cb_simpl.
  destruct Hi as (Hm & H3 & Hc & Hw). destruct Hb as (B1 & B2 & B3 & B4).
  assert (Hz : (cwnd =? 0) = false) by lia.
  pose proof (cubic_as_usize_range ft) as Rt.
  set (d := cubic_sat_sub (cubic_as_usize ft) cwnd).
  set (sg := Z.min len mss).
  assert (Hd : 0 <= d <= T) by (unfold d, cubic_sat_sub; lia).
  assert (Hs : 0 <= sg <= M) by (unfold sg; lia).
  assert (Hp : 0 <= d * sg <= T * M).
  { split; [apply Z.mul_nonneg_nonneg; lia | apply Z.mul_le_mono_nonneg; lia]. }
  assert (Hq : 0 <= d * sg / cwnd <= T * M).
  { split; [apply Z.div_pos; lia|].
    apply Z.le_trans with (d * sg); [|lia]. apply Z.div_le_upper_bound; [lia|].
    replace (d * sg) with (1 * (d * sg)) at 1 by lia. apply Z.mul_le_mono_nonneg_r; lia. }
  destruct (fl =? 0); cb_simpl;
    (destruct (len =? 0); [eauto|]);
    (destruct fr; [eauto|]);
    (destruct (cwnd <? ss); [eauto|]);
    (destruct rs as [t0|]; cb_simpl;
     [destruct (now - t0 <? 0)|destruct (now - now <? 0)]; [eauto| |eauto|]);
    (destruct lt; [eauto|]);
    unfold cubic_mul, cubic_add, cubic_div; fold d; fold sg;
    rewrite (cubic_wrap_small true (d * sg)) by lia; cbn [obind]; rewrite Hz; cbn [obind];
    rewrite (cubic_wrap_small true (cwnd + d * sg / cwnd)) by lia; cbn [obind]; eauto.
Qed.

Theorem cubic_debug_never_panics : forall M W S T evs,
  cubic_DEFAULT_MSS <= M -> 64 * cubic_DEFAULT_MSS <= W ->
  Z.max (W + 3 * M) S + T * M <= cubic_usize_max ->
  Forall cubic_ev_ok evs -> Forall (cubic_ev_bounded M W S) evs -> Forall (cubic_ev_small T) evs ->
  exists c', cubic_run true cubic_new evs = Ok c'.
Proof.
  intros M W S T evs HM HW Hfit.
  assert (0 < cubic_DEFAULT_MSS) by reflexivity.
  generalize cubic_new cubic_new_inv (cubic_new_bnd M W S HM HW).
  induction evs as [|e evs IH]; intros c Hi Hb Hok Hbd Hsm; cbn [cubic_run]; [eauto|].
  inversion Hok; subst. inversion Hbd; subst. inversion Hsm; subst.
  assert (E : exists c1, cubic_apply true c e = Ok c1).
  { destruct e; cbn [cubic_apply]; eauto.
    - cbn [cubic_ev_small] in *. eapply cubic_on_ack_debug_total; try eassumption; tauto.
    - destruct c as [wmax cwnd mss ss rwnd prior rs fr rto idle].
      destruct Hi as (Hm & Hm3 & Hc & Hw). cb_simpl.
      unfold cubic_on_loss, cubic_mul. cb_simpl. destruct fr; [eauto|].
      rewrite !cubic_wrap_small by lia. cbn [obind]. eauto.
    - destruct c as [wmax cwnd mss ss rwnd prior rs fr rto idle].
      destruct Hi as (Hm & Hm3 & Hc & Hw). cb_simpl.
      unfold cubic_on_rto, cubic_mul. cb_simpl. rewrite !cubic_wrap_small by lia.
      destruct rto; cbn [obind]; eauto. }
  destruct E as (c1 & E1). rewrite E1. cbn [obind].
  apply IH; try assumption.
  - eapply cubic_apply_inv; eassumption.
  - eapply cubic_apply_bnd; try eassumption; lia.
Qed.

(* ------------------------------------------------------------------------------------------ *)
(* 4. the counter-models that prompted the two repairs (the unrepaired code, faithfully)         *)
(* ------------------------------------------------------------------------------------------ *)
(* before the set_mss repair: a SYN retransmission timeout (on_rto: cwnd = mss = 1024) followed by
   a SYN|ACK announcing MSS 1460 leaves cwnd = 1024 < mss = 1460
   (real crate: corpus/C02/cubic-set-mss-cwnd-below-mss.case, first data segment 1024 octets) *)
Example cubic_unrepaired_set_mss_refuted :
  exists c1, cubic_on_rto true cubic_new 1000000 1 (Some 0) = Ok c1 /\
  let c2 := cubic_set_mss_unrepaired c1 1460 in
  cubic_window c2 = 1024 /\ cb_mss c2 = 1460.
Proof. eexists. split; [vm_compute; reflexivity|]. vm_compute. split; reflexivity. Qed.

(* before the fast-recovery repair (set_mss already repaired): a connection with MSS 536 enters fast
   recovery (ssthresh = max(beta * 1072, 2 * 536) = 1072) and ends; the socket is re-used
   (Socket::reset keeps the controller), the new peer announces MSS 1460, the first new-data ACK
   leaves fast recovery with cwnd = ssthresh = 1072 < mss = 1460
   (real crate: corpus/C02/cubic-fast-recovery-exit-below-mss.case) *)
Example cubic_unrepaired_fr_exit_refuted :
  exists c1, cubic_on_loss true (cubic_set_mss cubic_new 536) 0 1072 None (Some 750) = Ok c1 /\
  cb_in_fast_recovery c1 = true /\
  let c2 := cubic_fr_exit_unrepaired (cubic_set_mss c1 1460) in
  cubic_window c2 = 1072 /\ cb_mss c2 = 1460.
Proof. eexists. split; [vm_compute; reflexivity|]. vm_compute. repeat split; reflexivity. Qed.

(* non-vacuity of the theorems: a run through every branch (slow start, fast recovery and its
   exit, both congestion-avoidance branches with NaN / negative / infinite float results, RTO)
   returns Ok in the debug profile *)
Example cubic_run_example :
  exists c', cubic_run true cubic_new
    [CSetMss 1460; CSetRemoteWindow 100000; CPreTransmit 0; CPostTransmit 0 1460;
     CAck 1000 1460 0 false None None;
     CLoss 2000 8000 (Some 3000) (Some 5600); CDupAck 2100 1460 8000;
     CAck 3000 1460 4000 false None None;
     CAck 4000 1460 4000 true None (Some 0);
     CAck 5000 1460 4000 true (Some (-5)) None;
     CAck 6000 1460 4000 false None (Some (2 ^ 70));
     CAck 7000 1460 4000 false None (Some 9000);
     CRto 9000 4000 None; CSetMss 9000] = Ok c' /\ cubic_window c' = 9000.
Proof. eexists. split; vm_compute; reflexivity. Qed.
