(* C01, layer 3: the system invariant [INV] (Proofs/TcpNetCompose.v) holds in every reachable state
   of the two-endpoint model, for every stream oracle compatible with that state; the end-to-end
   theorems follow.  Everything here is parametric in the C05 contract (Section hypothesis [c05],
   [c05new]); Proofs/TcpNetProofs.v instantiates it. *)
From SV Require Import Lib.Base Gen.Consts.
From SV Require Import Model.Seq32 Model.Assembler Model.TcpBuf Model.TcpTypes Model.Tcp Model.TcpNet.
From SV Require Import Proofs.AssemblerProofs Proofs.TcpRecvBase Proofs.TcpRecvWindow
  Proofs.TcpRecvPayload Proofs.TcpRecvInv Proofs.TcpRecvProcess Proofs.TcpRecvStep
  Proofs.TcpRecvSync Proofs.TcpRecvDispatch Proofs.TcpRecvTrace Proofs.TcpRecvTheorems.
From SV Require Import Proofs.TcpSendBase Proofs.TcpSendInv.
From SV Require Import Proofs.TcpNetBase Proofs.TcpNetFrame Proofs.TcpNetContract Proofs.TcpNetCompose.

(* a dead sender half stays dead *)
Lemma dead_step cx s ev s' out tags gt gt' :
  run_ev ev -> tcp_step cx s ev = Ok (s', out, tags) -> inv gt' s' ->
  tx_same gt s ev gt' out \/ tx_new cx gt s ev gt' s' out ->
  dead_tx gt s -> dead_tx gt' s' /\ out_rst_only out.
Proof.
  intros Hrun Hstep Hi' Hrel (Dc & Db).
  destruct (step_le _ _ _ _ _ _ Hrun Hstep) as (_ & _ & HC).
  destruct (HC Dc) as (Hc' & Hrst & Hsend & _).
  split; [|exact Hrst]. split; [exact Hc'|].
  destruct Hrel as [Hs | (Hb' & _)]; [|exact Hb'].
  pose proof Hs as (_ & Hst & Hfin & _).
  destruct Db as (B1 & B2 & B3). unfold tx_blank. rewrite Hst, Hfin, B1, B2.
  split; [|split].
  - unfold log_written. destruct ev; try reflexivity. destruct (Hsend data eq_refl) as (e & ->). reflexivity.
  - unfold log_closed. destruct ev; try reflexivity. rewrite Dc. reflexivity.
  - eapply same_closed_syn; eassumption.
Qed.

(* how a synchronised receiver ghost can lose synchronisation in a run *)
Lemma unsync_cases cx gr s ev s' out tags irs :
  run_ev ev -> tcp_step cx s ev = Ok (s', out, tags) ->
  g_irs gr = Some irs -> g_irs (ghost_step cx gr s ev s' out) = None ->
  s_state s' = Listen \/ s_state s' = Closed.
Proof.
  intros Hrun Hstep Hi Hn. destruct ev; try contradiction; cbn [ghost_step] in Hn; try congruence.
  - destruct out; cbn [g_irs] in Hn; congruence.
  - rewrite Hi in Hn. destruct (is_state s' Listen) eqn:El; [|cbn [g_irs] in Hn; congruence].
    left. apply is_state_true. exact El.
  - destruct (dispatch_resets cx s) eqn:Ed; [|congruence].
    right. cbn [tcp_step] in Hstep. apply obind_ok_inv in Hstep.
    destruct Hstep as (((s1 & res) & tg) & Hd & Hstep). inversion Hstep; subst.
    apply (dispatch_resets_closed _ _ _ _ _ _ Ed Hd).
Qed.

(* a synchronisation happens by a segment, into SYN-RECEIVED or ESTABLISHED *)
Lemma sync_cases cx gr s ev s' out irs' :
  run_ev ev -> g_irs gr = None -> g_irs (ghost_step cx gr s ev s' out) = Some irs' ->
  exists ip r, ev = EvSegment ip r /\ irs' = r_seq_number r /\
               (s_state s' = SynReceived \/ s_state s' = Established).
Proof.
  intros Hrun Hi Hn. destruct ev; try contradiction; cbn [ghost_step] in Hn; try congruence.
  - destruct out; cbn [g_irs] in Hn; congruence.
  - rewrite Hi in Hn. destruct (is_state s' SynReceived) eqn:E1; [|destruct (is_state s' Established) eqn:E2].
    + cbn [orb g_irs] in Hn. inversion Hn. exists ip, r. split; [reflexivity|]. split; [reflexivity|].
      left. apply is_state_true. exact E1.
    + cbn [orb g_irs] in Hn. inversion Hn. exists ip, r. split; [reflexivity|]. split; [reflexivity|].
      right. apply is_state_true. exact E2.
    + cbn [orb] in Hn. congruence.
  - destruct (dispatch_resets cx s); cbn [g_unsync g_irs] in Hn; congruence.
Qed.

Section Inv.
  Hypothesis c05 : c05_contract.

  (* ------------------------------------------------------------------------------------ *)
  (* endpoint A performs a socket event                                                    *)
  (* ------------------------------------------------------------------------------------ *)
  Lemma INV_stepA Sa Fa Sb Fb isn ga gb st ev ea' s' out tags :
    INV Sa Fa Sb Fb isn ga gb st ->
    run_ev ev -> tcp_step (ep_cx (n_a st)) (ep_sock (n_a st)) ev = Ok (s', out, tags) ->
    xfacts (n_a st) ev ea' s' out ->
    incl (ep_out ea') (ep_sent ea') ->
    compat Sa Fa ea' -> compat Sb Fb (n_b st) ->
    (forall ip r, ev = EvSegment ip r ->
       exists p, In p (ep_sent (n_b st)) /\ ip = fst p /\ r = wire_parse (snd p) /\
                 seg_age (n_a st) (n_b st) (snd p)) ->
    (forall n, ev = EvRecv n -> 0 <= n) ->
    exists ga', INV Sa Fa Sb Fb isn ga' gb (mkNet ea' (n_b st)) /\
                (ep_closed (n_a st) = true -> ep_written ea' = ep_written (n_a st)).
  Proof.
    intros (HEPa & HEPb & HDab & HDba & Hroles & Hchan) Hrun Hstep Hxf Hinc Hca Hcb Hseg Hrecv.
    destruct Hroles as (Hisn & R1 & R2 & R3 & R4 & R5 & R6 & R7 & R8).
    set (ea := n_a st) in *. set (eb := n_b st) in *.
    destruct (step_le _ _ _ _ _ _ Hrun Hstep) as (HL1 & HL2 & HC).
    set (gr' := ghost_step (ep_cx ea) (eg_rx ga) (ep_sock ea) ev s' out).
    assert (Hnl' : s_state s' <> Listen).
    { intros E. destruct (HL2 E) as [E'|E']; [exact (R2 E') | exact (E' R1)]. }
    (* A never re-synchronises *)
    assert (Hnosync : forall irs', g_irs (eg_rx ga) = None -> g_irs gr' = Some irs' -> eg_K ga = None).
    { intros irs' Hn Hs. destruct (eg_K ga) as [k|] eqn:EK; [|reflexivity]. exfalso.
      pose proof (R7 Hn ltac:(congruence)) as Hcl. destruct (HC Hcl) as (Hcl' & _).
      destruct (sync_cases _ _ _ _ _ _ _ Hrun Hn Hs) as (_ & _ & _ & _ & [E|E]); congruence. }
    destruct (xstep c05 Sb Fb Sa Fa ea ga eb gb ev ea' s' out tags HEPa HEPb HDab HDba Hca Hcb Hrun Hstep Hxf Hseg Hrecv)
      as (gt' & HEPa' & HDab' & HDba' & Hinv' & Hrel & Hpk & HJnew & Hfrozen).
    { intros irs' Hn Hs k HK. rewrite (Hnosync irs' Hn Hs) in HK. discriminate. }
    { intros irs' j Hn Hs HK HJ. rewrite (R8 j HJ) in HK. discriminate. }
    fold gr' in HEPa', HDab', HDba', HJnew.
    set (ga' := next_g ga gt' gr' s') in *.
    exists ga'. split; [|exact Hfrozen].
    destruct Hxf as (X1 & X2 & X3 & _).
    (* the sender half of A: still on its one ISS, or dead *)
    assert (HR3' : sq (g_iss gt') = isn \/ dead_tx gt' s').
    { destruct R3 as [E | Hdead].
      - destruct Hrel as [(Hiss & _) | (Hb' & [(Hc' & _) | Hevn])].
        + left. rewrite Hiss. exact E.
        + right. split; assumption.
        + exfalso. destruct ev; try contradiction. destruct Hevn as (_ & [E'|E']); [exact (R2 E') | exact (Hnl' E')].
      - right. apply (dead_step _ _ _ _ _ _ _ _ Hrun Hstep Hinv' Hrel Hdead). }
    unfold INV. cbn [n_a n_b].
    split; [exact HEPa'|]. split; [exact HEPb|]. split; [exact HDab'|]. split; [exact HDba'|].
    split.
    - unfold ROLES. rewrite X1. split; [exact Hisn|].
      split; [destruct HL1 as [E|E]; [rewrite E; exact R1 | exact E]|].
      split; [exact Hnl'|].
      split; [exact HR3'|].
      split.
      { (* SYNs of A carry isn *)
        intros p Hin Hsyn. rewrite X3 in Hin. apply in_app_or in Hin. destruct Hin as [Hin|Hin]; [apply R4; assumption|].
        destruct (wire_out out) as [q|] eqn:Ew; cbn in Hin; [|contradiction]. destruct Hin as [<- | []].
        destruct (wire_out_emitted _ _ Ew) as (_ & Ht).
        destruct R3 as [E | Hdead].
        - destruct Hrel as [(Hiss & _) | (_ & [(_ & Hnone) | Hevn])].
          + destruct (Hpk q Ht) as (_ & Hs & _). destruct (Hs Hsyn) as (_ & ->).
            rewrite Hiss. exact E.
          + congruence.
          + exfalso. destruct ev; try contradiction. destruct Hevn as (_ & [E'|E']); [exact (R2 E') | exact (Hnl' E')].
        - exfalso. destruct (dead_step _ _ _ _ _ _ _ _ Hrun Hstep Hinv' Hrel Hdead) as (_ & Hrst).
          unfold out_rst_only in Hrst. destruct out as [| | | |[q'|]|[|q'|q']]; cbn in Ew; inversion Ew; subst;
            congruence. }
      split.
      { intros j Hj. unfold ga', next_g in Hj. cbn [eg_J] in Hj. unfold next_J in Hj.
        destruct (eg_J ga) as [j0|] eqn:EJ; [inversion Hj; subst; apply R5; reflexivity|].
        destruct (phase_syn gt') eqn:Ep; [discriminate|]. inversion Hj; subst j. apply phase_syn_false in Ep.
        destruct HR3' as [E|(_ & (_ & _ & Hp))]; [exact E | congruence]. }
      split; [exact R6|].
      split.
      { unfold ga', next_g. cbn [eg_rx eg_K]. intros Hn HK.
        destruct (g_irs (eg_rx ga)) as [irs|] eqn:Ei.
        - destruct (unsync_cases _ _ _ _ _ _ _ irs Hrun Hstep Ei Hn) as [E|E]; [contradiction | exact E].
        - assert (HK0 : eg_K ga <> None).
          { unfold next_K in HK. destruct (eg_K ga); [discriminate|]. fold gr' in Hn. congruence. }
          apply (HC (R7 eq_refl HK0)). }
      { intros j Hj. unfold ga', next_g. cbn [eg_K]. unfold next_K. rewrite (R8 j Hj). reflexivity. }
    - (* channel *)
      intros [|]; cbn [net_get n_a n_b]; [exact Hinc | apply (Hchan SB)].
  Qed.

  (* ------------------------------------------------------------------------------------ *)
  (* endpoint B performs a socket event                                                    *)
  (* ------------------------------------------------------------------------------------ *)
  Lemma INV_stepB Sa Fa Sb Fb isn ga gb st ev eb' s' out tags :
    INV Sa Fa Sb Fb isn ga gb st ->
    run_ev ev -> tcp_step (ep_cx (n_b st)) (ep_sock (n_b st)) ev = Ok (s', out, tags) ->
    xfacts (n_b st) ev eb' s' out ->
    incl (ep_out eb') (ep_sent eb') ->
    compat Sa Fa (n_a st) -> compat Sb Fb eb' ->
    (forall ip r, ev = EvSegment ip r ->
       exists p, In p (ep_sent (n_a st)) /\ ip = fst p /\ r = wire_parse (snd p) /\
                 seg_age (n_b st) (n_a st) (snd p)) ->
    (forall n, ev = EvRecv n -> 0 <= n) ->
    exists gb', INV Sa Fa Sb Fb isn ga gb' (mkNet (n_a st) eb') /\
                (ep_closed (n_b st) = true -> ep_written eb' = ep_written (n_b st)).
  Proof.
    intros (HEPa & HEPb & HDab & HDba & Hroles & Hchan) Hrun Hstep Hxf Hinc Hca Hcb Hseg Hrecv.
    destruct Hroles as (Hisn & R1 & R2 & R3 & R4 & R5 & R6 & R7 & R8).
    set (ea := n_a st) in *. set (eb := n_b st) in *.
    set (gr' := ghost_step (ep_cx eb) (eg_rx gb) (ep_sock eb) ev s' out).
    pose proof (compat_F_nonneg _ _ _ Hca) as HFnn.
    (* B synchronises only to A's one initial sequence number *)
    assert (Hsync : forall irs', g_irs (eg_rx gb) = None -> g_irs gr' = Some irs' -> irs' = isn).
    { intros irs' Hn Hs.
      destruct (sync_cases _ _ _ _ _ _ _ Hrun Hn Hs) as (ip & r & -> & -> & _).
      destruct (Hseg ip r eq_refl) as (p & Hin & -> & -> & _).
      destruct (wire_parse_fields (snd p)) as (_ & P2 & P3 & _).
      destruct HEPb as (_ & _ & Hg & _).
      assert (Hev : ev_ok (fun _ => Sa) (fun _ => Fa) (eg_rx gb) (ep_sock eb) (EvSegment (fst p) (wire_parse (snd p)))).
      { split; [rewrite P2; apply seq_norm_range|]. rewrite Hn. exact I. }
      destruct (sync_only_by_syn (fun _ => Sa) (fun _ => Fa) (Fx_nonneg Fa HFnn) _ _ _ _ _ _ _ _ Hg Hev Hstep Hn) as (Hsyn & _).
      { fold gr'. congruence. }
      rewrite P2. rewrite (R4 p Hin); [apply seq_norm_small; exact Hisn | rewrite <- P3; exact Hsyn]. }
    destruct (xstep c05 Sa Fa Sb Fb eb gb ea ga ev eb' s' out tags HEPb HEPa HDba HDab Hcb Hca Hrun Hstep Hxf Hseg Hrecv)
      as (gt' & HEPb' & HDba' & HDab' & Hinv' & Hrel & Hpk & HJnew & Hfrozen).
    { intros irs' Hn Hs k HK. rewrite (Hsync irs' Hn Hs). apply R6. exact HK. }
    { intros irs' j Hn Hs HK HJ. rewrite (Hsync irs' Hn Hs). symmetry. apply R5. exact HJ. }
    fold gr' in HEPb', HDab', HDba', HJnew.
    set (gb' := next_g gb gt' gr' s') in *.
    exists gb'. split; [|exact Hfrozen].
    unfold INV. cbn [n_a n_b].
    split; [exact HEPa|]. split; [exact HEPb'|]. split; [exact HDab'|]. split; [exact HDba'|].
    split.
    - unfold ROLES. split; [exact Hisn|]. split; [exact R1|]. split; [exact R2|]. split; [exact R3|].
      split; [exact R4|]. split; [exact R5|].
      split.
      { intros k HK. unfold gb', next_g in HK. cbn [eg_K] in HK. unfold next_K in HK.
        destruct (eg_K gb) as [k0|] eqn:EK; [inversion HK; subst; apply R6; reflexivity|].
        assert (Hn : g_irs (eg_rx gb) = None).
        { destruct HEPb as (_ & _ & _ & _ & _ & _ & (_ & _ & Hk)). rewrite EK in Hk.
          destruct (g_irs (eg_rx gb)); [destruct Hk; discriminate | reflexivity]. }
        apply (Hsync k Hn HK). }
      split; [exact R7|].
      { intros j Hj.
        destruct (eg_J gb) as [j0|] eqn:EJ.
        - unfold gb', next_g in Hj. cbn [eg_J] in Hj. rewrite EJ in Hj.
          unfold next_J in Hj. inversion Hj; subst. apply R8. reflexivity.
        - apply (HJnew eq_refl j). exact Hj. }
    - intros [|]; cbn [net_get n_a n_b]; [apply (Hchan SA) | exact Hinc].
  Qed.

  (* ------------------------------------------------------------------------------------ *)
  (* any step of the system                                                                *)
  (* ------------------------------------------------------------------------------------ *)
  Definition frozen (st st' : net) : Prop :=
    forall x, ep_closed (net_get st x) = true -> ep_written (net_get st' x) = ep_written (net_get st x).

  Lemma INV_ep_step Sa Fa Sb Fb isn ga gb st x ev e :
    INV Sa Fa Sb Fb isn ga gb st ->
    run_ev ev -> ep_step (net_get st x) ev = Ok e ->
    let st' := net_set st x e in
    compat Sa Fa (n_a st') -> compat Sb Fb (n_b st') ->
    (forall ip r, ev = EvSegment ip r ->
       exists p, In p (ep_sent (net_get st (side_other x))) /\ ip = fst p /\ r = wire_parse (snd p) /\
                 seg_age (net_get st x) (net_get st (side_other x)) (snd p)) ->
    (forall n, ev = EvRecv n -> 0 <= n) ->
    exists ga' gb', INV Sa Fa Sb Fb isn ga' gb' st' /\ frozen st st'.
  Proof.
    intros Hinv Hrun Hep st' Hca Hcb Hseg Hrecv.
    destruct (ep_step_spec _ _ _ Hep) as (s' & out & tags & Hstep & X1 & X2 & X3 & X4 & X5 & X6 & X7 & X8).
    assert (Hxf : xfacts (net_get st x) ev e s' out) by (unfold xfacts; repeat split; assumption).
    assert (Hinc : incl (ep_out e) (ep_sent e)).
    { eapply ep_step_chan; [exact Hep|]. destruct Hinv as (_ & _ & _ & _ & _ & Hchan). apply Hchan. }
    destruct x; cbn [net_get net_set side_other] in *.
    - destruct (INV_stepA Sa Fa Sb Fb isn ga gb st ev e s' out tags Hinv Hrun Hstep Hxf Hinc Hca Hcb Hseg Hrecv)
        as (ga' & Hinv' & Hfr).
      exists ga', gb. split; [exact Hinv'|]. intros [|]; cbn [net_get n_a n_b]; [exact Hfr | reflexivity].
    - destruct (INV_stepB Sa Fa Sb Fb isn ga gb st ev e s' out tags Hinv Hrun Hstep Hxf Hinc Hca Hcb Hseg Hrecv)
        as (gb' & Hinv' & Hfr).
      exists ga, gb'. split; [exact Hinv'|]. intros [|]; cbn [net_get n_a n_b]; [reflexivity | exact Hfr].
  Qed.

  (* the sockets and logs are untouched: only contexts / channels change *)
  Lemma EP_same S F e e' g :
    ep_sock e' = ep_sock e -> ctx_ok (ep_cx e') /\ mtu_ok (ep_cx e') ->
    ep_written e' = ep_written e -> ep_read e' = ep_read e ->
    ep_closed e' = ep_closed e -> ep_finished e' = ep_finished e ->
    EP S F e g -> EP S F e' g.
  Proof.
    intros E1 (Hcx & Hmtu) E3 E4 E5 E6 (H1 & (_ & (_ & Hlive)) & H3 & H4 & H5 & H6 & H7).
    unfold EP, txl, rxl, dead_tx, live_ok in *. rewrite E1, E3, E4, E5, E6.
    split; [exact H1|]. split; [split; [exact Hcx | split; [exact Hmtu | exact Hlive]]|]. split; [exact H3|]. split; [exact H4|].
    split; [exact H5|]. split; [exact H6 | exact H7].
  Qed.

  Lemma INV_same Sa Fa Sb Fb isn ga gb st st' :
    INV Sa Fa Sb Fb isn ga gb st ->
    (forall x, ep_sock (net_get st' x) = ep_sock (net_get st x) /\
               (ctx_ok (ep_cx (net_get st' x)) /\ mtu_ok (ep_cx (net_get st' x))) /\
               ep_written (net_get st' x) = ep_written (net_get st x) /\
               ep_read (net_get st' x) = ep_read (net_get st x) /\
               ep_closed (net_get st' x) = ep_closed (net_get st x) /\
               ep_finished (net_get st' x) = ep_finished (net_get st x) /\
               ep_sent (net_get st' x) = ep_sent (net_get st x) /\
               incl (ep_out (net_get st' x)) (ep_out (net_get st x))) ->
    INV Sa Fa Sb Fb isn ga gb st'.
  Proof.
    intros (HEPa & HEPb & HDab & HDba & Hroles & Hchan) Hs.
    destruct (Hs SA) as (A1 & A2 & A3 & A4 & A5 & A6 & A7 & A8).
    destruct (Hs SB) as (B1 & B2 & B3 & B4 & B5 & B6 & B7 & B8). cbn [net_get] in *.
    unfold INV.
    split; [eapply EP_same; eassumption|]. split; [eapply EP_same; eassumption|].
    split; [unfold DIR in *; rewrite A7, A3, B7, B4; exact HDab|].
    split; [unfold DIR in *; rewrite B7, B3, A7, A4; exact HDba|].
    split; [unfold ROLES, dead_tx in *; rewrite A1, A7; exact Hroles|].
    intros [|]; cbn [net_get]; [rewrite A7 | rewrite B7];
      (eapply incl_tran; [eassumption|]); [apply (Hchan SA) | apply (Hchan SB)].
  Qed.

  Lemma ctx_ok_tick c d : ctx_ok c /\ mtu_ok c -> ctx_ok (cx_tick c d) /\ mtu_ok (cx_tick c d).
  Proof. unfold ctx_ok, mtu_ok, cx_tick. cbn. tauto. Qed.
  Lemma ctx_ok_rand c i t : ctx_ok c /\ mtu_ok c -> ctx_ok (cx_rand c i t) /\ mtu_ok (cx_rand c i t).
  Proof.
    unfold ctx_ok, mtu_ok, cx_rand. cbn. intros ((_ & H) & Hm). split; [|exact Hm]. split; [|exact H].
    change (2 ^ 32) with 4294967296. lia.
  Qed.

  Ltac same8 tctx tincl :=
    split; [reflexivity|split; [tctx|split; [reflexivity|split; [reflexivity|split; [reflexivity|
    split; [reflexivity|split; [reflexivity|tincl]]]]]]].

  Lemma INV_step Sa Fa Sb Fb isn ga gb st ev st' :
    INV Sa Fa Sb Fb isn ga gb st -> net_step st ev = Ok st' -> ev_age st ev ->
    compat Sa Fa (n_a st') -> compat Sb Fb (n_b st') ->
    exists ga' gb', INV Sa Fa Sb Fb isn ga' gb' st' /\ frozen st st'.
  Proof.
    intros Hinv Hstep Hage Hca Hcb.
    assert (Hfr0 : forall st1, (forall x, ep_written (net_get st1 x) = ep_written (net_get st x)) -> frozen st st1).
    { intros st1 H x _. apply H. }
    assert (Hsame : forall st1,
      (forall x, ep_sock (net_get st1 x) = ep_sock (net_get st x) /\
               (ctx_ok (ep_cx (net_get st1 x)) /\ mtu_ok (ep_cx (net_get st1 x))) /\
               ep_written (net_get st1 x) = ep_written (net_get st x) /\
               ep_read (net_get st1 x) = ep_read (net_get st x) /\
               ep_closed (net_get st1 x) = ep_closed (net_get st x) /\
               ep_finished (net_get st1 x) = ep_finished (net_get st x) /\
               ep_sent (net_get st1 x) = ep_sent (net_get st x) /\
               incl (ep_out (net_get st1 x)) (ep_out (net_get st x))) ->
      exists ga' gb', INV Sa Fa Sb Fb isn ga' gb' st1 /\ frozen st st1).
    { intros st1 H. exists ga, gb. split; [eapply INV_same; eassumption|]. apply Hfr0. intros x. apply (H x). }
    assert (Hcxok : forall x, ctx_ok (ep_cx (net_get st x)) /\ mtu_ok (ep_cx (net_get st x))).
    { destruct Hinv as ((_ & (Ha & (Ha' & _)) & _) & (_ & (Hb & (Hb' & _)) & _) & _).
      intros [|]; split; assumption. }
    assert (Hep : forall x ev0,
      run_ev ev0 -> (do e <- ep_step (net_get st x) ev0; Ok (net_set st x e)) = Ok st' ->
      (forall ip r, ev0 = EvSegment ip r ->
         exists p, In p (ep_sent (net_get st (side_other x))) /\ ip = fst p /\ r = wire_parse (snd p) /\
                   seg_age (net_get st x) (net_get st (side_other x)) (snd p)) ->
      (forall n, ev0 = EvRecv n -> 0 <= n) ->
      exists ga' gb', INV Sa Fa Sb Fb isn ga' gb' st' /\ frozen st st').
    { intros x ev0 Hrun Hb Hseg Hrecv. apply obind_ok in Hb. destruct Hb as (e & He & Hb). inversion Hb; subst st'.
      eapply INV_ep_step; eassumption. }
    unfold net_step in Hstep. destruct ev.
    - (* deliver *)
      cbn [ev_age] in Hage.
      destruct (nth_error (ep_out (net_get st (side_other to))) i) as [p|] eqn:En.
      + apply (Hep to (EvSegment (fst p) (wire_parse (snd p))) I Hstep).
        * intros ip r E. inversion E; subst. exists p. split; [|split; [reflexivity|split; [reflexivity | exact Hage]]].
          destruct Hinv as (_ & _ & _ & _ & _ & Hchan). apply Hchan. eapply nth_error_In. exact En.
        * intros n E. discriminate.
      + inversion Hstep; subst st'. apply Hsame. intros x. same8 ltac:(apply Hcxok) ltac:(apply incl_refl).
    - (* drop *)
      inversion Hstep; subst st'. apply Hsame. intros x. destruct (side_cases (side_other to) x) as [-> | ->].
      + rewrite net_get_set_same. cbn [ep_set_out ep_sock ep_cx ep_written ep_read ep_closed ep_finished ep_sent ep_out].
        same8 ltac:(apply Hcxok) ltac:(apply remove_nth_incl).
      + rewrite net_get_set_other. same8 ltac:(apply Hcxok) ltac:(apply incl_refl).
    - (* corrupt = drop (C08) *)
      inversion Hstep; subst st'. apply Hsame. intros x. destruct (side_cases (side_other to) x) as [-> | ->].
      + rewrite net_get_set_same. cbn [ep_set_out ep_sock ep_cx ep_written ep_read ep_closed ep_finished ep_sent ep_out].
        same8 ltac:(apply Hcxok) ltac:(apply remove_nth_incl).
      + rewrite net_get_set_other. same8 ltac:(apply Hcxok) ltac:(apply incl_refl).
    - (* tick *)
      inversion Hstep; subst st'. apply Hsame.
      intros [|]; cbn [net_get n_a n_b ep_set_cx ep_sock ep_cx ep_written ep_read ep_closed ep_finished ep_sent ep_out].
      + same8 ltac:(apply ctx_ok_tick; apply (Hcxok SA)) ltac:(apply incl_refl).
      + same8 ltac:(apply ctx_ok_tick; apply (Hcxok SB)) ltac:(apply incl_refl).
    - (* rand *)
      inversion Hstep; subst st'. apply Hsame. intros y. destruct (side_cases x y) as [-> | ->].
      + rewrite net_get_set_same. cbn [ep_set_cx ep_sock ep_cx ep_written ep_read ep_closed ep_finished ep_sent ep_out].
        same8 ltac:(apply ctx_ok_rand; apply Hcxok) ltac:(apply incl_refl).
      + rewrite net_get_set_other. same8 ltac:(apply Hcxok) ltac:(apply incl_refl).
    - apply (Hep x (EvDispatch emit_ok) I Hstep); intros; discriminate.
    - apply (Hep x (EvSend data) I Hstep); intros; discriminate.
    - apply (Hep x (EvRecv (Z.max 0 n)) I Hstep); [intros; discriminate|]. intros n0 E. inversion E. lia.
    - apply (Hep x EvClose I Hstep); intros; discriminate.
  Qed.

  (* ------------------------------------------------------------------------------------ *)
  (* the initial state                                                                     *)
  (* ------------------------------------------------------------------------------------ *)
  Hypothesis c05new : c05_contract_new.

  Definition cfg_ok (c : ep_config) : Prop :=
    l_len (c_tx_storage c) <= 2 ^ 30 /\ 52 < c_mtu c <= 65575 /\ TcpLiveBase.cc_ok (c_cc c).

  Definition init_ev (ev : event) : Prop :=
    match ev with
    | EvSetTimeout _ | EvSetKeepAlive _ | EvSetAckDelay _ | EvSetNagle _ | EvSetHopLimit _
    | EvListen _ | EvConnect _ _ _ => True
    | _ => False
    end.

  (* an endpoint before the first run event: nothing written, read or sent, both ghosts blank *)
  Definition IE (S : Z -> Z) (F : option Z) (e : endpoint) (gt : txghost) (gr : rxghost) : Prop :=
    inv gt (ep_sock e) /\ (ctx_ok (ep_cx e) /\ live_ok e) /\ ginv (fun _ => S) (fun _ => F) gr (ep_sock e) /\
    tx_blank gt /\ g_irs gr = None /\ (forall k, ~ g_have gr k) /\
    ep_sent e = [] /\ ep_out e = [] /\ ep_written e = [] /\ ep_read e = [] /\
    ep_closed e = false /\ ep_finished e = false.

  Lemma IE_step S F (HF : forall f, F = Some f -> 0 <= f) e gt gr ev e' :
    IE S F e gt gr -> init_ev ev -> ep_step e ev = Ok e' ->
    exists gt' gr', IE S F e' gt' gr'.
  Proof.
    intros (Hi & (Hcx & (Hmtu & Hlive)) & Hg & Hb & Hn & Hh & E1 & E2 & E3 & E4 & E5 & E6) Hev Hep.
    destruct (ep_step_spec _ _ _ Hep) as (s' & out & tags & Hstep & X1 & X2 & X3 & X4 & X5 & X6 & X7 & X8).
    destruct (ginv_wf _ _ _ _ Hg) as (Hwf & _ & Hsh).
    assert (Hevrx : ev_ok (fun _ => S) (fun _ => F) gr (ep_sock e) ev) by (destruct ev; try contradiction; exact I).
    assert (Hevtx : match ev with EvSegment ip r => repr_ok r | _ => True end) by (destruct ev; try contradiction; exact I).
    destruct (c05 _ _ _ _ _ _ _ Hi Hcx Hmtu Hlive Hevtx Hstep) as (gt' & Hi' & Hrel & _).
    pose proof (step_inv _ _ (Fx_nonneg F HF) _ _ _ _ _ _ _ Hg Hevrx Hstep) as (Hg' & _).
    assert (Hlive' : TcpLiveProofs.tcp_live_inv s').
    { apply (TcpLiveProofs.step_inv (ep_cx e) (ep_sock e) ev s' out tags); [apply Hcx| |exact Hlive | exact Hstep].
      destruct ev; try contradiction; exact I. }
    exists gt', (ghost_step (ep_cx e) gr (ep_sock e) ev s' out).
    assert (Hwo : wire_out out = None).
    { destruct ev; try contradiction; cbn [tcp_step] in Hstep.
      - destruct (tcp_listen _ _); inversion Hstep; reflexivity.
      - destruct (tcp_connect _ _ _ _ _); inversion Hstep; reflexivity.
      - inversion Hstep; reflexivity.
      - inversion Hstep; reflexivity.
      - inversion Hstep; reflexivity.
      - inversion Hstep; reflexivity.
      - destruct (tcp_set_hop_limit _ _); cbn [obind] in Hstep; inversion Hstep; reflexivity. }
    rewrite Hwo in X3, X4. cbn [opt_list] in X3, X4. rewrite app_nil_r in X3, X4.
    unfold IE, live_ok. rewrite X1, X2, X3, X4, X5, X6, X7, X8, E1, E2, E3, E4, E5, E6.
    split; [exact Hi'|]. split; [split; [exact Hcx | split; [exact Hmtu | exact Hlive']]|]. split; [exact Hg'|].
    split.
    { destruct Hrel as [Hs | (Hb' & _)]; [|exact Hb'].
      destruct Hs as (_ & Hst & Hfin & _ & _ & Hle & _ & Hadv). destruct Hb as (B1 & B2 & B3).
      unfold tx_blank. rewrite Hst, Hfin, B1, B2.
      split; [destruct ev; try contradiction; reflexivity|].
      split; [destruct ev; try contradiction; reflexivity|].
      destruct (g_phase gt') eqn:Ep; [reflexivity|exfalso..].
      all: rewrite (una_syn gt B3) in *;
           assert (H1 : 1 <= g_una gt') by (apply (una_pos gt' s' Hi'); congruence);
           destruct (Hadv ltac:(lia)) as (ip & r & Hev' & _); subst ev; contradiction. }
    split.
    { destruct ev; try contradiction; cbn [ghost_step]; try exact Hn; destruct out; try exact Hn; reflexivity. }
    split.
    { intros k. destruct ev; try contradiction; cbn [ghost_step]; try apply Hh;
        destruct out; try apply Hh; cbn; tauto. }
    repeat split; destruct ev; try contradiction; reflexivity.
  Qed.

  (* what the connecting side's socket looks like before the run *)
  Definition AI (cx : ctx) (s : socket) : Prop :=
    le_port (s_listen_endpoint s) = 0 /\
    (s_state s = Closed \/ (s_state s = SynSent /\ s_local_seq_no s = cx_isn cx)).

  Lemma AI_step cx s ev s' out tags :
    AI cx s -> init_ev ev -> (forall ep, ev <> EvListen ep) -> tcp_step cx s ev = Ok (s', out, tags) -> AI cx s'.
  Proof.
    intros (A1 & A2) Hev Hnl Hstep. destruct ev; try contradiction; cbn [tcp_step] in Hstep.
    - exfalso. apply (Hnl ep). reflexivity.
    - destruct (tcp_connect cx s remote_addr remote_port local) as [s1|e|] eqn:Ec; inversion Hstep; subst; clear Hstep.
      + unfold tcp_connect in Ec. destruct (tcp_is_open s); [discriminate|].
        destruct (_ || _); [discriminate|]. destruct (le_port local =? 0); [discriminate|].
        apply obind_ok_inv in Ec. destruct Ec as (la & _ & Ec). inversion Ec; subst.
        unfold AI, tcp_reset. rproj. split; [reflexivity|]. right. split; reflexivity.
      + split; assumption.
    - inversion Hstep; subst. unfold AI, tcp_set_timeout. rproj. split; assumption.
    - inversion Hstep; subst. unfold AI, tcp_set_keep_alive. destruct (is_some d); rproj; split; assumption.
    - inversion Hstep; subst. unfold AI, tcp_set_ack_delay. rproj. split; assumption.
    - inversion Hstep; subst. unfold AI, tcp_set_nagle_enabled. rproj. split; assumption.
    - destruct (tcp_set_hop_limit s h) as [s1| |] eqn:Eh; cbn [obind] in Hstep; inversion Hstep; subst.
      unfold tcp_set_hop_limit in Eh. destruct h as [[| |]|]; inversion Eh; subst; unfold AI; rproj; split; assumption.
  Qed.

  Lemma IE_create S F (HF : forall f, F = Some f -> 0 <= f) c e :
    cfg_ok c -> ep_create c = Ok e ->
    exists gt gr, IE S F e gt gr /\ AI (ep_cx e) (ep_sock e).
  Proof.
    intros (Hc1 & Hc2 & Hc3) He.
    apply (ep_create_ind (fun e => exists gt gr, IE S F e gt gr /\ AI (ep_cx e) (ep_sock e)) c e); [| |exact He].
    - intros s Hn. exists ghost0, g_init. split.
      + unfold IE, live_ok. cbn [ep_sock ep_cx ep_sent ep_out ep_written ep_read ep_closed ep_finished].
        split; [apply (c05new _ _ _ _ _ Hn Hc1)|].
        split.
        { split; [unfold ctx_ok, cfg_ctx, wipv4_HEADER_LEN, wtcp_HEADER_LEN; cbn [cx_isn cx_ip_mtu];
                  split; [change (2 ^ 32) with 4294967296; lia | lia]|].
          split; [unfold mtu_ok, cfg_ctx; cbn [cx_ip_mtu]; exact Hc2|].
          apply (TcpLiveProofs.new_inv _ _ _ _ _ Hc3 Hn). }
        split; [apply (new_unsynced _ _ _ _ _ _ _ Hn)|].
        split; [unfold tx_blank, ghost0; cbn; repeat split; reflexivity|].
        split; [reflexivity|]. split; [intros k Hk; exact Hk|]. repeat split; reflexivity.
      + unfold tcp_new in Hn. destruct (_ >? _); [discriminate|]. inversion Hn; subst.
        unfold AI. cbn. split; [reflexivity | left; reflexivity].
    - intros e0 ev e1 (gt & gr & Hie & Hai) Hs.
      assert (Hgo : init_ev ev -> (forall ep, ev <> EvListen ep) ->
                    exists gt' gr', IE S F e1 gt' gr' /\ AI (ep_cx e1) (ep_sock e1)).
      { intros Hev Hnl. destruct (IE_step S F HF e0 gt gr ev e1 Hie Hev Hs) as (gt' & gr' & Hie').
        exists gt', gr'. split; [exact Hie'|].
        destruct (ep_step_spec _ _ _ Hs) as (s' & out & tags & Hstep & X1 & X2 & _).
        rewrite X1, X2. eapply AI_step; eassumption. }
      destruct ev; try exact I; apply Hgo; try exact I; intros ep E; discriminate.
  Qed.

  Theorem INV_init ca cb st0 Sa Fa Sb Fb :
    cfg_ok ca -> cfg_ok cb -> net_init ca cb = Ok st0 ->
    compat Sa Fa (n_a st0) -> compat Sb Fb (n_b st0) ->
    exists ga gb, INV Sa Fa Sb Fb (cx_isn (ep_cx (n_a st0))) ga gb st0.
  Proof.
    intros Hca Hcb Hinit Cpa Cpb.
    pose proof (compat_F_nonneg _ _ _ Cpa) as HFa. pose proof (compat_F_nonneg _ _ _ Cpb) as HFb.
    pose proof (net_init_chan _ _ _ Hinit) as Hchan.
    unfold net_init in Hinit.
    apply obind_ok in Hinit. destruct Hinit as (a0 & Ea0 & Hinit).
    apply obind_ok in Hinit. destruct Hinit as (b0 & Eb0 & Hinit).
    apply obind_ok in Hinit. destruct Hinit as (b & Eb & Hinit).
    apply obind_ok in Hinit. destruct Hinit as (a & Ea & Hinit). inversion Hinit; subst st0; clear Hinit.
    cbn [n_a n_b] in *.
    (* A receives B's stream, B receives A's *)
    destruct (IE_create Sb Fb HFb ca a0 Hca Ea0) as (gta0 & gra0 & Hiea0 & Haia0).
    destruct (IE_create Sa Fa HFa cb b0 Hcb Eb0) as (gtb0 & grb0 & Hieb0 & _).
    destruct (IE_step Sa Fa HFa b0 gtb0 grb0 (EvListen (mkListenEp None (c_port cb))) b Hieb0 I Eb) as (gtb & grb & Hieb).
    destruct (IE_step Sb Fb HFb a0 gta0 gra0 (EvConnect (c_addr cb) (c_port cb) (mkListenEp None (c_port ca))) a Hiea0 I Ea) as (gta & gra & Hiea).
    assert (Haia : AI (ep_cx a) (ep_sock a)).
    { destruct (ep_step_spec _ _ _ Ea) as (s' & out & tags & Hstep & X1 & X2 & _).
      rewrite X1, X2.
      apply (AI_step (ep_cx a0) (ep_sock a0) (EvConnect (c_addr cb) (c_port cb) (mkListenEp None (c_port ca))) s' out tags Haia0 I);
        [intros ep E; discriminate | exact Hstep]. }
    destruct Hiea as (Ai & Acx & Ag & Ab & An & Ah & A1 & A2 & A3 & A4 & A5 & A6).
    destruct Hieb as (Bi & Bcx & Bg & Bb & Bn & Bh & B1 & B2 & B3 & B4 & B5 & B6).
    exists (mkEg gta gra None None 0), (mkEg gtb grb None None 0).
    assert (HEP : forall S F e gt gr,
              inv gt (ep_sock e) -> ctx_ok (ep_cx e) /\ live_ok e -> ginv (fun _ => S) (fun _ => F) gr (ep_sock e) ->
              tx_blank gt -> g_irs gr = None -> ep_written e = [] -> ep_read e = [] ->
              ep_closed e = false -> ep_finished e = false ->
              EP S F e (mkEg gt gr None None 0)).
    { intros S F e gt gr Hi Hcx Hg (T1 & T2 & T3) Hn E3 E4 E5 E6. unfold EP. cbn [eg_tx eg_rx eg_J eg_K eg_R].
      split; [exact Hi|]. split; [exact Hcx|]. split; [exact Hg|].
      split; [left; rewrite T1, T2, E3, E5; split; reflexivity|].
      split; [unfold rxl; rewrite Hn, E4, E6; split; [congruence|]; split; [left; reflexivity | discriminate]|].
      split; [exact T3|]. unfold kl. rewrite Hn. split; [lia|]. split; [discriminate | left; reflexivity]. }
    assert (HDIR : forall S F ex gtx grx ey gty gry,
              ep_sent ex = [] -> ep_sent ey = [] -> (forall k, ~ g_have gry k) -> tx_blank gtx ->
              ep_read ey = [] ->
              DIR S F ex (mkEg gtx grx None None 0) ey (mkEg gty gry None None 0)).
    { intros S F ex gtx grx ey gty gry E1 E2 Hh (_ & _ & T3) E4. unfold DIR. cbn [eg_tx eg_rx eg_J eg_K eg_R].
      rewrite E1, E2, E4. split; [intros p []|]. split; [discriminate|]. split; [intros k Hk; destruct (Hh k Hk)|].
      split; [reflexivity|]. split; [rewrite (una_syn gtx T3); lia|].
      pose proof (TcpRecvBase.l_len_nonneg (ep_written ex)).
      split; [lia|]. split; [intros p []|]. change (l_len []) with 0. split; [lia | intros j Hj; lia]. }
    unfold INV. cbn [n_a n_b].
    split; [apply HEP; assumption|]. split; [apply HEP; assumption|].
    split; [apply HDIR; assumption|]. split; [apply HDIR; assumption|].
    split; [|exact Hchan].
    destruct Haia as (L1 & L2). destruct Acx as ((Hisn & _) & _).
    unfold ROLES. cbn [eg_tx eg_rx eg_J eg_K eg_R].
    split; [change 4294967296 with (2 ^ 32); exact Hisn|]. split; [exact L1|].
    split; [destruct L2 as [E | (E & _)]; rewrite E; discriminate|].
    split.
    { destruct L2 as [E | (E & Elsn)]; [right; split; assumption|]. left.
      destruct Ai as ((_ & _ & _ & _ & _ & Hlsn & _) & _). destruct Ab as (_ & _ & T3).
      rewrite (una_syn gta T3) in Hlsn. rewrite Z.add_0_r in Hlsn. rewrite <- Hlsn. exact Elsn. }
    rewrite A1. split; [intros p []|]. split; [discriminate|]. split; [discriminate|].
    split; [intros _ H; congruence | discriminate].
  Qed.

  (* ------------------------------------------------------------------------------------ *)
  (* after close() nothing more is accepted by send (needs no compatibility of the oracle   *)
  (* with the state after the step)                                                         *)
  (* ------------------------------------------------------------------------------------ *)
  Lemma frozen_ep S F e g ev e' :
    EP S F e g -> ep_step e ev = Ok e' -> ep_closed e = true -> ep_written e' = ep_written e.
  Proof.
    intros (Hinv & (Hcx & (Hmtu & Hlive)) & Hg & Htxl & _) Hep Hcl.
    destruct (ep_step_spec _ _ _ Hep) as (s' & out & tags & Hstep & _ & _ & _ & _ & X4 & _).
    rewrite X4. unfold log_written. destruct ev; try reflexivity. destruct out; try reflexivity.
    destruct (ginv_wf _ _ _ _ Hg) as (Hwf & _ & Hsh).
    destruct (c05 (ep_cx e) (eg_tx g) (ep_sock e) (EvSend data) s' (OSize n) tags Hinv Hcx Hmtu Hlive I Hstep) as (gt' & _ & Hrel & _).
    cbn [tcp_step] in Hstep.
    destruct (tcp_send_slice (ep_sock e) data) as [(s1, n1)|err|] eqn:Es; inversion Hstep; subst s1 n1 tags; clear Hstep.
    destruct (send_slice_tailf _ _ _ _ Es) as (_ & Hst).
    assert (Hms : tcp_may_send (ep_sock e) = true).
    { unfold tcp_send_slice in Es. destruct (tcp_may_send (ep_sock e)); [reflexivity | discriminate]. }
    destruct Htxl as [(T1 & T2) | (Dc & _)].
    - destruct Hrel as [(_ & Hst' & _ & Hfr & _) | (_ & [(Hc' & _) | Hf])].
      + rewrite Hcl in T2. specialize (Hfr T2). rewrite Hst' in Hfr. unfold log_written in Hfr.
        rewrite <- (app_nil_r (g_stream (eg_tx g))) in Hfr at 2. apply app_inv_head in Hfr. rewrite Hfr. apply app_nil_r.
      + exfalso. unfold tcp_may_send in Hms. rewrite <- Hst, Hc' in Hms. discriminate.
      + contradiction.
    - exfalso. unfold tcp_may_send in Hms. rewrite Dc in Hms. discriminate.
  Qed.

  Lemma net_frozen Sa Fa Sb Fb isn ga gb st ev st' :
    INV Sa Fa Sb Fb isn ga gb st -> net_step st ev = Ok st' -> frozen st st'.
  Proof.
    intros (HEPa & HEPb & _) Hstep.
    assert (HEP : forall x, exists S F g, EP S F (net_get st x) g).
    { intros [|]; cbn [net_get]; eauto. }
    assert (Hb : forall x ev0, (do e <- ep_step (net_get st x) ev0; Ok (net_set st x e)) = Ok st' -> frozen st st').
    { intros x ev0 H. apply obind_ok in H. destruct H as (e & He & H). inversion H; subst st'.
      intros y Hcl. destruct (side_cases x y) as [-> | ->].
      - rewrite net_get_set_same. destruct (HEP x) as (S & F & g & Hep). eapply frozen_ep; eassumption.
      - rewrite net_get_set_other. reflexivity. }
    unfold net_step in Hstep. destruct ev; try (eapply Hb; exact Hstep).
    - destruct (nth_error _ i); [eapply Hb; exact Hstep | inversion Hstep; subst; intros y _; reflexivity].
    - inversion Hstep; subst. intros y _. destruct (side_cases (side_other to) y) as [-> | ->];
        [rewrite net_get_set_same | rewrite net_get_set_other]; reflexivity.
    - inversion Hstep; subst. intros y _. destruct (side_cases (side_other to) y) as [-> | ->];
        [rewrite net_get_set_same | rewrite net_get_set_other]; reflexivity.
    - inversion Hstep; subst. intros [|] _; reflexivity.
    - inversion Hstep; subst. intros y _. destruct (side_cases x y) as [-> | ->];
        [rewrite net_get_set_same | rewrite net_get_set_other]; reflexivity.
  Qed.

  (* ------------------------------------------------------------------------------------ *)
  (* every reachable state, every compatible oracle                                        *)
  (* ------------------------------------------------------------------------------------ *)
  Lemma net_run_snoc st evs ev st' :
    net_run st (evs ++ [ev]) = Ok st' <-> exists st1, net_run st evs = Ok st1 /\ net_step st1 ev = Ok st'.
  Proof.
    revert st. induction evs as [|e evs IH]; intros st; cbn [net_run app].
    - split.
      + intros H. apply obind_ok in H. destruct H as (st1 & H1 & H2). inversion H2; subst. exists st. split; [reflexivity | exact H1].
      + intros (st1 & H1 & H2). inversion H1; subst. rewrite H2. reflexivity.
    - split.
      + intros H. apply obind_ok in H. destruct H as (st2 & H1 & H2). apply IH in H2.
        destruct H2 as (st1 & H3 & H4). exists st1. rewrite H1. cbn [obind]. split; assumption.
      + intros (st1 & H1 & H2). apply obind_ok in H1. destruct H1 as (st2 & H3 & H4). rewrite H3. cbn [obind].
        apply IH. exists st1. split; assumption.
  Qed.

  Lemma run_age_snoc st evs ev st1 :
    net_run st evs = Ok st1 -> run_age st (evs ++ [ev]) -> run_age st evs /\ ev_age st1 ev.
  Proof.
    revert st. induction evs as [|e evs IH]; intros st Hr Ha; cbn [net_run app run_age] in *.
    - inversion Hr; subst. split; [exact I | apply Ha].
    - apply obind_ok in Hr. destruct Hr as (st2 & H1 & H2). destruct Ha as (Ha1 & Ha2). rewrite H1 in *.
      destruct (IH st2 H2 Ha2) as (I1 & I2). split; [split; assumption | exact I2].
  Qed.

  Theorem INV_reach ca cb st0 evs st :
    cfg_ok ca -> cfg_ok cb -> net_init ca cb = Ok st0 ->
    net_run st0 evs = Ok st -> run_age st0 evs ->
    forall Sa Fa Sb Fb, compat Sa Fa (n_a st) -> compat Sb Fb (n_b st) ->
    exists ga gb, INV Sa Fa Sb Fb (cx_isn (ep_cx (n_a st0))) ga gb st.
  Proof.
    intros Hca Hcb Hinit. revert st.
    induction evs as [|ev evs IH] using rev_ind; intros st Hrun Hage Sa Fa Sb Fb Cpa Cpb.
    - cbn [net_run] in Hrun. inversion Hrun; subst. apply (INV_init ca cb st Sa Fa Sb Fb Hca Hcb Hinit Cpa Cpb).
    - apply net_run_snoc in Hrun. destruct Hrun as (st1 & Hr1 & Hs).
      destruct (run_age_snoc _ _ _ _ Hr1 Hage) as (Hage1 & Hagev).
      (* the step freezes closed streams: use the invariant for the oracle of st1 itself *)
      destruct (IH st1 Hr1 Hage1 _ _ _ _ (compat_oracle (n_a st1)) (compat_oracle (n_b st1))) as (ga0 & gb0 & Hinv0).
      pose proof (net_frozen _ _ _ _ _ _ _ _ _ _ Hinv0 Hs) as Hfr.
      pose proof (net_step_mono _ _ _ Hs) as Hmono.
      assert (Cpa1 : compat Sa Fa (n_a st1)).
      { apply (compat_mono Sa Fa (n_a st1) (n_a st)); [apply (Hmono SA) | apply (Hfr SA) | exact Cpa]. }
      assert (Cpb1 : compat Sb Fb (n_b st1)).
      { apply (compat_mono Sb Fb (n_b st1) (n_b st)); [apply (Hmono SB) | apply (Hfr SB) | exact Cpb]. }
      destruct (IH st1 Hr1 Hage1 Sa Fa Sb Fb Cpa1 Cpb1) as (ga & gb & Hinv).
      destruct (INV_step _ _ _ _ _ _ _ _ _ _ Hinv Hs Hagev Cpa Cpb) as (ga' & gb' & Hinv' & _).
      exists ga', gb'. exact Hinv'.
  Qed.

  (* ------------------------------------------------------------------------------------ *)
  (* the end-to-end statements                                                             *)
  (* ------------------------------------------------------------------------------------ *)
  Lemma prefix_of_znth (a b : list Z) :
    l_len a <= l_len b -> (forall j, 0 <= j < l_len a -> rznth a j = rznth b j) -> prefix a b.
  Proof.
    rewrite !TcpRecvBase.l_len_spec. intros Hl Hj. exists (skipn (length a) b).
    rewrite <- (firstn_skipn (length a) b) at 1. f_equal.
    apply (nth_ext _ _ 0 0).
    - rewrite firstn_length. lia.
    - intros n Hn. rewrite firstn_length in Hn.
      rewrite nth_firstn_lt by lia.
      specialize (Hj (Z.of_nat n) ltac:(lia)).
      unfold rznth in Hj. rewrite Nat2Z.id in Hj. symmetry. exact Hj.
  Qed.

  Lemma prefix_same_len {A} (a b : list A) : prefix a b -> (length b <= length a)%nat -> a = b.
  Proof.
    intros (c & ->) Hl. rewrite app_length in Hl. destruct c; [rewrite app_nil_r; reflexivity|].
    cbn in Hl. lia.
  Qed.

  (* one direction, from the invariant instantiated with the oracle read off the state itself *)
  Lemma e2e_dir ex gx ey gy :
    EP (oracle_S (ep_written ex)) (oracle_F (ep_written ex) (ep_closed ex)) ey gy ->
    DIR (oracle_S (ep_written ex)) (oracle_F (ep_written ex) (ep_closed ex)) ex gx ey gy ->
    prefix (ep_read ey) (ep_written ex) /\
    (ep_finished ey = true -> ep_read ey = ep_written ex).
  Proof.
    intros (_ & _ & _ & _ & (_ & _ & Hfin) & _) (_ & _ & _ & _ & _ & _ & _ & (Hl & Hj)).
    assert (Hp : prefix (ep_read ey) (ep_written ex)) by (apply prefix_of_znth; [exact Hl | exact Hj]).
    split; [exact Hp|]. intros Hf. destruct (Hfin Hf) as (m & HF & Hm).
    apply prefix_same_len; [exact Hp|].
    unfold oracle_F in HF. destruct (ep_closed ex); [|discriminate]. inversion HF; subst m.
    rewrite !TcpRecvBase.l_len_spec in Hm. lia.
  Qed.

  Theorem e2e_reach ca cb st0 evs st :
    cfg_ok ca -> cfg_ok cb -> net_init ca cb = Ok st0 ->
    net_run st0 evs = Ok st -> run_age st0 evs ->
    (prefix (ep_read (n_b st)) (ep_written (n_a st)) /\
     (ep_finished (n_b st) = true -> ep_read (n_b st) = ep_written (n_a st))) /\
    (prefix (ep_read (n_a st)) (ep_written (n_b st)) /\
     (ep_finished (n_a st) = true -> ep_read (n_a st) = ep_written (n_b st))).
  Proof.
    intros Hca Hcb Hinit Hrun Hage.
    destruct (INV_reach ca cb st0 evs st Hca Hcb Hinit Hrun Hage _ _ _ _
                (compat_oracle (n_a st)) (compat_oracle (n_b st)))
      as (ga & gb & (HEPa & HEPb & HDab & HDba & _)).
    split; [eapply e2e_dir; eassumption | eapply e2e_dir; eassumption].
  Qed.

  (* ------------------------------------------------------------------------------------ *)
  (* the age hypothesis is implied by "fewer than 2^31 - 1 octets written per direction"   *)
  (* ------------------------------------------------------------------------------------ *)
  Definition small (st : net) : Prop :=
    l_len (ep_written (n_a st)) < 2147483647 /\ l_len (ep_written (n_b st)) < 2147483647.

  (* RCV.NXT and SND.UNA as offsets are within what was written *)
  Lemma offsets_bounded S F S' F' ex gx ey gy :
    EP S F ey gy -> DIR S F ex gx ey gy -> EP S' F' ex gx ->
    0 <= rcv_off ey <= l_len (ep_written ex) + 1 /\ 0 <= una_off ex <= l_len (ep_written ex).
  Proof.
    intros (_ & _ & Hg & _ & (R1 & R2 & _) & _ & (HR0 & _ & Hk)) (_ & _ & _ & _ & _ & HRL & _ & (Hrd & _))
           ((Htx & _) & _ & _ & Htxl & _).
    split.
    - unfold rcv_off. unfold ginv in Hg. destruct (g_irs (eg_rx gy)) as [irs|] eqn:Ei.
      + destruct Hk as (_ & HR). destruct Hg as (((Hwf & _ & _ & _ & Hc0 & _) & _) & (Hl & _)).
        destruct Hwf as (Hl0 & _). rewrite <- R1 by congruence. rewrite Hl.
        unfold rcv_nxt_off, rcv_count in HR. pose proof (b2z_range (s_rx_fin_received (ep_sock ey))). lia.
      + destruct Hg as ((Hwf & _ & Hlen & _ & Hfin & _) & _). rewrite Hlen, Hfin. cbn [b2z].
        pose proof (TcpRecvBase.l_len_nonneg (ep_read ey)). lia.
    - unfold una_off. destruct Htx as (Hwf & _ & Ha0 & Hlen & _). destruct Hwf as (Hl0 & _).
      destruct Htxl as [(T1 & _) | (_ & (B1 & _))].
      + rewrite <- T1. lia.
      + rewrite B1 in Hlen. change (l_len []) with 0 in Hlen.
        pose proof (TcpRecvBase.l_len_nonneg (ep_written ex)). lia.
  Qed.

  Lemma seg_age_small S F S' F' ex gx ey gy r :
    EP S F ey gy -> DIR S F ex gx ey gy -> EP S' F' ex gx ->
    EP S' F' ex gx -> DIR S' F' ey gy ex gx -> EP S F ey gy ->
    l_len (ep_written ex) < 2147483647 -> l_len (ep_written ey) < 2147483647 ->
    seg_age ey ex r.
  Proof.
    intros H1 H2 H3 H4 H5 H6 Lx Ly.
    destruct (offsets_bounded _ _ _ _ _ _ _ _ H1 H2 H3) as (Hr & _).
    destruct (offsets_bounded _ _ _ _ _ _ _ _ H4 H5 H6) as (_ & Hu).
    split.
    - intros k Hk _. lia.
    - intros a c _ Hc _. lia.
  Qed.

  Lemma run_age_snoc_intro st evs ev :
    run_age st evs -> (forall st1, net_run st evs = Ok st1 -> ev_age st1 ev) -> run_age st (evs ++ [ev]).
  Proof.
    revert st. induction evs as [|e evs IH]; intros st Ha Hev; cbn [app run_age net_run] in *.
    - split; [apply Hev; reflexivity|]. destruct (net_step st ev); exact I.
    - destruct Ha as (Ha1 & Ha2). split; [exact Ha1|].
      destruct (net_step st e) as [st2| |] eqn:E; try exact I.
      apply IH; [exact Ha2|]. intros st1 Hr. apply Hev. cbn [obind]. exact Hr.
  Qed.

  Lemma small_mono st st' : net_mono st st' -> small st' -> small st.
  Proof.
    intros Hm (S1 & S2). destruct (Hm SA) as (Wa & _). destruct (Hm SB) as (Wb & _). cbn [net_get] in *.
    apply l_len_prefix in Wa. apply l_len_prefix in Wb. split; lia.
  Qed.

  Theorem run_age_small ca cb st0 evs st :
    cfg_ok ca -> cfg_ok cb -> net_init ca cb = Ok st0 ->
    net_run st0 evs = Ok st -> small st -> run_age st0 evs.
  Proof.
    intros Hca Hcb Hinit. revert st.
    induction evs as [|ev evs IH] using rev_ind; intros st Hrun Hsmall; [exact I|].
    apply net_run_snoc in Hrun. destruct Hrun as (st1 & Hr1 & Hs).
    pose proof (small_mono _ _ (net_step_mono _ _ _ Hs) Hsmall) as Hsmall1.
    pose proof (IH st1 Hr1 Hsmall1) as Hage1.
    apply run_age_snoc_intro; [exact Hage1|].
    intros st1' Hr1'. rewrite Hr1 in Hr1'. inversion Hr1'; subst st1'.
    destruct ev; try exact I. cbn [ev_age].
    destruct (nth_error _ i) as [p|]; [|exact I].
    destruct (INV_reach ca cb st0 evs st1 Hca Hcb Hinit Hr1 Hage1 _ _ _ _
                (compat_oracle (n_a st1)) (compat_oracle (n_b st1)))
      as (ga & gb & (HEPa & HEPb & HDab & HDba & _)).
    destruct Hsmall1 as (La & Lb).
    destruct to; cbn [net_get side_other].
    - eapply (seg_age_small _ _ _ _ (n_b st1) gb (n_a st1) ga); eassumption.
    - eapply (seg_age_small _ _ _ _ (n_a st1) ga (n_b st1) gb); eassumption.
  Qed.

  Theorem e2e_small ca cb st0 evs st :
    cfg_ok ca -> cfg_ok cb -> net_init ca cb = Ok st0 ->
    net_run st0 evs = Ok st -> small st ->
    (prefix (ep_read (n_b st)) (ep_written (n_a st)) /\
     (ep_finished (n_b st) = true -> ep_read (n_b st) = ep_written (n_a st))) /\
    (prefix (ep_read (n_a st)) (ep_written (n_b st)) /\
     (ep_finished (n_a st) = true -> ep_read (n_a st) = ep_written (n_b st))).
  Proof.
    intros Hca Hcb Hinit Hrun Hsmall.
    apply (e2e_reach ca cb st0 evs st Hca Hcb Hinit Hrun (run_age_small ca cb st0 evs st Hca Hcb Hinit Hrun Hsmall)).
  Qed.
End Inv.
