(* C02 (liveness half), step 4 (zero window), layer 3: the run hypothesis [zsafe] of
   Proofs/TcpProgressZw2.v DERIVED from the regime invariant [reg] and C01's network invariant for every
   run of the one-way workload from a state reached from net_init - except two facts, kept as the named
   premise [zextra]:
     zx_zwp   a zero-window-probe timer runs only with nothing in flight.  (It is armed by the
              retransmission timer or an idle sender - nothing in flight - or by an ACK that advances
              SND.UNA and carries window 0 while octets beyond it are in flight: that needs the receiver's
              advertised right edge to have moved left, which a smoltcp receiver does by less than
              2^shift octets and only under window scaling; the cross-socket invariant that excludes it
              for unscaled windows is not part of C01's composition.)
     zx_capw  an empty receive buffer advertises a non-zero window (capacity >= 2^shift: a fact of the
              configuration, constant along the run).
   zero_window_reopens_from_established: the theorem with these as the only premises about states. *)
From SV Require Import Lib.Base Gen.Consts.
From SV Require Import Model.Seq32 Model.Assembler Model.TcpBuf Model.TcpTypes Model.Tcp Model.TcpNet.
From SV Require Import Proofs.TcpSendBase Proofs.TcpLiveBase Proofs.TcpLiveProofs Proofs.TcpLiveMore
  Proofs.TcpLiveProgress.
From SV Require Import Proofs.TcpNetBase.
From SV Require Proofs.TcpNetInv.
From SV Require Import Proofs.TcpProgressBase Proofs.TcpProgressFrame Proofs.TcpProgressCtl Proofs.TcpProgressRecv
  Proofs.TcpProgressSend Proofs.TcpProgressNet Proofs.TcpProgressData Proofs.TcpProgressAck Proofs.TcpProgressAll
  Proofs.TcpProgressSafe Proofs.TcpProgressZwp Proofs.TcpProgressExample Proofs.TcpProgressWitness
  Proofs.TcpProgressZwDup Proofs.TcpProgressZw1 Proofs.TcpProgressZw2.

Module NVZ := TcpNetInv.

Section Zx.
Variable x : side.
Notation y := (side_other x).
Variable Dack : Z.

Definition zextra (st : net) : Prop :=
  (timer_is_zero_window_probe (s_timer (net_sock st x)) = true ->
   s_remote_last_seq (net_sock st x) = s_local_seq_no (net_sock st x)) /\
  (rb_len (s_rx_buffer (net_sock st y)) = 0 -> 0 < tcp_scaled_window (net_sock st y)).

Theorem zsafe_of_reg st :
  NI st -> reg x Dack st -> inv_at x st -> wr_small x st -> zextra st -> zsafe x st.
Proof.
  intros HN HG HI Hsm (Hz & Hcw).
  destruct (reg_pair x Dack st HG HI) as (gx & gy & PF & Hsub).
  pose proof (pf_vx _ _ _ _ PF) as Vx. pose proof (pf_vy _ _ _ _ PF) as Vy.
  constructor.
  - exact (rg_est x Dack st HG).
  - intros z. destruct (rg_tup x Dack st HG z) as (t & Ht & _ & Ha & _). exists t. split; assumption.
  - intros z p Hin. destruct (rg_tup x Dack st HG z) as (t & Ht & _ & _ & Hnz).
    destruct (rg_chan x Dack st HG z p t Hin Ht) as (Hto & _).
    apply (accepts_of_sent_to _ t); [exact (rg_est x Dack st HG z) | exact Ht | exact Hnz | exact Hto].
  - unfold mss_ok. pose proof (ev_mss _ _ Vx) as M. pose proof (ev_mtu _ _ Vx) as T.
    unfold net_sock. unfold tcp_MIN_REMOTE_MSS in M.
    change wipv4_HEADER_LEN with 20. change wtcp_HEADER_LEN with 20. lia.
  - pose proof (ev_acked0 _ _ Vx) as A0. unfold una_off in A0. unfold wr_small in Hsm. unfold net_sock. lia.
  - exact (proj1 (pf_ytx _ _ _ _ PF)).
  - split; [exact (ev_rcvwf _ _ Vy)|]. split; [exact (ev_adv _ _ Vy)|].
    destruct (ev_rx _ _ Vy) as (W1 & _ & W3). split; assumption.
  - intros p Hin. pose proof Hin as Hin0. rewrite (chan_to_y x) in Hin. apply (Hsub x) in Hin.
    destruct (pf_xsent _ _ _ _ PF p Hin) as (Hnf & Hlen & Hack).
    destruct (rg_tup x Dack st HG y) as (t & Ht & _).
    destruct (rg_chan x Dack st HG y p t Hin0 Ht) as (_ & Hnr).
    destruct (rg_xchan x Dack st HG p Hin0) as [(Hc & Ha) | (Hc & Ha)].
    + left. unfold wire_parse. cbn [r_control r_ack_number]. rewrite Ha. split; [exact Hc | reflexivity].
    + right. unfold wire_parse. cbn [r_control r_ack_number r_payload].
      split; [destruct (r_control (snd p)); auto; contradiction|].
      destruct (r_ack_number (snd p)) as [a|] eqn:Ea; [|contradiction].
      rewrite (Hack Hnr a eq_refl). unfold net_sock. rewrite (ev_lsn _ _ Vy), seq_norm_sq.
      split; [reflexivity | lia].
  - exact (pf_cross _ _ _ _ PF).
  - exact (ev_adv _ _ Vx).
  - intros q Hin. destruct (rg_ychan x Dack st HG q Hin) as [Hc | (Hc & Hp & Hs)].
    + left. unfold wire_parse. cbn [r_control]. exact Hc.
    + right. unfold wire_parse. cbn [r_control r_payload r_seq_number].
      split; [exact Hc|]. split; [exact Hp|]. rewrite Hs.
      destruct (ev_irs _ _ Vx) as (irs & _ & _ & Hws). unfold net_sock. rewrite Hws. apply seq_norm_sq.
  - exact Hz.
  - exact Hcw.
Qed.

Theorem zsafe_run : forall evs st st',
  reach st -> NI st -> opts_ok st -> reg x Dack st ->
  Forall (script_ev x) evs -> net_run st evs = Ok st' ->
  NVZ.small st' -> wr_small x st' -> run_all zextra st evs ->
  run_all (zsafe x) st evs.
Proof.
  induction evs as [|ev rest IH]; intros st st' Hre HN Ho HG Hsc Hrun Hsm Hws Hwo.
  - cbn [net_run] in Hrun. inversion Hrun; subst st'. cbn [run_all]. split; [|exact I].
    apply zsafe_of_reg; try assumption.
    + apply reach_inv_at; [exact Hre | exact Hsm | exact (rg_closed x Dack st HG)].
    + exact (run_all_here _ _ _ Hwo).
  - cbn [net_run] in Hrun. apply obind_ok in Hrun. destruct Hrun as (st1 & Hs & Hrun).
    inversion Hsc as [|? ? Hsc1 Hsc2]; subst.
    pose proof (net_run_mono _ _ _ Hrun) as Hm1. pose proof (net_step_mono _ _ _ Hs) as Hm0.
    assert (Hsm1 : NVZ.small st1) by exact (NVZ.small_mono _ _ Hm1 Hsm).
    assert (Hsm0 : NVZ.small st) by exact (NVZ.small_mono _ _ Hm0 Hsm1).
    assert (Hw1 : wr_small x st1).
    { unfold wr_small in *. destruct (Hm1 x) as (Wp & _). apply TcpNetCompose_l_len_prefix in Wp. lia. }
    assert (Hw0 : wr_small x st).
    { unfold wr_small in *. destruct (Hm0 x) as (Wp & _). apply TcpNetCompose_l_len_prefix in Wp. lia. }
    pose proof (reach_inv_at x st Hre Hsm0 (rg_closed x Dack st HG)) as HI.
    pose proof (reach_step _ _ _ Hre Hs) as Hre1.
    pose proof (closed_step x _ _ _ Hsc1 Hs (rg_closed x Dack st HG)) as Hcl1.
    pose proof (reach_inv_at x st1 Hre1 Hsm1 Hcl1) as HI1.
    pose proof (reg_step x Dack _ _ _ HN Ho HG HI HI1 Hsc1 Hs) as HG1.
    cbn [run_all] in Hwo |- *. destruct Hwo as (Hwo0 & Hwo1). rewrite Hs in Hwo1 |- *.
    split; [apply zsafe_of_reg; assumption|].
    apply (IH st1 st'); try assumption.
    + exact (NI_step _ _ _ HN Hs).
    + exact (opts_step _ _ _ Ho Hs).
Qed.

End Zx.

(* THE WINDOW REOPENS, from a state reached from net_init in which both sockets are ESTABLISHED (the
   regime invariant): x believes the window closed, has octets queued, and nothing is in flight towards
   it any more (or whatever is advertises an open window: [wpos]).  On every reliable schedule of the
   one-way workload, before x's clock has advanced by more than 2 RTTE_MAX_RTO + 2 Dt + Da, SND.UNA of x
   has advanced, or y's application has read, or x has learned an open window.  The only premises about
   the states of the run are [zextra] (see above). *)
Theorem zero_window_reopens_from_established x Dt Da Dack : forall evs fa st st',
  reach st -> reg x Dack st -> opts_ok st ->
  0 <= Dt -> 0 <= Da -> dl_sync Da fa st ->
  fair_run Dt Da fa st evs -> once_run Dt Da fa st evs ->
  Forall (app_ev x) evs -> net_run st evs = Ok st' ->
  (forall z, l_len (ep_written (net_get st' z)) < 2 ^ 30) ->
  run_all (zextra x) st evs ->
  0 < txl x st -> s_remote_win_len (net_sock st x) = 0 -> wpos x fa st ->
  net_now st x + 2 * max_rto_us + 2 * Dt + Da < net_now st' x ->
  exists pre post st1, evs = pre ++ post /\ net_run st pre = Ok st1 /\ net_run st1 post = Ok st' /\
                       Qz x (una_off (net_get st x)) (read_off (net_get st (side_other x))) st1.
Proof.
  intros evs fa st st' Hre HG Ho HDt HDa Hsy Hfair Honce Happ Hrun Hsz Hzx Hl Hwin Hw Hlate.
  pose proof (reach_NI st Hre) as HN.
  assert (Hsm : NVZ.small st').
  { split; [specialize (Hsz SA) | specialize (Hsz SB)]; cbn [net_get] in Hsz;
      change (2 ^ 30) with 1073741824 in Hsz; lia. }
  pose proof (zsafe_run x Dack evs st st' Hre HN Ho HG (script_of_fair x Dt Da _ _ _ _ Hfair Hrun Happ)
                Hrun Hsm (Hsz x) Hzx) as HR.
  exact (zero_window_eventually_reopens x Dt Da evs fa st st' _ _ HDt HDa HN Ho Hsy HR Hfair Honce Hrun
           Hl Hwin Hw eq_refl eq_refl Hlate).
Qed.
