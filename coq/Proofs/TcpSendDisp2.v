(* C05, layer 4 (continued): timers, the decision to send, the state update after a successful
   emit, and [tcp_dispatch] as a whole: invariant preservation, no panic, emitted segment facts. *)
From SV Require Import Lib.Base Gen.Consts.
From SV Require Import Model.Seq32 Model.Assembler Model.TcpBuf Model.TcpTypes Model.Tcp.
From SV Require Import Proofs.TcpSendBase Proofs.TcpSendInv Proofs.TcpSendAck Proofs.TcpSendProc
                       Proofs.TcpSendApi Proofs.TcpSendDisp.

(* fields dispatch never changes before the segment is built (except the state -> CLOSED on a
   timeout and the tuple) *)
Definition frame (s s1 : socket) : Prop :=
  s_tx_buffer s1 = s_tx_buffer s /\ s_local_seq_no s1 = s_local_seq_no s /\
  s_remote_win_len s1 = s_remote_win_len s /\ s_remote_win_scale s1 = s_remote_win_scale s /\
  s_remote_mss s1 = s_remote_mss s /\ s_remote_win_shift s1 = s_remote_win_shift s /\
  s_syn_unacked_in_fin_wait s1 = s_syn_unacked_in_fin_wait s /\
  s_rx_buffer s1 = s_rx_buffer s /\ s_tsval_generator s1 = s_tsval_generator s /\
  s_remote_seq_no s1 = s_remote_seq_no s /\
  (s_state s1 = s_state s \/ s_state s1 = Closed).

Lemma frame_refl : forall s, frame s s.
Proof. intros. unfold frame. repeat split; auto. Qed.

Lemma frame_trans : forall a b c, frame a b -> frame b c -> frame a c.
Proof.
  intros a b c (A1 & A2 & A3 & A4 & A5 & A6 & A7 & A8 & A9 & A10 & A11)
               (B1 & B2 & B3 & B4 & B5 & B6 & B7 & B8 & B9 & B10 & B11).
  unfold frame. rewrite B1, B2, B3, B4, B5, B6, B7, B8, B9, B10.
  repeat (split; [assumption|]). destruct B11 as [B|B]; [rewrite B; exact A11|auto].
Qed.

(* the ghost after a retransmission timeout rewound SND.NXT *)
Definition g_rewind (g : ghost) : ghost :=
  mkGhost (g_iss g) (g_stream g) (g_acked g) (g_phase g) 0 (g_fin g) (g_hw g).

Lemma same_epoch_rewind : forall g, same_epoch g (g_rewind g).
Proof.
  intros. unfold same_epoch, g_rewind. cbn [g_iss g_stream g_acked g_hw g_fin].
  split; [reflexivity|]. split; [exists []; symmetry; apply app_nil_r|].
  split; [lia|]. split; [lia|]. auto.
Qed.

Definition dtimers_body (cx : ctx) (s : socket) : outcome (socket * Z) :=
  let now := cx_now cx in
  if tcp_timed_out s now then Ok (tcp_set_state s Closed, 201)
  else if timer_should_retransmit (s_timer s) now then
    do in_flight <- tcp_flight_size s;
    let '(s, tg) :=
      match s_timer s with
      | TRetransmit _ =>
          let s := upd_congestion_controller s (cc_on_rto (s_congestion_controller s) in_flight) in
          let s := upd_remote_last_seq s (s_local_seq_no s) in
          let s := upd_rtte s (rtte_on_rto (s_rtte s)) in
          (upd_pending_fast_retransmit s false, 202)
      | _ =>
          let s := upd_congestion_controller s (cc_on_loss (s_congestion_controller s) in_flight) in
          (upd_pending_fast_retransmit s true, 203)
      end in
    let s := upd_timer s (timer_set_for_idle now (s_keep_alive s)) in
    let rto := rtte_retransmission_timeout (s_rtte s) in
    let s := if s_pending_fast_retransmit s
             then upd_timer s (timer_set_for_retransmit (s_timer s) now rto)
             else if (s_remote_win_len s =? 0) && negb (rb_is_empty (s_tx_buffer s))
             then upd_timer s (timer_set_for_zero_window_probe now rto)
             else s in
    Ok (upd_rtte s (rtte_on_retransmit (s_rtte s)), tg)
  else Ok (s, 200).

Lemma dtimers_unfold : forall cx s,
  tcp_dispatch_timers cx s =
  dtimers_body cx (if is_some (s_remote_last_ts s) then s
                   else upd_remote_last_ts s (Some (cx_now cx))).
Proof. reflexivity. Qed.

Lemma dtimers_body_spec : forall cx g s,
  inv g s ->
  exists s1 tg g1, dtimers_body cx s = Ok (s1, tg) /\ inv g1 s1 /\ (g1 = g \/ g1 = g_rewind g) /\
                   frame s s1 /\ s_tuple s1 = s_tuple s /\
                   s_remote_last_ack s1 = s_remote_last_ack s /\
                   s_remote_last_win s1 = s_remote_last_win s.
Proof.
  intros cx g s Hinv. pose proof Hinv as (Htx & Htm & Hk). unfold dtimers_body.
  destruct (tcp_timed_out s (cx_now cx)).
  - eexists _, _, g. split; [reflexivity|]. split; [apply abort_inv; exact Hinv|].
    split; [auto|]. split; [|repeat split; reflexivity]. unfold frame, tcp_set_state. fld. repeat split; auto.
  - destruct (timer_should_retransmit (s_timer s) (cx_now cx)) eqn:Esr.
    2: { eexists _, _, g. split; [reflexivity|]. split; [exact Hinv|]. split; [auto|].
         split; [apply frame_refl|repeat split; reflexivity]. }
    rewrite (flight_size_ok _ _ Htx). cbn [obind].
    pose proof Htx as (Hwf & Hcap & Ha & Hlen & Hc & Hl & Hr & Hf & Hhw & Hpo & Hw & Hs).
    pose proof Hwf as (Hl0 & _).
    destruct (s_timer s) eqn:Etm; cbn [timer_should_retransmit] in Esr; try discriminate.
    + (* retransmission timeout: rewind SND.NXT to SND.UNA *)
      fld.
      assert (Hrw : tx_inv_f (g_rewind g) (s_state s) (s_tx_buffer s) (s_local_seq_no s)
                      (s_local_seq_no s) (s_remote_win_len s) (s_remote_win_scale s)
                      (s_syn_unacked_in_fin_wait s)).
      { unfold tx_inv_f, g_rewind. cbn [g_iss g_stream g_acked g_flight g_hw].
        replace (g_una (mkGhost (g_iss g) (g_stream g) (g_acked g) (g_phase g) 0 (g_fin g) (g_hw g)))
          with (g_una g) by reflexivity.
        split; [exact Hwf|]. split; [exact Hcap|]. split; [exact Ha|]. split; [exact Hlen|].
        split; [exact Hc|]. split; [exact Hl|]. split; [rewrite Hl; f_equal; lia|].
        split.
        { unfold g_budget in *. cbn [g_phase g_fin]. split; [lia|].
          destruct (g_phase g); [lia| |lia]. destruct (g_fin g); cbn [b2z]; lia. }
        split; [lia|]. split; [|split; assumption].
        unfold phase_ok in *. cbn [g_phase g_acked g_fin g_flight]. destruct (g_phase g); tauto. }
      destruct ((s_remote_win_len s =? 0) && negb (rb_is_empty (s_tx_buffer s))) eqn:Ez.
        -- eexists _, _, (g_rewind g). split; [reflexivity|]. split; [|split; [auto|]].
           ++ split; [unfold tx_inv; fld; exact Hrw|]. split.
              { unfold tm_inv, tm_inv_f. fld. unfold timer_set_for_zero_window_probe. cbn.
                apply andb_prop in Ez. destruct Ez as (Ez & _). apply Z.eqb_eq in Ez.
                split; [intros _; exact Ez|discriminate]. }
              eapply (kinv_fields2 g s); try exact Hk; try reflexivity; fld; auto.
              unfold rtte_on_retransmit. cbn [rt_max_seq_sent]. apply rtte_on_rto_msx.
           ++ split; [unfold frame; fld; repeat split; auto|repeat split; reflexivity].
        -- eexists _, _, (g_rewind g). split; [reflexivity|]. split; [|split; [auto|]].
           ++ split; [unfold tx_inv; fld; exact Hrw|]. split.
              { unfold tm_inv, tm_inv_f. fld. unfold timer_set_for_idle, g_rewind. cbn.
                split; [discriminate|auto]. }
              eapply (kinv_fields2 g s); try exact Hk; try reflexivity; fld; auto.
              unfold rtte_on_retransmit. cbn [rt_max_seq_sent]. apply rtte_on_rto_msx.
           ++ split; [unfold frame; fld; repeat split; auto|repeat split; reflexivity].
    + (* fast retransmit *)
      fld. eexists _, _, g. split; [reflexivity|]. split; [|split; [auto|]].
      * split; [unfold tx_inv; fld; exact Htx|]. split.
        { unfold tm_inv, tm_inv_f. fld. unfold timer_set_for_retransmit, timer_set_for_idle. cbn.
          split; discriminate. }
        eapply (kinv_fields2 g s); try exact Hk; try reflexivity; fld; auto.
      * split; [unfold frame; fld; repeat split; auto|repeat split; reflexivity].
Qed.

(* ------------------------------------------------------------------------------------------ *)
(* the state update after a successful emit                                                     *)
(* ------------------------------------------------------------------------------------------ *)
Definition g_sent (g : ghost) (f : Z) : ghost :=
  mkGhost (g_iss g) (g_stream g) (g_acked g) (g_phase g) f (g_fin g) (Z.max (g_hw g) (g_una g + f)).

Lemma same_epoch_sent : forall g f, same_epoch g (g_sent g f).
Proof.
  intros. unfold same_epoch, g_sent. cbn [g_iss g_stream g_acked g_hw g_fin].
  split; [reflexivity|]. split; [exists []; symmetry; apply app_nil_r|].
  split; [lia|]. split; [lia|]. auto.
Qed.

(* sequence space a segment that is neither probe nor keep-alive occupies *)
Lemma seg_space : forall cx g s r,
  inv g s -> seg_ok cx g s r false false -> 0 < repr_segment_len r ->
  exists x, r_seq_number r = sq (g_iss g + x) /\ g_una g <= x <= g_una g + g_flight g /\
            x + repr_segment_len r <= g_una g + g_budget g (rb_len (s_tx_buffer s)).
Proof.
  intros cx g s r ((Hwf & Hcap & Ha & Hlen & Hc & Hl & Hr & Hf & Hhw & Hpo & Hw & Hs) & Htm)
         (_ & Hok) Hsl.
  destruct (Hok eq_refl) as (Hdata & Hsyn & Hrst & _). clear Hok.
  unfold repr_segment_len in *. pose proof (l_len_nonneg (r_payload r)) as Hn0.
  destruct (r_control r) eqn:Ec; cbn [control_len] in *.
  - destruct (Hdata ltac:(left; lia)) as (P & _ & _ & off & Hoff & Es & _ & Hol & _).
    exists (g_una g + off). split; [rewrite Es; f_equal; lia|].
    unfold g_budget. rewrite P. destruct (g_fin g); cbn [b2z]; destruct Hoff; lia.
  - destruct (Hdata ltac:(left; lia)) as (P & _ & _ & off & Hoff & Es & _ & Hol & _).
    exists (g_una g + off). split; [rewrite Es; f_equal; lia|].
    unfold g_budget. rewrite P. destruct (g_fin g); cbn [b2z]; destruct Hoff; lia.
  - destruct (Hsyn eq_refl) as (N0 & P & _ & Es & _).
    exists (g_una g). split; [exact Es|]. unfold g_budget. rewrite P. lia.
  - destruct (Hdata ltac:(right; reflexivity)) as (P & Hds & _ & off & Hoff & Es & _ & Hol & _ & _ & _ & Hfin).
    destruct (Hfin eq_refl) as (Efin & Hfs).
    exists (g_una g + off). split; [rewrite Es; f_equal; lia|].
    assert (G : g_fin g = true).
    { unfold phase_ok in Hpo. rewrite P in Hpo.
      destruct (s_state s); cbn [fin_state] in Hfs; try discriminate; tauto. }
    unfold g_budget. rewrite P, G. cbn [b2z]. destruct Hoff; lia.
  - destruct (Hrst eq_refl) as (N0 & _). lia.
Qed.

Lemma rewind_ka_class : forall t now ka,
  timer_is_idle (timer_rewind_keep_alive t now ka) = timer_is_idle t /\
  timer_is_zero_window_probe (timer_rewind_keep_alive t now ka) = timer_is_zero_window_probe t /\
  timer_is_retransmit (timer_rewind_keep_alive t now ka) = timer_is_retransmit t.
Proof. intros [] now ka; cbn; auto. Qed.

Lemma rewind_zwp_class : forall t now,
  timer_is_idle (timer_rewind_zero_window_probe t now) = timer_is_idle t /\
  timer_is_zero_window_probe (timer_rewind_zero_window_probe t now) = timer_is_zero_window_probe t.
Proof. intros [] now; cbn; auto. Qed.

Lemma inv_advance : forall g s s' f',
  inv g s -> g_flight g <= f' <= g_budget g (rb_len (s_tx_buffer s)) ->
  s_state s' = s_state s -> s_tx_buffer s' = s_tx_buffer s ->
  s_local_seq_no s' = s_local_seq_no s ->
  s_remote_last_seq s' = sq (g_iss g + g_una g + f') ->
  s_remote_win_len s' = s_remote_win_len s -> s_remote_win_scale s' = s_remote_win_scale s ->
  s_syn_unacked_in_fin_wait s' = s_syn_unacked_in_fin_wait s ->
  (timer_is_idle (s_timer s') = true -> f' = 0 \/ rb_len (s_tx_buffer s) = 0) ->
  (timer_is_zero_window_probe (s_timer s') = true -> s_remote_win_len s = 0) ->
  (rt_max_seq_sent (s_rtte s') = rt_max_seq_sent (s_rtte s) \/
   exists y, rt_max_seq_sent (s_rtte s') = Some (sq (g_iss g + y)) /\ 1 <= y <= g_una g + f') ->
  s_remote_mss s' = s_remote_mss s -> s_state s <> Listen ->
  inv (g_sent g f') s'.
Proof.
  intros g s s' f' ((Hwf & Hcap & Ha & Hlen & Hc & Hl & Hr & Hf & Hhw & Hpo & Hw & Hs) & Htm & Hk)
         Hf' E1 E2 E3 E4 E5 E6 E7 Hi Hz Hmx Hms Hnl.
  assert (Htx' : tx_inv (g_sent g f') s').
  { unfold tx_inv. rewrite E1, E2, E3, E4, E5, E6, E7. unfold tx_inv_f, g_sent.
    cbn [g_iss g_stream g_acked g_flight g_hw].
    replace (g_una (mkGhost (g_iss g) (g_stream g) (g_acked g) (g_phase g) f' (g_fin g)
                            (Z.max (g_hw g) (g_una g + f')))) with (g_una g) by reflexivity.
    split; [exact Hwf|]. split; [exact Hcap|]. split; [exact Ha|]. split; [exact Hlen|].
    split; [exact Hc|]. split; [exact Hl|]. split; [reflexivity|].
    split; [unfold g_budget in *; cbn [g_phase g_fin]; lia|]. split; [lia|].
    split; [|split; assumption].
    unfold phase_ok in *. cbn [g_phase g_acked g_fin g_flight].
    destruct (g_phase g) eqn:P; try tauto.
    destruct Hpo as (A & B & C & D). unfold g_budget in Hf'. rewrite P in Hf'.
    repeat split; auto. lia. }
  split; [exact Htx'|]. split.
  - unfold tm_inv, tm_inv_f. rewrite E2, E5. cbn [g_sent g_flight]. split; assumption.
  - pose proof (una_flight_bound _ _ _ _ _ _ _ _ Htx') as Hb.
    destruct Hk as (K1 & K2 & K3 & K4). unfold kinv.
    replace (g_una (g_sent g f')) with (g_una g) in Hb by reflexivity.
    cbn [g_sent g_hw g_stream g_fin g_iss g_flight] in *. rewrite Hms, E1.
    split; [lia|]. split; [|split; [exact K3|]].
    + destruct Hmx as [Hmx|(y & Hmx & Hy)]; rewrite Hmx.
      * destruct (rt_max_seq_sent (s_rtte s)) as [m|]; [|exact I].
        destruct K2 as (x & Ex & Hx). exists x. split; [exact Ex|lia].
      * exists y. split; [reflexivity|lia].
    + intros X. contradiction.
Qed.

Lemma finish_fields : forall cx s2 r s' tg,
  tcp_dispatch_finish cx s2 r false false = (s', tg) ->
  let tk := timer_rewind_keep_alive (s_timer s2) (cx_now cx) (s_keep_alive s2) in
  let sl := repr_segment_len r in
  s_state s' = s_state s2 /\ s_tx_buffer s' = s_tx_buffer s2 /\
  s_local_seq_no s' = s_local_seq_no s2 /\
  s_remote_last_seq s' = (if sl >? 0 then seq_max (s_remote_last_seq s2) (seq_add (r_seq_number r) sl)
                          else s_remote_last_seq s2) /\
  s_remote_win_len s' = s_remote_win_len s2 /\ s_remote_win_scale s' = s_remote_win_scale s2 /\
  s_remote_mss s' = s_remote_mss s2 /\ s_remote_win_shift s' = s_remote_win_shift s2 /\
  s_syn_unacked_in_fin_wait s' = s_syn_unacked_in_fin_wait s2 /\
  s_rx_buffer s' = s_rx_buffer s2 /\ s_tsval_generator s' = s_tsval_generator s2 /\
  s_remote_seq_no s' = s_remote_seq_no s2 /\
  (exists rto, s_timer s' = if (sl >? 0) && negb (timer_is_retransmit tk)
                            then timer_set_for_retransmit tk (cx_now cx) rto else tk) /\
  s_rtte s' = (if sl >? 0 then rtte_on_send (s_rtte s2) (cx_now cx) (seq_add (r_seq_number r) sl)
               else s_rtte s2).
Proof.
  intros cx s2 r s' tg H. cbv zeta. destruct_sock s2. unfold tcp_dispatch_finish in H.
  fldv_in H. fldv.
  destruct (repr_segment_len r >? 0); cbn [andb] in H |- *;
  try match type of H with context [negb (timer_is_retransmit ?t)] =>
        destruct (negb (timer_is_retransmit t)) end;
  match type of H with context [tcp_state_eqb ?a Closed] => destruct (tcp_state_eqb a Closed) end.
  all: injection H as E1 E2.
  all: subst s' tg.
  all: repeat match goal with |- _ /\ _ => split; [reflexivity|] end.
  all: (split; [first [exists 0; reflexivity | eexists; reflexivity]|reflexivity]).
Qed.

Lemma finish_other_fields : forall cx s2 r zwp ka s' tg,
  (zwp = true \/ ka = true) ->
  tcp_dispatch_finish cx s2 r zwp ka = (s', tg) ->
  let tk := timer_rewind_keep_alive (s_timer s2) (cx_now cx) (s_keep_alive s2) in
  s_state s' = s_state s2 /\ s_tx_buffer s' = s_tx_buffer s2 /\
  s_local_seq_no s' = s_local_seq_no s2 /\ s_remote_last_seq s' = s_remote_last_seq s2 /\
  s_remote_win_len s' = s_remote_win_len s2 /\ s_remote_win_scale s' = s_remote_win_scale s2 /\
  s_remote_mss s' = s_remote_mss s2 /\ s_remote_win_shift s' = s_remote_win_shift s2 /\
  s_syn_unacked_in_fin_wait s' = s_syn_unacked_in_fin_wait s2 /\
  s_rx_buffer s' = s_rx_buffer s2 /\ s_tsval_generator s' = s_tsval_generator s2 /\
  s_remote_seq_no s' = s_remote_seq_no s2 /\
  s_timer s' = (if zwp then timer_rewind_zero_window_probe tk (cx_now cx) else tk) /\
  s_rtte s' = s_rtte s2.
Proof.
  intros cx s2 r zwp ka s' tg Hz H. cbv zeta. destruct_sock s2. unfold tcp_dispatch_finish in H.
  fldv_in H. fldv.
  destruct zwp; [|destruct ka; [|destruct Hz; discriminate]]; injection H as E1 E2; subst s' tg;
  repeat split; reflexivity.
Qed.

Lemma rtte_on_send_msx : forall r now q,
  rt_max_seq_sent (rtte_on_send r now q) = rt_max_seq_sent r \/
  rt_max_seq_sent (rtte_on_send r now q) = Some q.
Proof.
  intros. unfold rtte_on_send.
  destruct (match rt_max_seq_sent r with Some m => seq_gt q m | None => true end); cbn; auto.
Qed.

Lemma finish_inv : forall cx g s s2 r zwp ka s' tg,
  inv g s -> (s2 = s \/ s2 = upd_pending_fast_retransmit s false) ->
  seg_ok cx g s r zwp ka -> s_state s <> Listen ->
  tcp_dispatch_finish cx s2 r zwp ka = (s', tg) ->
  exists g', inv g' s' /\ same_epoch g g' /\
    (g' = g \/ exists f, g' = g_sent g f /\ g_flight g <= f) /\
    frame s s'.
Proof.
  intros cx g s s2 r zwp ka s' tg Hinv Hs2 Hok Hnl H.
  assert (Hinv2 : inv g s2) by (destruct Hs2 as [->| ->]; [exact Hinv|eapply inv_txv; [|exact Hinv]; reflexivity]).
  assert (Hfr : frame s s2) by (destruct Hs2 as [->| ->]; [apply frame_refl|unfold frame; fld; repeat split; auto]).
  assert (Hrt2 : s_rtte s2 = s_rtte s /\ s_remote_mss s2 = s_remote_mss s /\ s_state s2 = s_state s)
    by (destruct Hs2 as [->| ->]; repeat split; reflexivity).
  destruct Hrt2 as (Hrt2 & Hms2 & Hst2).
  set (tk := timer_rewind_keep_alive (s_timer s2) (cx_now cx) (s_keep_alive s2)).
  destruct (rewind_ka_class (s_timer s2) (cx_now cx) (s_keep_alive s2)) as (C1 & C2 & C3).
  fold tk in C1, C2, C3.
  assert (Hzk : zwp = true \/ ka = true \/ (zwp = false /\ ka = false))
    by (destruct zwp, ka; auto).
  destruct Hzk as [Hz|[Hz|(-> & ->)]].
  1, 2: (pose proof (finish_other_fields cx s2 r zwp ka s' tg ltac:(auto) H) as X; cbv zeta in X;
    destruct X as (B1 & B2 & B3 & B4 & B5 & B6 & B7 & B8 & B9 & B10 & B11 & B12 & B13 & B14);
    exists g; split; [|split; [apply same_epoch_refl|split; [auto|]]];
    [ destruct Hinv2 as (Htx2 & Htm2 & Hk2); split; [|split];
      [ unfold tx_inv; rewrite B1, B2, B3, B4, B5, B6, B9; exact Htx2
      | unfold tm_inv, tm_inv_f in *; rewrite B2, B5, B13; fold tk;
        destruct (rewind_zwp_class tk (cx_now cx)) as (D1 & D2);
        destruct zwp; rewrite ?D1, ?D2, C1, C2; exact Htm2
      | eapply kinv_fields; [exact Hk2|rewrite B14; reflexivity|exact B7|congruence] ]
    | eapply frame_trans; [exact Hfr|]; unfold frame; rewrite B1, B2, B3, B5, B6, B7, B8, B9, B10, B11, B12;
      repeat split; auto ]).
  (* an ordinary segment *)
  pose proof (finish_fields cx s2 r s' tg H) as X. cbv zeta in X. fold tk in X.
  destruct X as (B1 & B2 & B3 & B4 & B5 & B6 & B7 & B8 & B9 & B10 & B11 & B12 & (rto & B13) & B14).
  assert (Hfr' : frame s s').
  { eapply frame_trans; [exact Hfr|]. unfold frame. rewrite B1, B2, B3, B5, B6, B7, B8, B9, B10, B11, B12.
    repeat split; auto. }
  destruct (Z.gtb_spec (repr_segment_len r) 0) as [Hsl|Hsl]; cbn [andb] in B13.
  - (* it occupies sequence space: SND.NXT advances, the retransmission timer runs *)
    destruct Hfr as (F1 & F2 & F3 & F4 & F5 & F6 & F7 & F8 & F9 & F10 & F11).
    destruct (seg_space cx g s r Hinv Hok Hsl) as (x & Ex & Hx & Hxb).
    pose proof Hinv as ((Hwf & Hcap & Ha & Hlen & Hc & Hl & Hr & Hf & Hhw & Hpo & Hw & Hs) & Htm & Hk).
    pose proof Hwf as (Hl0 & _).
    pose proof (budget_bound g (rb_len (s_tx_buffer s)) ltac:(lia)) as Hb.
    assert (Hrls2 : s_remote_last_seq s2 = s_remote_last_seq s)
      by (destruct Hs2 as [->| ->]; reflexivity).
    set (f' := Z.max (g_flight g) (x + repr_segment_len r - g_una g)).
    assert (Emax : seq_max (s_remote_last_seq s2) (seq_add (r_seq_number r) (repr_segment_len r)) =
                   sq (g_iss g + g_una g + f')).
    { rewrite Hrls2, Hr, Ex, seq_add_sq.
      replace (g_iss g + g_una g + g_flight g) with (g_iss g + (g_una g + g_flight g)) by lia.
      replace (g_iss g + x + repr_segment_len r) with (g_iss g + (x + repr_segment_len r)) by lia.
      rewrite seq_max_sq by lia. f_equal. unfold f'. lia. }
    rewrite Emax in B4.
    assert (Hua : 0 <= g_una g) by (unfold g_una; destruct (g_phase g); lia).
    exists (g_sent g f'). split; [|split; [apply same_epoch_sent|split; [right; exists f'; split; [reflexivity|unfold f'; lia]|exact Hfr']]].
    eapply (inv_advance g s); [exact Hinv|unfold f'; lia|congruence|congruence|congruence|exact B4
                              |congruence|congruence|congruence| | | |congruence|exact Hnl].
    + intros X. exfalso. rewrite B13 in X. destruct tk; cbn in X; discriminate.
    + intros X. exfalso. rewrite B13 in X. destruct tk; cbn in X; discriminate.
    + rewrite B14, Hrt2.
      destruct (rtte_on_send_msx (s_rtte s) (cx_now cx) (seq_add (r_seq_number r) (repr_segment_len r)))
        as [E|E]; [left; exact E|right].
      exists (x + repr_segment_len r). split; [rewrite E, Ex, seq_add_sq; f_equal; f_equal; lia|].
      unfold f'. lia.
  - (* nothing but an acknowledgement / window update / RST *)
    exists g. split; [|split; [apply same_epoch_refl|split; [auto|exact Hfr']]].
    destruct Hinv2 as (Htx2 & Htm2 & Hk2). split; [|split].
    + unfold tx_inv. rewrite B1, B2, B3, B4, B5, B6, B9. exact Htx2.
    + unfold tm_inv, tm_inv_f in *. rewrite B2, B5, B13, C1, C2. exact Htm2.
    + eapply kinv_fields; [exact Hk2|rewrite B14; reflexivity|exact B7|congruence].
Qed.


(* ------------------------------------------------------------------------------------------ *)
(* totality: under the invariant the sender-side computations of dispatch never panic           *)
(* ------------------------------------------------------------------------------------------ *)
Lemma stt_total : forall cx g s, inv g s -> ctx_ok cx -> s_tuple s <> None ->
  exists b, tcp_seq_to_transmit cx s = Ok b.
Proof.
  intros cx g s (Htx & Htm) Hcx Ht. unfold tcp_seq_to_transmit.
  destruct (_ && _ && _); [eexists; reflexivity|].
  destruct (s_tuple s); [|congruence].
  rewrite (tcp_local_mss_ok _ Hcx). cbn [obind].
  destruct (_ && negb _); [eexists; reflexivity|].
  pose proof Htx as (Hwf & Hcap & Ha & Hlen & Hc & Hl & Hr & Hf & Hhw & Hpo & Hw & Hs).
  pose proof Hwf as (Hl0 & _).
  pose proof (budget_bound g (rb_len (s_tx_buffer s)) ltac:(lia)) as Hb.
  pose proof max_window_val as Hmw.
  unfold tcp_cwnd_remaining. rewrite (flight_size_ok _ _ Htx).
  rewrite Hl, Hr, seq_add_sq.
  replace (g_iss g + g_una g + Z.min (s_remote_win_len s) (rb_len (s_tx_buffer s)))
    with (g_iss g + (g_una g + Z.min (s_remote_win_len s) (rb_len (s_tx_buffer s)))) by lia.
  replace (g_iss g + g_una g + g_flight g) with (g_iss g + (g_una g + g_flight g)) by lia.
  rewrite seq_ge_sq, seq_sub_sq by lia.
  destruct (Z.geb_spec (g_una g + Z.min (s_remote_win_len s) (rb_len (s_tx_buffer s)))
                       (g_una g + g_flight g)).
  - destruct (Z.ltb_spec (g_una g + Z.min (s_remote_win_len s) (rb_len (s_tx_buffer s)))
                         (g_una g + g_flight g)); [lia|].
    cbn [obind]. eexists; reflexivity.
  - cbn [obind]. eexists; reflexivity.
Qed.

Lemma build_data_total : forall cx g s repr,
  inv g s -> ctx_ok cx -> base_repr repr ->
  exists res, tcp_dispatch_build_data cx s repr = Ok res.
Proof.
  intros cx g s repr (Htx & Htm) Hcx Hbase.
  pose proof Htx as (Hwf & Hcap & Ha & Hlen & Hc & Hl & Hr & Hf & Hhw & Hpo & Hw & Hs).
  pose proof Hwf as (Hl0 & _).
  pose proof (budget_bound g (rb_len (s_tx_buffer s)) ltac:(lia)) as Hb.
  pose proof max_window_val as Hmw.
  unfold tcp_dispatch_build_data.
  rewrite (base_header_len _ Hbase). unfold usub.
  assert (Hopt : 0 <= opt_len repr) by (unfold opt_len; destruct (is_some _); lia).
  replace (wtcp_HEADER_LEN + opt_len repr - wtcp_HEADER_LEN) with (opt_len repr) by lia.
  destruct (Z.ltb_spec (opt_len repr) 0); [lia|]. cbn [obind].
  rewrite (tcp_local_mss_ok _ Hcx). cbn [obind].
  destruct (s_pending_fast_retransmit s && (s_remote_win_len s >? 0)); cbn [obind].
  - eexists; reflexivity.
  - rewrite Hl, Hr, seq_add_sq.
    replace (g_iss g + g_una g + s_remote_win_len s) with (g_iss g + (g_una g + s_remote_win_len s)) by lia.
    replace (g_iss g + g_una g + g_flight g) with (g_iss g + (g_una g + g_flight g)) by lia.
    rewrite seq_ge_sq, seq_sub_sq by lia.
    rewrite <- Hl, <- Hr || idtac.
    unfold tcp_cwnd_remaining.
    assert (Hfs : tcp_flight_size s = Ok (g_flight g)) by (apply (flight_size_ok g); exact Htx).
    destruct (Z.geb_spec (g_una g + s_remote_win_len s) (g_una g + g_flight g)).
    + destruct (Z.ltb_spec (g_una g + s_remote_win_len s) (g_una g + g_flight g)); [lia|].
      cbn [obind]. rewrite Hfs.
      destruct (_ && timer_should_zero_window_probe _ _); cbn [obind]; eexists; reflexivity.
    + cbn [obind]. rewrite Hfs.
      destruct (_ && timer_should_zero_window_probe _ _); cbn [obind]; eexists; reflexivity.
Qed.

Lemma post_build_total : forall cx s repr zwp tg, ctx_ok cx ->
  exists s2 r zwp2 ka tg2, post_build cx s repr zwp tg = Ok (s2, Some r, zwp2, ka, tg2).
Proof.
  intros cx s repr zwp tg Hcx. unfold post_build. rewrite (tcp_local_mss_ok _ Hcx).
  match goal with |- context [if control_eqb ?c CSyn then _ else _] => destruct (control_eqb c CSyn) end;
  cbn [obind]; do 5 eexists; reflexivity.
Qed.

Lemma build_total : forall cx g s t, inv g s -> ctx_ok cx ->
  exists res, tcp_dispatch_build cx s t = Ok res.
Proof.
  intros cx g s t Hinv Hcx. rewrite build_unfold. cbv zeta.
  match goal with |- context [tcp_dispatch_build_data cx s ?r] => set (repr := r) end.
  assert (Hbase : base_repr repr) by apply base_repr_mk.
  destruct (build_data_total cx g s repr Hinv Hcx Hbase) as ([[[s2 orp] zwp] tg] & Eb).
  assert (Hpost : forall s0 rp zwp0 tg0, exists res, post_build cx s0 rp zwp0 tg0 = Ok res).
  { intros s0 rp zwp0 tg0.
    destruct (post_build_total cx s0 rp zwp0 tg0 Hcx) as (a & b & c & d & e & E).
    eexists. exact E. }
  destruct (s_state s); cbn [obind]; try apply Hpost; try (eexists; reflexivity);
  try (destruct (s_syn_unacked_in_fin_wait s); cbn [obind]; [apply Hpost|]);
  rewrite Eb; cbn [obind]; (destruct orp; [apply Hpost|eexists; reflexivity]).
Qed.
