(* Lemmas about Model/Dhcp.v (property C18). *)
From SV Require Import Lib.Base Gen.Consts Model.Dhcp.

(* ------------------------------------------------------------------------------------------------ *)
(** * checked arithmetic *)

Lemma dh_as_i64_id : forall d, 0 <= d <= dh_I64_MAX -> dh_as_i64 d = d.
Proof. intros d H. unfold dh_as_i64. destruct (d <=? dh_I64_MAX) eqn:E; lia. Qed.

Lemma dh_as_i64_le : forall d, 0 <= d -> dh_as_i64 d <= d.
Proof. intros d H. unfold dh_as_i64, dh_U64. destruct (d <=? dh_I64_MAX); lia. Qed.

Lemma dh_inst_add_ok : forall t d r, dh_inst_add t d = Ok r -> r = t + dh_as_i64 d.
Proof. unfold dh_inst_add. intros t d r H. destruct (dh_in_i64 _); congruence. Qed.

Lemma dh_inst_add_exact : forall t d r, 0 <= d <= dh_I64_MAX -> dh_inst_add t d = Ok r -> r = t + d.
Proof. intros t d r Hd H. apply dh_inst_add_ok in H. rewrite dh_as_i64_id in H; auto. Qed.

Lemma dh_inst_add_le : forall t d r, 0 <= d -> dh_inst_add t d = Ok r -> r <= t + d.
Proof. intros t d r Hd H. apply dh_inst_add_ok in H. pose proof (dh_as_i64_le d Hd). lia. Qed.

Lemma dh_inst_add_no_panic : forall t d,
  0 <= d <= dh_I64_MAX -> dh_I64_MIN <= t + d <= dh_I64_MAX -> exists r, dh_inst_add t d = Ok r.
Proof.
  intros t d Hd Ht. unfold dh_inst_add. rewrite dh_as_i64_id by auto.
  unfold dh_in_i64. destruct (dh_I64_MIN <=? t + d) eqn:E1; destruct (t + d <=? dh_I64_MAX) eqn:E2;
    try lia; cbn; eauto.
Qed.

Lemma dh_inst_sub_ok : forall a b r, dh_inst_sub a b = Ok r -> r = Z.abs (a - b) /\ a - b <= dh_I64_MAX.
Proof.
  unfold dh_inst_sub, dh_in_i64. intros a b r H.
  destruct (dh_I64_MIN <=? a - b) eqn:E1; destruct (a - b <=? dh_I64_MAX) eqn:E2; cbn in H; try discriminate.
  inversion H. split; lia.
Qed.

Lemma dh_inst_sub_no_panic : forall a b,
  dh_I64_MIN <= a - b <= dh_I64_MAX -> exists r, dh_inst_sub a b = Ok r.
Proof.
  intros a b H. unfold dh_inst_sub, dh_in_i64.
  destruct (dh_I64_MIN <=? a - b) eqn:E1; destruct (a - b <=? dh_I64_MAX) eqn:E2; try lia; cbn; eauto.
Qed.

Lemma dh_dur_mul_ok : forall a k r, dh_dur_mul a k = Ok r -> r = a * k.
Proof. unfold dh_dur_mul. intros a k r H. destruct (a * k <? dh_U64); congruence. Qed.
Lemma dh_dur_sub_ok : forall a b r, dh_dur_sub a b = Ok r -> r = a - b /\ b <= a.
Proof. unfold dh_dur_sub. intros a b r H. destruct (b <=? a) eqn:E; inversion H; lia. Qed.
Lemma dh_dur_add_ok : forall a b r, dh_dur_add a b = Ok r -> r = a + b.
Proof. unfold dh_dur_add. intros a b r H. destruct (a + b <? dh_U64); congruence. Qed.
Lemma dh_dur_shl_ok : forall a k r, dh_dur_shl a k = Ok r -> r = (a * 2 ^ k) mod dh_U64 /\ k < 64.
Proof. unfold dh_dur_shl. intros a k r H. destruct (k <? 64) eqn:E; inversion H; lia. Qed.

(* obind inversion *)
Lemma obind_ok : forall A B (x : outcome A) (f : A -> outcome B) b,
  obind x f = Ok b -> exists a, x = Ok a /\ f a = Ok b.
Proof. intros A B x f b H. destruct x; cbn in H; try discriminate. eauto. Qed.

Ltac splits := repeat match goal with |- _ /\ _ => split end.

Ltac inv_bind H :=
  let a := fresh "v" in let Ha := fresh "Hv" in
  apply obind_ok in H; destruct H as [a [Ha H]].

(* ------------------------------------------------------------------------------------------------ *)
(** * subnet masks *)

Lemma ip_prefix_len_some : forall m p, ip_prefix_len m = Some p -> 0 <= p <= 32 /\ m = ip_netmask p.
Proof.
  unfold ip_prefix_len. intros m p H. apply find_some in H. destruct H as [Hin Heq].
  apply in_map_iff in Hin. destruct Hin as [n [Hn Hs]]. apply in_seq in Hs.
  split; [lia | lia].
Qed.

Lemma ip_prefix_len_netmask : forall p, 0 <= p <= 32 -> ip_prefix_len (ip_netmask p) <> None.
Proof.
  intros p Hp H. unfold ip_prefix_len in H.
  eapply find_none with (x := p) in H.
  - rewrite Z.eqb_refl in H. discriminate.
  - apply in_map_iff. exists (Z.to_nat p). split; [lia|]. apply in_seq. lia.
Qed.

(* ------------------------------------------------------------------------------------------------ *)
(** * T1/T2 defaulting: renew <= rebind <= lease for ALL values *)

Definition u32_ok (x : Z) : Prop := 0 <= x < 4294967296.
Definition ou32_ok (x : option Z) : Prop := match x with Some v => u32_ok v | None => True end.

Lemma dhcp_t1_t2_order : forall lease t1 t2 a b,
  0 <= lease -> ou32_ok t1 -> ou32_ok t2 ->
  dhcp_t1_t2 lease t1 t2 = Ok (a, b) -> 0 <= a <= b /\ b <= lease.
Proof.
  intros lease t1 t2 a b Hl H1 H2 H. unfold dhcp_t1_t2, dh_from_secs in H.
  assert (Hd : forall a b, (do m <- dh_dur_mul lease 7; Ok (lease / 2, m / 8)) = Ok (a, b) -> 0 <= a <= b /\ b <= lease).
  { clear - Hl. intros a b H. inv_bind H. apply dh_dur_mul_ok in Hv. inversion H. subst. lia. }
  destruct t1 as [x|]; destruct t2 as [y|]; cbn [option_map] in H; cbn in H1, H2; unfold u32_ok in *.
  - destruct ((x * 1000000 <? y * 1000000) && (y * 1000000 <? lease)) eqn:E.
    + inversion H; subst. lia.
    + auto.
  - destruct (x * 1000000 <? lease) eqn:E.
    + inv_bind H. inv_bind H. inv_bind H. inversion H; subst.
      apply dh_dur_sub_ok in Hv. apply dh_dur_mul_ok in Hv0. apply dh_dur_add_ok in Hv1. lia.
    + auto.
  - destruct (y * 1000000 <? lease) eqn:E.
    + inversion H; subst. lia.
    + auto.
  - auto.
Qed.

Lemma dhcp_t1_t2_no_panic : forall lease t1 t2,
  0 <= lease < 1152921504606846976 -> ou32_ok t1 -> ou32_ok t2 ->
  exists a b, dhcp_t1_t2 lease t1 t2 = Ok (a, b).
Proof.
  intros lease t1 t2 Hl H1 H2. unfold dhcp_t1_t2, dh_from_secs.
  assert (Hd : exists a b, (do m <- dh_dur_mul lease 7; Ok (lease / 2, m / 8)) = Ok (a, b)).
  { unfold dh_dur_mul, dh_U64. destruct (lease * 7 <? 18446744073709551616) eqn:E; [|lia]. cbn. eauto. }
  destruct t1 as [x|]; destruct t2 as [y|]; cbn [option_map]; cbn in H1, H2; unfold u32_ok in *.
  - destruct ((x * 1000000 <? y * 1000000) && (y * 1000000 <? lease)); eauto.
  - destruct (x * 1000000 <? lease) eqn:E; auto.
    unfold dh_dur_sub. destruct (x * 1000000 <=? lease) eqn:E1; [|lia]. cbn.
    unfold dh_dur_mul, dh_U64. destruct ((lease - x * 1000000) * 3 <? 18446744073709551616) eqn:E2; [|lia]. cbn.
    unfold dh_dur_add, dh_U64.
    destruct (x * 1000000 + (lease - x * 1000000) * 3 / 4 <? 18446744073709551616) eqn:E3; [|lia]. cbn. eauto.
  - destruct (y * 1000000 <? lease); eauto.
  - auto.
Qed.

(* the lease actually granted: min(lease option or default, max_lease_duration) *)
Lemma dhcp_lease_duration_range : forall r ml,
  ou32_ok (r_lease_duration r) -> (forall m, ml = Some m -> 0 <= m) ->
  0 <= dhcp_lease_duration r ml < 4294967296000000.
Proof.
  intros r ml Hl Hm. unfold dhcp_lease_duration, dh_from_secs.
  assert (0 <= match r_lease_duration r with Some d => d * 1000000 | None => dhcp_DEFAULT_LEASE_DURATION end < 4294967296000000).
  { destruct (r_lease_duration r); cbn in Hl; unfold u32_ok in *; [lia|]. vm_compute. split; congruence. }
  destruct ml as [m|]; [specialize (Hm m eq_refl)|]; lia.
Qed.

Definition repr_typed (r : dhcp_repr) : Prop :=
  ou32_ok (r_lease_duration r) /\ ou32_ok (r_renew_duration r) /\ ou32_ok (r_rebind_duration r).

(* what a successful parse_ack says *)
Definition cfg_from_ack (c : dhcp_config) (r : dhcp_repr) : Prop :=
  cf_address c = r_your_ip r /\
  (exists mask, r_subnet_mask r = Some mask /\ ip_prefix_len mask = Some (cf_prefix_len c)) /\
  cf_router c = r_router r /\
  cf_dns_servers c =
    firstn (Z.to_nat wdhcp_MAX_DNS_SERVER_COUNT)
           (filter ip_x_is_unicast (match r_dns_servers r with Some l => l | None => [] end)).

Lemma dhcp_parse_ack_some : forall now r ml server c ra rb e,
  repr_typed r -> (forall m, ml = Some m -> 0 <= m) ->
  dhcp_parse_ack now r ml server = Ok (Some (c, ra, rb, e)) ->
  cfg_from_ack c r /\ cf_server c = server /\ ip_x_is_unicast (r_your_ip r) = true /\
  e = now + dhcp_lease_duration r ml /\ now <= ra /\ ra <= rb /\ rb <= e.
Proof.
  intros now r ml server c ra rb e [Hl [H1 H2]] Hm H. unfold dhcp_parse_ack in H.
  destruct (r_subnet_mask r) as [mask|] eqn:Em; [|discriminate].
  destruct (ip_prefix_len mask) as [p|] eqn:Ep; [|discriminate].
  destruct (ip_x_is_unicast (r_your_ip r)) eqn:Eu; cbn [negb] in H; [|discriminate].
  pose proof (dhcp_lease_duration_range r ml Hl Hm) as Hr.
  inv_bind H. destruct v as [a b].
  apply dhcp_t1_t2_order in Hv; try lia; auto.
  inv_bind H. inv_bind H. inv_bind H. inversion H; subst; clear H.
  apply dh_inst_add_exact in Hv0; [|unfold dh_I64_MAX; lia].
  apply dh_inst_add_exact in Hv1; [|unfold dh_I64_MAX; lia].
  apply dh_inst_add_exact in Hv2; [|unfold dh_I64_MAX; lia].
  subst. unfold cfg_from_ack. cbn. splits; eauto; try lia.
Qed.

Lemma dhcp_parse_ack_none_or_some : forall now r ml server,
  repr_typed r -> (forall m, ml = Some m -> 0 <= m) -> 0 <= now < 4611686018427387904 ->
  exists x, dhcp_parse_ack now r ml server = Ok x.
Proof.
  intros now r ml server [Hl [H1 H2]] Hm Hn. unfold dhcp_parse_ack.
  destruct (r_subnet_mask r) as [mask|]; [|eauto].
  destruct (ip_prefix_len mask) as [p|]; [|eauto].
  destruct (ip_x_is_unicast (r_your_ip r)); cbn [negb]; [|eauto].
  pose proof (dhcp_lease_duration_range r ml Hl Hm) as Hr.
  destruct (dhcp_t1_t2_no_panic (dhcp_lease_duration r ml) (r_renew_duration r) (r_rebind_duration r)) as [a [b Hab]];
    auto; try lia.
  rewrite Hab. cbn [obind].
  pose proof (dhcp_t1_t2_order _ _ _ _ _ (proj1 Hr) H1 H2 Hab) as Ho.
  destruct (dh_inst_add_no_panic now a) as [x Hx]; [unfold dh_I64_MAX; lia|unfold dh_I64_MAX, dh_I64_MIN; lia|].
  destruct (dh_inst_add_no_panic now b) as [y Hy]; [unfold dh_I64_MAX; lia|unfold dh_I64_MAX, dh_I64_MIN; lia|].
  destruct (dh_inst_add_no_panic now (dhcp_lease_duration r ml)) as [z Hz];
    [unfold dh_I64_MAX; lia|unfold dh_I64_MAX, dh_I64_MIN; lia|].
  rewrite Hx, Hy, Hz. cbn. eauto.
Qed.

(* ------------------------------------------------------------------------------------------------ *)
(** * the observer ("monitor") of a call history: what the property text talks about *)

(* clauses (iii)-(vi) of the property on the content of a received message, plus "is a DHCPACK" *)
Definition ack_content_ok (hw : Z) (r : dhcp_repr) : bool :=
  match r_message_type r with MtAck => true | _ => false end &&
  (r_client_hardware_address r =? hw) &&
  match r_server_identifier r with Some _ => true | None => false end &&
  match r_subnet_mask r with
  | Some m => match ip_prefix_len m with Some _ => true | None => false end
  | None => false
  end &&
  ip_x_is_unicast (r_your_ip r).

(* ... and clauses (i)-(ii): a REQUEST has been transmitted and the most recent one carried this xid *)
Definition ack_valid (hw : Z) (last_req : option Z) (r : dhcp_repr) : bool :=
  ack_content_ok hw r &&
  match last_req with Some x => r_transaction_id r =? x | None => false end.

Record dhcp_mon := mkMon {
  m_last_req : option Z;                 (* xid of the most recent DHCPREQUEST put on the wire *)
  m_max_lease : option Z;                (* the application's current set_max_lease_duration setting *)
  m_ack : option (Z * dhcp_repr * Z);    (* most recent valid ACK: receipt time, message, min(lease, max_lease) *)
  m_clock : Z;                           (* latest timestamp handed to the socket *)
  m_deadline : Z }.                      (* instant of the last solicitation + solicit_bound of the configuration then *)

Definition mon_init : dhcp_mon := mkMon None None None 0 0.

(* explicit bound on the distance between two solicitations of an unconfigured client *)
Definition solicit_bound (rc : dhcp_retry_config) : Z :=
  Z.max (rc_discover_timeout rc)
        (rc_initial_request_timeout rc * 2 ^ ((rc_request_retries rc - 1) / 2)).

Definition mon_tick (m : dhcp_mon) (now : Z) : dhcp_mon :=
  mkMon (m_last_req m) (m_max_lease m) (m_ack m) (Z.max (m_clock m) now) (m_deadline m).

(* [rc] = the retry configuration in force when the call was made (an application setting) *)
Definition mon_step (hw : Z) (rc : dhcp_retry_config) (m : dhcp_mon) (c : dhcp_call) (ret : dhcp_ret) : dhcp_mon :=
  match c, ret with
  | CProcess now _ _ _ (Some r), _ =>
      let m1 := mon_tick m now in
      if ack_valid hw (m_last_req m) r
      then mkMon (m_last_req m1) (m_max_lease m1) (Some (now, r, dhcp_lease_duration r (m_max_lease m)))
                 (m_clock m1) (m_deadline m1)
      else m1
  | CProcess now _ _ _ None, _ => mon_tick m now
  | CDispatch _ now _ _, RDispatch (DrSent f) =>
      let m1 := mon_tick m now in
      mkMon (match tx_message_type f with MtRequest => Some (tx_transaction_id f) | _ => m_last_req m1 end)
            (m_max_lease m1) (m_ack m1) (m_clock m1) (now + solicit_bound rc)
  | CDispatch _ now _ _, _ => mon_tick m now
  | CSetMaxLeaseDuration x, _ => mkMon (m_last_req m) x (m_ack m) (m_clock m) (m_deadline m)
  | _, _ => m
  end.

(* a call that panics ends the program: the history stops there (state and monitor are frozen) *)
Definition dhcp_step_total (hw : Z) (sm : dhcp_socket * dhcp_mon) (c : dhcp_call) : dhcp_socket * dhcp_mon :=
  match dhcp_call_step hw (fst sm) c with
  | Ok (s', ret) => (s', mon_step hw (ds_retry_config (fst sm)) (snd sm) c ret)
  | _ => sm
  end.

Definition dhcp_run (hw : Z) (calls : list dhcp_call) : dhcp_socket * dhcp_mon :=
  fold_left (dhcp_step_total hw) calls (dhcp_new, mon_init).

Lemma dhcp_run_snoc : forall hw calls c,
  dhcp_run hw (calls ++ [c]) = dhcp_step_total hw (dhcp_run hw calls) c.
Proof. intros. unfold dhcp_run. rewrite fold_left_app. reflexivity. Qed.

(* ------------------------------------------------------------------------------------------------ *)
(** * argument types (the ranges of the Rust types; not behavioural hypotheses) *)

Definition u64_ok (x : Z) : Prop := 0 <= x <= dh_DURATION_MAX.
Definition retry_cfg_typed (rc : dhcp_retry_config) : Prop :=
  u64_ok (rc_discover_timeout rc) /\ u64_ok (rc_initial_request_timeout rc) /\
  0 <= rc_request_retries rc <= 65535 /\
  u64_ok (rc_min_renew_timeout rc) /\ u64_ok (rc_max_renew_timeout rc).

Definition call_typed (c : dhcp_call) : Prop :=
  match c with
  | CProcess _ _ _ _ (Some r) => repr_typed r
  | CSetRetryConfig rc => retry_cfg_typed rc
  | CSetMaxLeaseDuration (Some m) => u64_ok m
  | _ => True
  end.

(* ------------------------------------------------------------------------------------------------ *)
(** * the invariant *)

Definition dhcp_inv (hw : Z) (s : dhcp_socket) (m : dhcp_mon) : Prop :=
  ds_max_lease_duration s = m_max_lease m /\
  (forall x, m_max_lease m = Some x -> 0 <= x) /\
  retry_cfg_typed (ds_retry_config s) /\
  0 <= m_clock m /\
  match ds_state s with
  | Discovering retry_at => retry_at <= Z.max (m_clock m) (m_deadline m)
  | Requesting retry_at retry _ _ =>
      retry_at <= Z.max (m_clock m) (m_deadline m) /\ 0 <= retry <= 65535 /\
      (0 < retry -> m_last_req m = Some (ds_transaction_id s))
  | Renewing cfg renew_at rebind_at rebinding expires_at =>
      m_last_req m = Some (ds_transaction_id s) /\
      exists t r l, m_ack m = Some (t, r, l) /\ ack_content_ok hw r = true /\
        cfg_from_ack cfg r /\ expires_at = t + l /\ 0 <= l /\
        (rebinding = false -> renew_at <= rebind_at /\ rebind_at <= expires_at)
  end.

Lemma dhcp_inv_init : forall hw, dhcp_inv hw dhcp_new mon_init.
Proof.
  intros hw. unfold dhcp_inv, dhcp_new, mon_init, retry_cfg_typed, u64_ok, dh_DURATION_MAX. cbn.
  splits; try discriminate; try reflexivity; try lia.
Qed.

Lemma dhcp_config_eqb_eq : forall a b, dhcp_config_eqb a b = true -> a = b.
Proof.
  intros [[sa si] ad pl ro dn] [[sa' si'] ad' pl' ro' dn']. unfold dhcp_config_eqb. cbn.
  rewrite !andb_true_iff. intros [[[[[H1 H2] H3] H4] H5] H6].
  apply Z.eqb_eq in H1, H2, H3, H4. subst.
  assert (ro = ro') by (destruct ro, ro'; cbn in H5; try discriminate; [apply Z.eqb_eq in H5; congruence|reflexivity]).
  assert (dn = dn').
  { clear - H6. revert dn' H6. induction dn as [|x l IH]; intros [|y l'] H; cbn in H; try discriminate; auto.
    apply andb_true_iff in H. destruct H as [Hx Hl]. apply Z.eqb_eq in Hx. f_equal; auto. }
  subst. reflexivity.
Qed.

(* small facts about the record updaters *)
Lemma ds_set_state_state : forall s st, ds_state (dhcp_set_state s st) = st. Proof. reflexivity. Qed.

Lemma ack_valid_content : forall hw lr r, ack_valid hw lr r = true ->
  ack_content_ok hw r = true /\ lr = Some (r_transaction_id r).
Proof.
  unfold ack_valid. intros hw lr r H. apply andb_true_iff in H. destruct H as [H1 H2].
  destruct lr; [|discriminate]. apply Z.eqb_eq in H2. subst. auto.
Qed.

(* acceptance by the socket of an ACK in a state with transaction_id = most recent REQUEST <-> validity *)
Lemma parse_ack_some_content : forall hw now r ml server x s,
  dhcp_parse_ack now r ml server = Ok (Some x) ->
  r_client_hardware_address r = hw -> r_message_type r = MtAck -> r_server_identifier r = Some s ->
  ack_content_ok hw r = true.
Proof.
  intros hw now r ml server x s H Hh Ht Hs. unfold dhcp_parse_ack in H. unfold ack_content_ok.
  rewrite Ht, Hs, Hh, Z.eqb_refl.
  destruct (r_subnet_mask r) as [mask|]; [|discriminate].
  destruct (ip_prefix_len mask); [|discriminate].
  destruct (ip_x_is_unicast (r_your_ip r)); [reflexivity|discriminate].
Qed.

Lemma parse_ack_none_content : forall hw now r ml server,
  dhcp_parse_ack now r ml server = Ok None -> ack_content_ok hw r = false.
Proof.
  intros hw now r ml server H. unfold dhcp_parse_ack in H. unfold ack_content_ok.
  destruct (r_subnet_mask r) as [mask|]; [|rewrite !andb_false_r; reflexivity].
  destruct (ip_prefix_len mask); [|rewrite !andb_false_r; reflexivity].
  destruct (ip_x_is_unicast (r_your_ip r)); cbn [negb] in H; [|rewrite !andb_false_r; reflexivity].
  inv_bind H. destruct v. inv_bind H. inv_bind H. inv_bind H. discriminate.
Qed.

(* ------------------------------------------------------------------------------------------------ *)
(** * preservation *)

Ltac break_match_in H :=
  match type of H with
  | context [match ?x with _ => _ end] =>
      match x with
      | context [match _ with _ => _ end] => fail 1
      | _ => destruct x eqn:?
      end
  end.

Lemma zmax_tick : forall x c d now, x <= Z.max c d -> x <= Z.max (Z.max c now) d.
Proof. intros. lia. Qed.

(* the monitor after time passed and possibly a (monitor-)valid ACK that the socket is not waiting for *)
Lemma dhcp_inv_tick : forall hw s m now, dhcp_inv hw s m -> dhcp_inv hw s (mon_tick m now).
Proof.
  intros hw s m now [H1 [H2 [H3 [H4 H5]]]]. unfold dhcp_inv, mon_tick. cbn.
  splits; auto; try lia.
  destruct (ds_state s); cbn; intuition lia.
Qed.

Lemma dhcp_inv_set_ack : forall hw s m a,
  dhcp_inv hw s m ->
  match ds_state s with Renewing _ _ _ _ _ => False | _ => True end ->
  dhcp_inv hw s (mkMon (m_last_req m) (m_max_lease m) a (m_clock m) (m_deadline m)).
Proof.
  intros hw s m a [H1 [H2 [H3 [H4 H5]]]] Hs. unfold dhcp_inv. cbn.
  splits; auto. destruct (ds_state s); auto. contradiction.
Qed.

Lemma dhcp_inv_reset : forall hw s m, dhcp_inv hw s m -> dhcp_inv hw (dhcp_reset s) m.
Proof.
  intros hw s m [H1 [H2 [H3 [H4 H5]]]]. unfold dhcp_inv, dhcp_reset.
  destruct (ds_state s); cbn; splits; auto; lia.
Qed.

Lemma ack_valid_false_of_type : forall hw lr r,
  match r_message_type r with MtAck => False | _ => True end -> ack_valid hw lr r = false.
Proof. intros hw lr r H. unfold ack_valid, ack_content_ok. destruct (r_message_type r); try contradiction; reflexivity. Qed.

Ltac ack_false := match goal with |- context [ack_valid ?h ?l ?r] => replace (ack_valid h l r) with false end.

Lemma dhcp_inv_process : forall hw s m now src sp dp parsed s',
  dhcp_inv hw s m -> call_typed (CProcess now src sp dp parsed) ->
  dhcp_process hw now src sp dp parsed s = Ok s' ->
  dhcp_inv hw s' (mon_step hw (ds_retry_config s) m (CProcess now src sp dp parsed) RUnit).
Proof.
  intros hw s m now src sp dp parsed s' Hinv Hty H.
  unfold dhcp_process in H.
  destruct (negb ((sp =? ds_server_port s) && (dp =? ds_client_port s))); [discriminate|].
  destruct parsed as [r|]; [|inversion H; subst; apply dhcp_inv_tick; auto].
  cbn [mon_step]. cbn in Hty.
  (* the monitor either just ticks, or also records a valid ACK *)
  assert (Hirr : match ds_state s with
                 | Renewing _ _ _ _ _ => False
                 | Requesting _ retry _ _ => retry = 0
                 | _ => True end ->
                 dhcp_inv hw s (if ack_valid hw (m_last_req m) r
                                then mkMon (m_last_req (mon_tick m now)) (m_max_lease (mon_tick m now))
                                           (Some (now, r, dhcp_lease_duration r (m_max_lease m)))
                                           (m_clock (mon_tick m now)) (m_deadline (mon_tick m now))
                                else mon_tick m now)).
  { intros Hs. destruct (ack_valid hw (m_last_req m) r).
    - apply (dhcp_inv_set_ack hw s (mon_tick m now)); [apply dhcp_inv_tick; auto|].
      destruct (ds_state s); auto.
    - apply dhcp_inv_tick; auto. }
  assert (Hwait : forall (P : Prop),
                 match ds_state s with
                 | Renewing _ _ _ _ _ => True
                 | Requesting _ retry _ _ => 0 < retry
                 | _ => False end ->
                 m_last_req m = Some (ds_transaction_id s)).
  { intros _ Hs. destruct Hinv as [_ [_ [_ [_ H5]]]]. destruct (ds_state s); try contradiction; intuition. }
  destruct (negb (r_client_hardware_address r =? hw)) eqn:Ehw.
  { inversion H; subst. ack_false; [apply dhcp_inv_tick; auto|symmetry].
    unfold ack_valid, ack_content_ok. apply negb_true_iff in Ehw. rewrite Ehw.
    destruct (r_message_type r); reflexivity. }
  apply negb_false_iff, Z.eqb_eq in Ehw. subst hw.
  destruct (negb (r_transaction_id r =? ds_transaction_id s)) eqn:Exid.
  { inversion H; subst. apply negb_true_iff, Z.eqb_neq in Exid.
    destruct (ds_state s') eqn:Est.
    - apply Hirr; try rewrite Est; auto.
    - destruct (Z.eq_dec retry 0) as [->|Hr]; [apply Hirr; try rewrite Est; auto|].
      ack_false; [apply dhcp_inv_tick; auto|symmetry].
      destruct Hinv as [_ [_ [_ [_ H5]]]]. rewrite Est in H5. destruct H5 as [_ [Hr2 Hl]].
      unfold ack_valid. rewrite Hl by lia. apply Z.eqb_neq in Exid. rewrite Exid. apply andb_false_r.
    - ack_false; [apply dhcp_inv_tick; auto|symmetry].
      destruct Hinv as [_ [_ [_ [_ H5]]]]. rewrite Est in H5. destruct H5 as [Hl _].
      unfold ack_valid. rewrite Hl. apply Z.eqb_neq in Exid. rewrite Exid. apply andb_false_r. }
  apply negb_false_iff, Z.eqb_eq in Exid.
  destruct (r_server_identifier r) as [sid|] eqn:Esid.
  2:{ inversion H; subst. ack_false; [apply dhcp_inv_tick; auto|symmetry].
      unfold ack_valid, ack_content_ok. rewrite Esid. rewrite !andb_false_r. reflexivity. }
  pose proof Hinv as [I1 [I2 [I3 [I4 I5]]]].
  destruct (ds_state s) as [ra0 | ra0 retry server rip | cfg ra0 rb0 rbg e0] eqn:Est.
  - (* Discovering *)
    destruct (r_message_type r) eqn:Emt;
      try solve [inversion H; subst; apply Hirr; try rewrite Est; exact I].
    (* Offer *)
    rewrite (ack_valid_false_of_type _ (m_last_req m) r) by (rewrite Emt; exact I).
    destruct (negb (ip_x_is_unicast (r_your_ip r))); [inversion H; subst; apply dhcp_inv_tick; auto|].
    destruct (negb (ip_x_is_unicast src)); [inversion H; subst; apply dhcp_inv_tick; auto|].
    inversion H; subst. unfold dhcp_inv, mon_tick. cbn. splits; auto; try lia.
  - (* Requesting *)
    destruct I5 as [J1 [J2 J3]].
    destruct (r_message_type r) eqn:Emt;
      try solve [inversion H; subst;
           rewrite (ack_valid_false_of_type _ (m_last_req m) r) by (rewrite Emt; exact I);
           apply dhcp_inv_tick; auto].
    + (* Ack *)
      destruct (retry =? 0) eqn:Er.
      { apply Z.eqb_eq in Er. subst. inversion H; subst. apply Hirr; try rewrite Est; reflexivity. }
      apply Z.eqb_neq in Er. specialize (J3 ltac:(lia)).
      inv_bind H. destruct v as [[[[cfg ra] rb] e]|].
      * inversion H; subst; clear H.
        pose proof (parse_ack_some_content _ _ _ _ _ _ sid Hv eq_refl Emt Esid) as Hc.
        assert (Hval : ack_valid (r_client_hardware_address r) (m_last_req m) r = true).
        { unfold ack_valid. rewrite Hc, J3, Exid, Z.eqb_refl. reflexivity. }
        rewrite Hval.
        apply dhcp_parse_ack_some in Hv; auto.
        2:{ intros x Hx. apply I2. congruence. }
        destruct Hv as [K1 [K2 [K3 [K4 [K5 [K6 K7]]]]]].
        pose proof (dhcp_lease_duration_range r (ds_max_lease_duration s) (proj1 Hty)) as Hr.
        unfold dhcp_inv, mon_tick. cbn. splits; auto; try lia.
        exists now, r, (dhcp_lease_duration r (m_max_lease m)).
        assert (Hr' := Hr ltac:(intros x Hx; apply I2; congruence)).
        rewrite <- I1. splits; auto; try lia.
      * inversion H; subst.
        ack_false; [apply dhcp_inv_tick; auto|symmetry].
        unfold ack_valid. erewrite parse_ack_none_content by eauto. reflexivity.
    + (* Nak *)
      rewrite (ack_valid_false_of_type _ (m_last_req m) r) by (rewrite Emt; exact I).
      destruct (ds_ignore_naks s); inversion H; subst.
      * apply dhcp_inv_tick; auto.
      * apply dhcp_inv_reset. apply dhcp_inv_tick; auto.
  - (* Renewing *)
    destruct I5 as [J1 [t0 [r0 [l0 [J2 [J3 [J4 [J5 [J6 J7]]]]]]]]].
    destruct (r_message_type r) eqn:Emt;
      try solve [inversion H; subst;
           rewrite (ack_valid_false_of_type _ (m_last_req m) r) by (rewrite Emt; exact I);
           apply dhcp_inv_tick; auto].
    + (* Ack *)
      inv_bind H. destruct v as [[[[cfg' ra] rb] e]|].
      * pose proof (parse_ack_some_content _ _ _ _ _ _ sid Hv eq_refl Emt Esid) as Hc.
        assert (Hval : ack_valid (r_client_hardware_address r) (m_last_req m) r = true).
        { unfold ack_valid. rewrite Hc, J1, Exid, Z.eqb_refl. reflexivity. }
        rewrite Hval.
        apply dhcp_parse_ack_some in Hv; auto.
        2:{ intros x Hx. apply I2. congruence. }
        destruct Hv as [K1 [K2 [K3 [K4 [K5 [K6 K7]]]]]].
        pose proof (dhcp_lease_duration_range r (ds_max_lease_duration s) (proj1 Hty)) as Hr.
        assert (Hcfg : cfg_from_ack (if negb (dhcp_config_eqb cfg cfg') then cfg' else cfg) r).
        { destruct (dhcp_config_eqb cfg cfg') eqn:Ee; cbn [negb]; auto.
          apply dhcp_config_eqb_eq in Ee. subst. auto. }
        assert (Hgoal : forall s1, ds_state s1 = Renewing (if negb (dhcp_config_eqb cfg cfg') then cfg' else cfg) ra rb false e ->
                  ds_max_lease_duration s1 = ds_max_lease_duration s ->
                  ds_retry_config s1 = ds_retry_config s -> ds_transaction_id s1 = ds_transaction_id s ->
                  dhcp_inv (r_client_hardware_address r) s1
                    (mkMon (m_last_req (mon_tick m now)) (m_max_lease (mon_tick m now))
                       (Some (now, r, dhcp_lease_duration r (m_max_lease m)))
                       (m_clock (mon_tick m now)) (m_deadline (mon_tick m now)))).
        { intros s1 E1 E2 E3 E4. unfold dhcp_inv, mon_tick. cbn. rewrite E1, E2, E3, E4.
          splits; auto; try lia.
          exists now, r, (dhcp_lease_duration r (m_max_lease m)).
          assert (Hr' := Hr ltac:(intros x Hx; apply I2; congruence)).
          rewrite <- I1. splits; auto; try lia. }
        destruct (negb (dhcp_config_eqb cfg cfg') || ds_has_rx_buffer s); inversion H; subst; apply Hgoal; reflexivity.
      * inversion H; subst.
        ack_false; [apply dhcp_inv_tick; auto|symmetry].
        unfold ack_valid. erewrite parse_ack_none_content by eauto. reflexivity.
    + (* Nak *)
      rewrite (ack_valid_false_of_type _ (m_last_req m) r) by (rewrite Emt; exact I).
      destruct (ds_ignore_naks s); inversion H; subst.
      * apply dhcp_inv_tick; auto.
      * apply dhcp_inv_reset. apply dhcp_inv_tick; auto.
Qed.

(* ---- dispatch ---- *)

Lemma dhcp_reset_max_lease : forall s, ds_max_lease_duration (dhcp_reset s) = ds_max_lease_duration s.
Proof. intros. unfold dhcp_reset. destruct (ds_state s); reflexivity. Qed.
Lemma dhcp_reset_retry_config : forall s, ds_retry_config (dhcp_reset s) = ds_retry_config s.
Proof. intros. unfold dhcp_reset. destruct (ds_state s); reflexivity. Qed.
Lemma dhcp_reset_state : forall s, ds_state (dhcp_reset s) = Discovering 0.
Proof. intros. unfold dhcp_reset. destruct (ds_state s); reflexivity. Qed.

Lemma solicit_bound_disc : forall rc, rc_discover_timeout rc <= solicit_bound rc.
Proof. intros. unfold solicit_bound. lia. Qed.

Lemma solicit_bound_req : forall rc retry,
  0 <= rc_initial_request_timeout rc -> 0 <= retry < rc_request_retries rc ->
  rc_initial_request_timeout rc * 2 ^ (retry / 2) <= solicit_bound rc.
Proof.
  intros rc retry HT Hr. unfold solicit_bound.
  assert (2 ^ (retry / 2) <= 2 ^ ((rc_request_retries rc - 1) / 2)).
  { apply Z.pow_le_mono_r; [lia|]. apply Z.div_le_mono; lia. }
  nia.
Qed.

Lemma shl_wrapped_le : forall T k r, 0 <= T -> 0 <= k -> dh_dur_shl T k = Ok r -> 0 <= r /\ r <= T * 2 ^ k.
Proof.
  intros T k r HT Hk H. apply dh_dur_shl_ok in H. destruct H as [-> _].
  assert (0 <= T * 2 ^ k) by (apply Z.mul_nonneg_nonneg; [lia|apply Z.pow_nonneg; lia]).
  split; [apply Z.mod_pos_bound; reflexivity|apply Z.mod_le; [lia|reflexivity]].
Qed.

(* the Discovering branch, on any socket value whose state field is about to be overwritten *)
Lemma dhcp_dispatch_discovering_spec : forall ms now xid emit s0 ra s' res,
  u64_ok (rc_discover_timeout (ds_retry_config s0)) ->
  dhcp_dispatch_discovering ms now xid emit s0 ra = Ok (s', res) ->
  (res = DrNone /\ s' = s0 /\ now < ra) \/
  (exists f, res = DrErr f /\ s' = s0 /\ ra <= now /\ emit f = false /\ tx_message_type f = MtDiscover) \/
  (exists f ra', res = DrSent f /\ ra <= now /\ emit f = true /\
     tx_message_type f = MtDiscover /\ tx_transaction_id f = xid /\ tx_client_ip f = 0 /\
     tx_dst_addr f = ip_BROADCAST /\
     s' = dhcp_set_transaction_id (dhcp_set_state s0 (Discovering ra')) xid /\
     ra' = now + dh_as_i64 (rc_discover_timeout (ds_retry_config s0)) /\
     ra' <= now + rc_discover_timeout (ds_retry_config s0)).
Proof.
  intros ms now xid emit s0 ra s' res Hd H. unfold dhcp_dispatch_discovering in H.
  destruct (now <? ra) eqn:E.
  - inversion H; subst. left. splits; auto. lia.
  - right. match type of H with context [emit ?f] => set (fr := f) in * end.
    destruct (emit fr) eqn:Ee.
    + right. inv_bind H. inversion H; subst; clear H.
      pose proof (dh_inst_add_ok _ _ _ Hv) as Hx.
      pose proof (dh_inst_add_le _ _ _ (proj1 Hd) Hv).
      exists fr, v. subst fr. cbn. splits; auto; lia.
    + left. inversion H; subst. exists fr. subst fr. cbn. splits; auto; lia.
Qed.

Lemma dhcp_inv_dispatch : forall hw s m mtu now xid emit ok s' res,
  dhcp_inv hw s m ->
  dhcp_dispatch mtu now xid emit s = Ok (s', res) ->
  dhcp_inv hw s' (mon_step hw (ds_retry_config s) m (CDispatch mtu now xid ok) (RDispatch res)).
Proof.
  intros hw s m mtu now xid emit ok s' res Hinv H.
  pose proof Hinv as [I1 [I2 [I3 [I4 I5]]]].
  pose proof I3 as [T1 [T2 [T3 [T4 T5]]]].
  unfold dhcp_dispatch in H. inv_bind H. rename v into ms.
  (* result of the Discovering branch started from a socket s0 with the same settings as s *)
  assert (Hdisc : forall s0 ra,
            ds_max_lease_duration s0 = ds_max_lease_duration s -> ds_retry_config s0 = ds_retry_config s ->
            ds_state s0 = Discovering ra -> ra <= Z.max (m_clock m) (m_deadline m) ->
            dhcp_dispatch_discovering ms now xid emit s0 ra = Ok (s', res) ->
            dhcp_inv hw s' (mon_step hw (ds_retry_config s) m (CDispatch mtu now xid ok) (RDispatch res))).
  { intros s0 ra E1 E2 E3 Hra Hd.
    apply dhcp_dispatch_discovering_spec in Hd; [|rewrite E2; auto].
    destruct Hd as [[-> [-> Hlt]] | [[f [-> [-> _]]] | [f [ra' [-> [Hle [_ [Hmt [_ [_ [_ [-> [_ Hra']]]]]]]]]]]]].
    - cbn [mon_step]. unfold dhcp_inv, mon_tick. cbn. rewrite E1, E2, E3. splits; auto; lia.
    - cbn [mon_step]. unfold dhcp_inv, mon_tick. cbn. rewrite E1, E2, E3. splits; auto; lia.
    - cbn [mon_step]. rewrite Hmt. unfold dhcp_inv, mon_tick. cbn. rewrite E1, E2. splits; auto; try lia.
      rewrite E2 in Hra'. pose proof (solicit_bound_disc (ds_retry_config s)). lia. }
  destruct (ds_state s) as [ra0 | ra0 retry server rip | cfg ra0 rb0 rbg e0] eqn:Est.
  - (* Discovering *)
    eapply Hdisc; eauto.
  - (* Requesting *)
    destruct I5 as [J1 [J2 J3]].
    destruct (now <? ra0) eqn:Enow.
    { inversion H; subst. cbn [mon_step]. apply dhcp_inv_tick; auto. }
    destruct (rc_request_retries (ds_retry_config s) <=? retry) eqn:Eex.
    { apply (Hdisc (dhcp_reset s) 0);
        [apply dhcp_reset_max_lease | apply dhcp_reset_retry_config | apply dhcp_reset_state | lia | exact H]. }
    match type of H with context [emit ?f] => set (fr := f) in * end.
    destruct (emit fr) eqn:Ee.
    + inv_bind H. inv_bind H. destruct (65535 <? retry + 1) eqn:Eov; [discriminate|].
      inversion H; subst; clear H. subst fr. cbn [mon_step tx_message_type tx_transaction_id].
      apply shl_wrapped_le in Hv0; [|unfold u64_ok in T2; lia|apply Z.div_pos; lia].
      pose proof (dh_inst_add_le _ _ _ (proj1 Hv0) Hv1) as Hle.
      pose proof (solicit_bound_req (ds_retry_config s) retry ltac:(unfold u64_ok in T2; lia) ltac:(lia)) as Hb.
      unfold dhcp_inv, mon_tick. cbn. splits; auto; try lia.
    + inversion H; subst. cbn [mon_step]. apply dhcp_inv_tick; auto.
  - (* Renewing *)
    destruct I5 as [J1 [t0 [r0 [l0 [J2 [J3 [J4 [J5 [J6 J7]]]]]]]]].
    destruct (e0 <=? now) eqn:Eexp.
    { apply (Hdisc (dhcp_reset s) 0);
        [apply dhcp_reset_max_lease | apply dhcp_reset_retry_config | apply dhcp_reset_state | lia | exact H]. }
    destruct ((now <? ra0) || (rbg && (now <? rb0))) eqn:Ewait.
    { inversion H; subst. cbn [mon_step]. apply dhcp_inv_tick; auto. }
    match type of H with context [emit ?f] => set (fr := f) in * end.
    destruct (emit fr) eqn:Ee.
    + destruct (rbg || (rb0 <=? now)) eqn:Erb.
      * inv_bind H. inv_bind H. inversion H; subst; clear H. subst fr.
        cbn [mon_step tx_message_type tx_transaction_id].
        unfold dhcp_inv, mon_tick. cbn. splits; auto; try lia.
        exists t0, r0, l0. splits; auto. discriminate.
      * apply orb_false_iff in Erb. destruct Erb as [-> Erb].
        inv_bind H. inv_bind H. inversion H; subst; clear H. subst fr.
        cbn [mon_step tx_message_type tx_transaction_id].
        apply dh_inst_sub_ok in Hv0. destruct Hv0 as [-> Hd].
        specialize (J7 eq_refl). destruct J7 as [J7 J8].
        assert (Hab : Z.abs (rb0 - now) = rb0 - now) by lia. rewrite Hab in *.
        set (w := Z.min (Z.min (Z.max (rc_min_renew_timeout (ds_retry_config s)) ((rb0 - now) / 2)) (rb0 - now))
                        (rc_max_renew_timeout (ds_retry_config s))) in *.
        assert (Hw : 0 <= w <= rb0 - now) by (unfold u64_ok in *; subst w; lia).
        apply dh_inst_add_exact in Hv1; [|unfold dh_I64_MAX in *; lia].
        unfold dhcp_inv, mon_tick. cbn. splits; auto; try lia.
        exists t0, r0, l0. splits; auto; try lia.
    + inversion H; subst. cbn [mon_step].
      unfold dhcp_inv, mon_tick. cbn. splits; auto; try lia.
      exists t0, r0, l0. splits; auto. intros Hf. apply orb_false_iff in Hf. destruct Hf as [-> _]. auto.
Qed.

(* ---- every call, every history ---- *)

Lemma dhcp_inv_step : forall hw s m c s' ret,
  dhcp_inv hw s m -> call_typed c -> dhcp_call_step hw s c = Ok (s', ret) ->
  dhcp_inv hw s' (mon_step hw (ds_retry_config s) m c ret).
Proof.
  intros hw s m c s' ret Hinv Hty H. destruct c; cbn [dhcp_call_step] in H.
  - inv_bind H. inversion H; subst. eapply dhcp_inv_process; eauto.
  - inv_bind H. destruct v as [s1 r1]. inversion H; subst. cbn [fst snd]. eapply dhcp_inv_dispatch; eauto.
  - destruct (dhcp_poll s) as [s1 e] eqn:Ep. inversion H; subst. cbn [mon_step].
    unfold dhcp_poll in Ep. destruct Hinv as [I1 [I2 [I3 [I4 I5]]]].
    destruct (negb (ds_config_changed s)); [inversion Ep; subst; unfold dhcp_inv; auto|].
    destruct (ds_state s) eqn:Est; inversion Ep; subst; unfold dhcp_inv; cbn; rewrite Est; auto.
  - inversion H; subst. cbn [mon_step]. apply dhcp_inv_reset; auto.
  - inversion H; subst. cbn [mon_step]. destruct Hinv as [I1 [I2 [I3 [I4 I5]]]]. unfold dhcp_inv. cbn. auto.
  - inversion H; subst. cbn [mon_step]. destruct Hinv as [I1 [I2 [I3 [I4 I5]]]]. unfold dhcp_inv. cbn.
    splits; auto. intros x Hx. subst m0. cbn in Hty. unfold u64_ok in Hty. lia.
  - inversion H; subst. cbn [mon_step]. destruct Hinv as [I1 [I2 [I3 [I4 I5]]]]. unfold dhcp_inv. cbn. auto.
  - inversion H; subst. cbn [mon_step]. destruct Hinv as [I1 [I2 [I3 [I4 I5]]]]. unfold dhcp_inv. cbn. auto.
  - inversion H; subst. cbn [mon_step]. destruct Hinv as [I1 [I2 [I3 [I4 I5]]]]. unfold dhcp_inv. cbn. auto.
Qed.

Lemma dhcp_inv_step_total : forall hw sm c,
  dhcp_inv hw (fst sm) (snd sm) -> call_typed c ->
  dhcp_inv hw (fst (dhcp_step_total hw sm c)) (snd (dhcp_step_total hw sm c)).
Proof.
  intros hw [s m] c Hinv Hty. unfold dhcp_step_total. cbn [fst snd] in *.
  destruct (dhcp_call_step hw s c) as [[s' ret]| |] eqn:E; cbn [fst snd]; auto.
  eapply dhcp_inv_step; eauto.
Qed.

(* the invariant holds after EVERY history of calls (any arguments within their Rust types) *)
Theorem dhcp_inv_run : forall hw calls, Forall call_typed calls ->
  dhcp_inv hw (fst (dhcp_run hw calls)) (snd (dhcp_run hw calls)).
Proof.
  intros hw calls. induction calls as [|c calls IH] using rev_ind; intros Hty.
  - apply dhcp_inv_init.
  - rewrite dhcp_run_snoc. apply Forall_app in Hty. destruct Hty as [H1 H2].
    apply dhcp_inv_step_total; auto. inversion H2; auto.
Qed.

(* ------------------------------------------------------------------------------------------------ *)
(** * what the monitor fields mean in terms of the history *)

Section LastOccurrence.
  Variable C A : Type.
  Variable upd : list C -> C -> option A.     (* what call c contributes when made after history pre *)
  Variable v : list C -> option A.
  Hypothesis v_nil : v [] = None.
  Hypothesis v_snoc : forall l c, v (l ++ [c]) = match upd l c with Some a => Some a | None => v l end.

  Lemma last_occurrence : forall l a, v l = Some a ->
    exists l1 c l2, l = l1 ++ c :: l2 /\ upd l1 c = Some a /\
      forall x c' y, l2 = x ++ c' :: y -> upd (l1 ++ c :: x) c' = None.
  Proof.
    induction l as [|c l IH] using rev_ind; intros a H.
    - rewrite v_nil in H. discriminate.
    - rewrite v_snoc in H. destruct (upd l c) as [a'|] eqn:E.
      + inversion H; subst. exists l, c, []. splits; auto.
        intros x c' y Hxy. destruct x; discriminate.
      + destruct (IH a H) as [l1 [c0 [l2 [-> [Hu Hlater]]]]].
        exists l1, c0, (l2 ++ [c]). splits; auto.
        * rewrite <- app_assoc. reflexivity.
        * intros x c' y Hxy.
          destruct y as [|y0 y'] using rev_ind.
          -- apply app_inj_tail in Hxy. destruct Hxy as [-> ->].
             exact E.
          -- clear IHy'. rewrite app_comm_cons, app_assoc in Hxy. apply app_inj_tail in Hxy.
             destruct Hxy as [Hl2 _]. eapply Hlater; eauto.
  Qed.
End LastOccurrence.

(* Some xid iff call c, made after history pre, puts a DHCPREQUEST with that xid on the wire *)
Definition request_sent_by (hw : Z) (pre : list dhcp_call) (c : dhcp_call) : option Z :=
  match dhcp_call_step hw (fst (dhcp_run hw pre)) c with
  | Ok (_, RDispatch (DrSent f)) =>
      match tx_message_type f with MtRequest => Some (tx_transaction_id f) | _ => None end
  | _ => None
  end.

(* Some (t, r, l) iff call c, made after history pre, hands the socket (at time t) a DHCPACK r that satisfies every
   clause of the property; l = min(lease of r or default, max_lease setting) *)
Definition ack_received_by (hw : Z) (pre : list dhcp_call) (c : dhcp_call) : option (Z * dhcp_repr * Z) :=
  match c with
  | CProcess now _ _ _ (Some r) =>
      match dhcp_call_step hw (fst (dhcp_run hw pre)) c with
      | Ok _ => if ack_valid hw (m_last_req (snd (dhcp_run hw pre))) r
                then Some (now, r, dhcp_lease_duration r (m_max_lease (snd (dhcp_run hw pre))))
                else None
      | _ => None
      end
  | _ => None
  end.

Lemma m_last_req_snoc : forall hw l c,
  m_last_req (snd (dhcp_run hw (l ++ [c]))) =
  match request_sent_by hw l c with Some a => Some a | None => m_last_req (snd (dhcp_run hw l)) end.
Proof.
  intros hw l c. rewrite dhcp_run_snoc. unfold request_sent_by, dhcp_step_total.
  destruct (dhcp_run hw l) as [s m]. cbn [fst snd].
  destruct (dhcp_call_step hw s c) as [[s' ret]| |] eqn:E; cbn [fst snd]; auto.
  destruct c; cbn [dhcp_call_step] in E.
  - inv_bind E. inversion E; subst. cbn. destruct parsed; cbn; auto. destruct (ack_valid _ _ _); reflexivity.
  - inv_bind E. inversion E; subst. cbn [mon_step]. destruct (snd v) as [|f|f]; cbn; auto.
    destruct (tx_message_type f); reflexivity.
  - destruct (dhcp_poll s). inversion E; subst. reflexivity.
  - inversion E; subst. reflexivity.
  - inversion E; subst. reflexivity.
  - inversion E; subst. reflexivity.
  - inversion E; subst. reflexivity.
  - inversion E; subst. reflexivity.
  - inversion E; subst. reflexivity.
Qed.

Lemma m_ack_snoc : forall hw l c,
  m_ack (snd (dhcp_run hw (l ++ [c]))) =
  match ack_received_by hw l c with Some a => Some a | None => m_ack (snd (dhcp_run hw l)) end.
Proof.
  intros hw l c. rewrite dhcp_run_snoc. unfold ack_received_by, dhcp_step_total.
  destruct (dhcp_run hw l) as [s m]. cbn [fst snd].
  destruct (dhcp_call_step hw s c) as [[s' ret]| |] eqn:E; cbn [fst snd].
  2,3: destruct c; auto; destruct parsed; auto.
  destruct c; cbn [dhcp_call_step] in E.
  - inv_bind E. inversion E; subst. cbn. destruct parsed; cbn; auto. destruct (ack_valid _ _ _); reflexivity.
  - inv_bind E. inversion E; subst. cbn [mon_step]. destruct (snd v) as [|f|f]; cbn; auto.
  - destruct (dhcp_poll s). inversion E; subst. reflexivity.
  - inversion E; subst. reflexivity.
  - inversion E; subst. reflexivity.
  - inversion E; subst. reflexivity.
  - inversion E; subst. reflexivity.
  - inversion E; subst. reflexivity.
  - inversion E; subst. reflexivity.
Qed.

Definition ack_clauses (hw : Z) (r : dhcp_repr) : Prop :=
  r_message_type r = MtAck /\
  r_client_hardware_address r = hw /\
  (exists sid, r_server_identifier r = Some sid) /\
  (exists mask p, r_subnet_mask r = Some mask /\ 0 <= p <= 32 /\ mask = ip_netmask p) /\
  ip_x_is_unicast (r_your_ip r) = true.

Lemma ack_content_ok_clauses : forall hw r, ack_content_ok hw r = true <-> ack_clauses hw r.
Proof.
  intros hw r. unfold ack_content_ok, ack_clauses. split.
  - rewrite !andb_true_iff. intros [[[[H1 H2] H3] H4] H5].
    destruct (r_message_type r); try discriminate. apply Z.eqb_eq in H2.
    destruct (r_server_identifier r) as [sid|]; [|discriminate].
    destruct (r_subnet_mask r) as [mask|]; [|discriminate].
    destruct (ip_prefix_len mask) as [p|] eqn:Ep; [|discriminate].
    apply ip_prefix_len_some in Ep. destruct Ep as [Ep1 Ep2]. splits; eauto.
  - intros [H1 [H2 [[sid H3] [[mask [p [H4 [H5 H6]]]] H7]]]].
    rewrite H1, H2, H3, H4, H7, Z.eqb_refl. subst mask.
    destruct (ip_prefix_len (ip_netmask p)) eqn:E; [reflexivity|].
    exfalso. eapply ip_prefix_len_netmask; eauto.
Qed.

Lemma ack_received_by_spec : forall hw pre c t r l,
  ack_received_by hw pre c = Some (t, r, l) ->
  (exists src sp dp, c = CProcess t src sp dp (Some r)) /\
  ack_clauses hw r /\
  m_last_req (snd (dhcp_run hw pre)) = Some (r_transaction_id r) /\
  l = dhcp_lease_duration r (m_max_lease (snd (dhcp_run hw pre))).
Proof.
  intros hw pre c t r l H. unfold ack_received_by in H.
  destruct c; try discriminate. destruct parsed as [r'|]; [|discriminate].
  destruct (dhcp_call_step _ _ _); try discriminate.
  destruct (ack_valid hw (m_last_req (snd (dhcp_run hw pre))) r') eqn:E; [|discriminate].
  inversion H; subst. apply ack_valid_content in E. destruct E as [E1 E2].
  splits; eauto. apply ack_content_ok_clauses; auto.
Qed.

(* ------------------------------------------------------------------------------------------------ *)
(** * configured_only_by_valid_ack *)

Theorem c18_configured_only_by_valid_ack : forall hw calls, Forall call_typed calls ->
  forall c pk, snd (dhcp_poll (fst (dhcp_run hw calls))) = Some (EvConfigured c pk) ->
  exists calls1 calls2 t src sp dp r l,
    (* the reported configuration is that of a DHCPACK r handed to the socket at time t ... *)
    calls = calls1 ++ CProcess t src sp dp (Some r) :: calls2 /\
    ack_received_by hw calls1 (CProcess t src sp dp (Some r)) = Some (t, r, l) /\
    cfg_from_ack c r /\
    (* ... own hardware address, server identifier, contiguous mask, unicast address ... *)
    ack_clauses hw r /\
    (* ... received after a REQUEST was transmitted, the most recent of which carried r's transaction id ... *)
    (exists calls0 d calls01, calls1 = calls0 ++ d :: calls01 /\
        request_sent_by hw calls0 d = Some (r_transaction_id r) /\
        forall x d' y, calls01 = x ++ d' :: y -> request_sent_by hw (calls0 ++ d :: x) d' = None) /\
    (* ... and no later call handed the socket another such ACK *)
    (forall x d' y, calls2 = x ++ d' :: y ->
        ack_received_by hw (calls1 ++ CProcess t src sp dp (Some r) :: x) d' = None).
Proof.
  intros hw calls Hty c pk Hp.
  pose proof (dhcp_inv_run hw calls Hty) as Hinv.
  destruct (dhcp_run hw calls) as [s m] eqn:Erun. cbn [fst snd] in *.
  unfold dhcp_poll in Hp. destruct (negb (ds_config_changed s)); [discriminate|].
  destruct Hinv as [_ [_ [_ [_ I5]]]].
  destruct (ds_state s) as [| |cfg ra rb rbg e] eqn:Est; cbn in Hp; try discriminate.
  inversion Hp; subst; clear Hp.
  destruct I5 as [J1 [t [r [l [J2 [J3 [J4 _]]]]]]].
  assert (Hm : m_ack (snd (dhcp_run hw calls)) = Some (t, r, l)) by (rewrite Erun; exact J2).
  apply (last_occurrence _ _ (ack_received_by hw) (fun l => m_ack (snd (dhcp_run hw l)))) in Hm;
    [|reflexivity|apply m_ack_snoc].
  destruct Hm as [calls1 [c0 [calls2 [Hc [Hu Hlater]]]]].
  pose proof (ack_received_by_spec _ _ _ _ _ _ Hu) as [[src [sp [dp ->]]] [Hcl [Hreq Hl]]].
  apply (last_occurrence _ _ (request_sent_by hw) (fun l => m_last_req (snd (dhcp_run hw l)))) in Hreq;
    [|reflexivity|apply m_last_req_snoc].
  exists calls1, calls2, t, src, sp, dp, r, l. splits; auto.
Qed.

(* ------------------------------------------------------------------------------------------------ *)
(** * lease_bound *)

Lemma m_max_lease_snoc : forall hw l c,
  m_max_lease (snd (dhcp_run hw (l ++ [c]))) =
  match c with CSetMaxLeaseDuration x => x | _ => m_max_lease (snd (dhcp_run hw l)) end.
Proof.
  intros hw l c. rewrite dhcp_run_snoc. unfold dhcp_step_total.
  destruct (dhcp_run hw l) as [s m]. cbn [fst snd].
  destruct (dhcp_call_step hw s c) as [[s' ret]| |] eqn:E; cbn [fst snd].
  2,3: destruct c; auto; cbn in E; discriminate.
  destruct c; cbn [dhcp_call_step] in E.
  - inv_bind E. inversion E; subst. cbn. destruct parsed; cbn; auto. destruct (ack_valid _ _ _); reflexivity.
  - inv_bind E. inversion E; subst. cbn [mon_step]. destruct (snd v) as [|f|f]; cbn; auto.
  - destruct (dhcp_poll s). inversion E; subst. reflexivity.
  - inversion E; subst. reflexivity.
  - inversion E; subst. reflexivity.
  - inversion E; subst. reflexivity.
  - inversion E; subst. reflexivity.
  - inversion E; subst. reflexivity.
  - inversion E; subst. reflexivity.
Qed.

(* the lease an ACK grants under a max_lease setting, spelled out *)
Lemma dhcp_lease_duration_spec : forall r ml,
  dhcp_lease_duration r ml =
  let lease := match r_lease_duration r with Some d => d * 1000000 | None => dhcp_DEFAULT_LEASE_DURATION end in
  match ml with Some m => Z.min lease m | None => lease end.
Proof. reflexivity. Qed.

Theorem c18_lease_bound : forall hw calls, Forall call_typed calls ->
  forall cfg ra rb rbg e, ds_state (fst (dhcp_run hw calls)) = Renewing cfg ra rb rbg e ->
  exists calls1 calls2 t src sp dp r l,
    (* the most recent ACK satisfying every clause, received at time t *)
    calls = calls1 ++ CProcess t src sp dp (Some r) :: calls2 /\
    ack_received_by hw calls1 (CProcess t src sp dp (Some r)) = Some (t, r, l) /\
    (forall x d' y, calls2 = x ++ d' :: y ->
        ack_received_by hw (calls1 ++ CProcess t src sp dp (Some r) :: x) d' = None) /\
    cfg_from_ack cfg r /\
    (* the lease it grants: min(lease, max_lease) with the max_lease setting in force at its receipt *)
    l = dhcp_lease_duration r (m_max_lease (snd (dhcp_run hw calls1))) /\
    (* the socket's expiry instant is exactly t + that, and poll_at never exceeds it *)
    e = t + l /\ dhcp_poll_at (fst (dhcp_run hw calls)) <= e.
Proof.
  intros hw calls Hty cfg ra rb rbg e Hst.
  pose proof (dhcp_inv_run hw calls Hty) as Hinv.
  destruct (dhcp_run hw calls) as [s m] eqn:Erun. cbn [fst snd] in *.
  destruct Hinv as [_ [_ [_ [_ I5]]]]. rewrite Hst in I5.
  destruct I5 as [J1 [t [r [l [J2 [J3 [J4 [J5 _]]]]]]]].
  assert (Hm : m_ack (snd (dhcp_run hw calls)) = Some (t, r, l)) by (rewrite Erun; exact J2).
  apply (last_occurrence _ _ (ack_received_by hw) (fun l => m_ack (snd (dhcp_run hw l)))) in Hm;
    [|reflexivity|apply m_ack_snoc].
  destruct Hm as [calls1 [c0 [calls2 [Hc [Hu Hlater]]]]].
  pose proof (ack_received_by_spec _ _ _ _ _ _ Hu) as [[src [sp [dp ->]]] [Hcl [Hreq Hl]]].
  exists calls1, calls2, t, src, sp, dp, r, l. splits; auto.
  unfold dhcp_poll_at. rewrite Hst. lia.
Qed.

(* at or after expiry the first dispatch drops the lease (for EVERY socket value, reachable or not):
   the next poll() reports Deconfigured, and - the device permitting - the DISCOVER leaves in the same dispatch *)
Theorem c18_expiry_deconfigures : forall s cfg ra rb rbg e mtu now xid emit s' res,
  ds_state s = Renewing cfg ra rb rbg e -> e <= now ->
  dhcp_dispatch mtu now xid emit s = Ok (s', res) ->
  (exists ra', ds_state s' = Discovering ra') /\
  snd (dhcp_poll s') = Some EvDeconfigured /\
  (0 <= now -> (forall f, emit f = true) -> exists f, res = DrSent f /\ tx_message_type f = MtDiscover).
Proof.
  intros s cfg ra rb rbg e mtu now xid emit s' res Hst He H.
  unfold dhcp_dispatch in H. inv_bind H. rewrite Hst in H.
  destruct (e <=? now) eqn:E; [|lia].
  unfold dhcp_dispatch_discovering in H.
  assert (Hr : ds_config_changed (dhcp_reset s) = true /\ ds_state (dhcp_reset s) = Discovering 0).
  { unfold dhcp_reset. rewrite Hst. auto. }
  destruct Hr as [Hr1 Hr2].
  destruct (now <? 0) eqn:En.
  - inversion H; subst. splits; eauto.
    + unfold dhcp_poll. rewrite Hr1, Hr2. reflexivity.
    + intros Hn He'. lia.
  - match type of H with context [emit ?f] => set (fr := f) in * end.
    destruct (emit fr) eqn:Ee.
    + inv_bind H. inversion H; subst; clear H. splits.
      * eexists. reflexivity.
      * unfold dhcp_poll, dhcp_set_transaction_id, dhcp_set_state.
        cbn [ds_config_changed ds_state]. rewrite Hr1. reflexivity.
      * intros _ _. exists fr. auto.
    + inversion H; subst. splits; eauto.
      * unfold dhcp_poll. rewrite Hr1, Hr2. reflexivity.
      * intros _ He'. rewrite He' in Ee. discriminate.
Qed.

(* ------------------------------------------------------------------------------------------------ *)
(** * renew_before_rebind_before_expiry *)

(* the instants computed from ANY lease / T1 / T2 (u32 seconds, absent, 0, equal, inverted, 2^32-1) and ANY max_lease *)
Theorem c18_t1_t2_order : forall now r ml server c ra rb e,
  repr_typed r -> (forall m, ml = Some m -> 0 <= m) ->
  dhcp_parse_ack now r ml server = Ok (Some (c, ra, rb, e)) ->
  now <= ra /\ ra <= rb /\ rb <= e /\ e = now + dhcp_lease_duration r ml.
Proof.
  intros now r ml server c ra rb e Hr Hm H.
  apply dhcp_parse_ack_some in H; auto. intuition.
Qed.

Theorem c18_renew_before_rebind_before_expiry : forall hw calls, Forall call_typed calls ->
  forall cfg ra rb rbg e, ds_state (fst (dhcp_run hw calls)) = Renewing cfg ra rb rbg e ->
  (* T1 <= T2 <= expiry as long as the client is renewing *)
  (rbg = false -> ra <= rb /\ rb <= e) /\
  (* every renewal/rebinding REQUEST leaves strictly before expiry; unicast ones only before T2 and only while not
     rebinding; from T2 on (and for the rest of the lease) they are broadcast *)
  forall mtu now xid emit s' f,
    dhcp_dispatch mtu now xid emit (fst (dhcp_run hw calls)) = Ok (s', DrSent f) ->
    tx_message_type f = MtRequest ->
    now < e /\
    exists ra' rb', ds_state s' = Renewing cfg ra' rb' (rbg || (rb <=? now)) e /\
      if rbg || (rb <=? now)
      then tx_dst_addr f = ip_BROADCAST
      else ra <= now /\ now < rb /\ tx_dst_addr f = si_address (cf_server cfg) /\ ra' <= rb /\ rb' = rb.
Proof.
  intros hw calls Hty cfg ra rb rbg e Hst.
  pose proof (dhcp_inv_run hw calls Hty) as Hinv.
  destruct (dhcp_run hw calls) as [s m] eqn:Erun. cbn [fst snd] in *.
  destruct Hinv as [_ [_ [I3 [_ I5]]]]. rewrite Hst in I5.
  destruct I5 as [J1 [t [r [l [J2 [J3 [J4 [J5 [J6 J7]]]]]]]]].
  split; [exact J7|].
  intros mtu now xid emit s' f H Hmt.
  unfold dhcp_dispatch in H. inv_bind H. rewrite Hst in H.
  destruct (e <=? now) eqn:Ee.
  { (* expired: only a DISCOVER can leave *)
    unfold dhcp_dispatch_discovering in H. destruct (now <? 0); [discriminate|].
    match type of H with context [emit ?f] => destruct (emit f) end; [|discriminate].
    inv_bind H. inversion H; subst. cbn in Hmt. discriminate. }
  destruct ((now <? ra) || (rbg && (now <? rb))) eqn:Ew; [discriminate|].
  match type of H with context [emit ?f] => set (fr := f) in * end.
  destruct (emit fr) eqn:Eem; [|discriminate].
  split; [lia|].
  destruct (rbg || (rb <=? now)) eqn:Erb.
  - inv_bind H. inv_bind H. inversion H; subst; clear H. subst fr. cbn.
    eexists _, _. split; reflexivity.
  - apply orb_false_iff in Erb. destruct Erb as [-> Erb].
    inv_bind H. inv_bind H. inversion H; subst; clear H. subst fr. cbn.
    specialize (J7 eq_refl). destruct J7 as [J7 J8].
    apply dh_inst_sub_ok in Hv0. destruct Hv0 as [-> Hd].
    destruct I3 as [_ [_ [_ [T4 T5]]]]. unfold u64_ok in *.
    assert (Hab : Z.abs (rb - now) = rb - now) by lia. rewrite Hab in *.
    apply dh_inst_add_exact in Hv1; [|unfold dh_I64_MAX in *; lia].
    eexists _, _. split; [reflexivity|]. cbn in Ew. splits; try lia; auto.
Qed.

(* ------------------------------------------------------------------------------------------------ *)
(** * solicits_at_bounded_intervals *)

Definition dhcp_unconfigured (s : dhcp_socket) : Prop :=
  match ds_state s with Renewing _ _ _ _ _ => False | _ => True end.

(* (1) whenever the client is unconfigured its next deadline is not later than
       max(latest timestamp it was given, last transmission + solicit_bound(configuration at that transmission)) *)
Theorem c18_solicit_deadline : forall hw calls, Forall call_typed calls ->
  let s := fst (dhcp_run hw calls) in let m := snd (dhcp_run hw calls) in
  dhcp_unconfigured s -> dhcp_poll_at s <= Z.max (m_clock m) (m_deadline m).
Proof.
  intros hw calls Hty s m Hu. subst s m.
  pose proof (dhcp_inv_run hw calls Hty) as Hinv.
  destruct (dhcp_run hw calls) as [s m]. cbn [fst snd] in *.
  destruct Hinv as [_ [_ [_ [_ I5]]]]. unfold dhcp_unconfigured in Hu. unfold dhcp_poll_at.
  destruct (ds_state s); intuition.
Qed.

(* (2) a dispatch at or after that deadline on a device that accepts the frame always transmits a DISCOVER or REQUEST,
       stays unconfigured, and arms the next deadline within solicit_bound of the configuration  (every socket value) *)
Theorem c18_solicit_when_due : forall s mtu now xid emit s' res,
  dhcp_unconfigured s -> retry_cfg_typed (ds_retry_config s) ->
  (match ds_state s with Requesting _ retry _ _ => 0 <= retry | _ => True end) ->
  dhcp_poll_at s <= now -> 0 <= now -> (forall f, emit f = true) ->
  dhcp_dispatch mtu now xid emit s = Ok (s', res) ->
  exists f, res = DrSent f /\ tx_client_ip f = 0 /\ tx_dst_addr f = ip_BROADCAST /\
    (tx_message_type f = MtDiscover \/ tx_message_type f = MtRequest) /\
    dhcp_unconfigured s' /\ dhcp_poll_at s' <= now + solicit_bound (ds_retry_config s).
Proof.
  intros s mtu now xid emit s' res Hu [T1 [T2 [T3 [T4 T5]]]] Hr Hdue Hn Hem H.
  unfold dhcp_dispatch in H. inv_bind H. unfold dhcp_unconfigured, dhcp_poll_at in *.
  assert (Hdisc : forall s0 ra, ds_retry_config s0 = ds_retry_config s -> ra <= now ->
            dhcp_dispatch_discovering v now xid emit s0 ra = Ok (s', res) ->
            exists f, res = DrSent f /\ tx_client_ip f = 0 /\ tx_dst_addr f = ip_BROADCAST /\
              (tx_message_type f = MtDiscover \/ tx_message_type f = MtRequest) /\
              match ds_state s' with Renewing _ _ _ _ _ => False | _ => True end /\
              match ds_state s' with
              | Discovering retry_at => retry_at
              | Requesting retry_at _ _ _ => retry_at
              | Renewing _ renew_at rebind_at rebinding expires_at =>
                  Z.min (if rebinding then rebind_at else Z.min renew_at rebind_at) expires_at
              end <= now + solicit_bound (ds_retry_config s)).
  { intros s0 ra E Hra Hd. apply dhcp_dispatch_discovering_spec in Hd; [|rewrite E; auto].
    destruct Hd as [[_ [_ Hlt]] | [[f [_ [_ [_ [Hf _]]]]] | [f [ra' [-> [_ [_ [Hmt [_ [Hci [Hdst [-> [_ Hra']]]]]]]]]]]]].
    - lia.
    - rewrite Hem in Hf. discriminate.
    - exists f. rewrite E in Hra'. pose proof (solicit_bound_disc (ds_retry_config s)).
      splits; auto; cbn; [exact I|lia]. }
  destruct (ds_state s) as [ra0 | ra0 retry server rip | ] eqn:Est; [| |contradiction].
  - apply (Hdisc s ra0); [reflexivity|lia|exact H].
  - destruct (now <? ra0) eqn:E1; [lia|].
    destruct (rc_request_retries (ds_retry_config s) <=? retry) eqn:E2.
    { apply (Hdisc (dhcp_reset s) 0); [apply dhcp_reset_retry_config|lia|exact H]. }
    match type of H with context [emit ?f] => set (fr := f) in * end.
    rewrite Hem in H. inv_bind H. inv_bind H. destruct (65535 <? retry + 1); [discriminate|].
    inversion H; subst; clear H. exists fr. subst fr. cbn.
    apply shl_wrapped_le in Hv0; [|unfold u64_ok in T2; lia|apply Z.div_pos; lia].
    pose proof (dh_inst_add_le _ _ _ (proj1 Hv0) Hv1) as Hle.
    pose proof (solicit_bound_req (ds_retry_config s) retry ltac:(unfold u64_ok in T2; lia) ltac:(lia)) as Hb.
    splits; auto. lia.
Qed.

(* ------------------------------------------------------------------------------------------------ *)
(** * dispatch_no_panic (and process): no Rust panic for timestamps below 2^62 us (146 000 years) and a retry
      configuration whose back-off stays in range; the exact overflow conditions are the Panic branches of the model,
      and [c18_shift_overflow_reachable] below shows that outside these bounds the panic IS reachable. *)

Definition dh_T62 : Z := 4611686018427387904.
Definition time_ok (now : Z) : Prop := 0 <= now < dh_T62.

Definition retry_cfg_sane (rc : dhcp_retry_config) : Prop :=
  retry_cfg_typed rc /\
  rc_discover_timeout rc < dh_T62 /\
  rc_request_retries rc <= 128 /\                                       (* shift amount retry/2 stays below 64 *)
  rc_initial_request_timeout rc * 2 ^ ((rc_request_retries rc - 1) / 2) < dh_T62 /\
  rc_min_renew_timeout rc < dh_T62.

Definition call_sane (c : dhcp_call) : Prop :=
  call_typed c /\
  match c with
  | CProcess now _ _ _ _ => time_ok now
  | CDispatch mtu now _ _ => time_ok now /\ dhcp_MAX_IPV4_HEADER_LEN + wudp_HEADER_LEN <= mtu
  | CSetRetryConfig rc => retry_cfg_sane rc
  | _ => True
  end.

Definition dhcp_tinv (s : dhcp_socket) : Prop :=
  retry_cfg_sane (ds_retry_config s) /\
  (forall m, ds_max_lease_duration s = Some m -> 0 <= m) /\
  match ds_state s with
  | Requesting _ retry _ _ => 0 <= retry
  | Renewing _ _ rb rbg e => 0 <= e < dh_T62 + 4294967296000000 /\ (rbg = false -> 0 <= rb /\ rb <= e)
  | Discovering _ => True
  end.

Lemma retry_default_sane : retry_cfg_sane dhcp_retry_default.
Proof.
  unfold retry_cfg_sane, retry_cfg_typed, u64_ok, dhcp_retry_default, dh_DURATION_MAX, dh_T62. cbn.
  splits; try lia. vm_compute. reflexivity.
Qed.

Lemma dhcp_tinv_init : dhcp_tinv dhcp_new.
Proof. unfold dhcp_tinv, dhcp_new. cbn. splits; auto. apply retry_default_sane. discriminate. Qed.

Lemma dhcp_tinv_reset : forall s, dhcp_tinv s -> dhcp_tinv (dhcp_reset s).
Proof.
  intros s [H1 [H2 H3]]. unfold dhcp_tinv. rewrite dhcp_reset_retry_config, dhcp_reset_max_lease, dhcp_reset_state. auto.
Qed.

Lemma dhcp_process_safe : forall hw s now src sp dp parsed,
  dhcp_tinv s -> call_sane (CProcess now src sp dp parsed) ->
  sp = ds_server_port s -> dp = ds_client_port s ->
  exists s', dhcp_process hw now src sp dp parsed s = Ok s' /\ dhcp_tinv s'.
Proof.
  intros hw s now src sp dp parsed Ht [Hty Hnow] -> ->. pose proof Ht as [H1 [H2 H3]].
  unfold dhcp_process. rewrite !Z.eqb_refl. cbn [andb negb].
  destruct parsed as [r|]; [|eauto]. cbn in Hty.
  destruct (negb (r_client_hardware_address r =? hw)); [eauto|].
  destruct (negb (r_transaction_id r =? ds_transaction_id s)); [eauto|].
  destruct (r_server_identifier r) as [sid|]; [|eauto].
  assert (Hpa : forall server, (exists x, dhcp_parse_ack now r (ds_max_lease_duration s) server = Ok (Some x)) \/
                               dhcp_parse_ack now r (ds_max_lease_duration s) server = Ok None).
  { intros server. destruct (dhcp_parse_ack_none_or_some now r (ds_max_lease_duration s) server Hty H2 Hnow) as [[x|] Hx];
      rewrite Hx; eauto. }
  assert (Hok : forall server c ra rb e, dhcp_parse_ack now r (ds_max_lease_duration s) server = Ok (Some (c, ra, rb, e)) ->
                 0 <= e < dh_T62 + 4294967296000000 /\ 0 <= rb /\ rb <= e).
  { intros server c ra rb e Hp. apply dhcp_parse_ack_some in Hp; auto.
    destruct Hp as [_ [_ [_ [K4 [K5 [K6 K7]]]]]].
    pose proof (dhcp_lease_duration_range r (ds_max_lease_duration s) (proj1 Hty) H2). unfold time_ok in Hnow. lia. }
  destruct (ds_state s) as [ra0 | ra0 retry server rip | cfg ra0 rb0 rbg e0] eqn:Est;
    destruct (r_message_type r); eauto.
  - destruct (negb (ip_x_is_unicast (r_your_ip r))); [eauto|].
    destruct (negb (ip_x_is_unicast src)); [eauto|].
    eexists. split; [reflexivity|]. unfold dhcp_tinv. cbn. splits; auto. lia.
  - destruct (retry =? 0); [eauto|].
    destruct (Hpa server) as [[[[[c ra] rb] e] Hx] | Hx]; rewrite Hx; cbn [obind]; [|eauto].
    eexists. split; [reflexivity|]. apply Hok in Hx. unfold dhcp_tinv. cbn. splits; auto; lia.
  - destruct (ds_ignore_naks s); [eauto|]. eexists. split; [reflexivity|]. apply dhcp_tinv_reset; auto.
  - destruct (Hpa (cf_server cfg)) as [[[[[c ra] rb] e] Hx] | Hx]; rewrite Hx; cbn [obind]; [|eauto].
    apply Hok in Hx.
    destruct (negb (dhcp_config_eqb cfg c) || ds_has_rx_buffer s);
      (eexists; split; [reflexivity|]; unfold dhcp_tinv; cbn; splits; auto; lia).
  - destruct (ds_ignore_naks s); [eauto|]. eexists. split; [reflexivity|]. apply dhcp_tinv_reset; auto.
Qed.

Lemma dhcp_dispatch_discovering_safe : forall ms now xid emit s0 ra,
  dhcp_tinv s0 -> time_ok now -> ds_state s0 = Discovering ra ->
  exists s' res, dhcp_dispatch_discovering ms now xid emit s0 ra = Ok (s', res) /\ dhcp_tinv s'.
Proof.
  intros ms now xid emit s0 ra Ht Hn Hst. pose proof Ht as [[[T1 _] [S1 _]] [H2 H3]].
  unfold dhcp_dispatch_discovering. destruct (now <? ra); [eauto|].
  match goal with |- context [emit ?f] => destruct (emit f) end; [|eauto].
  unfold time_ok, dh_T62, u64_ok in *.
  destruct (dh_inst_add_no_panic now (rc_discover_timeout (ds_retry_config s0))) as [x Hx];
    [unfold dh_I64_MAX; lia|unfold dh_I64_MAX, dh_I64_MIN; lia|].
  rewrite Hx. cbn [obind]. eexists _, _. split; [reflexivity|].
  destruct Ht as [A [B _]]. unfold dhcp_tinv. cbn. auto.
Qed.

Lemma dhcp_dispatch_safe : forall s mtu now xid emit,
  dhcp_tinv s -> time_ok now -> dhcp_MAX_IPV4_HEADER_LEN + wudp_HEADER_LEN <= mtu ->
  exists s' res, dhcp_dispatch mtu now xid emit s = Ok (s', res) /\ dhcp_tinv s'.
Proof.
  intros s mtu now xid emit Ht Hn Hmtu.
  pose proof (proj1 Ht) as Hsane.
  pose proof Ht as [[[T1 [T2 [T3 [T4 T5]]]] [S1 [S2 [S3 S4]]]] [H2 H3]].
  unfold dhcp_dispatch, dhcp_max_size.
  destruct (mtu <? dhcp_MAX_IPV4_HEADER_LEN + wudp_HEADER_LEN) eqn:Em; [lia|]. cbn [obind].
  set (ms := (mtu - dhcp_MAX_IPV4_HEADER_LEN - wudp_HEADER_LEN) mod 65536).
  destruct (ds_state s) as [ra0 | ra0 retry server rip | cfg ra0 rb0 rbg e0] eqn:Est.
  - apply dhcp_dispatch_discovering_safe; auto.
  - destruct (now <? ra0); [eauto|].
    destruct (rc_request_retries (ds_retry_config s) <=? retry) eqn:Eex.
    { apply dhcp_dispatch_discovering_safe; auto using dhcp_tinv_reset, dhcp_reset_state. }
    match goal with |- context [emit ?f] => destruct (emit f) end; [|eauto].
    assert (Hk : 0 <= retry / 2 < 64) by (split; [apply Z.div_pos; lia|apply Z.div_lt_upper_bound; lia]).
    assert (Hpow : rc_initial_request_timeout (ds_retry_config s) * 2 ^ (retry / 2) < dh_T62).
    { pose proof (solicit_bound_req (ds_retry_config s) retry ltac:(unfold u64_ok in T2; lia) ltac:(lia)) as Hb.
      unfold solicit_bound in Hb.
      assert (2 ^ (retry / 2) <= 2 ^ ((rc_request_retries (ds_retry_config s) - 1) / 2)).
      { apply Z.pow_le_mono_r; [lia|]. apply Z.div_le_mono; lia. }
      unfold u64_ok in T2. nia. }
    assert (Hnn : 0 <= rc_initial_request_timeout (ds_retry_config s) * 2 ^ (retry / 2)).
    { apply Z.mul_nonneg_nonneg; [unfold u64_ok in T2; lia|apply Z.pow_nonneg; lia]. }
    unfold dh_dur_shl. destruct (retry / 2 <? 64) eqn:Ek; [|lia]. cbn [obind].
    rewrite Z.mod_small by (unfold dh_U64, dh_T62 in *; lia).
    unfold time_ok, dh_T62 in *.
    destruct (dh_inst_add_no_panic now (rc_initial_request_timeout (ds_retry_config s) * 2 ^ (retry / 2))) as [x Hx];
      [unfold dh_I64_MAX; lia|unfold dh_I64_MAX, dh_I64_MIN; lia|].
    rewrite Hx. cbn [obind]. destruct (65535 <? retry + 1) eqn:Eov; [lia|].
    eexists _, _. split; [reflexivity|]. unfold dhcp_tinv. cbn. splits; auto. lia.
  - destruct H3 as [He Hrb].
    destruct (e0 <=? now) eqn:Eexp.
    { apply dhcp_dispatch_discovering_safe; auto using dhcp_tinv_reset, dhcp_reset_state. }
    destruct ((now <? ra0) || (rbg && (now <? rb0))) eqn:Ew; [eauto|].
    match goal with |- context [emit ?f] => destruct (emit f) end.
    2:{ eexists _, _. split; [reflexivity|]. unfold dhcp_tinv. cbn. splits; auto; try (unfold dh_T62 in *; lia).
        intros Hf. apply orb_false_iff in Hf. destruct Hf as [-> _]. auto. }
    unfold time_ok, dh_T62, u64_ok in *.
    destruct (rbg || (rb0 <=? now)) eqn:Erb.
    + destruct (dh_inst_sub_no_panic e0 now) as [d Hd]; [unfold dh_I64_MAX, dh_I64_MIN; lia|].
      rewrite Hd. cbn [obind]. apply dh_inst_sub_ok in Hd. destruct Hd as [-> _].
      set (w := Z.min (Z.max (rc_min_renew_timeout (ds_retry_config s)) (Z.abs (e0 - now) / 2))
                      (rc_max_renew_timeout (ds_retry_config s))).
      assert (Hw : 0 <= w < 4611686018427387904) by (subst w; lia).
      destruct (dh_inst_add_no_panic now w) as [x Hx]; [unfold dh_I64_MAX; lia|unfold dh_I64_MAX, dh_I64_MIN; lia|].
      rewrite Hx. cbn [obind]. eexists _, _. split; [reflexivity|].
      unfold dhcp_tinv. cbn. splits; auto; try (unfold dh_T62 in *; lia); try discriminate.
    + apply orb_false_iff in Erb. destruct Erb as [-> Erb]. specialize (Hrb eq_refl).
      destruct (dh_inst_sub_no_panic rb0 now) as [d Hd]; [unfold dh_I64_MAX, dh_I64_MIN; lia|].
      rewrite Hd. cbn [obind]. apply dh_inst_sub_ok in Hd. destruct Hd as [-> _].
      set (w := Z.min (Z.min (Z.max (rc_min_renew_timeout (ds_retry_config s)) (Z.abs (rb0 - now) / 2)) (Z.abs (rb0 - now)))
                      (rc_max_renew_timeout (ds_retry_config s))).
      assert (Hw : 0 <= w <= rb0 - now) by (subst w; lia).
      destruct (dh_inst_add_no_panic now w) as [x Hx]; [unfold dh_I64_MAX; lia|unfold dh_I64_MAX, dh_I64_MIN; lia|].
      rewrite Hx. cbn [obind]. eexists _, _. split; [reflexivity|].
      unfold dhcp_tinv. cbn. splits; auto; try (unfold dh_T62 in *; lia).
Qed.

(* ports handed to process() are the socket's (enforced by the interface before it calls process) *)
Definition ports_match (s : dhcp_socket) (c : dhcp_call) : Prop :=
  match c with CProcess _ _ sp dp _ => sp = ds_server_port s /\ dp = ds_client_port s | _ => True end.

Lemma dhcp_call_step_safe : forall hw s c,
  dhcp_tinv s -> call_sane c -> ports_match s c ->
  exists s' ret, dhcp_call_step hw s c = Ok (s', ret) /\ dhcp_tinv s'.
Proof.
  intros hw s c Ht Hc Hp. destruct c; cbn [dhcp_call_step].
  - destruct Hp as [-> ->]. destruct (dhcp_process_safe hw s now src_ip _ _ parsed Ht Hc eq_refl eq_refl) as [s' [E Ht']].
    rewrite E. cbn. eauto.
  - destruct Hc as [_ [Hn Hm]]. destruct (dhcp_dispatch_safe s ip_mtu now next_xid (fun _ => emit_ok) Ht Hn Hm) as [s' [res [E Ht']]].
    rewrite E. cbn. eauto.
  - destruct (dhcp_poll s) as [s' e] eqn:Ep. eexists _, _. split; [reflexivity|].
    unfold dhcp_poll in Ep. destruct Ht as [A [B C]].
    destruct (negb (ds_config_changed s)); [inversion Ep; subst; unfold dhcp_tinv; auto|].
    destruct (ds_state s) eqn:Est; inversion Ep; subst; unfold dhcp_tinv; cbn; rewrite Est; auto.
  - eexists _, _. split; [reflexivity|]. apply dhcp_tinv_reset; auto.
  - eexists _, _. split; [reflexivity|]. destruct Ht as [A [B C]]. destruct Hc as [_ Hc]. unfold dhcp_tinv. cbn. auto.
  - eexists _, _. split; [reflexivity|]. destruct Ht as [A [B C]]. destruct Hc as [Hc _]. unfold dhcp_tinv. cbn.
    splits; auto. intros x Hx. subst m. cbn in Hc. unfold u64_ok in Hc. lia.
  - eexists _, _. split; [reflexivity|]. destruct Ht as [A [B C]]. unfold dhcp_tinv. cbn. auto.
  - eexists _, _. split; [reflexivity|]. destruct Ht as [A [B C]]. unfold dhcp_tinv. cbn. auto.
  - eexists _, _. split; [reflexivity|]. destruct Ht as [A [B C]]. unfold dhcp_tinv. cbn. auto.
Qed.

(* histories in which the interface hands process() only datagrams for the socket's ports *)
Fixpoint ports_ok (hw : Z) (pre : list dhcp_call) (rest : list dhcp_call) : Prop :=
  match rest with
  | [] => True
  | c :: rest' => ports_match (fst (dhcp_run hw pre)) c /\ ports_ok hw (pre ++ [c]) rest'
  end.

Lemma dhcp_tinv_run_gen : forall hw rest pre,
  dhcp_tinv (fst (dhcp_run hw pre)) -> Forall call_sane rest -> ports_ok hw pre rest ->
  dhcp_tinv (fst (dhcp_run hw (pre ++ rest))).
Proof.
  intros hw rest. induction rest as [|c rest IH]; intros pre Ht Hs Hp.
  - rewrite app_nil_r. auto.
  - inversion Hs; subst. destruct Hp as [Hp1 Hp2].
    replace (pre ++ c :: rest) with ((pre ++ [c]) ++ rest) by (rewrite <- app_assoc; reflexivity).
    apply IH; auto. rewrite dhcp_run_snoc. unfold dhcp_step_total.
    destruct (dhcp_call_step_safe hw (fst (dhcp_run hw pre)) c Ht H1 Hp1) as [s' [ret [E Ht']]].
    rewrite E. cbn. auto.
Qed.

Theorem c18_no_panic : forall hw calls c,
  Forall call_sane calls -> ports_ok hw [] calls ->
  call_sane c -> ports_match (fst (dhcp_run hw calls)) c ->
  dhcp_call_step hw (fst (dhcp_run hw calls)) c <> Panic.
Proof.
  intros hw calls c Hs Hp Hc Hpc.
  assert (Ht : dhcp_tinv (fst (dhcp_run hw calls))).
  { apply (dhcp_tinv_run_gen hw calls []); auto. apply dhcp_tinv_init. }
  destruct (dhcp_call_step_safe hw _ c Ht Hc Hpc) as [s' [ret [E _]]]. rewrite E. discriminate.
Qed.

Theorem c18_dispatch_no_panic : forall hw calls mtu now xid emit,
  Forall call_sane calls -> ports_ok hw [] calls ->
  time_ok now -> dhcp_MAX_IPV4_HEADER_LEN + wudp_HEADER_LEN <= mtu ->
  dhcp_dispatch mtu now xid emit (fst (dhcp_run hw calls)) <> Panic.
Proof.
  intros hw calls mtu now xid emit Hs Hp Hn Hm.
  assert (Ht : dhcp_tinv (fst (dhcp_run hw calls))).
  { apply (dhcp_tinv_run_gen hw calls []); auto. apply dhcp_tinv_init. }
  destruct (dhcp_dispatch_safe _ mtu now xid emit Ht Hn Hm) as [s' [res [E _]]]. rewrite E. discriminate.
Qed.

(* ------------------------------------------------------------------------------------------------ *)
(** * non-vacuity: a concrete history  DISCOVER -> OFFER -> REQUEST -> ACK -> renew -> rebind -> expiry *)

Fixpoint dhcp_rets (hw : Z) (s : dhcp_socket) (calls : list dhcp_call) : list (option dhcp_ret) :=
  match calls with
  | [] => []
  | c :: r => match dhcp_call_step hw s c with
              | Ok (s', ret) => Some ret :: dhcp_rets hw s' r
              | _ => [None]
              end
  end.

(* (kind, a, b): 1/3 = DISCOVER/REQUEST sent (xid, destination); 0 = dispatch sent nothing; 2 = emit refused;
   10 = Configured (address, prefix); 11 = Deconfigured; 12 = no event; 20 = unit; 99 = panic *)
Definition dhcp_ret_summary (r : option dhcp_ret) : Z * Z * Z :=
  match r with
  | Some (RDispatch (DrSent f)) =>
      (match tx_message_type f with MtDiscover => 1 | _ => 3 end, tx_transaction_id f, tx_dst_addr f)
  | Some (RDispatch DrNone) => (0, 0, 0)
  | Some (RDispatch (DrErr _)) => (2, 0, 0)
  | Some (REvent (Some (EvConfigured c _))) => (10, cf_address c, cf_prefix_len c)
  | Some (REvent (Some EvDeconfigured)) => (11, 0, 0)
  | Some (REvent None) => (12, 0, 0)
  | Some RUnit => (20, 0, 0)
  | None => (99, 0, 0)
  end.

Definition ex_srv : Z := 167772161.      (* 10.0.0.1 *)
Definition ex_ip : Z := 167772202.       (* 10.0.0.42 *)
Definition ex_offer : dhcp_repr :=
  mkRepr MtOffer 77 1 ex_ip (Some ex_srv) (Some 4294967040) None (Some 10) None None None.
Definition ex_ack : dhcp_repr :=
  mkRepr MtAck 77 1 ex_ip (Some ex_srv) (Some 4294967040) (Some ex_srv) (Some 10) None None (Some [16843009; 0]).
Definition ex_calls : list dhcp_call :=
  [ CDispatch 1500 0 77 true;                          (* DISCOVER xid 77 *)
    CProcess 1000 ex_srv 67 68 (Some ex_offer);
    CDispatch 1500 1000 78 true;                       (* REQUEST xid 77 *)
    CProcess 2000 ex_srv 67 68 (Some ex_ack);          (* lease 10 s: T1 = 5 s, T2 = 8.75 s *)
    CPoll;                                             (* Configured 10.0.0.42/24 *)
    CDispatch 1500 5001999 79 true;                    (* 1 us before T1: nothing *)
    CDispatch 1500 5002000 79 true;                    (* renew, unicast to the server *)
    CDispatch 1500 8752000 80 true;                    (* rebind, broadcast *)
    CDispatch 1500 10001999 81 true;                   (* 1 us before expiry: nothing *)
    CDispatch 1500 10002000 81 true;                   (* expiry: DISCOVER in the same dispatch *)
    CPoll ].                                           (* Deconfigured *)

Lemma c18_example :
  Forall call_typed ex_calls /\ Forall call_sane ex_calls /\ ports_ok 1 [] ex_calls /\
  map dhcp_ret_summary (dhcp_rets 1 dhcp_new ex_calls) =
    [ (1, 77, ip_BROADCAST); (20, 0, 0); (3, 77, ip_BROADCAST); (20, 0, 0); (10, ex_ip, 24);
      (0, 0, 0); (3, 79, ex_srv); (3, 80, ip_BROADCAST); (0, 0, 0); (1, 81, ip_BROADCAST); (11, 0, 0) ] /\
  m_ack (snd (dhcp_run 1 ex_calls)) = Some (2000, ex_ack, 10000000) /\
  m_last_req (snd (dhcp_run 1 ex_calls)) = Some 80.
Proof.
  assert (Hu : forall x, 0 <= x < 4294967296 -> u32_ok x) by (intros; exact H).
  splits.
  - unfold ex_calls. repeat constructor; cbn; unfold ou32_ok, u32_ok; try lia.
  - unfold ex_calls, call_sane, time_ok, dh_T62. repeat constructor; cbn; unfold ou32_ok, u32_ok; try lia;
      vm_compute; congruence.
  - vm_compute. tauto.
  - vm_compute. reflexivity.
  - vm_compute. reflexivity.
  - vm_compute. reflexivity.
Qed.

(* outside the bounds of [retry_cfg_sane] the shift DOES overflow: initial_request_timeout = 0 and
   request_retries = 200 (both legal values of their types), a server that offers but never acknowledges:
   the 129th REQUEST computes `0 << 64` *)
Definition ex_overflow_calls : list dhcp_call :=
  [ CSetRetryConfig (mkRetry 10000000 0 200 60000000 dh_DURATION_MAX);
    CDispatch 1500 0 77 true;
    CProcess 0 ex_srv 67 68 (Some ex_offer) ] ++ repeat (CDispatch 1500 0 78 true) 128.

Lemma c18_shift_overflow_reachable :
  Forall call_typed ex_overflow_calls /\
  dhcp_call_step 1 (fst (dhcp_run 1 ex_overflow_calls)) (CDispatch 1500 0 78 true) = Panic.
Proof.
  split.
  - unfold ex_overflow_calls. apply Forall_app. split.
    + repeat constructor; cbn; unfold retry_cfg_typed, u64_ok, ou32_ok, u32_ok, dh_DURATION_MAX; cbn; try lia.
    + apply Forall_forall. intros x Hx. apply repeat_spec in Hx. subst. exact I.
  - vm_compute. reflexivity.
Qed.

(* ------------------------------------------------------------------------------------------------ *)
(** * the interface-level clause: Interface::poll at or after expiry, unless the socket is neighbor-silenced *)

Definition dhcp_dropped (s : dhcp_socket) : Prop :=
  dhcp_unconfigured s /\ ds_config_changed s = true.

Lemma dhcp_dropped_poll : forall s, dhcp_dropped s -> snd (dhcp_poll s) = Some EvDeconfigured.
Proof.
  intros s [Hu Hc]. unfold dhcp_poll, dhcp_unconfigured in *. rewrite Hc. cbn.
  destruct (ds_state s); try contradiction; reflexivity.
Qed.

Lemma dhcp_dispatch_discovering_dropped : forall ms now xid emit s0 ra s' res,
  ds_config_changed s0 = true ->
  dhcp_dispatch_discovering ms now xid emit s0 ra = Ok (s', res) ->
  dhcp_unconfigured s0 -> dhcp_dropped s'.
Proof.
  intros ms now xid emit s0 ra s' res Hc H Hu. unfold dhcp_dispatch_discovering in H.
  destruct (now <? ra); [inversion H; subst; split; auto|].
  match type of H with context [emit ?f] => destruct (emit f) end.
  - inv_bind H. inversion H; subst. split; [exact I|exact Hc].
  - inversion H; subst. split; auto.
Qed.

Lemma dhcp_reset_dropped : forall s, ds_config_changed s = true \/ ~ dhcp_unconfigured s ->
  ds_config_changed (dhcp_reset s) = true /\ dhcp_unconfigured (dhcp_reset s).
Proof.
  intros s H. unfold dhcp_reset, dhcp_unconfigured in *. destruct (ds_state s); cbn; intuition.
Qed.

(* once dropped, no dispatch brings the lease back *)
Lemma dhcp_dispatch_dropped : forall mtu now xid emit s s' res,
  dhcp_dropped s -> dhcp_dispatch mtu now xid emit s = Ok (s', res) -> dhcp_dropped s'.
Proof.
  intros mtu now xid emit s s' res [Hu Hc] H. unfold dhcp_dispatch in H. inv_bind H.
  unfold dhcp_unconfigured in Hu.
  destruct (ds_state s) as [ra0 | ra0 retry server rip | ] eqn:Est; [| |contradiction].
  - eapply dhcp_dispatch_discovering_dropped; eauto. unfold dhcp_unconfigured. rewrite Est. exact I.
  - destruct (now <? ra0); [inversion H; subst; split; auto; unfold dhcp_unconfigured; rewrite Est; exact I|].
    destruct (rc_request_retries (ds_retry_config s) <=? retry).
    { destruct (dhcp_reset_dropped s (or_introl Hc)) as [R1 R2].
      eapply dhcp_dispatch_discovering_dropped; eauto. }
    match type of H with context [emit ?f] => destruct (emit f) end.
    + inv_bind H. inv_bind H. destruct (65535 <? retry + 1); [discriminate|]. inversion H; subst.
      split; [exact I|exact Hc].
    + inversion H; subst. split; auto. unfold dhcp_unconfigured. rewrite Est. exact I.
Qed.

Lemma dhcp_dispatch_expired_dropped : forall mtu now xid emit s s' res cfg ra rb rbg e,
  ds_state s = Renewing cfg ra rb rbg e -> e <= now ->
  dhcp_dispatch mtu now xid emit s = Ok (s', res) -> dhcp_dropped s'.
Proof.
  intros mtu now xid emit s s' res cfg ra rb rbg e Hst He H.
  unfold dhcp_dispatch in H. inv_bind H. rewrite Hst in H. destruct (e <=? now) eqn:E; [|lia].
  destruct (dhcp_reset_dropped s) as [R1 R2].
  { right. unfold dhcp_unconfigured. rewrite Hst. auto. }
  eapply dhcp_dispatch_discovering_dropped; eauto.
Qed.

Lemma dhif_socket_egress_dropped : forall xid_of mtu now i i' obs again,
  dhcp_dropped (if_sock i) -> dhif_socket_egress xid_of mtu now i = Ok (i', obs, again) ->
  dhcp_dropped (if_sock i').
Proof.
  intros xid_of mtu now i i' obs again Hd H. unfold dhif_socket_egress in H.
  destruct (dhif_egress_permitted i now) as [i1 p] eqn:Ep.
  assert (Hs : if_sock i1 = if_sock i).
  { unfold dhif_egress_permitted in Ep. destruct (if_meta i) as [[nb su]|]; [|inversion Ep; reflexivity].
    destruct (dhif_has_neighbor i nb now); [inversion Ep; reflexivity|].
    destruct (su <=? now); inversion Ep; reflexivity. }
  destruct (negb p); [inversion H; subst; rewrite Hs; auto|].
  inv_bind H. destruct v as [s' r]. rewrite Hs in Hv.
  apply dhcp_dispatch_dropped in Hv; auto.
  destruct r as [|f|f].
  - inversion H; subst. exact Hv.
  - inversion H; subst. exact Hv.
  - destruct (dhif_emit_outcome_of i1 now f); inversion H; subst; exact Hv.
Qed.

Lemma dhif_egress_loop_dropped : forall fuel xid_of mtu now i acc i' obs,
  dhcp_dropped (if_sock i) -> dhif_egress_loop fuel xid_of mtu now i acc = Ok (i', obs) ->
  dhcp_dropped (if_sock i').
Proof.
  induction fuel as [|fuel IH]; intros xid_of mtu now i acc i' obs Hd H; cbn [dhif_egress_loop] in H.
  - inversion H; subst. auto.
  - inv_bind H. destruct v as [[i1 o1] again].
    apply dhif_socket_egress_dropped in Hv; auto.
    destruct again; [eapply IH; eauto|inversion H; subst; auto].
Qed.

(* "silenced" = socket_meta::Meta::egress_permitted answers false at this instant *)
Definition dhif_silenced (i : dhif) (now : Z) : Prop := snd (dhif_egress_permitted i now) = false.

Theorem c18_iface_expiry_deconfigures_unless_silenced : forall xid_of hw mtu apply now i cfg ra rb rbg e i' obs,
  ds_state (if_sock i) = Renewing cfg ra rb rbg e -> e <= now ->
  if_rxq i = [] ->                               (* no frame is waiting (an ACK could legitimately renew the lease) *)
  ~ dhif_silenced i now ->                        (* known finding d14b-expiry-while-neighbor-silenced excluded *)
  dhif_poll xid_of hw mtu apply now i = (i', obs) -> obs <> [ObPanic] ->
  In (ObEvent (Some EvDeconfigured)) obs.
Proof.
  intros xid_of hw mtu apply now i cfg ra rb rbg e i' obs Hst He Hq Hsil H Hnp.
  unfold dhif_poll in H. rewrite Hq in H. cbn [dhif_ingress_all obind] in H.
  assert (Hfuel : exists n, dhif_EGRESS_FUEL = S n).
  { destruct dhif_EGRESS_FUEL eqn:E; eauto. exfalso.
    assert (Z.of_nat dhif_EGRESS_FUEL = 70000) by (unfold dhif_EGRESS_FUEL; lia). rewrite E in H0. cbn in H0. lia. }
  destruct Hfuel as [n Hn]. rewrite Hn in H. cbn [dhif_egress_loop] in H.
  set (i0 := dhif_with_rxq i []) in *.
  assert (Hst0 : ds_state (if_sock i0) = Renewing cfg ra rb rbg e) by exact Hst.
  assert (Hsil0 : snd (dhif_egress_permitted i0 now) = true).
  { unfold dhif_silenced in Hsil. destruct (snd (dhif_egress_permitted i now)) eqn:E; [|contradiction].
    clear - E. unfold dhif_egress_permitted in *. subst i0. cbn.
    destruct (if_meta i) as [[nb su]|]; auto.
    unfold dhif_has_neighbor, dhif_route, dhif_in_same_network, dhif_nc_lookup in *. cbn in *.
    destruct (match if_cidr i with Some (addr, p) => ip_cidr_contains addr p nb | None => false end || ip_is_broadcast nb).
    - destruct (match dhif_assoc (if_ncache i) nb with
                | Some expires_at => if now <? expires_at then NcFound else if now <? if_nc_silent_until i then NcRateLimited else NcNotFound
                | None => if now <? if_nc_silent_until i then NcRateLimited else NcNotFound end); auto;
        destruct (su <=? now); auto.
    - destruct (if_router i) as [r|].
      + destruct (match dhif_assoc (if_ncache i) r with
                  | Some expires_at => if now <? expires_at then NcFound else if now <? if_nc_silent_until i then NcRateLimited else NcNotFound
                  | None => if now <? if_nc_silent_until i then NcRateLimited else NcNotFound end); auto;
          destruct (su <=? now); auto.
      + destruct (su <=? now); auto. }
  destruct (dhif_socket_egress xid_of mtu now i0) as [[[i1 o1] again]| |] eqn:Eg; cbn [obind] in H;
    try (inversion H; subst; exfalso; apply Hnp; reflexivity).
  assert (Hd1 : dhcp_dropped (if_sock i1)).
  { unfold dhif_socket_egress in Eg. destruct (dhif_egress_permitted i0 now) as [ip p] eqn:Ep. cbn in Hsil0. subst p.
    cbn [negb] in Eg.
    assert (Hs : if_sock ip = if_sock i0).
    { unfold dhif_egress_permitted in Ep. destruct (if_meta i0) as [[nb su]|]; [|inversion Ep; reflexivity].
      destruct (dhif_has_neighbor i0 nb now); [inversion Ep; reflexivity|].
      destruct (su <=? now); inversion Ep; reflexivity. }
    inv_bind Eg. destruct v as [s' r]. rewrite Hs in Hv.
    eapply dhcp_dispatch_expired_dropped in Hv; eauto.
    destruct r as [|f|f].
    - inversion Eg; subst. exact Hv.
    - inversion Eg; subst. exact Hv.
    - destruct (dhif_emit_outcome_of ip now f); inversion Eg; subst; exact Hv. }
  assert (Hfin : forall i2 o2, (if again then dhif_egress_loop n xid_of mtu now i1 ([] ++ o1) else Ok (i1, [] ++ o1)) = Ok (i2, o2) ->
                 dhcp_dropped (if_sock i2)).
  { intros i2 o2 E2. destruct again; [eapply dhif_egress_loop_dropped; eauto|inversion E2; subst; auto]. }
  destruct (if again then dhif_egress_loop n xid_of mtu now i1 ([] ++ o1) else Ok (i1, [] ++ o1)) as [[i2 o2]| |] eqn:E2;
    try (inversion H; subst; exfalso; apply Hnp; reflexivity).
  specialize (Hfin i2 o2 eq_refl). apply dhcp_dropped_poll in Hfin.
  destruct (dhcp_poll (if_sock i2)) as [s3 ev] eqn:Ep. cbn in Hfin. subst ev.
  inversion H; subst. apply in_or_app. right. left. reflexivity.
Qed.

(* ... and the excluded class is not empty: the run of corpus/C18/dhcp-d14b-expiry-while-silenced.case on the model *)
Definition ex_d14b_offer : dhif_frame :=
  FrDhcp 0 true true ex_srv ip_BROADCAST 67 68
    (Some (mkRepr MtOffer 1000 1 ex_ip (Some ex_srv) (Some 4294967040) None (Some 10) (Some 9) None None)).
Definition ex_d14b_ack : dhif_frame :=
  FrDhcp 0 true true ex_srv ip_BROADCAST 67 68
    (Some (mkRepr MtAck 1000 1 ex_ip (Some ex_srv) (Some 4294967040) None (Some 10) (Some 9) None None)).
Definition ex_xid_of (n : Z) : Z := 1000 + n.
Definition ex_d14b_state : dhif :=
  let p := fun t i => fst (dhif_poll ex_xid_of 1 1500 true t i) in
  p 9500000 (p 2000 (dhif_enqueue (p 1000 (dhif_enqueue (p 0 (dhif_new dhcp_new)) ex_d14b_offer)) ex_d14b_ack)).

Lemma c18_iface_expiry_refuted_when_silenced :
  (exists cfg ra rb rbg, ds_state (if_sock ex_d14b_state) = Renewing cfg ra rb rbg 10002000) /\
  if_rxq ex_d14b_state = [] /\
  dhif_silenced ex_d14b_state 10002000 /\
  snd (dhif_poll ex_xid_of 1 1500 true 10002000 ex_d14b_state) = [ObEvent None; ObPollAt 10500000].
Proof.
  splits.
  - vm_compute. eexists _, _, _, _. reflexivity.
  - vm_compute. reflexivity.
  - vm_compute. reflexivity.
  - vm_compute. reflexivity.
Qed.

(* ------------------------------------------------------------------------------------------------ *)
(** * reset() and the run-time setters never extend a lease (every socket value) *)

Lemma c18_reset_and_setters : forall s,
  (* reset: back to Discovering, and a lease that was held is reported lost by the next poll() *)
  ds_state (dhcp_reset s) = Discovering 0 /\
  (forall cfg ra rb rbg e, ds_state s = Renewing cfg ra rb rbg e ->
     snd (dhcp_poll (dhcp_reset s)) = Some EvDeconfigured) /\
  (* the setters leave phase, timers (hence expires_at) and the pending-event flag untouched *)
  (forall sp cp, ds_state (dhcp_set_ports s sp cp) = ds_state s /\
                 ds_config_changed (dhcp_set_ports s sp cp) = ds_config_changed s) /\
  (forall m, ds_state (dhcp_set_max_lease_duration s m) = ds_state s /\
             ds_config_changed (dhcp_set_max_lease_duration s m) = ds_config_changed s) /\
  (forall c, ds_state (dhcp_set_retry_config s c) = ds_state s /\
             ds_config_changed (dhcp_set_retry_config s c) = ds_config_changed s) /\
  (forall b, ds_state (dhcp_set_ignore_naks s b) = ds_state s /\
             ds_config_changed (dhcp_set_ignore_naks s b) = ds_config_changed s) /\
  (ds_state (dhcp_set_receive_packet_buffer s) = ds_state s /\
   ds_config_changed (dhcp_set_receive_packet_buffer s) = ds_config_changed s).
Proof.
  intros s. split; [apply dhcp_reset_state|]. split.
  - intros cfg ra rb rbg e Hst. unfold dhcp_poll, dhcp_reset. rewrite Hst. reflexivity.
  - splits; try reflexivity; intros; split; reflexivity.
Qed.
