(* Lemmas about Model/WireNdisc.v (properties C06, C07): NDISC messages. *)
From SV Require Import Lib.Base Gen.WireFields Model.WireBase Model.WireIpv6 Model.WireIcmpv6Hdr
  Model.WireNdiscOpt Model.WireNdisc
  Proofs.WireBaseProofs Proofs.Wire2Kit Proofs.WireIpv6Proofs Proofs.WireIcmpv6HdrProofs
  Proofs.WireNdiscOptProofs.

(* ---------- the octets emit produces ---------- *)

Definition ndisc_olist {A} (mk : A -> ndopt_repr) (o : option A) : list ndopt_repr :=
  match o with Some a => [mk a] | None => [] end.

(* the options a representation carries, in the order emit writes them *)
Definition ndisc_options (r : ndisc_repr) : list ndopt_repr :=
  match r with
  | NdiscRouterSolicit ll => ndisc_olist NdSourceLL ll
  | NdiscRouterAdvert _ _ _ _ _ ll mtu pi =>
      ndisc_olist NdSourceLL ll ++ ndisc_olist NdMtu mtu ++ ndisc_olist NdPrefixInfo pi
  | NdiscNeighborSolicit _ ll => ndisc_olist NdSourceLL ll
  | NdiscNeighborAdvert _ _ ll => ndisc_olist NdTargetLL ll
  | NdiscRedirect _ _ ll rh => ndisc_olist NdTargetLL ll ++ ndisc_olist NdRedirected rh
  end.

Definition ndisc_type (r : ndisc_repr) : Z :=
  match r with
  | NdiscRouterSolicit _ => icmp6h_ROUTER_SOLICIT
  | NdiscRouterAdvert _ _ _ _ _ _ _ _ => icmp6h_ROUTER_ADVERT
  | NdiscNeighborSolicit _ _ => icmp6h_NEIGHBOR_SOLICIT
  | NdiscNeighborAdvert _ _ _ => icmp6h_NEIGHBOR_ADVERT
  | NdiscRedirect _ _ _ _ => icmp6h_REDIRECT
  end.

(* octets 4 .. header_len of the emitted message *)
Definition ndisc_fixed (r : ndisc_repr) : list Z :=
  match r with
  | NdiscRouterSolicit _ => [0; 0; 0; 0]
  | NdiscRouterAdvert hop fl lt rt xt _ _ _ => [hop; fl] ++ be_enc2 lt ++ be_enc4 rt ++ be_enc4 xt
  | NdiscNeighborSolicit ta _ => [0; 0; 0; 0] ++ ta
  | NdiscNeighborAdvert fl ta _ => [fl; 0; 0; 0] ++ ta
  | NdiscRedirect ta da _ _ => [0; 0; 0; 0] ++ ta ++ da
  end.

Definition ndisc_opts_bytes (os : list ndopt_repr) : list Z := flat_map ndopt_bytes os.

(* NdiscRepr::emit leaves the checksum octets (k2, k3 = the old contents) to Icmpv6Repr::emit *)
Definition ndisc_bytes_ck (r : ndisc_repr) (k2 k3 : Z) : list Z :=
  [ndisc_type r; 0; k2; k3] ++ ndisc_fixed r ++ ndisc_opts_bytes (ndisc_options r).

Definition ndisc_options_wf (os : list ndopt_repr) : bool := forallb ndopt_wf os.

Lemma ndisc_wf_options r : ndisc_wf r = true -> ndisc_options_wf (ndisc_options r) = true.
Proof.
  unfold ndisc_options_wf.
  destruct r as [ll|hop fl lt rt xt ll mtu pi|ta ll|fl ta ll|ta da ll rh]; cbn [ndisc_wf ndisc_options]; intros H; bsplit.
  - destruct ll; cbn in *; rewrite ?H; reflexivity.
  - destruct ll, mtu, pi; cbn [ndisc_olist ndisc_opt_wf app forallb ndopt_wf] in *;
      repeat match goal with X : _ = true |- _ => rewrite X; clear X end; reflexivity.
  - destruct ll; cbn [ndisc_olist ndisc_opt_wf app forallb ndopt_wf] in *;
      repeat match goal with X : _ = true |- _ => rewrite X; clear X end; reflexivity.
  - destruct ll; cbn [ndisc_olist ndisc_opt_wf app forallb ndopt_wf] in *;
      repeat match goal with X : _ = true |- _ => rewrite X; clear X end; reflexivity.
  - destruct ll, rh; cbn [ndisc_olist ndisc_opt_wf app forallb ndopt_wf] in *;
      repeat match goal with X : _ = true |- _ => rewrite X; clear X end; reflexivity.
Qed.

Lemma ndisc_opts_bytes_len os : ndisc_options_wf os = true ->
  blen (ndisc_opts_bytes os) = fold_right (fun o n => ndopt_buffer_len o + n) 0 os.
Proof.
  unfold ndisc_options_wf, ndisc_opts_bytes. induction os as [|o os IH]; cbn [forallb flat_map fold_right]; intros H.
  - reflexivity.
  - bsplit. rewrite blen_app, ndopt_bytes_len, IH by assumption. reflexivity.
Qed.

Lemma ndisc_opts_bytes_app a b : ndisc_opts_bytes (a ++ b) = ndisc_opts_bytes a ++ ndisc_opts_bytes b.
Proof. apply flat_map_app. Qed.

Lemma ndisc_olist_len {A} (mk : A -> ndopt_repr) o :
  fold_right (fun o n => ndopt_buffer_len o + n) 0 (ndisc_olist mk o) = ndisc_opt_len mk o.
Proof. destruct o; unfold ndisc_olist, ndisc_opt_len; cbn [fold_right]; [apply Z.add_0_r | reflexivity]. Qed.

(* ---------- emitting one optional option into the payload ---------- *)

Lemma ndisc_header_len_cons ty hr X :
  icmp6h_header_len ((ty :: hr) ++ X) = Ok (icmp6h_header_len_of ty).
Proof.
  unfold icmp6h_header_len, icmp6h_msg_type. zfold. cbn [app].
  rewrite wb_get_u8_ok by (rewrite blen_cons; pose proof (blen_nonneg (hr ++ X)); lia). reflexivity.
Qed.

(* [hdr] = the message header (header_len octets), [done] = options already emitted,
   [h] = the space of this option, [t] = the rest *)
Lemma ndisc_emit_opt_step {A} (mk : A -> ndopt_repr) (o : option A) ty hr done h t :
  ndisc_options_wf (ndisc_olist mk o) = true -> blen h = ndisc_opt_len mk o ->
  icmp6h_header_len_of ty = blen (ty :: hr) ->
  ndisc_emit_opt mk o ((ty :: hr) ++ done ++ h ++ t, blen done) =
  Ok ((ty :: hr) ++ (done ++ ndisc_opts_bytes (ndisc_olist mk o)) ++ t,
      blen (done ++ ndisc_opts_bytes (ndisc_olist mk o))).
Proof.
  intros Hwf Hh Hhl. destruct o as [a|]; cbn [ndisc_olist ndisc_opt_len ndisc_emit_opt] in *.
  - unfold ndisc_options_wf in Hwf. cbn [forallb] in Hwf. bsplit.
    unfold ndisc_opts_bytes. cbn [flat_map fst snd]. rewrite app_nil_r.
    unfold ndisc_emit_opt_at. rewrite ndisc_header_len_cons. cbn [obind]. rewrite Hhl.
    pose proof (blen_nonneg done). pose proof (blen_nonneg h). pose proof (blen_nonneg t).
    pose proof (blen_nonneg (ty :: hr)).
    rewrite wb_from_ok by (rewrite !blen_app; lia). cbn [obind].
    rewrite (app_assoc (ty :: hr) done (h ++ t)).
    rewrite wb_on_from_tail by (rewrite blen_app; reflexivity).
    rewrite ndopt_emit_tail by assumption. cbn [obind].
    rewrite blen_app, ndopt_bytes_len by assumption. rewrite <- !app_assoc. reflexivity.
  - apply blen_0_nil in Hh. subst h. unfold ndisc_opts_bytes. cbn [flat_map app]. rewrite !app_nil_r. reflexivity.
Qed.

(* ---------- C06: emit ---------- *)

Ltac ndisc_unfold_emit :=
  unfold icmp6h_set_msg_type, icmp6h_set_msg_code,
    ndisc_set_current_hop_limit, ndisc_set_router_flags, ndisc_set_router_lifetime, ndisc_set_reachable_time,
    ndisc_set_retrans_time, ndisc_set_target_addr, ndisc_set_neighbor_flags, ndisc_set_dest_addr,
    wb_put_u16, wb_put_u32, wb_set_field.

Lemma ndisc_clear_reserved ty c1 c2 c3 c4 c5 c6 c7 t : ty = 133 \/ ty = 135 \/ ty = 136 \/ ty = 137 ->
  icmp6h_clear_reserved (ty :: c1 :: c2 :: c3 :: c4 :: c5 :: c6 :: c7 :: t) =
  Ok (ty :: c1 :: c2 :: c3 :: 0 :: 0 :: 0 :: 0 :: t).
Proof.
  refold_tail t.
  intros [-> | [-> | [-> | ->]]]; unfold icmp6h_clear_reserved, icmp6h_msg_type, wb_put_u32; zfold;
    hstep; hstep; zfold; cbn [orb obind]; reflexivity.
Qed.

Lemma ndisc_emit_rs_spec ll b :
  ndisc_wf (NdiscRouterSolicit ll) = true -> blen b = ndisc_buffer_len (NdiscRouterSolicit ll) ->
  ndisc_emit (NdiscRouterSolicit ll) b = Ok (ndisc_bytes_ck (NdiscRouterSolicit ll) (nth 2 b 0) (nth 3 b 0)).
Proof.
  intros Hwf Hb. pose proof (ndisc_wf_options _ Hwf) as Hos. cbn [ndisc_options] in Hos.
  cbn [ndisc_buffer_len] in Hb. zfold_in Hb.
  assert (0 <= ndisc_opt_len NdSourceLL ll) by (destruct ll; cbn [ndisc_opt_len]; [pose proof (blen_nonneg l); unfold ndopt_buffer_len, ndopt_div_ceil8|]; lia).
  destruct (split_hdr b 8 ltac:(lia)) as (h & t & -> & Hh & Ht). rewrite Hb in Ht. clear Hb.
  zfold_in Hh. cells Hh.
  unfold ndisc_bytes_ck. cbn [ndisc_type ndisc_fixed ndisc_options nth app ndisc_emit].
  ndisc_unfold_emit. zfold. refold_tail t.
  hstep. hstep. cbn [app]. rewrite ndisc_clear_reserved by auto. cbn [obind]. refold_tail t.
  match goal with |- context [ndisc_emit_opt _ _ ((?x :: ?hr) ++ t, 0)] =>
    replace ((x :: hr) ++ t, 0) with ((x :: hr) ++ [] ++ t ++ [], blen (@nil Z)) by (rewrite app_nil_r; reflexivity)
  end.
  rewrite ndisc_emit_opt_step by (try assumption; try reflexivity; lia).
  cbn [obind fst app]. rewrite app_nil_r. reflexivity.
Qed.

Lemma ndisc_opt_len_nonneg {A} (mk : A -> ndopt_repr) o :
  ndisc_options_wf (ndisc_olist mk o) = true -> 0 <= ndisc_opt_len mk o.
Proof.
  destruct o as [a|]; cbn [ndisc_olist ndisc_opt_len]; [|lia].
  unfold ndisc_options_wf. cbn [forallb]. intros H. bsplit. pose proof (ndopt_buffer_len_ge8 _ H). lia.
Qed.

Lemma ndisc_emit_ns_spec ta ll b :
  ndisc_wf (NdiscNeighborSolicit ta ll) = true -> blen b = ndisc_buffer_len (NdiscNeighborSolicit ta ll) ->
  ndisc_emit (NdiscNeighborSolicit ta ll) b =
  Ok (ndisc_bytes_ck (NdiscNeighborSolicit ta ll) (nth 2 b 0) (nth 3 b 0)).
Proof.
  intros Hwf Hb. pose proof (ndisc_wf_options _ Hwf) as Hos. cbn [ndisc_options] in Hos.
  cbn [ndisc_buffer_len] in Hb. zfold_in Hb. cbn [ndisc_wf] in Hwf. bsplit.
  pose proof (ndisc_opt_len_nonneg _ _ Hos).
  destruct (split_hdr b 24 ltac:(lia)) as (h & t & -> & Hh & Ht). rewrite Hb in Ht. clear Hb.
  zfold_in Hh. cells Hh.
  match goal with H : blen ta = 16 |- _ => apply (blen_length _ 16) in H; cells H end.
  unfold ndisc_bytes_ck. cbn [ndisc_type ndisc_fixed ndisc_options nth app ndisc_emit].
  ndisc_unfold_emit. zfold. refold_tail t.
  hstep. hstep. cbn [app]. rewrite ndisc_clear_reserved by auto. cbn [obind]. refold_tail t. hstep.
  match goal with |- context [ndisc_emit_opt _ _ ((?x :: ?hr) ++ t, 0)] =>
    replace ((x :: hr) ++ t, 0) with ((x :: hr) ++ [] ++ t ++ [], blen (@nil Z)) by (rewrite app_nil_r; reflexivity)
  end.
  rewrite ndisc_emit_opt_step by (try assumption; try reflexivity; lia).
  cbn [obind fst app]. rewrite app_nil_r. reflexivity.
Qed.

Lemma ndisc_opt_len_ll ll : ndisc_opt_len NdSourceLL ll = ndisc_opt_len NdTargetLL ll.
Proof. destruct ll; reflexivity. Qed.

Lemma ndisc_emit_na_spec fl ta ll b :
  ndisc_wf (NdiscNeighborAdvert fl ta ll) = true -> blen b = ndisc_buffer_len (NdiscNeighborAdvert fl ta ll) ->
  ndisc_emit (NdiscNeighborAdvert fl ta ll) b =
  Ok (ndisc_bytes_ck (NdiscNeighborAdvert fl ta ll) (nth 2 b 0) (nth 3 b 0)).
Proof.
  intros Hwf Hb. pose proof (ndisc_wf_options _ Hwf) as Hos. cbn [ndisc_options] in Hos.
  cbn [ndisc_buffer_len] in Hb. zfold_in Hb. rewrite ndisc_opt_len_ll in Hb. cbn [ndisc_wf] in Hwf. bsplit.
  pose proof (ndisc_opt_len_nonneg _ _ Hos).
  destruct (split_hdr b 24 ltac:(lia)) as (h & t & -> & Hh & Ht). rewrite Hb in Ht. clear Hb.
  zfold_in Hh. cells Hh.
  match goal with H : blen ta = 16 |- _ => apply (blen_length _ 16) in H; cells H end.
  unfold ndisc_bytes_ck. cbn [ndisc_type ndisc_fixed ndisc_options nth app ndisc_emit].
  ndisc_unfold_emit. zfold. refold_tail t.
  hstep. hstep. cbn [app]. rewrite ndisc_clear_reserved by auto. cbn [obind]. refold_tail t. hstep. hstep.
  match goal with |- context [ndisc_emit_opt _ _ ((?x :: ?hr) ++ t, 0)] =>
    replace ((x :: hr) ++ t, 0) with ((x :: hr) ++ [] ++ t ++ [], blen (@nil Z)) by (rewrite app_nil_r; reflexivity)
  end.
  rewrite ndisc_emit_opt_step by (try assumption; try reflexivity; lia).
  cbn [obind fst app]. rewrite app_nil_r. reflexivity.
Qed.

Lemma ndisc_emit_redirect_spec ta da ll rh b :
  ndisc_wf (NdiscRedirect ta da ll rh) = true -> blen b = ndisc_buffer_len (NdiscRedirect ta da ll rh) ->
  ndisc_emit (NdiscRedirect ta da ll rh) b =
  Ok (ndisc_bytes_ck (NdiscRedirect ta da ll rh) (nth 2 b 0) (nth 3 b 0)).
Proof.
  intros Hwf Hb. pose proof (ndisc_wf_options _ Hwf) as Hos. cbn [ndisc_options] in Hos.
  unfold ndisc_options_wf in Hos. rewrite forallb_app in Hos. apply andb_prop in Hos. destruct Hos as [Ho1 Ho2].
  cbn [ndisc_buffer_len] in Hb. zfold_in Hb. cbn [ndisc_wf] in Hwf. bsplit.
  pose proof (ndisc_opt_len_nonneg _ _ Ho1). pose proof (ndisc_opt_len_nonneg _ _ Ho2).
  destruct (split_hdr b 40 ltac:(lia)) as (h & t & -> & Hh & Ht). rewrite Hb in Ht. clear Hb.
  destruct (split_hdr t (ndisc_opt_len NdTargetLL ll) ltac:(lia)) as (t1 & t2 & -> & Ht1 & Ht2).
  zfold_in Hh. cells Hh.
  match goal with H : blen ta = 16 |- _ => apply (blen_length _ 16) in H; cells H end.
  match goal with H : blen da = 16 |- _ => apply (blen_length _ 16) in H; cells H end.
  unfold ndisc_bytes_ck. cbn [ndisc_type ndisc_fixed ndisc_options nth app ndisc_emit].
  ndisc_unfold_emit. zfold. refold_tail (t1 ++ t2).
  hstep. hstep. cbn [app]. rewrite ndisc_clear_reserved by auto. cbn [obind]. refold_tail (t1 ++ t2). hstep. hstep.
  match goal with |- context [ndisc_emit_opt _ _ ((?x :: ?hr) ++ t1 ++ t2, 0)] =>
    replace ((x :: hr) ++ t1 ++ t2, 0) with ((x :: hr) ++ [] ++ t1 ++ t2, blen (@nil Z)) by reflexivity
  end.
  rewrite ndisc_emit_opt_step by (try assumption; try reflexivity; unfold blen in *; lia). cbn [obind].
  match goal with |- context [ndisc_emit_opt _ _ (?hd ++ ?dn ++ t2, ?o)] =>
    replace (hd ++ dn ++ t2, o) with (hd ++ dn ++ t2 ++ [], o) by (rewrite app_nil_r; reflexivity)
  end.
  rewrite ndisc_emit_opt_step by (try assumption; try reflexivity; lia).
  cbn [obind fst]. rewrite ndisc_opts_bytes_app. cbn [app]. rewrite app_nil_r. reflexivity.
Qed.

Lemma ndisc_emit_ra_spec hop fl lt rt xt ll mtu pi b :
  ndisc_wf (NdiscRouterAdvert hop fl lt rt xt ll mtu pi) = true ->
  blen b = ndisc_buffer_len (NdiscRouterAdvert hop fl lt rt xt ll mtu pi) ->
  ndisc_emit (NdiscRouterAdvert hop fl lt rt xt ll mtu pi) b =
  Ok (ndisc_bytes_ck (NdiscRouterAdvert hop fl lt rt xt ll mtu pi) (nth 2 b 0) (nth 3 b 0)).
Proof.
  intros Hwf Hb. pose proof (ndisc_wf_options _ Hwf) as Hos. cbn [ndisc_options] in Hos.
  unfold ndisc_options_wf in Hos. rewrite !forallb_app in Hos.
  apply andb_prop in Hos. destruct Hos as [Ho1 Hos]. apply andb_prop in Hos. destruct Hos as [Ho2 Ho3].
  cbn [ndisc_buffer_len] in Hb. zfold_in Hb. rewrite <- ndisc_opt_len_ll in Hb. cbn [ndisc_wf] in Hwf. bsplit.
  pose proof (ndisc_opt_len_nonneg _ _ Ho1). pose proof (ndisc_opt_len_nonneg _ _ Ho2).
  pose proof (ndisc_opt_len_nonneg _ _ Ho3).
  destruct (split_hdr b 16 ltac:(lia)) as (h & t & -> & Hh & Ht). rewrite Hb in Ht. clear Hb.
  destruct (split_hdr t (ndisc_opt_len NdSourceLL ll) ltac:(lia)) as (t1 & t' & -> & Ht1 & Ht').
  destruct (split_hdr t' (ndisc_opt_len NdMtu mtu) ltac:(lia)) as (t2 & t3 & -> & Ht2 & Ht3).
  zfold_in Hh. cells Hh.
  unfold ndisc_bytes_ck. cbn [ndisc_type ndisc_fixed ndisc_options nth app ndisc_emit].
  ndisc_unfold_emit. zfold. refold_tail (t1 ++ t2 ++ t3).
  rewrite (Z.mod_small lt) by lia. rewrite (Z.mod_small rt) by lia. rewrite (Z.mod_small xt) by lia.
  hstep. hstep. hstep. hstep. hstep. hstep. hstep.
  match goal with |- context [ndisc_emit_opt _ _ ((?x :: ?hr) ++ t1 ++ t2 ++ t3, 0)] =>
    replace ((x :: hr) ++ t1 ++ t2 ++ t3, 0) with ((x :: hr) ++ [] ++ t1 ++ t2 ++ t3, blen (@nil Z)) by reflexivity
  end.
  rewrite ndisc_emit_opt_step by (try assumption; try reflexivity; unfold blen in *; lia). cbn [obind].
  rewrite ndisc_emit_opt_step by (try assumption; try reflexivity; unfold blen in *; lia). cbn [obind].
  match goal with |- context [ndisc_emit_opt _ _ (?hd ++ ?dn ++ t3, ?o)] =>
    replace (hd ++ dn ++ t3, o) with (hd ++ dn ++ t3 ++ [], o) by (rewrite app_nil_r; reflexivity)
  end.
  rewrite ndisc_emit_opt_step by (try assumption; try reflexivity; unfold blen in *; lia).
  cbn [obind fst]. rewrite !ndisc_opts_bytes_app. unfold be_enc2, be_enc4. cbn [app]. rewrite app_nil_r.
  rewrite <- !app_assoc. reflexivity.
Qed.

Lemma ndisc_emit_spec r b : ndisc_wf r = true -> blen b = ndisc_buffer_len r ->
  ndisc_emit r b = Ok (ndisc_bytes_ck r (nth 2 b 0) (nth 3 b 0)).
Proof.
  destruct r; [apply ndisc_emit_rs_spec | apply ndisc_emit_ra_spec | apply ndisc_emit_ns_spec
              | apply ndisc_emit_na_spec | apply ndisc_emit_redirect_spec].
Qed.

Lemma ndisc_fixed_len r : ndisc_wf r = true -> 4 + blen (ndisc_fixed r) = icmp6h_header_len_of (ndisc_type r).
Proof.
  destruct r as [ll|hop fl lt rt xt ll mtu pi|ta ll|fl ta ll|ta da ll rh]; cbn [ndisc_wf ndisc_fixed ndisc_type];
    intros H; bsplit; unfold be_enc2, be_enc4; autorewrite with blen;
    repeat match goal with X : blen _ = 16 |- _ => rewrite X; clear X end; reflexivity.
Qed.

Lemma ndisc_options_len r : ndisc_wf r = true ->
  icmp6h_header_len_of (ndisc_type r) + blen (ndisc_opts_bytes (ndisc_options r)) = ndisc_buffer_len r.
Proof.
  intros Hwf. rewrite ndisc_opts_bytes_len by (apply ndisc_wf_options; assumption).
  destruct r as [ll|hop fl lt rt xt ll mtu pi|ta ll|fl ta ll|ta da ll rh];
    cbn [ndisc_options ndisc_type ndisc_buffer_len];
    rewrite ?fold_right_app, ?ndisc_olist_len.
  - reflexivity.
  - rewrite <- ndisc_opt_len_ll. change (icmp6h_header_len_of icmp6h_ROUTER_ADVERT) with 16.
    destruct ll, mtu, pi; cbn [ndisc_olist fold_right ndisc_opt_len]; zfold; lia.
  - reflexivity.
  - rewrite ndisc_opt_len_ll. reflexivity.
  - change (icmp6h_header_len_of icmp6h_REDIRECT) with 40.
    destruct ll, rh; cbn [ndisc_olist fold_right ndisc_opt_len]; zfold; lia.
Qed.

Lemma ndisc_bytes_ck_len r k2 k3 : ndisc_wf r = true -> blen (ndisc_bytes_ck r k2 k3) = ndisc_buffer_len r.
Proof.
  intros Hwf. unfold ndisc_bytes_ck. rewrite <- (ndisc_options_len r Hwf), <- (ndisc_fixed_len r Hwf).
  autorewrite with blen. lia.
Qed.

Lemma ndisc_emit_no_panic r b : ndisc_wf r = true -> blen b = ndisc_buffer_len r -> ndisc_emit r b <> Panic.
Proof. intros; rewrite ndisc_emit_spec by assumption; discriminate. Qed.

Section Checksum.
Variable sum_ok : list Z -> bool.
Variable sum_fill : list Z -> Z.

(* the packet Icmpv6Repr::Ndisc(r).emit produces *)
Definition ndisc_body (r : ndisc_repr) : list Z := ndisc_fixed r ++ ndisc_opts_bytes (ndisc_options r).
Definition ndisc_ck (tx : bool) (r : ndisc_repr) : Z :=
  if tx then sum_fill ([ndisc_type r; 0; 0; 0] ++ ndisc_body r) else 0.
Definition ndisc_bytes (tx : bool) (r : ndisc_repr) : list Z :=
  [ndisc_type r; 0] ++ be_enc2 (ndisc_ck tx r) ++ ndisc_body r.

Lemma ndisc_icmp_emit_spec tx r b : ndisc_wf r = true -> blen b = ndisc_buffer_len r ->
  ndisc_icmp_emit sum_fill tx r b = Ok (ndisc_bytes tx r).
Proof.
  intros Hwf Hb. unfold ndisc_icmp_emit. rewrite ndisc_emit_spec by assumption. cbn [obind].
  unfold ndisc_bytes_ck. rewrite icmp6h_finish_emit_spec. reflexivity.
Qed.

Lemma ndisc_bytes_len tx r : ndisc_wf r = true -> blen (ndisc_bytes tx r) = ndisc_buffer_len r.
Proof.
  intros H. rewrite <- (ndisc_bytes_ck_len r 0 0 H). unfold ndisc_bytes, ndisc_bytes_ck, ndisc_body, be_enc2.
  autorewrite with blen. lia.
Qed.

Lemma ndisc_icmp_emit_no_panic tx r b : ndisc_wf r = true -> blen b = ndisc_buffer_len r ->
  ndisc_icmp_emit sum_fill tx r b <> Panic.
Proof. intros; rewrite ndisc_icmp_emit_spec by assumption; discriminate. Qed.

Lemma ndisc_emit_ignores_old_bytes tx r b1 b2 : ndisc_wf r = true ->
  blen b1 = ndisc_buffer_len r -> blen b2 = ndisc_buffer_len r ->
  ndisc_icmp_emit sum_fill tx r b1 = ndisc_icmp_emit sum_fill tx r b2.
Proof. intros; rewrite !ndisc_icmp_emit_spec by assumption; reflexivity. Qed.

End Checksum.

(* ---------- C06: parse of emitted octets ---------- *)

Lemma ndisc_parse_opts_eq fuel p off st :
  ndisc_parse_opts fuel p off st =
  if blen p >? off then
    match fuel with
    | O => Panic
    | S fuel' =>
        do rest <- wb_from p off;
        do _ <- ndopt_new_checked rest;
        do st' <- match ndopt_parse rest with
                  | Ok o => Ok (ndisc_opts_put st o)
                  | Err _ => Ok st
                  | Panic => Panic
                  end;
        do l <- ndopt_data_len rest;
        if l * 8 =? 0 then Err 0 else ndisc_parse_opts fuel' p (off + l * 8) st'
    end
  else Ok st.
Proof. destruct fuel; reflexivity. Qed.

(* one iteration of the loop on an emitted option *)
Lemma ndisc_parse_opts_step fuel o pre rest st : ndopt_wf o = true ->
  ndisc_parse_opts (S fuel) (pre ++ ndopt_bytes o ++ rest) (blen pre) st =
  ndisc_parse_opts fuel (pre ++ ndopt_bytes o ++ rest) (blen pre + ndopt_buffer_len o) (ndisc_opts_put st o).
Proof.
  intros Hwf. rewrite ndisc_parse_opts_eq.
  pose proof (ndopt_buffer_len_ge8 o Hwf) as G. pose proof (ndopt_bytes_len o Hwf) as Lb.
  pose proof (blen_nonneg rest).
  rewrite !blen_app, Lb. zbool.
  rewrite wb_from_tail by reflexivity. cbn [obind].
  destruct (ndopt_bytes_head o rest Hwf) as (C & l & Dl & El).
  rewrite C, (ndopt_parse_bytes o rest Hwf), Dl. cbn [obind]. rewrite El. zbool. reflexivity.
Qed.

(* the loop over a sequence of emitted options collects them in order *)
Lemma ndisc_parse_opts_list os : ndisc_options_wf os = true -> forall fuel pre st, (length os <= fuel)%nat ->
  ndisc_parse_opts fuel (pre ++ ndisc_opts_bytes os) (blen pre) st = Ok (fold_left ndisc_opts_put os st).
Proof.
  unfold ndisc_options_wf, ndisc_opts_bytes.
  induction os as [|o os IH]; cbn [forallb flat_map fold_left length]; intros Hwf fuel pre st Hf.
  - rewrite ndisc_parse_opts_eq. rewrite app_nil_r. zbool. reflexivity.
  - bsplit. destruct fuel as [|fuel]; [lia|].
    rewrite ndisc_parse_opts_step by assumption.
    rewrite app_assoc. rewrite <- (ndopt_bytes_len o) by assumption. rewrite <- blen_app.
    apply IH; [assumption | lia].
Qed.

Lemma ndisc_opts_bytes_fuel os : ndisc_options_wf os = true ->
  (length os <= length (ndisc_opts_bytes os))%nat.
Proof.
  unfold ndisc_options_wf, ndisc_opts_bytes.
  induction os as [|o os IH]; cbn [forallb flat_map length]; intros Hwf; [lia|]. bsplit.
  rewrite app_length. specialize (IH ltac:(assumption)).
  pose proof (ndopt_buffer_len_ge8 o ltac:(assumption)) as G.
  rewrite <- ndopt_bytes_len in G by assumption. unfold blen in G. lia.
Qed.

Lemma ndisc_check_len_cons ty hr X : icmp6h_known ty = true ->
  icmp6h_header_len_of ty = blen (ty :: hr) -> 8 <= blen (ty :: hr) ->
  icmp6h_check_len ((ty :: hr) ++ X) = Ok tt.
Proof.
  intros K Hl H8. pose proof (blen_nonneg X).
  unfold icmp6h_check_len. rewrite ndisc_header_len_cons. rewrite blen_app.
  unfold icmp6h_msg_type. zfold. cbn [app]. rewrite wb_get_u8_ok by (rewrite blen_cons in *; pose proof (blen_nonneg (hr ++ X)); lia).
  zfold. cbn [nth obind]. rewrite K. cbn [obind]. rewrite Hl. zbool. reflexivity.
Qed.

Lemma ndisc_payload_cons ty hr X : icmp6h_header_len_of ty = blen (ty :: hr) ->
  icmp6h_payload ((ty :: hr) ++ X) = Ok X.
Proof.
  intros Hl. unfold icmp6h_payload. rewrite ndisc_header_len_cons. cbn [obind]. rewrite Hl.
  apply wb_from_tail. reflexivity.
Qed.

(* the slots after the loop over the options of a representation *)
Definition ndisc_slots (r : ndisc_repr) : ndisc_opts :=
  fold_left ndisc_opts_put (ndisc_options r) ndisc_opts_empty.

Lemma ndisc_parse_loop_bytes r : ndisc_wf r = true ->
  let p := ndisc_opts_bytes (ndisc_options r) in
  ndisc_parse_opts (length p) p 0 ndisc_opts_empty = Ok (ndisc_slots r).
Proof.
  intros Hwf p. pose proof (ndisc_wf_options r Hwf) as Hos.
  change p with ([] ++ p). change 0 with (blen (@nil Z)).
  apply ndisc_parse_opts_list; [assumption|]. apply ndisc_opts_bytes_fuel. assumption.
Qed.

Lemma ndisc_flags_idem m fl : Z.land fl m = fl -> Z.land fl m = fl.
Proof. auto. Qed.

Lemma ndisc_parse_bytes r k2 k3 : ndisc_wf r = true ->
  ndisc_parse ([ndisc_type r; 0; k2; k3] ++ ndisc_fixed r ++ ndisc_opts_bytes (ndisc_options r)) = Ok r.
Proof.
  intros Hwf. pose proof (ndisc_parse_loop_bytes r Hwf) as Hloop. cbv zeta in Hloop.
  pose proof (ndisc_fixed_len r Hwf) as Hfl.
  assert (Hslots : ndisc_slots r = ndisc_slots r) by reflexivity.
  unfold ndisc_slots at 2 in Hslots.
  destruct r as [ll|hop fl lt rt xt ll mtu pi|ta ll|fl ta ll|ta da ll rh];
    cbn [ndisc_wf ndisc_fixed ndisc_type ndisc_options] in *; bsplit;
    repeat match goal with H : blen ?a = 16 |- _ => apply (blen_length _ 16) in H; cells H end;
    match goal with |- context [ndisc_opts_bytes ?os] => remember (ndisc_opts_bytes os) as X eqn:EX end;
    unfold be_enc2, be_enc4; cbn [app]; refold_tail X; unfold ndisc_parse.
  - rewrite ndisc_check_len_cons by (try reflexivity; unfold blen; cbn [length]; lia). cbn [obind].
    rewrite ndisc_payload_cons by reflexivity. cbn [obind]. rewrite Hloop. cbn [obind].
    unfold icmp6h_msg_type. zfold. hstep. zfold. rewrite Hslots.
    destruct ll; reflexivity.
  - rewrite ndisc_check_len_cons by (try reflexivity; unfold blen; cbn [length]; lia). cbn [obind].
    rewrite ndisc_payload_cons by reflexivity. cbn [obind]. rewrite Hloop. cbn [obind].
    unfold icmp6h_msg_type, ndisc_current_hop_limit, ndisc_router_flags, ndisc_router_lifetime, ndisc_reachable_time,
      ndisc_retrans_time, wb_get_u16, wb_get_u32. zfold. repeat hstep. zfold. cbn [obind].
    rewrite (be_dec_cells2 lt) by lia. rewrite (be_dec_cells4 rt) by lia. rewrite (be_dec_cells4 xt) by lia.
    match goal with H : Z.land fl _ = fl |- _ => change ndisc_ROUTER_FLAGS_MASK with 192 in H; rewrite H end.
    rewrite Hslots. destruct ll, mtu, pi; reflexivity.
  - rewrite ndisc_check_len_cons by (try reflexivity; unfold blen; cbn [length]; lia). cbn [obind].
    rewrite ndisc_payload_cons by reflexivity. cbn [obind]. rewrite Hloop. cbn [obind].
    unfold icmp6h_msg_type, ndisc_target_addr, wb_field. zfold. repeat hstep. zfold. cbn [obind].
    unfold wb_arr. autorewrite with blen. zfold. cbn [obind]. rewrite Hslots. destruct ll; reflexivity.
  - rewrite ndisc_check_len_cons by (try reflexivity; unfold blen; cbn [length]; lia). cbn [obind].
    rewrite ndisc_payload_cons by reflexivity. cbn [obind]. rewrite Hloop. cbn [obind].
    unfold icmp6h_msg_type, ndisc_target_addr, ndisc_neighbor_flags, wb_field. zfold. repeat hstep. zfold. cbn [obind].
    unfold wb_arr. autorewrite with blen. zfold. cbn [obind].
    match goal with H : Z.land fl _ = fl |- _ => change ndisc_NEIGHBOR_FLAGS_MASK with 224 in H; rewrite H end.
    rewrite Hslots. destruct ll; reflexivity.
  - rewrite ndisc_check_len_cons by (try reflexivity; unfold blen; cbn [length]; lia). cbn [obind].
    rewrite ndisc_payload_cons by reflexivity. cbn [obind]. rewrite Hloop. cbn [obind].
    unfold icmp6h_msg_type, ndisc_target_addr, ndisc_dest_addr, wb_field. zfold. repeat hstep. zfold. cbn [obind].
    unfold wb_arr. autorewrite with blen. zfold. cbn [obind]. rewrite Hslots. destruct ll, rh; reflexivity.
Qed.

Lemma ndisc_type_is_ndisc r : icmp6h_is_ndisc (ndisc_type r) = true.
Proof. destruct r; reflexivity. Qed.

Section Checksum2.
Variable sum_ok : list Z -> bool.
Variable sum_fill : list Z -> Z.

(* the round trip through Icmpv6Repr::emit and NdiscRepr::parse (which verifies no checksum) *)
Lemma ndisc_roundtrip tx r b : ndisc_wf r = true -> blen b = ndisc_buffer_len r ->
  exists bs, ndisc_icmp_emit sum_fill tx r b = Ok bs /\ blen bs = ndisc_buffer_len r /\
             ndisc_parse bs = Ok r.
Proof.
  intros Hwf Hb. exists (ndisc_bytes sum_fill tx r).
  split; [apply ndisc_icmp_emit_spec; assumption|]. split; [apply ndisc_bytes_len; assumption|].
  unfold ndisc_bytes, ndisc_body, be_enc2. cbn [app]. apply (ndisc_parse_bytes r _ _ Hwf).
Qed.

(* the same through Icmpv6Repr::parse (checksum verified when rx; message code 0) *)
Lemma ndisc_icmp_roundtrip tx rx r b : icmp6h_cksum_link sum_ok sum_fill ->
  (rx = true -> tx = true) -> ndisc_wf r = true -> blen b = ndisc_buffer_len r ->
  exists bs, ndisc_icmp_emit sum_fill tx r b = Ok bs /\ ndisc_icmp_parse sum_ok rx bs = Ok r.
Proof.
  intros Hlink Hmode Hwf Hb. exists (ndisc_bytes sum_fill tx r).
  split; [apply ndisc_icmp_emit_spec; assumption|].
  pose proof (ndisc_parse_bytes r ((ndisc_ck sum_fill tx r / 256) mod 256) (ndisc_ck sum_fill tx r mod 256) Hwf) as Hp.
  assert (Hok : rx = true -> sum_ok (ndisc_bytes sum_fill tx r) = true).
  { intros Hrx. rewrite (Hmode Hrx). unfold ndisc_bytes, ndisc_ck. apply Hlink. }
  unfold ndisc_icmp_parse. unfold ndisc_bytes, ndisc_body, be_enc2 in *. cbn [app] in *.
  destruct (icmp6h_type_code_cons (ndisc_type r) 0 ((ndisc_ck sum_fill tx r / 256) mod 256 ::
              ndisc_ck sum_fill tx r mod 256 :: ndisc_fixed r ++ ndisc_opts_bytes (ndisc_options r))) as [Ht Hcode].
  eapply icmp6h_parse_sub_ok; try eassumption.
  - unfold ndisc_parse in Hp. destruct (icmp6h_check_len _) as [[]| |]; cbn [obind] in Hp; try discriminate. reflexivity.
  - apply ndisc_type_is_ndisc.
Qed.

End Checksum2.

(* ---------- C07 (and the wf half of reparse) ---------- *)

Definition ndisc_opts_wf (st : ndisc_opts) : bool :=
  ndisc_opt_wf ndopt_lladdr_ok (ndo_src_ll st) && ndisc_opt_wf is_u32 (ndo_mtu st) &&
  ndisc_opt_wf ndopt_prefix_info_wf (ndo_prefix st) && ndisc_opt_wf ndopt_lladdr_ok (ndo_tgt_ll st) &&
  ndisc_opt_wf ndopt_redirected_wf (ndo_redir st).

Lemma ndisc_opts_put_wf st o : ndisc_opts_wf st = true -> ndopt_wf o = true ->
  ndisc_opts_wf (ndisc_opts_put st o) = true.
Proof.
  unfold ndisc_opts_wf. intros Hs Ho. bsplit.
  destruct o; cbn [ndisc_opts_put ndo_src_ll ndo_mtu ndo_prefix ndo_tgt_ll ndo_redir ndisc_opt_wf ndopt_wf] in *;
    repeat match goal with X : _ = true |- _ => rewrite X; clear X end; reflexivity.
Qed.

(* the loop: with fuel >= remaining length it returns well-formed slots or an error *)
Lemma ndisc_parse_opts_ok_or_err fuel : forall p off st, bytes_ok p = true -> 0 <= off ->
  (Z.to_nat (blen p - off) <= fuel)%nat -> ndisc_opts_wf st = true ->
  (exists st', ndisc_parse_opts fuel p off st = Ok st' /\ ndisc_opts_wf st' = true) \/
  (exists e, ndisc_parse_opts fuel p off st = Err e).
Proof.
  induction fuel as [|fuel IH]; intros p off st Hb Hoff Hf Hst; rewrite ndisc_parse_opts_eq.
  - destruct (blen p >? off) eqn:E; [bsplit; lia | left; eauto].
  - destruct (blen p >? off) eqn:E; [|left; eauto]. bsplit.
    rewrite wb_from_ok by lia. cbn [obind].
    set (rest := skipn (Z.to_nat off) p).
    assert (Br : bytes_ok rest = true) by (apply bytes_ok_skipn, Hb).
    assert (Lr : blen rest = blen p - off) by (apply blen_skipn; lia).
    destruct (ndopt_new_checked rest) as [[]|e|] eqn:C; cbn [obind]; [ | right; eauto | ].
    + destruct (ndopt_new_checked_inv rest Br C) as (t & l & _ & Hl & _ & Rl & _ & Ll & _).
      destruct (ndopt_parse_ok_or_err rest Br) as [(o & -> & Wo) | (e & ->)]; cbn [obind];
        unfold ndopt_data_len; change wndiscopt_f_LENGTH with 1; rewrite Hl; cbn [obind];
        (destruct (l * 8 =? 0) eqn:E0; [right; eauto|]); bsplit;
        apply IH; try assumption; try lia.
      apply ndisc_opts_put_wf; assumption.
    + exfalso. revert C. unfold ndopt_new_checked.
      destruct (ndopt_check_len rest) as [[]|e|] eqn:C1; cbn [obind]; try discriminate.
      * destruct (ndopt_check_len_inv rest Br C1) as (t & l & _ & Hl & _).
        unfold ndopt_data_len. change wndiscopt_f_LENGTH with 1. rewrite Hl. cbn [obind]. case_if; discriminate.
      * intros _. exact (ndopt_check_len_total rest C1).
Qed.

(* fuel-suffices: fuel beyond the remaining length changes nothing (every iteration advances
   `offset` by 8 * length field >= 8: new_checked rejects a zero length field) *)
Lemma ndisc_parse_opts_fuel fuel k : forall p off st, bytes_ok p = true -> 0 <= off ->
  (Z.to_nat (blen p - off) <= fuel)%nat ->
  ndisc_parse_opts (fuel + k) p off st = ndisc_parse_opts fuel p off st.
Proof.
  induction fuel as [|fuel IH]; intros p off st Hb Hoff Hf; rewrite (ndisc_parse_opts_eq (_ + k)), (ndisc_parse_opts_eq _ p).
  - destruct (blen p >? off) eqn:E; [bsplit; lia | reflexivity].
  - destruct (blen p >? off) eqn:E; [|reflexivity]. bsplit. cbn [Nat.add].
    rewrite wb_from_ok by lia. cbn [obind].
    set (rest := skipn (Z.to_nat off) p).
    assert (Br : bytes_ok rest = true) by (apply bytes_ok_skipn, Hb).
    destruct (ndopt_new_checked rest) as [[]|e|] eqn:C; cbn [obind]; try reflexivity.
    destruct (ndopt_new_checked_inv rest Br C) as (t & l & _ & Hl & _ & Rl & _).
    destruct (ndopt_parse rest) as [o|e|]; cbn [obind]; try reflexivity;
      unfold ndopt_data_len; change wndiscopt_f_LENGTH with 1; rewrite Hl; cbn [obind];
      (destruct (l * 8 =? 0) eqn:E0; [reflexivity|]); apply IH; try assumption; lia.
Qed.

Lemma ndisc_flags_tab : forallb (fun x =>
  is_u8 (Z.land x 192) && (Z.land (Z.land x 192) 192 =? Z.land x 192) &&
  is_u8 (Z.land x 224) && (Z.land (Z.land x 224) 224 =? Z.land x 224)) (ztab 256) = true.
Proof. vm_compute. reflexivity. Qed.

Lemma ndisc_addr_read bs lo hi : bytes_ok bs = true -> 0 <= lo -> hi = lo + 16 -> hi <= blen bs ->
  exists a, (do s <- wb_sub bs lo hi; wb_arr 16 s) = Ok a /\ is_arr 16 a = true.
Proof.
  intros Hb Hlo -> Hhi. destruct (wb_sub_ok_len bs lo (lo + 16) ltac:(lia) ltac:(lia)) as (a & -> & La & Ba).
  cbn [obind]. unfold wb_arr. replace (lo + 16 - lo) with 16 in La by lia. rewrite La. zfold.
  exists a. split; [reflexivity|]. unfold is_arr. rewrite La, (Ba Hb). reflexivity.
Qed.

(* Repr::parse on octets returns a well-formed representation or an error - never panics, and
   in particular never runs out of fuel *)
Lemma ndisc_parse_ok_or_err bs : bytes_ok bs = true ->
  (exists r, ndisc_parse bs = Ok r /\ ndisc_wf r = true) \/ (exists e, ndisc_parse bs = Err e).
Proof.
  intros Hb. unfold ndisc_parse.
  destruct (icmp6h_check_len bs) as [[]|e|] eqn:C; cbn [obind];
    [ | right; eauto | exfalso; exact (icmp6h_check_len_nopanic bs C) ].
  destruct (icmp6h_check_len_inv bs C) as (t & Ht & Kt & L8 & Lh).
  pose proof (icmp6h_header_len_of_range t) as Rh.
  unfold icmp6h_payload, icmp6h_header_len. rewrite Ht. cbn [obind].
  rewrite wb_from_ok by lia. cbn [obind].
  set (p := skipn (Z.to_nat (icmp6h_header_len_of t)) bs).
  assert (Bp : bytes_ok p = true) by (apply bytes_ok_skipn, Hb).
  assert (Hloop : (exists st', ndisc_parse_opts (length p) p 0 ndisc_opts_empty = Ok st' /\ ndisc_opts_wf st' = true) \/
                  (exists e, ndisc_parse_opts (length p) p 0 ndisc_opts_empty = Err e)).
  { apply ndisc_parse_opts_ok_or_err; [assumption | lia | unfold blen; lia | reflexivity]. }
  destruct Hloop as [(st & -> & Wst) | (e & ->)]; [|right; cbn [obind]; eauto].
  cbn [obind]. unfold ndisc_opts_wf in Wst. bsplit.
  unfold icmp6h_ROUTER_SOLICIT, icmp6h_ROUTER_ADVERT, icmp6h_NEIGHBOR_SOLICIT, icmp6h_NEIGHBOR_ADVERT, icmp6h_REDIRECT.
  destruct (t =? 133) eqn:T1; [|destruct (t =? 134) eqn:T2; [|destruct (t =? 135) eqn:T3;
    [|destruct (t =? 136) eqn:T4; [|destruct (t =? 137) eqn:T5; [|right; eauto]]]]]; bsplit; subst t.
  - left. eexists. split; [reflexivity|]. cbn [ndisc_wf]. assumption.
  - change (icmp6h_header_len_of 134) with 16 in *.
    unfold ndisc_current_hop_limit, ndisc_router_flags, ndisc_router_lifetime, ndisc_reachable_time, ndisc_retrans_time.
    zfold.
    destruct (wb_get_u8_byte bs 4 ltac:(lia) Hb) as (hop & -> & Rhop).
    destruct (wb_get_u8_byte bs 5 ltac:(lia) Hb) as (fl & -> & Rfl). cbn [obind].
    destruct (wb_get_u16_ok' bs wicmpv6_f_ROUTER_LT) as (lt & -> & Rlt); try (zfold; lia); try assumption.
    destruct (wb_get_u32_ok' bs wicmpv6_f_REACHABLE_TM) as (rt & -> & Rrt); try (zfold; lia); try assumption.
    destruct (wb_get_u32_ok' bs wicmpv6_f_RETRANS_TM) as (xt & -> & Rxt); try (zfold; lia); try assumption.
    cbn [obind]. left. eexists. split; [reflexivity|]. cbn [ndisc_wf]. unfold ndisc_ROUTER_FLAGS_MASK.
    pose proof (tab1 256 _ ndisc_flags_tab fl Rfl) as Tf. cbv beta in Tf. bsplit.
    repeat match goal with X : _ = true |- _ => rewrite X; clear X end.
    match goal with X : Z.land (Z.land fl 192) 192 = _ |- _ => rewrite X; clear X end.
    unfold is_u8, is_u16, is_u32. zbool. reflexivity.
  - change (icmp6h_header_len_of 135) with 24 in *. unfold ndisc_target_addr, wb_field. zfold. cbn [fst snd].
    destruct (ndisc_addr_read bs 8 24 Hb ltac:(lia) ltac:(lia) ltac:(lia)) as (ta & -> & Wta). cbn [obind].
    left. eexists. split; [reflexivity|]. cbn [ndisc_wf]. rewrite Wta. assumption.
  - change (icmp6h_header_len_of 136) with 24 in *. unfold ndisc_neighbor_flags, ndisc_target_addr, wb_field. zfold. cbn [fst snd].
    destruct (wb_get_u8_byte bs 4 ltac:(lia) Hb) as (fl & -> & Rfl). cbn [obind].
    destruct (ndisc_addr_read bs 8 24 Hb ltac:(lia) ltac:(lia) ltac:(lia)) as (ta & -> & Wta). cbn [obind].
    left. eexists. split; [reflexivity|]. cbn [ndisc_wf]. unfold ndisc_NEIGHBOR_FLAGS_MASK.
    rewrite Wta. clear Wta.
    match goal with X : ndisc_opt_wf ndopt_lladdr_ok (ndo_tgt_ll st) = true |- _ => rewrite X end.
    pose proof (tab1 256 _ ndisc_flags_tab fl Rfl) as Tf. cbv beta in Tf. bsplit.
    match goal with X : Z.land (Z.land fl 224) 224 = _ |- _ => rewrite X; clear X end.
    unfold is_u8. zbool. reflexivity.
  - change (icmp6h_header_len_of 137) with 40 in *. unfold ndisc_target_addr, ndisc_dest_addr, wb_field. zfold. cbn [fst snd].
    destruct (ndisc_addr_read bs 8 24 Hb ltac:(lia) ltac:(lia) ltac:(lia)) as (ta & -> & Wta). cbn [obind].
    destruct (ndisc_addr_read bs 24 40 Hb ltac:(lia) ltac:(lia) ltac:(lia)) as (da & -> & Wda). cbn [obind].
    left. eexists. split; [reflexivity|]. cbn [ndisc_wf].
    repeat match goal with X : _ = true |- _ => rewrite X; clear X end. reflexivity.
Qed.

Lemma ndisc_parse_total bs : bytes_ok bs = true -> ndisc_parse bs <> Panic.
Proof. intros Hb. destruct (ndisc_parse_ok_or_err bs Hb) as [(r & -> & _) | (e & ->)]; discriminate. Qed.

Lemma ndisc_icmp_parse_total sum_ok rx bs : bytes_ok bs = true -> ndisc_icmp_parse sum_ok rx bs <> Panic.
Proof.
  intros Hb. unfold ndisc_icmp_parse, icmp6h_parse_sub, icmp6h_verify_checksum.
  destruct (icmp6h_check_len bs) as [[]| |] eqn:E; cbn [obind]; try discriminate.
  - destruct (icmp6h_generic_safe bs E) as (A1 & A2 & _).
    pose proof (ndisc_parse_total bs Hb). destruct rx; cbn [obind]; nopanic.
  - exfalso. exact (icmp6h_check_len_nopanic bs E).
Qed.

Lemma ndisc_parse_wf bs r : bytes_ok bs = true -> ndisc_parse bs = Ok r -> ndisc_wf r = true.
Proof.
  intros Hb H. destruct (ndisc_parse_ok_or_err bs Hb) as [(r' & H' & W) | (e & H')]; rewrite H in H'.
  - injection H' as ->. exact W.
  - discriminate.
Qed.

Lemma ndisc_reparse sum_fill tx bs r : bytes_ok bs = true -> ndisc_parse bs = Ok r ->
  ndisc_wf r = true /\
  forall b, blen b = ndisc_buffer_len r ->
    exists bs', ndisc_icmp_emit sum_fill tx r b = Ok bs' /\ ndisc_parse bs' = Ok r.
Proof.
  intros Hb H. pose proof (ndisc_parse_wf bs r Hb H) as Hwf. split; [assumption|].
  intros b Hlen. destruct (ndisc_roundtrip sum_fill tx r b Hwf Hlen) as (bs' & He & _ & Hp). eauto.
Qed.

(* the NDISC accessors on a checked ICMPv6 packet of the message type they belong to *)
Lemma ndisc_accessors_safe bs : icmp6h_check_len bs = Ok tt ->
  (icmp6h_msg_type bs = Ok icmp6h_ROUTER_ADVERT ->
     ndisc_current_hop_limit bs <> Panic /\ ndisc_router_flags bs <> Panic /\ ndisc_router_lifetime bs <> Panic /\
     ndisc_reachable_time bs <> Panic /\ ndisc_retrans_time bs <> Panic) /\
  (icmp6h_msg_type bs = Ok icmp6h_NEIGHBOR_SOLICIT -> ndisc_target_addr bs <> Panic) /\
  (icmp6h_msg_type bs = Ok icmp6h_NEIGHBOR_ADVERT ->
     ndisc_neighbor_flags bs <> Panic /\ ndisc_target_addr bs <> Panic) /\
  (icmp6h_msg_type bs = Ok icmp6h_REDIRECT -> ndisc_target_addr bs <> Panic /\ ndisc_dest_addr bs <> Panic).
Proof.
  intros C. destruct (icmp6h_check_len_inv bs C) as (t & Ht & _ & L8 & Lh). rewrite Ht.
  assert (GA : forall lo hi, 0 <= lo -> hi = lo + 16 -> hi <= blen bs ->
                 (do s <- wb_sub bs lo hi; wb_arr 16 s) <> Panic).
  { intros lo hi ? -> ?. rewrite wb_sub_ok by lia. cbn [obind]. unfold wb_arr.
    rewrite blen_firstn by (rewrite blen_skipn; lia). zbool. discriminate. }
  unfold ndisc_current_hop_limit, ndisc_router_flags, ndisc_router_lifetime, ndisc_reachable_time,
    ndisc_retrans_time, ndisc_target_addr, ndisc_neighbor_flags, ndisc_dest_addr, wb_get_u16, wb_get_u32, wb_field.
  zfold. cbn [fst snd].
  split; [|split; [|split]]; intros E; injection E as ->; repeat split.
  all: try (change (icmp6h_header_len_of 134) with 16 in Lh).
  all: try (change (icmp6h_header_len_of 135) with 24 in Lh).
  all: try (change (icmp6h_header_len_of 136) with 24 in Lh).
  all: try (change (icmp6h_header_len_of 137) with 40 in Lh).
  all: try (apply GA; lia).
  all: try (apply wb_get_be_nopanic; lia).
  all: try (rewrite wb_get_u8_ok by lia; discriminate).
Qed.
