(* C02 (liveness half), steps 4 + 5: NON-VACUITY of oneway_delivery_zw (Proofs/TcpProgressZw5.v) on the run
   of Proofs/TcpProgressZwWitness.v with a longer tail: B's window update is lost in the prefix; A believes
   the window closed with 4 of 12 octets queued.  On the reliable suffix every premise holds (sound decision
   procedures) and the theorem yields a state in which B's application has read all 12 octets. *)
From SV Require Import Lib.Base Gen.Consts.
From SV Require Import Model.Seq32 Model.Assembler Model.TcpBuf Model.TcpTypes Model.Tcp Model.TcpNet.
From SV Require Import Proofs.TcpSendBase Proofs.TcpLiveBase Proofs.TcpLiveProofs Proofs.TcpLiveMore
  Proofs.TcpLiveProgress.
From SV Require Import Proofs.TcpNetBase.
From SV Require Proofs.TcpNetInv.
From SV Require Import Proofs.TcpProgressBase Proofs.TcpProgressFrame Proofs.TcpProgressCtl Proofs.TcpProgressRecv
  Proofs.TcpProgressSend Proofs.TcpProgressNet Proofs.TcpProgressData Proofs.TcpProgressAck Proofs.TcpProgressAll
  Proofs.TcpProgressSafe Proofs.TcpProgressExample Proofs.TcpProgressWitness Proofs.TcpProgressSafeWitness
  Proofs.TcpProgressZwDup Proofs.TcpProgressZw1 Proofs.TcpProgressZw2 Proofs.TcpProgressZw3 Proofs.TcpProgressZwWitness
  Proofs.TcpProgressZw4 Proofs.TcpProgressZw5.

Definition zwd_suffix : list net_event :=
  [NTick 1000000; NPoll SA true; NDeliver SB 0; NPoll SB true; NDeliver SA 0; NPoll SA true; NDeliver SB 1;
   NPoll SB true; NDeliver SA 1; NRecv SB 8; NPoll SB true; NDeliver SA 2; NTick 1500000000].

Definition zwd_check (ca cb : ep_config) (pre suf : list net_event) (Dt Da Dack L : Z) (n : nat) : bool :=
  match net_init ca cb with
  | Ok st0 =>
      match net_run st0 pre with
      | Ok st =>
          regb SA Dack st && opts_okb st && fair_runb Dt Da (fa_init Dt Da st) st suf &&
          once_runb Dt Da (fa_init Dt Da st) st suf && run_zextrab st suf && forallb (app_evb SA) suf &&
          (L <=? l_len (ep_written (net_get st SA))) &&
          (Z.max 0 (L - una_off (net_get st SA)) + Z.max 0 (L - read_off (net_get st SB)) <=? Z.of_nat n) &&
          (s_remote_win_len (net_sock st SA) =? 0) && (0 <=? Dt) && (0 <=? Da) &&
          match net_run st suf with
          | Ok st' => (net_now st SA + Z.of_nat n * Wz Dt Da <? net_now st' SA) &&
                      (l_len (ep_written (net_get st' SA)) <? 2 ^ 30) && (l_len (ep_written (net_get st' SB)) <? 2 ^ 30)
          | _ => false
          end
      | _ => false
      end
  | _ => false
  end.

Lemma zwd_package ca cb pre suf Dt Da Dack L n :
  cfg_good ca -> cfg_good cb ->
  zwd_check ca cb pre suf Dt Da Dack L n = true ->
  exists st0 st st',
    net_init ca cb = Ok st0 /\ net_run st0 pre = Ok st /\ net_run st suf = Ok st' /\
    reach st /\ reg SA Dack st /\ reliable_schedule Dt Da st suf /\ Forall (app_ev SA) suf /\
    run_all (zextra SA) st suf /\ s_remote_win_len (net_sock st SA) = 0 /\
    exists p1 p2 st1, suf = p1 ++ p2 /\ net_run st p1 = Ok st1 /\ net_run st1 p2 = Ok st' /\
                      L <= read_off (net_get st1 SB).
Proof.
  intros Ga Gb H. unfold zwd_check in H.
  destruct (net_init ca cb) as [st0|e|] eqn:Ei; try discriminate.
  destruct (net_run st0 pre) as [st|e|] eqn:Ep; try discriminate.
  apply andb_true_iff in H. destruct H as (H & Hend).
  apply andb_true_iff in H. destruct H as (H & Hd2).
  apply andb_true_iff in H. destruct H as (H & Hd1).
  apply andb_true_iff in H. destruct H as (H & Hwin).
  apply andb_true_iff in H. destruct H as (H & Hn).
  apply andb_true_iff in H. destruct H as (H & HL).
  apply andb_true_iff in H. destruct H as (H & Happ).
  apply andb_true_iff in H. destruct H as (H & Hzx).
  apply andb_true_iff in H. destruct H as (H & Honce).
  apply andb_true_iff in H. destruct H as (H & Hf).
  apply andb_true_iff in H. destruct H as (Hreg & Ho).
  destruct (net_run st suf) as [st'|e|] eqn:Es; try discriminate.
  apply andb_true_iff in Hend. destruct Hend as (Hend & Hsb).
  apply andb_true_iff in Hend. destruct Hend as (Hclk & Hsa).
  apply Z.leb_le in Hd1, Hd2, HL, Hn. apply Z.ltb_lt in Hclk, Hsa, Hsb. apply Z.eqb_eq in Hwin.
  assert (Hre : reach st) by (exists ca, cb, st0, pre; auto).
  pose proof (regb_sound SA Dack st Hreg) as HG.
  pose proof (opts_okb_sound _ Ho) as Hoo. pose proof (fair_runb_sound _ _ _ _ _ Hf) as Hff.
  pose proof (proj1 (once_runb_iff _ _ _ _ _) Honce) as Hon.
  assert (Hrel : reliable_schedule Dt Da st suf).
  { split; [|exact Hon]. split; [lia|]. split; [lia|]. split; assumption. }
  pose proof (app_evb_sound SA suf Happ) as Ha.
  pose proof (run_zextrab_sound suf st Hzx) as Hz.
  exists st0, st, st'. split; [reflexivity|]. split; [exact Ep|]. split; [exact Es|].
  repeat (split; [assumption|]).
  apply (oneway_delivery_zw SA Dt Da Dack n suf st st' L Hre HG Hrel Ha Es); try assumption.
  intros z. destruct z; cbn [net_get] in *; lia.
Qed.

Lemma zwd_check_ok : zwd_check zcfg_a zcfg_b zww_prefix zwd_suffix 5000 5000 10000 12 8 = true.
Proof. vm_compute. reflexivity. Qed.

(* the window update is lost in the prefix; A believes the window closed; all 12 octets are delivered *)
Theorem delivery_zw_applies :
  exists st0 st st',
    net_init zcfg_a zcfg_b = Ok st0 /\ net_run st0 zww_prefix = Ok st /\ net_run st zwd_suffix = Ok st' /\
    reach st /\ reg SA 10000 st /\ reliable_schedule 5000 5000 st zwd_suffix /\ Forall (app_ev SA) zwd_suffix /\
    run_all (zextra SA) st zwd_suffix /\ s_remote_win_len (net_sock st SA) = 0 /\
    exists p1 p2 st1, zwd_suffix = p1 ++ p2 /\ net_run st p1 = Ok st1 /\ net_run st1 p2 = Ok st' /\
                      12 <= read_off (net_get st1 SB).
Proof. destruct zcfg_good as (Ga & Gb). exact (zwd_package _ _ _ _ _ _ _ _ _ Ga Gb zwd_check_ok). Qed.
