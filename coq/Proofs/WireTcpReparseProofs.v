(* Repr::parse of arbitrary octets yields a well-formed TCP representation (property C06: re-parse). *)
From SV Require Import Lib.Base Gen.WireFields Gen.Consts Model.WireBase Model.WireTcp.
From SV Require Import Proofs.WireBaseProofs Proofs.WireBaseProofs2 Proofs.WireTcpProofs Proofs.WireTcpEmitProofs
  Proofs.WireTcpParseProofs.

(* ---------- big-endian reads of octets are in range ---------- *)
Lemma be_fold_range s : forall a, 0 <= a -> bytes_ok s = true ->
  0 <= fold_left (fun a b => a * 256 + b) s a < (a + 1) * 256 ^ blen s.
Proof.
  induction s as [|x t IH]; intros a Ha Hb.
  - cbn [fold_left]. rewrite blen_nil. change (256 ^ 0) with 1. lia.
  - rewrite bytes_ok_cons in Hb. bsplit. cbn [fold_left]. rewrite blen_cons.
    pose proof (blen_nonneg t) as Ht. rewrite Z.pow_add_r by lia. change (256 ^ 1) with 256.
    specialize (IH (a * 256 + x) ltac:(lia) H0).
    assert (0 < 256 ^ blen t) by (apply Z.pow_pos_nonneg; lia).
    split; [lia|]. apply Z.lt_le_trans with (1 := proj2 IH). nia.
Qed.

Lemma wb_get_be_range l lo hi n v : bytes_ok l = true -> 0 <= n -> wb_get_be l lo hi n = Ok v ->
  0 <= v < 256 ^ n.
Proof.
  intros Hb Hn H. unfold wb_get_be in H. obind_inv H.
  match goal with Y : wb_sub l _ _ = Ok ?s |- _ => pose proof (wb_sub_bytes _ _ _ _ Hb Y) as Hs end.
  revert H. case_if; [|discriminate]. intros H. injection H as <-. bsplit.
  pose proof (be_fold_range (firstn (Z.to_nat n) v0) 0 ltac:(lia) (bytes_ok_firstn _ _ Hs)) as R.
  rewrite blen_firstn in R by lia. unfold be_dec. lia.
Qed.

(* ---------- what a successfully parsed option guarantees ---------- *)
Definition tcp_opt_need (o : tcp_option) : Z :=
  match o with
  | OptMss _ => 4 | OptWs _ => 3 | OptSackPerm => 2 | OptTs _ _ => 10
  | OptSackRange r0 r1 r2 => tcp_sack_count r0 r1 r2 * 8 + 2
  | _ => 0
  end.

Definition tcp_opt_ok (o : tcp_option) : Prop :=
  match o with
  | OptMss v => 0 <= v < 65536
  | OptWs v => 0 <= v < 256
  | OptTs a c => 0 <= a < 4294967296 /\ 0 <= c < 4294967296
  | OptSackRange r0 r1 r2 =>
      is_u32_pair r0 = true /\ is_u32_pair r1 = true /\ is_u32_pair r2 = true /\
      r0 <> None /\ (r1 = None -> r2 = None)
  | _ => True
  end.

Lemma tcp_sack_slot_inv data i p : bytes_ok data = true -> tcp_sack_slot data i = Ok p ->
  is_u32_pair p = true /\ (i * 8 < blen data -> p <> None) /\ (blen data <= i * 8 -> p = None).
Proof.
  intros Hb. unfold tcp_sack_slot. cbv zeta. case_if; intros H; bsplit.
  - obind_inv H. injection H as <-.
    repeat match goal with Y : wb_get_be data _ _ 4 = Ok _ |- _ =>
      apply (wb_get_be_range data _ _ 4 _ Hb ltac:(lia)) in Y; change (256 ^ 4) with 4294967296 in Y end.
    split; [|split; [discriminate | lia]]. cbn [is_u32_pair]. unfold is_u32. zbool. reflexivity.
  - injection H as <-. split; [reflexivity|]. split; [lia | reflexivity].
Qed.

Lemma tcp_option_parse_spec2 buf rest o : bytes_ok buf = true -> tcp_option_parse buf = Ok (rest, o) ->
  tcp_opt_ok o /\ tcp_opt_need o + blen rest <= blen buf.
Proof.
  intros Hb. unfold tcp_option_parse. destruct buf as [|kind tl]; [discriminate|].
  set (buf := kind :: tl) in *.
  assert (Hl1 : 1 <= blen buf) by (unfold buf; rewrite blen_cons; pose proof (blen_nonneg tl); lia).
  case_if.
  { intros H. obind_inv H. injection H as <- <-. apply wb_from_inv in E. cbn [tcp_opt_ok tcp_opt_need]. split; [exact I | lia]. }
  case_if.
  { intros H. obind_inv H. injection H as <- <-. apply wb_from_inv in E. cbn [tcp_opt_ok tcp_opt_need]. split; [exact I | lia]. }
  destruct (nth_error buf 1) as [len|] eqn:En; [|discriminate].
  destruct (wb_sub_opt buf 2 len) as [data|] eqn:Ed; [|discriminate].
  pose proof Ed as Ed'. apply wb_sub_opt_inv in Ed'. destruct Ed' as (Ed1 & Ed2 & Ed3 & Ed4).
  assert (Hdb : bytes_ok data = true) by (rewrite Ed3; apply bytes_ok_firstn, bytes_ok_skipn, Hb).
  intros H. apply obind_ok in H. destruct H as (opt & Hopt & H). obind_inv H. injection H as <- <-.
  apply wb_from_inv in E. destruct E as (_ & _ & Er).
  revert Hopt. repeat case_if; intros Hopt; try discriminate; bsplit.
  - (* MSS *) obind_inv Hopt. injection Hopt as <-. apply (wb_get_be_range data _ _ 2 _ Hdb ltac:(lia)) in E.
    change (256 ^ 2) with 65536 in E. cbn [tcp_opt_ok tcp_opt_need]. split; [assumption | lia].
  - (* WS *) obind_inv Hopt. injection Hopt as <-.
    destruct (wb_get_u8_byte data 0 ltac:(lia) Hdb) as (w & Hw & Rw). rewrite Hw in E. injection E as <-.
    cbn [tcp_opt_ok tcp_opt_need]. split; [assumption | lia].
  - (* SACK permitted *) injection Hopt as <-. cbn [tcp_opt_ok tcp_opt_need]. split; [exact I | lia].
  - (* SACK ranges *) bsplit. obind_inv Hopt. injection Hopt as <-.
    match goal with
    | X0 : tcp_sack_slot data 0 = Ok ?p0, X1 : tcp_sack_slot data 1 = Ok ?p1, X2 : tcp_sack_slot data 2 = Ok ?p2 |- _ =>
        destruct (tcp_sack_slot_inv _ _ _ Hdb X0) as (U0 & S0 & N0);
        destruct (tcp_sack_slot_inv _ _ _ Hdb X1) as (U1 & S1 & N1);
        destruct (tcp_sack_slot_inv _ _ _ Hdb X2) as (U2 & S2 & N2)
    end.
    cbn [tcp_opt_ok tcp_opt_need]. unfold tcp_sack_count.
    repeat split; try assumption.
    + apply S0. lia.
    + intros ->. destruct (Z_lt_le_dec (2 * 8) (blen data)); [|auto].
      exfalso. apply S1; [lia | reflexivity].
    + match goal with |- ((if ?a then _ else _) + (if ?b then _ else _) + (if ?c then _ else _)) * 8 + _ + _ <= _ =>
        destruct a, b, c end; zfold; try lia.
      all: try (destruct (Z_lt_le_dec (2 * 8) (blen data)) as [g|g]; [lia | specialize (N2 g); discriminate]).
      all: try (destruct (Z_lt_le_dec (1 * 8) (blen data)) as [g|g]; [lia | specialize (N1 g); discriminate]).
      all: try (exfalso; apply S0; [lia | reflexivity]).
  - (* timestamp *) obind_inv Hopt. injection Hopt as <-.
    repeat match goal with Y : wb_get_be data _ _ 4 = Ok _ |- _ =>
      apply (wb_get_be_range data _ _ 4 _ Hdb ltac:(lia)) in Y; change (256 ^ 4) with 4294967296 in Y end.
    cbn [tcp_opt_ok tcp_opt_need]. split; [split; assumption | lia].
  - (* unknown *) injection Hopt as <-. cbn [tcp_opt_ok tcp_opt_need]. split; [exact I | lia].
Qed.

(* ---------- invariant of the option walk of Repr::parse ---------- *)
Definition tcp_os_need (a : tcp_optsum) : Z :=
  (if os_mss a then 4 else 0) + (if os_ws a then 3 else 0) + (if os_sack_permitted a then 2 else 0) +
  (if os_ts a then 10 else 0) +
  (let srl := (if os_sack0 a then 8 else 0) + (if os_sack1 a then 8 else 0) + (if os_sack2 a then 8 else 0) in
   if srl >? 0 then srl + 2 else 0).

Definition tcp_os_ok (a : tcp_optsum) : Prop :=
  match os_mss a with Some v => 0 <= v < 65536 | None => True end /\
  match os_ws a with Some v => 0 <= v <= 14 | None => True end /\
  is_u32_pair (os_sack0 a) = true /\ is_u32_pair (os_sack1 a) = true /\ is_u32_pair (os_sack2 a) = true /\
  is_u32_pair (os_ts a) = true /\
  (os_sack0 a = None -> os_sack1 a = None /\ os_sack2 a = None) /\ (os_sack1 a = None -> os_sack2 a = None).

Lemma tcp_optsum_step_inv acc o acc' c : tcp_os_ok acc -> tcp_opt_ok o ->
  tcp_optsum_step true acc o = (acc', c) ->
  tcp_os_ok acc' /\ tcp_os_need acc' <= tcp_os_need acc + tcp_opt_need o.
Proof.
  intros (A1 & A2 & A3 & A4 & A5 & A6 & A7 & A8) Ho H.
  destruct acc as [m w sp s0 s1 s2 ts]. unfold tcp_os_ok, tcp_os_need in *.
  cbn [os_mss os_ws os_sack_permitted os_sack0 os_sack1 os_sack2 os_ts] in *.
  destruct o as [| |v|v| |r0 r1 r2|a c0|k d]; cbn [tcp_optsum_step tcp_opt_ok tcp_opt_need] in *;
    injection H as <- <-; cbn [os_mss os_ws os_sack_permitted os_sack0 os_sack1 os_sack2 os_ts].
  - repeat split; try assumption; try tauto; lia.
  - repeat split; try assumption; try tauto; lia.
  - repeat split; try assumption; try tauto. destruct m; lia.
  - cbn [andb]. repeat split; try assumption; try tauto; [case_if; bsplit; lia | case_if; bsplit; lia |].
    destruct w; lia.
  - repeat split; try assumption; try tauto. destruct sp; lia.
  - destruct Ho as (U0 & U1 & U2 & P0 & P1). repeat split; try assumption; try tauto.
    unfold tcp_sack_count. cbv zeta.
    destruct m, w, sp, ts, s0, s1, s2, r0, r1, r2; zfold; lia.
  - destruct Ho. repeat split; try assumption; try tauto.
    + cbn [is_u32_pair]. unfold is_u32. zbool. reflexivity.
    + destruct ts; lia.
  - repeat split; try assumption; try tauto; lia.
Qed.

Lemma tcp_walk_inv f : forall opts acc res, bytes_ok opts = true -> tcp_os_ok acc ->
  tcp_walk (tcp_optsum_step true) f opts acc = Ok res ->
  tcp_os_ok res /\ tcp_os_need res <= tcp_os_need acc + blen opts.
Proof.
  induction f as [|f IH]; intros opts acc res Hb Ha H.
  - destruct opts; [|discriminate]. injection H as <-. split; [assumption | rewrite blen_nil; lia].
  - destruct opts as [|x tl]; [injection H as <-; split; [assumption | rewrite blen_nil; lia]|].
    cbn [tcp_walk] in H. apply obind_ok in H. destruct H as ([rest o] & Hp & H). cbn [fst snd] in H.
    destruct (tcp_option_parse_spec (x :: tl) Hb) as (_ & Hsp). destruct (Hsp rest o Hp) as (_ & Hbr).
    destruct (tcp_option_parse_spec2 (x :: tl) rest o Hb Hp) as (Hok & Hneed).
    destruct (tcp_optsum_step true acc o) as [acc' c] eqn:Es.
    destruct (tcp_optsum_step_inv acc o acc' c Ha Hok Es) as (Ha' & Hn').
    pose proof (blen_nonneg rest).
    assert (0 <= tcp_opt_need o).
    { destruct o; cbn [tcp_opt_need]; try lia. unfold tcp_sack_count. destruct r0, r1, r2; zfold; lia. }
    destruct c.
    + destruct (IH rest acc' res Hbr Ha' H) as (R1 & R2). split; [assumption | lia].
    + injection H as <-. split; [assumption | lia].
Qed.

(* ---------- Repr::parse yields a well-formed representation ---------- *)
Section Reparse.
Variable sum_ok : list Z -> bool.
Variable sum_fill : list Z -> Z.

Lemma tcp_parse_wf rx bs r : bytes_ok bs = true -> tcp_parse sum_ok rx bs = Ok r ->
  tcp_sack_ok r = true -> tcp_wf r = true.
Proof.
  intros Hb H Hsack. unfold tcp_parse in H.
  apply obind_ok in H. destruct H as ([] & Hcl & H).
  destruct (tcp_check_len_inv bs Hb Hcl) as (hl & Hhl & R1 & R2).
  assert (Hmod : hl mod 4 = 0).
  { destruct (WireTcpProofs.tcp_flags_word bs ltac:(lia) Hb) as (raw & Hraw & Rraw). unfold tcp_header_len_ in Hhl.
    rewrite Hraw in Hhl. cbn [obind] in Hhl. injection Hhl as <-.
    rewrite Z.shiftr_div_pow2 by lia. change (2 ^ 12) with 4096. assert (0 <= raw / 4096 < 16) by lia.
    rewrite (Z.mod_small (raw / 4096 * 4)) by lia. rewrite Z.mul_comm, Z.mul_comm. apply Z.mod_mul. lia. }
  apply obind_ok in H. destruct H as (sp & Hsp & H).
  apply obind_ok in H. destruct H as ([] & Gsp & H).
  apply obind_ok in H. destruct H as (dp & Hdp & H).
  apply obind_ok in H. destruct H as ([] & Gdp & H).
  apply obind_ok in H. destruct H as ([] & _ & H).
  apply obind_ok in H. destruct H as (syn & _ & H). apply obind_ok in H. destruct H as (fin & _ & H).
  apply obind_ok in H. destruct H as (rst & _ & H). apply obind_ok in H. destruct H as (psh & _ & H).
  apply obind_ok in H. destruct H as (ctl & Hctl & H).
  apply obind_ok in H. destruct H as (a & _ & H).
  apply obind_ok in H. destruct H as (ak & Hak & H).
  apply obind_ok in H. destruct H as (opts & Hopts & H).
  apply obind_ok in H. destruct H as (os & Hwalk & H).
  apply obind_ok in H. destruct H as (sq & Hsq & H).
  apply obind_ok in H. destruct H as (win & Hwin & H).
  apply obind_ok in H. destruct H as (pl & Hpl & H). injection H as <-.
  unfold tcp_src_port, tcp_dst_port, tcp_window_len, tcp_seq_number, tcp_ack_number, wb_get_u16, wb_get_u32 in *.
  apply (wb_get_be_range bs _ _ 2 _ Hb ltac:(lia)) in Hsp, Hdp, Hwin. change (256 ^ 2) with 65536 in *.
  apply (wb_get_be_range bs _ _ 4 _ Hb ltac:(lia)) in Hsq. change (256 ^ 4) with 4294967296 in *.
  assert (Hak' : match ak with Some n => 0 <= n < 4294967296 | None => True end).
  { destruct a; [|injection Hak as <-; exact I]. obind_inv Hak. injection Hak as <-.
    apply (wb_get_be_range bs _ _ 4 _ Hb ltac:(lia)) in E. exact E. }
  assert (Hc : 0 <= ctl <= 4).
  { unfold tcp_CTL_NONE, tcp_CTL_PSH, tcp_CTL_SYN, tcp_CTL_FIN, tcp_CTL_RST in Hctl.
    destruct syn, fin, rst, psh; try discriminate; injection Hctl as <-; lia. }
  assert (Hsp0 : sp <> 0) by (destruct (sp =? 0) eqn:X; [cbn in Gsp; discriminate | apply Z.eqb_neq in X; exact X]).
  assert (Hdp0 : dp <> 0) by (destruct (dp =? 0) eqn:X; [cbn in Gdp; discriminate | apply Z.eqb_neq in X; exact X]).
  assert (Hplb : bytes_ok pl = true).
  { unfold tcp_payload_ in Hpl. obind_inv Hpl. eapply wb_from_bytes; eassumption. }
  (* the options *)
  unfold tcp_options in Hopts. rewrite Hhl in Hopts. cbn [obind] in Hopts. zfold_in Hopts.
  pose proof (wb_sub_bytes _ _ _ _ Hb Hopts) as Hob. apply wb_sub_inv in Hopts. destruct Hopts as (_ & _ & _ & Hol).
  assert (Hd : tcp_os_ok tcp_optsum_default) by (unfold tcp_os_ok; cbn; tauto).
  destruct (tcp_walk_inv _ _ _ _ Hob Hd Hwalk) as ((O1 & O2 & O3 & O4 & O5 & O6 & O7 & O8) & Hneed).
  change (tcp_os_need tcp_optsum_default) with 0 in Hneed.
  (* header length *)
  set (r := mkTcp _ _ _ _ _ _ _ _ _ _ _ _ _ _) in *.
  assert (Hhlr : tcp_repr_header_len r <= 60).
  { pose proof (tcp_repr_header_len_eq r) as E. cbv zeta in E. rewrite E. clear E.
    unfold tcp_os_need in Hneed. unfold tcp_srl, r. cbn [tcp_mss tcp_wscale tcp_sack_permitted tcp_ts tcp_sack0 tcp_sack1 tcp_sack2].
    cbv zeta in Hneed.
    match goal with |- (if ?L mod 4 =? 0 then _ else _) <= 60 => set (LL := L) end.
    assert (LL <= hl) by (unfold LL; lia).
    case_if; bsplit; lia. }
  assert (Hpre : tcp_sack_prefix r = true).
  { unfold tcp_sack_prefix, r. cbn [tcp_sack0 tcp_sack1 tcp_sack2].
    destruct (os_sack0 os), (os_sack1 os), (os_sack2 os); try reflexivity;
      try (destruct (O7 eq_refl); discriminate); try (specialize (O8 eq_refl); discriminate). }
  apply Z.leb_le in Hhlr.
  unfold tcp_wf. rewrite Hsack, Hpre, Hhlr. unfold r. clear Hsack Hpre Hhlr r.
  cbn [tcp_sport tcp_dport tcp_control tcp_seq tcp_ack tcp_window tcp_wscale tcp_mss tcp_sack0 tcp_sack1 tcp_sack2
       tcp_ts tcp_payload].
  rewrite O3, O4, O5, O6, Hplb. unfold is_u16, is_u32.
  destruct ak as [n|], (os_ws os) as [w|], (os_mss os) as [m|]; unfold is_u16, is_u32; zbool; reflexivity.
Qed.

Lemma tcp_reparse tx rx bs r : tcp_cksum_link sum_ok sum_fill -> bytes_ok bs = true ->
  (rx = true -> tx = true) -> tcp_parse sum_ok rx bs = Ok r -> tcp_sack_ok r = true ->
  tcp_wf r = true /\
  forall b, blen b = tcp_buffer_len r ->
    exists bs', tcp_emit sum_fill tx r b = Ok bs' /\ tcp_parse sum_ok rx bs' = Ok r.
Proof.
  intros Hl Hb Hmode H Hs. pose proof (tcp_parse_wf _ _ _ Hb H Hs) as Hwf. split; [assumption|].
  intros b Hbl. destruct (tcp_roundtrip sum_ok sum_fill tx rx r b Hl Hwf Hmode Hbl) as (bs' & E1 & _ & E2).
  exists bs'. split; assumption.
Qed.

End Reparse.
