(* C02 (liveness half), layer 10: THE HANDSHAKE COMPLETES (server side), for every fair schedule from
   net_init: after the client is ESTABLISHED (Proofs/TcpProgressHsLive.v) it owes the ACK of the
   SYN|ACK with no delayed-ACK timer running - poll_at = Now, the clock stands until the client is
   polled or answers a duplicate SYN|ACK; what it transmits first is numbered ISS(A)+1 = RCV.NXT(B)
   and acknowledges ISS(B)+1, so when it is delivered (within Dt) the server - whose advertised
   window is open - becomes ESTABLISHED.
   handshake_completes: both sockets are ESTABLISHED (and the regime invariant of
   Proofs/TcpProgressSafe.v holds) before the client's clock has advanced by more than 3 Dt. *)
From SV Require Import Lib.Base Gen.Consts.
From SV Require Import Model.Seq32 Model.Assembler Model.TcpBuf Model.TcpTypes Model.Tcp Model.TcpNet.
From SV Require Import Proofs.TcpSendBase Proofs.TcpLiveBase Proofs.TcpLiveProofs Proofs.TcpLiveMore
  Proofs.TcpLiveProgress.
From SV Require Import Proofs.TcpNetBase.
From SV Require Proofs.TcpNetInv Proofs.TcpRecvBase.
From SV Require Import Proofs.TcpProgressBase Proofs.TcpProgressFrame Proofs.TcpProgressCtl Proofs.TcpProgressRecv
  Proofs.TcpProgressSend Proofs.TcpProgressNet Proofs.TcpProgressData Proofs.TcpProgressAck
  Proofs.TcpProgressAll Proofs.TcpProgressSafe Proofs.TcpProgressHs Proofs.TcpProgressHsD Proofs.TcpProgressHs2
  Proofs.TcpProgressHsNet Proofs.TcpProgressHsInit Proofs.TcpProgressHsLive.

(* no delayed-ACK timer is running *)
Definition ndw (s : socket) : Prop :=
  match s_ack_delay_timer s with ADWaiting _ => False | _ => True end.

Lemma ndw_expired s now : ndw s -> tcp_delayed_ack_expired s now = true.
Proof. unfold ndw, tcp_delayed_ack_expired. destruct (s_ack_delay_timer s); [reflexivity | contradiction | reflexivity]. Qed.

(* an owed ACK with no delayed-ACK timer: the socket wants to be polled now *)
Lemma owed_poll_now cx s :
  s_tuple s <> None -> tcp_ack_to_transmit s = true -> ndw s ->
  match tcp_poll_at cx s with Ok (PTime _) | Ok PIngress => False | _ => True end.
Proof.
  intros Htu Ho Hn. pose proof (poll_at_owed cx s Htu Ho) as H.
  destruct (tcp_poll_at cx s) as [[|t|]|e|]; try exact I; try exact H.
  destruct H as (t0 & Ht & _). unfold ndw in Hn. rewrite Ht in Hn. exact Hn.
Qed.

Section Live2.
Variables isn Dack Dt Da : Z.

Notation sa st := (net_sock st SA).
Notation sb st := (net_sock st SB).
Notation X := (seq_add isn 1).

(* A has transmitted nothing but SYNs, B nothing but SYN|ACKs *)
Definition fresh (st : net) : Prop :=
  s_local_seq_no (sa st) = X /\ s_remote_last_seq (sa st) = X /\ tcp_send_next_seq (sa st) = X /\
  (forall p, In p (chan_to st SB) -> r_control (snd p) = CSyn) /\
  (forall q, In q (chan_to st SA) -> r_control (snd q) = CSyn).

Definition owed (st : net) : Prop := tcp_ack_to_transmit (sa st) = true.

(* the state in which A has just become ESTABLISHED *)
Definition entry (st : net) : Prop :=
  s_state (sa st) = Established /\ s_state (sb st) = SynReceived /\ ndw (sa st) /\ fresh st /\ owed st.

Lemma seq_lt_succ a : 0 <= a < 4294967296 -> seq_lt a (seq_add a 1) = true.
Proof.
  intros Ha. rewrite seq_add_raw. rewrite (u32_sq_self a) at 1 by (unfold u32; change (2 ^ 32) with 4294967296; exact Ha).
  rewrite seq_lt_sq by (change (2 ^ 31) with 2147483648; lia). reflexivity.
Qed.

(* A in SYN-SENT receives a SYN|ACK: the state in which the last leg starts *)
Lemma A_entry st q e' :
  NI st -> opts_ok st -> hs_view isn st -> pre_hs isn Dack st -> s_state (sa st) = SynSent -> ndw (sa st) ->
  In q (chan_to st SA) ->
  ep_step (n_a st) (EvSegment (fst q) (wire_parse (snd q))) = Ok e' ->
  entry (net_set st SA e').
Proof.
  intros HN Ho HV HP Hst Hnd Hin He.
  destruct (ep_step_spec _ _ _ He) as (s' & out & tags & Hs & Hk & Hcx & Hout & _).
  destruct (ph_tup _ _ _ HP) as (tA & T1 & T2 & T3 & T4 & T5 & T6 & T7 & T8).
  pose proof (NI_live st SB HN) as Ib.
  destruct (ph_toA _ _ _ HP q Hin) as (Hsb & Hem & Hpl & [(Hc & Ha & Hsq) | (_ & _ & X0)]).
  2:{ rewrite Hst in X0. discriminate. }
  destruct (hv_asyn _ _ HV Hst) as (Hlsn & Hrx0). destruct (hv_asyn2 _ _ HV Hst) as (_ & Hmsx).
  unfold net_sock in *. cbn [net_get] in *.
  cbn [tcp_step] in Hs. apply obind_ok in Hs. destruct Hs as (((s1 & rep) & tg) & Hi & Hs).
  assert (E1 : s1 = s' /\ out = OReply rep) by (inversion Hs; auto). destruct E1 as (-> & ->). clear Hs.
  destruct (accepts_of_sent_to_gen _ tA (fst q) (wire_parse (snd q)) ltac:(rewrite Hst; discriminate)
              ltac:(rewrite Hst; discriminate) T1 T4 (sent_to_parse _ _ (T8 q Hin))) as (A1 & A2 & A3).
  unfold iface_tcp_ingress in Hi. rewrite A1, A2, A3 in Hi.
  assert (Hack : r_ack_number (wire_parse (snd q)) = Some (seq_add (s_local_seq_no (ep_sock (n_a st))) 1)).
  { unfold wire_parse. cbn [r_ack_number]. rewrite Ha, Hlsn, seq_norm_seq_add. reflexivity. }
  assert (Hc' : r_control (wire_parse (snd q)) = CSyn) by (unfold wire_parse; cbn [r_control]; exact Hc).
  destruct (process_synsent_synack _ _ (fst q) (wire_parse (snd q)) _ _ _ Hst Hc' Hack Hi)
    as (P1 & P2 & P3 & P4 & P5 & P6 & P7 & -> & P9 & P10 & P11).
  cbn [wire_out opt_list] in Hout. rewrite app_nil_r in Hout.
  pose proof (li_una _ Ib) as Hu. unfold u32 in Hu. change (2 ^ 32) with 4294967296 in Hu.
  assert (Hsqn : r_seq_number (wire_parse (snd q)) = s_local_seq_no (ep_sock (n_b st))).
  { unfold wire_parse. cbn [r_seq_number]. rewrite Hsq. apply TcpRecvBase.seq_norm_small. exact Hu. }
  assert (Hws' : tcp_window_start s' = seq_add (s_local_seq_no (ep_sock (n_b st))) 1).
  { unfold tcp_window_start. rewrite P5, P6, Hrx0, Hsqn.
    rewrite (TcpRecvBase.seq_add_as_norm (s_local_seq_no (ep_sock (n_b st))) 1), TcpRecvBase.seq_add_norm. f_equal. lia. }
  unfold entry, fresh, owed, ndw, net_sock, chan_to. cbn [net_set net_get side_other n_a n_b].
  rewrite Hk, Hout.
  split; [exact P1|]. split; [exact Hsb|]. split; [rewrite P11; exact Hnd|].
  split.
  { rewrite Hlsn in P4, P10.
    split; [exact P4|]. split; [exact P10|].
    split.
    { unfold tcp_send_next_seq. rewrite P9, P10. destruct (rt_max_seq_sent (s_rtte (ep_sock (n_a st)))) as [m|]; [|reflexivity].
      rewrite Hmsx. unfold seq_gt. rewrite seq_sdiff_refl. reflexivity. }
    split.
    - intros p Hp. destruct (ph_toB _ _ _ HP p Hp) as [(B1 & _) | (_ & X0 & _)]; [exact B1|].
      unfold net_sock in X0. cbn [net_get] in X0. rewrite Hst in X0. discriminate.
    - intros q0 Hq0. destruct (ph_toA _ _ _ HP q0 Hq0) as (_ & _ & _ & [(B1 & _) | (_ & _ & X0)]); [exact B1|].
      unfold net_sock in X0. cbn [net_get] in X0. rewrite Hst in X0. discriminate. }
  unfold tcp_ack_to_transmit. rewrite P7, Hws', Hsqn. apply seq_lt_succ. exact Hu.
Qed.

(* while A is in SYN-SENT no delayed-ACK timer is started; the step that leaves SYN-SENT ends in [entry] *)
Lemma ndw_A_step fa st ev st' :
  HSR isn Dack st -> HSR isn Dack st' -> s_state (sa st) = SynSent -> ndw (sa st) ->
  fair_ev fa st ev -> net_step st ev = Ok st' ->
  (s_state (sa st') = SynSent /\ ndw (sa st')) \/ entry st'.
Proof.
  intros HR HR' Hsa Hnd Hfe H.
  destruct HR as ([HP | HG] & HV & HN & Ho); [|exfalso; exact (reg_not_synsent _ _ HG Hsa)].
  destruct (ph_tup _ _ _ HP) as (tA & T1 & T2 & _).
  destruct (net_step_kind _ _ _ H) as [w ev0 e' Hse He -> | to i -> _ -> | d -> -> | w isn0 ts -> -> | to i Hd].
  - destruct w; [|left; split; [exact Hsa | exact Hnd]].
    destruct ev as [to i | to i | to i | d | z i1 t1 | z ok | z data | z n | z]; cbn [sock_event] in Hse; try contradiction.
    + destruct Hse as (_ & q & Hn & ->). right.
      exact (A_entry st q e' HN Ho HV HP Hsa Hnd (nth_error_In _ _ Hn) He).
    + destruct Hse as (_ & ->). left.
      destruct (disp_eff isn st SA ok e' tA HN Ho HV (or_introl Hsa) T1 T2 He) as (D1 & _).
      destruct (ep_step_spec _ _ _ He) as (s' & out & tags & Hs & Hk & _).
      cbn [tcp_step] in Hs. apply obind_ok in Hs. destruct Hs as (((s1 & res) & tg) & Hd & Hs).
      assert (E1 : s1 = s') by (inversion Hs; reflexivity). subst s1.
      destruct (dispatch_aux _ _ _ _ _ _ Hd) as (_ & Hdl).
      unfold net_sock, ndw in *. cbn [net_set net_get n_a] in *. rewrite D1. split; [exact Hsa|].
      rewrite Hk. destruct Hdl as [-> | ->]; [exact Hnd | exact I].
    + destruct Hse as (_ & ->). left.
      destruct (quiet_eff st SA (EvSend data) e' ltac:(left; eexists; reflexivity) He) as ((Q1 & _ & _ & _ & _ & _ & _ & _ & Q9) & _).
      unfold net_sock, ndw in *. cbn [net_set net_get n_a] in *. rewrite Q1, Q9. split; assumption.
    + destruct Hse as (_ & ->). left.
      destruct (quiet_eff st SA (EvRecv (Z.max 0 n)) e' ltac:(right; eexists; reflexivity) He) as ((Q1 & _ & _ & _ & _ & _ & _ & _ & Q9) & _).
      unfold net_sock, ndw in *. cbn [net_set net_get n_a] in *. rewrite Q1, Q9. split; assumption.
    + destruct Hse as (_ & ->). exfalso.
      destruct (ep_step_spec _ _ _ He) as (s' & out & tags & Hs & Hk & _).
      cbn [tcp_step] in Hs. assert (E : s' = tcp_close (ep_sock (n_a st))) by (inversion Hs; reflexivity).
      destruct (hsr_phase _ _ _ HR') as ([X0 | X0] & _); unfold net_sock in X0; cbn [net_set net_get n_a] in X0;
        rewrite Hk, E in X0; unfold tcp_close in X0; unfold net_sock in Hsa; cbn [net_get] in Hsa; rewrite Hsa in X0;
        unfold tcp_set_state in X0; revert X0; sproj; discriminate.
  - left. split; assumption.
  - left. split; assumption.
  - left. unfold net_sock in *.
    destruct (side_cases w SA) as [E | E]; [subst w; rewrite net_get_set_same; cbn [ep_set_cx ep_sock] | rewrite E, net_get_set_other, <- E];
      split; assumption.
  - destruct Hd as [-> | ->]; destruct Hfe.
Qed.

(* ---------------------------------------------------------------------------------------- *)
(* the last leg: A is ESTABLISHED and owes the ACK of the SYN|ACK                              *)
(* ---------------------------------------------------------------------------------------- *)
(* what B is waiting for: a segment without SYN numbered ISS(A)+1 *)
Definition goodp (p : packet) : Prop :=
  (r_control (snd p) = CNone \/ r_control (snd p) = CPsh) /\ r_seq_number (snd p) = X.

Lemma X_norm : seq_norm X = X.
Proof. apply seq_norm_seq_add. Qed.

(* A (fresh, owing the ACK) receives a duplicate SYN|ACK *)
Lemma A_p4_segment st q e' :
  NI st -> opts_ok st -> hs_view isn st -> pre_hs isn Dack st ->
  s_state (sa st) = Established -> ndw (sa st) -> fresh st -> owed st ->
  In q (chan_to st SA) ->
  ep_step (n_a st) (EvSegment (fst q) (wire_parse (snd q))) = Ok e' ->
  s_state (ep_sock e') = Established /\
  ((ep_out e' = ep_out (n_a st) /\ ndw (ep_sock e') /\ owed (net_set st SA e') /\ fresh (net_set st SA e')) \/
   (exists q0, ep_out e' = ep_out (n_a st) ++ [q0] /\ goodp q0)).
Proof.
  intros HN Ho HV HP Hst Hnd (F1 & F2 & F3 & F4 & F5) Hod Hin He.
  destruct (ep_step_spec _ _ _ He) as (s' & out & tags & Hs & Hk & _ & Hout & _).
  destruct (ph_tup _ _ _ HP) as (tA & T1 & T2 & T3 & T4 & T5 & T6 & T7 & T8).
  pose proof (NI_live st SA HN) as Il. pose proof (hv_tx _ _ HV SA) as Htx.
  pose proof (F5 q Hin) as Hc.
  destruct (ph_toA _ _ _ HP q Hin) as (_ & _ & Hpl & [(_ & Ha & _) | (X0 & _)]); [|rewrite Hc in X0; discriminate].
  unfold net_sock in *. cbn [net_get] in *.
  cbn [tcp_step] in Hs. apply obind_ok in Hs. destruct Hs as (((s1 & rep) & tg) & Hi & Hs).
  assert (E1 : s1 = s' /\ out = OReply rep) by (inversion Hs; auto). destruct E1 as (-> & ->). clear Hs.
  destruct (accepts_of_sent_to _ tA (fst q) (wire_parse (snd q)) Hst T1 T4 (sent_to_parse _ _ (T8 q Hin))) as (A1 & A2 & A3).
  unfold iface_tcp_ingress in Hi. rewrite A1, A2, A3 in Hi.
  assert (Hc' : r_control (wire_parse (snd q)) = CSyn) by (unfold wire_parse; cbn [r_control]; exact Hc).
  assert (Hp' : r_payload (wire_parse (snd q)) = []) by (unfold wire_parse; cbn [r_payload]; exact Hpl).
  assert (Ha' : r_ack_number (wire_parse (snd q)) = Some (s_local_seq_no (ep_sock (n_a st)))).
  { unfold wire_parse. cbn [r_ack_number]. rewrite Ha, F1, X_norm. reflexivity. }
  assert (Nf : r_control (wire_parse (snd q)) <> CFin) by (rewrite Hc'; discriminate).
  assert (Nr : r_control (wire_parse (snd q)) <> CRst) by (rewrite Hc'; discriminate).
  destruct (process_est_ackeq _ _ _ _ _ _ _ Il Hst Nf Nr Hp' Ha' ltac:(change (2 ^ 30) with 1073741824 in Htx; change (2 ^ 31) with 2147483648; lia) Hi)
    as (P1 & P2 & P3 & P4 & P5 & P6).
  destruct (process_est_keeps _ _ _ _ _ _ _ Hst Nf Nr Hi) as (S1 & _).
  pose proof (process_empty_ws _ _ _ _ _ _ _ Hst Nf Nr Hp' Hi) as Hws.
  split; [rewrite Hk, S1; exact Hst|].
  destruct rep as [q0|].
  - right. exists q0. cbn [wire_out opt_list] in Hout. split; [exact Hout|].
    destruct P6 as (_ & (C1 & _ & C3 & _)). split; [left; exact C1|].
    rewrite C3. rewrite <- F3. apply send_next_fn; [exact P3 | rewrite (P2 (eq_trans F2 (eq_sym F1))), F2, F1; reflexivity].
  - left. cbn [wire_out opt_list] in Hout. rewrite app_nil_r in Hout. split; [exact Hout|].
    unfold ndw, owed, fresh, net_sock, chan_to. cbn [net_set net_get side_other n_a n_b]. rewrite Hk, Hout.
    split; [unfold ndw in Hnd; rewrite P4; exact Hnd|].
    split.
    { unfold owed, net_sock in Hod. cbn [net_get] in Hod. unfold tcp_ack_to_transmit in *. rewrite (P5 eq_refl), Hws. exact Hod. }
    split; [rewrite P1; exact F1|]. split; [rewrite (P2 (eq_trans F2 (eq_sym F1))), F1; reflexivity|].
    split; [|split; assumption].
    rewrite <- F3. apply send_next_fn; [exact P3 | rewrite (P2 (eq_trans F2 (eq_sym F1))), F2, F1; reflexivity].
Qed.

(* A (fresh, owing the ACK, no delayed-ACK timer) is polled: it transmits, numbered ISS(A)+1 *)
Lemma A_p4_dispatch st e' :
  NI st -> opts_ok st -> hs_view isn st -> pre_hs isn Dack st ->
  s_state (sa st) = Established -> ndw (sa st) -> fresh st -> owed st ->
  ep_step (n_a st) (EvDispatch true) = Ok e' ->
  s_state (ep_sock e') = Established /\ exists p, ep_out e' = ep_out (n_a st) ++ [p] /\ goodp p.
Proof.
  intros HN Ho HV HP Hst Hnd (F1 & F2 & F3 & F4 & F5) Hod He.
  destruct (ep_step_spec _ _ _ He) as (s' & out & tags & Hs & Hk & _ & Hout & _).
  destruct (ph_tup _ _ _ HP) as (tA & T1 & T2 & T3 & T4 & _).
  pose proof (NI_live st SA HN) as Il. destruct (Ho SA) as (Hto & Hka).
  destruct (hv_rx _ _ HV SA) as (W1 & W2).
  unfold net_sock, owed in *. cbn [net_get] in *.
  cbn [tcp_step] in Hs. apply obind_ok in Hs. destruct Hs as (((s1 & res) & tg) & Hd & Hs).
  assert (E1 : s1 = s' /\ out = ODispatch res) by (inversion Hs; auto). destruct E1 as (-> & ->). clear Hs.
  destruct (dispatch_una_tx _ _ _ _ _ _ _ Il Hst Hto T1 T2 Hd) as (_ & _ & Hst' & _).
  destruct (dispatch_established _ _ _ _ _ _ _ Hst T1 T2 Hd) as (_ & Hemit).
  destruct (Hemit Hod (ndw_expired _ _ Hnd) eq_refl) as (p & ->).
  destruct (dispatch_est_shape _ _ _ _ _ _ _ Hst Hst' T1 T2 Hka (ph_noka _ _ _ HP SA) Hd) as (_ & Hsh).
  destruct (Hsh p eq_refl) as (_ & _ & _ & _ & D5 & _).
  pose proof (dispatch_est_seq _ _ _ _ _ _ _ Il Hst Hto T1 T2 Hka (ph_noka _ _ _ HP SA)
                (eq_trans F2 (eq_sym F1)) (eq_trans F3 (eq_sym F1)) Hd p eq_refl) as Hsq.
  split; [rewrite Hk; exact Hst'|]. exists p. cbn [wire_out opt_list] in Hout. split; [exact Hout|].
  split; [exact D5 | rewrite Hsq; exact F1].
Qed.

(* send / recv at the fresh A *)
Lemma A_p4_quiet st ev0 e' :
  hs_view isn st ->
  s_state (sa st) = Established -> ndw (sa st) -> fresh st -> owed st ->
  ((exists d, ev0 = EvSend d) \/ (exists n, ev0 = EvRecv n /\ 0 <= n)) ->
  ep_step (n_a st) ev0 = Ok e' ->
  s_state (ep_sock e') = Established /\ ep_out e' = ep_out (n_a st) /\ ndw (ep_sock e') /\
  owed (net_set st SA e') /\ fresh (net_set st SA e').
Proof.
  intros HV Hst Hnd (F1 & F2 & F3 & F4 & F5) Hod Hev He.
  assert (Hev' : (exists d, ev0 = EvSend d) \/ (exists n, ev0 = EvRecv n))
    by (destruct Hev as [X0 | (n & X0 & _)]; [left; exact X0 | right; exists n; exact X0]).
  destruct (quiet_eff st SA ev0 e' Hev' He) as ((Q1 & _ & _ & Q4 & Q5 & Q6 & _ & Q8 & Q9) & Qo).
  destruct (ep_step_spec _ _ _ He) as (s' & out & tags & Hs & Hk & _).
  destruct (hv_rx _ _ HV SA) as (W1 & _).
  assert (Hws : tcp_window_start (ep_sock e') = tcp_window_start (ep_sock (n_a st))).
  { unfold net_sock in *. cbn [net_get] in *. rewrite Hk.
    destruct Hev as [(d & ->) | (n & -> & Hn)]; cbn [tcp_step] in Hs.
    - destruct (tcp_send_slice (ep_sock (n_a st)) d) as [(s1, k)|e|] eqn:E; [| |discriminate].
      + assert (E1 : s1 = s') by (inversion Hs; reflexivity). subst s1. exact (send_slice_ws _ _ _ _ E).
      + assert (E1 : s' = ep_sock (n_a st)) by (inversion Hs; reflexivity). rewrite E1. reflexivity.
    - destruct (tcp_recv_slice (ep_sock (n_a st)) n) as [(s1, b)|e|] eqn:E; [| |discriminate].
      + assert (E1 : s1 = s') by (inversion Hs; reflexivity). subst s1. exact (recv_slice_ws _ _ _ _ W1 Hn E).
      + assert (E1 : s' = ep_sock (n_a st)) by (inversion Hs; reflexivity). rewrite E1. reflexivity. }
  unfold ndw, owed, fresh, net_sock, chan_to in *. cbn [net_set net_get side_other n_a n_b] in *.
  split; [rewrite Q1; exact Hst|]. split; [exact Qo|]. split; [rewrite Q9; exact Hnd|].
  split; [unfold tcp_ack_to_transmit in *; rewrite Q5, Hws; exact Hod|].
  rewrite Qo. split; [rewrite Q4; exact F1|]. split; [rewrite Q8; exact F2|].
  split; [|split; assumption].
  rewrite <- F3. apply send_next_fn; [rewrite Q6; reflexivity | exact Q8].
Qed.

(* B (SYN-RECEIVED, window open) receives the segment it is waiting for: ESTABLISHED *)
Lemma B_p5_delivery st p e' :
  hs_view isn st -> pre_hs isn Dack st ->
  s_state (sa st) = Established -> s_state (sb st) = SynReceived -> adv_open (sb st) ->
  In p (chan_to st SB) -> goodp p ->
  ep_step (n_b st) (EvSegment (fst p) (wire_parse (snd p))) = Ok e' ->
  s_state (ep_sock e') = Established.
Proof.
  intros HV HP Hsa Hsb (W & HW & Hwe) Hin (Hc & Hsq) He.
  destruct (ep_step_spec _ _ _ He) as (s' & out & tags & Hs & Hk & _).
  destruct (ph_tup _ _ _ HP) as (tA & T1 & T2 & T3 & T4 & T5 & T6 & T7 & T8).
  pose proof (T6 Hsb) as Htb.
  destruct (ph_toB _ _ _ HP p Hin) as [(X0 & _) | (_ & _ & Ha)].
  { destruct Hc as [X1 | X1]; rewrite X1 in X0; discriminate. }
  destruct (ph_ws _ _ _ HP Hsa) as (Hws & _).
  destruct (hv_bsyn _ _ HV Hsb) as (Hwsb & _).
  assert (Hlen : 0 <= l_len (r_payload (snd p)) <= 65535).
  { apply (hv_wf _ _ HV). apply (hv_sub _ _ HV SA). exact Hin. }
  destruct (accepts_of_sent_to_gen _ (mirror tA) (fst p) (wire_parse (snd p)) ltac:(rewrite Hsb; discriminate)
              ltac:(rewrite Hsb; discriminate) Htb (mirror_nz _ T4) (sent_to_parse _ _ (T7 p Hin))) as (A1 & A2 & A3).
  unfold net_sock in *. cbn [net_get] in *.
  cbn [tcp_step] in Hs. apply obind_ok in Hs. destruct Hs as (((s1 & rep) & tg) & Hi & Hs).
  assert (E1 : s1 = s') by (inversion Hs; reflexivity). subst s1. clear Hs.
  unfold iface_tcp_ingress in Hi. rewrite A1, A2, A3 in Hi.
  assert (Hc' : r_control (wire_parse (snd p)) = CNone \/ r_control (wire_parse (snd p)) = CPsh)
    by (unfold wire_parse; cbn [r_control]; exact Hc).
  assert (Hack : r_ack_number (wire_parse (snd p)) = Some (seq_add (s_local_seq_no (ep_sock (n_b st))) 1)).
  { unfold wire_parse. cbn [r_ack_number]. rewrite Ha, Hws, seq_norm_seq_add. reflexivity. }
  assert (Hsq' : r_seq_number (wire_parse (snd p)) = tcp_window_start (ep_sock (n_b st))).
  { unfold wire_parse. cbn [r_seq_number]. rewrite Hsq, X_norm, Hwsb. reflexivity. }
  assert (Hlen' : 0 <= l_len (r_payload (wire_parse (snd p))) <= p30)
    by (unfold wire_parse; cbn [r_payload]; unfold p30, TcpRecvWindow.p30; lia).
  rewrite Hk.
  exact (process_synrecv_inwindow _ _ _ _ _ _ _ W Hsb Hc' Hack Hsq' Hwe ltac:(lia) Hlen' (or_introl (proj1 HW)) Hi).
Qed.

(* ---------------------------------------------------------------------------------------- *)
(* the phases of the last leg                                                                *)
(* ---------------------------------------------------------------------------------------- *)
(* run hypothesis: the safety facts, and the window B advertises in SYN-RECEIVED is open (the same
   regime premise as [win_open] of the data phase) *)
Definition R2 (st : net) : Prop :=
  HSR isn Dack st /\
  (s_state (sb st) = SynReceived -> s_remote_last_ack (sb st) <> None -> adv_open (sb st)).

Definition trk (fa : fair_aux) (st : net) (T : Z) : Prop :=
  exists i p t, nth_error (chan_to st SB) i = Some p /\ nth_error (fa_dl fa SB) i = Some (Some t) /\
                net_now st SB <= t /\ t <= T /\ goodp p.

Definition Jg (T3 dk : Z) (fa : fair_aux) (st : net) : Prop :=
  dl_sync Da fa st /\ net_now st SB - net_now st SA = dk /\
  s_state (sa st) = Established /\ s_state (sb st) = SynReceived /\
  ( (ndw (sa st) /\ fresh st /\ owed st /\ net_now st SA <= T3) \/ trk fa st (T3 + dk + Dt) ).

Definition Qg (fa : fair_aux) (st : net) : Prop := reg SA Dack st.

Lemma Jg_clock T3 dk fa st : 0 <= Dt -> Jg T3 dk fa st -> net_now st SA <= T3 + Dt.
Proof.
  intros HDt (_ & Hdk & _ & _ & [(_ & _ & _ & H) | (i & p & t & _ & _ & H1 & H2 & _)]); lia.
Qed.

(* the tracked segment stays tracked unless it is delivered *)
Lemma trk_keep fa st ev st' T :
  fair_ev fa st ev -> net_step st ev = Ok st' ->
  (forall i p t, nth_error (chan_to st SB) i = Some p -> nth_error (fa_dl fa SB) i = Some (Some t) -> goodp p ->
                 ev <> NDeliver SB i) ->
  trk fa st T -> trk (fa_after Dt Da fa ev st') st' T.
Proof.
  intros Hfe H Hne (i & p & t & Hn & Hdl & Hnow & HT & Hg).
  exists i, p, t. split; [exact (fair_step_nth fa st ev st' SB i p Hfe H Hn)|].
  split.
  { apply fa_after_dl_keep; [exact Hdl|]. intros to E Eto. subst ev to. exact (Hne i p t Hn Hdl Hg eq_refl). }
  split; [|split; assumption].
  rewrite (net_step_now _ _ _ SB H). destruct ev; try lia.
  exact (tick_respects_dl fa st d SB i t Hfe Hdl Hnow).
Qed.

Lemma trk_new fa st ev st' p T :
  dl_sync Da fa st -> chan_to st' SB = chan_to st SB ++ [p] -> net_now st' SB + Dt <= T -> 0 <= Dt -> goodp p ->
  trk (fa_after Dt Da fa ev st') st' T.
Proof.
  intros Hsy Hch HT HDt Hg. exists (length (chan_to st SB)), p, (net_now st' SB + Dt).
  split; [rewrite Hch, nth_error_app2 by lia; rewrite Nat.sub_diag; reflexivity|].
  split; [apply (fa_after_dl_new Dt Da fa st ev st' SB _ Hsy); rewrite Hch, app_length; cbn [length]; lia|].
  split; [lia|]. split; assumption.
Qed.

Lemma Jg_step T3 dk fa st ev st' :
  0 <= Dt -> R2 st -> R2 st' -> Jg T3 dk fa st -> fair_ev fa st ev -> net_step st ev = Ok st' ->
  Qg (fa_after Dt Da fa ev st') st' \/ Jg T3 dk (fa_after Dt Da fa ev st') st'.
Proof.
  intros HDt (HR & Hwin) (HR' & _) (Hsy & Hdk & Hsa & Hsb & HPh) Hfe H.
  pose proof HR as ([HP | HG] & HV & HN & Ho).
  2:{ exfalso. rewrite (rg_est _ _ _ HG SB) in Hsb. discriminate. }
  destruct HR' as ([HP' | HG'] & _); [|left; exact HG'].
  right.
  pose proof (fa_after_sync Dt Da _ _ _ _ Hsy Hfe H) as Hsy'.
  pose proof (net_step_skew _ _ _ H) as Hdk'. rewrite Hdk in Hdk'.
  destruct (ph_tup _ _ _ HP) as (tA & T1 & T2 & T3' & T4 & T5 & T6 & T7 & T8).
  (* once A is known to be still ESTABLISHED, B is still in SYN-RECEIVED *)
  assert (Hfin : s_state (sa st') = Established -> s_state (sb st') = SynReceived).
  { intros E. destruct (ph_phase _ _ _ HP') as [(X0 & _) | (_ & X0)]; [rewrite E in X0; discriminate | exact X0]. }
  assert (Hnotrk : forall i p t, nth_error (chan_to st SB) i = Some p -> nth_error (fa_dl fa SB) i = Some (Some t) ->
                                 goodp p -> forall j, j <> i -> NDeliver SB j <> NDeliver SB i).
  { intros i p t _ _ _ j Hj E. inversion E. congruence. }
  destruct (net_step_kind _ _ _ H) as [w ev0 e' Hse He -> | to i -> Hnone -> | d -> -> | w isn0 ts -> -> | to i Hd].
  - (* a socket event *)
    assert (Hnow : forall z, net_now (net_set st w e') z = net_now st z).
    { intros z. rewrite (net_step_now _ _ _ z H). destruct ev; try lia. destruct Hse. }
    destruct w.
    + (* at A *)
      assert (Hb' : net_get (net_set st SA e') SB = net_get st SB) by reflexivity.
      assert (Hcha : chan_to (net_set st SA e') SA = chan_to st SA) by reflexivity.
      assert (HP5 : s_state (ep_sock e') = Established -> trk fa st (T3 + dk + Dt) ->
                    (forall i p t, nth_error (chan_to st SB) i = Some p -> nth_error (fa_dl fa SB) i = Some (Some t) ->
                                   goodp p -> ev <> NDeliver SB i) ->
                    Jg T3 dk (fa_after Dt Da fa ev (net_set st SA e')) (net_set st SA e')).
      { intros E B1 Hne. split; [exact Hsy'|]. split; [exact Hdk'|].
        assert (E' : s_state (sa (net_set st SA e')) = Established) by exact E.
        split; [exact E'|]. split; [exact (Hfin E')|]. right. exact (trk_keep fa st ev _ _ Hfe H Hne B1). }
      destruct ev as [to i | to i | to i | d | z i1 t1 | z ok | z data | z n | z]; cbn [sock_event] in Hse; try contradiction.
      * (* a segment arrives at A *)
        destruct Hse as (-> & q & Hn & ->). pose proof (nth_error_In _ _ Hn) as Hin.
        destruct HPh as [(B1 & B2 & B3 & B4) | B1].
        -- destruct (A_p4_segment st q e' HN Ho HV HP Hsa B1 B2 B3 Hin He) as (E & [(Ko & K1 & K2 & K3) | (q0 & Ko & Kg)]).
           ++ split; [exact Hsy'|]. split; [exact Hdk'|].
              assert (E' : s_state (sa (net_set st SA e')) = Established) by exact E.
              split; [exact E'|]. split; [exact (Hfin E')|]. left.
              split; [exact K1|]. split; [exact K3|]. split; [exact K2|]. rewrite Hnow. exact B4.
           ++ split; [exact Hsy'|]. split; [exact Hdk'|].
              assert (E' : s_state (sa (net_set st SA e')) = Established) by exact E.
              split; [exact E'|]. split; [exact (Hfin E')|]. right.
              apply (trk_new fa st _ _ q0); [exact Hsy | unfold chan_to; cbn [side_other net_set net_get n_a]; exact Ko | | exact HDt | exact Kg].
              rewrite Hnow. lia.
        -- destruct (hs_A_est isn Dack st (NDeliver SA i) _ e' HN Ho HV HP Hsa I
                       (conj eq_refl (ex_intro _ q (conj Hn eq_refl))) He) as (_ & E).
           apply HP5; [exact E | exact B1|]. intros; discriminate.
      * (* poll *)
        destruct Hse as (-> & ->). pose proof Hfe as Hok. cbn [fair_ev] in Hok. subst ok.
        destruct HPh as [(B1 & B2 & B3 & B4) | B1].
        -- destruct (A_p4_dispatch st e' HN Ho HV HP Hsa B1 B2 B3 He) as (E & p & Ko & Kg).
           split; [exact Hsy'|]. split; [exact Hdk'|].
           assert (E' : s_state (sa (net_set st SA e')) = Established) by exact E.
           split; [exact E'|]. split; [exact (Hfin E')|]. right.
           apply (trk_new fa st _ _ p); [exact Hsy | unfold chan_to; cbn [side_other net_set net_get n_a]; exact Ko | | exact HDt | exact Kg].
           rewrite Hnow. lia.
        -- destruct (hs_A_est isn Dack st (NPoll SA true) _ e' HN Ho HV HP Hsa I (conj eq_refl eq_refl) He) as (_ & E).
           apply HP5; [exact E | exact B1|]. intros; discriminate.
      * (* send *)
        destruct Hse as (-> & ->).
        destruct HPh as [(B1 & B2 & B3 & B4) | B1].
        -- destruct (A_p4_quiet st (EvSend data) e' HV Hsa B1 B2 B3 ltac:(left; eexists; reflexivity) He) as (E & Ko & K1 & K2 & K3).
           split; [exact Hsy'|]. split; [exact Hdk'|].
           assert (E' : s_state (sa (net_set st SA e')) = Established) by exact E.
           split; [exact E'|]. split; [exact (Hfin E')|]. left.
           split; [exact K1|]. split; [exact K3|]. split; [exact K2|]. rewrite Hnow. exact B4.
        -- destruct (hs_A_est isn Dack st (NSend SA data) _ e' HN Ho HV HP Hsa eq_refl (conj eq_refl eq_refl) He) as (_ & E).
           apply HP5; [exact E | exact B1|]. intros; discriminate.
      * (* recv *)
        destruct Hse as (-> & ->).
        destruct HPh as [(B1 & B2 & B3 & B4) | B1].
        -- destruct (A_p4_quiet st (EvRecv (Z.max 0 n)) e' HV Hsa B1 B2 B3
                       ltac:(right; exists (Z.max 0 n); split; [reflexivity | lia]) He) as (E & Ko & K1 & K2 & K3).
           split; [exact Hsy'|]. split; [exact Hdk'|].
           assert (E' : s_state (sa (net_set st SA e')) = Established) by exact E.
           split; [exact E'|]. split; [exact (Hfin E')|]. left.
           split; [exact K1|]. split; [exact K3|]. split; [exact K2|]. rewrite Hnow. exact B4.
        -- destruct (hs_A_est isn Dack st (NRecv SA n) _ e' HN Ho HV HP Hsa I (conj eq_refl eq_refl) He) as (_ & E).
           apply HP5; [exact E | exact B1|]. intros; discriminate.
      * (* close: not an event of such a run *)
        destruct Hse as (-> & ->). exfalso.
        destruct (ep_step_spec _ _ _ He) as (s' & out & tags & Hs & Hk & _).
        cbn [tcp_step] in Hs. assert (E : s' = tcp_close (ep_sock (n_a st))) by (inversion Hs; reflexivity).
        destruct (ph_phase _ _ _ HP') as [(X0 & _) | (X0 & _)]; unfold net_sock in X0; cbn [net_set net_get n_a] in X0;
          rewrite Hk, E in X0; unfold tcp_close in X0; unfold net_sock in Hsa; cbn [net_get] in Hsa; rewrite Hsa in X0;
          unfold tcp_set_state in X0; revert X0; sproj; discriminate.
    + (* at B *)
      assert (Hsa' : s_state (sa (net_set st SB e')) = Established) by exact Hsa.
      pose proof (Hfin Hsa') as Hsb'.
      assert (Hkeep4 : ep_out e' = ep_out (n_b st) \/
                       (exists q1, ep_out e' = ep_out (n_b st) ++ [q1] /\ r_control (snd q1) = CSyn) ->
                       ndw (sa st) /\ fresh st /\ owed st /\ net_now st SA <= T3 ->
                       Jg T3 dk (fa_after Dt Da fa ev (net_set st SB e')) (net_set st SB e')).
      { intros Hout (B1 & (F1 & F2 & F3 & F4 & F5) & B3 & B4).
        split; [exact Hsy'|]. split; [exact Hdk'|]. split; [exact Hsa'|]. split; [exact Hsb'|]. left.
        split; [exact B1|]. split; [|split; [exact B3 | rewrite Hnow; exact B4]].
        split; [exact F1|]. split; [exact F2|]. split; [exact F3|]. split; [exact F4|].
        intros q Hq. unfold chan_to in Hq. cbn [side_other net_set net_get n_b] in Hq.
        destruct Hout as [Ko | (q1 & Ko & Kc)]; rewrite Ko in Hq.
        - exact (F5 q Hq).
        - apply in_app_or in Hq. destruct Hq as [Hq | [<- | []]]; [exact (F5 q Hq) | exact Kc]. }
      destruct ev as [to i | to i | to i | d | z i1 t1 | z ok | z data | z n | z]; cbn [sock_event] in Hse; try contradiction.
      * (* a segment arrives at B *)
        destruct Hse as (-> & p & Hn & ->). pose proof (nth_error_In _ _ Hn) as Hin.
        destruct HPh as [B4 | B1].
        -- (* only SYNs are in flight: dropped *)
           destruct B4 as (B1 & B2 & B3 & B4). pose proof B2 as (_ & _ & _ & F4 & _). pose proof (F4 p Hin) as Hc.
           apply Hkeep4; [|auto]. left.
           destruct (ep_step_spec _ _ _ He) as (s' & out & tags & Hs & Hk & _ & Hout & _).
           pose proof (T6 Hsb) as Htb.
           destruct (ph_toB _ _ _ HP p Hin) as [(_ & Ha) | ([X0 | X0] & _)]; try (rewrite Hc in X0; discriminate).
           destruct (accepts_of_sent_to_gen _ (mirror tA) (fst p) (wire_parse (snd p)) ltac:(rewrite Hsb; discriminate)
                       ltac:(rewrite Hsb; discriminate) Htb (mirror_nz _ T4) (sent_to_parse _ _ (T7 p Hin))) as (A1 & A2 & A3).
           unfold net_sock in *. cbn [net_get] in *.
           cbn [tcp_step] in Hs. apply obind_ok in Hs. destruct Hs as (((s1 & rep) & tg) & Hi & Hs).
           assert (E1 : s1 = s' /\ out = OReply rep) by (inversion Hs; auto). destruct E1 as (-> & ->).
           unfold iface_tcp_ingress in Hi. rewrite A1, A2, A3 in Hi.
           assert (N1 : s_state (ep_sock (n_b st)) <> Listen) by (rewrite Hsb; discriminate).
           assert (N2 : s_state (ep_sock (n_b st)) <> SynSent) by (rewrite Hsb; discriminate).
           assert (Hc' : r_control (wire_parse (snd p)) = CSyn) by (unfold wire_parse; cbn [r_control]; exact Hc).
           assert (Ha' : r_ack_number (wire_parse (snd p)) = None) by (unfold wire_parse; cbn [r_ack_number]; rewrite Ha; reflexivity).
           destruct (process_syn_dropped _ _ (fst p) (wire_parse (snd p)) _ _ _ N1 N2 Hc' Ha' Hi) as (_ & ->).
           cbn [wire_out opt_list] in Hout. rewrite app_nil_r in Hout. exact Hout.
        -- (* the tracked segment, or another one *)
           split; [exact Hsy'|]. split; [exact Hdk'|]. split; [exact Hsa'|]. split; [exact Hsb'|]. right.
           apply (trk_keep fa st _ _ _ Hfe H); [|exact B1].
           intros i0 p0 t0 Hn0 _ Hg0 E. inversion E; subst i0.
           rewrite Hn in Hn0. inversion Hn0; subst p0.
           pose proof (B_p5_delivery st p e' HV HP Hsa Hsb
                         (Hwin Hsb (proj1 (proj2 (ph_ws _ _ _ HP Hsa)))) Hin Hg0 He) as X0.
           unfold net_sock in Hsb'. cbn [net_set net_get n_b] in Hsb'. rewrite X0 in Hsb'. discriminate.
      * (* poll *)
        destruct Hse as (-> & ->). pose proof Hfe as Hok. cbn [fair_ev] in Hok. subst ok.
        destruct HPh as [B4 | B1].
        -- apply Hkeep4; [|exact B4].
           destruct (ep_step_spec _ _ _ He) as (s' & out & tags & Hs & Hk & _ & Hout & _).
           pose proof (T6 Hsb) as Htb. destruct (Ho SB) as (Hto & _). pose proof (NI_live st SB HN) as Il.
           assert (Hla : tu_local_addr (mirror tA) = cx_addr (ep_cx (net_get st SB))) by (unfold mirror; cbn; exact T3').
           unfold net_sock in *. cbn [net_get] in *.
           cbn [tcp_step] in Hs. apply obind_ok in Hs. destruct Hs as (((s1 & res) & tg) & Hd & Hs).
           assert (E1 : out = ODispatch res) by (inversion Hs; reflexivity). subst out.
           destruct (dispatch_syn _ _ _ _ _ _ _ Il (or_intror Hsb) Hto Htb Hla Hd) as (_ & _ & Hsh).
           cbn [wire_out] in Hout. destruct res as [| q1 | q1]; cbn [opt_list] in Hout.
           ++ left. rewrite app_nil_r in Hout. exact Hout.
           ++ right. exists q1. split; [exact Hout|]. destruct (Hsh q1 eq_refl) as (_ & _ & _ & _ & X0 & _). exact X0.
           ++ left. rewrite app_nil_r in Hout. exact Hout.
        -- split; [exact Hsy'|]. split; [exact Hdk'|]. split; [exact Hsa'|]. split; [exact Hsb'|]. right.
           apply (trk_keep fa st _ _ _ Hfe H); [|exact B1]. intros; discriminate.
      * (* send at B *)
        destruct Hse as (-> & ->).
        destruct (quiet_eff st SB (EvSend data) e' ltac:(left; eexists; reflexivity) He) as (_ & Qo).
        destruct HPh as [B4 | B1].
        -- apply Hkeep4; [left; exact Qo | exact B4].
        -- split; [exact Hsy'|]. split; [exact Hdk'|]. split; [exact Hsa'|]. split; [exact Hsb'|]. right.
           apply (trk_keep fa st _ _ _ Hfe H); [|exact B1]. intros; discriminate.
      * (* recv at B *)
        destruct Hse as (-> & ->).
        destruct (quiet_eff st SB (EvRecv (Z.max 0 n)) e' ltac:(right; eexists; reflexivity) He) as (_ & Qo).
        destruct HPh as [B4 | B1].
        -- apply Hkeep4; [left; exact Qo | exact B4].
        -- split; [exact Hsy'|]. split; [exact Hdk'|]. split; [exact Hsa'|]. split; [exact Hsb'|]. right.
           apply (trk_keep fa st _ _ _ Hfe H); [|exact B1]. intros; discriminate.
      * (* close at B: not an event of such a run *)
        destruct Hse as (-> & ->). exfalso.
        destruct (ep_step_spec _ _ _ He) as (s' & out & tags & Hs & Hk & _).
        cbn [tcp_step] in Hs. assert (E : s' = tcp_close (ep_sock (n_b st))) by (inversion Hs; reflexivity).
        unfold net_sock in Hsb', Hsb. cbn [net_set net_get n_b] in Hsb', Hsb. rewrite Hk, E in Hsb'.
        unfold tcp_close in Hsb'. rewrite Hsb in Hsb'. unfold tcp_set_state in Hsb'. revert Hsb'. sproj. discriminate.
  - (* a delivery of nothing *)
    split; [exact Hsy'|]. split; [exact Hdk'|]. split; [exact Hsa|]. split; [exact Hsb|].
    destruct HPh as [B4 | B1]; [left; exact B4 | right].
    apply (trk_keep fa st _ _ _ Hfe H); [|exact B1].
    intros i0 p0 t0 Hn0 _ _ E. inversion E; subst. congruence.
  - (* the clock *)
    split; [exact Hsy'|]. split; [exact Hdk'|].
    assert (Es : forall z, net_sock (tick_net st d) z = net_sock st z) by (intros z; destruct z; reflexivity).
    assert (Ec : forall z, chan_to (tick_net st d) z = chan_to st z) by (intros z; destruct z; reflexivity).
    rewrite !Es. split; [exact Hsa|]. split; [exact Hsb|].
    destruct HPh as [(B1 & B2 & B3 & B4) | B1].
    + left. unfold fresh, owed. rewrite !Es, !Ec. split; [exact B1|]. split; [exact B2|]. split; [exact B3|].
      assert (Hz : Z.max 0 d = 0).
      { destruct Hfe as (Hd0 & Hperm). destruct (Z.eq_dec d 0) as [-> | Hnz]; [reflexivity|]. exfalso.
        destruct (Hperm ltac:(lia) SA) as (Hpp & _). unfold poll_permits, net_poll_at in Hpp.
        pose proof (owed_poll_now (ep_cx (net_get st SA)) (sa st) ltac:(rewrite T1; discriminate) B3 B1) as Hx.
        unfold net_sock in Hx. destruct (tcp_poll_at (ep_cx (net_get st SA)) (ep_sock (net_get st SA))) as [[|t|]|e|]; try contradiction. }
      assert (Hn : net_now (tick_net st d) SA = net_now st SA + Z.max 0 d) by reflexivity.
      rewrite Hn, Hz. lia.
    + right. apply (trk_keep fa st _ _ _ Hfe H); [|exact B1]. intros; discriminate.
  - (* the random number generator *)
    split; [exact Hsy'|]. split; [exact Hdk'|].
    assert (Es : forall z, net_sock (net_set st w (ep_set_cx (net_get st w) (cx_rand (ep_cx (net_get st w)) isn0 ts))) z = net_sock st z).
    { intros z. unfold net_sock. destruct (side_cases w z) as [-> | ->]; [rewrite net_get_set_same | rewrite net_get_set_other]; reflexivity. }
    assert (Ec : forall z, chan_to (net_set st w (ep_set_cx (net_get st w) (cx_rand (ep_cx (net_get st w)) isn0 ts))) z = chan_to st z).
    { intros z. unfold chan_to. destruct (side_cases w (side_other z)) as [E | E]; rewrite E;
        [rewrite net_get_set_same | rewrite net_get_set_other]; reflexivity. }
    assert (Hn : forall z, net_now (net_set st w (ep_set_cx (net_get st w) (cx_rand (ep_cx (net_get st w)) isn0 ts))) z = net_now st z).
    { intros z. rewrite (net_step_now _ _ _ z H). lia. }
    rewrite !Es. split; [exact Hsa|]. split; [exact Hsb|].
    destruct HPh as [(B1 & B2 & B3 & B4) | B1].
    + left. unfold fresh, owed. rewrite !Es, !Ec, Hn. auto.
    + right. apply (trk_keep fa st _ _ _ Hfe H); [|exact B1]. intros; discriminate.
  - destruct Hd as [-> | ->]; destruct Hfe.
Qed.

End Live2.

(* ---------------------------------------------------------------------------------------- *)
(* THE HANDSHAKE COMPLETES                                                                   *)
(* ---------------------------------------------------------------------------------------- *)
Module NV2 := TcpNetInv.

Lemma run_all_and (P Q : net -> Prop) evs : forall st,
  run_all P st evs -> run_all Q st evs -> run_all (fun s => P s /\ Q s) st evs.
Proof.
  induction evs as [|ev r IH]; intros st HP HQ; cbn [run_all] in *.
  - destruct HP as (HP & _). destruct HQ as (HQ & _). auto.
  - destruct HP as (HP & HP1). destruct HQ as (HQ & HQ1). split; [auto|].
    destruct (net_step st ev); try exact I. apply IH; assumption.
Qed.

Lemma run_all_app (P : net -> Prop) pre : forall post st st1,
  net_run st pre = Ok st1 -> run_all P st (pre ++ post) -> run_all P st1 post.
Proof.
  induction pre as [|ev r IH]; intros post st st1 Hr H; cbn [net_run app] in *.
  - inversion Hr; subst. exact H.
  - apply obind_ok in Hr. destruct Hr as (st2 & Hs & Hr). cbn [run_all] in H. destruct H as (_ & H).
    rewrite Hs in H. exact (IH post st2 st1 Hr H).
Qed.

(* the window B has advertised (with its SYN|ACK) while in SYN-RECEIVED is open (part of the "no zero
   window" regime) *)
Definition syn_win_open (st : net) : Prop :=
  s_state (net_sock st SB) = SynReceived -> s_remote_last_ack (net_sock st SB) <> None ->
  adv_open (net_sock st SB).

Section Complete.
Variables Dt Da Dack : Z.
Variables ca cb : ep_config.
Variable st0 : net.
Hypothesis Hstart : start_ok Dack ca cb st0.

Let isn := cx_isn (ep_cx (n_a st0)).

(* first leg with "no delayed-ACK timer" carried along; its goal is the entry state of the last leg *)
Definition J1 (T0 dk : Z) (fa : fair_aux) (st : net) : Prop :=
  Jh Dt Da T0 dk fa st /\ ndw (net_sock st SA).
Definition Q1 (T0 dk : Z) (fa : fair_aux) (st : net) : Prop :=
  entry isn st /\ dl_sync Da fa st /\ net_now st SB - net_now st SA = dk /\ net_now st SA <= T0 + 2 * Dt.

Lemma J1_step T0 dk fa st ev st' :
  0 <= Dt -> R2 isn Dack st -> R2 isn Dack st' -> J1 T0 dk fa st -> fair_ev fa st ev -> net_step st ev = Ok st' ->
  Q1 T0 dk (fa_after Dt Da fa ev st') st' \/ J1 T0 dk (fa_after Dt Da fa ev st') st'.
Proof.
  intros HDt (HR & _) (HR' & _) (HJ & Hnd) Hfe H.
  pose proof HJ as (Hsy & Hdk & Hsa & _).
  destruct (ndw_A_step isn Dack fa st ev st' HR HR' Hsa Hnd Hfe H) as [(Hsa' & Hnd') | Hent].
  - right. destruct (Jh_step isn Dack Dt Da T0 dk fa st ev st' HDt HR HR' HJ Hfe H) as [HQ | HJ'].
    + unfold Qh in HQ. rewrite Hsa' in HQ. discriminate.
    + split; assumption.
  - left. split; [exact Hent|].
    split; [exact (fa_after_sync Dt Da _ _ _ _ Hsy Hfe H)|].
    split; [rewrite (net_step_skew _ _ _ H); exact Hdk|].
    pose proof (Jh_clock Dt Da T0 dk fa st HDt HJ) as Hc.
    rewrite (net_step_now _ _ _ SA H). destruct ev; try lia.
    (* a tick does not change A's state *)
    exfalso. pose proof (net_step_tick _ _ _ H) as E. subst st'.
    destruct Hent as (X0 & _). assert (Es : net_sock (tick_net st d) SA = net_sock st SA) by reflexivity.
    rewrite Es, Hsa in X0. discriminate.
Qed.

Lemma J1_clock T0 dk fa st : 0 <= Dt -> J1 T0 dk fa st -> net_now st SA <= T0 + 2 * Dt.
Proof. intros HDt (HJ & _). exact (Jh_clock Dt Da T0 dk fa st HDt HJ). Qed.

(* HANDSHAKE COMPLETES.  From net_init, on every fair schedule of the one-way workload along which the
   window B advertises in SYN-RECEIVED is open, both sockets are ESTABLISHED - and the regime invariant
   holds - before A's clock has advanced by more than 3 Dt; the rest of the run is again fair. *)
Theorem handshake_completes : forall evs st',
  fair_schedule Dt Da st0 evs -> Forall (app_ev SA) evs -> net_run st0 evs = Ok st' -> NV2.small st' ->
  run_all syn_win_open st0 evs ->
  net_now st0 SA + 3 * Dt < net_now st' SA ->
  exists pre post fa1 st1,
    evs = pre ++ post /\ net_run st0 pre = Ok st1 /\ net_run st1 post = Ok st' /\
    reg SA Dack st1 /\ reach st1 /\ opts_ok st1 /\
    dl_sync Da fa1 st1 /\ fair_run Dt Da fa1 st1 post /\
    net_now st1 SA <= net_now st0 SA + 3 * Dt.
Proof.
  intros evs st' (HDt & HDa & Ho & Hfair) Happ Hrun Hsm Hwin Hlate.
  pose proof Hstart as (Hi & Hst0 & Ga & Gb & Pa & Pb & Haddr & Hdel).
  destruct (hs_init ca cb st0 isn Dack Hi Hst0 Pa Pb Haddr Hdel) as (HP0 & Ho0).
  pose proof (hsr_run_all Dack ca cb st0 Hstart evs [] st0 st' eq_refl (or_introl HP0) Ho0 Happ Hrun Hsm) as HRall.
  pose proof (run_all_and _ _ evs st0 HRall Hwin) as HR2. change (run_all (R2 isn Dack) st0 evs) in HR2.
  set (dk := net_now st0 SB - net_now st0 SA). set (T0 := net_now st0 SA).
  assert (HJ0 : J1 T0 dk (fa_init Dt Da st0) st0).
  { unfold net_started in Hst0. apply andb_true_iff in Hst0. destruct Hst0 as (S1 & S2).
    apply state_eqb_eq in S1. apply state_eqb_eq in S2.
    split.
    - split; [apply fa_init_sync|]. split; [reflexivity|]. split; [exact S1|]. left.
      split; [exact S2|]. split; [|unfold T0; lia].
      destruct Pa as (_ & Ka). apply (init_needs_tx ca cb st0 Hi); [|exact Ka].
      unfold net_started. rewrite S1, S2. reflexivity.
    - destruct Pa as (_ & Ka). unfold ndw. rewrite (init_adt ca cb st0 Hi); [exact I | | exact Ka].
      unfold net_started. rewrite S1, S2. reflexivity. }
  destruct (Z_le_gt_dec (net_now st' SA) (T0 + 2 * Dt)) as [Hle | Hgt]; [unfold T0 in *; lia|].
  destruct (fair_leads_under_last Dt Da (R2 isn Dack) (J1 T0 dk) (Q1 T0 dk) SA (T0 + 2 * Dt)
              (fun fa st HJ => J1_clock _ _ fa st HDt HJ)
              (fun fa st ev st1 HR HR' HJ Hfe Hs => J1_step _ _ fa st ev st1 HDt HR HR' HJ Hfe Hs)
              evs _ st0 st' HJ0 HR2 Hfair Hrun ltac:(lia))
    as (pre1 & post1 & fa1 & st1 & E1 & Hp1 & Hp2 & HR2' & Hf1 & HQ1 & _).
  destruct HQ1 as ((Hea & Heb & Hnd & Hfr & Hod) & Hsy1 & Hdk1 & Hc1).
  assert (HJg : Jg isn Dt Da (T0 + 2 * Dt) dk fa1 st1).
  { split; [exact Hsy1|]. split; [exact Hdk1|]. split; [exact Hea|]. split; [exact Heb|]. left. auto. }
  destruct (fair_leads_under_last Dt Da (R2 isn Dack) (Jg isn Dt Da (T0 + 2 * Dt) dk) (Qg Dack) SA (T0 + 2 * Dt + Dt)
              (fun fa st HJ => Jg_clock isn Dt Da _ _ fa st HDt HJ)
              (fun fa st ev st2 HR HR' HJ Hfe Hs => Jg_step isn Dack Dt Da _ _ fa st ev st2 HDt HR HR' HJ Hfe Hs)
              post1 _ st1 st' HJg HR2' Hf1 Hp2 ltac:(unfold T0 in *; lia))
    as (pre2 & post2 & fa2 & st2 & E2 & Hq1 & Hq2 & HR2'' & Hf2 & HQ2 & (fa0 & stp & ev0 & HJp & HRp & Hfep & Hsp & Efa)).
  exists (pre1 ++ pre2), post2, fa2, st2.
  split; [rewrite E1, E2, app_assoc; reflexivity|].
  assert (Hrun2 : net_run st0 (pre1 ++ pre2) = Ok st2) by (eapply net_run_app; eassumption).
  split; [exact Hrun2|]. split; [exact Hq2|]. split; [exact HQ2|].
  split; [exists ca, cb, st0, (pre1 ++ pre2); auto|].
  pose proof (run_all_here _ _ _ HR2'') as ((_ & _ & _ & Ho2) & _).
  split; [exact Ho2|].
  split.
  { subst fa2. destruct HJp as (Hsyp & _). exact (fa_after_sync Dt Da _ _ _ _ Hsyp Hfep Hsp). }
  split; [exact Hf2|].
  (* the clock: the last step started in a Jg-state *)
  pose proof (Jg_clock isn Dt Da _ _ fa0 stp HDt HJp) as Hcp.
  rewrite (net_step_now _ _ _ SA Hsp). destruct ev0; try (unfold T0 in *; lia).
  (* a tick does not change B's state *)
  exfalso. pose proof (net_step_tick _ _ _ Hsp) as E. subst st2.
  destruct HJp as (_ & _ & _ & X0 & _). pose proof (rg_est _ _ _ HQ2 SB) as X1.
  assert (Es : net_sock (tick_net stp d) SB = net_sock stp SB) by reflexivity. rewrite Es, X0 in X1. discriminate.
Qed.

End Complete.

(* ---------------------------------------------------------------------------------------- *)
(* FROM net_init TO DELIVERY, on one fair schedule                                           *)
(* ---------------------------------------------------------------------------------------- *)
(* the regime premise that is not derived (see Proofs/TcpProgressZwp.v): no zero window - the window
   B advertises in SYN-RECEIVED is open, and once both are ESTABLISHED [win_open] holds *)
Definition open_regime (Dack : Z) (st : net) : Prop :=
  syn_win_open st /\ (reg SA Dack st -> win_open SA st).

Theorem oneway_transfer_from_net_init Dt Da Dack ca cb st0 : forall evs st',
  start_ok Dack ca cb st0 -> 0 <= Dack ->
  fair_schedule Dt Da st0 evs -> Forall (app_ev SA) evs -> net_run st0 evs = Ok st' ->
  (forall z, l_len (ep_written (net_get st' z)) < 2 ^ 30) ->
  run_all (open_regime Dack) st0 evs ->
  net_now st0 SA + 3 * Dt < net_now st' SA ->
  exists pre post st1,
    evs = pre ++ post /\ net_run st0 pre = Ok st1 /\ net_run st1 post = Ok st' /\
    (forall z, s_state (net_sock st1 z) = Established) /\ net_now st1 SA <= net_now st0 SA + 3 * Dt /\
    forall L0 n m,
      L0 <= l_len (ep_written (net_get st1 SA)) ->
      L0 - una_off (net_get st1 SA) <= Z.of_nat n ->
      L0 - read_off (net_get st1 SB) <= Z.of_nat m ->
      net_now st1 SA + Z.of_nat n * W3 Dt Dack + Z.of_nat m * Da < net_now st' SA ->
      exists p1 p2 st2, post = p1 ++ p2 /\ net_run st1 p1 = Ok st2 /\ net_run st2 p2 = Ok st' /\
                        L0 <= read_off (net_get st2 SB).
Proof.
  intros evs st' Hstart HDk Hfs Happ Hrun Hsz Hreg Hlate.
  assert (Hsm : NV2.small st').
  { split; [specialize (Hsz SA) | specialize (Hsz SB)]; cbn [net_get] in Hsz;
      change (2 ^ 30) with 1073741824 in Hsz; lia. }
  assert (Hsyn : run_all syn_win_open st0 evs).
  { apply (run_all_mp (open_regime Dack)); [exact Hreg|].
    clear. generalize st0. induction evs as [|ev r IH]; intros st; cbn [run_all].
    - split; [intros (X & _); exact X | exact I].
    - split; [intros (X & _); exact X|]. destruct (net_step st ev); [apply IH | exact I | exact I]. }
  destruct (handshake_completes Dt Da Dack ca cb st0 Hstart evs st' Hfs Happ Hrun Hsm Hsyn Hlate)
    as (pre & post & fa1 & st1 & E & Hp1 & Hp2 & HG & Hre & Ho1 & Hsy1 & Hf1 & Hc1).
  exists pre, post, st1. split; [exact E|]. split; [exact Hp1|]. split; [exact Hp2|].
  split; [exact (rg_est _ _ _ HG)|]. split; [exact Hc1|].
  intros L0 n m HL Hn Hm Hlate2.
  destruct Hfs as (HDt & HDa & _).
  assert (Happ2 : Forall (app_ev SA) post) by (rewrite E in Happ; apply Forall_app in Happ; apply Happ).
  assert (Hwo : run_all (win_open SA) st1 post).
  { rewrite E in Hreg. pose proof (run_all_app _ pre post st0 st1 Hp1 Hreg) as Hreg1.
    pose proof (reg_run_all SA Dack post st1 st' Hre (reach_NI _ Hre) Ho1 HG Happ2 Hp2 Hsm) as HGall.
    apply (run_all_mp (reg SA Dack)); [exact HGall|].
    apply (run_all_mp (open_regime Dack)); [exact Hreg1|].
    clear. generalize st1. induction post as [|ev r IH]; intros st; cbn [run_all].
    - split; [intros (_ & X); exact X | exact I].
    - split; [intros (_ & X); exact X|]. destruct (net_step st ev); [apply IH | exact I | exact I]. }
  exact (oneway_delivery_from_established_fa SA Dt Da Dack n m post fa1 st1 st' L0 Hre HG Ho1 HDt HDa HDk Hsy1 Hf1
           Happ2 Hp2 Hsz Hwo HL Hn Hm Hlate2).
Qed.
