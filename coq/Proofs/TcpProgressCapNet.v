(* C02 (liveness half): the window shift and the receive buffer along every run of the system model from net_init.
     capst st : in both sockets the shift is 0 or the value Socket::new computes from the capacity, both capacities are
                below 2^30 (so the shift is at most 14), and B's receive buffer has a positive capacity
   capst holds at net_init (a premise about the CONFIGURATION: the receive storages) and after every event.
   With it the premise zx_capw of Proofs/TcpProgressZw3.v is a theorem: an empty receive buffer of B advertises a
   non-zero window. *)
From SV Require Import Lib.Base Gen.Consts.
From SV Require Import Model.Seq32 Model.Assembler Model.TcpBuf Model.TcpTypes Model.Tcp Model.TcpNet.
From SV Require Import Proofs.TcpSendBase Proofs.TcpLiveBase Proofs.TcpLiveProofs Proofs.TcpNetBase.
From SV Require Import Proofs.TcpProgressBase Proofs.TcpProgressFrame Proofs.TcpProgressCap.

Lemma ep_step_capf e ev e' : ep_step e ev = Ok e' -> capf (ep_sock e') (ep_sock e).
Proof.
  intros H. destruct (ep_step_spec _ _ _ H) as (s' & out & tags & Hs & Hk & _). rewrite Hk.
  exact (step_capf _ _ _ _ _ _ Hs).
Qed.

(* the configuration premise *)
Definition cfg_rx (ca cb : ep_config) : Prop :=
  l_len (c_rx_storage ca) < 2 ^ 30 /\ 0 < l_len (c_rx_storage cb) < 2 ^ 30.

Definition capst (st : net) : Prop :=
  (forall z, capw (net_sock st z) /\ rb_cap (s_rx_buffer (net_sock st z)) < 2 ^ 30) /\
  0 < rb_cap (s_rx_buffer (net_sock st SB)).

Lemma capst_of (st st' : net) :
  (forall z, capf (net_sock st' z) (net_sock st z)) -> capst st -> capst st'.
Proof.
  intros Hf (H1 & H2). split.
  - intros z. destruct (H1 z) as (A & B). pose proof (Hf z) as F. split; [exact (capw_capf _ _ F A)|].
    destruct F as (C & _). rewrite C. exact B.
  - destruct (Hf SB) as (C & _). rewrite C. exact H2.
Qed.

Lemma capst_step st ev st' : net_step st ev = Ok st' -> capst st -> capst st'.
Proof.
  intros H. apply capst_of. intros z.
  destruct (net_step_kind _ _ _ H) as [w ev0 e' Hse He -> | to i -> _ -> | d -> -> | w isn0 ts -> -> | to i Hd].
  - unfold net_sock. destruct (side_cases w z) as [-> | ->].
    + rewrite net_get_set_same. exact (ep_step_capf _ _ _ He).
    + rewrite net_get_set_other. apply capf_refl.
  - apply capf_refl.
  - destruct z; apply capf_refl.
  - unfold net_sock. destruct (side_cases w z) as [-> | ->]; [rewrite net_get_set_same | rewrite net_get_set_other]; apply capf_refl.
  - unfold net_step in H. destruct Hd as [-> | ->]; inversion H; subst; destruct to; destruct z; apply capf_refl.
Qed.

Lemma capst_run : forall evs st st', net_run st evs = Ok st' -> capst st -> capst st'.
Proof.
  induction evs as [|ev r IH]; intros st st' Hr Hc; cbn [net_run] in Hr.
  - inversion Hr; subst. exact Hc.
  - apply obind_ok in Hr. destruct Hr as (st1 & Hs & Hr). exact (IH _ _ Hr (capst_step _ _ _ Hs Hc)).
Qed.

Lemma create_cap c e :
  ep_create c = Ok e -> capw (ep_sock e) /\ rb_cap (s_rx_buffer (ep_sock e)) = l_len (c_rx_storage c).
Proof.
  intros H. unfold ep_create in H.
  apply obind_ok in H. destruct H as (s0 & En & H).
  apply obind_ok in H. destruct H as (e1 & H1 & H).
  apply obind_ok in H. destruct H as (e2 & H2 & H).
  apply obind_ok in H. destruct H as (e3 & H3 & H).
  apply obind_ok in H. destruct H as (e4 & H4 & H5).
  destruct (capw_new _ _ _ _ _ En) as (W0 & C0).
  pose proof (ep_step_capf _ _ _ H1) as F1. pose proof (ep_step_capf _ _ _ H2) as F2.
  pose proof (ep_step_capf _ _ _ H3) as F3. pose proof (ep_step_capf _ _ _ H4) as F4.
  pose proof (ep_step_capf _ _ _ H5) as F5. cbn [ep_sock] in F1.
  pose proof (capf_trans _ _ _ F5 (capf_trans _ _ _ F4 (capf_trans _ _ _ F3 (capf_trans _ _ _ F2 F1)))) as F.
  split; [exact (capw_capf _ _ F W0)|]. destruct F as (C & _). rewrite C. exact C0.
Qed.

Lemma capst_init ca cb st0 : net_init ca cb = Ok st0 -> cfg_rx ca cb -> capst st0.
Proof.
  intros H (Ca & Cb1 & Cb2). unfold net_init in H.
  apply obind_ok in H. destruct H as (a0 & Ha0 & H).
  apply obind_ok in H. destruct H as (b0 & Hb0 & H).
  apply obind_ok in H. destruct H as (b1 & Hb1 & H).
  apply obind_ok in H. destruct H as (a1 & Ha1 & H). inversion H; subst st0; clear H.
  destruct (create_cap _ _ Ha0) as (WA & CA). destruct (create_cap _ _ Hb0) as (WB & CB).
  pose proof (ep_step_capf _ _ _ Ha1) as FA. pose proof (ep_step_capf _ _ _ Hb1) as FB.
  assert (EA : rb_cap (s_rx_buffer (ep_sock a1)) = l_len (c_rx_storage ca)) by (destruct FA as (C & _); congruence).
  assert (EB : rb_cap (s_rx_buffer (ep_sock b1)) = l_len (c_rx_storage cb)) by (destruct FB as (C & _); congruence).
  split.
  - intros z. destruct z; unfold net_sock; cbn [net_get n_a n_b].
    + split; [exact (capw_capf _ _ FA WA) | rewrite EA; exact Ca].
    + split; [exact (capw_capf _ _ FB WB) | rewrite EB; exact Cb2].
  - unfold net_sock. cbn [net_get n_b]. rewrite EB. exact Cb1.
Qed.

(* the shift is at most 14 *)
Lemma capst_shift st z : capst st -> s_remote_win_shift (net_sock st z) <= 14.
Proof.
  intros (H1 & _). destruct (H1 z) as ([E | E] & Hc); rewrite E; [lia|].
  unfold tcp_win_shift_for, sat_sub. destruct (_ <=? 0) eqn:E0; [lia|]. apply Z.leb_gt in E0.
  assert (Hl : Z.log2 (rb_cap (s_rx_buffer (net_sock st z))) < 30) by (apply Z.log2_lt_pow2; [lia | exact Hc]).
  lia.
Qed.

(* zx_capw: an empty receive buffer of B advertises a non-zero window *)
Theorem capst_window st :
  capst st -> rb_len (s_rx_buffer (net_sock st SB)) = 0 -> 0 < tcp_scaled_window (net_sock st SB).
Proof. intros (H1 & H2) Hl. destruct (H1 SB) as (W & _). exact (capw_window _ W H2 Hl). Qed.
