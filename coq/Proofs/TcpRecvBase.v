(* C04, layer 0: facts about Model/Seq32.v (transfer between 32-bit sequence numbers and unbounded
   offsets), the list helpers of Model/TcpBuf.v and the byte ring seen as a function from logical
   index to byte ([rb_cell]), including the unallocated area where out-of-order bytes are parked. *)
From SV Require Import Lib.Base Model.Seq32 Model.TcpBuf.

(* ---------------------------------------------------------------------------------------- *)
(* Seq32                                                                                     *)
(* ---------------------------------------------------------------------------------------- *)

Lemma seq_modulus_val : seq_modulus = 4294967296. Proof. reflexivity. Qed.
Lemma seq_half_val : seq_half = 2147483648. Proof. reflexivity. Qed.

Ltac seq_consts :=
  unfold seq_norm, seq_add, seq_subn, seq_sdiff, seq_lt, seq_le, seq_gt, seq_ge, seq_eqb in *;
  rewrite ?seq_modulus_val, ?seq_half_val in *.

Lemma seq_norm_range x : 0 <= seq_norm x < 4294967296.
Proof. seq_consts. lia. Qed.

Lemma seq_norm_idem x : seq_norm (seq_norm x) = seq_norm x.
Proof. unfold seq_norm. apply Z.mod_mod. rewrite seq_modulus_val. lia. Qed.

Lemma seq_add_norm x n : seq_add (seq_norm x) n = seq_norm (x + n).
Proof. unfold seq_add, seq_norm. rewrite Zplus_mod_idemp_l. reflexivity. Qed.

Lemma seq_add_as_norm a n : seq_add a n = seq_norm (a + n).
Proof. reflexivity. Qed.

Lemma seq_subn_norm x n : seq_subn (seq_norm x) n = seq_norm (x - n).
Proof. unfold seq_subn, seq_norm. rewrite Zminus_mod_idemp_l. reflexivity. Qed.

Lemma seq_norm_small x : 0 <= x < 4294967296 -> seq_norm x = x.
Proof. intros H. unfold seq_norm. rewrite seq_modulus_val. apply Z.mod_small. exact H. Qed.

(* the signed 32-bit value of an integer *)
Definition signed32 (d : Z) : Z := (d + 2147483648) mod 4294967296 - 2147483648.

Lemma signed32_range d : -2147483648 <= signed32 d < 2147483648.
Proof. unfold signed32. lia. Qed.

Lemma signed32_small d : -2147483648 <= d < 2147483648 -> signed32 d = d.
Proof. intros H. unfold signed32. rewrite Z.mod_small; lia. Qed.

Lemma seq_sdiff_signed x y : seq_sdiff (seq_norm x) (seq_norm y) = signed32 (x - y).
Proof.
  unfold seq_sdiff, seq_norm, signed32. rewrite seq_modulus_val, seq_half_val.
  rewrite <- Zminus_mod. cbv zeta.
  destruct (Z.ltb_spec ((x - y) mod 4294967296) 2147483648); lia.
Qed.

Lemma seq_sdiff_norm x y :
  -2147483648 <= x - y < 2147483648 -> seq_sdiff (seq_norm x) (seq_norm y) = x - y.
Proof. intros H. rewrite seq_sdiff_signed. apply signed32_small. exact H. Qed.

Lemma seq_sdiff_range a b : -2147483648 <= seq_sdiff a b < 2147483648.
Proof.
  unfold seq_sdiff. rewrite seq_modulus_val, seq_half_val. cbv zeta.
  destruct (Z.ltb_spec ((a - b) mod 4294967296) 2147483648); lia.
Qed.

(* a 32-bit value is recovered from any base value and the signed difference *)
Lemma seq_norm_of_sdiff a b :
  0 <= a < 4294967296 -> a = seq_norm (b + seq_sdiff a b).
Proof.
  intros Ha. unfold seq_sdiff, seq_norm. rewrite seq_modulus_val, seq_half_val. cbv zeta.
  destruct (Z.ltb_spec ((a - b) mod 4294967296) 2147483648); lia.
Qed.

Section Transfer.
  Variables x y : Z.
  Hypothesis Hxy : -2147483648 <= x - y < 2147483648.

  Lemma seq_lt_norm : seq_lt (seq_norm x) (seq_norm y) = (x <? y).
  Proof. unfold seq_lt. rewrite seq_sdiff_norm by exact Hxy. lia. Qed.
  Lemma seq_le_norm : seq_le (seq_norm x) (seq_norm y) = (x <=? y).
  Proof. unfold seq_le. rewrite seq_sdiff_norm by exact Hxy. lia. Qed.
  Lemma seq_gt_norm : seq_gt (seq_norm x) (seq_norm y) = (x >? y).
  Proof. unfold seq_gt. rewrite seq_sdiff_norm by exact Hxy. lia. Qed.
  Lemma seq_ge_norm : seq_ge (seq_norm x) (seq_norm y) = (x >=? y).
  Proof. unfold seq_ge. rewrite seq_sdiff_norm by exact Hxy. lia. Qed.
  Lemma seq_sub_norm : 0 <= x - y -> seq_sub (seq_norm x) (seq_norm y) = Ok (x - y).
  Proof.
    intros H. unfold seq_sub. rewrite seq_sdiff_norm by exact Hxy. cbv zeta.
    destruct (Z.ltb_spec (x - y) 0); [lia | reflexivity].
  Qed.
  Lemma seq_max_norm : seq_max (seq_norm x) (seq_norm y) = seq_norm (Z.max x y).
  Proof.
    unfold seq_max. rewrite seq_gt_norm. destruct (Z.gtb_spec x y).
    - rewrite Z.max_l by lia. reflexivity.
    - rewrite Z.max_r by lia. reflexivity.
  Qed.
  Lemma seq_min_norm : seq_min (seq_norm x) (seq_norm y) = seq_norm (Z.min x y).
  Proof.
    unfold seq_min. rewrite seq_lt_norm. destruct (Z.ltb_spec x y).
    - rewrite Z.min_l by lia. reflexivity.
    - rewrite Z.min_r by lia. reflexivity.
  Qed.
End Transfer.

Lemma seq_eqb_norm x y :
  -4294967296 < x - y < 4294967296 -> (seq_norm x =? seq_norm y) = (x =? y).
Proof. intros H. unfold seq_norm. rewrite seq_modulus_val. lia. Qed.

(* ---------------------------------------------------------------------------------------- *)
(* list helpers of TcpBuf                                                                    *)
(* ---------------------------------------------------------------------------------------- *)

Definition znth (l : list Z) (i : Z) : Z := nth (Z.to_nat i) l 0.

Lemma l_len_acc_spec l : forall acc, l_len_acc l acc = acc + Z.of_nat (length l).
Proof.
  induction l as [|a l IH]; intros acc; cbn [l_len_acc length].
  - lia.
  - rewrite IH. lia.
Qed.

Lemma l_len_spec l : l_len l = Z.of_nat (length l).
Proof. unfold l_len. rewrite l_len_acc_spec. lia. Qed.

Lemma l_len_nonneg l : 0 <= l_len l.
Proof. rewrite l_len_spec. lia. Qed.

Lemma l_rev_take_spec l : forall n acc,
  l_rev_take n l acc = rev (firstn (Z.to_nat n) l) ++ acc.
Proof.
  induction l as [|a l IH]; intros n acc; cbn [l_rev_take].
  - rewrite firstn_nil. reflexivity.
  - destruct (Z.leb_spec n 0).
    + replace (Z.to_nat n) with 0%nat by lia. reflexivity.
    + replace (Z.to_nat n) with (S (Z.to_nat (n - 1))) by lia.
      rewrite IH. cbn [firstn rev]. rewrite <- app_assoc. reflexivity.
Qed.

Lemma l_take_spec n l : l_take n l = firstn (Z.to_nat n) l.
Proof.
  unfold l_take. rewrite l_rev_take_spec, app_nil_r, rev_append_rev, app_nil_r, rev_involutive.
  reflexivity.
Qed.

Lemma l_drop_spec l : forall n, l_drop n l = skipn (Z.to_nat n) l.
Proof.
  induction l as [|a l IH]; intros n; cbn [l_drop].
  - rewrite skipn_nil. reflexivity.
  - destruct (Z.leb_spec n 0).
    + replace (Z.to_nat n) with 0%nat by lia. reflexivity.
    + replace (Z.to_nat n) with (S (Z.to_nat (n - 1))) by lia. rewrite IH. reflexivity.
Qed.

Lemma l_app_spec a b : l_app a b = a ++ b.
Proof. unfold l_app. rewrite !rev_append_rev, app_nil_r, rev_involutive. reflexivity. Qed.

Lemma l_slice_spec at_ n l : l_slice at_ n l = firstn (Z.to_nat n) (skipn (Z.to_nat at_) l).
Proof. unfold l_slice. rewrite l_take_spec, l_drop_spec. reflexivity. Qed.

Lemma l_write_spec at_ d l :
  l_write at_ d l = firstn (Z.to_nat at_) l ++ d ++ skipn (Z.to_nat (at_ + l_len d)) l.
Proof.
  unfold l_write. rewrite l_rev_take_spec, app_nil_r, !rev_append_rev, app_nil_r, !rev_involutive.
  rewrite l_drop_spec. reflexivity.
Qed.

Lemma nth_firstn_lt (l : list Z) : forall i n d, (i < n)%nat -> nth i (firstn n l) d = nth i l d.
Proof.
  induction l as [|a l IH]; intros i n d H.
  - rewrite firstn_nil. reflexivity.
  - destruct n; [lia|]. destruct i; cbn; [reflexivity|]. apply IH. lia.
Qed.

Lemma nth_skipn_add (l : list Z) : forall i n d, nth i (skipn n l) d = nth (n + i) l d.
Proof.
  induction l as [|a l IH]; intros i n d.
  - rewrite skipn_nil. destruct i, n; reflexivity.
  - destruct n; [reflexivity|]. cbn [skipn]. rewrite IH. reflexivity.
Qed.

Lemma znth_firstn l n i : 0 <= i < n -> znth (firstn (Z.to_nat n) l) i = znth l i.
Proof. intros H. unfold znth. apply nth_firstn_lt. lia. Qed.

Lemma znth_skipn l n i : 0 <= i -> 0 <= n -> znth (skipn (Z.to_nat n) l) i = znth l (n + i).
Proof.
  intros Hi Hn. unfold znth. rewrite nth_skipn_add. f_equal. lia.
Qed.

Lemma znth_app a b i :
  0 <= i -> znth (a ++ b) i = if i <? l_len a then znth a i else znth b (i - l_len a).
Proof.
  intros Hi. unfold znth. rewrite l_len_spec. destruct (Z.ltb_spec i (Z.of_nat (length a))).
  - apply app_nth1. lia.
  - rewrite app_nth2 by lia. f_equal. lia.
Qed.

Lemma znth_overflow l i : l_len l <= i -> znth l i = 0.
Proof. rewrite l_len_spec. intros H. unfold znth. apply nth_overflow. lia. Qed.

Lemma firstn_len_Z (l : list Z) n :
  0 <= n -> l_len (firstn (Z.to_nat n) l) = Z.min n (l_len l).
Proof. intros H. rewrite !l_len_spec, firstn_length. lia. Qed.

Lemma skipn_len_Z (l : list Z) n :
  0 <= n -> l_len (skipn (Z.to_nat n) l) = Z.max 0 (l_len l - n).
Proof. intros H. rewrite !l_len_spec, skipn_length. lia. Qed.

Lemma l_take_len n l : 0 <= n -> l_len (l_take n l) = Z.min n (l_len l).
Proof. intros H. rewrite l_take_spec. apply firstn_len_Z. exact H. Qed.

Lemma l_drop_len n l : 0 <= n -> l_len (l_drop n l) = Z.max 0 (l_len l - n).
Proof. intros H. rewrite l_drop_spec. apply skipn_len_Z. exact H. Qed.

Lemma l_take_znth n l i : 0 <= i < n -> znth (l_take n l) i = znth l i.
Proof. intros H. rewrite l_take_spec. apply znth_firstn. exact H. Qed.

Lemma l_drop_znth n l i : 0 <= i -> 0 <= n -> znth (l_drop n l) i = znth l (n + i).
Proof. intros H1 H2. rewrite l_drop_spec. apply znth_skipn; assumption. Qed.

Lemma l_take_all n l : l_len l <= n -> l_take n l = l.
Proof. intros H. rewrite l_take_spec. apply firstn_all2. rewrite l_len_spec in H. lia. Qed.

Lemma l_drop_0 l : l_drop 0 l = l.
Proof. rewrite l_drop_spec. reflexivity. Qed.

Lemma l_write_len at_ d l :
  0 <= at_ -> at_ + l_len d <= l_len l -> l_len (l_write at_ d l) = l_len l.
Proof.
  intros H1 H2. pose proof (l_len_nonneg d) as Hd.
  rewrite l_write_spec, !l_len_spec, !app_length, firstn_length, skipn_length.
  rewrite !l_len_spec in *. lia.
Qed.

Lemma l_write_znth at_ d l p :
  0 <= at_ -> at_ + l_len d <= l_len l -> 0 <= p ->
  znth (l_write at_ d l) p =
  if (at_ <=? p) && (p <? at_ + l_len d) then znth d (p - at_) else znth l p.
Proof.
  intros H1 H2 Hp. pose proof (l_len_nonneg d) as Hd.
  rewrite l_write_spec. rewrite znth_app by exact Hp.
  rewrite firstn_len_Z by exact H1. rewrite Z.min_l by lia.
  destruct (Z.ltb_spec p at_).
  - rewrite znth_firstn by lia.
    destruct (Z.leb_spec at_ p); [lia|]. reflexivity.
  - rewrite znth_app by lia.
    destruct (Z.leb_spec at_ p); [|lia]. cbn [andb].
    destruct (Z.ltb_spec (p - at_) (l_len d)); destruct (Z.ltb_spec p (at_ + l_len d));
      try lia; try reflexivity.
    rewrite znth_skipn by lia. f_equal. lia.
Qed.

Lemma l_write_nil at_ l : l_write at_ [] l = l.
Proof.
  rewrite l_write_spec. change (l_len []) with 0. cbn [app].
  replace (at_ + 0) with at_ by lia. apply firstn_skipn.
Qed.

(* extensionality of lists through znth *)
Lemma znth_ext (a b : list Z) :
  l_len a = l_len b -> (forall i, 0 <= i < l_len a -> znth a i = znth b i) -> a = b.
Proof.
  rewrite !l_len_spec. intros Hl H. apply (nth_ext a b 0 0); [lia|].
  intros n Hn. specialize (H (Z.of_nat n)). unfold znth in H. rewrite Nat2Z.id in H.
  apply H. lia.
Qed.

(* ---------------------------------------------------------------------------------------- *)
(* modular index arithmetic                                                                  *)
(* ---------------------------------------------------------------------------------------- *)

Lemma mod_wrap c x : 0 < c -> 0 <= x < 2 * c -> x mod c = if x <? c then x else x - c.
Proof.
  intros Hc Hx. destruct (Z.ltb_spec x c).
  - apply Z.mod_small. lia.
  - symmetry. apply (Z.mod_unique x c 1); lia.
Qed.

Lemma mod_wrap3 c x : 0 < c -> 0 <= x < 3 * c ->
  x mod c = if x <? c then x else if x <? 2 * c then x - c else x - 2 * c.
Proof.
  intros Hc Hx. destruct (Z.ltb_spec x c).
  - apply Z.mod_small. lia.
  - destruct (Z.ltb_spec x (2 * c)).
    + symmetry. apply (Z.mod_unique x c 1); lia.
    + symmetry. apply (Z.mod_unique x c 2); lia.
Qed.

(* ---------------------------------------------------------------------------------------- *)
(* the ring                                                                                  *)
(* ---------------------------------------------------------------------------------------- *)

Definition rb_wf (r : ring) : Prop :=
  0 <= rb_len r <= rb_cap r /\ l_len (rb_store r) = rb_cap r /\
  0 <= rb_read_at r /\ (rb_read_at r < rb_cap r \/ (rb_cap r = 0 /\ rb_read_at r = 0)).

(* the byte at logical index [i] (0 = oldest allocated byte; indices >= rb_len are the
   unallocated area) *)
Definition rb_cell (r : ring) (i : Z) : Z := znth (rb_store r) (rb_get_idx r i).

Lemma rb_new_wf st : rb_wf (rb_new st).
Proof.
  unfold rb_wf, rb_new; cbn [rb_len rb_cap rb_store rb_read_at].
  pose proof (l_len_nonneg st). lia.
Qed.

Lemma rb_clear_wf r : rb_wf r -> rb_wf (rb_clear r).
Proof. unfold rb_wf, rb_clear; cbn [rb_len rb_cap rb_store rb_read_at]. lia. Qed.

Lemma rb_get_idx_range r i : rb_wf r -> 0 <= rb_get_idx r i /\ (0 < rb_cap r -> rb_get_idx r i < rb_cap r).
Proof.
  intros _. unfold rb_get_idx. destruct (Z.gtb_spec (rb_cap r) 0); lia.
Qed.

Lemma rb_get_idx_le r i : rb_wf r -> 0 <= rb_get_idx r i <= rb_cap r.
Proof.
  intros (Hl & _). unfold rb_get_idx. destruct (Z.gtb_spec (rb_cap r) 0); lia.
Qed.

Lemma rb_get_idx_small r i :
  rb_wf r -> 0 < rb_cap r -> 0 <= i < rb_cap r ->
  rb_get_idx r i = if rb_read_at r + i <? rb_cap r then rb_read_at r + i else rb_read_at r + i - rb_cap r.
Proof.
  intros (Hl & Hs & Hr0 & Hr) Hc Hi. unfold rb_get_idx.
  destruct (Z.gtb_spec (rb_cap r) 0); [|lia]. apply mod_wrap; lia.
Qed.

(* ---- write into the unallocated area ---- *)

Lemma rb_write_pass_spec r offset data r' n :
  rb_wf r -> 0 <= offset <= rb_window r ->
  rb_write_pass r offset data = (r', n) ->
  let t := rb_len r + offset in
  let start := rb_get_idx r t in
  n = Z.min (Z.min (l_len data) (rb_window r - offset)) (rb_cap r - start) /\
  rb_wf r' /\ rb_cap r' = rb_cap r /\ rb_len r' = rb_len r /\ rb_read_at r' = rb_read_at r /\
  (forall i, 0 <= i < rb_cap r ->
     rb_cell r' i = if (t <=? i) && (i <? t + n) then znth data (i - t) else rb_cell r i).
Proof.
  intros Hwf Hoff Hp. pose proof Hwf as (Hl & Hs & Hr0 & Hr). pose proof (l_len_nonneg data) as Hd.
  unfold rb_write_pass, rb_get_unallocated in Hp. unfold rb_window in *.
  destruct (Z.gtb_spec offset (rb_cap r - rb_len r)); [lia|].
  inversion Hp; subst r' n; clear Hp. cbv zeta.
  set (t := rb_len r + offset). set (start := rb_get_idx r t).
  set (n := Z.min (Z.min (l_len data) (rb_cap r - rb_len r - offset)) (rb_cap r - start)).
  destruct (rb_get_idx_range r t Hwf) as (Hst0 & Hst1). fold start in Hst0, Hst1.
  assert (Hn0 : 0 <= n).
  { unfold n. destruct (Z.eq_dec (rb_cap r) 0) as [E|E].
    - unfold start, rb_get_idx. destruct (Z.gtb_spec (rb_cap r) 0); lia.
    - specialize (Hst1 ltac:(lia)). lia. }
  assert (Htk : l_len (l_take n data) = n).
  { rewrite l_take_len by exact Hn0. unfold n. lia. }
  assert (Hfit : start + l_len (l_take n data) <= l_len (rb_store r)).
  { rewrite Htk, Hs. unfold n. lia. }
  split; [reflexivity|]. split.
  { unfold rb_wf; cbn [rb_len rb_cap rb_store rb_read_at].
    rewrite l_write_len by (try exact Hst0; exact Hfit). lia. }
  cbn [rb_len rb_cap rb_store rb_read_at]. do 3 (split; [reflexivity|]).
  intros i Hi. unfold rb_cell at 1. cbn [rb_store].
  assert (Hc : 0 < rb_cap r) by lia. specialize (Hst1 Hc).
  assert (Hidx : rb_get_idx (mkRing (rb_cap r) (l_write start (l_take n data) (rb_store r)) (rb_read_at r) (rb_len r)) i
                 = rb_get_idx r i) by reflexivity.
  rewrite Hidx. clear Hidx.
  destruct (rb_get_idx_range r i Hwf) as (Hp0 & Hp1). specialize (Hp1 Hc).
  rewrite l_write_znth by (try exact Hst0; try exact Hfit; exact Hp0).
  rewrite Htk.
  (* relate the physical and the logical test *)
  assert (Hphys : rb_get_idx r i = if rb_read_at r + i <? rb_cap r then rb_read_at r + i else rb_read_at r + i - rb_cap r)
    by (apply rb_get_idx_small; [exact Hwf | exact Hc | exact Hi]).
  destruct (Z.eq_dec t (rb_cap r)) as [Et|Et].
  { (* offset = window: nothing is written *)
    assert (n = 0) by (unfold n; lia).
    destruct ((start <=? rb_get_idx r i) && (rb_get_idx r i <? start + n)) eqn:E1; [lia|].
    destruct ((t <=? i) && (i <? t + n)) eqn:E2; [lia|]. reflexivity. }
  assert (Hstart : start = if rb_read_at r + t <? rb_cap r then rb_read_at r + t else rb_read_at r + t - rb_cap r)
    by (apply rb_get_idx_small; [exact Hwf | exact Hc | unfold t; lia]).
  assert (Hnb : n <= rb_cap r - t /\ n <= rb_cap r - start) by (unfold n, t; lia).
  destruct (Z.ltb_spec (rb_read_at r + i) (rb_cap r)); destruct (Z.ltb_spec (rb_read_at r + t) (rb_cap r));
  destruct ((start <=? rb_get_idx r i) && (rb_get_idx r i <? start + n)) eqn:E1;
  destruct ((t <=? i) && (i <? t + n)) eqn:E2; try lia; try reflexivity;
  try (rewrite l_take_znth by lia; f_equal; lia).
Qed.

Lemma rb_write_unallocated_spec r offset data r' n :
  rb_wf r -> 0 <= offset -> offset + l_len data <= rb_window r ->
  rb_write_unallocated r offset data = (r', n) ->
  n = l_len data /\
  rb_wf r' /\ rb_cap r' = rb_cap r /\ rb_len r' = rb_len r /\ rb_read_at r' = rb_read_at r /\
  (forall i, 0 <= i < rb_cap r ->
     rb_cell r' i = if (rb_len r + offset <=? i) && (i <? rb_len r + offset + l_len data)
                    then znth data (i - (rb_len r + offset)) else rb_cell r i).
Proof.
  intros Hwf Hoff Hfit Hw. pose proof Hwf as (Hl & Hs & Hr0 & Hr). pose proof (l_len_nonneg data) as Hd.
  unfold rb_write_unallocated in Hw.
  destruct (rb_write_pass r offset data) as (r1, n1) eqn:Hp1.
  destruct (rb_write_pass r1 (offset + n1) (l_drop n1 data)) as (r2, n2) eqn:Hp2.
  inversion Hw; subst r' n; clear Hw.
  destruct (rb_write_pass_spec r offset data r1 n1 Hwf ltac:(lia) Hp1)
    as (Hn1 & Hwf1 & Hc1 & Hl1 & Hra1 & Hcell1). cbv zeta in Hn1, Hcell1.
  set (t := rb_len r + offset) in *. set (start := rb_get_idx r t) in *.
  destruct (rb_get_idx_range r t Hwf) as (Hst0 & Hst1). fold start in Hst0, Hst1.
  assert (Hn1b : 0 <= n1 <= l_len data).
  { destruct (Z.eq_dec (rb_cap r) 0) as [E|E].
    - assert (start = 0) by (unfold start, rb_get_idx; destruct (Z.gtb_spec (rb_cap r) 0); lia).
      unfold rb_window in *. lia.
    - specialize (Hst1 ltac:(lia)). unfold rb_window in *. lia. }
  assert (Hw1 : rb_window r1 = rb_window r) by (unfold rb_window; lia).
  destruct (rb_write_pass_spec r1 (offset + n1) (l_drop n1 data) r2 n2 Hwf1 ltac:(lia) Hp2)
    as (Hn2 & Hwf2 & Hc2 & Hl2 & Hra2 & Hcell2). cbv zeta in Hn2, Hcell2.
  rewrite l_drop_len in Hn2 by lia. rewrite Hw1, Hl1, Hc1 in Hn2.
  rewrite Hl1 in Hcell2. rewrite Hc1 in Hcell2.
  replace (rb_len r + (offset + n1)) with (t + n1) in * by (unfold t; lia).
  (* the second pass takes the rest *)
  assert (Hn2v : n2 = l_len data - n1).
  { pose proof (rb_get_idx_le r1 (t + n1) Hwf1) as Hidx2. rewrite Hc1 in Hidx2.
    destruct (Z.eq_dec n1 (l_len data)) as [E|E]; [unfold rb_window in *; lia|].
    (* first pass stopped at the end of the storage: the second starts at 0 *)
    assert (Hc : 0 < rb_cap r) by (unfold rb_window in *; lia). specialize (Hst1 Hc).
    assert (En1 : n1 = rb_cap r - start) by (unfold rb_window in *; lia).
    assert (Hs2 : rb_get_idx r1 (t + n1) = 0).
    { unfold rb_get_idx. rewrite Hc1, Hra1. destruct (Z.gtb_spec (rb_cap r) 0); [|lia].
      assert (Hstart : start = if rb_read_at r + t <? rb_cap r then rb_read_at r + t else rb_read_at r + t - rb_cap r)
        by (apply rb_get_idx_small; [exact Hwf | exact Hc | unfold t, rb_window in *; lia]).
      rewrite mod_wrap3 by (unfold t, rb_window in *; lia).
      destruct (Z.ltb_spec (rb_read_at r + t) (rb_cap r));
      destruct (Z.ltb_spec (rb_read_at r + (t + n1)) (rb_cap r));
      destruct (Z.ltb_spec (rb_read_at r + (t + n1)) (2 * rb_cap r)); lia. }
    rewrite Hs2 in Hn2. unfold rb_window, t in *. lia. }
  split; [lia|]. split; [exact Hwf2|]. split; [lia|]. split; [lia|]. split; [lia|].
  intros i Hi. rewrite Hcell2 by lia. rewrite Hcell1 by exact Hi.
  destruct ((t + n1 <=? i) && (i <? t + n1 + n2)) eqn:E2;
  destruct ((t <=? i) && (i <? t + n1)) eqn:E1;
  destruct ((t <=? i) && (i <? t + l_len data)) eqn:E3; try lia; try reflexivity.
  rewrite l_drop_znth by lia. f_equal. lia.
Qed.

(* ---- enqueue_unallocated / dequeue ---- *)

Lemma rb_enqueue_unallocated_spec r count :
  rb_wf r -> 0 <= count <= rb_window r ->
  exists r', rb_enqueue_unallocated r count = Ok r' /\ rb_wf r' /\ rb_cap r' = rb_cap r /\
             rb_len r' = rb_len r + count /\ rb_read_at r' = rb_read_at r /\
             forall i, rb_cell r' i = rb_cell r i.
Proof.
  intros (Hl & Hs & Hr0 & Hr) Hc. unfold rb_enqueue_unallocated, rb_window in *.
  destruct (Z.leb_spec count (rb_cap r - rb_len r)); [|lia].
  eexists. split; [reflexivity|]. unfold rb_wf; cbn [rb_len rb_cap rb_store rb_read_at].
  repeat (split; try lia).
Qed.

Lemma rb_cell_shift r r' k :
  rb_cap r' = rb_cap r -> rb_store r' = rb_store r ->
  rb_read_at r' = (if rb_cap r >? 0 then (rb_read_at r + k) mod rb_cap r else 0) ->
  forall i, rb_cell r' i = rb_cell r (k + i).
Proof.
  intros Hc Hs Hr i. unfold rb_cell, rb_get_idx. rewrite Hc, Hs, Hr.
  destruct (Z.gtb_spec (rb_cap r) 0); [|reflexivity].
  rewrite Zplus_mod_idemp_l. f_equal. f_equal. lia.
Qed.

Lemma rb_dequeue_pass_spec r n r' b :
  rb_wf r -> 0 <= n -> rb_dequeue_pass r n = (r', b) ->
  let size := Z.min (Z.min (rb_len r) (rb_cap r - rb_read_at r)) n in
  l_len b = size /\ 0 <= size /\
  rb_wf r' /\ rb_cap r' = rb_cap r /\ rb_len r' = rb_len r - size /\
  (size < n -> size < rb_len r -> rb_read_at r' = 0) /\
  (forall j, 0 <= j < size -> znth b j = rb_cell r j) /\
  (forall i, rb_cell r' i = rb_cell r (size + i)).
Proof.
  intros Hwf Hn Hp. pose proof Hwf as (Hl & Hs & Hr0 & Hr).
  unfold rb_dequeue_pass in Hp. inversion Hp; subst r' b; clear Hp. cbv zeta.
  set (size := Z.min (Z.min (rb_len r) (rb_cap r - rb_read_at r)) n).
  assert (Hsz : 0 <= size) by (unfold size; lia).
  assert (Hlen : l_len (l_slice (rb_read_at r) size (rb_store r)) = size).
  { rewrite l_slice_spec, firstn_len_Z by exact Hsz. rewrite skipn_len_Z by exact Hr0.
    rewrite Hs. unfold size. lia. }
  split; [exact Hlen|]. split; [exact Hsz|]. split.
  { unfold rb_wf; cbn [rb_len rb_cap rb_store rb_read_at].
    destruct (Z.gtb_spec (rb_cap r) 0); unfold size; lia. }
  cbn [rb_len rb_cap rb_store rb_read_at]. split; [reflexivity|]. split; [reflexivity|]. split.
  { intros H1 H2. destruct (Z.gtb_spec (rb_cap r) 0); [|reflexivity].
    assert (size = rb_cap r - rb_read_at r) by (unfold size in *; lia).
    replace (rb_read_at r + size) with (rb_cap r) by lia. apply Z_mod_same_full. }
  split.
  - intros j Hj. rewrite l_slice_spec, znth_firstn by exact Hj.
    rewrite znth_skipn by lia. unfold rb_cell. f_equal.
    assert (Hc : 0 < rb_cap r) by (unfold size in *; lia).
    rewrite rb_get_idx_small by (try exact Hwf; try exact Hc; unfold size in *; lia).
    destruct (Z.ltb_spec (rb_read_at r + j) (rb_cap r)); [reflexivity | unfold size in *; lia].
  - apply rb_cell_shift; reflexivity.
Qed.

Lemma rb_dequeue_slice_spec r n r' b :
  rb_wf r -> 0 <= n -> rb_dequeue_slice r n = (r', b) ->
  let k := l_len b in
  k = Z.min (rb_len r) n /\
  rb_wf r' /\ rb_cap r' = rb_cap r /\ rb_len r' = rb_len r - k /\
  (forall j, 0 <= j < k -> znth b j = rb_cell r j) /\
  (forall i, rb_cell r' i = rb_cell r (k + i)).
Proof.
  intros Hwf Hn Hd. unfold rb_dequeue_slice in Hd.
  destruct (rb_dequeue_pass r n) as (r1, b1) eqn:Hp1.
  destruct (rb_dequeue_pass r1 (n - l_len b1)) as (r2, b2) eqn:Hp2.
  inversion Hd; subst r' b; clear Hd.
  destruct (rb_dequeue_pass_spec r n r1 b1 Hwf Hn Hp1) as (Hb1 & Hs1 & Hwf1 & Hc1 & Hl1 & Hz1 & Hby1 & Hcell1).
  cbv zeta in *.
  set (s1 := Z.min (Z.min (rb_len r) (rb_cap r - rb_read_at r)) n) in *.
  assert (Hn2 : 0 <= n - l_len b1) by (unfold s1 in *; lia).
  destruct (rb_dequeue_pass_spec r1 (n - l_len b1) r2 b2 Hwf1 Hn2 Hp2) as (Hb2 & Hs2 & Hwf2 & Hc2 & Hl2 & _ & Hby2 & Hcell2).
  cbv zeta in *.
  set (s2 := Z.min (Z.min (rb_len r1) (rb_cap r1 - rb_read_at r1)) (n - l_len b1)) in *.
  pose proof Hwf as (Hl & Hs & Hr0 & Hr).
  assert (Hk : l_len (l_app b1 b2) = s1 + s2).
  { rewrite l_app_spec, l_len_spec, app_length, Nat2Z.inj_add, <- !l_len_spec. lia. }
  rewrite Hk.
  assert (Hs2v : s1 + s2 = Z.min (rb_len r) n).
  { destruct (Z.ltb_spec s1 n); destruct (Z.ltb_spec s1 (rb_len r)).
    - pose proof (Hz1 ltac:(lia) ltac:(lia)) as Hz. unfold s2. rewrite Hz. unfold s1 in *. lia.
    - unfold s2. unfold s1 in *. lia.
    - unfold s2. unfold s1 in *. lia.
    - unfold s2. unfold s1 in *. lia. }
  split; [exact Hs2v|]. split; [exact Hwf2|]. split; [lia|]. split; [lia|]. split.
  - intros j Hj. rewrite l_app_spec, znth_app by lia. rewrite Hb1.
    destruct (Z.ltb_spec j s1).
    + apply Hby1. lia.
    + rewrite Hby2 by lia. rewrite Hcell1. f_equal. lia.
  - intros i. rewrite Hcell2, Hcell1. f_equal. lia.
Qed.
