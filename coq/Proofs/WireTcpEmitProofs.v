(* Lemmas about Repr::emit / TcpOption::emit of Model/WireTcp.v (property C06). *)
From SV Require Import Lib.Base Gen.WireFields Gen.Consts Model.WireBase Model.WireTcp.
From SV Require Import Proofs.WireBaseProofs Proofs.WireBaseProofs2 Proofs.WireTcpProofs.

(* ================= TcpOption::emit ================= *)

(* the octets of an option *)
Definition tcp_sack_bytes (o : option (Z * Z)) : list Z :=
  match o with Some (l, r) => be_enc4 l ++ be_enc4 r | None => [] end.

Definition tcp_option_bytes (o : tcp_option) : list Z :=
  match o with
  | OptEnd => [0]
  | OptNop => [1]
  | OptMss v => [2; 4] ++ be_enc2 v
  | OptWs v => [3; 3; v]
  | OptSackPerm => [4; 2]
  | OptSackRange r0 r1 r2 =>
      [5; tcp_sack_count r0 r1 r2 * 8 + 2] ++ tcp_sack_bytes r0 ++ tcp_sack_bytes r1 ++ tcp_sack_bytes r2
  | OptTs a c => [8; 10] ++ be_enc4 a ++ be_enc4 c
  | OptUnknown k d => [k; 2 + blen d] ++ d
  end.

(* moving an option emission behind a prefix *)
Lemma tcp_set_in_shift pre t i lim v : blen pre <= i ->
  tcp_set_in (pre ++ t) i lim v = omap (fun x => pre ++ x) (tcp_set_in t (i - blen pre) (lim - blen pre) v).
Proof.
  intros Hi. unfold tcp_set_in.
  destruct (i <? lim) eqn:E; bsplit; zbool; [apply wb_set_u8_app_r; assumption | reflexivity].
Qed.

Lemma tcp_emit_sack_slots_shift pre rs : forall t pos lim i, blen pre <= pos -> 0 <= i ->
  tcp_emit_sack_slots (pre ++ t) pos lim i rs =
  omap (fun x => pre ++ x) (tcp_emit_sack_slots t (pos - blen pre) (lim - blen pre) i rs).
Proof.
  induction rs as [|[[l r]|] rs IH]; intros t pos lim i Hp Hi; cbn [tcp_emit_sack_slots].
  - reflexivity.
  - rewrite wb_put_be_app_r by lia.
    replace (pos + i * 8 + 2 - blen pre) with (pos - blen pre + i * 8 + 2) by lia.
    destruct (wb_put_be t _ _ (be_enc4 l)) as [t1| |]; cbn [omap obind]; try reflexivity.
    rewrite wb_put_be_app_r by lia.
    replace (pos + i * 8 + 2 + 4 - blen pre) with (pos - blen pre + i * 8 + 2 + 4) by lia.
    destruct (wb_put_be t1 _ _ (be_enc4 r)) as [t2| |]; cbn [omap obind]; try reflexivity.
    apply IH; lia.
  - apply IH; assumption.
Qed.

Lemma omap_obind {A B C} (g : A -> B) (x : outcome A) (k : B -> outcome C) :
  obind (omap g x) k = obind x (fun a => k (g a)).
Proof. destruct x; reflexivity. Qed.

Lemma tcp_option_emit_shift o pre t pos lim : blen pre <= pos ->
  tcp_option_emit o (pre ++ t) pos lim =
  omap (fun st => (pre ++ fst st, snd st + blen pre))
       (tcp_option_emit o t (pos - blen pre) (lim - blen pre)).
Proof.
  intros Hp. unfold tcp_option_emit.
  assert (Hfin : forall b', (do _ <- wb_assert (pos + tcp_option_buffer_len o <=? lim);
                             Ok (pre ++ b', pos + tcp_option_buffer_len o)) =
           omap (fun st => (pre ++ fst st, snd st + blen pre))
             (do _ <- wb_assert (pos - blen pre + tcp_option_buffer_len o <=? lim - blen pre);
              Ok (b', pos - blen pre + tcp_option_buffer_len o))).
  { intros b'. unfold wb_assert.
    destruct (pos + tcp_option_buffer_len o <=? lim) eqn:E; bsplit; zbool; cbn [obind omap fst snd];
      [f_equal; f_equal; lia | reflexivity]. }
  assert (Hin : forall i v, blen pre <= i ->
            tcp_set_in (pre ++ t) i lim v = omap (fun x => pre ++ x) (tcp_set_in t (i - blen pre) (lim - blen pre) v))
    by (intros; apply tcp_set_in_shift; assumption).
  destruct o as [| |v|v| |r0 r1 r2|a c|k d].
  - (* End *) unfold wb_fill. rewrite wb_set_slice_app_r by lia.
    replace (lim - blen pre - (pos - blen pre)) with (lim - pos) by lia.
    rewrite omap_obind. destruct (wb_set_slice t _ _ _); cbn [obind omap]; try reflexivity. apply Hfin.
  - (* Nop *) rewrite Hin by lia. rewrite omap_obind.
    destruct (tcp_set_in t _ _ _); cbn [obind omap]; try reflexivity. apply Hfin.
  - (* Mss *) rewrite !obind_assoc. rewrite Hin by lia. rewrite omap_obind.
    replace (pos + 1 - blen pre) with (pos - blen pre + 1) by lia.
    destruct (tcp_set_in t _ _ _) as [t1| |]; cbn [obind omap]; try reflexivity.
    rewrite !obind_assoc. rewrite (tcp_set_in_shift pre t1) by lia. rewrite omap_obind.
    destruct (tcp_set_in t1 _ _ _) as [t2| |]; cbn [obind omap]; try reflexivity.
    rewrite wb_put_be_app_r by lia. rewrite omap_obind.
    replace (pos + 2 - blen pre) with (pos - blen pre + 2) by lia.
    destruct (wb_put_be t2 _ _ _); cbn [obind omap]; try reflexivity. apply Hfin.
  - (* Ws *) rewrite !obind_assoc. rewrite Hin by lia. rewrite omap_obind.
    replace (pos + 1 - blen pre) with (pos - blen pre + 1) by lia.
    destruct (tcp_set_in t _ _ _) as [t1| |]; cbn [obind omap]; try reflexivity.
    rewrite !obind_assoc. rewrite (tcp_set_in_shift pre t1) by lia. rewrite omap_obind.
    destruct (tcp_set_in t1 _ _ _) as [t2| |]; cbn [obind omap]; try reflexivity.
    rewrite (tcp_set_in_shift pre t2) by lia. rewrite omap_obind.
    replace (pos + 2 - blen pre) with (pos - blen pre + 2) by lia.
    destruct (tcp_set_in t2 _ _ _); cbn [obind omap]; try reflexivity. apply Hfin.
  - (* SackPerm *) rewrite !obind_assoc. rewrite Hin by lia. rewrite omap_obind.
    replace (pos + 1 - blen pre) with (pos - blen pre + 1) by lia.
    destruct (tcp_set_in t _ _ _) as [t1| |]; cbn [obind omap]; try reflexivity.
    rewrite (tcp_set_in_shift pre t1) by lia. rewrite omap_obind.
    destruct (tcp_set_in t1 _ _ _); cbn [obind omap]; try reflexivity. apply Hfin.
  - (* SackRange *) rewrite !obind_assoc. rewrite Hin by lia. rewrite omap_obind.
    replace (pos + 1 - blen pre) with (pos - blen pre + 1) by lia.
    destruct (tcp_set_in t _ _ _) as [t1| |]; cbn [obind omap]; try reflexivity.
    rewrite !obind_assoc. rewrite (tcp_set_in_shift pre t1) by lia. rewrite omap_obind.
    destruct (tcp_set_in t1 _ _ _) as [t2| |]; cbn [obind omap]; try reflexivity.
    rewrite tcp_emit_sack_slots_shift by lia. rewrite omap_obind.
    destruct (tcp_emit_sack_slots t2 _ _ _ _); cbn [obind omap]; try reflexivity. apply Hfin.
  - (* Ts *) rewrite !obind_assoc. rewrite Hin by lia. rewrite omap_obind.
    replace (pos + 1 - blen pre) with (pos - blen pre + 1) by lia.
    destruct (tcp_set_in t _ _ _) as [t1| |]; cbn [obind omap]; try reflexivity.
    rewrite !obind_assoc. rewrite (tcp_set_in_shift pre t1) by lia. rewrite omap_obind.
    destruct (tcp_set_in t1 _ _ _) as [t2| |]; cbn [obind omap]; try reflexivity.
    rewrite !obind_assoc. rewrite wb_put_be_app_r by lia. rewrite omap_obind.
    replace (pos + 2 - blen pre) with (pos - blen pre + 2) by lia.
    destruct (wb_put_be t2 _ _ _) as [t3| |]; cbn [obind omap]; try reflexivity.
    rewrite wb_put_be_app_r by lia. rewrite omap_obind.
    replace (pos + 6 - blen pre) with (pos - blen pre + 6) by lia.
    destruct (wb_put_be t3 _ _ _); cbn [obind omap]; try reflexivity. apply Hfin.
  - (* Unknown *) rewrite !obind_assoc. rewrite Hin by lia. rewrite omap_obind.
    replace (pos + 1 - blen pre) with (pos - blen pre + 1) by lia.
    destruct (tcp_set_in t _ _ _) as [t1| |]; cbn [obind omap]; try reflexivity.
    rewrite !obind_assoc. rewrite (tcp_set_in_shift pre t1) by lia. rewrite omap_obind.
    destruct (tcp_set_in t1 _ _ _) as [t2| |]; cbn [obind omap]; try reflexivity.
    rewrite !obind_assoc. unfold wb_assert.
    replace (pos - blen pre + 2 <=? lim - blen pre) with (pos + 2 <=? lim)
      by (destruct (pos + 2 <=? lim) eqn:E; bsplit; zbool; reflexivity).
    destruct (pos + 2 <=? lim); cbn [obind omap]; try reflexivity.
    rewrite wb_set_slice_app_r by lia. rewrite omap_obind.
    replace (pos + 2 - blen pre) with (pos - blen pre + 2) by lia.
    destruct (wb_set_slice t2 _ _ _); cbn [obind omap]; try reflexivity. apply Hfin.
Qed.

(* a put whose addressed sub-slice reaches beyond the explicit cells but whose octets stay inside *)
Ltac pstep :=
  match goal with
  | |- context [wb_put_be ((?a :: ?h) ++ ?t) ?lo ?hi ?e] =>
      rewrite (wb_put_be_prefix (a :: h) t lo hi e)
        by (try (unfold be_enc2, be_enc4); autorewrite with blen; zfold; lia);
      let n := eval vm_compute in (blen (a :: h)) in
      idtac; heval (wb_put_be (a :: h) lo (blen (a :: h)) e)
  end; cbn [omap obind].

Lemma blen_cells_eval (l : list Z) : blen l = Z.of_nat (length l).
Proof. reflexivity. Qed.

(* emission at the start of the remaining option space: [lim] = end of the option space *)
Lemma tcp_emit_mss_0 v c0 c1 c2 c3 rest lim : 4 <= lim <= 4 + blen rest ->
  tcp_option_emit (OptMss v) ([c0; c1; c2; c3] ++ rest) 0 lim = Ok (tcp_option_bytes (OptMss v) ++ rest, 4).
Proof.
  intros H. unfold tcp_option_emit, tcp_set_in, wb_assert. cbn [tcp_option_buffer_len tcp_option_bytes].
  zfold. zbool. hstep. hstep. pstep. reflexivity.
Qed.

Lemma tcp_emit_ws_0 v c0 c1 c2 rest lim : 3 <= lim <= 3 + blen rest ->
  tcp_option_emit (OptWs v) ([c0; c1; c2] ++ rest) 0 lim = Ok (tcp_option_bytes (OptWs v) ++ rest, 3).
Proof.
  intros H. unfold tcp_option_emit, tcp_set_in, wb_assert. cbn [tcp_option_buffer_len tcp_option_bytes].
  zfold. zbool. hstep. hstep. hstep. reflexivity.
Qed.

Lemma tcp_emit_sackperm_0 c0 c1 rest lim : 2 <= lim <= 2 + blen rest ->
  tcp_option_emit OptSackPerm ([c0; c1] ++ rest) 0 lim = Ok (tcp_option_bytes OptSackPerm ++ rest, 2).
Proof.
  intros H. unfold tcp_option_emit, tcp_set_in, wb_assert. cbn [tcp_option_buffer_len tcp_option_bytes].
  zfold. zbool. hstep. hstep. reflexivity.
Qed.

Lemma tcp_emit_ts_0 a c c0 c1 c2 c3 c4 c5 c6 c7 c8 c9 rest lim : 10 <= lim <= 10 + blen rest ->
  tcp_option_emit (OptTs a c) ([c0; c1; c2; c3; c4; c5; c6; c7; c8; c9] ++ rest) 0 lim =
  Ok (tcp_option_bytes (OptTs a c) ++ rest, 10).
Proof.
  intros H. unfold tcp_option_emit, tcp_set_in, wb_assert. cbn [tcp_option_buffer_len tcp_option_bytes].
  zfold. zbool. hstep. hstep. pstep. pstep. reflexivity.
Qed.

Lemma tcp_emit_sack1_0 l0 r0 c0 c1 c2 c3 c4 c5 c6 c7 c8 c9 rest lim : 10 <= lim <= 10 + blen rest ->
  tcp_option_emit (OptSackRange (Some (l0, r0)) None None) ([c0; c1; c2; c3; c4; c5; c6; c7; c8; c9] ++ rest) 0 lim =
  Ok (tcp_option_bytes (OptSackRange (Some (l0, r0)) None None) ++ rest, 10).
Proof.
  intros H. unfold tcp_option_emit, tcp_set_in, wb_assert.
  cbn [tcp_option_buffer_len tcp_option_bytes tcp_emit_sack_slots tcp_sack_bytes].
  unfold tcp_sack_count. cbv iota. zfold. zbool. hstep. hstep. pstep. pstep. reflexivity.
Qed.

Lemma tcp_emit_sack2_0 l0 r0 l1 r1 c0 c1 c2 c3 c4 c5 c6 c7 c8 c9 c10 c11 c12 c13 c14 c15 c16 c17 rest lim :
  18 <= lim <= 18 + blen rest ->
  tcp_option_emit (OptSackRange (Some (l0, r0)) (Some (l1, r1)) None)
    ([c0; c1; c2; c3; c4; c5; c6; c7; c8; c9; c10; c11; c12; c13; c14; c15; c16; c17] ++ rest) 0 lim =
  Ok (tcp_option_bytes (OptSackRange (Some (l0, r0)) (Some (l1, r1)) None) ++ rest, 18).
Proof.
  intros H. unfold tcp_option_emit, tcp_set_in, wb_assert.
  cbn [tcp_option_buffer_len tcp_option_bytes tcp_emit_sack_slots tcp_sack_bytes].
  unfold tcp_sack_count. cbv iota. zfold. zbool. hstep. hstep. pstep. pstep. pstep. pstep. reflexivity.
Qed.

Lemma tcp_emit_sack3_0 l0 r0 l1 r1 l2 r2 c0 c1 c2 c3 c4 c5 c6 c7 c8 c9 c10 c11 c12 c13 c14 c15 c16 c17
    c18 c19 c20 c21 c22 c23 c24 c25 rest lim :
  26 <= lim <= 26 + blen rest ->
  tcp_option_emit (OptSackRange (Some (l0, r0)) (Some (l1, r1)) (Some (l2, r2)))
    ([c0; c1; c2; c3; c4; c5; c6; c7; c8; c9; c10; c11; c12; c13; c14; c15; c16; c17;
      c18; c19; c20; c21; c22; c23; c24; c25] ++ rest) 0 lim =
  Ok (tcp_option_bytes (OptSackRange (Some (l0, r0)) (Some (l1, r1)) (Some (l2, r2))) ++ rest, 26).
Proof.
  intros H. unfold tcp_option_emit, tcp_set_in, wb_assert.
  cbn [tcp_option_buffer_len tcp_option_bytes tcp_emit_sack_slots tcp_sack_bytes].
  unfold tcp_sack_count. cbv iota. zfold. zbool. hstep. hstep. pstep. pstep. pstep. pstep. pstep. pstep. reflexivity.
Qed.

(* the options Repr::emit produces *)
Definition tcp_opt_emittable (o : tcp_option) : Prop :=
  match o with
  | OptMss _ | OptWs _ | OptSackPerm | OptTs _ _ => True
  | OptSackRange (Some _) None None | OptSackRange (Some _) (Some _) None
  | OptSackRange (Some _) (Some _) (Some _) => True
  | _ => False
  end.

Lemma tcp_option_bytes_len o : tcp_opt_emittable o -> blen (tcp_option_bytes o) = tcp_option_buffer_len o.
Proof.
  destruct o as [| |v|v| |[[l0 r0]|] [[l1 r1]|] [[l2 r2]|]|a c|k d]; cbn [tcp_opt_emittable]; try tauto; intros _;
    reflexivity.
Qed.

Lemma tcp_option_emit_at o P A post lim : tcp_opt_emittable o ->
  lim = blen P + blen A -> tcp_option_buffer_len o <= blen A ->
  tcp_option_emit o (P ++ A ++ post) (blen P) lim =
  Ok (P ++ tcp_option_bytes o ++ skipn (Z.to_nat (tcp_option_buffer_len o)) A ++ post,
      blen P + tcp_option_buffer_len o).
Proof.
  intros Ho -> Hlen. rewrite tcp_option_emit_shift by lia.
  replace (blen P - blen P) with 0 by lia. replace (blen P + blen A - blen P) with (blen A) by lia.
  assert (Hn : 0 <= tcp_option_buffer_len o).
  { destruct o as [| |v|v| |[[l0 r0]|] [[l1 r1]|] [[l2 r2]|]|a c|k d]; cbn [tcp_opt_emittable] in Ho; try tauto;
      cbn [tcp_option_buffer_len]; unfold tcp_sack_count; lia. }
  destruct (split_hdr A (tcp_option_buffer_len o)) as (cs & A' & -> & Hcs & HA'); [lia|].
  rewrite skipn_app. rewrite skipn_all2 by lia.
  replace (Z.to_nat (tcp_option_buffer_len o) - length cs)%nat with 0%nat by lia. cbn [skipn app].
  rewrite <- app_assoc. rewrite blen_app in *.
  assert (Hcl : blen cs = tcp_option_buffer_len o) by (unfold blen; lia).
  assert (HA2 : 0 <= blen A') by apply blen_nonneg.
  assert (Hlim : tcp_option_buffer_len o <= blen cs + blen A' <= tcp_option_buffer_len o + blen (A' ++ post)).
  { rewrite blen_app. pose proof (blen_nonneg post). lia. }
  destruct o as [| |v|v| |[[l0 r0]|] [[l1 r1]|] [[l2 r2]|]|a c|k d]; cbn [tcp_opt_emittable] in Ho; try tauto;
    cbn [tcp_option_buffer_len] in *; unfold tcp_sack_count in *; revert Hcs; zfold; intros Hcs; cells Hcs;
    first [ rewrite tcp_emit_mss_0 by (revert Hlim; zfold; lia)
          | rewrite tcp_emit_ws_0 by (revert Hlim; zfold; lia)
          | rewrite tcp_emit_sackperm_0 by (revert Hlim; zfold; lia)
          | rewrite tcp_emit_ts_0 by (revert Hlim; zfold; lia)
          | rewrite tcp_emit_sack1_0 by (revert Hlim; zfold; lia)
          | rewrite tcp_emit_sack2_0 by (revert Hlim; zfold; lia)
          | rewrite tcp_emit_sack3_0 by (revert Hlim; zfold; lia) ];
    cbn [omap fst snd]; rewrite <- ?app_assoc; zfold; f_equal; f_equal; lia.
Qed.

(* EndOfList: the whole remaining option space is filled with zeros *)
Lemma tcp_option_emit_end P A post lim : lim = blen P + blen A -> 1 <= blen A ->
  tcp_option_emit OptEnd (P ++ A ++ post) (blen P) lim =
  Ok (P ++ repeat 0 (length A) ++ post, blen P + 1).
Proof.
  intros -> HA. unfold tcp_option_emit, wb_fill, wb_assert. cbn [tcp_option_buffer_len]. zfold.
  pose proof (blen_nonneg P).
  replace (blen P + blen A - blen P) with (blen A) by lia.
  rewrite wb_set_slice_app_r by lia.
  replace (blen P - blen P) with 0 by lia. replace (blen P + blen A - blen P) with (blen A) by lia.
  replace (Z.to_nat (blen A)) with (length A) by (unfold blen; lia).
  rewrite wb_set_slice_app_l by lia.
  change A with ([] ++ A) at 1.
  rewrite wb_set_slice_tail; [ | reflexivity | rewrite blen_nil; lia | rewrite blen_repeat; reflexivity ].
  cbn [omap obind app]. zbool. cbn [obind]. reflexivity.
Qed.

(* ================= Repr::emit ================= *)

Definition tcp_ctl_mask (c : Z) : Z :=
  if c =? 1 then 8 else if c =? 2 then 2 else if c =? 3 then 1 else if c =? 4 then 4 else 0.

Definition tcp_flags_word (r : tcp_repr) : Z :=
  (tcp_repr_header_len r / 4) * 4096 + tcp_ctl_mask (tcp_control r) + (if tcp_ack r then 16 else 0).

(* the options Repr::emit writes, in order *)
Definition tcp_opt_mss (r : tcp_repr) : option tcp_option :=
  match tcp_mss r with Some v => Some (OptMss v) | None => None end.
Definition tcp_opt_ws (r : tcp_repr) : option tcp_option :=
  match tcp_wscale r with Some v => Some (OptWs v) | None => None end.
Definition tcp_opt_sack (r : tcp_repr) : option tcp_option :=
  if tcp_sack_permitted r then Some OptSackPerm
  else if (if tcp_ack r then true else false) &&
          ((if tcp_sack0 r then true else false) || (if tcp_sack1 r then true else false) ||
           (if tcp_sack2 r then true else false))
       then Some (OptSackRange (tcp_sack0 r) (tcp_sack1 r) (tcp_sack2 r)) else None.
Definition tcp_opt_ts (r : tcp_repr) : option tcp_option :=
  match tcp_ts r with Some (a, c) => Some (OptTs a c) | None => None end.

Definition tcp_oo_bytes (oo : option tcp_option) : list Z :=
  match oo with Some o => tcp_option_bytes o | None => [] end.
Definition tcp_oo_len (oo : option tcp_option) : Z :=
  match oo with Some o => tcp_option_buffer_len o | None => 0 end.

Definition tcp_opts_bytes (r : tcp_repr) : list Z :=
  tcp_oo_bytes (tcp_opt_mss r) ++ tcp_oo_bytes (tcp_opt_ws r) ++ tcp_oo_bytes (tcp_opt_sack r) ++
  tcp_oo_bytes (tcp_opt_ts r).
Definition tcp_opts_len (r : tcp_repr) : Z :=
  tcp_oo_len (tcp_opt_mss r) + tcp_oo_len (tcp_opt_ws r) + tcp_oo_len (tcp_opt_sack r) + tcp_oo_len (tcp_opt_ts r).

Definition tcp_pad (r : tcp_repr) : list Z :=
  repeat 0 (Z.to_nat (tcp_repr_header_len r - 20 - tcp_opts_len r)).

Lemma tcp_opt_step_at oo P A post lim :
  (forall o, oo = Some o -> tcp_opt_emittable o) ->
  lim = blen P + blen A -> tcp_oo_len oo <= blen A ->
  tcp_opt_step oo (P ++ A ++ post, blen P) lim =
  Ok ((P ++ tcp_oo_bytes oo) ++ skipn (Z.to_nat (tcp_oo_len oo)) A ++ post, blen (P ++ tcp_oo_bytes oo)).
Proof.
  intros He Hlim Hlen. destruct oo as [o|]; cbn [tcp_opt_step tcp_oo_bytes tcp_oo_len fst snd] in *.
  - rewrite tcp_option_emit_at by (auto; lia).
    rewrite blen_app, tcp_option_bytes_len by auto. rewrite <- app_assoc. reflexivity.
  - cbn [Z.to_nat skipn]. rewrite app_nil_r. reflexivity.
Qed.

Lemma tcp_oo_bytes_len oo : (forall o, oo = Some o -> tcp_opt_emittable o) ->
  blen (tcp_oo_bytes oo) = tcp_oo_len oo.
Proof.
  intros H. destruct oo as [o|]; cbn [tcp_oo_bytes tcp_oo_len]; [|reflexivity].
  apply tcp_option_bytes_len. apply H. reflexivity.
Qed.

(* facts about a well-formed representation *)
Definition tcp_srl (r : tcp_repr) : Z :=
  (if tcp_sack0 r then 8 else 0) + (if tcp_sack1 r then 8 else 0) + (if tcp_sack2 r then 8 else 0).

Lemma tcp_repr_header_len_eq r :
  let L := 20 + (if tcp_mss r then 4 else 0) + (if tcp_wscale r then 3 else 0) +
           (if tcp_sack_permitted r then 2 else 0) + (if tcp_ts r then 10 else 0) +
           (if tcp_srl r >? 0 then tcp_srl r + 2 else 0) in
  tcp_repr_header_len r = if L mod 4 =? 0 then L else L + (4 - L mod 4).
Proof.
  unfold tcp_repr_header_len, tcp_srl. zfold. cbv zeta.
  set (srl := (if tcp_sack0 r then 8 else 0) + (if tcp_sack1 r then 8 else 0) + (if tcp_sack2 r then 8 else 0)).
  destruct (tcp_mss r), (tcp_wscale r), (tcp_sack_permitted r), (tcp_ts r), (srl >? 0); zfold;
    repeat match goal with |- context [?a + srl + 2] => replace (a + srl + 2) with (a + (srl + 2)) by lia end;
    reflexivity.
Qed.

Lemma tcp_wf_sack r : tcp_wf r = true ->
  (forall o, tcp_opt_sack r = Some o -> tcp_opt_emittable o) /\
  tcp_oo_len (tcp_opt_sack r) =
    (if tcp_sack_permitted r then 2 else 0) + (if tcp_srl r >? 0 then tcp_srl r + 2 else 0).
Proof.
  unfold tcp_wf. intros H. bsplit.
  unfold tcp_opt_sack, tcp_srl, tcp_sack_prefix, tcp_sack_ok, tcp_oo_len in *.
  destruct (tcp_sack_permitted r), (tcp_ack r), (tcp_sack0 r) as [[l0 r0]|], (tcp_sack1 r) as [[l1 r1]|],
    (tcp_sack2 r) as [[l2 r2]|]; try discriminate; cbn [andb orb negb] in *; try discriminate;
    zfold; cbn [tcp_option_buffer_len]; unfold tcp_sack_count; zfold;
    (split; [intros o X; try discriminate; injection X as <-; exact I | reflexivity]).
Qed.

Lemma tcp_wf_opts r : tcp_wf r = true ->
  (forall o, tcp_opt_mss r = Some o -> tcp_opt_emittable o) /\
  (forall o, tcp_opt_ws r = Some o -> tcp_opt_emittable o) /\
  (forall o, tcp_opt_sack r = Some o -> tcp_opt_emittable o) /\
  (forall o, tcp_opt_ts r = Some o -> tcp_opt_emittable o) /\
  20 <= tcp_repr_header_len r <= 60 /\ tcp_repr_header_len r mod 4 = 0 /\
  20 + tcp_opts_len r <= tcp_repr_header_len r < 20 + tcp_opts_len r + 4 /\
  0 <= tcp_oo_len (tcp_opt_mss r) /\ 0 <= tcp_oo_len (tcp_opt_ws r) /\
  0 <= tcp_oo_len (tcp_opt_sack r) /\ 0 <= tcp_oo_len (tcp_opt_ts r).
Proof.
  intros Hwf. destruct (tcp_wf_sack r Hwf) as (Hs1 & Hs2).
  assert (H60 : tcp_repr_header_len r <= 60) by (unfold tcp_wf in Hwf; bsplit; assumption).
  pose proof (tcp_repr_header_len_eq r) as Hhl. cbv zeta in Hhl.
  assert (Hm : tcp_oo_len (tcp_opt_mss r) = if tcp_mss r then 4 else 0)
    by (unfold tcp_opt_mss; destruct (tcp_mss r); reflexivity).
  assert (Hw : tcp_oo_len (tcp_opt_ws r) = if tcp_wscale r then 3 else 0)
    by (unfold tcp_opt_ws; destruct (tcp_wscale r); reflexivity).
  assert (Ht : tcp_oo_len (tcp_opt_ts r) = if tcp_ts r then 10 else 0)
    by (unfold tcp_opt_ts; destruct (tcp_ts r) as [[? ?]|]; reflexivity).
  unfold tcp_opts_len. rewrite Hm, Hw, Ht, Hs2.
  set (m := if tcp_mss r then 4 else 0) in *. set (w := if tcp_wscale r then 3 else 0) in *.
  set (t := if tcp_ts r then 10 else 0) in *. set (p := if tcp_sack_permitted r then 2 else 0) in *.
  set (s := if tcp_srl r >? 0 then tcp_srl r + 2 else 0) in *.
  assert (m = 0 \/ m = 4) by (unfold m; destruct (tcp_mss r); auto).
  assert (w = 0 \/ w = 3) by (unfold w; destruct (tcp_wscale r); auto).
  assert (t = 0 \/ t = 10) by (unfold t; destruct (tcp_ts r); auto).
  assert (p = 0 \/ p = 2) by (unfold p; destruct (tcp_sack_permitted r); auto).
  assert (0 <= s) by (unfold s, tcp_srl; destruct (tcp_sack0 r), (tcp_sack1 r), (tcp_sack2 r); zfold; lia).
  split; [unfold tcp_opt_mss; intros o X; destruct (tcp_mss r); [injection X as <-; exact I | discriminate]|].
  split; [unfold tcp_opt_ws; intros o X; destruct (tcp_wscale r); [injection X as <-; exact I | discriminate]|].
  split; [exact Hs1|].
  split; [unfold tcp_opt_ts; intros o X; destruct (tcp_ts r) as [[? ?]|]; [injection X as <-; exact I | discriminate]|].
  revert Hhl. case_if; intros Hhl; bsplit; rewrite Hhl in *; repeat split; lia.
Qed.

(* ---------- Repr::emit = header part ; options, urgent pointer, payload, checksum ---------- *)
Section Emit.
Variable sum_fill : list Z -> Z.

Definition tcp_emit_head (r : tcp_repr) (b : list Z) : outcome (list Z) :=
  do b <- tcp_set_src_port b (tcp_sport r);
  do b <- tcp_set_dst_port b (tcp_dport r);
  do b <- tcp_set_seq_number b (tcp_seq r);
  do b <- tcp_set_ack_number b (match tcp_ack r with Some a => a | None => 0 end);
  do b <- tcp_set_window_len b (tcp_window r);
  do b <- tcp_set_header_len b (tcp_repr_header_len r mod 256);
  do b <- tcp_clear_flags b;
  do b <- (if tcp_control r =? tcp_CTL_PSH then tcp_set_flag wtcp_FLG_PSH b true
           else if tcp_control r =? tcp_CTL_SYN then tcp_set_flag wtcp_FLG_SYN b true
           else if tcp_control r =? tcp_CTL_FIN then tcp_set_flag wtcp_FLG_FIN b true
           else if tcp_control r =? tcp_CTL_RST then tcp_set_flag wtcp_FLG_RST b true
           else Ok b);
  tcp_set_flag wtcp_FLG_ACK b (if tcp_ack r then true else false).

Definition tcp_emit_tail (tx : bool) (r : tcp_repr) (b : list Z) : outcome (list Z) :=
  do lim <- tcp_header_len_ b;
  do _ <- wb_sub b (snd wtcp_f_URGENT) lim;
  let st := (b, snd wtcp_f_URGENT) in
  do st <- tcp_opt_step (match tcp_mss r with Some v => Some (OptMss v) | None => None end) st lim;
  do st <- tcp_opt_step (match tcp_wscale r with Some v => Some (OptWs v) | None => None end) st lim;
  do st <- tcp_opt_step
             (if tcp_sack_permitted r then Some OptSackPerm
              else if (if tcp_ack r then true else false) &&
                      ((if tcp_sack0 r then true else false) || (if tcp_sack1 r then true else false) ||
                       (if tcp_sack2 r then true else false))
                   then Some (OptSackRange (tcp_sack0 r) (tcp_sack1 r) (tcp_sack2 r)) else None) st lim;
  do st <- tcp_opt_step (match tcp_ts r with Some (a, c) => Some (OptTs a c) | None => None end) st lim;
  do st <- (if snd st <? lim then tcp_option_emit OptEnd (fst st) (snd st) lim else Ok st);
  let b := fst st in
  do b <- tcp_set_urgent_at b 0;
  do hl <- tcp_header_len_ b;
  do pm <- wb_from b hl;
  do _ <- wb_upto pm (blen (tcp_payload r));
  do b <- wb_set_slice b hl (hl + blen (tcp_payload r)) (tcp_payload r);
  if tx then tcp_fill_checksum sum_fill b else tcp_set_checksum b 0.

Lemma tcp_emit_split tx r b :
  tcp_emit sum_fill tx r b = do b <- tcp_emit_head r b; tcp_emit_tail tx r b.
Proof.
  unfold tcp_emit, tcp_emit_head, tcp_emit_tail.
  repeat match goal with
  | |- obind ?x _ = obind (obind ?x _) _ => destruct x; cbn [obind]; [ | reflexivity | reflexivity ]
  end.
  reflexivity.
Qed.

End Emit.

Definition tcp_ackv (r : tcp_repr) : Z := match tcp_ack r with Some a => a | None => 0 end.

(* octets 0..16 of the header *)
Definition tcp_hdr16 (r : tcp_repr) : list Z :=
  be_enc2 (tcp_sport r) ++ be_enc2 (tcp_dport r) ++ be_enc4 (tcp_seq r) ++ be_enc4 (tcp_ackv r) ++
  be_enc2 (tcp_flags_word r) ++ be_enc2 (tcp_window r).

(* the flags word produced by the read-modify-write chain, whatever the old word was *)
Ltac flags_solve hl :=
  let Hq := fresh "Hq" in
  assert (Hq : hl / 4 = 5 \/ hl / 4 = 6 \/ hl / 4 = 7 \/ hl / 4 = 8 \/ hl / 4 = 9 \/ hl / 4 = 10 \/
               hl / 4 = 11 \/ hl / 4 = 12 \/ hl / 4 = 13 \/ hl / 4 = 14 \/ hl / 4 = 15) by lia;
  repeat destruct Hq as [Hq | Hq]; rewrite Hq; zfold; reflexivity.

Lemma tcp_emit_head_spec r c0 c1 c2 c3 c4 c5 c6 c7 c8 c9 c10 c11 c12 c13 c14 c15 c16 c17 c18 c19 T :
  tcp_wf r = true ->
  tcp_emit_head r ([c0; c1; c2; c3; c4; c5; c6; c7; c8; c9; c10; c11; c12; c13; c14; c15; c16; c17; c18; c19] ++ T) =
  Ok ((tcp_hdr16 r ++ [c16; c17; c18; c19]) ++ T).
Proof.
  intros Hwf.
  destruct (tcp_wf_opts r Hwf) as (_ & _ & _ & _ & Hhl & Hmod & _).
  assert (Hctl : 0 <= tcp_control r <= 4) by (unfold tcp_wf in Hwf; bsplit; lia).
  unfold tcp_emit_head, tcp_hdr16, tcp_flags_word, tcp_ackv, tcp_set_src_port, tcp_set_dst_port,
    tcp_set_seq_number, tcp_set_ack_number, tcp_set_window_len, tcp_set_header_len, tcp_clear_flags,
    tcp_set_flag, wb_put_u16, wb_put_u32, tcp_ctl_mask.
  remember (tcp_repr_header_len r) as hl eqn:Ehl.
  rewrite (Z.mod_small hl) by lia.
  destruct r as [sp dp ctl sq ak win ws mss sackp s0 s1 s2 ts pl];
    cbn [tcp_sport tcp_dport tcp_control tcp_seq tcp_ack tcp_window] in *.
  set (ackv := match ak with Some a => a | None => 0 end). clearbody ackv.
  hstep. hstep. hstep. hstep. hstep. hstep. rewrite ?be_dec_cells2_land. hstep. rewrite ?be_dec_cells2_land.
  assert (Hc : ctl = 0 \/ ctl = 1 \/ ctl = 2 \/ ctl = 3 \/ ctl = 4) by lia.
  unfold tcp_CTL_PSH, tcp_CTL_SYN, tcp_CTL_FIN, tcp_CTL_RST.
  assert (Hfin : forall W V, W = V ->
    Ok ([(sp / 256) mod 256; sp mod 256; (dp / 256) mod 256; dp mod 256; (sq / 16777216) mod 256;
         (sq / 65536) mod 256; (sq / 256) mod 256; sq mod 256; (ackv / 16777216) mod 256;
         (ackv / 65536) mod 256; (ackv / 256) mod 256; ackv mod 256; (W / 256) mod 256; W mod 256;
         (win / 256) mod 256; win mod 256; c16; c17; c18; c19] ++ T) =
    Ok (((be_enc2 sp ++ be_enc2 dp ++ be_enc4 sq ++ be_enc4 ackv ++ be_enc2 V ++ be_enc2 win) ++
         [c16; c17; c18; c19]) ++ T)) by (intros W V ->; reflexivity).
  destruct Hc as [-> | Hc].
  - zfold. cbn [obind]. destruct ak; hstep; rewrite ?be_dec_cells2_land; bits_norm; apply Hfin; flags_solve hl.
  - destruct Hc as [-> | [-> | [-> | ->]]]; zfold; cbn [obind]; hstep; rewrite ?be_dec_cells2_land;
      destruct ak; hstep; rewrite ?be_dec_cells2_land; bits_norm; apply Hfin; flags_solve hl.
Qed.

Lemma tcp_flags_word_facts r : tcp_wf r = true ->
  0 <= tcp_flags_word r < 65536 /\
  (Z.shiftr (tcp_flags_word r) 12 * 4) mod 256 = tcp_repr_header_len r.
Proof.
  intros Hwf. destruct (tcp_wf_opts r Hwf) as (_ & _ & _ & _ & Hhl & Hmod & _).
  assert (Hctl : 0 <= tcp_control r <= 4) by (unfold tcp_wf in Hwf; bsplit; lia).
  unfold tcp_flags_word, tcp_ctl_mask.
  set (f := (if tcp_control r =? 1 then 8 else if tcp_control r =? 2 then 2 else
             if tcp_control r =? 3 then 1 else if tcp_control r =? 4 then 4 else 0) +
            (if tcp_ack r then 16 else 0)).
  assert (Hf : 0 <= f < 32) by (unfold f; repeat case_if; destruct (tcp_ack r); lia).
  replace (tcp_repr_header_len r / 4 * 4096 + _ + _) with (tcp_repr_header_len r / 4 * 4096 + f) by (unfold f; lia).
  rewrite Z.shiftr_div_pow2 by lia. change (2 ^ 12) with 4096.
  split; [lia|].
  replace ((tcp_repr_header_len r / 4 * 4096 + f) / 4096) with (tcp_repr_header_len r / 4) by lia.
  rewrite Z.mod_small by lia. lia.
Qed.

Section Emit2.
Variable sum_fill : list Z -> Z.

Definition tcp_with_ck (r : tcp_repr) (ck : Z) : list Z :=
  tcp_hdr16 r ++ be_enc2 ck ++ be_enc2 0 ++ tcp_opts_bytes r ++ tcp_pad r ++ tcp_payload r.

Definition tcp_ck (tx : bool) (r : tcp_repr) : Z := if tx then sum_fill (tcp_with_ck r 0) else 0.

Definition tcp_bytes (tx : bool) (r : tcp_repr) : list Z := tcp_with_ck r (tcp_ck tx r).

Lemma tcp_emit_tail_spec tx r c16 c17 c18 c19 OA PL : tcp_wf r = true ->
  blen OA = tcp_repr_header_len r - 20 -> blen PL = blen (tcp_payload r) ->
  tcp_emit_tail sum_fill tx r ((tcp_hdr16 r ++ [c16; c17; c18; c19]) ++ OA ++ PL) = Ok (tcp_bytes tx r).
Proof.
  intros Hwf HOA HPL.
  destruct (tcp_wf_opts r Hwf) as (E1 & E2 & E3 & E4 & Hhl & Hmod & Hol & L1 & L2 & L3 & L4).
  destruct (tcp_flags_word_facts r Hwf) as (HV & HVhl).
  unfold tcp_emit_tail, tcp_bytes, tcp_ck, tcp_with_ck, tcp_hdr16.
  fold (tcp_opt_mss r) (tcp_opt_ws r) (tcp_opt_sack r) (tcp_opt_ts r).
  remember (tcp_flags_word r) as V eqn:EV. remember (tcp_repr_header_len r) as hl eqn:Ehl.
  remember (tcp_opt_mss r) as o1. remember (tcp_opt_ws r) as o2. remember (tcp_opt_sack r) as o3.
  remember (tcp_opt_ts r) as o4.
  unfold tcp_opts_bytes, tcp_pad, tcp_opts_len in *.
  rewrite <- Heqo1, <- Heqo2, <- Heqo3, <- Heqo4 in *. rewrite <- Ehl in *.
  remember (tcp_payload r) as payload.
  destruct r as [sp dp ctl sq ak win ws mss sackp s0 s1 s2 ts pl];
    cbn [tcp_sport tcp_dport tcp_seq tcp_window] in *. unfold tcp_ackv. cbn [tcp_ack].
  set (ackv := match ak with Some a => a | None => 0 end). clearbody ackv.
  unfold tcp_header_len_, tcp_flags, wb_get_u16. zfold.
  (* the 20 header octets as explicit cells on the left-hand side *)
  match goal with |- context [(?hd ++ [c16; c17; c18; c19]) ++ OA ++ PL] =>
    let v := eval cbv [be_enc2 be_enc4 app] in (hd ++ [c16; c17; c18; c19]) in
    change (hd ++ [c16; c17; c18; c19]) with v end.
  hstep. rewrite (be_dec_cells2 V) by lia. rewrite HVhl.
  pose proof (blen_nonneg OA). pose proof (blen_nonneg PL).
  rewrite wb_sub_ok by (autorewrite with blen; zfold; lia). cbn [obind].
  (* the four options *)
  match goal with |- context [tcp_opt_step o1 (?P ++ OA ++ PL, 20) hl] => set (P0 := P) end.
  assert (HP0 : blen P0 = 20) by reflexivity.
  replace 20 with (blen P0) at 1 by exact HP0.
  rewrite (tcp_opt_step_at o1 P0 OA PL hl) by (try assumption; lia). cbn [obind].
  pose proof (tcp_oo_bytes_len o1 E1) as B1. pose proof (tcp_oo_bytes_len o2 E2) as B2.
  pose proof (tcp_oo_bytes_len o3 E3) as B3. pose proof (tcp_oo_bytes_len o4 E4) as B4.
  set (A1 := skipn (Z.to_nat (tcp_oo_len o1)) OA).
  assert (HA1 : blen A1 = blen OA - tcp_oo_len o1) by (unfold A1; rewrite blen_skipn; lia).
  rewrite (tcp_opt_step_at o2 _ A1 PL hl) by (try assumption; rewrite ?blen_app; lia). cbn [obind].
  set (A2 := skipn (Z.to_nat (tcp_oo_len o2)) A1).
  assert (HA2 : blen A2 = blen A1 - tcp_oo_len o2) by (unfold A2; rewrite blen_skipn; lia).
  rewrite (tcp_opt_step_at o3 _ A2 PL hl) by (try assumption; rewrite ?blen_app; lia). cbn [obind].
  set (A3 := skipn (Z.to_nat (tcp_oo_len o3)) A2).
  assert (HA3 : blen A3 = blen A2 - tcp_oo_len o3) by (unfold A3; rewrite blen_skipn; lia).
  rewrite (tcp_opt_step_at o4 _ A3 PL hl) by (try assumption; rewrite ?blen_app; lia). cbn [obind fst snd].
  set (A4 := skipn (Z.to_nat (tcp_oo_len o4)) A3).
  assert (HA4 : blen A4 = blen A3 - tcp_oo_len o4) by (unfold A4; rewrite blen_skipn; lia).
  set (P4 := (((P0 ++ tcp_oo_bytes o1) ++ tcp_oo_bytes o2) ++ tcp_oo_bytes o3) ++ tcp_oo_bytes o4).
  assert (HP4 : blen P4 = 20 + (tcp_oo_len o1 + tcp_oo_len o2 + tcp_oo_len o3 + tcp_oo_len o4))
    by (unfold P4; rewrite !blen_app; lia).
  assert (HA4' : blen A4 = hl - blen P4) by lia.
  (* EndOfList fills what is left of the option space *)
  assert (Hend : (if blen P4 <? hl then tcp_option_emit OptEnd (P4 ++ A4 ++ PL) (blen P4) hl
                  else Ok (P4 ++ A4 ++ PL, blen P4)) =
                 Ok (P4 ++ repeat 0 (length A4) ++ PL, if blen P4 <? hl then blen P4 + 1 else blen P4)).
  { destruct (blen P4 <? hl) eqn:E; bsplit.
    - rewrite tcp_option_emit_end by lia. reflexivity.
    - assert (A4 = []) by (apply blen_0_nil; lia). subst A4. rewrite H1. reflexivity. }
  rewrite Hend. cbn [obind fst]. clear Hend.
  replace (length A4) with (Z.to_nat (hl - 20 - (tcp_oo_len o1 + tcp_oo_len o2 + tcp_oo_len o3 + tcp_oo_len o4)))
    by (unfold blen in *; lia).
  set (pad := repeat 0 _).
  assert (Hpad : blen pad = hl - blen P4) by (unfold pad; rewrite blen_repeat; lia).
  unfold P4. rewrite <- !app_assoc. unfold P0.
  set (rest := tcp_oo_bytes o1 ++ tcp_oo_bytes o2 ++ tcp_oo_bytes o3 ++ tcp_oo_bytes o4 ++ pad ++ PL).
  unfold tcp_set_urgent_at, wb_put_u16. zfold. hstep. hstep.
  rewrite (be_dec_cells2 V) by lia. rewrite HVhl.
  (* payload *)
  match goal with |- context [wb_from (?hd ++ rest) hl] => set (H20 := hd) end.
  assert (HH20 : blen H20 = 20) by reflexivity.
  assert (Hsplit : H20 ++ rest = (H20 ++ tcp_oo_bytes o1 ++ tcp_oo_bytes o2 ++ tcp_oo_bytes o3 ++ tcp_oo_bytes o4 ++ pad) ++ PL)
    by (unfold rest; rewrite <- !app_assoc; reflexivity).
  rewrite Hsplit.
  set (HD := H20 ++ tcp_oo_bytes o1 ++ tcp_oo_bytes o2 ++ tcp_oo_bytes o3 ++ tcp_oo_bytes o4 ++ pad).
  assert (HHD : blen HD = hl).
  { unfold HD. rewrite !blen_app. unfold P4 in HP4, Hpad. rewrite !blen_app in HP4, Hpad.
    fold P0 in HP4, Hpad. lia. }
  rewrite wb_from_tail by lia. cbn [obind].
  rewrite wb_upto_all' by lia. cbn [obind].
  rewrite wb_set_slice_tail by lia. cbn [obind].
  (* checksum *)
  unfold HD, H20. rewrite <- !app_assoc.
  destruct tx.
  - unfold tcp_fill_checksum, tcp_set_checksum, wb_put_u16. zfold. hstep. zfold. hstep.
    unfold be_enc2, be_enc4, pad. cbn [app]. reflexivity.
  - unfold tcp_set_checksum, wb_put_u16. zfold. hstep.
    unfold be_enc2, be_enc4, pad. cbn [app]. zfold. reflexivity.
Qed.

Lemma tcp_emit_spec tx r b : tcp_wf r = true -> blen b = tcp_buffer_len r ->
  tcp_emit sum_fill tx r b = Ok (tcp_bytes tx r).
Proof.
  intros Hwf Hb.
  destruct (tcp_wf_opts r Hwf) as (_ & _ & _ & _ & Hhl & _).
  unfold tcp_buffer_len in Hb. pose proof (blen_nonneg (tcp_payload r)) as Hpl.
  destruct (split_hdr b 20) as (H & T & -> & HH & HT); [lia|].
  zfold_in HH. cells HH.
  destruct (split_hdr T (tcp_repr_header_len r - 20)) as (OA & PL & -> & HOA & HPL); [lia|].
  rewrite tcp_emit_split. rewrite tcp_emit_head_spec by assumption. cbn [obind].
  apply tcp_emit_tail_spec; [assumption | unfold blen; lia | lia].
Qed.

Lemma tcp_bytes_len tx r : tcp_wf r = true -> blen (tcp_bytes tx r) = tcp_buffer_len r.
Proof.
  intros Hwf. destruct (tcp_wf_opts r Hwf) as (E1 & E2 & E3 & E4 & Hhl & Hmod & Hol & L1 & L2 & L3 & L4).
  unfold tcp_bytes, tcp_with_ck, tcp_hdr16, tcp_buffer_len, tcp_opts_bytes, tcp_pad.
  rewrite !blen_app, blen_repeat, !tcp_oo_bytes_len by assumption. unfold tcp_opts_len in *.
  unfold be_enc2, be_enc4. autorewrite with blen. zfold. lia.
Qed.

Lemma tcp_emit_no_panic tx r b : tcp_wf r = true -> blen b = tcp_buffer_len r ->
  tcp_emit sum_fill tx r b <> Panic.
Proof. intros; rewrite tcp_emit_spec by assumption; discriminate. Qed.

Lemma tcp_emit_ignores_old_bytes tx r b1 b2 : tcp_wf r = true ->
  blen b1 = tcp_buffer_len r -> blen b2 = tcp_buffer_len r ->
  tcp_emit sum_fill tx r b1 = tcp_emit sum_fill tx r b2.
Proof. intros; rewrite !tcp_emit_spec by assumption; reflexivity. Qed.

End Emit2.
