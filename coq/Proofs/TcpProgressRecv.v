(* C02 (liveness half), layer 2a: how a RECEIVING socket reacts - the receiver's half of the
   two-socket progress argument.  Content-free (liveness does not care which octets arrive; that is
   C04/C01): only lengths, sequence numbers and the ACK bookkeeping.
     payload_in_order        the payload phase with a non-empty payload at RCV.NXT: the receive
                             queue grows by at least the payload length (the assembler never refuses
                             offset 0: C15), RCV.NXT advances, and either an ACK for the new RCV.NXT
                             is emitted at once or the ACK is owed (remote_last_ack unchanged)
     process_in_order        the same through the whole of `process` for an ESTABLISHED socket and a
                             segment that starts exactly at RCV.NXT with the window open
     process_stale_data      a data segment that is not acceptable (entirely below RCV.NXT, or the
                             window is closed) is answered at once by an ACK carrying RCV.NXT and
                             the current window
     dispatch_sends_owed_ack an owed ACK whose delay has expired makes dispatch transmit; whatever an
                             ESTABLISHED socket transmits carries ack = RCV.NXT (C04's dispatch_spec). *)
From SV Require Import Lib.Base Gen.Consts.
From SV Require Import Model.Seq32 Model.Assembler Model.TcpBuf Model.TcpTypes Model.Tcp.
From SV Require Import Proofs.AssemblerProofs Proofs.TcpRecvBase Proofs.TcpRecvWindow
  Proofs.TcpRecvPayload Proofs.TcpRecvInv Proofs.TcpRecvProcess Proofs.TcpRecvDispatch.
From SV Require Proofs.TcpSendBase.
From SV Require Import Proofs.TcpProgressFrame.

(* ---------------------------------------------------------------------------------------- *)
(* ring lengths                                                                              *)
(* ---------------------------------------------------------------------------------------- *)
Lemma rb_write_pass_len r o d :
  rb_len (fst (rb_write_pass r o d)) = rb_len r /\ rb_cap (fst (rb_write_pass r o d)) = rb_cap r.
Proof. unfold rb_write_pass. destruct (rb_get_unallocated r o (l_len d)) as (a, n). cbn. auto. Qed.

Lemma rb_write_unallocated_len r o d :
  rb_len (fst (rb_write_unallocated r o d)) = rb_len r /\
  rb_cap (fst (rb_write_unallocated r o d)) = rb_cap r.
Proof.
  unfold rb_write_unallocated.
  pose proof (rb_write_pass_len r o d) as (A1 & A2).
  destruct (rb_write_pass r o d) as (r1, n1). cbn [fst] in A1, A2.
  pose proof (rb_write_pass_len r1 (o + n1) (l_drop n1 d)) as (B1 & B2).
  destruct (rb_write_pass r1 (o + n1) (l_drop n1 d)) as (r2, n2). cbn [fst] in *. split; congruence.
Qed.

Lemma rb_enqueue_unallocated_len r c r' :
  rb_enqueue_unallocated r c = Ok r' -> rb_len r' = rb_len r + c /\ rb_cap r' = rb_cap r.
Proof.
  unfold rb_enqueue_unallocated. destruct (c <=? rb_window r); [|discriminate].
  intros H. inversion H; subst. cbn. auto.
Qed.

(* offset 0 is never refused and the contiguous run covers the whole range added *)
Lemma atrf_offset0 a n a' res :
  asm_wf a -> Z.of_nat (length a) <= asm_cap -> 0 < n ->
  asm_atrf asm_cap a 0 n = (a', res) -> exists c, res = Some c /\ n <= c.
Proof.
  intros Hwf Hlen Hn Hat.
  pose proof (c15_atrf asm_cap a 0 n a' res Hwf Hlen asm_cap_pos ltac:(lia) ltac:(lia) Hat) as Hs.
  destruct res as [c|]; [|destruct Hs as (Hs & _); congruence].
  exists c. split; [reflexivity|].
  destruct Hs as (u & Hu & Hmem & Hrf).
  destruct (c15_remove_front u a' c Hu Hrf) as (_ & Hc0 & Hz & Hp).
  assert (Ht : forall x, 0 <= x < n -> tracked u x) by (intros x Hx; apply Hmem; right; lia).
  destruct (Z.eq_dec c 0) as [E|E].
  - exfalso. destruct (Hz E) as (_ & Hn0). apply Hn0. apply Ht. lia.
  - destruct (Hp ltac:(lia)) as (_ & Hnc & _).
    destruct (Z_lt_le_dec c n) as [Hlt|Hge]; [|exact Hge].
    exfalso. apply Hnc. apply Ht. lia.
Qed.

(* ---------------------------------------------------------------------------------------- *)
(* the payload phase, in order                                                               *)
(* ---------------------------------------------------------------------------------------- *)
Lemma payload_in_order cx s ip r payload s' rep tg :
  asm_wf (s_assembler s) -> Z.of_nat (length (s_assembler s)) <= asm_cap ->
  0 < l_len payload ->
  tcp_process_payload cx s ip r payload 0 = Ok (s', rep, tg) ->
  exists m, l_len payload <= m /\
    rb_len (s_rx_buffer s') = rb_len (s_rx_buffer s) + m /\
    rb_cap (s_rx_buffer s') = rb_cap (s_rx_buffer s) /\
    s_remote_seq_no s' = s_remote_seq_no s /\ s_state s' = s_state s /\
    s_rx_fin_received s' = s_rx_fin_received s /\ s_remote_win_shift s' = s_remote_win_shift s /\
    ((exists p, rep = Some p /\ r_ack_number (snd p) = Some (tcp_window_start s') /\
                r_control (snd p) = CNone /\ r_payload (snd p) = [] /\
                s_remote_last_ack s' = Some (tcp_window_start s'))
     \/ (rep = None /\ s_remote_last_ack s' = s_remote_last_ack s /\
         s_remote_last_win s' = s_remote_last_win s)).
Proof.
  intros Hwf Hlen Hpl H. unfold tcp_process_payload in H.
  destruct (Z.eqb_spec (l_len payload) 0) as [E0|E0]; [lia|].
  fold asm_cap in H.
  destruct (asm_atrf asm_cap (s_assembler s) 0 (l_len payload)) as (a', res) eqn:Hat.
  destruct (atrf_offset0 _ _ _ _ Hwf Hlen Hpl Hat) as (contig & -> & Hc).
  rproj.
  pose proof (rb_write_unallocated_len (s_rx_buffer s) 0 payload) as (W1 & W2).
  destruct (rb_write_unallocated (s_rx_buffer s) 0 payload) as (rx1, n). cbn [fst] in W1, W2.
  destruct (negb (n =? l_len payload)); [discriminate|].
  destruct (Z.eqb_spec contig 0) as [Ec|Ec]; [lia|]. cbn [negb] in H.
  apply obind_ok_inv in H. destruct H as (rx2 & He & H).
  destruct (rb_enqueue_unallocated_len _ _ _ He) as (L2 & C2).
  set (s1 := upd_rx_buffer (upd_assembler s a') rx2) in *.
  match type of H with
  | (let '(s, tg) := ?X in _) = _ => set (dk := X) in *
  end.
  assert (Hdk : frame (fst dk) s1).
  { unfold dk. repeat match goal with
    | |- context [match ?x with _ => _ end] => destruct x
    end; cbn [fst]; frame_solve. }
  destruct dk as (s2, tg2). cbn [fst] in Hdk. destruct Hdk as (Hv2 & Hst2).
  pose proof Hv2 as (E1 & E2 & E3 & E4 & E5 & E6 & E7). unfold s1 in E1, E2, E3, E4, E5, E6, E7, Hst2.
  rproj.
  exists contig. split; [exact Hc|].
  destruct (negb (asm_is_empty (s_assembler s2)) || negb (asm_is_empty (s_assembler s))).
  - destruct (tcp_ack_reply cx s2 ip r) as (s3, p) eqn:Har.
    inversion H; subst s' rep tg; clear H.
    destruct (ack_reply_rxv _ _ _ _ _ _ Har) as (Ha & Hst3 & Hp1 & Hp2 & Hp3).
    pose proof (acked_window_start _ _ Ha) as Hws3.
    assert (Hpay : r_payload (snd p) = []).
    { unfold tcp_ack_reply in Har. destruct (tcp_reply ip r) as (ip', reply).
      inversion Har; subst. reflexivity. }
    destruct Ha as (A1 & A2 & A3 & A4 & A5 & A6 & A7).
    rewrite A2, E2. split; [lia|]. split; [lia|].
    split; [congruence|]. split; [congruence|]. split; [congruence|]. split; [congruence|].
    left. exists p. split; [reflexivity|]. rewrite Hws3. split; [exact Hp1|].
    split; [exact Hp2|]. split; [exact Hpay | exact A5].
  - inversion H; subst s' rep tg; clear H.
    rewrite E2. split; [lia|]. split; [lia|].
    split; [congruence|]. split; [congruence|]. split; [congruence|]. split; [congruence|].
    right. split; [reflexivity|]. split; congruence.
Qed.

(* ---------------------------------------------------------------------------------------- *)
(* `process` of a data segment that starts exactly at RCV.NXT, window open                   *)
(* ---------------------------------------------------------------------------------------- *)
Lemma l_slice_len0 n l : 0 <= n <= l_len l -> l_len (l_slice 0 n l) = n.
Proof.
  intros H. rewrite l_slice_spec, firstn_len_Z by lia. rewrite skipn_len_Z by lia. lia.
Qed.

Notation sq := TcpSendBase.sq.

Lemma sq_self a : 0 <= a < 4294967296 -> a = sq (a + 0).
Proof. intros H. rewrite Z.add_0_r. symmetry. apply TcpSendBase.sq_small. exact H. Qed.

Lemma seq_lt_self_add0 a : 0 <= a < 4294967296 -> seq_lt a (seq_add a 0) = false.
Proof.
  intros H. rewrite TcpSendBase.seq_add_raw. rewrite (sq_self a H) at 1.
  rewrite TcpSendBase.seq_lt_sq by (change (2 ^ 31) with 2147483648; lia). lia.
Qed.

Lemma seq_gt_self_add a k : 0 <= a < 4294967296 -> 0 <= k < 2147483648 -> seq_gt a (seq_add a k) = false.
Proof.
  intros Ha Hk. rewrite TcpSendBase.seq_add_raw. rewrite (sq_self a Ha) at 1.
  rewrite TcpSendBase.seq_gt_sq by (change (2 ^ 31) with 2147483648; lia). lia.
Qed.

(* the ACK check lets through a segment that acknowledges exactly SND.UNA (ESTABLISHED) *)
Lemma ack_check_una cx s ip r :
  s_state s = Established -> (r_control r = CNone \/ r_control r = CPsh) ->
  r_ack_number r = Some (s_local_seq_no s) ->
  0 <= s_local_seq_no s < 4294967296 -> 0 <= rb_len (s_tx_buffer s) < 2147483648 ->
  tcp_process_ack_check cx s ip r = Ok (Cont 116 tt).
Proof.
  intros Hst Hc Ha Hu Ht. unfold tcp_process_ack_check. rewrite Hst, Ha.
  unfold tcp_sent_syn, tcp_sent_fin. rewrite Hst. cbn [b2z Z.add].
  rewrite (seq_lt_self_add0 _ Hu). rewrite Z.add_0_r, (seq_gt_self_add _ _ Hu Ht).
  destruct Hc as [-> | ->]; reflexivity.
Qed.

Lemma in_window_sq b W n :
  0 < W <= p30 -> 0 < n <= p30 ->
  fst (tcp_segment_in_window (sq (b + 0)) (sq (b + W)) (sq (b + 0)) (sq (b + n))) = true.
Proof.
  intros HW Hn. unfold tcp_segment_in_window, p30 in *.
  rewrite (TcpSendBase.sq_eqb b 0 n) by (change (2 ^ 32) with 4294967296; lia).
  rewrite (TcpSendBase.sq_eqb b 0 W) by (change (2 ^ 32) with 4294967296; lia).
  destruct (Z.eqb_spec 0 n); [lia|]. destruct (Z.eqb_spec 0 W); [lia|]. cbn [andb].
  rewrite (TcpSendBase.seq_le_sq b 0 0), (TcpSendBase.seq_lt_sq b 0 W) by (change (2 ^ 31) with 2147483648; lia).
  destruct (Z.leb_spec 0 0); [|lia]. destruct (Z.ltb_spec 0 W); [|lia]. reflexivity.
Qed.

Lemma in_window_at_start ws W n :
  0 <= ws < 4294967296 -> 0 < W <= p30 -> 0 < n <= p30 ->
  fst (tcp_segment_in_window ws (seq_norm (ws + W)) ws (seq_add ws n)) = true.
Proof.
  intros Hws HW Hn. pose proof (in_window_sq ws W n HW Hn) as H.
  rewrite <- (sq_self ws Hws) in H. exact H.
Qed.

Lemma window_start_range s : 0 <= tcp_window_start s < 4294967296.
Proof. unfold tcp_window_start. rewrite seq_add_as_norm. apply seq_norm_range. Qed.

(* what the receive path needs of the socket: the assembler is well-formed (C15 / C04) *)
Definition rcv_wf (s : socket) : Prop :=
  asm_wf (s_assembler s) /\ Z.of_nat (length (s_assembler s)) <= asm_cap.

Lemma rcv_wf_view s' s : s_assembler s' = s_assembler s -> rcv_wf s -> rcv_wf s'.
Proof. unfold rcv_wf. intros ->. tauto. Qed.

(* RECEIVER PROGRESS STEP.  An ESTABLISHED socket whose advertised window is open (W > 0) processes a
   data segment (no SYN/FIN/RST) that starts exactly at RCV.NXT and acknowledges exactly SND.UNA:
   RCV.NXT advances by at least min(W, payload length) >= 1 octets; an ACK of the new RCV.NXT goes
   out at once, or it is owed (remote_last_ack unchanged, below the new RCV.NXT). *)
Theorem process_in_order cx s ip r s' rep tags W :
  s_state s = Established -> rcv_wf s ->
  tcp_window_end s = seq_norm (tcp_window_start s + W) -> 0 < W <= p30 ->
  r_seq_number r = tcp_window_start s ->
  0 < l_len (r_payload r) <= p30 ->
  (r_control r = CNone \/ r_control r = CPsh) ->
  r_ack_number r = Some (s_local_seq_no s) ->
  0 <= s_local_seq_no s < 4294967296 -> 0 <= rb_len (s_tx_buffer s) < 2147483648 ->
  tcp_process cx s ip r = Ok (s', rep, tags) ->
  exists m, Z.min W (l_len (r_payload r)) <= m /\
    rb_len (s_rx_buffer s') = rb_len (s_rx_buffer s) + m /\
    rb_cap (s_rx_buffer s') = rb_cap (s_rx_buffer s) /\
    s_remote_seq_no s' = s_remote_seq_no s /\ s_state s' = Established /\
    s_rx_fin_received s' = s_rx_fin_received s /\ s_remote_win_shift s' = s_remote_win_shift s /\
    ((exists p, rep = Some p /\ r_ack_number (snd p) = Some (tcp_window_start s') /\
                r_control (snd p) = CNone /\ r_payload (snd p) = [] /\
                s_remote_last_ack s' = Some (tcp_window_start s'))
     \/ (rep = None /\ s_remote_last_ack s' = s_remote_last_ack s /\
         s_remote_last_win s' = s_remote_last_win s)).
Proof.
  intros Hst Hrw Hwe HW Hseq Hlen Hctl Hack Hu Htx H.
  pose proof (window_start_range s) as Hws.
  unfold tcp_process in H.
  destruct (negb (tcp_accepts s ip r)); [discriminate|].
  rewrite (ack_check_una cx s ip r Hst Hctl Hack Hu Htx) in H. cbn [obind] in H.
  (* window phase: in the window, nothing trimmed on the left *)
  apply obind_ok_inv in H. destruct H as (p2 & H2 & H).
  set (WS := s_remote_seq_no s + rb_len (s_rx_buffer s)) in *.
  assert (Ews : tcp_window_start s = seq_norm WS) by (unfold tcp_window_start, WS; apply seq_add_as_norm).
  assert (Ewe : tcp_window_end s = seq_norm (WS + W)).
  { rewrite Hwe, Ews. rewrite <- seq_add_as_norm. apply seq_add_norm. }
  assert (Esq : r_seq_number r = seq_norm (WS + 0)) by (rewrite Z.add_0_r, <- Ews; exact Hseq).
  assert (Hsynced : match s_state s with Listen | SynSent => False | _ => True end) by (rewrite Hst; exact I).
  pose proof (process_window_spec cx s ip r WS W 0 Ews Ewe Esq ltac:(lia) ltac:(lia) ltac:(lia) Hsynced) as P2.
  cbv zeta in P2. rewrite H2 in P2.
  destruct p2 as [t2 ((s2, payload), off)|t2 s2r rep2].
  2:{ (* not possible: the segment is in the window *)
      exfalso. unfold tcp_process_window in H2. rewrite Hst in H2.
      rewrite Hseq, Hwe in H2.
      pose proof (in_window_at_start (tcp_window_start s) W (l_len (r_payload r)) Hws HW Hlen) as Hin.
      destruct (tcp_segment_in_window _ _ _ _) as (inw, tg). cbn [fst] in Hin. subst inw.
      destruct (negb (seq_le _ _)); [discriminate|].
      repeat match type of H2 with
             | (do _ <- ?m; _) = _ => destruct m; cbn [obind] in H2; try discriminate
             end. }
  destruct P2 as (_ & -> & -> & ->).
  unfold trim_off, trim_lo, trim_len in *.
  change (Z.max 0 (- 0)) with 0 in *. change (Z.max 0 0) with 0 in *.
  rewrite Z.add_0_l, Z.sub_0_r in *.
  set (n := Z.min W (l_len (r_payload r))) in *.
  set (s2 := upd_local_rx_last_seq s (Some (r_seq_number r))) in *.
  assert (F2 : frame s2 s) by (unfold s2; frame_solve).
  (* ack_len, quash, transition: ESTABLISHED, no FIN *)
  apply obind_ok_inv in H. destruct H as (((al & aof) & aall) & _ & H).
  assert (Hq : tcp_process_quash s2 r = CNone).
  { unfold tcp_process_quash. destruct Hctl as [-> | ->]; reflexivity. }
  rewrite Hq in H.
  assert (Hst2 : s_state s2 = Established) by (unfold s2; rproj; exact Hst).
  unfold tcp_process_transition in H. rewrite Hst2 in H. cbn [obind] in H.
  apply obind_ok_inv in H. destruct H as ((s4 & wu) & H4 & H).
  pose proof (update_remote_frame _ _ _ _ _ _ H4) as F4.
  apply obind_ok_inv in H. destruct H as ((s5 & t5) & H5 & H).
  pose proof (dup_ack_frame _ _ _ _ _ _ _ H5) as F5.
  pose proof (tsval_frame s5 r) as F5'.
  set (q5 := match r_timestamp r with
             | Some (tsval, _) => upd_last_remote_tsval s5 tsval
             | None => s5
             end) in *. clearbody q5.
  pose proof (timers_frame cx q5 al aall) as F6.
  destruct (tcp_process_timers cx q5 al aall) as (s6, t6). cbn [fst] in F6.
  pose proof (zwp_frame cx s6 al) as F7.
  destruct (tcp_process_zwp cx s6 al) as (s7, t7). cbn [fst] in F7.
  apply obind_ok_inv in H. destruct H as (((s8 & rep8) & t8) & H8 & H).
  inversion H; subst s' rep tags; clear H.
  assert (F : frame s7 s).
  { eapply frame_trans; [exact F7|]. eapply frame_trans; [exact F6|]. eapply frame_trans; [exact F5'|].
    eapply frame_trans; [exact F5|]. eapply frame_trans; [exact F4 | exact F2]. }
  destruct F as ((E1 & E2 & E3 & E4 & E5 & E6 & E7) & Est).
  assert (Hpl : l_len (l_slice 0 n (r_payload r)) = n).
  { apply l_slice_len0. unfold n, p30 in *. lia. }
  assert (Hn : 0 < n) by (unfold n, p30 in *; lia).
  destruct (rcv_wf_view _ _ E1 Hrw) as (Hw7a & Hw7b).
  assert (Hpl0 : 0 < l_len (l_slice 0 n (r_payload r))) by lia.
  destruct (payload_in_order cx s7 ip r (l_slice 0 n (r_payload r)) s8 rep8 t8 Hw7a Hw7b Hpl0 H8)
    as (m & Hm & L & C & Sq & St & Fi & Sh & Hack8).
  exists m. rewrite Hpl in Hm. split; [exact Hm|].
  rewrite L, C, Sq, St, Fi, Sh, E2, E4, Est, E3, E7, Hst.
  repeat (split; [reflexivity|]).
  destruct Hack8 as [Hs | (-> & Ha & Hw)]; [left; exact Hs | right].
  split; [reflexivity|]. split; congruence.
Qed.

(* ---------------------------------------------------------------------------------------- *)
(* the payload phase in general: RCV.NXT never moves back, replies are pure ACKs of RCV.NXT   *)
(* ---------------------------------------------------------------------------------------- *)
(* a reply of the receive path: nothing, or an empty ACK carrying RCV.NXT (and remote_last_ack records it) *)
Definition pure_ack_of (s' : socket) (rep : option packet) : Prop :=
  match rep with
  | None => True
  | Some p => r_ack_number (snd p) = Some (tcp_window_start s') /\ r_control (snd p) = CNone /\
              r_payload (snd p) = [] /\ s_remote_last_ack s' = Some (tcp_window_start s')
  end.

Lemma ack_reply_payload cx s ip r : r_payload (snd (snd (tcp_ack_reply cx s ip r))) = [].
Proof. unfold tcp_ack_reply. destruct (tcp_reply ip r) as (ip', reply). reflexivity. Qed.

Lemma payload_mono cx s ip r payload off s' rep tg :
  rcv_wf s -> 0 <= off ->
  tcp_process_payload cx s ip r payload off = Ok (s', rep, tg) ->
  rcv_wf s' /\ rb_len (s_rx_buffer s) <= rb_len (s_rx_buffer s') /\
  rb_cap (s_rx_buffer s') = rb_cap (s_rx_buffer s) /\
  s_remote_seq_no s' = s_remote_seq_no s /\ s_state s' = s_state s /\
  s_rx_fin_received s' = s_rx_fin_received s /\ s_remote_win_shift s' = s_remote_win_shift s /\
  pure_ack_of s' rep /\
  (rep = None -> s_remote_last_ack s' = s_remote_last_ack s /\ s_remote_last_win s' = s_remote_last_win s).
Proof.
  intros (Hwf & Hlen) Hoff H. unfold tcp_process_payload in H.
  pose proof (l_len_nonneg payload) as Hl0.
  destruct (Z.eqb_spec (l_len payload) 0) as [E0|E0].
  { inversion H; subst. repeat split; auto; try lia. }
  fold asm_cap in H.
  destruct (asm_atrf asm_cap (s_assembler s) off (l_len payload)) as (a', res) eqn:Hat.
  pose proof (step_inv asm_cap (s_assembler s) (AAtrf off (l_len payload)) asm_cap_pos
                (conj Hwf Hlen) (conj Hoff Hl0)) as Hinv'.
  cbn [asm_step] in Hinv'. rewrite Hat in Hinv'. cbn [fst] in Hinv'.
  pose proof (c15_atrf asm_cap (s_assembler s) off (l_len payload) a' res Hwf Hlen asm_cap_pos Hoff Hl0 Hat) as Hs.
  destruct res as [contig|].
  2:{ inversion H; subst. repeat split; auto; try lia. }
  assert (Hc0 : 0 <= contig).
  { destruct Hs as (u & Hu & _ & Hrf). destruct (c15_remove_front u a' contig Hu Hrf) as (_ & Hc & _). exact Hc. }
  rproj.
  pose proof (rb_write_unallocated_len (s_rx_buffer s) off payload) as (W1 & W2).
  destruct (rb_write_unallocated (s_rx_buffer s) off payload) as (rx1, n). cbn [fst] in W1, W2.
  destruct (negb (n =? l_len payload)); [discriminate|].
  apply obind_ok_inv in H. destruct H as (rx2 & He & H).
  assert (L2 : rb_len rx2 = rb_len (s_rx_buffer s) + (if contig =? 0 then 0 else contig) /\ rb_cap rx2 = rb_cap (s_rx_buffer s)).
  { destruct (contig =? 0); cbn [negb] in He.
    - inversion He; subst. lia.
    - destruct (rb_enqueue_unallocated_len _ _ _ He). lia. }
  destruct L2 as (L2 & C2).
  set (s1 := upd_rx_buffer (upd_assembler s a') rx2) in *.
  match type of H with
  | (let '(s, tg) := ?X in _) = _ => set (dk := X) in *
  end.
  assert (Hdk : frame (fst dk) s1).
  { unfold dk. repeat match goal with
    | |- context [match ?x with _ => _ end] => destruct x
    end; cbn [fst]; frame_solve. }
  destruct dk as (s2, tg2). cbn [fst] in Hdk. destruct Hdk as (Hv2 & Hst2).
  pose proof Hv2 as (E1 & E2 & E3 & E4 & E5 & E6 & E7). unfold s1 in E1, E2, E3, E4, E5, E6, E7, Hst2.
  rproj.
  assert (Hgrow : rb_len (s_rx_buffer s) <= rb_len rx2) by (destruct (contig =? 0); lia).
  destruct (negb (asm_is_empty (s_assembler s2)) || negb (asm_is_empty (s_assembler s))).
  - destruct (tcp_ack_reply cx s2 ip r) as (s3, p) eqn:Har.
    inversion H; subst s' rep tg; clear H.
    destruct (ack_reply_rxv _ _ _ _ _ _ Har) as (Ha & Hst3 & Hp1 & Hp2 & Hp3).
    pose proof (acked_window_start _ _ Ha) as Hws3.
    pose proof (ack_reply_payload cx s2 ip r) as Hpay. rewrite Har in Hpay. cbn [snd] in Hpay.
    destruct Ha as (A1 & A2 & A3 & A4 & A5 & A6 & A7).
    split; [unfold rcv_wf; rewrite A1, E1; exact Hinv'|].
    rewrite A2, E2. split; [exact Hgrow|]. split; [exact C2|].
    split; [congruence|]. split; [congruence|]. split; [congruence|]. split; [congruence|].
    split; [|discriminate].
    unfold pure_ack_of. rewrite Hws3. repeat split; assumption.
  - inversion H; subst s' rep tg; clear H.
    split; [unfold rcv_wf; rewrite E1; exact Hinv'|].
    rewrite E2. split; [exact Hgrow|]. split; [exact C2|].
    split; [congruence|]. split; [congruence|]. split; [congruence|]. split; [congruence|].
    split; [exact I|]. intros _. split; congruence.
Qed.

(* ---------------------------------------------------------------------------------------- *)
(* any data/ACK segment of the peer on an ESTABLISHED receiver                               *)
(* ---------------------------------------------------------------------------------------- *)
(* the window advertised last is not behind RCV.NXT and at most 2^30 wide (C04: win_ok / misc_ok) *)
Definition adv_ok (s : socket) : Prop :=
  exists W, 0 <= W <= p30 /\ tcp_window_end s = seq_norm (tcp_window_start s + W).

(* RCV.NXT as the pair the model keeps it in *)
Definition rcv_same (s' s : socket) : Prop :=
  s_rx_buffer s' = s_rx_buffer s /\ s_remote_seq_no s' = s_remote_seq_no s /\
  s_rx_fin_received s' = s_rx_fin_received s /\ s_assembler s' = s_assembler s /\
  s_state s' = s_state s.

Lemma rcv_same_of_eq s' s : rxv_eq s' s -> s_state s' = s_state s -> rcv_same s' s.
Proof. intros (E1 & E2 & E3 & E4 & _) Hst. repeat split; assumption. Qed.
Lemma rcv_same_of_acked s' s : rxv_acked s' s -> s_state s' = s_state s -> rcv_same s' s.
Proof. intros (E1 & E2 & E3 & E4 & _) Hst. repeat split; assumption. Qed.
Lemma rcv_same_trans a b c : rcv_same a b -> rcv_same b c -> rcv_same a c.
Proof. unfold rcv_same. intuition congruence. Qed.
Lemma rcv_same_ws s' s : rcv_same s' s -> tcp_window_start s' = tcp_window_start s.
Proof. unfold tcp_window_start. intros (-> & -> & _). reflexivity. Qed.

Lemma ack_reply_rcv cx s0 ip r s' p :
  tcp_ack_reply cx s0 ip r = (s', p) -> pure_ack_of s' (Some p) /\ rcv_same s' s0.
Proof.
  intros Har. destruct (ack_reply_rxv _ _ _ _ _ _ Har) as (Ha & Hst & Hp1 & Hp2 & Hp3).
  pose proof (acked_window_start _ _ Ha) as Hws.
  pose proof (ack_reply_payload cx s0 ip r) as Hpay. rewrite Har in Hpay. cbn [snd] in Hpay.
  split; [|apply rcv_same_of_acked; assumption].
  destruct Ha as (A1 & A2 & A3 & A4 & A5 & A6 & A7).
  unfold pure_ack_of. rewrite Hws. repeat split; assumption.
Qed.

Lemma challenge_rcv cx s0 ip r s' rep :
  tcp_challenge_ack_reply cx s0 ip r = (s', rep) ->
  pure_ack_of s' rep /\ rcv_same s' s0 /\ (rep = None -> s_remote_last_ack s' = s_remote_last_ack s0).
Proof.
  unfold tcp_challenge_ack_reply. destruct (cx_now cx <? s_challenge_ack_timer s0).
  - intros H; inversion H; subst. split; [exact I|]. split; [repeat split|]. reflexivity.
  - destruct (tcp_ack_reply cx (upd_challenge_ack_timer s0 (cx_now cx + 1000000)) ip r) as (s1, p) eqn:E.
    intros H; inversion H; subst s' rep; clear H.
    destruct (ack_reply_rcv _ _ _ _ _ _ E) as (Hp & Hs). split; [exact Hp|].
    split; [|discriminate]. eapply rcv_same_trans; [exact Hs|]. unfold rcv_same. rproj. repeat split.
Qed.

(* RECEIVER, GENERAL.  An ESTABLISHED socket processes a segment without SYN/FIN/RST that
   acknowledges exactly SND.UNA (what the peer of a socket that sends nothing emits), anywhere in the
   sequence space: RCV.NXT does not move back, the state stays ESTABLISHED, the assembler stays
   well-formed, and whatever is replied is an empty ACK carrying the (new) RCV.NXT. *)
Theorem process_rcv_mono cx s ip r s' rep tags :
  s_state s = Established -> rcv_wf s -> adv_ok s ->
  l_len (r_payload r) <= p30 -> 0 <= r_seq_number r < 4294967296 ->
  (r_control r = CNone \/ r_control r = CPsh) ->
  r_ack_number r = Some (s_local_seq_no s) ->
  0 <= s_local_seq_no s < 4294967296 -> 0 <= rb_len (s_tx_buffer s) < 2147483648 ->
  tcp_process cx s ip r = Ok (s', rep, tags) ->
  rcv_wf s' /\ rb_len (s_rx_buffer s) <= rb_len (s_rx_buffer s') /\
  rb_cap (s_rx_buffer s') = rb_cap (s_rx_buffer s) /\
  s_remote_seq_no s' = s_remote_seq_no s /\ s_state s' = Established /\
  s_rx_fin_received s' = s_rx_fin_received s /\
  pure_ack_of s' rep /\
  (rep = None -> s_remote_last_ack s' = s_remote_last_ack s).
Proof.
  intros Hst Hrw (W & HW & Hwe) Hlen Hsq Hctl Hack Hu Htx H.
  unfold tcp_process in H.
  destruct (negb (tcp_accepts s ip r)); [discriminate|].
  rewrite (ack_check_una cx s ip r Hst Hctl Hack Hu Htx) in H. cbn [obind] in H.
  apply obind_ok_inv in H. destruct H as (p2 & H2 & H).
  set (WS := s_remote_seq_no s + rb_len (s_rx_buffer s)) in *.
  assert (Ews : tcp_window_start s = seq_norm WS) by (unfold tcp_window_start, WS; apply seq_add_as_norm).
  assert (Ewe : tcp_window_end s = seq_norm (WS + W)).
  { rewrite Hwe, Ews. rewrite <- seq_add_as_norm. apply seq_add_norm. }
  set (d := seq_sdiff (r_seq_number r) (seq_norm WS)).
  assert (Hd : -2147483648 <= d < 2147483648) by apply seq_sdiff_range.
  assert (Esq : r_seq_number r = seq_norm (WS + d)).
  { pose proof (seq_norm_of_sdiff (r_seq_number r) (seq_norm WS) Hsq) as Hx. fold d in Hx.
    rewrite Hx. rewrite <- seq_add_as_norm. apply seq_add_norm. }
  assert (Hsynced : match s_state s with Listen | SynSent => False | _ => True end) by (rewrite Hst; exact I).
  pose proof (process_window_spec cx s ip r WS W d Ews Ewe Esq HW Hlen Hd Hsynced) as P2.
  cbv zeta in P2. rewrite H2 in P2.
  destruct p2 as [t2 ((s2, payload), off)|t2 s2r rep2].
  2:{ (* rejected: unchanged, or an ACK *)
      inversion H; subst s' rep tags; clear H.
      assert (Hgoal : forall s1 rp, pure_ack_of s1 rp -> rcv_same s1 s ->
                (rp = None -> s_remote_last_ack s1 = s_remote_last_ack s) ->
                rcv_wf s1 /\ rb_len (s_rx_buffer s) <= rb_len (s_rx_buffer s1) /\
                rb_cap (s_rx_buffer s1) = rb_cap (s_rx_buffer s) /\
                s_remote_seq_no s1 = s_remote_seq_no s /\ s_state s1 = Established /\
                s_rx_fin_received s1 = s_rx_fin_received s /\ pure_ack_of s1 rp /\
                (rp = None -> s_remote_last_ack s1 = s_remote_last_ack s)).
      { intros s1 rp Hp (R1 & R2 & R3 & R4 & R5) Hn. unfold rcv_wf. rewrite R1, R2, R3, R4, R5, Hst.
        repeat split; try apply Hrw; try lia; assumption. }
      destruct P2 as [(-> & ->) | (s0 & Hs0 & Hrep)].
      - apply Hgoal; [exact I | repeat split | reflexivity].
      - assert (R0 : rcv_same s0 s /\ s_remote_last_ack s0 = s_remote_last_ack s).
        { destruct Hs0 as [-> | ->]; [split; [repeat split | reflexivity]|].
          unfold rcv_same. rproj. repeat split. }
        destruct R0 as (R0 & L0).
        destruct Hrep as [(p & Har & ->) | Hch].
        + destruct (ack_reply_rcv _ _ _ _ _ _ Har) as (Hp & Hs).
          apply Hgoal; [exact Hp | eapply rcv_same_trans; eassumption | discriminate].
        + destruct (challenge_rcv _ _ _ _ _ _ Hch) as (Hp & Hs & Hn).
          apply Hgoal; [exact Hp | eapply rcv_same_trans; eassumption | intros E; rewrite (Hn E); exact L0]. }
  destruct P2 as (Hin & -> & -> & ->).
  set (s2 := upd_local_rx_last_seq s (Some (r_seq_number r))) in *.
  assert (F2 : frame s2 s) by (unfold s2; frame_solve).
  apply obind_ok_inv in H. destruct H as (((al & aof) & aall) & _ & H).
  assert (Hq : tcp_process_quash s2 r = CNone).
  { unfold tcp_process_quash. destruct Hctl as [-> | ->]; reflexivity. }
  rewrite Hq in H.
  assert (Hst2 : s_state s2 = Established) by (unfold s2; rproj; exact Hst).
  unfold tcp_process_transition in H. rewrite Hst2 in H. cbn [obind] in H.
  apply obind_ok_inv in H. destruct H as ((s4 & wu) & H4 & H).
  pose proof (update_remote_frame _ _ _ _ _ _ H4) as F4.
  apply obind_ok_inv in H. destruct H as ((s5 & t5) & H5 & H).
  pose proof (dup_ack_frame _ _ _ _ _ _ _ H5) as F5.
  pose proof (tsval_frame s5 r) as F5'.
  set (q5 := match r_timestamp r with
             | Some (tsval, _) => upd_last_remote_tsval s5 tsval
             | None => s5
             end) in *. clearbody q5.
  pose proof (timers_frame cx q5 al aall) as F6.
  destruct (tcp_process_timers cx q5 al aall) as (s6, t6). cbn [fst] in F6.
  pose proof (zwp_frame cx s6 al) as F7.
  destruct (tcp_process_zwp cx s6 al) as (s7, t7). cbn [fst] in F7.
  apply obind_ok_inv in H. destruct H as (((s8 & rep8) & t8) & H8 & H).
  inversion H; subst s' rep tags; clear H.
  assert (F : frame s7 s).
  { eapply frame_trans; [exact F7|]. eapply frame_trans; [exact F6|]. eapply frame_trans; [exact F5'|].
    eapply frame_trans; [exact F5|]. eapply frame_trans; [exact F4 | exact F2]. }
  destruct F as ((E1 & E2 & E3 & E4 & E5 & E6 & E7) & Est).
  assert (Hoff : 0 <= trim_off d) by (unfold trim_off; lia).
  destruct (payload_mono cx s7 ip r _ _ s8 rep8 t8 (rcv_wf_view _ _ E1 Hrw) Hoff H8)
    as (Hw8 & L & C & Sq & St & Fi & Sh & Hp8 & Hn8).
  split; [exact Hw8|]. rewrite E2 in L, C. split; [exact L|]. split; [exact C|].
  split; [congruence|]. split; [congruence|]. split; [congruence|]. split; [exact Hp8|].
  intros E. destruct (Hn8 E) as (Ha & _). congruence.
Qed.

(* a data segment that is NOT acceptable (entirely below RCV.NXT, beyond the window, or the window is
   closed) is answered at once with an empty ACK carrying RCV.NXT; nothing of the receive state moves *)
Theorem process_stale_data cx s ip r s' rep tags W d :
  s_state s = Established ->
  0 <= W <= p30 -> tcp_window_end s = seq_norm (tcp_window_start s + W) ->
  r_seq_number r = seq_norm (tcp_window_start s + d) -> -2147483648 <= d < 2147483648 ->
  0 < l_len (r_payload r) <= p30 ->
  ~ in_window_Z W d (l_len (r_payload r)) ->
  (r_control r = CNone \/ r_control r = CPsh) ->
  r_ack_number r = Some (s_local_seq_no s) ->
  0 <= s_local_seq_no s < 4294967296 -> 0 <= rb_len (s_tx_buffer s) < 2147483648 ->
  tcp_process cx s ip r = Ok (s', rep, tags) ->
  exists p, rep = Some p /\ pure_ack_of s' (Some p) /\ rcv_same s' s.
Proof.
  intros Hst HW Hwe Hseq Hd Hlen Hnin Hctl Hack Hu Htx H.
  unfold tcp_process in H.
  destruct (negb (tcp_accepts s ip r)); [discriminate|].
  rewrite (ack_check_una cx s ip r Hst Hctl Hack Hu Htx) in H. cbn [obind] in H.
  apply obind_ok_inv in H. destruct H as (p2 & H2 & H).
  unfold tcp_process_window in H2. rewrite Hst in H2.
  set (WS := s_remote_seq_no s + rb_len (s_rx_buffer s)) in *.
  assert (Ews : tcp_window_start s = seq_norm WS) by (unfold tcp_window_start, WS; apply seq_add_as_norm).
  assert (Ewe : tcp_window_end s = seq_norm (WS + W)).
  { rewrite Hwe, Ews. rewrite <- seq_add_as_norm. apply seq_add_norm. }
  assert (Esq : r_seq_number r = seq_norm (WS + d)).
  { rewrite Hseq, Ews. rewrite <- seq_add_as_norm. apply seq_add_norm. }
  rewrite Ews, Ewe, Esq, seq_add_norm in H2.
  destruct (tcp_segment_in_window (seq_norm WS) (seq_norm (WS + W)) (seq_norm (WS + d))
                                  (seq_norm (WS + d + l_len (r_payload r)))) as (inw, tg) eqn:Hinw.
  destruct inw.
  { exfalso. apply Hnin. apply (segment_in_window_sound WS W d (l_len (r_payload r))); try lia.
    rewrite Hinw. reflexivity. }
  assert (Hnr : control_eqb (r_control r) CRst = false) by (destruct Hctl as [-> | ->]; reflexivity).
  rewrite Hnr in H2. cbn [tcp_state_eqb] in H2.
  assert (Hpl : (match r_payload r with [] => false | _ => true end) = true).
  { destruct (r_payload r); [cbn in Hlen; lia | reflexivity]. }
  assert (Hc : (match r_control r with CNone | CPsh | CFin => true | _ => false end) = true)
    by (destruct Hctl as [-> | ->]; reflexivity).
  rewrite Hpl, Hc in H2. cbn [andb] in H2.
  destruct (tcp_ack_reply cx s ip r) as (s1, p) eqn:Har.
  inversion H2; subst p2; clear H2. inversion H; subst s' rep tags; clear H.
  destruct (ack_reply_rcv _ _ _ _ _ _ Har) as (Hp & Hs).
  exists p. split; [reflexivity|]. split; assumption.
Qed.

(* ---------------------------------------------------------------------------------------- *)
(* dispatch of an ESTABLISHED socket, receive side                                           *)
(* ---------------------------------------------------------------------------------------- *)
Lemma ack_to_transmit_view s' s : rxv_eq s' s -> tcp_ack_to_transmit s' = tcp_ack_to_transmit s.
Proof.
  intros H. unfold tcp_ack_to_transmit. rewrite (rxv_eq_window_start _ _ H).
  destruct H as (_ & _ & _ & _ & -> & _). reflexivity.
Qed.

Lemma delack_expired_view s' s now :
  s_ack_delay_timer s' = s_ack_delay_timer s -> tcp_delayed_ack_expired s' now = tcp_delayed_ack_expired s now.
Proof. unfold tcp_delayed_ack_expired. intros ->. reflexivity. Qed.

(* what an ESTABLISHED socket transmits carries ack = RCV.NXT and the current window (C04's
   dispatch_build_spec); an owed ACK whose delay has expired is transmitted when the device accepts *)
Theorem dispatch_established cx s ok s' res tags t :
  s_state s = Established -> s_tuple s = Some t -> tu_local_addr t = cx_addr cx ->
  tcp_dispatch cx s ok = Ok (s', res, tags) ->
  (forall p, res = DSent p \/ res = DEmitFailed p ->
     r_ack_number (snd p) = Some (tcp_window_start s) /\ r_window_len (snd p) = tcp_scaled_window s /\
     r_control (snd p) <> CSyn) /\
  (tcp_ack_to_transmit s = true -> tcp_delayed_ack_expired s (cx_now cx) = true -> ok = true ->
   exists p, res = DSent p).
Proof.
  intros Hst Htu Haddr H. unfold tcp_dispatch in H. rewrite Htu, Haddr, Z.eqb_refl in H. cbn [negb] in H.
  apply obind_ok_inv in H. destruct H as ((s1 & t1) & H1 & H).
  pose proof (dispatch_timers_frame _ _ _ _ H1) as (V1 & S1).
  pose proof (dispatch_timers_auxf _ _ _ _ H1) as (_ & T1).
  apply obind_ok_inv in H. destruct H as (((s2 & go) & t2) & H2 & H).
  pose proof (dispatch_decide_frame _ _ _ _ _ H2) as (V2 & S2).
  assert (Hs2 : s_state s2 = Established \/ s_state s2 = Closed).
  { destruct S2 as [S2|S2]; [|right; exact S2]. destruct S1 as [S1|S1]; [left | right]; congruence. }
  assert (Hrx : forall repr, repr_rx_ok s2 repr ->
            r_ack_number repr = Some (tcp_window_start s) /\ r_window_len repr = tcp_scaled_window s /\
            r_control repr <> CSyn).
  { intros repr [(Hc & _ & [(_ & E) | (_ & [E|E])]) | (Hc & Ha & Hw & _)].
    - destruct Hs2 as [X|X]; rewrite X in E; discriminate.
    - destruct Hs2 as [X|X]; rewrite X in E; discriminate.
    - destruct Hs2 as [X|X]; rewrite X in E; discriminate.
    - pose proof (rxv_eq_trans _ _ _ V2 V1) as V.
      rewrite (rxv_eq_window_start _ _ V) in Ha. rewrite (rxv_eq_scaled_window _ _ V) in Hw. auto. }
  destruct go; cbn [negb] in H.
  - apply obind_ok_inv in H. destruct H as (((((s3 & orepr) & zwp) & ka) & t3) & H3 & H).
    destruct (dispatch_build_spec _ _ _ _ _ _ _ _ H3) as (F3 & Hr3).
    destruct orepr as [repr|].
    + destruct (negb ok) eqn:Hok.
      * inversion H; subst. split.
        -- intros p [E|E]; inversion E; subst p. cbn [snd with_payload_len]. apply Hrx. exact Hr3.
        -- intros _ _ ->. discriminate.
      * destruct (tcp_dispatch_finish cx s3 repr zwp ka) as (s4, t4). inversion H; subst. split.
        -- intros p [E|E]; inversion E; subst p. cbn [snd with_payload_len]. apply Hrx. exact Hr3.
        -- intros _ _ _. eexists. reflexivity.
    + (* nothing built: LISTEN only *)
      exfalso. unfold tcp_dispatch_build in H3.
      apply obind_ok_inv in H3. destruct H3 as ((((sb & ob) & zb) & tb) & Hb & H3).
      destruct ob as [rb|]; [apply obind_ok_inv in H3; destruct H3 as (? & _ & H3); inversion H3|].
      destruct Hs2 as [X|X]; rewrite X in Hb; [|inversion Hb].
      apply build_data_spec in Hb; [|reflexivity]. destruct Hb as (_ & repr' & E & _). discriminate.
  - inversion H; subst. split; [intros p [E|E]; discriminate|].
    intros Ha He _. exfalso.
    (* decide saw the owed ACK *)
    unfold tcp_dispatch_decide in H2.
    apply obind_ok_inv in H2. destruct H2 as (stt & _ & H2).
    destruct stt; [inversion H2|].
    rewrite (ack_to_transmit_view _ _ V1), Ha in H2.
    rewrite (delack_expired_view s1 s (cx_now cx) T1), He in H2. cbn [andb] in H2. inversion H2.
Qed.

(* ---------------------------------------------------------------------------------------- *)
(* a data segment that starts at or below RCV.NXT (a retransmission): new octets are accepted   *)
(* or an ACK of RCV.NXT goes out at once                                                      *)
(* ---------------------------------------------------------------------------------------- *)
Theorem process_data_below cx s ip r s' rep tags W k :
  s_state s = Established -> rcv_wf s ->
  tcp_window_end s = seq_norm (tcp_window_start s + W) -> 0 <= W <= p30 ->
  r_seq_number r = seq_norm (tcp_window_start s - k) -> 0 <= k <= p30 ->
  0 < l_len (r_payload r) <= p30 ->
  (r_control r = CNone \/ r_control r = CPsh) ->
  r_ack_number r = Some (s_local_seq_no s) ->
  0 <= s_local_seq_no s < 4294967296 -> 0 <= rb_len (s_tx_buffer s) < 2147483648 ->
  tcp_process cx s ip r = Ok (s', rep, tags) ->
  s_remote_seq_no s' = s_remote_seq_no s /\ s_state s' = Established /\
  s_rx_fin_received s' = s_rx_fin_received s /\
  ((exists p, rep = Some p /\ pure_ack_of s' (Some p) /\
              rb_len (s_rx_buffer s) <= rb_len (s_rx_buffer s') /\
              (0 < W -> k = 0 -> rb_len (s_rx_buffer s) < rb_len (s_rx_buffer s')))
   \/ (rep = None /\ s_remote_last_ack s' = s_remote_last_ack s /\
       exists m, 1 <= m /\ rb_len (s_rx_buffer s') = rb_len (s_rx_buffer s) + m)).
Proof.
  intros Hst Hrw Hwe HW Hseq Hk Hlen Hctl Hack Hu Htx H.
  pose proof H as H0.
  unfold tcp_process in H.
  destruct (negb (tcp_accepts s ip r)); [discriminate|].
  rewrite (ack_check_una cx s ip r Hst Hctl Hack Hu Htx) in H. cbn [obind] in H.
  apply obind_ok_inv in H. destruct H as (p2 & H2 & H).
  set (WS := s_remote_seq_no s + rb_len (s_rx_buffer s)) in *.
  assert (Ews : tcp_window_start s = seq_norm WS) by (unfold tcp_window_start, WS; apply seq_add_as_norm).
  assert (Ewe : tcp_window_end s = seq_norm (WS + W)).
  { rewrite Hwe, Ews. rewrite <- seq_add_as_norm. apply seq_add_norm. }
  assert (Esq : r_seq_number r = seq_norm (WS + - k)).
  { rewrite Hseq, Ews. replace (WS + - k) with (WS - k) by lia.
    rewrite <- (seq_subn_norm WS k). unfold seq_subn, seq_norm. reflexivity. }
  assert (Hsynced : match s_state s with Listen | SynSent => False | _ => True end) by (rewrite Hst; exact I).
  assert (Hd : -2147483648 <= - k < 2147483648) by (unfold p30 in *; lia).
  pose proof (process_window_spec cx s ip r WS W (- k) Ews Ewe Esq HW ltac:(lia) Hd Hsynced) as P2.
  cbv zeta in P2. rewrite H2 in P2.
  destruct p2 as [t2 ((s2, payload), off)|t2 s2r rep2].
  2:{ (* not acceptable: an ACK at once (the payload is not empty) *)
      inversion H; subst s' rep tags; clear H.
      unfold tcp_process_window in H2. rewrite Hst in H2.
      assert (Hk0 : 0 < W -> k = 0 ->
                fst (tcp_segment_in_window (tcp_window_start s) (tcp_window_end s) (r_seq_number r)
                       (seq_add (r_seq_number r) (l_len (r_payload r)))) = true).
      { intros HW0 ->. rewrite Hseq, Hwe, Z.sub_0_r.
        pose proof (window_start_range s) as Hws.
        rewrite (seq_norm_small _ Hws).
        apply in_window_at_start; [exact Hws | lia | exact Hlen]. }
      destruct (tcp_segment_in_window _ _ _ _) as (inw, tg).
      destruct inw.
      { destruct (negb (seq_le _ _)); [discriminate|].
        repeat match type of H2 with
               | (do _ <- ?m; _) = _ => destruct m; cbn [obind] in H2; try discriminate
               end. }
      cbn [fst] in Hk0.
      assert (Hnr : control_eqb (r_control r) CRst = false) by (destruct Hctl as [-> | ->]; reflexivity).
      rewrite Hnr in H2. cbn [tcp_state_eqb] in H2.
      assert (Hpl : (match r_payload r with [] => false | _ => true end) = true).
      { destruct (r_payload r); [cbn in Hlen; lia | reflexivity]. }
      assert (Hc : (match r_control r with CNone | CPsh | CFin => true | _ => false end) = true)
        by (destruct Hctl as [-> | ->]; reflexivity).
      rewrite Hpl, Hc in H2. cbn [andb] in H2.
      destruct (tcp_ack_reply cx s ip r) as (s1, p) eqn:Har.
      inversion H2; subst s2r rep2; clear H2.
      destruct (ack_reply_rcv _ _ _ _ _ _ Har) as (Hp & (R1 & R2 & R3 & R4 & R5)).
      split; [exact R2|]. split; [congruence|]. split; [exact R3|].
      left. exists p. split; [reflexivity|]. split; [exact Hp|]. split; [rewrite R1; lia|].
      intros HW0 Ek. specialize (Hk0 HW0 Ek). discriminate. }
  destruct P2 as (Hin & -> & -> & ->).
  (* in the window: the part at and after RCV.NXT is not empty and lands at offset 0 *)
  unfold trim_off, trim_lo, trim_len in *.
  replace (Z.max 0 (- k)) with 0 in * by lia. replace (Z.max 0 (- - k)) with k in * by lia.
  rewrite Z.sub_0_r in *.
  set (n := Z.min W (- k + l_len (r_payload r))) in *.
  assert (Hn : 0 < n <= l_len (r_payload r) - k).
  { unfold n. unfold in_window_Z in Hin. unfold p30 in *. lia. }
  set (s2 := upd_local_rx_last_seq s (Some (r_seq_number r))) in *.
  assert (F2 : frame s2 s) by (unfold s2; frame_solve).
  apply obind_ok_inv in H. destruct H as (((al & aof) & aall) & _ & H).
  assert (Hq : tcp_process_quash s2 r = CNone).
  { unfold tcp_process_quash. destruct Hctl as [-> | ->]; reflexivity. }
  rewrite Hq in H.
  assert (Hst2 : s_state s2 = Established) by (unfold s2; rproj; exact Hst).
  unfold tcp_process_transition in H. rewrite Hst2 in H. cbn [obind] in H.
  apply obind_ok_inv in H. destruct H as ((s4 & wu) & H4 & H).
  pose proof (update_remote_frame _ _ _ _ _ _ H4) as F4.
  apply obind_ok_inv in H. destruct H as ((s5 & t5) & H5 & H).
  pose proof (dup_ack_frame _ _ _ _ _ _ _ H5) as F5.
  pose proof (tsval_frame s5 r) as F5'.
  set (q5 := match r_timestamp r with
             | Some (tsval, _) => upd_last_remote_tsval s5 tsval
             | None => s5
             end) in *. clearbody q5.
  pose proof (timers_frame cx q5 al aall) as F6.
  destruct (tcp_process_timers cx q5 al aall) as (s6, t6). cbn [fst] in F6.
  pose proof (zwp_frame cx s6 al) as F7.
  destruct (tcp_process_zwp cx s6 al) as (s7, t7). cbn [fst] in F7.
  apply obind_ok_inv in H. destruct H as (((s8 & rep8) & t8) & H8 & H).
  inversion H; subst s' rep tags; clear H.
  assert (F : frame s7 s).
  { eapply frame_trans; [exact F7|]. eapply frame_trans; [exact F6|]. eapply frame_trans; [exact F5'|].
    eapply frame_trans; [exact F5|]. eapply frame_trans; [exact F4 | exact F2]. }
  destruct F as ((E1 & E2 & E3 & E4 & E5 & E6 & E7) & Est).
  assert (Hpl : l_len (l_slice k n (r_payload r)) = n).
  { rewrite l_slice_spec, firstn_len_Z by lia. rewrite skipn_len_Z by lia. lia. }
  destruct (rcv_wf_view _ _ E1 Hrw) as (Hw7a & Hw7b).
  assert (Hpl0 : 0 < l_len (l_slice k n (r_payload r))) by lia.
  destruct (payload_in_order cx s7 ip r (l_slice k n (r_payload r)) s8 rep8 t8 Hw7a Hw7b Hpl0 H8)
    as (m & Hm & L & C & Sq & St & Fi & Sh & Hack8).
  split; [congruence|]. split; [congruence|]. split; [congruence|].
  destruct Hack8 as [(p & -> & A1 & A2 & A3 & A4) | (-> & Ha & _)].
  - left. exists p. split; [reflexivity|]. split; [unfold pure_ack_of; auto|]. rewrite L, E2. split; [lia|]. intros _ _. lia.
  - right. split; [reflexivity|]. split; [congruence|]. exists m. split; [lia|]. rewrite L, E2. reflexivity.
Qed.

(* ---------------------------------------------------------------------------------------- *)
(* poll_at while an ACK is owed                                                              *)
(* ---------------------------------------------------------------------------------------- *)
Lemma poll_at_min_r_le a t0 :
  match poll_at_min a (PTime t0) with PNow => True | PTime t => t <= t0 | PIngress => False end.
Proof. destruct a as [|x|]; cbn; try exact I; try lia. destruct (Z.leb_spec x t0); cbn; lia. Qed.

Lemma poll_at_min_r_now a : poll_at_min a PNow = PNow.
Proof. destruct a; reflexivity. Qed.

(* an owed ACK shows in poll_at: Now, or an instant not later than the delayed-ACK deadline *)
Theorem poll_at_owed cx s :
  s_tuple s <> None -> tcp_ack_to_transmit s = true ->
  match tcp_poll_at cx s with
  | Ok PNow => True
  | Ok (PTime t) => exists t0, s_ack_delay_timer s = ADWaiting t0 /\ t <= t0
  | Ok PIngress => False
  | _ => True
  end.
Proof.
  intros Htu Hack. unfold tcp_poll_at.
  destruct (s_tuple s); [|congruence]. cbn [is_some negb].
  destruct (is_some (s_remote_last_ts s)); cbn [negb]; [|exact I].
  destruct (tcp_state_eqb (s_state s) Closed); [exact I|].
  destruct (tcp_seq_to_transmit cx s) as [[|]|e|]; cbn [obind]; try exact I.
  destruct (tcp_window_to_update s) as [[|]|e|]; cbn [obind]; try exact I.
  rewrite Hack. cbn [negb].
  destruct (s_ack_delay_timer s) as [|t0|].
  - rewrite poll_at_min_r_now. exact I.
  - match goal with |- context [poll_at_min ?a (PTime t0)] =>
      pose proof (poll_at_min_r_le a t0) as Hle; destruct (poll_at_min a (PTime t0)) end;
      try tauto. exists t0. split; [reflexivity | exact Hle].
  - rewrite poll_at_min_r_now. exact I.
Qed.
