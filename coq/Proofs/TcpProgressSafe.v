(* C02 (liveness half), layer 7: THE RUN HYPOTHESES ARE DISCHARGED.
   Proofs/TcpProgressData.v and TcpProgressAck.v assume [oneway_safe] / [ack_safe] of every state of
   the run.  Here they are DERIVED, for every state reached from [net_init]:

   part 1 (one state)   what C01's network invariant [INV] (Proofs/TcpNetCompose.v; holds of every
                        state reached from [net_init], Proofs/TcpNetInv.INV_reach, unconditionally
                        since Proofs/TcpNetProofs.c05_holds) says about two ESTABLISHED endpoints of
                        which one has written nothing: the cross-socket sequence relations, C04's
                        receiver facts, C05's sender facts - in the ghost-free form of [safe3]. *)
From SV Require Import Lib.Base Gen.Consts.
From SV Require Import Model.Seq32 Model.Assembler Model.TcpBuf Model.TcpTypes Model.Tcp Model.TcpNet.
From SV Require Import Proofs.TcpSendBase Proofs.TcpLiveBase Proofs.TcpLiveProofs Proofs.TcpLiveMore
  Proofs.TcpLiveProgress.
From SV Require Import Proofs.TcpNetBase.
From SV Require Proofs.TcpRecvBase Proofs.TcpRecvWindow Proofs.TcpRecvPayload Proofs.TcpRecvInv
  Proofs.TcpRecvProcess Proofs.TcpRecvDispatch Proofs.TcpRecvTrace.
From SV Require Proofs.TcpSendInv Proofs.TcpNetContract Proofs.TcpNetCompose Proofs.TcpNetInv Proofs.TcpNetProofs.
From SV Require Import Proofs.TcpProgressBase Proofs.TcpProgressFrame Proofs.TcpProgressCtl Proofs.TcpProgressRecv
  Proofs.TcpProgressSend Proofs.TcpProgressNet Proofs.TcpProgressData Proofs.TcpProgressAck
  Proofs.TcpProgressAll.

Module C := TcpNetCompose.
Module SI := TcpSendInv.
Module RT := TcpRecvTrace.
Module RI := TcpRecvInv.

Notation p30 := TcpRecvWindow.p30.

(* ---------------------------------------------------------------------------------------- *)
(* one ESTABLISHED endpoint under C01's endpoint invariant, the peer's stream without a FIN   *)
(* ---------------------------------------------------------------------------------------- *)
Record est_view (e : endpoint) (g : C.eghost) : Prop := mkEV {
  ev_stream : SI.g_stream (C.eg_tx g) = ep_written e;
  ev_phase : SI.g_phase (C.eg_tx g) = SI.PData;
  ev_acked : SI.g_acked (C.eg_tx g) = una_off e;
  ev_acked0 : 0 <= una_off e;
  ev_lsn : s_local_seq_no (ep_sock e) = sq (SI.g_iss (C.eg_tx g) + 1 + una_off e);
  ev_rls : exists fl, 0 <= fl <= rb_len (s_tx_buffer (ep_sock e)) /\
                      s_remote_last_seq (ep_sock e) = sq (SI.g_iss (C.eg_tx g) + 1 + una_off e + fl);
  ev_J : C.eg_J g = Some (sq (SI.g_iss (C.eg_tx g)));
  ev_irs : exists irs, RT.g_irs (C.eg_rx g) = Some irs /\ C.eg_K g = Some irs /\
                       tcp_window_start (ep_sock e) = sq (irs + 1 + rcv_off e);
  ev_R : C.eg_R g = rcv_off e;
  ev_have : forall k, 0 <= k < rcv_off e -> RT.g_have (C.eg_rx g) k;
  ev_fin : s_rx_fin_received (ep_sock e) = false;
  ev_R0 : 0 <= rcv_off e;
  ev_rcvwf : rcv_wf (ep_sock e);
  ev_rx : TcpRecvBase.rb_wf (s_rx_buffer (ep_sock e)) /\ rb_cap (s_rx_buffer (ep_sock e)) <= p30 /\
          0 <= s_remote_win_shift (ep_sock e);
  ev_adv : adv_ok (ep_sock e);
  ev_last : match s_remote_last_ack (ep_sock e) with
            | Some la => exists j, 0 <= la < 4294967296 /\
                                   tcp_window_start (ep_sock e) = sq (la + j) /\ 0 <= j <= 2 ^ 30
            | None => True
            end;
  ev_msx : match rt_max_seq_sent (s_rtte (ep_sock e)) with
           | Some m => exists k, m = sq (SI.g_iss (C.eg_tx g) + k) /\ 1 <= k <= 1 + l_len (ep_written e)
           | None => True
           end;
  ev_mss : tcp_MIN_REMOTE_MSS <= s_remote_mss (ep_sock e);
  ev_mtu : 52 < cx_ip_mtu (ep_cx e);
  ev_zwp : timer_is_zero_window_probe (s_timer (ep_sock e)) = true -> s_remote_win_len (ep_sock e) = 0
}.

Lemma est_view_of_EP S e g :
  C.EP S None e g -> s_state (ep_sock e) = Established -> ep_closed e = false -> est_view e g.
Proof.
  intros (Hinv & (_ & (Hmtu & _) & _) & Hg & Htxl & Hrxl & Hjl & Hkl) Hst Hcl.
  destruct Hinv as (Htx & (Hzwp & _) & (Hhw & Hmsx & Hmss & _)).
  destruct Htx as (Hwf & _ & Ha0 & Halen & _ & Hlsn & Hrls & Hfl & _ & Hph & _).
  destruct Htxl as [(Hs & Hf) | (Hd & _)]; [|rewrite Hst in Hd; discriminate].
  assert (Hphase : SI.g_phase (C.eg_tx g) = SI.PData /\ SI.g_fin (C.eg_tx g) = false).
  { unfold SI.phase_ok in Hph. rewrite Hst in Hph. destruct (SI.g_phase (C.eg_tx g)).
    - destruct Hph as (_ & _ & []).
    - split; [reflexivity | apply Hph].
    - destruct Hph as (_ & _ & _ & []). }
  destruct Hphase as (Hp & Hfin).
  assert (Hua : SI.g_una (C.eg_tx g) = 1 + SI.g_acked (C.eg_tx g)) by (unfold SI.g_una; rewrite Hp; reflexivity).
  assert (Hacked : SI.g_acked (C.eg_tx g) = una_off e) by (unfold una_off; rewrite <- Hs; lia).
  (* the receive half *)
  unfold RT.ginv in Hg. unfold C.kl in Hkl. destruct Hkl as (HR0 & _ & Hkl).
  destruct (RT.g_irs (C.eg_rx g)) as [irs|] eqn:Hirs.
  2:{ exfalso. destruct Hg as ((_ & _ & _ & _ & _ & _ & Hs3) & _). rewrite Hst in Hs3. exact Hs3. }
  pose proof Hg as (Hsync & _).
  destruct Hg as ((Hbuf & (Hseq & Hfinc) & Hmisc & Hwin & _) & (Hdl & _)).
  destruct Hkl as (HK & HR).
  destruct Hrxl as (Hrd & _). specialize (Hrd ltac:(rewrite ?Hirs; discriminate)).
  assert (Hfr : s_rx_fin_received (ep_sock e) = false).
  { destruct (s_rx_fin_received (ep_sock e)); [|reflexivity]. specialize (Hfinc eq_refl). discriminate. }
  assert (Hcons : RT.g_consumed (C.eg_rx g) = l_len (ep_read e)) by (rewrite <- Hrd; lia).
  constructor.
  - exact Hs.
  - exact Hp.
  - exact Hacked.
  - lia.
  - rewrite Hlsn, Hua, Hacked. f_equal. lia.
  - exists (SI.g_flight (C.eg_tx g)). unfold SI.g_budget in Hfl. rewrite Hp, Hfin in Hfl. cbn [b2z] in Hfl.
    split; [lia|]. rewrite Hrls, Hua, Hacked. f_equal. lia.
  - unfold C.jl in Hjl. destruct (C.eg_J g) as [j|].
    + destruct Hjl as (_ & Hj & _). rewrite (Hj ltac:(rewrite Hp; discriminate)). reflexivity.
    + rewrite Hp in Hjl. discriminate.
  - exists irs. split; [exact Hirs|]. split; [exact HK|].
    unfold tcp_window_start. rewrite Hseq. unfold RI.finz. rewrite Hfr. cbn [b2z].
    rewrite TcpRecvBase.seq_add_as_norm. change seq_norm with sq. rewrite sq_sq_add.
    unfold rcv_off. rewrite Hcons. f_equal. lia.
  - rewrite HR. unfold C.rcv_nxt_off, RT.rcv_count, rcv_off. rewrite Hfr, Hcons. cbn [b2z]. lia.
  - intros k Hk. destruct Hbuf as (_ & _ & _ & _ & _ & _ & _ & Hhv & _). apply Hhv.
    unfold rcv_off in Hk. lia.
  - exact Hfr.
  - rewrite HR in HR0. unfold C.rcv_nxt_off, RT.rcv_count in HR0. rewrite Hfr, Hcons in HR0.
    cbn [b2z] in HR0. unfold rcv_off. lia.
  - destruct Hbuf as (_ & _ & Ha & Hn & _). split; assumption.
  - destruct Hbuf as (Hw & Hc & _). destruct Hmisc as (_ & Hsh & _). auto.
  - destruct (RI.synced_window_end _ _ _ _ _ _ Hsync) as (W & HW & (HW0 & HW1) & _).
    pose proof (RI.synced_window_start _ _ _ _ _ _ Hsync) as Hws.
    destruct Hbuf as ((Hl0 & _) & Hc & _).
    exists W. split; [unfold rb_window in HW1; unfold p30, TcpRecvWindow.p30 in *; lia|].
    rewrite HW, Hws. change seq_norm with sq. rewrite sq_sq_add. reflexivity.
  - pose proof (RI.synced_window_start _ _ _ _ _ _ Hsync) as Hws.
    unfold RI.win_ok in Hwin. destruct (s_remote_last_ack (ep_sock e)) as [la|]; [|exact I].
    destruct Hwin as (ao & Hla & Hao & Hk & Hj).
    destruct Hmisc as (Hm1 & Hm2 & Hm3). destruct Hbuf as (_ & Hc & _).
    unfold RI.finz in *. rewrite Hfr in *. cbn [b2z] in *.
    exists (RI.wsq (RT.g_consumed (C.eg_rx g)) (ep_sock e) - ao).
    split; [rewrite Hla; apply TcpRecvBase.seq_norm_range|].
    split; [rewrite Hws, Hla; change seq_norm with sq; rewrite sq_sq_add; f_equal; lia|].
    unfold RI.wsq, RI.finz in *. rewrite Hfr in *. cbn [b2z] in *.
    unfold p30, TcpRecvWindow.p30 in Hc. change (2 ^ 30) with 1073741824 in *. lia.
  - rewrite Hs, Hfin in Hhw. cbn [b2z] in Hhw.
    destruct (rt_max_seq_sent (s_rtte (ep_sock e))) as [m|]; [|exact I].
    destruct Hmsx as (k & Hm & Hk). exists k. split; [exact Hm | lia].
  - exact Hmss.
  - apply Hmtu.
  - unfold SI.tm_inv_f in Hzwp. exact Hzwp.
Qed.

(* ---------------------------------------------------------------------------------------- *)
(* two ESTABLISHED endpoints; y has written nothing                                          *)
(* ---------------------------------------------------------------------------------------- *)
Section Pair.
Variables Sx Sy : Z -> Z.
Variables ex ey : endpoint.
Variables gx gy : C.eghost.
Hypothesis HEx : C.EP Sy None ex gx.
Hypothesis HEy : C.EP Sx None ey gy.
Hypothesis Dxy : C.DIR Sx None ex gx ey gy.
Hypothesis Dyx : C.DIR Sy None ey gy ex gx.
Hypothesis Hsx : s_state (ep_sock ex) = Established.
Hypothesis Hsy : s_state (ep_sock ey) = Established.
Hypothesis Hcx : ep_closed ex = false.
Hypothesis Hcy : ep_closed ey = false.
Hypothesis Hyw : ep_written ey = [].

Let Vx := est_view_of_EP _ _ _ HEx Hsx Hcx.
Let Vy := est_view_of_EP _ _ _ HEy Hsy Hcy.

Lemma pair_cross :
  tcp_window_start (ep_sock ey) =
    sq (s_local_seq_no (ep_sock ex) + (rcv_off ey - una_off ex)) /\
  0 <= rcv_off ey - una_off ex <= rb_len (s_tx_buffer (ep_sock ex)).
Proof.
  destruct (ev_irs _ _ Vy) as (irs & Hirs & HK & Hws).
  destruct Dxy as (_ & Hsync & Hhave & _ & Huna & _).
  pose proof (Hsync _ _ (ev_J _ _ Vx) HK) as E. subst irs.
  split.
  - rewrite Hws, (ev_lsn _ _ Vx).
    replace (sq (SI.g_iss (C.eg_tx gx)) + 1 + rcv_off ey) with (sq (SI.g_iss (C.eg_tx gx)) + (1 + rcv_off ey)) by lia.
    rewrite !sq_sq_add. f_equal. lia.
  - unfold SI.g_una in Huna. rewrite (ev_phase _ _ Vx), (ev_acked _ _ Vx), (ev_R _ _ Vy) in Huna.
    split; [lia|].
    assert (Hle : rcv_off ey <= l_len (ep_written ex)).
    { destruct (Z_le_gt_dec (rcv_off ey) 0) as [L | G]; [pose proof (l_len_nonneg (ep_written ex)); lia|].
      assert (Hk : 0 <= rcv_off ey - 1 < rcv_off ey) by lia.
      destruct (Hhave (rcv_off ey - 1) (ev_have _ _ Vy _ Hk)) as (_ & Hb). lia. }
    unfold una_off in *. lia.
Qed.

Lemma pair_ytx : rb_len (s_tx_buffer (ep_sock ey)) = 0 /\ una_off ey = 0.
Proof.
  pose proof (ev_acked0 _ _ Vy) as H0. unfold una_off in *. rewrite Hyw in *. cbn [l_len] in *.
  pose proof HEy as ((Htx & _) & _). destruct Htx as ((Hl & _) & _). change (l_len []) with 0 in *. lia.
Qed.

Lemma pair_xrcv : rcv_off ex = 0.
Proof.
  pose proof (ev_R0 _ _ Vx) as H0.
  destruct (Z_le_gt_dec (rcv_off ex) 0) as [L | G]; [lia|].
  destruct Dyx as (_ & _ & Hhave & _).
  assert (Hk : 0 <= 0 < rcv_off ex) by lia.
  destruct (Hhave 0 (ev_have _ _ Vx 0 Hk)) as (_ & Hb). rewrite Hyw in Hb. change (l_len []) with 0 in Hb. lia.
Qed.

(* x's RCV.NXT is y's SND.UNA = SND.NXT = what y numbers its empty segments with *)
Lemma pair_yseq :
  tcp_window_start (ep_sock ex) = s_local_seq_no (ep_sock ey) /\
  s_remote_last_seq (ep_sock ey) = s_local_seq_no (ep_sock ey) /\
  tcp_send_next_seq (ep_sock ey) = s_local_seq_no (ep_sock ey).
Proof.
  destruct pair_ytx as (Hl & Hu).
  destruct (ev_irs _ _ Vx) as (irs & Hirs & HK & Hws).
  destruct Dyx as (_ & Hsync & _).
  pose proof (Hsync _ _ (ev_J _ _ Vy) HK) as E. subst irs.
  rewrite pair_xrcv in Hws.
  pose proof (ev_lsn _ _ Vy) as Hlsn. rewrite Hu in Hlsn.
  destruct (ev_rls _ _ Vy) as (fl & Hfl & Hrls). rewrite Hu, Hl in *.
  assert (fl = 0) by lia. subst fl.
  assert (R : s_remote_last_seq (ep_sock ey) = s_local_seq_no (ep_sock ey)) by (rewrite Hrls, Hlsn; f_equal; lia).
  split.
  { rewrite Hws, Hlsn.
    replace (sq (SI.g_iss (C.eg_tx gy)) + 1 + 0) with (sq (SI.g_iss (C.eg_tx gy)) + 1) by lia.
    rewrite sq_sq_add. f_equal. lia. }
  split; [exact R|].
  unfold tcp_send_next_seq. pose proof (ev_msx _ _ Vy) as Hm. rewrite Hyw in Hm. change (l_len []) with 0 in Hm.
  destruct (rt_max_seq_sent (s_rtte (ep_sock ey))) as [m|]; [|exact R].
  destruct Hm as (k & Hm & Hk). assert (k = 1) by lia. subst k.
  assert (Em : m = s_remote_last_seq (ep_sock ey)) by (rewrite Hm, R, Hlsn; f_equal; lia).
  rewrite Em. unfold seq_gt, seq_sdiff. rewrite Z.sub_diag. cbn. exact R.
Qed.

(* what x has ever emitted *)
Lemma pair_xsent p :
  In p (ep_sent ex) ->
  r_control (snd p) <> CFin /\ 0 <= l_len (r_payload (snd p)) <= 65535 /\
  (r_control (snd p) <> CRst -> forall a, r_ack_number (snd p) = Some a -> a = s_local_seq_no (ep_sock ey)).
Proof.
  intros Hin.
  destruct Dxy as (Hgood & _). destruct (Hgood p Hin) as (Hwf & Hcar).
  split.
  - intros Hc. destruct (Hcar (or_intror Hc)) as (j & _ & [(k & _ & _ & _ & _ & Hf) | (_ & Hk & _)]).
    + specialize (Hf Hc). discriminate.
    + rewrite Hk in Hc. discriminate.
  - split; [exact Hwf|]. intros Hr a Ha.
    destruct Dyx as (_ & _ & _ & _ & _ & _ & Hack & _).
    destruct (Hack p Hin Hr a Ha) as (irs & c & HK & Ea & Hc).
    rewrite (ev_R _ _ Vx), pair_xrcv in Hc. assert (c = 0) by lia. subst c.
    destruct (ev_irs _ _ Vx) as (irs' & _ & HK' & Hws). rewrite HK in HK'. inversion HK'; subst irs'.
    rewrite pair_xrcv in Hws. destruct pair_yseq as (E & _). rewrite <- E, Hws, Ea. f_equal; lia.
Qed.

(* what y has ever emitted carries no FIN *)
Lemma pair_ysent q : In q (ep_sent ey) -> r_control (snd q) <> CFin.
Proof.
  intros Hin Hc. destruct Dyx as (Hgood & _). destruct (Hgood q Hin) as (_ & Hcar).
  destruct (Hcar (or_intror Hc)) as (j & _ & [(k & _ & _ & _ & _ & Hf) | (_ & Hk & _)]).
  - specialize (Hf Hc). discriminate.
  - rewrite Hk in Hc. discriminate.
Qed.

Record pair_facts : Prop := mkPF {
  pf_cross : tcp_window_start (ep_sock ey) = sq (s_local_seq_no (ep_sock ex) + (rcv_off ey - una_off ex)) /\
             0 <= rcv_off ey - una_off ex <= rb_len (s_tx_buffer (ep_sock ex));
  pf_ytx : rb_len (s_tx_buffer (ep_sock ey)) = 0 /\ una_off ey = 0;
  pf_xrcv : rcv_off ex = 0;
  pf_yseq : tcp_window_start (ep_sock ex) = s_local_seq_no (ep_sock ey) /\
            s_remote_last_seq (ep_sock ey) = s_local_seq_no (ep_sock ey) /\
            tcp_send_next_seq (ep_sock ey) = s_local_seq_no (ep_sock ey);
  pf_xsent : forall p, In p (ep_sent ex) ->
             r_control (snd p) <> CFin /\ 0 <= l_len (r_payload (snd p)) <= 65535 /\
             (r_control (snd p) <> CRst -> forall a, r_ack_number (snd p) = Some a -> a = s_local_seq_no (ep_sock ey));
  pf_ysent : forall q, In q (ep_sent ey) -> r_control (snd q) <> CFin;
  pf_vx : est_view ex gx;
  pf_vy : est_view ey gy
}.

Lemma pair_all : pair_facts.
Proof.
  constructor.
  - exact pair_cross.
  - exact pair_ytx.
  - exact pair_xrcv.
  - exact pair_yseq.
  - exact pair_xsent.
  - exact pair_ysent.
  - exact Vx.
  - exact Vy.
Qed.

End Pair.

(* ---------------------------------------------------------------------------------------- *)
(* part 2: one event of an ESTABLISHED socket (socket level)                                 *)
(* ---------------------------------------------------------------------------------------- *)
(* what the socket with address tuple [t] puts on the wire *)
Definition sent_from (t : tuple) (q : packet) : Prop :=
  ip_src (fst q) = tu_local_addr t /\ ip_dst (fst q) = tu_remote_addr t /\
  r_src_port (snd q) = tu_local_port t /\ r_dst_port (snd q) = tu_remote_port t.

(* the segment is addressed to the socket with address tuple [t] *)
Definition sent_to (t : tuple) (ip : ip_repr) (r : tcp_repr) : Prop :=
  ip_dst ip = tu_local_addr t /\ ip_src ip = tu_remote_addr t /\
  r_dst_port r = tu_local_port t /\ r_src_port r = tu_remote_port t.

Definition tuple_nz (t : tuple) : Prop :=
  tu_local_addr t <> 0 /\ tu_remote_addr t <> 0 /\ tu_local_port t <> 0 /\ tu_remote_port t <> 0.

Lemma accepts_of_sent_to_gen s t ip r :
  s_state s <> Closed -> s_state s <> Listen -> s_tuple s = Some t -> tuple_nz t -> sent_to t ip r ->
  ((ip_src ip =? 0) || (ip_dst ip =? 0)) = false /\
  ((r_src_port r =? 0) || (r_dst_port r =? 0)) = false /\
  tcp_accepts s ip r = true.
Proof.
  intros Hc Hl Htu (N1 & N2 & N3 & N4) (A1 & A2 & A3 & A4).
  rewrite A1, A2, A3, A4.
  split; [apply orb_false_iff; split; apply Z.eqb_neq; assumption|].
  split; [apply orb_false_iff; split; apply Z.eqb_neq; assumption|].
  unfold tcp_accepts. rewrite Htu, A1, A2, A3, A4, !Z.eqb_refl.
  destruct (s_state s); try contradiction; reflexivity.
Qed.

Lemma accepts_of_sent_to s t ip r :
  s_state s = Established -> s_tuple s = Some t -> tuple_nz t -> sent_to t ip r ->
  ((ip_src ip =? 0) || (ip_dst ip =? 0)) = false /\
  ((r_src_port r =? 0) || (r_dst_port r =? 0)) = false /\
  tcp_accepts s ip r = true.
Proof.
  intros Hst. apply accepts_of_sent_to_gen; rewrite Hst; discriminate.
Qed.

Definition stf3 (s' s : socket) : Prop :=
  s_state s' = s_state s /\ s_tuple s' = s_tuple s /\
  (s_remote_last_ack s <> None -> s_remote_last_ack s' <> None).

Lemma stf_stf3 s' s : stf s' s -> stf3 s' s.
Proof. intros (A & B & C0 & _). split; [exact A|]. split; [exact B | exact C0]. Qed.

Theorem est_event cx s ev s' out tags t :
  run_ev ev -> ev <> EvClose -> tcp_step cx s ev = Ok (s', out, tags) ->
  s_state s = Established -> tcp_live_inv s -> s_timeout s = None -> s_keep_alive s = None ->
  noka (s_timer s) -> s_tuple s = Some t -> tu_local_addr t = cx_addr cx -> tuple_nz t ->
  TcpRecvBase.rb_wf (s_rx_buffer s) -> 0 <= s_remote_win_shift s ->
  match ev with
  | EvSegment ip r => sent_to t ip r /\ r_control r <> CFin /\ r_control r <> CRst
  | _ => True
  end ->
  stf3 s' s /\
  forall q, wire_out out = Some q ->
    sent_from t q /\ (r_control (snd q) = CNone \/ r_control (snd q) = CPsh) /\
    r_ack_number (snd q) = Some (tcp_window_start s') /\
    (rb_len (s_tx_buffer s) = 0 ->
     r_control (snd q) = CNone /\ r_payload (snd q) = [] /\ r_seq_number (snd q) = tcp_send_next_seq s').
Proof.
  intros Hev Hnc H Hst I Hto Hka Hnk Htu Haddr Hnz W1 W2 Hseg.
  destruct ev; try contradiction; cbn [tcp_step] in H.
  - (* send *)
    destruct (tcp_send_slice s data) as [(s1, n)|e|] eqn:E; [| |discriminate]; inversion H; subst.
    + split; [exact (stf_stf3 _ _ (send_slice_stf _ _ _ _ E)) | intros q Hq; discriminate].
    + split; [apply stf_stf3, stf_refl | intros q Hq; discriminate].
  - (* recv *)
    destruct (tcp_recv_slice s n) as [(s1, b)|e|] eqn:E; [| |discriminate]; inversion H; subst.
    + split; [exact (stf_stf3 _ _ (recv_slice_stf _ _ _ _ E)) | intros q Hq; discriminate].
    + split; [apply stf_stf3, stf_refl | intros q Hq; discriminate].
  - (* a segment *)
    destruct Hseg as (Hto' & Hf & Hr).
    apply obind_ok in H. destruct H as (((s1 & rep) & tg) & Hi & H). inversion H; subst s1 out tags; clear H.
    destruct (accepts_of_sent_to _ _ _ _ Hst Htu Hnz Hto') as (A1 & A2 & A3).
    unfold iface_tcp_ingress in Hi. rewrite A1, A2, A3 in Hi.
    split; [exact (stf_stf3 _ _ (process_est_keeps _ _ _ _ _ _ _ Hst Hf Hr Hi))|].
    intros q Hq. cbn [wire_out] in Hq. destruct rep as [p|]; [|discriminate]. inversion Hq; subst p; clear Hq.
    pose proof (process_reply_shape _ _ _ _ _ _ _ Hi) as (Hrt & [(Hc & [X | X]) | (S1 & S2 & S3 & S4)]);
      try (rewrite Hst in X; discriminate).
    destruct Hrt as (R1 & R2 & R3 & R4). destruct Hto' as (T1 & T2 & T3 & T4).
    split; [unfold sent_from; rewrite R1, R2, R3, R4; auto|].
    split; [left; exact S1|]. split; [exact S4|]. intros _. auto.
  - (* dispatch *)
    apply obind_ok in H. destruct H as (((s1 & res) & tg) & Hd & H). inversion H; subst s1 out tags; clear H.
    destruct (dispatch_una_tx _ _ _ _ _ _ _ I Hst Hto Htu Haddr Hd) as (_ & _ & Hst' & _).
    destruct (dispatch_est_shape _ _ _ _ _ _ _ Hst Hst' Htu Haddr Hka Hnk Hd) as (Htu' & Hsh).
    split.
    { split; [congruence|]. split; [congruence|].
      intros Hla.
      destruct (TcpRecvDispatch.dispatch_spec _ _ _ _ _ _ W1 W2 Hd) as [(Hres & _) | (_ & _ & _ & [(E & _) | (_ & [(_ & X) | E] & _)] & _)].
      - unfold TcpRecvDispatch.dispatch_resets in Hres. rewrite Htu, Haddr, Z.eqb_refl in Hres. discriminate.
      - rewrite E. exact Hla.
      - rewrite Hst in X. discriminate.
      - rewrite E. discriminate. }
    intros q Hq. cbn [wire_out] in Hq. destruct res as [| p | p]; try discriminate. inversion Hq; subst p; clear Hq.
    destruct (Hsh q eq_refl) as (D1 & D2 & D3 & D4 & D5 & D6).
    split; [unfold sent_from; auto|]. split; [exact D5|].
    destruct (dispatch_established _ _ _ _ _ _ _ Hst Htu Haddr Hd) as (Hack & _).
    destruct (Hack q (or_introl eq_refl)) as (Ha & _).
    assert (Hws : tcp_window_start s' = tcp_window_start s).
    { destruct (TcpRecvDispatch.dispatch_spec _ _ _ _ _ _ W1 W2 Hd) as [(Hres & _) | (_ & (_ & X2 & _ & X4 & _) & _)].
      - unfold TcpRecvDispatch.dispatch_resets in Hres. rewrite Htu, Haddr, Z.eqb_refl in Hres. discriminate.
      - unfold tcp_window_start. rewrite X2, X4. reflexivity. }
    split; [rewrite Ha, Hws; reflexivity|].
    intros Hl. apply D6; [apply (li_tx _ I) | exact Hl].
Qed.

(* ---------------------------------------------------------------------------------------- *)
(* part 3: the regime invariant of two ESTABLISHED endpoints, x writes, y does not           *)
(* ---------------------------------------------------------------------------------------- *)
Section Reg.
Variable x : side.
Notation y := (side_other x).
Variable Dack : Z.

Definition mirror (t : tuple) : tuple :=
  mkTuple (tu_remote_addr t) (tu_remote_port t) (tu_local_addr t) (tu_local_port t).

Definition tup_ok (st : net) (z : side) (t : tuple) : Prop :=
  s_tuple (net_sock st z) = Some t /\ s_tuple (net_sock st (side_other z)) = Some (mirror t) /\
  tu_local_addr t = cx_addr (ep_cx (net_get st z)) /\ tuple_nz t.

Record reg (st : net) : Prop := mkReg {
  rg_est : forall z, s_state (net_sock st z) = Established;
  rg_closed : forall z, ep_closed (net_get st z) = false;
  rg_ywr : ep_written (net_get st y) = [];
  rg_tup : forall z, exists t, tup_ok st z t;
  rg_chan : forall z p t, In p (chan_to st z) -> s_tuple (net_sock st z) = Some t ->
              sent_to t (fst p) (snd p) /\ r_control (snd p) <> CRst;
  rg_xchan : forall p, In p (chan_to st y) ->
               (r_control (snd p) = CSyn /\ r_ack_number (snd p) = None) \/
               (r_control (snd p) <> CSyn /\ r_ack_number (snd p) <> None);
  rg_ychan : forall q, In q (chan_to st x) ->
               r_control (snd q) = CSyn \/
               (r_control (snd q) = CNone /\ r_payload (snd q) = [] /\
                r_seq_number (snd q) = tcp_window_start (net_sock st x));
  rg_last : s_remote_last_ack (net_sock st y) <> None;
  rg_noka : forall z, noka (s_timer (net_sock st z));
  rg_delay : match s_ack_delay (net_sock st y) with Some d => 0 <= d <= Dack | None => True end
}.

(* what C01's invariant provides (with both streams still open) *)
Definition inv_at (st : net) : Prop :=
  exists Sx Sy gx gy,
    C.EP Sy None (net_get st x) gx /\ C.EP Sx None (net_get st y) gy /\
    C.DIR Sx None (net_get st x) gx (net_get st y) gy /\
    C.DIR Sy None (net_get st y) gy (net_get st x) gx /\ chan_sub st.

(* the part of the regime that is not derived here: the window stays open (see TcpProgressZwp) *)
Definition win_open (st : net) : Prop :=
  0 < s_remote_win_len (net_sock st x) /\ adv_open (net_sock st y).

Definition wr_small (st : net) : Prop := l_len (ep_written (net_get st x)) < 2 ^ 30.

Lemma chan_to_y st : chan_to st y = ep_out (net_get st x).
Proof. unfold chan_to. rewrite side_other_inv. reflexivity. Qed.

Lemma seq_norm_sq v : seq_norm (sq v) = sq v.
Proof. change sq with seq_norm. apply TcpRecvBase.seq_norm_idem. Qed.

Lemma reg_pair st :
  reg st -> inv_at st ->
  exists gx gy, pair_facts (net_get st x) (net_get st y) gx gy /\ chan_sub st.
Proof.
  intros HG (Sx & Sy & gx & gy & HEx & HEy & Dxy & Dyx & Hsub).
  exists gx, gy. split; [|exact Hsub].
  apply (pair_all Sx Sy); try assumption.
  - exact (rg_est st HG x).
  - exact (rg_est st HG y).
  - exact (rg_closed st HG x).
  - exact (rg_closed st HG y).
  - exact (rg_ywr st HG).
Qed.

Theorem safe3_of_reg st :
  NI st -> reg st -> inv_at st -> win_open st -> wr_small st -> safe3 x Dack st.
Proof.
  intros HN HG HI (Hwin & Hadv) Hsm.
  destruct (reg_pair st HG HI) as (gx & gy & PF & Hsub).
  pose proof (pf_vx _ _ _ _ PF) as Vx. pose proof (pf_vy _ _ _ _ PF) as Vy.
  split.
  - constructor.
    + exact (rg_est st HG).
    + intros z. destruct (rg_tup st HG z) as (t & Ht & _ & Ha & _). exists t. split; assumption.
    + intros z p Hin. destruct (rg_tup st HG z) as (t & Ht & _ & _ & Hnz).
      destruct (rg_chan st HG z p t Hin Ht) as (Hto & _).
      apply (accepts_of_sent_to _ t); [exact (rg_est st HG z) | exact Ht | exact Hnz | exact Hto].
    + exact Hwin.
    + destruct (timer_is_zero_window_probe (s_timer (net_sock st x))) eqn:E; [|reflexivity].
      pose proof (ev_zwp _ _ Vx E) as Z0. unfold net_sock in Hwin. lia.
    + unfold mss_ok. pose proof (ev_mss _ _ Vx) as M. pose proof (ev_mtu _ _ Vx) as T.
      unfold net_sock. unfold tcp_MIN_REMOTE_MSS in M.
      change wipv4_HEADER_LEN with 20. change wtcp_HEADER_LEN with 20. lia.
    + pose proof (ev_acked0 _ _ Vx) as A0. unfold una_off in A0. unfold wr_small in Hsm. unfold net_sock. lia.
    + exact (proj1 (pf_ytx _ _ _ _ PF)).
    + split; [exact (ev_rcvwf _ _ Vy)|]. split; [exact Hadv|].
      destruct (ev_rx _ _ Vy) as (W1 & _ & W3). split; assumption.
    + intros p Hin. pose proof Hin as Hin0. rewrite chan_to_y in Hin. apply (Hsub x) in Hin.
      destruct (pf_xsent _ _ _ _ PF p Hin) as (Hnf & Hlen & Hack).
      destruct (rg_tup st HG y) as (t & Ht & _).
      destruct (rg_chan st HG y p t Hin0 Ht) as (_ & Hnr).
      destruct (rg_xchan st HG p Hin0) as [(Hc & Ha) | (Hc & Ha)].
      * left. unfold wire_parse. cbn [r_control r_ack_number]. rewrite Ha. split; [exact Hc | reflexivity].
      * right. unfold wire_parse. cbn [r_control r_ack_number r_payload].
        split; [destruct (r_control (snd p)); auto; contradiction|].
        destruct (r_ack_number (snd p)) as [a|] eqn:Ea; [|contradiction].
        rewrite (Hack Hnr a eq_refl). unfold net_sock. rewrite (ev_lsn _ _ Vy), seq_norm_sq.
        split; [reflexivity | lia].
    + exact (pf_cross _ _ _ _ PF).
  - constructor.
    + pose proof (ev_last _ _ Vy) as L. pose proof (rg_last st HG) as Hl. unfold net_sock in *.
      destruct (s_remote_last_ack (ep_sock (net_get st y))) as [la|]; [|contradiction].
      destruct L as (j & L1 & L2 & L3). exists la, j. auto.
    + destruct (ev_rx _ _ Vy) as (_ & W2 & _). unfold p30, TcpRecvWindow.p30 in W2. unfold net_sock.
      change (2 ^ 30) with 1073741824. exact W2.
    + exact (rg_delay st HG).
    + exact (ev_adv _ _ Vx).
    + intros q Hin. destruct (rg_ychan st HG q Hin) as [Hc | (Hc & Hp & Hs)].
      * left. unfold wire_parse. cbn [r_control]. exact Hc.
      * right. unfold wire_parse. cbn [r_control r_payload r_seq_number].
        split; [exact Hc|]. split; [exact Hp|]. rewrite Hs.
        destruct (ev_irs _ _ Vx) as (irs & _ & _ & Hws). unfold net_sock. rewrite Hws. apply seq_norm_sq.
Qed.

(* the events of the one-way workload: only x writes, nobody closes (losses, duplicates and reordering
   are the network's business and do not matter here) *)
Definition script_ev (ev : net_event) : Prop :=
  match ev with
  | NClose _ => False
  | NSend z _ => z = x
  | _ => True
  end.

(* clocks, random numbers, losses: sockets and logs stay, channels do not grow *)
Definition same_ctl (e' e : endpoint) : Prop :=
  ep_sock e' = ep_sock e /\ incl (ep_out e') (ep_out e) /\ ep_written e' = ep_written e /\
  ep_closed e' = ep_closed e /\ cx_addr (ep_cx e') = cx_addr (ep_cx e).

Lemma reg_ext st st' : (forall z, same_ctl (net_get st' z) (net_get st z)) -> reg st -> reg st'.
Proof.
  intros Hs HG.
  assert (Es : forall z, net_sock st' z = net_sock st z) by (intros z; apply (Hs z)).
  assert (Ec : forall z p, In p (chan_to st' z) -> In p (chan_to st z)).
  { intros z p. unfold chan_to. destruct (Hs (side_other z)) as (_ & Hi & _). apply Hi. }
  constructor.
  - intros z. rewrite Es. apply (rg_est st HG).
  - intros z. destruct (Hs z) as (_ & _ & _ & -> & _). apply (rg_closed st HG).
  - destruct (Hs y) as (_ & _ & -> & _). apply (rg_ywr st HG).
  - intros z. destruct (rg_tup st HG z) as (t & T1 & T2 & T3 & T4). exists t. unfold tup_ok.
    rewrite !Es. destruct (Hs z) as (_ & _ & _ & _ & ->). auto.
  - intros z p t Hin. rewrite Es. apply (rg_chan st HG). exact (Ec _ _ Hin).
  - intros p Hin. apply (rg_xchan st HG). exact (Ec _ _ Hin).
  - intros q Hin. rewrite Es. apply (rg_ychan st HG). exact (Ec _ _ Hin).
  - rewrite Es. apply (rg_last st HG).
  - intros z. rewrite Es. apply (rg_noka st HG).
  - rewrite Es. apply (rg_delay st HG).
Qed.

Lemma same_ctl_refl e : same_ctl e e.
Proof. unfold same_ctl. repeat split; try reflexivity. apply incl_refl. Qed.

(* a loss *)
Lemma drop_same st to i st' :
  (net_step st (NDrop to i) = Ok st' \/ net_step st (NCorrupt to i) = Ok st') ->
  forall z, same_ctl (net_get st' z) (net_get st z).
Proof.
  intros H z. assert (E : st' = net_set st (side_other to)
                           (ep_set_out (net_get st (side_other to)) (remove_nth i (ep_out (net_get st (side_other to)))))).
  { destruct H as [H | H]; cbn [net_step] in H; inversion H; reflexivity. }
  subst st'. destruct (side_cases (side_other to) z) as [-> | ->].
  - rewrite net_get_set_same. unfold same_ctl, ep_set_out. cbn. repeat split; try reflexivity. apply remove_nth_incl.
  - rewrite net_get_set_other. apply same_ctl_refl.
Qed.

Lemma sent_to_parse t p : sent_to t (fst p) (snd p) -> sent_to t (fst p) (wire_parse (snd p)).
Proof. unfold sent_to, wire_parse. cbn [r_dst_port r_src_port]. auto. Qed.

Lemma sent_from_to t q : sent_from t q -> sent_to (mirror t) (fst q) (snd q).
Proof. unfold sent_from, sent_to, mirror. cbn [tu_local_addr tu_remote_addr tu_local_port tu_remote_port]. tauto. Qed.

Lemma mirror_mirror t : mirror (mirror t) = t.
Proof. destruct t; reflexivity. Qed.

Theorem reg_step st ev st' :
  NI st -> opts_ok st -> reg st -> inv_at st -> inv_at st' -> script_ev ev ->
  net_step st ev = Ok st' -> reg st'.
Proof.
  intros HN Ho HG HI HI' Hsc H.
  destruct (net_step_kind _ _ _ H) as [w ev0 e' Hse He -> | to i -> _ -> | d -> -> | w isn ts -> -> | to i Hd].
  2:{ exact HG. }
  2:{ apply (reg_ext st); [|exact HG]. intros z. destruct z; cbn; repeat split; try reflexivity; apply incl_refl. }
  2:{ apply (reg_ext st); [|exact HG]. intros z.
      destruct (side_cases w z) as [-> | ->]; [rewrite net_get_set_same | rewrite net_get_set_other];
        cbn; repeat split; try reflexivity; apply incl_refl. }
  2:{ apply (reg_ext st); [|exact HG]. apply (drop_same st to i). destruct Hd as [-> | ->]; [left | right]; exact H. }
  (* a socket event at endpoint w *)
  destruct (reg_pair st HG HI) as (gx & gy & PF & Hsub).
  pose proof (pf_vx _ _ _ _ PF) as Vx. pose proof (pf_vy _ _ _ _ PF) as Vy.
  set (e := net_get st w) in *.
  destruct (ep_step_spec _ _ _ He) as (s' & out & tags & Hs & Hk & Hcx & Hout & _ & Hwr & _ & _ & Hcl).
  pose proof (sock_event_run_ev _ _ _ _ Hse) as Hrun.
  assert (Hnc : ev0 <> EvClose).
  { destruct ev; cbn [sock_event script_ev] in *; try contradiction.
    - destruct Hse as (_ & p & _ & ->). discriminate.
    - destruct Hse as (_ & ->). discriminate.
    - destruct Hse as (_ & ->). discriminate.
    - destruct Hse as (_ & ->). discriminate. }
  destruct (rg_tup st HG w) as (t & T1 & T2 & T3 & T4). unfold net_sock in T1, T2. fold e in T1, T3.
  destruct (Ho w) as (Hto & Hka). unfold net_sock in Hto, Hka. fold e in Hto, Hka.
  assert (Hrx : TcpRecvBase.rb_wf (s_rx_buffer (ep_sock e)) /\ 0 <= s_remote_win_shift (ep_sock e)).
  { unfold e. destruct (side_cases x w) as [-> | ->].
    - destruct (ev_rx _ _ Vx) as (A & _ & B). split; assumption.
    - destruct (ev_rx _ _ Vy) as (A & _ & B). split; assumption. }
  assert (Hseg : match ev0 with
                 | EvSegment ip r => sent_to t ip r /\ r_control r <> CFin /\ r_control r <> CRst
                 | _ => True
                 end).
  { destruct ev; cbn [sock_event] in Hse; try contradiction.
    - destruct Hse as (-> & p & Hn & ->). pose proof (nth_error_In _ _ Hn) as Hin.
      destruct (rg_chan st HG w p t Hin T1) as (A & B).
      split; [apply sent_to_parse; exact A|]. unfold wire_parse. cbn [r_control]. split; [|exact B].
      unfold chan_to in Hin. apply (Hsub (side_other w)) in Hin.
      destruct (side_cases x w) as [E | E].
      + subst w. exact (pf_ysent _ _ _ _ PF p Hin).
      + rewrite E, side_other_inv in Hin. exact (proj1 (pf_xsent _ _ _ _ PF p Hin)).
    - destruct Hse as (_ & ->). exact I.
    - destruct Hse as (_ & ->). exact I.
    - destruct Hse as (_ & ->). exact I. }
  destruct (est_event _ _ _ _ _ _ t Hrun Hnc Hs (rg_est st HG w) (NI_live st w HN) Hto Hka (rg_noka st HG w)
              T1 T3 T4 (proj1 Hrx) (proj2 Hrx) Hseg) as ((S1 & S2 & S3) & Hem).
  destruct (step_noka _ _ _ _ _ _ Hrun Hs Hka (rg_noka st HG w)) as (_ & Hnk').
  destruct (step_aux _ _ _ _ _ _ Hrun Hs) as ((Hdl & _) & _).
  (* the frame *)
  assert (Gw : net_get (net_set st w e') w = e') by apply net_get_set_same.
  assert (Go : net_get (net_set st w e') (side_other w) = net_get st (side_other w)) by apply net_get_set_other.
  assert (Esock : forall z, s_state (net_sock (net_set st w e') z) = s_state (net_sock st z) /\
                            s_tuple (net_sock (net_set st w e') z) = s_tuple (net_sock st z) /\
                            cx_addr (ep_cx (net_get (net_set st w e') z)) = cx_addr (ep_cx (net_get st z))).
  { intros z. unfold net_sock. destruct (side_cases w z) as [-> | ->].
    - rewrite Gw, Hk, Hcx. auto.
    - rewrite Go. auto. }
  assert (Hclosed' : forall z, ep_closed (net_get (net_set st w e') z) = false).
  { intros z. destruct (side_cases w z) as [-> | ->].
    - rewrite Gw, Hcl. fold e. pose proof (rg_closed st HG w) as C0. fold e in C0.
      destruct ev0; cbn [log_closed]; try exact C0. exfalso. apply Hnc. reflexivity.
    - rewrite Go. apply (rg_closed st HG). }
  assert (Hywr' : ep_written (net_get (net_set st w e') y) = []).
  { destruct (side_cases w y) as [E | E].
    - rewrite E, Gw, Hwr. fold e. pose proof (rg_ywr st HG) as W0. rewrite E in W0. fold e in W0.
      destruct ev; cbn [sock_event script_ev] in *; try contradiction.
      + destruct Hse as (_ & p & _ & ->). exact W0.
      + destruct Hse as (_ & ->). exact W0.
      + destruct Hse as (-> & ->). exfalso. rewrite Hsc in E. exact (side_other_neq x E).
      + destruct Hse as (_ & ->). destruct out; exact W0.
    - rewrite E, Go. rewrite <- E. apply (rg_ywr st HG). }
  assert (Hest' : forall z, s_state (net_sock (net_set st w e') z) = Established).
  { intros z. rewrite (proj1 (Esock z)). apply (rg_est st HG). }
  (* the pair facts after the step *)
  assert (HG0 : exists gx' gy', pair_facts (net_get (net_set st w e') x) (net_get (net_set st w e') y) gx' gy').
  { destruct HI' as (Sx' & Sy' & gx' & gy' & HEx' & HEy' & Dxy' & Dyx' & _).
    exists gx', gy'. apply (pair_all Sx' Sy'); try assumption.
    - apply (Hest' x). - apply (Hest' y). - apply Hclosed'. - apply Hclosed'. }
  destruct HG0 as (gx' & gy' & PF').
  (* RCV.NXT of x does not move *)
  assert (Hwsx : tcp_window_start (net_sock (net_set st w e') x) = tcp_window_start (net_sock st x)).
  { unfold net_sock. destruct (side_cases w x) as [E | E].
    - rewrite (proj1 (pf_yseq _ _ _ _ PF')), (proj1 (pf_yseq _ _ _ _ PF)).
      rewrite E. rewrite Go. reflexivity.
    - rewrite E, Go. reflexivity. }
  assert (Hchan : forall z, chan_to (net_set st w e') z =
                            if side_eqb z (side_other w) then chan_to st z ++ opt_list (wire_out out) else chan_to st z).
  { intros z. unfold chan_to. destruct (side_cases w z) as [-> | ->].
    - rewrite Go. destruct w; reflexivity.
    - rewrite side_other_inv, Gw, Hout. destruct w; reflexivity. }
  constructor.
  - exact Hest'.
  - exact Hclosed'.
  - exact Hywr'.
  - intros z. destruct (rg_tup st HG z) as (tz & Z1 & Z2 & Z3 & Z4). exists tz. unfold tup_ok.
    destruct (Esock z) as (_ & -> & ->). destruct (Esock (side_other z)) as (_ & -> & _). auto.
  - intros z p tz Hin Htz. rewrite (proj1 (proj2 (Esock z))) in Htz. rewrite Hchan in Hin.
    destruct (side_eqb z (side_other w)) eqn:Ez; [|exact (rg_chan st HG z p tz Hin Htz)].
    apply in_app_or in Hin. destruct Hin as [Hin | Hin]; [exact (rg_chan st HG z p tz Hin Htz)|].
    destruct (wire_out out) as [q|] eqn:Eq; [|contradiction]. destruct Hin as [<- | []].
    destruct (Hem q eq_refl) as (F1 & F2 & _).
    apply side_eqb_true in Ez. subst z.
    unfold net_sock in Htz. rewrite T2 in Htz. inversion Htz; subst tz.
    split; [apply sent_from_to; exact F1 | destruct F2 as [-> | ->]; discriminate].
  - intros p Hin. rewrite Hchan in Hin.
    destruct (side_eqb y (side_other w)) eqn:Ez; [|exact (rg_xchan st HG p Hin)].
    apply in_app_or in Hin. destruct Hin as [Hin | Hin]; [exact (rg_xchan st HG p Hin)|].
    destruct (wire_out out) as [q|] eqn:Eq; [|contradiction]. destruct Hin as [<- | []].
    destruct (Hem q eq_refl) as (_ & F2 & F3 & _). right.
    split; [destruct F2 as [-> | ->]; discriminate | rewrite F3; discriminate].
  - intros q Hin. rewrite Hwsx. rewrite Hchan in Hin.
    destruct (side_eqb x (side_other w)) eqn:Ez; [|exact (rg_ychan st HG q Hin)].
    apply in_app_or in Hin. destruct Hin as [Hin | Hin]; [exact (rg_ychan st HG q Hin)|].
    destruct (wire_out out) as [q0|] eqn:Eq; [|contradiction]. destruct Hin as [<- | []].
    assert (Ew : w = y) by (apply side_eqb_true in Ez; rewrite Ez; symmetry; apply side_other_inv).
    destruct (Hem q0 eq_refl) as (_ & _ & _ & F4). right.
    assert (Hl0 : rb_len (s_tx_buffer (ep_sock e)) = 0) by (unfold e; rewrite Ew; exact (proj1 (pf_ytx _ _ _ _ PF))).
    destruct (F4 Hl0) as (C1 & C2 & C3). split; [exact C1|]. split; [exact C2|].
    rewrite C3. rewrite <- Hwsx. unfold net_sock.
    rewrite (proj1 (pf_yseq _ _ _ _ PF')).
    destruct (pf_yseq _ _ _ _ PF') as (_ & _ & <-). rewrite <- Ew, Gw, Hk. reflexivity.
  - pose proof (rg_last st HG) as L0. unfold net_sock in L0 |- *. destruct (side_cases w y) as [E | E].
    + rewrite E in L0 |- *. rewrite Gw, Hk. apply S3. exact L0.
    + rewrite E, Go. rewrite <- E. exact L0.
  - intros z. unfold net_sock. destruct (side_cases w z) as [-> | ->].
    + rewrite Gw, Hk. exact Hnk'.
    + rewrite Go. apply (rg_noka st HG).
  - pose proof (rg_delay st HG) as L0. unfold net_sock in L0 |- *. destruct (side_cases w y) as [E | E].
    + rewrite E in L0 |- *. rewrite Gw, Hk, Hdl. exact L0.
    + rewrite E, Go. rewrite <- E. exact L0.
Qed.

End Reg.

(* ---------------------------------------------------------------------------------------- *)
(* part 4: every state reached from net_init; the run hypothesis is discharged               *)
(* ---------------------------------------------------------------------------------------- *)
Module NV := TcpNetInv.

(* configurations: C01's [cfg_ok] (transmit buffer <= 2^30, 52 < MTU <= 65575, congestion controller
   well-formed) and a non-negative initial clock *)
Definition cfg_good (c : ep_config) : Prop := NV.cfg_ok c /\ 0 <= c_now c.

Definition reach (st : net) : Prop :=
  exists ca cb st0 pre, cfg_good ca /\ cfg_good cb /\ net_init ca cb = Ok st0 /\ net_run st0 pre = Ok st.

Lemma reach_step st ev st' : reach st -> net_step st ev = Ok st' -> reach st'.
Proof.
  intros (ca & cb & st0 & pre & H1 & H2 & H3 & H4) Hs.
  exists ca, cb, st0, (pre ++ [ev]). repeat (split; [assumption|]).
  apply (net_run_app pre [ev] st0 st st' H4). cbn [net_run]. rewrite Hs. reflexivity.
Qed.

Lemma reach_NI st : reach st -> NI st.
Proof.
  intros (ca & cb & st0 & pre & ((_ & _ & Ca) & Na) & ((_ & _ & Cb) & Nb) & H3 & H4).
  apply (NI_run pre st0); [|exact H4]. exact (NI_init ca cb st0 Ca Cb Na Nb H3).
Qed.

Lemma compat_open e : ep_closed e = false -> C.compat (C.oracle_S (ep_written e)) None e.
Proof.
  intros Hc. split; [reflexivity|]. split; [intros f Hf; discriminate | rewrite Hc; discriminate].
Qed.

Theorem reach_inv_at x st :
  reach st -> NV.small st -> (forall z, ep_closed (net_get st z) = false) -> inv_at x st.
Proof.
  intros (ca & cb & st0 & pre & (H1 & _) & (H2 & _) & H3 & H4) Hsm Hcl.
  pose proof (NV.run_age_small TcpNetProofs.c05_holds TcpNetProofs.c05_new_holds _ _ _ _ _ H1 H2 H3 H4 Hsm) as Hage.
  destruct (NV.INV_reach TcpNetProofs.c05_holds TcpNetProofs.c05_new_holds _ _ _ _ _ H1 H2 H3 H4 Hage
              _ None _ None (compat_open _ (Hcl SA)) (compat_open _ (Hcl SB)))
    as (ga & gb & Ea & Eb & Dab & Dba & _ & Hsub).
  unfold inv_at. destruct x; cbn [side_other net_get].
  - exists (C.oracle_S (ep_written (n_a st))), (C.oracle_S (ep_written (n_b st))), ga, gb. auto.
  - exists (C.oracle_S (ep_written (n_b st))), (C.oracle_S (ep_written (n_a st))), gb, ga. auto.
Qed.

Lemma closed_step x st ev st' :
  script_ev x ev -> net_step st ev = Ok st' ->
  (forall z, ep_closed (net_get st z) = false) -> forall z, ep_closed (net_get st' z) = false.
Proof.
  intros Hsc H Hcl z.
  destruct (net_step_kind _ _ _ H) as [w ev0 e' Hse He -> | to i -> _ -> | d -> -> | w isn ts -> -> | to i Hd].
  - destruct (side_cases w z) as [-> | ->]; [|rewrite net_get_set_other; apply Hcl].
    rewrite net_get_set_same.
    destruct (ep_step_spec _ _ _ He) as (s' & out & tags & _ & _ & _ & _ & _ & _ & _ & _ & ->).
    destruct ev; cbn [sock_event script_ev] in *; try contradiction.
    + destruct Hse as (_ & p & _ & ->). apply Hcl.
    + destruct Hse as (_ & ->). apply Hcl.
    + destruct Hse as (_ & ->). apply Hcl.
    + destruct Hse as (_ & ->). apply Hcl.
  - apply Hcl.
  - destruct z; [exact (Hcl SA) | exact (Hcl SB)].
  - destruct (side_cases w z) as [-> | ->]; [rewrite net_get_set_same | rewrite net_get_set_other]; apply Hcl.
  - assert (Hd' : net_step st (NDrop to i) = Ok st' \/ net_step st (NCorrupt to i) = Ok st')
      by (destruct Hd as [-> | ->]; [left | right]; exact H).
    destruct (drop_same st to i st' Hd' z) as (_ & _ & _ & -> & _). apply Hcl.
Qed.

(* THE DISCHARGE.  From a state reached from net_init in which the regime invariant holds (both
   ESTABLISHED, y has written nothing, nobody has closed, what is in flight is addressed to the
   connection and is no RST), for every run of the one-way workload (only x writes, nobody closes,
   no losses) that ends with fewer than 2^30 octets written and along which the window stays open,
   the safety hypotheses of Proofs/TcpProgressData.v and TcpProgressAck.v hold in every state. *)
Theorem safe3_run x Dack : forall evs st st',
  reach st -> NI st -> opts_ok st -> reg x Dack st ->
  Forall (script_ev x) evs -> net_run st evs = Ok st' ->
  NV.small st' -> wr_small x st' -> run_all (win_open x) st evs ->
  run_all (safe3 x Dack) st evs.
Proof.
  induction evs as [|ev rest IH]; intros st st' Hre HN Ho HG Hsc Hrun Hsm Hws Hwo.
  - cbn [net_run] in Hrun. inversion Hrun; subst st'. cbn [run_all]. split; [|exact I].
    apply safe3_of_reg; try assumption.
    + apply reach_inv_at; [exact Hre | exact Hsm | exact (rg_closed x Dack st HG)].
    + exact (run_all_here _ _ _ Hwo).
  - cbn [net_run] in Hrun. apply obind_ok in Hrun. destruct Hrun as (st1 & Hs & Hrun).
    inversion Hsc as [|? ? Hsc1 Hsc2]; subst.
    pose proof (net_run_mono _ _ _ Hrun) as Hm1. pose proof (net_step_mono _ _ _ Hs) as Hm0.
    assert (Hsm1 : NV.small st1) by exact (NV.small_mono _ _ Hm1 Hsm).
    assert (Hsm0 : NV.small st) by exact (NV.small_mono _ _ Hm0 Hsm1).
    assert (Hw1 : wr_small x st1).
    { unfold wr_small in *. destruct (Hm1 x) as (Wp & _). apply C.l_len_prefix in Wp. lia. }
    assert (Hw0 : wr_small x st).
    { unfold wr_small in *. destruct (Hm0 x) as (Wp & _). apply C.l_len_prefix in Wp. lia. }
    pose proof (reach_inv_at x st Hre Hsm0 (rg_closed x Dack st HG)) as HI.
    pose proof (reach_step _ _ _ Hre Hs) as Hre1.
    pose proof (closed_step x _ _ _ Hsc1 Hs (rg_closed x Dack st HG)) as Hcl1.
    pose proof (reach_inv_at x st1 Hre1 Hsm1 Hcl1) as HI1.
    pose proof (reg_step x Dack _ _ _ HN Ho HG HI HI1 Hsc1 Hs) as HG1.
    cbn [run_all] in Hwo |- *. destruct Hwo as (Hwo0 & Hwo1). rewrite Hs in Hwo1 |- *.
    split; [apply safe3_of_reg; assumption|].
    apply (IH st1 st'); try assumption.
    + exact (NI_step _ _ _ HN Hs).
    + exact (opts_step _ _ _ Ho Hs).
Qed.

(* ---------------------------------------------------------------------------------------- *)
(* part 5: the composition without a safety hypothesis on the run                            *)
(* ---------------------------------------------------------------------------------------- *)
(* the applications of the one-way workload: only x writes, nobody closes *)
Definition app_ev (x : side) (ev : net_event) : Prop :=
  match ev with NClose _ => False | NSend z _ => z = x | _ => True end.

Lemma script_of_fair x Dt Da : forall evs fa st st',
  fair_run Dt Da fa st evs -> net_run st evs = Ok st' -> Forall (app_ev x) evs -> Forall (script_ev x) evs.
Proof.
  induction evs as [|ev rest IH]; intros fa st st' Hf Hr Ha; [constructor|].
  cbn [net_run] in Hr. apply obind_ok in Hr. destruct Hr as (st1 & Hs & Hr).
  cbn [fair_run] in Hf. destruct Hf as (Hfe & Hf). rewrite Hs in Hf.
  inversion Ha as [|? ? Ha1 Ha2]; subst. constructor.
  - destruct ev; cbn [script_ev app_ev fair_ev] in *; auto.
  - exact (IH _ _ _ Hf Hr Ha2).
Qed.

(* ALL WRITTEN OCTETS ARE DELIVERED, from a state reached from net_init.  No hypothesis on the run
   other than about the applications (only x writes, nobody closes, fewer than 2^30 octets written)
   and the part of the regime not derived here ([win_open]: the window stays open). *)
Theorem oneway_delivery_from_established x Dt Da Dack : forall n m evs st st' L0,
  reach st -> reg x Dack st ->
  fair_schedule Dt Da st evs -> 0 <= Dack ->
  Forall (app_ev x) evs -> net_run st evs = Ok st' ->
  (forall z, l_len (ep_written (net_get st' z)) < 2 ^ 30) ->
  run_all (win_open x) st evs ->
  L0 <= l_len (ep_written (net_get st x)) ->
  L0 - una_off (net_get st x) <= Z.of_nat n ->
  L0 - read_off (net_get st (side_other x)) <= Z.of_nat m ->
  net_now st x + Z.of_nat n * W3 Dt Dack + Z.of_nat m * Da < net_now st' x ->
  exists pre post st1, evs = pre ++ post /\ net_run st pre = Ok st1 /\ net_run st1 post = Ok st' /\
                       L0 <= read_off (net_get st1 (side_other x)).
Proof.
  intros n m evs st st' L0 Hre HG (HDt & HDa & Ho & Hfair) HDk Happ Hrun Hsz Hwo HL Hn Hm Hlate.
  pose proof (reach_NI st Hre) as HN.
  assert (Hsm : NV.small st').
  { split; [specialize (Hsz SA) | specialize (Hsz SB)]; cbn [net_get] in Hsz;
      change (2 ^ 30) with 1073741824 in Hsz; lia. }
  pose proof (safe3_run x Dack evs st st' Hre HN Ho HG (script_of_fair x Dt Da _ _ _ _ Hfair Hrun Happ)
                Hrun Hsm (Hsz x) Hwo) as HR.
  exact (all_written_bytes_eventually_delivered x Dt Da Dack n m evs _ st st' L0 HDt HDk HDa HN Ho
           (fa_init_sync Dt Da st) HR Hfair Hrun HL Hn Hm Hlate).
Qed.

(* the same with the fairness bookkeeping of a run already in progress *)
Theorem oneway_delivery_from_established_fa x Dt Da Dack : forall n m evs fa st st' L0,
  reach st -> reg x Dack st -> opts_ok st ->
  0 <= Dt -> 0 <= Da -> 0 <= Dack -> dl_sync Da fa st -> fair_run Dt Da fa st evs ->
  Forall (app_ev x) evs -> net_run st evs = Ok st' ->
  (forall z, l_len (ep_written (net_get st' z)) < 2 ^ 30) ->
  run_all (win_open x) st evs ->
  L0 <= l_len (ep_written (net_get st x)) ->
  L0 - una_off (net_get st x) <= Z.of_nat n ->
  L0 - read_off (net_get st (side_other x)) <= Z.of_nat m ->
  net_now st x + Z.of_nat n * W3 Dt Dack + Z.of_nat m * Da < net_now st' x ->
  exists pre post st1, evs = pre ++ post /\ net_run st pre = Ok st1 /\ net_run st1 post = Ok st' /\
                       L0 <= read_off (net_get st1 (side_other x)).
Proof.
  intros n m evs fa st st' L0 Hre HG Ho HDt HDa HDk Hsy Hfair Happ Hrun Hsz Hwo HL Hn Hm Hlate.
  pose proof (reach_NI st Hre) as HN.
  assert (Hsm : NV.small st').
  { split; [specialize (Hsz SA) | specialize (Hsz SB)]; cbn [net_get] in Hsz;
      change (2 ^ 30) with 1073741824 in Hsz; lia. }
  pose proof (safe3_run x Dack evs st st' Hre HN Ho HG (script_of_fair x Dt Da _ _ _ _ Hfair Hrun Happ)
                Hrun Hsm (Hsz x) Hwo) as HR.
  exact (all_written_bytes_eventually_delivered x Dt Da Dack n m evs fa st st' L0 HDt HDk HDa HN Ho
           Hsy HR Hfair Hrun HL Hn Hm Hlate).
Qed.

(* the regime invariant holds in every state of a run of the one-way workload *)
Theorem reg_run_all x Dack : forall evs st st',
  reach st -> NI st -> opts_ok st -> reg x Dack st ->
  Forall (script_ev x) evs -> net_run st evs = Ok st' -> NV.small st' ->
  run_all (reg x Dack) st evs.
Proof.
  induction evs as [|ev rest IH]; intros st st' Hre HN Ho HG Hsc Hrun Hsm.
  - cbn [run_all]. split; [exact HG | exact I].
  - cbn [net_run] in Hrun. apply obind_ok in Hrun. destruct Hrun as (st1 & Hs & Hrun).
    inversion Hsc as [|? ? Hsc1 Hsc2]; subst.
    pose proof (net_run_mono _ _ _ Hrun) as Hm1. pose proof (net_step_mono _ _ _ Hs) as Hm0.
    assert (Hsm1 : NV.small st1) by exact (NV.small_mono _ _ Hm1 Hsm).
    assert (Hsm0 : NV.small st) by exact (NV.small_mono _ _ Hm0 Hsm1).
    pose proof (reach_inv_at x st Hre Hsm0 (rg_closed x Dack st HG)) as HI.
    pose proof (reach_step _ _ _ Hre Hs) as Hre1.
    pose proof (closed_step x _ _ _ Hsc1 Hs (rg_closed x Dack st HG)) as Hcl1.
    pose proof (reach_inv_at x st1 Hre1 Hsm1 Hcl1) as HI1.
    pose proof (reg_step x Dack _ _ _ HN Ho HG HI HI1 Hsc1 Hs) as HG1.
    cbn [run_all]. rewrite Hs. split; [exact HG|].
    apply (IH st1 st'); try assumption.
    + exact (NI_step _ _ _ HN Hs).
    + exact (opts_step _ _ _ Ho Hs).
Qed.

Lemma run_all_mp (P Q : net -> Prop) evs : forall st,
  run_all P st evs -> run_all (fun s => P s -> Q s) st evs -> run_all Q st evs.
Proof.
  induction evs as [|ev r IH]; intros st HP HQ; cbn [run_all] in *.
  - destruct HP as (HP & _). destruct HQ as (HQ & _). auto.
  - destruct HP as (HP & HP1). destruct HQ as (HQ & HQ1). split; [auto|].
    destruct (net_step st ev); try exact I. apply IH; assumption.
Qed.
