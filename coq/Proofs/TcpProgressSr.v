(* C02 (liveness half): two more facts of qstatic as invariants of every event but close():
     srf s' s : syn_unacked_in_fin_wait stays false, and the retransmission timeout stays at or above RTTE_MIN_RTO
   (the flag is set only by close() in SYN-RECEIVED; the timeout is written by the RTT estimator - a sample is clamped
   to [RTTE_MIN_RTO, RTTE_MAX_RTO], a backoff doubles it - and by reset).  A clone of the frame proofs of
   Proofs/TcpProgressCap.v. *)
From SV Require Import Lib.Base Gen.Consts.
From SV Require Import Model.Seq32 Model.Assembler Model.TcpBuf Model.TcpTypes Model.Tcp.
From SV Require Import Proofs.AssemblerProofs Proofs.TcpRecvBase Proofs.TcpRecvWindow
  Proofs.TcpRecvPayload Proofs.TcpRecvInv Proofs.TcpRecvProcess.
From SV Require Import Proofs.TcpProgressFrame.

Definition srf (s' s : socket) : Prop :=
  (s_syn_unacked_in_fin_wait s = false -> s_syn_unacked_in_fin_wait s' = false) /\
  (tcp_RTTE_MIN_RTO <= rt_rto (s_rtte s) -> tcp_RTTE_MIN_RTO <= rt_rto (s_rtte s')).

Lemma srf_refl s : srf s s.
Proof. split; auto. Qed.
Lemma srf_trans a b c : srf a b -> srf b c -> srf a c.
Proof. intros (A1 & A2) (B1 & B2). split; auto. Qed.

Lemma rto_on_retransmit r : rt_rto (rtte_on_retransmit r) = rt_rto r.
Proof. reflexivity. Qed.
Lemma rto_on_send r t q : rt_rto (rtte_on_send r t q) = rt_rto r.
Proof. unfold rtte_on_send. destruct (match rt_max_seq_sent r with Some m => seq_gt q m | None => true end); reflexivity. Qed.
Lemma rto_on_rto_min r : tcp_RTTE_MIN_RTO <= rt_rto r -> tcp_RTTE_MIN_RTO <= rt_rto (rtte_on_rto r).
Proof.
  intros H. unfold rtte_on_rto. destruct (_ >=? 3); cbn [rt_rto]; unfold tcp_RTTE_MIN_RTO, tcp_RTTE_MAX_RTO in *; lia.
Qed.
Lemma rto_sample_min r n r' : rtte_sample r n = Ok r' -> tcp_RTTE_MIN_RTO <= rt_rto r'.
Proof.
  unfold rtte_sample. intros H.
  apply obind_ok_inv in H. destruct H as ((srtt, rttvar) & _ & H).
  apply obind_ok_inv in H. destruct H as (m & _ & H).
  apply obind_ok_inv in H. destruct H as (x & _ & H). inversion H; subst. cbn [rt_rto].
  unfold tcp_RTTE_MIN_RTO, tcp_RTTE_MAX_RTO.
  destruct (x <? 1000) eqn:E1; [lia|]. apply Z.ltb_ge in E1. destruct (x >? 60000); lia.
Qed.
Lemma rto_on_ack_min r t q r' :
  rtte_on_ack r t q = Ok r' -> tcp_RTTE_MIN_RTO <= rt_rto r -> tcp_RTTE_MIN_RTO <= rt_rto r'.
Proof.
  unfold rtte_on_ack. intros H Hr. destruct (rt_timestamp r) as [(a, b)|]; [|inversion H; subst; exact Hr].
  destruct (seq_ge q b); [|inversion H; subst; exact Hr].
  apply obind_ok_inv in H. destruct H as (r1 & H1 & H). inversion H; subst. cbn [rt_rto].
  exact (rto_sample_min _ _ _ H1).
Qed.

Ltac srf_solve :=
  unfold srf; rproj; rewrite ?rto_on_retransmit, ?rto_on_send;
  split; intros HH;
  first [exact HH | reflexivity | (vm_compute; discriminate) | (apply rto_on_rto_min; exact HH)
        | match goal with E : rtte_on_ack _ _ _ = Ok ?r |- _ <= rt_rto ?r => exact (rto_on_ack_min _ _ _ _ E HH) end].

(* ---------------------------------------------------------------------------------------- *)
(* process                                                                                   *)
(* ---------------------------------------------------------------------------------------- *)
Lemma ack_reply_srf cx s ip r : srf (fst (tcp_ack_reply cx s ip r)) s.
Proof. unfold tcp_ack_reply. destruct (tcp_reply ip r) as (ip', reply). cbn [fst]. srf_solve. Qed.

Lemma challenge_srf cx s ip r : srf (fst (tcp_challenge_ack_reply cx s ip r)) s.
Proof.
  unfold tcp_challenge_ack_reply. destruct (cx_now cx <? s_challenge_ack_timer s); [apply srf_refl|].
  destruct (tcp_ack_reply cx (upd_challenge_ack_timer s (cx_now cx + 1000000)) ip r) as (s1, p) eqn:E.
  cbn [fst]. change s1 with (fst (s1, p)). rewrite <- E.
  eapply srf_trans; [apply ack_reply_srf|]. srf_solve.
Qed.

Lemma ack_check_ret_srf cx s ip r t s1 rep :
  tcp_process_ack_check cx s ip r = Ok (Ret t s1 rep) -> srf s1 s.
Proof.
  unfold tcp_process_ack_check. intros H. des_all H.
  all: try (apply obind_ok_inv in H; destruct H as (? & _ & H)).
  all: try (inversion H; subst; apply srf_refl).
  all: match goal with
       | E : tcp_challenge_ack_reply ?cx ?s ?ip ?r = (_, _) |- _ =>
           inversion H; subst;
           pose proof (challenge_srf cx s ip r) as Hc; rewrite E in Hc; exact Hc
       end.
Qed.

Lemma window_srf cx s ip r res :
  tcp_process_window cx s ip r = Ok res ->
  match res with
  | Cont _ (s2, _, _) => srf s2 s
  | Ret _ s1 _ => srf s1 s
  end.
Proof.
  unfold tcp_process_window. intros H.
  assert (Hmain :
    (let '(in_window, tg) := tcp_segment_in_window (tcp_window_start s) (tcp_window_end s)
                               (r_seq_number r) (seq_add (r_seq_number r) (l_len (r_payload r))) in
      if in_window then
        let overlap_start := seq_max (tcp_window_start s) (r_seq_number r) in
        let overlap_end := seq_min (tcp_window_end s) (seq_add (r_seq_number r) (l_len (r_payload r))) in
        if negb (seq_le overlap_start overlap_end) then Panic else
        let s := upd_local_rx_last_seq s (Some (r_seq_number r)) in
        do a <- seq_sub overlap_start (r_seq_number r);
        do b <- seq_sub overlap_end (r_seq_number r);
        do payload <- slice_range (r_payload r) a b;
        do off <- seq_sub overlap_start (tcp_window_start s);
        Ok (Cont tg (s, payload, off))
      else if control_eqb (r_control r) CRst then Ok (Ret (tg + 1000) s None)
      else
        let s := if tcp_state_eqb (s_state s) TimeWait
                 then upd_timer s (timer_set_for_close (cx_now cx)) else s in
        if (match r_payload r with [] => false | _ => true end)
           && (match r_control r with CNone | CPsh | CFin => true | _ => false end)
        then let '(s', p) := tcp_ack_reply cx s ip r in Ok (Ret (tg + 2000) s' (Some p))
        else let '(s', p) := tcp_challenge_ack_reply cx s ip r in Ok (Ret (tg + 3000) s' p)) = Ok res ->
    match res with
    | Cont _ (s2, _, _) => srf s2 s
    | Ret _ s1 _ => srf s1 s
    end).
  { clear H. intros H. cbv zeta in H.
    destruct (tcp_segment_in_window _ _ _ _) as (inw, tg).
    destruct inw.
    - destruct (negb (seq_le _ _)); [discriminate|].
      repeat (apply obind_ok_inv in H; destruct H as (? & _ & H)).
      inversion H; subst res. srf_solve.
    - destruct (control_eqb (r_control r) CRst); [inversion H; subst res; apply srf_refl|].
      set (q := if tcp_state_eqb (s_state s) TimeWait
                then upd_timer s (timer_set_for_close (cx_now cx)) else s) in *.
      assert (Hq : srf q s) by (unfold q; destruct (tcp_state_eqb (s_state s) TimeWait); srf_solve).
      clearbody q.
      destruct ((match r_payload r with [] => false | _ => true end)
                && (match r_control r with CNone | CPsh | CFin => true | _ => false end)).
      + pose proof (ack_reply_srf cx q ip r) as C. destruct (tcp_ack_reply cx q ip r) as (s', p).
        inversion H; subst res. eapply srf_trans; eassumption.
      + pose proof (challenge_srf cx q ip r) as C.
        destruct (tcp_challenge_ack_reply cx q ip r) as (s', p).
        inversion H; subst res. eapply srf_trans; eassumption. }
  destruct (s_state s); try exact (Hmain H); inversion H; subst res; apply srf_refl.
Qed.

Lemma apply_mss_srf s r : srf (tcp_apply_mss s r) s.
Proof.
  unfold tcp_apply_mss. destruct (r_max_seg_size r) as [m|]; [destruct (m =? 0)|]; srf_solve.
Qed.

Lemma reset_srf s : srf (tcp_reset s) s.
Proof. unfold tcp_reset. srf_solve. Qed.

Lemma relisten_srf s ep : srf (tcp_set_state (upd_listen_endpoint (tcp_reset s) ep) Listen) s.
Proof.
  eapply srf_trans; [|apply reset_srf]. generalize (tcp_reset s). intros q. unfold tcp_set_state. srf_solve.
Qed.

Lemma transition_srf cx s ip r ctl al aof res :
  tcp_process_transition cx s ip r ctl al aof = Ok res ->
  match res with Cont _ s3 => srf s3 s | Ret _ s3 _ => srf s3 s end.
Proof.
  intros H. unfold tcp_process_transition in H.
  pose proof (challenge_srf cx s ip r) as Hch.
  pose proof (apply_mss_srf s r) as Hm.
  destruct (s_state s) eqn:Est; destruct ctl; cbv beta iota in H.
  (* the SYN arms of LISTEN and SYN-SENT go through apply_mss: abstract it first *)
  all: try (revert H Hm; generalize (tcp_apply_mss s r); intros q H Hm;
            match type of H with context [upd_tuple q] => idtac | context [upd_remote_seq_no q] => idtac end;
            repeat match type of H with context [if ?c then _ else _] => destruct c end;
            inversion H; subst res; (eapply srf_trans; [|exact Hm]); unfold tcp_set_state; srf_solve).
  all: unfold tcp_enter_time_wait, tcp_fin_received in H.
  all: repeat match type of H with
              | context [if ?c then _ else _] => destruct c
              | (let '(_, _) := ?m in _) = _ => destruct m eqn:?
              end.
  all: try discriminate H.
  all: inversion H; subst res; clear H.
  all: try apply srf_refl.
  all: try (match goal with |- srf (tcp_set_state (upd_listen_endpoint (tcp_reset _) _) Listen) _ => apply relisten_srf end).
  all: try (cbn [fst] in Hch; exact Hch).
  all: try srf_solve.
Qed.

Lemma update_remote_srf cx s r al s' iwu :
  tcp_process_update_remote cx s r al = Ok (s', iwu) -> srf s' s.
Proof.
  unfold tcp_process_update_remote. intros H. des_all H.
  all: try (apply obind_ok_inv in H; destruct H as (tx & _ & H)).
  all: inversion H; subst; srf_solve.
Qed.

Lemma dup_ack_srf cx s r al iwu s' tg :
  tcp_process_dup_ack cx s r al iwu = Ok (s', tg) -> srf s' s.
Proof.
  unfold tcp_process_dup_ack. intros H.
  destruct (r_ack_number r) as [a|]; [|inversion H; subst; apply srf_refl].
  apply obind_ok_inv in H. destruct H as ((s1, tg1) & H1 & H).
  assert (Hf1 : srf s1 s).
  { des1 H1.
    - repeat (apply obind_ok_inv in H1; destruct H1 as (? & ? & H1)).
      inversion H1; subst. des_all H1; srf_solve.
    - repeat (apply obind_ok_inv in H1; destruct H1 as (? & ? & H1)).
      inversion H1; subst. des_all H1; srf_solve. }
  cbv beta iota zeta in H.
  eapply srf_trans; [|exact Hf1].
  des_all H; inversion H; subst; srf_solve.
Qed.

Lemma timers_srf cx s al aall : srf (fst (tcp_process_timers cx s al aall)) s.
Proof.
  unfold tcp_process_timers. destruct (s_timer s); try destruct aall; try destruct (al >? 0);
    cbn [fst]; srf_solve.
Qed.

Lemma zwp_srf cx s al : srf (fst (tcp_process_zwp cx s al)) s.
Proof.
  unfold tcp_process_zwp.
  repeat match goal with
  | |- context [if ?c then _ else _] => destruct c
  end; cbn [fst]; srf_solve.
Qed.

Lemma tsval_srf s r :
  srf (match r_timestamp r with Some (tsval, _) => upd_last_remote_tsval s tsval | None => s end) s.
Proof. destruct (r_timestamp r) as [(a, b)|]; srf_solve. Qed.

Lemma payload_srf cx s ip r payload off s' rep tg :
  tcp_process_payload cx s ip r payload off = Ok (s', rep, tg) -> srf s' s.
Proof.
  intros H. unfold tcp_process_payload in H.
  destruct (l_len payload =? 0); [inversion H; subst; apply srf_refl|].
  destruct (asm_atrf _ _ _ _) as (asm', res).
  destruct res as [contig|]; [|inversion H; subst; apply srf_refl].
  destruct (rb_write_unallocated _ _ _) as (rx, lw).
  destruct (negb (lw =? l_len payload)); [discriminate|].
  apply obind_ok_inv in H. destruct H as (rx2 & Hrx2 & H).
  set (q := upd_rx_buffer (upd_assembler s asm') rx2) in *.
  assert (Cq : srf q s) by (unfold q; srf_solve).
  clearbody q.
  match type of H with (let '(_, _) := ?m in _) = _ =>
    assert (Cm : srf (fst m) q); [|destruct m as (q1, t1)] end.
  { repeat match goal with
    | |- context [match ?x with _ => _ end] => destruct x
    | |- context [if ?c then _ else _] => destruct c
    end; cbn [fst]; srf_solve. }
  cbn [fst] in Cm.
  destruct (negb (asm_is_empty (s_assembler q1)) || negb (asm_is_empty (s_assembler s))).
  - pose proof (ack_reply_srf cx q1 ip r) as Ca. destruct (tcp_ack_reply cx q1 ip r) as (q2, p).
    inversion H; subst s' rep tg. cbn [fst] in Ca.
    eapply srf_trans; [exact Ca|]. eapply srf_trans; eassumption.
  - inversion H; subst s' rep tg. eapply srf_trans; eassumption.
Qed.

Lemma process_srf cx s ip r s' rep tags :
  tcp_process cx s ip r = Ok (s', rep, tags) -> srf s' s.
Proof.
  intros H. unfold tcp_process in H.
  destruct (negb (tcp_accepts s ip r)); [discriminate|].
  apply obind_ok_inv in H. destruct H as (p1 & H1 & H).
  destruct p1 as [t1 []|t1 s1 rep1].
  2:{ inversion H; subst. exact (ack_check_ret_srf _ _ _ _ _ _ _ H1). }
  apply obind_ok_inv in H. destruct H as (p2 & H2 & H).
  pose proof (window_srf _ _ _ _ _ H2) as P2.
  destruct p2 as [t2 ((s2, payload), off)|t2 s2r rep2].
  2:{ inversion H; subst. exact P2. }
  apply obind_ok_inv in H. destruct H as (((al & aof) & aall) & _ & H).
  apply obind_ok_inv in H. destruct H as (p3 & H3 & H).
  pose proof (transition_srf _ _ _ _ _ _ _ _ H3) as P3.
  destruct p3 as [t3 s3|t3 s3r rep3].
  2:{ inversion H; subst. eapply srf_trans; eassumption. }
  apply obind_ok_inv in H. destruct H as ((s4 & wu) & H4 & H).
  pose proof (update_remote_srf _ _ _ _ _ _ H4) as P4.
  apply obind_ok_inv in H. destruct H as ((s5 & t5) & H5 & H).
  pose proof (dup_ack_srf _ _ _ _ _ _ _ H5) as P5.
  pose proof (tsval_srf s5 r) as P5'.
  set (q5 := match r_timestamp r with
             | Some (tsval, _) => upd_last_remote_tsval s5 tsval
             | None => s5
             end) in *. clearbody q5.
  pose proof (timers_srf cx q5 al aall) as P6.
  destruct (tcp_process_timers cx q5 al aall) as (s6, t6). cbn [fst] in P6.
  pose proof (zwp_srf cx s6 al) as P7.
  destruct (tcp_process_zwp cx s6 al) as (s7, t7). cbn [fst] in P7.
  apply obind_ok_inv in H. destruct H as (((s8 & rep8) & t8) & H8 & H).
  pose proof (payload_srf _ _ _ _ _ _ _ _ _ H8) as P8.
  inversion H; subst s' rep tags.
  eapply srf_trans; [exact P8|]. eapply srf_trans; [exact P7|]. eapply srf_trans; [exact P6|].
  eapply srf_trans; [exact P5'|]. eapply srf_trans; [exact P5|]. eapply srf_trans; [exact P4|].
  eapply srf_trans; [exact P3 | exact P2].
Qed.

Lemma ingress_srf cx s ip r s' rep tags :
  iface_tcp_ingress cx s ip r = Ok (s', rep, tags) -> srf s' s.
Proof.
  unfold iface_tcp_ingress. intros H.
  destruct ((ip_src ip =? 0) || (ip_dst ip =? 0)); [inversion H; subst; apply srf_refl|].
  destruct ((r_src_port r =? 0) || (r_dst_port r =? 0)); [inversion H; subst; apply srf_refl|].
  destruct (tcp_accepts s ip r); [apply (process_srf _ _ _ _ _ _ _ H)|].
  destruct (control_eqb (r_control r) CRst); [inversion H; subst; apply srf_refl|].
  apply obind_ok_inv in H. destruct H as (p & _ & H). inversion H; subst. apply srf_refl.
Qed.

(* ---------------------------------------------------------------------------------------- *)
(* dispatch                                                                                  *)
(* ---------------------------------------------------------------------------------------- *)
Lemma dispatch_timers_srf cx s s1 t : tcp_dispatch_timers cx s = Ok (s1, t) -> srf s1 s.
Proof.
  unfold tcp_dispatch_timers. intros H.
  set (s0 := if is_some (s_remote_last_ts s) then s else upd_remote_last_ts s (Some (cx_now cx))) in *.
  assert (H0 : srf s0 s) by (unfold s0; destruct (is_some (s_remote_last_ts s)); srf_solve).
  apply (srf_trans _ s0); [|exact H0]. clear H0. clearbody s0.
  destruct (tcp_timed_out s0 (cx_now cx)); [inversion H; subst; unfold tcp_set_state; srf_solve|].
  destruct (timer_should_retransmit (s_timer s0) (cx_now cx)); [|inversion H; subst; srf_solve].
  apply obind_ok_inv in H. destruct H as (fl & _ & H).
  destruct (s_timer s0); cbv beta iota zeta in H; rproj; des_all H; inversion H; subst; srf_solve.
Qed.

Lemma dispatch_decide_srf cx s s2 go t : tcp_dispatch_decide cx s = Ok (s2, go, t) -> srf s2 s.
Proof.
  unfold tcp_dispatch_decide. intros H.
  apply obind_ok_inv in H. destruct H as (stt & _ & H).
  destruct stt; [inversion H; subst; unfold tcp_set_state; srf_solve|].
  destruct (tcp_ack_to_transmit s && tcp_delayed_ack_expired s (cx_now cx)); [inversion H; subst; srf_solve|].
  apply obind_ok_inv in H. destruct H as (wtu & _ & H).
  des_all H; inversion H; subst; srf_solve.
Qed.

Lemma build_data_srf cx s repr s' orepr zwp tg :
  tcp_dispatch_build_data cx s repr = Ok (s', orepr, zwp, tg) -> srf s' s.
Proof.
  unfold tcp_dispatch_build_data. intros H.
  apply obind_ok_inv in H. destruct H as (ol & _ & H).
  apply obind_ok_inv in H. destruct H as (lm & _ & H).
  apply obind_ok_inv in H. destruct H as (((((s1 & r1) & off) & zw) & tg1) & H1 & H).
  assert (Hr1 : srf s1 s).
  { des1 H1.
    - inversion H1; subst. srf_solve.
    - repeat (apply obind_ok_inv in H1; destruct H1 as (? & _ & H1)). inversion H1; subst. apply srf_refl. }
  cbv beta iota zeta in H. inversion H; subst. exact Hr1.
Qed.

Lemma dispatch_build_srf cx s t s' orepr zwp ka tg :
  tcp_dispatch_build cx s t = Ok (s', orepr, zwp, ka, tg) -> srf s' s.
Proof.
  unfold tcp_dispatch_build. intros H.
  apply obind_ok_inv in H. destruct H as ((((s1 & or1) & zw1) & tg1) & H1 & H).
  assert (Hb : srf s1 s).
  { destruct (s_state s); try (inversion H1; subst; apply srf_refl);
      try (apply build_data_srf in H1; exact H1).
    destruct (s_syn_unacked_in_fin_wait s); [inversion H1; subst; apply srf_refl|].
    apply build_data_srf in H1; exact H1. }
  destruct or1 as [repr|]; [|inversion H; subst; exact Hb].
  apply obind_ok_inv in H. destruct H as (repr' & _ & H). inversion H; subst. exact Hb.
Qed.

Lemma dispatch_finish_srf cx s repr zwp ka : srf (fst (tcp_dispatch_finish cx s repr zwp ka)) s.
Proof.
  unfold tcp_dispatch_finish.
  destruct zwp; [cbn [fst]; srf_solve|].
  destruct ka; [cbn [fst]; srf_solve|].
  repeat match goal with
  | |- context [if ?c then _ else _] => destruct c
  | |- context [let '(_, _) := ?x in _] => destruct x
  end; cbn [fst]; srf_solve.
Qed.

Lemma dispatch_srf cx s ok s' res tags :
  tcp_dispatch cx s ok = Ok (s', res, tags) -> srf s' s.
Proof.
  unfold tcp_dispatch. intros H.
  destruct (s_tuple s) as [t|]; [|inversion H; subst; apply srf_refl].
  destruct (negb (tu_local_addr t =? cx_addr cx)); [inversion H; subst; apply reset_srf|].
  apply obind_ok_inv in H. destruct H as ((s1 & t1) & H1 & H).
  pose proof (dispatch_timers_srf _ _ _ _ H1) as P1.
  apply obind_ok_inv in H. destruct H as (((s2 & go) & t2) & H2 & H).
  pose proof (dispatch_decide_srf _ _ _ _ _ H2) as P2.
  pose proof (srf_trans _ _ _ P2 P1) as P12.
  destruct (negb go); [inversion H; subst; exact P12|].
  apply obind_ok_inv in H. destruct H as (((((s3 & orepr) & zwp) & ka) & t3) & H3 & H).
  pose proof (srf_trans _ _ _ (dispatch_build_srf _ _ _ _ _ _ _ _ H3) P12) as P3.
  destruct orepr as [repr|]; [|inversion H; subst; exact P3].
  destruct (negb ok); [inversion H; subst; exact P3|].
  pose proof (dispatch_finish_srf cx s3 repr zwp ka) as F.
  destruct (tcp_dispatch_finish cx s3 repr zwp ka) as (s4, t4). cbn [fst] in F.
  inversion H; subst. eapply srf_trans; eassumption.
Qed.

(* ---------------------------------------------------------------------------------------- *)
(* every event                                                                               *)
(* ---------------------------------------------------------------------------------------- *)
Lemma send_slice_srf s data s' n : tcp_send_slice s data = Ok (s', n) -> srf s' s.
Proof.
  unfold tcp_send_slice. intros H. destruct (negb (tcp_may_send s)); [discriminate|].
  destruct (rb_enqueue_slice (s_tx_buffer s) data) as (tx, size).
  des_all H; inversion H; subst; srf_solve.
Qed.

Lemma recv_slice_srf s n s' b : tcp_recv_slice s n = Ok (s', b) -> srf s' s.
Proof.
  unfold tcp_recv_slice. intros H. apply obind_ok_inv in H. destruct H as (u & _ & H).
  destruct (rb_dequeue_slice (s_rx_buffer s) n) as (rx, bytes).
  inversion H; subst. srf_solve.
Qed.

Theorem step_srf cx s ev s' out tags :
  ev <> EvClose -> tcp_step cx s ev = Ok (s', out, tags) -> srf s' s.
Proof.
  intros Hnc H. destruct ev; cbn [tcp_step] in H.
  - (* listen *)
    destruct (tcp_listen s ep) as [s1|e|] eqn:E; [| |discriminate]; inversion H; subst; [|apply srf_refl].
    unfold tcp_listen in E. destruct (le_port ep =? 0); [discriminate|].
    destruct (tcp_is_open s).
    + destruct (_ && _); inversion E; subst. apply srf_refl.
    + inversion E; subst. eapply srf_trans; [|apply reset_srf]. generalize (tcp_reset s). intros q.
      unfold tcp_set_state. srf_solve.
  - (* connect *)
    destruct (tcp_connect cx s remote_addr remote_port local) as [s1|e|] eqn:E; [| |discriminate];
      inversion H; subst; [|apply srf_refl].
    unfold tcp_connect in E. destruct (tcp_is_open s); [discriminate|].
    destruct (_ || _); [discriminate|]. destruct (le_port local =? 0); [discriminate|].
    apply obind_ok_inv in E. destruct E as (la & _ & E). inversion E; subst.
    eapply srf_trans; [|apply reset_srf]. generalize (tcp_reset s). intros q. unfold tcp_set_state. srf_solve.
  - contradiction Hnc; reflexivity.
  - inversion H; subst. unfold tcp_abort, tcp_set_state. srf_solve.
  - destruct (tcp_send_slice s data) as [(s1, n)|e|] eqn:E; [| |discriminate]; inversion H; subst;
      [exact (send_slice_srf _ _ _ _ E) | apply srf_refl].
  - destruct (tcp_recv_slice s n) as [(s1, b)|e|] eqn:E; [| |discriminate]; inversion H; subst;
      [exact (recv_slice_srf _ _ _ _ E) | apply srf_refl].
  - destruct (tcp_peek s n) as [l|e|]; [| |discriminate]; inversion H; subst; apply srf_refl.
  - destruct (tcp_peek_slice s n) as [l|e|]; [| |discriminate]; inversion H; subst; apply srf_refl.
  - inversion H; subst. unfold tcp_set_timeout. srf_solve.
  - inversion H; subst. unfold tcp_set_keep_alive.
    repeat match goal with |- context [if ?c then _ else _] => destruct c | |- context [match ?x with _ => _ end] => destruct x end;
      srf_solve.
  - inversion H; subst. unfold tcp_set_ack_delay. srf_solve.
  - inversion H; subst. unfold tcp_set_nagle_enabled. srf_solve.
  - apply obind_ok_inv in H. destruct H as (s1 & Hh & H). inversion H; subst.
    unfold tcp_set_hop_limit in Hh. destruct h as [[|hp|hp]|]; inversion Hh; subst; srf_solve.
  - apply obind_ok_inv in H. destruct H as (((s1 & rep) & tg) & Hi & H). inversion H; subst.
    exact (ingress_srf _ _ _ _ _ _ _ Hi).
  - apply obind_ok_inv in H. destruct H as (((s1 & res) & tg) & Hd & H). inversion H; subst.
    exact (dispatch_srf _ _ _ _ _ _ Hd).
Qed.


Definition srw (s : socket) : Prop :=
  s_syn_unacked_in_fin_wait s = false /\ tcp_RTTE_MIN_RTO <= rt_rto (s_rtte s).

Lemma srw_srf s' s : srf s' s -> srw s -> srw s'.
Proof. intros (A & B) (C & D). split; auto. Qed.

Lemma srw_new rx tx cc ts s : tcp_new rx tx cc ts = Ok s -> srw s.
Proof.
  unfold tcp_new. intros H. destruct (rb_cap (rb_new rx) >? 2 ^ 30); [discriminate|]. inversion H; subst.
  split; [reflexivity | vm_compute; discriminate].
Qed.
