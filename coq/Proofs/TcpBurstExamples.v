(* C03, "fail to return" clause for the TCP socket, layer 4: concrete witnesses (computed with the
   model by [vm_compute], packaged with the general theorems).

     burst_example                   non-vacuity: a reachable ESTABLISHED socket satisfying every
                                     hypothesis, 200 octets queued, remote MSS 48, Nagle off: the
                                     egress loop sends exactly 5 segments (48,48,48,48,8) and returns;
                                     mu = 7, burst_bound = 11
     burst_keep_alive_zero_refuted   with keep_alive = Some 0 (every other hypothesis holds) EVERY
                                     dispatch emits a keep-alive: bursts of every length exist
     burst_small_mtu_refuted         with MTU = 52 and TCP timestamps (effective MSS 0; every other
                                     hypothesis holds) every dispatch emits an empty segment

   Both refutations were reproduced on the real socket: the same event sequences fed to
   `harness/target/debug/h_tcp run` end in `ret LIVELOCK` (Interface::poll emitted more than 20000
   frames), like the model driver. *)
From SV Require Import Lib.Base Gen.Consts.
From SV Require Import Model.Seq32 Model.Assembler Model.TcpBuf Model.TcpTypes Model.Tcp.
From SV Require Import Proofs.TcpSendBase Proofs.TcpSendInv Proofs.TcpSendDisp Proofs.TcpSendDisp2
                       Proofs.TcpSendDisp3 Proofs.TcpSendTrace.
From SV Require Import Proofs.TcpLiveBase Proofs.TcpLiveProofs Proofs.TcpLiveMore.
From SV Require Import Model.EgressLoop Proofs.EgressLoopProofs.
From SV Require Import Proofs.TcpBurstBase Proofs.TcpBurstStep Proofs.TcpBurstEmit Proofs.TcpBurstProofs Proofs.TcpBurstLoop.

Definition bx_cx (now mtu : Z) : ctx := mkCtx now mtu 167772161 7 1000.
Definition bx_ip : ip_repr := mkIp 167772162 167772161 64 0.
Definition bx_synack (win mss : Z) (ts : option (Z * Z)) : tcp_repr :=
  mkRepr 80 49500 CSyn 5000 (Some 1001) win None (Some mss) false no_sack ts [].
Definition bx_dummy : socket :=
  mkSocket Closed timer_new rtte_default asm_new (rb_new []) false (rb_new [])
        None None None (mkListenEp None 0) None
        0 0 0 None 0 0 0 None false 0 None None None 0 false false
        None ADIdle 0 true CcNone false 0.
Definition bx_new (ts : bool) : outcome socket :=
  tcp_new (repeat 0 64) (repeat 0 256) (CcReno reno_new) ts.

(* the two notions of "run" of C05 and C02 agree on the socket *)
Definition run5 (s0 : socket) (evs : list (ctx * event)) : socket :=
  match TcpSendTrace.tcp_run s0 evs with Ok (s, _) => s | _ => bx_dummy end.

(* every hypothesis of the burst theorems except the two user-settable ones *)
Definition binv_core (cx : ctx) (s : socket) : Prop :=
  TcpSendInv.ctx_ok cx /\ tcp_live_inv s /\ (exists g, inv g s) /\ sinv s /\ rx_ok s.

(* packaging: [new], [evs] stay abstract so that the kernel never evaluates the run symbolically *)
Lemma bx_package : forall new evs s0 s,
  new = Ok s0 -> tcp_reachable s0 -> inv ghost0 s0 ->
  Forall (fun ce => TcpLiveProofs.ctx_ok (fst ce) /\ ev_ok (snd ce)) evs ->
  Forall (fun ce => TcpSendInv.ctx_ok (fst ce) /\ tx_ev_ok (snd ce)) evs ->
  TcpLiveMore.tcp_run s0 evs = Ok s ->
  (exists outs, TcpSendTrace.tcp_run s0 evs = Ok (s, outs)) ->
  tcp_live_inv s /\ exists g, inv g s.
Proof.
  intros new evs s0 s _ R I0 H2 H5 E2 (outs & E5). split.
  - apply reachable_inv. exact (run_reachable evs s0 s R H2 E2).
  - exact (tx_invariant_preserved evs ghost0 s0 s outs I0 H5 E5).
Qed.

Lemma bx_new_ok : forall ts s0, bx_new ts = Ok s0 -> tcp_reachable s0 /\ inv ghost0 s0.
Proof.
  intros ts s0 E. split.
  - eapply reach_new; [|exact E]. exact reno_new_pos.
  - eapply TcpSendTrace.new_inv; [exact E|]. vm_compute. discriminate.
Qed.

Lemma fix_burst : forall cx s p tags,
  tcp_dispatch cx s true = Ok (s, DSent p, tags) -> forall n, burst_run cx s n s.
Proof. intros cx s p tags H. induction n; [apply br_nil|eapply br_step; eassumption]. Qed.

(* ------------------------------------------------------------------------------------------ *)
(* non-vacuity                                                                                  *)
(* ------------------------------------------------------------------------------------------ *)
Definition ex1_events : list (ctx * event) :=
  [ (bx_cx 0 1500, EvConnect 167772162 80 (mkListenEp None 49500));
    (bx_cx 0 1500, EvDispatch true);                                    (* SYN *)
    (bx_cx 1000 1500, EvSegment bx_ip (bx_synack 1000 1 None));         (* SYN|ACK: MSS 1 -> 48 *)
    (bx_cx 1000 1500, EvSetNagle false);
    (bx_cx 1000 1500, EvSend (repeat 7 200)) ].

Definition ex_s0 : socket :=
  Eval vm_compute in match bx_new false with Ok s => s | _ => bx_dummy end.
Definition ex1 : socket := Eval vm_compute in run5 ex_s0 ex1_events.

Lemma ex_s0_new : bx_new false = Ok ex_s0.
Proof. vm_compute. reflexivity. Qed.

Lemma ex1_binv : binv (bx_cx 1000 1500) ex1.
Proof.
  destruct (bx_new_ok false ex_s0 ex_s0_new) as (R0 & I0).
  assert (X : tcp_live_inv ex1 /\ exists g, inv g ex1).
  { apply (bx_package (bx_new false) ex1_events ex_s0 ex1 ex_s0_new R0 I0).
    - unfold ex1_events, bx_cx, TcpLiveProofs.ctx_ok, u32, ev_ok, seg_ok.
      repeat (constructor; [cbn; repeat split; try exact I; try lia; try (vm_compute; discriminate)|]).
      constructor.
    - unfold ex1_events, bx_cx, TcpSendInv.ctx_ok, tx_ev_ok, repr_ok.
      repeat (constructor; [cbn; repeat split; try exact I; try lia; try (vm_compute; discriminate)|]).
      constructor.
    - vm_compute. reflexivity.
    - vm_compute. eexists. reflexivity. }
  destruct X as (L & G).
  split; [unfold TcpSendInv.ctx_ok, bx_cx; cbn; repeat split; try lia; vm_compute; discriminate|].
  split; [unfold mtu_ok, bx_cx; cbn; vm_compute; reflexivity|].
  split; [exact L|]. split; [exact G|].
  split; [split; [vm_compute; exact I|split; [vm_compute; discriminate|intros X; vm_compute in X; discriminate]]|].
  split; [vm_compute; repeat split; try discriminate; reflexivity|].
  vm_compute. exact I.
Qed.

(* what the egress loop does on [ex1]: payload sizes of the frames, whether the loop ended by
   itself, the measure afterwards *)
Definition ex1_poll : option (list Z * bool * Z) :=
  match iface_poll_egress 100 (bx_cx 1000 1500) ex1 None with
  | Ok (s', sent, _, fin) =>
      Some (map (fun p => l_len (r_payload (snd p))) sent, fin, mu (bx_cx 1000 1500) s')
  | _ => None
  end.

Example burst_example :
  binv (bx_cx 1000 1500) ex1 /\
  s_state ex1 = Established /\ rb_len (s_tx_buffer ex1) = 200 /\ s_remote_mss ex1 = 48 /\
  mu (bx_cx 1000 1500) ex1 = 7 /\ burst_bound (bx_cx 1000 1500) ex1 = 11 /\
  ex1_poll = Some ([48; 48; 48; 48; 8], true, 1).
Proof.
  split; [exact ex1_binv|].
  do 5 (split; [vm_compute; reflexivity|]).
  vm_compute. reflexivity.
Qed.

(* ------------------------------------------------------------------------------------------ *)
(* the keep-alive hypothesis is necessary                                                       *)
(* ------------------------------------------------------------------------------------------ *)
Definition ka_events : list (ctx * event) :=
  [ (bx_cx 0 1500, EvConnect 167772162 80 (mkListenEp None 49500));
    (bx_cx 0 1500, EvDispatch true);
    (bx_cx 1000 1500, EvSegment bx_ip (bx_synack 1000 1460 None));
    (bx_cx 1000 1500, EvDispatch true);
    (bx_cx 1000 1500, EvSetKeepAlive (Some 0));          (* set_keep_alive(Some(Duration::ZERO)) *)
    (bx_cx 2000 1500, EvDispatch true) ].
Definition ex_ka : socket := Eval vm_compute in run5 ex_s0 ka_events.

Lemma ex_ka_core : binv_core (bx_cx 2000 1500) ex_ka.
Proof.
  destruct (bx_new_ok false ex_s0 ex_s0_new) as (R0 & I0).
  assert (X : tcp_live_inv ex_ka /\ exists g, inv g ex_ka).
  { apply (bx_package (bx_new false) ka_events ex_s0 ex_ka ex_s0_new R0 I0).
    - unfold ka_events, bx_cx, TcpLiveProofs.ctx_ok, u32, ev_ok, seg_ok.
      repeat (constructor; [cbn; repeat split; try exact I; try lia; try (vm_compute; discriminate)|]).
      constructor.
    - unfold ka_events, bx_cx, TcpSendInv.ctx_ok, tx_ev_ok, repr_ok.
      repeat (constructor; [cbn; repeat split; try exact I; try lia; try (vm_compute; discriminate)|]).
      constructor.
    - vm_compute. reflexivity.
    - vm_compute. eexists. reflexivity. }
  destruct X as (L & G).
  split; [unfold TcpSendInv.ctx_ok, bx_cx; cbn; repeat split; try lia; vm_compute; discriminate|].
  split; [exact L|]. split; [exact G|].
  split; [split; [vm_compute; exact I|split; [vm_compute; discriminate|intros X; vm_compute in X; discriminate]]|].
  vm_compute. repeat split; try discriminate; reflexivity.
Qed.

Lemma ex_ka_fix : exists p tags, tcp_dispatch (bx_cx 2000 1500) ex_ka true = Ok (ex_ka, DSent p, tags).
Proof. vm_compute. do 2 eexists. reflexivity. Qed.

Theorem burst_keep_alive_zero_refuted :
  exists cx s, binv_core cx s /\ mtu_ok cx /\ s_keep_alive s = Some 0 /\
               forall n, exists s', burst_run cx s n s'.
Proof.
  exists (bx_cx 2000 1500), ex_ka. split; [exact ex_ka_core|].
  split; [unfold mtu_ok, bx_cx; cbn; vm_compute; reflexivity|]. split; [vm_compute; reflexivity|].
  intros n. exists ex_ka. destruct ex_ka_fix as (p & tags & H). exact (fix_burst _ _ _ _ H n).
Qed.

(* ------------------------------------------------------------------------------------------ *)
(* the MTU hypothesis is necessary                                                              *)
(* ------------------------------------------------------------------------------------------ *)
Definition mtu_events : list (ctx * event) :=
  [ (bx_cx 0 52, EvConnect 167772162 80 (mkListenEp None 49500));
    (bx_cx 0 52, EvDispatch true);
    (bx_cx 1000 52, EvSegment bx_ip (bx_synack 1000 1460 (Some (9, 7))));   (* timestamps agreed *)
    (bx_cx 1000 52, EvSend [1; 2; 3; 4; 5]);
    (bx_cx 2000 52, EvDispatch true) ].
Definition ex_t0 : socket :=
  Eval vm_compute in match bx_new true with Ok s => s | _ => bx_dummy end.
Definition ex_mtu : socket := Eval vm_compute in run5 ex_t0 mtu_events.

Lemma ex_t0_new : bx_new true = Ok ex_t0.
Proof. vm_compute. reflexivity. Qed.

Lemma ex_mtu_core : binv_core (bx_cx 2000 52) ex_mtu.
Proof.
  destruct (bx_new_ok true ex_t0 ex_t0_new) as (R0 & I0).
  assert (X : tcp_live_inv ex_mtu /\ exists g, inv g ex_mtu).
  { apply (bx_package (bx_new true) mtu_events ex_t0 ex_mtu ex_t0_new R0 I0).
    - unfold mtu_events, bx_cx, TcpLiveProofs.ctx_ok, u32, ev_ok, seg_ok.
      repeat (constructor; [cbn; repeat split; try exact I; try lia; try (vm_compute; discriminate)|]).
      constructor.
    - unfold mtu_events, bx_cx, TcpSendInv.ctx_ok, tx_ev_ok, repr_ok.
      repeat (constructor; [cbn; repeat split; try exact I; try lia; try (vm_compute; discriminate)|]).
      constructor.
    - vm_compute. reflexivity.
    - vm_compute. eexists. reflexivity. }
  destruct X as (L & G).
  split; [unfold TcpSendInv.ctx_ok, bx_cx; cbn; repeat split; try lia; vm_compute; discriminate|].
  split; [exact L|]. split; [exact G|].
  split; [split; [vm_compute; exact I|split; [vm_compute; discriminate|intros X; vm_compute in X; discriminate]]|].
  vm_compute. repeat split; try discriminate; reflexivity.
Qed.

Lemma ex_mtu_fix : exists p tags, tcp_dispatch (bx_cx 2000 52) ex_mtu true = Ok (ex_mtu, DSent p, tags).
Proof. vm_compute. do 2 eexists. reflexivity. Qed.

Theorem burst_small_mtu_refuted :
  exists cx s, binv_core cx s /\ ka_pos s /\ cx_ip_mtu cx = 52 /\ emss cx s = 0 /\
               forall n, exists s', burst_run cx s n s'.
Proof.
  exists (bx_cx 2000 52), ex_mtu. split; [exact ex_mtu_core|].
  split; [vm_compute; exact I|]. split; [reflexivity|]. split; [vm_compute; reflexivity|].
  intros n. exists ex_mtu. destruct ex_mtu_fix as (p & tags & H). exact (fix_burst _ _ _ _ H n).
Qed.

(* ------------------------------------------------------------------------------------------ *)
(* several sockets sharing one poll                                                             *)
(* ------------------------------------------------------------------------------------------ *)
(* environment = the device's transmit budget; a refused emit is an exhausted device *)
Definition bud_emit (b : nat) (_ : socket) : bool * nat :=
  match b with O => (false, O) | S b' => (true, b') end.
Definition bud_exhausted (_ : nat) (_ : socket) : bool := true.
Definition set3 : list socket := [ex1; ex_s0; ex1].

(* budget left, emitting passes, the sockets' measures afterwards *)
Definition set3_poll (budget : nat) : option (nat * nat * list Z) :=
  match poll_loop2 nat socket (tcp_dispatch2 nat bud_emit bud_exhausted (bx_cx 1000 1500))
                   (fun b => b) 100 budget set3 with
  | Some (b', r, n) => Some (b', n, map (mu (bx_cx 1000 1500)) r)
  | None => None
  end.

Example socket_set_example :
  Forall (sock_inv (bx_cx 1000 1500)) set3 /\
  sum_bound (bx_cx 1000 1500) set3 = 28%nat /\
  (* a generous device: both connected sockets send their five segments, interleaved pass by pass *)
  set3_poll 100 = Some (90%nat, 5%nat, [1; 0; 1]) /\
  (* three transmit tokens: the second pass breaks at the exhausted device, the third emits nothing *)
  set3_poll 3 = Some (0%nat, 2%nat, [4; 0; 5]).
Proof.
  split.
  { unfold set3. constructor; [right; exact ex1_binv|]. constructor; [left; vm_compute; reflexivity|].
    constructor; [right; exact ex1_binv|constructor]. }
  split; [vm_compute; reflexivity|]. split; vm_compute; reflexivity.
Qed.
