(* C02 (liveness half): syn_unacked_in_fin_wait = false and RTO >= RTTE_MIN_RTO in both sockets, in every state of every
   run of the script (no close()) from net_init. *)
From SV Require Import Lib.Base Gen.Consts.
From SV Require Import Model.Seq32 Model.Assembler Model.TcpBuf Model.TcpTypes Model.Tcp Model.TcpNet.
From SV Require Import Proofs.TcpSendBase Proofs.TcpLiveBase Proofs.TcpLiveProofs Proofs.TcpNetBase.
From SV Require Import Proofs.TcpProgressBase Proofs.TcpProgressFrame Proofs.TcpProgressSr.

Lemma ep_step_srf e ev e' : ev <> EvClose -> ep_step e ev = Ok e' -> srf (ep_sock e') (ep_sock e).
Proof.
  intros Hnc H. destruct (ep_step_spec _ _ _ H) as (s' & out & tags & Hs & Hk & _). rewrite Hk.
  exact (step_srf _ _ _ _ _ _ Hnc Hs).
Qed.

Definition srst (st : net) : Prop := forall z, srw (net_sock st z).

Definition noclose (ev : net_event) : Prop := match ev with NClose _ => False | _ => True end.

Lemma srst_step st ev st' : noclose ev -> net_step st ev = Ok st' -> srst st -> srst st'.
Proof.
  intros Hnc H Hs z. apply (srw_srf _ (net_sock st z)); [|exact (Hs z)].
  destruct (net_step_kind _ _ _ H) as [w ev0 e' Hse He -> | to i -> _ -> | d -> -> | w isn0 ts -> -> | to i Hd].
  - unfold net_sock. destruct (side_cases w z) as [-> | ->].
    + rewrite net_get_set_same. apply (ep_step_srf _ ev0 _); [|exact He].
      destruct ev; cbn [sock_event noclose] in *; try contradiction.
      * destruct Hse as (_ & p & _ & ->). discriminate.
      * destruct Hse as (_ & ->). discriminate.
      * destruct Hse as (_ & ->). discriminate.
      * destruct Hse as (_ & ->). discriminate.
    + rewrite net_get_set_other. apply srf_refl.
  - apply srf_refl.
  - destruct z; apply srf_refl.
  - unfold net_sock. destruct (side_cases w z) as [-> | ->]; [rewrite net_get_set_same | rewrite net_get_set_other]; apply srf_refl.
  - unfold net_step in H. destruct Hd as [-> | ->]; inversion H; subst; destruct to; destruct z; apply srf_refl.
Qed.

Lemma srst_run : forall evs st st', Forall noclose evs -> net_run st evs = Ok st' -> srst st -> srst st'.
Proof.
  induction evs as [|ev r IH]; intros st st' Hn Hr Hc; cbn [net_run] in Hr.
  - inversion Hr; subst. exact Hc.
  - apply obind_ok in Hr. destruct Hr as (st1 & Hs & Hr). inversion Hn; subst.
    exact (IH _ _ H2 Hr (srst_step _ _ _ H1 Hs Hc)).
Qed.

Lemma create_srw c e : ep_create c = Ok e -> srw (ep_sock e).
Proof.
  intros H. unfold ep_create in H.
  apply obind_ok in H. destruct H as (s0 & En & H).
  apply obind_ok in H. destruct H as (e1 & H1 & H).
  apply obind_ok in H. destruct H as (e2 & H2 & H).
  apply obind_ok in H. destruct H as (e3 & H3 & H).
  apply obind_ok in H. destruct H as (e4 & H4 & H5).
  pose proof (srw_new _ _ _ _ _ En) as W0.
  pose proof (ep_step_srf _ (EvSetTimeout _) _ ltac:(intros X0; discriminate X0) H1) as F1. pose proof (ep_step_srf _ (EvSetKeepAlive _) _ ltac:(intros X0; discriminate X0) H2) as F2.
  pose proof (ep_step_srf _ (EvSetAckDelay _) _ ltac:(intros X0; discriminate X0) H3) as F3. pose proof (ep_step_srf _ (EvSetNagle _) _ ltac:(intros X0; discriminate X0) H4) as F4.
  pose proof (ep_step_srf _ (EvSetHopLimit _) _ ltac:(intros X0; discriminate X0) H5) as F5. cbn [ep_sock] in F1.
  exact (srw_srf _ _ F5 (srw_srf _ _ F4 (srw_srf _ _ F3 (srw_srf _ _ F2 (srw_srf _ _ F1 W0))))).
Qed.

Lemma srst_init ca cb st0 : net_init ca cb = Ok st0 -> srst st0.
Proof.
  intros H. unfold net_init in H.
  apply obind_ok in H. destruct H as (a0 & Ha0 & H).
  apply obind_ok in H. destruct H as (b0 & Hb0 & H).
  apply obind_ok in H. destruct H as (b1 & Hb1 & H).
  apply obind_ok in H. destruct H as (a1 & Ha1 & H). inversion H; subst st0; clear H.
  pose proof (create_srw _ _ Ha0) as WA. pose proof (create_srw _ _ Hb0) as WB.
  pose proof (ep_step_srf _ (EvConnect _ _ _) _ ltac:(intros X0; discriminate X0) Ha1) as FA. pose proof (ep_step_srf _ (EvListen _) _ ltac:(intros X0; discriminate X0) Hb1) as FB.
  intros z. destruct z; unfold net_sock; cbn [net_get n_a n_b]; [exact (srw_srf _ _ FA WA) | exact (srw_srf _ _ FB WB)].
Qed.
