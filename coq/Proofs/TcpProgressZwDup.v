(* C02 (liveness half), step 4 (zero window): WHY fair_schedule ALONE IS NOT ENOUGH, and the premise
   that repairs it.

   [fair_ev] (Proofs/TcpProgressBase.v) bounds LOSS and DELAY - every frame on a channel is delivered
   before its deadline, polls and application reads are not starved - but NDeliver leaves the frame on
   the channel and nothing bounds how often, or how late, an old frame is delivered AGAIN.  The
   property's wording confines duplication to the finite fault prefix ("... followed by reliable
   delivery"); [fair_schedule] as first defined is weaker than that wording.

   once_run      the missing premise, as a run predicate next to [fair_run]: in the reliable part of
                 the run a frame is delivered only while it is still tracked as undelivered
                 (fa_dl = Some deadline) - i.e. at most once, and before its deadline.
   zero_window_starved_by_redelivery
                 the witness that the premise is needed (evaluated by vm_compute on the model; the
                 same run on two real interfaces: corpus/C02/tcpnet-zero-window-stale-ack-duplicates.case):
                 a state reached from net_init and a run from it that satisfies [fair_schedule] on which
                 A's clock advances by 30 s, A has 4 octets queued, B's buffer is empty and the window
                 B advertises is open - and A transmits nothing.  Two pure ACKs of B with the same
                 sequence and acknowledgment numbers (win 8, win 0) are re-delivered "win 8, win 0"
                 before each poll of A: the first leaves the probe state, the second re-arms the
                 zero-window-probe timer at now + RTO.  The run violates [once_run]. *)
From SV Require Import Lib.Base Gen.Consts.
From SV Require Import Model.Seq32 Model.Assembler Model.TcpBuf Model.TcpTypes Model.Tcp Model.TcpNet.
From SV Require Import Proofs.TcpSendBase Proofs.TcpLiveBase Proofs.TcpLiveProofs Proofs.TcpNetBase.
From SV Require Import Proofs.TcpProgressBase Proofs.TcpProgressExample Proofs.TcpProgressWitness.

(* ---------------------------------------------------------------------------------------- *)
(* the premise: no re-delivery in the reliable part of the run                               *)
(* ---------------------------------------------------------------------------------------- *)
Definition once_ev (fa : fair_aux) (ev : net_event) : Prop :=
  match ev with
  | NDeliver to i => exists t, nth_error (fa_dl fa to) i = Some (Some t)
  | _ => True
  end.

Fixpoint once_run (Dt Da : Z) (fa : fair_aux) (st : net) (evs : list net_event) : Prop :=
  match evs with
  | [] => True
  | ev :: rest =>
      once_ev fa ev /\
      match net_step st ev with
      | Ok st' => once_run Dt Da (fa_after Dt Da fa ev st') st' rest
      | _ => True
      end
  end.

(* reliable delivery from [st] on: fair, and nothing is delivered twice *)
Definition reliable_schedule (Dt Da : Z) (st : net) (evs : list net_event) : Prop :=
  fair_schedule Dt Da st evs /\ once_run Dt Da (fa_init Dt Da st) st evs.

Definition once_evb (fa : fair_aux) (ev : net_event) : bool :=
  match ev with
  | NDeliver to i => match nth_error (fa_dl fa to) i with Some (Some _) => true | _ => false end
  | _ => true
  end.

Lemma once_evb_iff fa ev : once_evb fa ev = true <-> once_ev fa ev.
Proof.
  destruct ev; cbn [once_evb once_ev]; try (split; auto; fail).
  destruct (nth_error (fa_dl fa to) i) as [[t|]|].
  - split; [intros _; exists t; reflexivity | reflexivity].
  - split; [discriminate | intros (t & E); discriminate].
  - split; [discriminate | intros (t & E); discriminate].
Qed.

Fixpoint once_runb (Dt Da : Z) (fa : fair_aux) (st : net) (evs : list net_event) : bool :=
  match evs with
  | [] => true
  | ev :: rest =>
      once_evb fa ev &&
      match net_step st ev with
      | Ok st' => once_runb Dt Da (fa_after Dt Da fa ev st') st' rest
      | _ => true
      end
  end.

Lemma once_runb_iff Dt Da evs : forall fa st, once_runb Dt Da fa st evs = true <-> once_run Dt Da fa st evs.
Proof.
  induction evs as [|ev r IH]; intros fa st; cbn [once_runb once_run]; [split; auto|].
  rewrite andb_true_iff, once_evb_iff.
  destruct (net_step st ev) as [st'|e|]; [rewrite IH|..]; tauto.
Qed.

(* ---------------------------------------------------------------------------------------- *)
(* the witness                                                                               *)
(* ---------------------------------------------------------------------------------------- *)
(* A: buffers 64/64, Reno, no delayed ACK, 10.0.0.1:4000, ISS 1000.  B: receive buffer 8 octets. *)
Definition zcfg_a : ep_config :=
  mkEpCfg (repeat 0 64) (repeat 0 64) (CcReno reno_new) false None None None true None 0 1500 1 4000 1000 0.
Definition zcfg_b : ep_config :=
  mkEpCfg (repeat 0 8) (repeat 0 64) CcNone false None None None true None 0 1500 2 80 5000 0.

(* handshake; A writes 12 octets, 8 fit B's window; B acknowledges them with win 0 (frame 1 towards A);
   A learns the closed window; B's application reads; B sends the window update, win 8 (frame 2) *)
Definition zw_pre : list net_event :=
  [NPoll SA true; NDeliver SB 0; NPoll SB true; NDeliver SA 0; NPoll SA true; NDeliver SB 1;
   NSend SA [1;2;3;4;5;6;7;8;9;10;11;12]; NPoll SA true; NDeliver SB 2; NPoll SB true;
   NDeliver SA 1; NRecv SB 8; NPoll SB true].

Fixpoint zw_cyc (k : nat) : list net_event :=
  match k with
  | O => []
  | S k' => [NDeliver SA 2; NDeliver SA 1; NTick 1000000] ++ zw_cyc k'
  end.

(* every frame on either channel is delivered (so no deadline is missed), then 30 times:
   the window update, the stale win-0 ACK, one second *)
Definition zw_suf : list net_event :=
  [NDeliver SB 0; NDeliver SB 1; NDeliver SB 2; NDeliver SA 0;
   NDeliver SA 2; NDeliver SA 3; NDeliver SA 4; NDeliver SA 1; NTick 1000000] ++ zw_cyc 29.

Definition chan_lenb (st st' : net) (z : side) : bool :=
  Nat.eqb (length (chan_to st' z)) (length (chan_to st z)).

Definition zw_check : bool :=
  match net_init zcfg_a zcfg_b with
  | Ok st0 =>
      match net_run st0 zw_pre with
      | Ok st =>
          match net_run st zw_suf with
          | Ok st' =>
              opts_okb st && fair_runb 5000 5000 (fa_init 5000 5000 st) st zw_suf &&
              negb (once_runb 5000 5000 (fa_init 5000 5000 st) st zw_suf) &&
              (net_now st' SA =? net_now st SA + 30000000) &&
              tcp_state_eqb (s_state (net_sock st' SA)) Established &&
              tcp_state_eqb (s_state (net_sock st' SB)) Established &&
              (rb_len (s_tx_buffer (net_sock st' SA)) =? 4) &&
              (s_remote_win_len (net_sock st' SA) =? 0) &&
              (rx_len st' SB =? 0) && adv_Wb (net_sock st' SB) 8 &&
              chan_lenb st st' SB
          | _ => false
          end
      | _ => false
      end
  | _ => false
  end.

Lemma zw_package (ca cb : ep_config) (pre suf : list net_event) (Dt Da T q W : Z) :
  match net_init ca cb with
  | Ok st0 =>
      match net_run st0 pre with
      | Ok st =>
          match net_run st suf with
          | Ok st' =>
              opts_okb st && fair_runb Dt Da (fa_init Dt Da st) st suf &&
              negb (once_runb Dt Da (fa_init Dt Da st) st suf) &&
              (net_now st' SA =? net_now st SA + T) &&
              tcp_state_eqb (s_state (net_sock st' SA)) Established &&
              tcp_state_eqb (s_state (net_sock st' SB)) Established &&
              (rb_len (s_tx_buffer (net_sock st' SA)) =? q) &&
              (s_remote_win_len (net_sock st' SA) =? 0) &&
              (rx_len st' SB =? 0) && adv_Wb (net_sock st' SB) W &&
              chan_lenb st st' SB
          | _ => false
          end
      | _ => false
      end
  | _ => false
  end = true ->
  0 <= Dt -> 0 <= Da ->
  exists st0 st st',
    net_init ca cb = Ok st0 /\ net_run st0 pre = Ok st /\ net_run st suf = Ok st' /\
    fair_schedule Dt Da st suf /\ ~ once_run Dt Da (fa_init Dt Da st) st suf /\
    net_now st' SA = net_now st SA + T /\
    (forall z, s_state (net_sock st' z) = Established) /\
    rb_len (s_tx_buffer (net_sock st' SA)) = q /\ s_remote_win_len (net_sock st' SA) = 0 /\
    rx_len st' SB = 0 /\
    (exists W', W <= W' <= TcpRecvWindow.p30 /\
                tcp_window_end (net_sock st' SB) = seq_norm (tcp_window_start (net_sock st' SB) + W')) /\
    length (chan_to st' SB) = length (chan_to st SB).
Proof.
  intros H HDt HDa.
  destruct (net_init ca cb) as [st0|e|] eqn:Ei; try discriminate.
  destruct (net_run st0 pre) as [st|e|] eqn:Ep; try discriminate.
  destruct (net_run st suf) as [st'|e|] eqn:Es; try discriminate.
  repeat (apply andb_true_iff in H; let X := fresh "C" in destruct H as (H & X)).
  exists st0, st, st'. split; [reflexivity|]. split; [exact Ep|]. split; [exact Es|].
  split.
  { split; [exact HDt|]. split; [exact HDa|]. split; [apply opts_okb_sound; exact H | apply fair_runb_sound; assumption]. }
  split.
  { intros Ho. apply once_runb_iff in Ho. rewrite Ho in *. discriminate. }
  split; [apply Z.eqb_eq; assumption|].
  split; [intros z; destruct z; apply tcp_state_eqb_eq; assumption|].
  split; [apply Z.eqb_eq; assumption|]. split; [apply Z.eqb_eq; assumption|].
  split; [apply Z.eqb_eq; assumption|].
  split; [apply adv_Wb_sound; assumption|].
  apply Nat.eqb_eq. assumption.
Qed.

Lemma zw_check_ok : zw_check = true.
Proof. vm_compute. reflexivity. Qed.

(* THE WITNESS: a run satisfying [fair_schedule] (but not [once_run]) on which 30 s pass while A, with
   4 octets queued and the peer's buffer empty and its advertised window 8 octets wide, transmits
   nothing (the channel towards B has not grown) *)
Theorem zero_window_starved_by_redelivery :
  exists st0 st st',
    net_init zcfg_a zcfg_b = Ok st0 /\ net_run st0 zw_pre = Ok st /\ net_run st zw_suf = Ok st' /\
    fair_schedule 5000 5000 st zw_suf /\ ~ once_run 5000 5000 (fa_init 5000 5000 st) st zw_suf /\
    net_now st' SA = net_now st SA + 30000000 /\
    (forall z, s_state (net_sock st' z) = Established) /\
    rb_len (s_tx_buffer (net_sock st' SA)) = 4 /\ s_remote_win_len (net_sock st' SA) = 0 /\
    rx_len st' SB = 0 /\
    (exists W', 8 <= W' <= TcpRecvWindow.p30 /\
                tcp_window_end (net_sock st' SB) = seq_norm (tcp_window_start (net_sock st' SB) + W')) /\
    length (chan_to st' SB) = length (chan_to st SB).
Proof. apply (zw_package zcfg_a zcfg_b zw_pre zw_suf 5000 5000 30000000 4 8 zw_check_ok); lia. Qed.
