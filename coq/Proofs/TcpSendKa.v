(* C05, keep-alive segments: the sequence number of a keep-alive is below SND.UNA.

   A keep-alive carries one zero octet at sequence number send_next_seq - 1, where
   send_next_seq = max(rtte.max_seq_sent, remote_last_seq).  The octet is not stream data; it is
   harmless exactly when it lies below SND.UNA, where the peer discards it and answers with an ACK.
   That needs three facts at the moment the keep-alive is built:
     - nothing is in flight               (tcp-c02's timer invariant live_K: an idle timer in a
                                           live state means remote_last_seq = local_seq_no),
     - nothing could have been sent       (else dispatch would have built a data/FIN segment: the
                                           lower bound of build_data_spec, window from live_K,
                                           congestion window from cc_ok, MSS from kinv),
     - max_seq_sent is not ahead of SND.UNA (kinv: max_seq_sent <= high-water mark <= end of the
                                           stream and its FIN = SND.UNA once everything is acked).
   The statement is tcp-c01's [TcpNetTx.c05_ka_bound], word for word (mtu_ok is weakened to its
   lower half). *)
From SV Require Import Lib.Base Gen.Consts.
From SV Require Import Model.Seq32 Model.Assembler Model.TcpBuf Model.TcpTypes Model.Tcp.
From SV Require Import Proofs.TcpSendBase Proofs.TcpSendInv Proofs.TcpSendAck Proofs.TcpSendProc
                       Proofs.TcpSendApi Proofs.TcpSendDisp Proofs.TcpSendDisp2 Proofs.TcpSendDisp3.
From SV Require Proofs.TcpLiveBase Proofs.TcpLiveProofs.

(* ------------------------------------------------------------------------------------------ *)
(* the branch tags of the four dispatch phases never collide with the keep-alive tag 245         *)
(* ------------------------------------------------------------------------------------------ *)
Lemma dtimers_tag : forall cx s s1 tg,
  tcp_dispatch_timers cx s = Ok (s1, tg) -> 200 <= tg <= 203.
Proof.
  intros cx s s1 tg H. rewrite dtimers_unfold in H.
  revert H. generalize (if is_some (s_remote_last_ts s) then s
                        else upd_remote_last_ts s (Some (cx_now cx))).
  intros s0 H. unfold dtimers_body in H.
  destruct (tcp_timed_out s0 (cx_now cx)); [injection H as _ <-; lia|].
  destruct (timer_should_retransmit (s_timer s0) (cx_now cx)); [|injection H as _ <-; lia].
  destruct (tcp_flight_size s0) as [f| |]; cbn [obind] in H; try discriminate.
  destruct (s_timer s0); cbv beta iota zeta in H; injection H as _ <-; lia.
Qed.

Lemma decide_tag : forall cx s s1 go tg,
  tcp_dispatch_decide cx s = Ok (s1, go, tg) -> 210 <= tg <= 217.
Proof.
  intros cx s s1 go tg H. unfold tcp_dispatch_decide in H.
  destruct (tcp_seq_to_transmit cx s) as [b| |]; cbn [obind] in H; try discriminate.
  destruct b; [injection H as _ _ <-; lia|].
  destruct (tcp_ack_to_transmit s && tcp_delayed_ack_expired s (cx_now cx));
    [injection H as _ _ <-; lia|].
  destruct (tcp_window_to_update s) as [b| |]; cbn [obind] in H; try discriminate.
  destruct b; [injection H as _ _ <-; lia|].
  destruct (tcp_state_eqb (s_state s) Closed); [injection H as _ _ <-; lia|].
  destruct (timer_should_keep_alive (s_timer s) (cx_now cx)); [injection H as _ _ <-; lia|].
  destruct (timer_should_zero_window_probe (s_timer s) (cx_now cx)); [injection H as _ _ <-; lia|].
  destruct (timer_should_close (s_timer s) (cx_now cx)); injection H as _ _ <-; lia.
Qed.

Lemma build_data_tag : forall cx s repr s2 o zwp tg,
  tcp_dispatch_build_data cx s repr = Ok (s2, o, zwp, tg) -> 224 <= tg <= 226.
Proof.
  intros cx s repr s2 o zwp tg H. unfold tcp_dispatch_build_data in H.
  destruct (usub _ _) as [ol| |]; cbn [obind] in H; try discriminate.
  destruct (tcp_local_mss cx) as [lm| |]; cbn [obind] in H; try discriminate.
  destruct (s_pending_fast_retransmit s && (s_remote_win_len s >? 0)); cbn [obind] in H.
  - injection H as _ _ _ <-. lia.
  - destruct (if seq_ge _ _ then _ else _) as [wl| |]; cbn [obind] in H; try discriminate.
    destruct ((wl =? 0) && timer_should_zero_window_probe (s_timer s) (cx_now cx)); cbn [obind] in H.
    + destruct (tcp_flight_size s) as [f| |]; cbn [obind] in H; try discriminate.
      injection H as _ _ _ <-. lia.
    + destruct (tcp_cwnd_remaining s) as [cw| |]; cbn [obind] in H; try discriminate.
      destruct (tcp_flight_size s) as [f| |]; cbn [obind] in H; try discriminate.
      injection H as _ _ _ <-. lia.
Qed.

Lemma post_build_tag : forall cx s repr zwp tg s2 o zwp2 ka tg2,
  post_build cx s repr zwp tg = Ok (s2, o, zwp2, ka, tg2) -> tg2 = tg.
Proof.
  intros cx s repr zwp tg s2 o zwp2 ka tg2 H. unfold post_build in H. cbv zeta in H.
  match type of H with context [obind ?x _] => destruct x as [rr| |] end;
    cbn [obind] in H; try discriminate.
  injection H as _ _ _ _ <-. reflexivity.
Qed.

Lemma build_tag : forall cx s t s2 o zwp ka tg,
  tcp_dispatch_build cx s t = Ok (s2, o, zwp, ka, tg) -> 220 <= tg <= 228.
Proof.
  intros cx s t s2 o zwp ka tg H. rewrite build_unfold in H. cbv zeta in H.
  match type of H with context [obind ?x _] =>
    assert (Hb : forall s3 o3 z3 t3, x = Ok (s3, o3, z3, t3) -> 220 <= t3 <= 228) end.
  { intros s3 o3 z3 t3 E.
    destruct (s_state s); try (injection E as _ _ _ <-; lia);
      try (apply build_data_tag in E; lia).
    destruct (s_syn_unacked_in_fin_wait s); [injection E as _ _ _ <-; lia|].
    apply build_data_tag in E; lia. }
  match type of H with context [obind ?x _] => destruct x as [[[[s3 o3] z3] t3]| |] end;
    cbn [obind] in H; try discriminate.
  specialize (Hb _ _ _ _ eq_refl).
  destruct o3 as [r3|].
  - apply post_build_tag in H. lia.
  - injection H as _ _ _ _ <-. lia.
Qed.

Lemma finish_tag : forall cx s r zwp ka s' tg,
  tcp_dispatch_finish cx s r zwp ka = (s', tg) -> 240 <= tg <= 243.
Proof.
  intros cx s r zwp ka s' tg H. unfold tcp_dispatch_finish in H. cbv zeta in H.
  destruct zwp; [injection H as _ <-; lia|].
  destruct ka; [injection H as _ <-; lia|].
  match type of H with context [if ?c then (_, 242) else _] => destruct c end;
  match type of H with context [if ?c then (upd_tuple _ None, _) else _] => destruct c end;
  injection H as _ <-; lia.
Qed.

(* ------------------------------------------------------------------------------------------ *)
(* dispatch, when it takes the keep-alive branch                                                 *)
(* ------------------------------------------------------------------------------------------ *)
Lemma dispatch_ka_parts : forall cx g s e s' p tags,
  inv g s -> ctx_ok cx ->
  tcp_dispatch cx s e = Ok (s', DSent p, tags) -> In 245 tags ->
  exists g1 s1 tg1 tg2 zwp,
    (g1 = g \/ g1 = g_rewind g) /\ inv g1 s1 /\
    tcp_dispatch_timers cx s = Ok (s1, tg1) /\
    tcp_dispatch_decide cx s1 = Ok (s1, true, tg2) /\
    seg_ok cx g1 s1 (snd p) zwp true /\ ka_ok cx g1 s1.
Proof.
  intros cx g s e s' p tags Hinv Hcx H Htag. unfold tcp_dispatch in H.
  destruct (s_tuple s) as [t|] eqn:Et; [|discriminate].
  destruct (negb (tu_local_addr t =? cx_addr cx)); [discriminate|].
  destruct (tcp_dispatch_timers cx s) as [[s1 tg1]| |] eqn:E1; cbn [obind] in H; try discriminate.
  pose proof E1 as E1'. rewrite dtimers_unfold in E1'.
  set (s0 := if is_some (s_remote_last_ts s) then s else upd_remote_last_ts s (Some (cx_now cx))) in *.
  assert (Hinv0 : inv g s0).
  { unfold s0. destruct (is_some _); [exact Hinv|]. eapply inv_txv; [|exact Hinv]. reflexivity. }
  destruct (dtimers_body_spec cx g s0 Hinv0) as (s1b & tg1b & g1 & E1b & Hinv1 & Hg1 & _).
  rewrite E1b in E1'. injection E1' as -> ->.
  destruct (tcp_dispatch_decide cx s1) as [[[s1' go] t2]| |] eqn:E2; cbn [obind] in H; try discriminate.
  destruct (decide_inv _ _ _ _ _ _ Hinv1 E2) as (_ & _ & Hgo).
  destruct go; cbn [negb] in H; [|discriminate].
  specialize (Hgo eq_refl). subst s1'.
  destruct (tcp_dispatch_build cx s1 t) as [[[[[s2 orepr] zwp] ka] t3]| |] eqn:E3; cbn [obind] in H;
    try discriminate.
  destruct orepr as [r|]; [|discriminate].
  destruct (build_spec _ _ _ _ _ _ _ _ _ Hinv1 Hcx E3) as (Hs2 & Hok & Hka).
  destruct e; cbn [negb] in H; [|discriminate].
  destruct (tcp_dispatch_finish cx s2 r zwp ka) as [s3 t4] eqn:E4.
  injection H as <- <- <-.
  pose proof (dtimers_tag _ _ _ _ E1) as T1. pose proof (decide_tag _ _ _ _ _ E2) as T2.
  pose proof (build_tag _ _ _ _ _ _ _ _ E3) as T3. pose proof (finish_tag _ _ _ _ _ _ _ E4) as T4.
  assert (Eka : ka = true).
  { destruct ka; [reflexivity|]. cbn [In] in Htag.
    destruct Htag as [X|[X|[X|[X|[X|[]]]]]]; lia. }
  subst ka.
  exists g1, s1, tg1, t2, zwp. split; [exact Hg1|]. split; [exact Hinv1|]. split; [reflexivity|].
  split; [exact E2|]. split; [exact Hok|]. apply Hka. reflexivity.
Qed.

Lemma eff_mss_pos : forall cx s,
  52 < cx_ip_mtu cx -> tcp_MIN_REMOTE_MSS <= s_remote_mss s ->
  0 < eff_mss (cx_ip_mtu cx) (s_remote_mss s) (ts_opt s).
Proof.
  intros cx s Hm Hr. unfold eff_mss, sat_sub, ts_opt, tcp_MIN_REMOTE_MSS, wipv4_HEADER_LEN,
    wtcp_HEADER_LEN in *.
  destruct (s_tsval_generator s); lia.
Qed.

(* tcp-c01's premise [TcpNetTx.c05_ka_bound] *)
Theorem keep_alive_below_una : forall cx g s e s' p tags,
  inv g s -> ctx_ok cx -> 52 < cx_ip_mtu cx -> TcpLiveProofs.tcp_live_inv s ->
  tcp_dispatch cx s e = Ok (s', DSent p, tags) ->
  In 245 tags ->
  g_phase g <> PSyn /\ exists u, 0 <= u < g_una g /\ r_seq_number (snd p) = sq (g_iss g + u).
Proof.
  intros cx g s e s' p tags Hinv Hcx Hmtu Hlive H Htag.
  destruct (dispatch_ka_parts _ _ _ _ _ _ _ Hinv Hcx H Htag)
    as (g1 & s1 & tg1 & tg2 & zwp & Hg1 & Hinv1 & E1 & E2 & Hok & Hka).
  pose proof (TcpLiveProofs.dispatch_timers_inv _ _ _ _ Hlive E1) as L1.
  assert (Hsame : g_iss g1 = g_iss g /\ g_una g1 = g_una g /\ g_phase g1 = g_phase g).
  { destruct Hg1 as [->| ->]; repeat split; reflexivity. }
  destruct Hsame as (Eiss & Euna & Eph). rewrite <- Eiss, <- Euna, <- Eph. clear Eiss Euna Eph Hg1.
  destruct Hok as (Hk & _). destruct (Hk eq_refl) as (_ & _ & Eseq & Htm & _). clear Hk.
  destruct Hinv1 as ((Hwf & Hcap & Ha & Hlen & Hc & Hl & Hr & Hf & Hhw & Hpo & Hw & Hs) & Htmi &
                     (K1 & K2 & K3 & K4)).
  pose proof Hwf as (Hl0 & _).
  (* nothing in flight, and the high-water mark is SND.UNA *)
  assert (Hmain : g_phase g1 <> PSyn /\ g_flight g1 = 0 /\ g_hw g1 <= g_una g1 /\ 1 <= g_una g1).
  { unfold ka_ok in Hka. cbv zeta in Hka. destruct Hka as [Hph|(Hph & Hds & off & Hoff & Hnf & Hz)].
    - unfold phase_ok in Hpo. unfold g_una. rewrite Hph in Hpo |- *.
      destruct Hpo as (P1 & P2 & P3 & _). rewrite P3 in K1. cbn [b2z] in K1.
      split; [discriminate|]. split; [exact P2|]. lia.
    - assert (Hst : TcpLiveProofs.st_live (s_state s1) = true)
        by (destruct (s_state s1); try discriminate; reflexivity).
      destruct (TcpLiveProofs.li_K _ L1 Hst) as [Harm|(Erl & Hwin)].
      { destruct (s_timer s1) as [[a|]| | | |]; discriminate. }
      assert (Hf0 : g_flight g1 = 0).
      { rewrite Hl, Hr in Erl. unfold g_budget in Hf. rewrite Hph in Hf.
        assert (B : b2z (g_fin g1) <= 1) by (destruct (g_fin g1); cbn; lia).
        replace (g_iss g1 + g_una g1 + g_flight g1) with (g_iss g1 + (g_una g1 + g_flight g1)) in Erl by lia.
        apply sq_inj in Erl; [lia|]. change (2 ^ 32) with 4294967296. change (2 ^ 30) with 1073741824 in Hcap.
        lia. }
      assert (Hoff0 : off = 0) by (destruct Hoff; lia). subst off.
      pose proof (eff_mss_pos cx s1 Hmtu K3) as He.
      pose proof (TcpLiveBase.cc_window_pos _ (TcpLiveProofs.li_cc _ L1)) as Hcw.
      assert (Hlen0 : rb_len (s_tx_buffer s1) = 0).
      { destruct (Z.eq_dec (rb_len (s_tx_buffer s1)) 0) as [|N]; [assumption|].
        specialize (Hwin ltac:(lia)). destruct Hz as [X|[X|[X|X]]]; lia. }
      assert (Hfs : fin_state (s_state s1) = false).
      { destruct (fin_state (s_state s1)); [|reflexivity]. exfalso. apply Hnf. auto. }
      assert (Hfin : g_fin g1 = false).
      { unfold phase_ok in Hpo. rewrite Hph in Hpo.
        destruct (s_state s1); try discriminate; tauto. }
      rewrite Hfin in K1. cbn [b2z] in K1. unfold g_una. rewrite Hph.
      split; [discriminate|]. split; [exact Hf0|]. lia. }
  destruct Hmain as (Hns & Hf0 & Hhu & Hu1).
  split; [exact Hns|].
  assert (HX : exists X, 1 <= X <= g_una g1 /\ tcp_send_next_seq s1 = sq (g_iss g1 + X)).
  { unfold tcp_send_next_seq. destruct (rt_max_seq_sent (s_rtte s1)) as [m|].
    - destruct K2 as (x & Em & Hx). destruct (seq_gt m (s_remote_last_seq s1)).
      + exists x. split; [lia|exact Em].
      + exists (g_una g1). split; [lia|]. rewrite Hr, Hf0. f_equal. lia.
    - exists (g_una g1). split; [lia|]. rewrite Hr, Hf0. f_equal. lia. }
  destruct HX as (X & HX1 & HX2).
  exists (X - 1). split; [lia|]. rewrite Eseq, HX2, seq_subn_sq. f_equal. lia.
Qed.
