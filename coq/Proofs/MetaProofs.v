(* Lemmas about Model/Meta.v (socket Meta neighbor back-off) and about the socket-level egress
   of Model/Nexthop.v: a socket whose neighbor is missing is left alone until the neighbor is
   found or DISCOVERY_SILENT_TIME has passed; a packet leaves the queue only together with its
   transmission. *)
From SV Require Import Lib.Base Gen.Consts Model.Neighbor Model.Route Model.Meta Model.Nexthop.
From SV Require Import Proofs.NeighborProofs Proofs.RouteProofs Proofs.NexthopProofs.

Lemma discovery_silent_time_is_1s : meta_DISCOVERY_SILENT_TIME = 1 * 1000000.
Proof. reflexivity. Qed.

(* while waiting for a still-missing neighbor, egress is refused until silent_until *)
Lemma meta_waiting_refused : forall n s now hn, hn n = false -> now < s ->
  meta_egress_permitted (Waiting n s) now hn = (false, Waiting n s).
Proof.
  intros n s now hn H L. unfold meta_egress_permitted. rewrite H.
  destruct (now >=? s) eqn:E; [lia | reflexivity].
Qed.

(* after a failed dispatch at t the socket is not polled again for the missing neighbor
   before t + 1 s *)
Lemma meta_backoff : forall t n now hn,
  fst (meta_egress_permitted (meta_neighbor_missing t n) now hn) = true ->
  hn n = true \/ t + 1000000 <= now.
Proof.
  intros t n now hn H. unfold meta_neighbor_missing, meta_egress_permitted in H.
  destruct (hn n); [left; reflexivity|]. right.
  rewrite discovery_silent_time_is_1s in H.
  destruct (now >=? t + 1 * 1000000) eqn:E; [lia | discriminate].
Qed.

(* egress refused  <->  poll_at asks to come back at silent_until (> now) *)
Lemma meta_refused_poll_at : forall st now hn sp,
  fst (meta_egress_permitted st now hn) = false ->
  exists n s, st = Waiting n s /\ now < s /\ meta_poll_at st sp hn now = PollTime s.
Proof.
  intros st now hn sp H. destruct st as [|n s]; [discriminate|].
  unfold meta_egress_permitted in H. unfold meta_poll_at.
  destruct (hn n); [discriminate|]. destruct (now >=? s) eqn:E; [discriminate|].
  exists n, s. split; [reflexivity|]. split; [lia | reflexivity].
Qed.

Lemma meta_permitted_poll_at : forall st now hn sp,
  fst (meta_egress_permitted st now hn) = true -> meta_poll_at st sp hn now = sp.
Proof.
  intros st now hn sp H. destruct st as [|n s]; [reflexivity|].
  unfold meta_egress_permitted in H. unfold meta_poll_at.
  destruct (hn n); [reflexivity|]. destruct (now >=? s); [reflexivity | discriminate].
Qed.

Definition no_ip (fr : list frame) : Prop := forall h d t, ~ In (FIp h d t) fr.

(* one socket's turn: the head packet is transmitted (and only then dequeued), or it stays queued
   and at most a discovery request was sent, or the socket itself drops it without touching the
   interface: a UDP/ICMP socket an IPv4 packet while the interface has no IPv4 address, a raw socket
   a packet whose header carries the unspecified destination *)
Lemma sock_egress_spec : forall i s now i' s' fr sent,
  sim_sock_egress i s now = Ok (i', s', fr, sent) ->
  (sent = true /\ exists dst tag rest h, sk_q s = (dst, tag) :: rest /\ sk_q s' = rest /\ fr = [FIp h dst tag]) \/
  (sent = false /\ sk_q s' = sk_q s /\ no_ip fr /\ (length (requests fr) <= 1)%nat) \/
  (sent = false /\ fr = [] /\ i' = i /\ exists dst tag rest, sk_q s = (dst, tag) :: rest /\ sk_q s' = rest /\
     ((sk_kind s < 2 /\ (exists a, dst = V4 a) /\ nh_has_ipv4_source i = false) \/
      (2 <= sk_kind s /\ ip_is_unspecified dst = true))).
Proof.
  intros i s now i' s' fr sent H. unfold sim_sock_egress in H.
  destruct (meta_egress_permitted (sk_meta s) now (nh_has_neighbor i now)) as [permitted m1].
  destruct permitted; cbn [negb] in H.
  2:{ inversion H; subst. right; left. repeat split; auto. intros h d t []. }
  destruct (sk_q s) as [|[dst tag] rest] eqn:Q.
  { inversion H; subst. right; left. cbn [sk_q]. repeat split; auto. intros h d t []. }
  match type of H with (if ?c then _ else _) = _ => destruct c eqn:D end.
  { inversion H; subst. right; right. split; [reflexivity|]. split; [reflexivity|]. split; [reflexivity|].
    exists dst, tag, rest. split; [reflexivity|]. split; [reflexivity|].
    apply orb_true_iff in D. destruct D as [D|D].
    - left. apply andb_true_iff in D. destruct D as [D D3]. apply andb_true_iff in D. destruct D as [D1 D2].
      split; [lia|]. split; [destruct dst as [a|a]; [exists a; reflexivity | discriminate]|].
      apply negb_true_iff in D3; exact D3.
    - right. apply andb_true_iff in D. destruct D as [D1 D2]. apply negb_true_iff in D1. split; [lia | exact D2]. }
  destruct (nh_dispatch_ip i dst tag now) as [[[i1 f1] r1]| |] eqn:P; simpl in H; try discriminate.
  pose proof (miss_only_discovery _ _ _ _ _ _ _ P) as M.
  pose proof (dispatch_ip_rate _ _ _ _ _ _ _ P) as (_ & _ & RT).
  assert (LR : (length (requests f1) <= 1)%nat).
  { destruct RT as [[_ R]|[_ [_ R]]]; [rewrite R; simpl; lia | exact R]. }
  destruct M as [(h & E1 & E2)|[E1 E2]].
  - subst r1 f1. inversion H; subst. left. split; [reflexivity|]. exists dst, tag, rest, h. auto.
  - assert (NI : no_ip f1).
    { destruct E2 as [E2|(n & _ & _ & _ & E2)]; [subst; intros h d t []|].
      destruct n as [t0|t0]; [subst; intros h d t [F|[]]; discriminate|].
      destruct E2 as (hm & _ & E2); subst; intros h d t [F|[]]; discriminate. }
    destruct E1 as [E1|E1]; subst r1; inversion H; subst; right; left; cbn [sk_q]; repeat split; auto.
Qed.

(* a failed dispatch arms the socket's back-off for its destination *)
Lemma sock_egress_failed_waits : forall i s now i' s' fr dst tag rest,
  sim_sock_egress i s now = Ok (i', s', fr, false) ->
  sk_q s = (dst, tag) :: rest -> sk_q s' = sk_q s ->
  fst (meta_egress_permitted (sk_meta s) now (nh_has_neighbor i now)) = true ->
  sk_meta s' = meta_neighbor_missing now dst.
Proof.
  intros i s now i' s' fr dst tag rest H Q K P. unfold sim_sock_egress in H.
  destruct (meta_egress_permitted (sk_meta s) now (nh_has_neighbor i now)) as [permitted m1].
  cbn [fst] in P. subst permitted. cbn [negb] in H. rewrite Q in H.
  match type of H with (if ?c then _ else _) = _ => destruct c end.
  { inversion H; subst. cbn [sk_q] in K. rewrite Q in K.
    exfalso. clear -K. induction rest; [discriminate | inversion K; auto]. }
  destruct (nh_dispatch_ip i dst tag now) as [[[i1 f1] r1]| |]; simpl in H; try discriminate.
  destruct r1; inversion H; subst; reflexivity.
Qed.

(* a socket that is backing off does not touch the interface *)
Lemma sock_egress_silenced : forall i s now n su,
  sk_meta s = Waiting n su -> nh_has_neighbor i now n = false -> now < su ->
  sim_sock_egress i s now = Ok (i, s, [], false).
Proof.
  intros i s now n su0 M H L. unfold sim_sock_egress. rewrite M.
  rewrite (meta_waiting_refused _ _ _ _ H L). cbn [negb]. destruct s; simpl in *; subst; reflexivity.
Qed.

(* ---------- non-vacuity: a concrete history exercising every clause ---------- *)

Definition ip4 (a b c d : Z) : Z := ((a * 256 + b) * 256 + c) * 256 + d.
Definition EX_OWN : Z := 0x020000000001.

(* Ethernet, 2 cache slots, 10.0.0.1/24, default route via .254 and 8.8.0.0/16 via .253 until 5 s:
   discovery, answer, use; rate-limited second discovery (300 us: silent, 1 s: sent); the longer
   prefix wins; a third neighbor evicts the oldest entry; an off-link ARP reply is ignored; the
   expired /16 route falls back to the default route; the entry learned at 2 s is gone at 62 s. *)
Definition c16_example_evs : list event :=
  [ EvAddrs [mkCidr (V4 (ip4 10 0 0 1)) 24];
    EvRoutes [mkRoute (mkCidr (V4 0) 0) (V4 (ip4 10 0 0 254)) None;
              mkRoute (mkCidr (V4 (ip4 8 8 0 0)) 16) (V4 (ip4 10 0 0 253)) (Some 5000000)];
    EvDispatch 0 (V4 (ip4 10 0 0 2)) 1;
    EvRx 100 (RxArp EX_OWN 2 0x020000000102 (ip4 10 0 0 2) (ip4 10 0 0 1));
    EvDispatch 200 (V4 (ip4 10 0 0 2)) 1;
    EvDispatch 300 (V4 (ip4 8 8 8 8)) 2;
    EvDispatch 1000000 (V4 (ip4 8 8 8 8)) 2;
    EvRx 1000100 (RxArp EX_OWN 2 0x0200000001fd (ip4 10 0 0 253) (ip4 10 0 0 1));
    EvDispatch 1000200 (V4 (ip4 8 8 8 8)) 2;
    EvRx 2000000 (RxArp ETH_BROADCAST 1 0x020000000103 (ip4 10 0 0 3) (ip4 10 0 0 1));
    EvRx 2000001 (RxArp EX_OWN 2 0x020000000199 (ip4 172 16 0 9) (ip4 10 0 0 1));
    EvDispatch 2000002 (V4 (ip4 10 0 0 2)) 3;
    EvDispatch 6000000 (V4 (ip4 8 8 8 8)) 4;
    EvDispatch 61999999 (V4 (ip4 10 0 0 3)) 5;
    EvDispatch 62000000 (V4 (ip4 10 0 0 3)) 6 ].

Lemma c16_example :
  exists i,
    nh_run (nh_init true EX_OWN 2) c16_example_evs =
      Ok (i, [ (0, FArpReq ETH_BROADCAST (ip4 10 0 0 2));
               (200, FIp 0x020000000102 (V4 (ip4 10 0 0 2)) 1);
               (1000000, FArpReq ETH_BROADCAST (ip4 10 0 0 253));
               (1000200, FIp 0x0200000001fd (V4 (ip4 8 8 8 8)) 2);
               (2000000, FArpRep 0x020000000103 (ip4 10 0 0 3));
               (2000002, FArpReq ETH_BROADCAST (ip4 10 0 0 2));
               (6000000, FArpReq ETH_BROADCAST (ip4 10 0 0 254));
               (61999999, FIp 0x020000000103 (V4 (ip4 10 0 0 3)) 5);
               (62000000, FArpReq ETH_BROADCAST (ip4 10 0 0 3)) ]) /\
    nh_log (nh_init true EX_OWN 2) c16_example_evs =
      [ CFlush; CFill (V4 (ip4 10 0 0 2)) 0x020000000102 100;
        CFill (V4 (ip4 10 0 0 253)) 0x0200000001fd 1000100;
        CFill (V4 (ip4 10 0 0 3)) 0x020000000103 2000000 ] /\
    length (c_storage (if_cache i)) = 2%nat /\
    gateways_unicast i.
Proof.
  eexists. split; [vm_compute; reflexivity|]. split; [vm_compute; reflexivity|].
  split; [vm_compute; reflexivity|].
  intros r H. vm_compute in H. destruct H as [H|[H|[]]]; subst; reflexivity.
Qed.

(* sockets: a packet to an unresolved neighbor stays queued across polls, one ARP request per
   second goes out, and it is transmitted exactly once after the reply *)
Definition c16_example_sim : list sim_ev :=
  [ SAddrs [mkCidr (V4 (ip4 10 0 0 1)) 24];
    SSend 0 (V4 (ip4 10 0 0 2)) 7;
    SPoll 0; SPoll 500000; SPoll 1000000;
    SRx (RxArp EX_OWN 2 0x020000000102 (ip4 10 0 0 2) (ip4 10 0 0 1));
    SPoll 1000500; SPoll 1000600 ].

Fixpoint sim_run (st : sim) (evs : list sim_ev) : outcome (sim * list (list frame)) :=
  match evs with
  | [] => Ok (st, [])
  | e :: r =>
      do '(st1, f1, _) <- sim_step st e;
      do '(st2, f2) <- sim_run st1 r;
      Ok (st2, f1 :: f2)
  end.

Lemma c16_example_sockets :
  exists st,
    sim_run (sim_init true EX_OWN 8 2 4 [0]) c16_example_sim =
      Ok (st, [ []; []; [FArpReq ETH_BROADCAST (ip4 10 0 0 2)]; [];
                [FArpReq ETH_BROADCAST (ip4 10 0 0 2)]; [];
                [FIp 0x020000000102 (V4 (ip4 10 0 0 2)) 7]; [] ]) /\
    sim_qlens st = [0].
Proof. eexists. split; vm_compute; reflexivity. Qed.

(* ---------- the socket-level simulation is a sequence of interface events ---------- *)

Lemma nh_run_app : forall a i b,
  nh_run i (a ++ b) =
  match nh_run i a with
  | Ok (i1, f1) => match nh_run i1 b with Ok (i2, f2) => Ok (i2, f1 ++ f2) | Err e => Err e | Panic => Panic end
  | Err e => Err e
  | Panic => Panic
  end.
Proof.
  induction a as [|e r IH]; intros i b.
  - cbn [app nh_run]. destruct (nh_run i b) as [[i2 f2]| |]; reflexivity.
  - cbn [app nh_run]. destruct (nh_step i e) as [[i1 f1]| |]; simpl; try reflexivity.
    rewrite IH. destruct (nh_run i1 r) as [[i2 f2]| |]; simpl; try reflexivity.
    destruct (nh_run i2 b) as [[i3 f3]| |]; simpl; try reflexivity.
    rewrite app_assoc. reflexivity.
Qed.

Lemma nh_run_app_ok : forall a b i i1 i2 f1 f2,
  nh_run i a = Ok (i1, f1) -> nh_run i1 b = Ok (i2, f2) -> nh_run i (a ++ b) = Ok (i2, f1 ++ f2).
Proof. intros. rewrite nh_run_app, H, H0. reflexivity. Qed.

Lemma stamp_app : forall now a b, stamp now (a ++ b) = stamp now a ++ stamp now b.
Proof. intros; unfold stamp; apply map_app. Qed.

Lemma sim_ingress_refines : forall rx i now b i' fr lft b',
  sim_ingress i rx now b = Ok (i', fr, lft, b') ->
  exists evs, nh_run i evs = Ok (i', stamp now fr).
Proof.
  induction rx as [|f r IH]; intros i now b i' fr lft b' H; cbn [sim_ingress] in *.
  - inversion H; subst. exists []. reflexivity.
  - destruct (bud_empty b).
    { inversion H; subst. exists []. reflexivity. }
    destruct (nh_process_rx i now f) as [[i1 f1]| |] eqn:P; simpl in H; try discriminate.
    destruct (sim_ingress i1 r now (bud_take b (length f1))) as [[[[i2 f2] l2] b2]| |] eqn:R; simpl in H; try discriminate.
    inversion H; subst. destruct (IH _ _ _ _ _ _ _ R) as [e2 E2].
    exists (EvRx now f :: e2). cbn [nh_run nh_step]. rewrite P. simpl. rewrite E2. simpl.
    unfold stamp. rewrite map_app. reflexivity.
Qed.

Lemma sock_egress_refines : forall i s now i' s' fr b,
  sim_sock_egress i s now = Ok (i', s', fr, b) ->
  exists evs, nh_run i evs = Ok (i', stamp now fr).
Proof.
  intros i s now i' s' fr b H. unfold sim_sock_egress in H.
  destruct (meta_egress_permitted (sk_meta s) now (nh_has_neighbor i now)) as [permitted m1].
  destruct permitted; cbn [negb] in H.
  2:{ inversion H; subst. exists []. reflexivity. }
  destruct (sk_q s) as [|[dst tag] rest].
  { inversion H; subst. exists []. reflexivity. }
  match type of H with (if ?c then _ else _) = _ => destruct c end.
  { inversion H; subst. exists []. reflexivity. }
  destruct (nh_dispatch_ip i dst tag now) as [[[i1 f1] r1]| |] eqn:P; simpl in H; try discriminate.
  exists [EvDispatch now dst tag]. cbn [nh_run nh_step]. rewrite P. simpl.
  destruct r1; inversion H; subst; rewrite app_nil_r; reflexivity.
Qed.

Lemma socket_egress_refines : forall ss i now bd i' ss' fr b bd',
  sim_socket_egress i ss now bd = Ok (i', ss', fr, b, bd') ->
  exists evs, nh_run i evs = Ok (i', stamp now fr).
Proof.
  induction ss as [|s r IH]; intros i now bd i' ss' fr b bd' H; cbn [sim_socket_egress] in H.
  - inversion H; subst. exists []. reflexivity.
  - destruct (if bud_empty bd then sim_sock_wants_token i s now else None) as [s0|].
    { inversion H; subst. exists []. reflexivity. }
    destruct (sim_sock_egress i s now) as [[[[i1 s1] f1] b1]| |] eqn:S; simpl in H; try discriminate.
    destruct (sim_socket_egress i1 r now (bud_take bd (length f1))) as [[[[[i2 r2] f2] b2] bd2]| |] eqn:R;
      simpl in H; try discriminate.
    inversion H; subst.
    destruct (sock_egress_refines _ _ _ _ _ _ _ S) as [e1 E1].
    destruct (IH _ _ _ _ _ _ _ _ R) as [e2 E2].
    exists (e1 ++ e2). rewrite stamp_app. eapply nh_run_app_ok; eauto.
Qed.

Lemma egress_loop_refines : forall fuel i ss now bd i' ss' fr,
  sim_egress_loop fuel i ss now bd = Ok (i', ss', fr) ->
  exists evs, nh_run i evs = Ok (i', stamp now fr).
Proof.
  induction fuel as [|n IH]; intros i ss now bd i' ss' fr H; cbn [sim_egress_loop] in H.
  - inversion H; subst. exists []. reflexivity.
  - destruct (sim_socket_egress i ss now bd) as [[[[[i1 ss1] f1] again] bd1]| |] eqn:S; simpl in H; try discriminate.
    destruct (socket_egress_refines _ _ _ _ _ _ _ _ _ S) as [e1 E1].
    destruct again.
    + destruct (sim_egress_loop n i1 ss1 now bd1) as [[[i2 ss2] f2]| |] eqn:L; simpl in H; try discriminate.
      inversion H; subst. destruct (IH _ _ _ _ _ _ _ L) as [e2 E2].
      exists (e1 ++ e2). rewrite stamp_app. eapply nh_run_app_ok; eauto.
    + inversion H; subst. exists e1. exact E1.
Qed.

Lemma sim_poll_refines : forall st now st' fr,
  sim_poll st now = Ok (st', fr) ->
  exists evs, nh_run (sim_if st) evs = Ok (sim_if st', stamp now fr).
Proof.
  intros st now st' fr H. unfold sim_poll in H.
  remember (S (sim_queued (sim_socks st))) as fuel.
  destruct (sim_ingress (sim_if st) (sim_rx st) now (sim_txb st)) as [[[[i1 f1] l1] b1]| |] eqn:I; simpl in H; try discriminate.
  destruct (sim_egress_loop fuel i1 (sim_socks st) now b1) as [[[i2 ss2] f2]| |] eqn:L;
    simpl in H; try discriminate.
  inversion H; subst. cbn [sim_if].
  destruct (sim_ingress_refines _ _ _ _ _ _ _ _ I) as [e1 E1].
  destruct (egress_loop_refines _ _ _ _ _ _ _ _ L) as [e2 E2].
  exists (e1 ++ e2). rewrite stamp_app.
  eapply nh_run_app_ok; eauto.
Qed.

(* frames of one simulation step with their time (only polls transmit) *)
Definition sim_step_t (st : sim) (e : sim_ev) : outcome (sim * list (Z * frame)) :=
  do '(st', fr, _) <- sim_step st e;
  Ok (st', match e with SPoll now => stamp now fr | _ => [] end).

Fixpoint sim_trace (st : sim) (evs : list sim_ev) : outcome (sim * list (Z * frame)) :=
  match evs with
  | [] => Ok (st, [])
  | e :: r =>
      do '(st1, f1) <- sim_step_t st e;
      do '(st2, f2) <- sim_trace st1 r;
      Ok (st2, f1 ++ f2)
  end.

Lemma sim_step_refines : forall st e st' tfr,
  sim_step_t st e = Ok (st', tfr) ->
  exists evs, nh_run (sim_if st) evs = Ok (sim_if st', tfr).
Proof.
  intros st e st' tfr H. unfold sim_step_t in H.
  destruct (sim_step st e) as [[[st1 fr] r]| |] eqn:S; simpl in H; try discriminate.
  inversion H; subst; clear H.
  destruct e; cbn [sim_step] in S.
  - inversion S; subst. exists [EvAddrs l]. reflexivity.
  - exists []. destruct (nth_error (sim_socks st) s) as [sk|]; [|inversion S; subst; reflexivity].
    destruct ((sk_kind sk <? 2) && ip_is_unspecified dst); [inversion S; subst; reflexivity|].
    destruct (Z.of_nat (length (sk_q sk)) <? sim_qcap st); inversion S; subst; reflexivity.
  - inversion S; subst. exists []. reflexivity.
  - destruct (route_add_default_ipv4_route (sim_rcap st) (if_routes (sim_if st)) gw) as [l ok].
    inversion S; subst. exists [EvRoutes l]. reflexivity.
  - destruct (route_add_default_ipv6_route (sim_rcap st) (if_routes (sim_if st)) gw) as [l ok].
    inversion S; subst. exists [EvRoutes l]. reflexivity.
  - inversion S; subst. eexists [EvRoutes _]. reflexivity.
  - inversion S; subst. eexists [EvRoutes _]. reflexivity.
  - destruct (route_push (sim_rcap st) (if_routes (sim_if st)) r0) as [l ok].
    inversion S; subst. exists [EvRoutes l]. reflexivity.
  - inversion S; subst. eexists [EvRoutes _]. reflexivity.
  - inversion S; subst. eexists [EvRoutes _]. reflexivity.
  - destruct (nh_set_hardware_addr (sim_if st) hw) as [i1| |] eqn:P; simpl in S; try discriminate.
    inversion S; subst. exists [EvSetHw hw]. cbn [nh_run nh_step]. rewrite P. reflexivity.
  - inversion S; subst. exists []. reflexivity.
  - destruct (sim_poll st now) as [[st2 f2]| |] eqn:P; simpl in S; try discriminate.
    inversion S; subst. apply sim_poll_refines; exact P.
Qed.

(* every run of the simulated Interface (the model the correspondence stream validates) is a run of
   interface events: all theorems about [nh_run] apply to it *)
Lemma sim_trace_refines : forall evs st st' tfr,
  sim_trace st evs = Ok (st', tfr) ->
  exists nevs, nh_run (sim_if st) nevs = Ok (sim_if st', tfr).
Proof.
  induction evs as [|e r IH]; intros st st' tfr H; cbn [sim_trace] in H.
  - inversion H; subst. exists []. reflexivity.
  - destruct (sim_step_t st e) as [[st1 f1]| |] eqn:S; simpl in H; try discriminate.
    destruct (sim_trace st1 r) as [[st2 f2]| |] eqn:R; simpl in H; try discriminate.
    inversion H; subst.
    destruct (sim_step_refines _ _ _ _ S) as [e1 E1]. destruct (IH _ _ _ R) as [e2 E2].
    exists (e1 ++ e2). eapply nh_run_app_ok; eauto.
Qed.

Lemma sim_discovery_rate : forall ether hw cap rcap qcap kinds evs st tfr a t1 b t2 c,
  sim_trace (sim_init ether hw cap rcap qcap kinds) evs = Ok (st, tfr) ->
  req_times tfr = a ++ t1 :: b ++ t2 :: c ->
  t1 + 1000000 <= t2.
Proof.
  intros ether hw cap rcap qcap kinds evs st tfr a t1 b t2 c H E.
  destruct (sim_trace_refines _ _ _ _ H) as [nevs R].
  change (sim_if (sim_init ether hw cap rcap qcap kinds)) with (nh_init ether hw cap) in R.
  exact (discovery_rate_run _ _ _ _ _ _ _ _ _ _ _ R E).
Qed.

Lemma sim_cache_bounded : forall ether hw cap rcap qcap kinds evs st tfr, 1 <= cap ->
  sim_trace (sim_init ether hw cap rcap qcap kinds) evs = Ok (st, tfr) ->
  Z.of_nat (length (c_storage (if_cache (sim_if st)))) <= cap /\
  NoDup (map fst (c_storage (if_cache (sim_if st)))).
Proof.
  intros ether hw cap rcap qcap kinds evs st tfr Hcap H.
  destruct (sim_trace_refines _ _ _ _ H) as [nevs R].
  change (sim_if (sim_init ether hw cap rcap qcap kinds)) with (nh_init ether hw cap) in R.
  exact (cache_bounded_run _ _ _ _ _ _ Hcap R).
Qed.

(* ---------- device back-pressure and set_hardware_addr ---------- *)

(* a socket turn that finds no transmit token ends the pass: the interface (cache, rate limiter)
   is untouched, nothing is emitted, every queue is as before *)
Lemma socket_egress_exhausted : forall i s rest now b s1,
  bud_empty b = true -> sim_sock_wants_token i s now = Some s1 ->
  sim_socket_egress i (s :: rest) now b = Ok (i, s1 :: rest, [], false, b) /\
  sk_q s1 = sk_q s /\ sk_kind s1 = sk_kind s.
Proof.
  intros i s rest now b s1 E W. cbn [sim_socket_egress]. rewrite E, W. split; [reflexivity|].
  unfold sim_sock_wants_token in W.
  destruct (meta_egress_permitted (sk_meta s) now (nh_has_neighbor i now)) as [permitted m1].
  destruct permitted; cbn [negb] in W; [|discriminate].
  destruct (sk_q s) as [|[dst tag] r] eqn:Q; [discriminate|].
  match type of W with (if ?c then _ else _) = _ => destruct c end; [discriminate|].
  inversion W; subst. cbn [sk_q sk_kind]. auto.
Qed.

(* without budget the device hands out no received frame either: everything stays queued *)
Lemma ingress_exhausted : forall i rx now b, bud_empty b = true ->
  sim_ingress i rx now b = Ok (i, [], rx, b).
Proof. intros i [|f r] now b E; cbn [sim_ingress]; [reflexivity | rewrite E; reflexivity]. Qed.

(* set_hardware_addr keeps the neighbor cache and everything else; it panics exactly for a
   non-unicast address *)
Lemma set_hardware_addr_spec : forall i hw,
  (hw_is_unicast i hw = true ->
     exists i', nh_set_hardware_addr i hw = Ok i' /\ if_hw i' = hw /\ if_cache i' = if_cache i /\
                if_addrs i' = if_addrs i /\ if_routes i' = if_routes i /\ if_cap i' = if_cap i) /\
  (hw_is_unicast i hw = false -> nh_set_hardware_addr i hw = Panic).
Proof.
  intros i hw. unfold nh_set_hardware_addr. split; intro H; rewrite H; [|reflexivity].
  eexists; split; [reflexivity|]. repeat split.
Qed.
