(* C03, "fail to return" clause for the TCP socket, layer 5: the extra hypotheses of the burst
   theorems hold in every reachable state.

     step_sinv         [sinv] (probe timer only with octets queued and a positive back-off, remote
                       MSS >= MIN_REMOTE_MSS, syn_unacked_in_fin_wait only in FIN-WAIT-1 / CLOSED) is
                       preserved by every event: API calls, any parsed segment, any dispatch
     burst_reach_inv   sockets built by tcp_new and driven by any event sequence satisfy the C02
                       invariant, the C05 invariant and [sinv]
     rx_ok_of_*        [rx_ok] follows from C04's receiver invariant (synchronised or not)

   The clause about the probe timer is where the repair of D19 (/repo 1789dc0) enters: before it,
   [tcp_process_zwp] left a probe timer armed over an empty transmit buffer. *)
From SV Require Import Lib.Base Gen.Consts.
From SV Require Import Model.Seq32 Model.Assembler Model.TcpBuf Model.TcpTypes Model.Tcp.
From SV Require Import Proofs.TcpSendBase Proofs.TcpSendInv Proofs.TcpSendTrace.
From SV Require Import Proofs.TcpLiveBase Proofs.TcpLiveProofs.
From SV Require Import Proofs.TcpBurstBase Proofs.TcpBurstStep Proofs.TcpBurstEmit Proofs.TcpBurstProofs.

(* the part of [sinv] that is not already a clause of the C05 invariant *)
Definition sinv13 (s : socket) : Prop := zwp_ok s /\ synfw_ok s.

(* state, timer, transmit buffer and the SYN|ACK flag unchanged *)
Definition sv_same (s s' : socket) : Prop :=
  s_state s' = s_state s /\ s_timer s' = s_timer s /\ s_tx_buffer s' = s_tx_buffer s /\
  s_syn_unacked_in_fin_wait s' = s_syn_unacked_in_fin_wait s.

Lemma sv_same_refl : forall s, sv_same s s.
Proof. intros. repeat split. Qed.

Lemma sv_same_trans : forall a b c, sv_same a b -> sv_same b c -> sv_same a c.
Proof.
  intros a b c (A1 & A2 & A3 & A4) (B1 & B2 & B3 & B4). unfold sv_same.
  rewrite B1, B2, B3, B4. auto.
Qed.

Lemma sinv13_same : forall s s', sv_same s s' -> sinv13 s -> sinv13 s'.
Proof.
  intros s s' (E1 & E2 & E3 & E4) (Hz & Hf). unfold sinv13, zwp_ok, synfw_ok in *.
  rewrite E1, E2, E3, E4. auto.
Qed.

Ltac sv_triv := unfold sv_same; sproj; repeat split; reflexivity.

(* ------------------------------------------------------------------------------------------ *)
(* replies                                                                                      *)
(* ------------------------------------------------------------------------------------------ *)
Lemma ack_reply_sv : forall cx s ip r, sv_same s (fst (tcp_ack_reply cx s ip r)).
Proof.
  intros. unfold tcp_ack_reply. destruct (tcp_reply ip r) as (ip', reply).
  destruct (r_timestamp r) as [(a, b)|]; cbn [fst]; sv_triv.
Qed.

Lemma challenge_sv : forall cx s ip r, sv_same s (fst (tcp_challenge_ack_reply cx s ip r)).
Proof.
  intros. unfold tcp_challenge_ack_reply. destruct (cx_now cx <? s_challenge_ack_timer s);
    [apply sv_same_refl|].
  pose proof (ack_reply_sv cx (upd_challenge_ack_timer s (cx_now cx + 1000000)) ip r) as X.
  destruct (tcp_ack_reply cx (upd_challenge_ack_timer s (cx_now cx + 1000000)) ip r) as (s1, p).
  cbn [fst] in *. eapply sv_same_trans; [|exact X]. sv_triv.
Qed.

(* ------------------------------------------------------------------------------------------ *)
(* process, phase by phase                                                                      *)
(* ------------------------------------------------------------------------------------------ *)
Lemma ack_check_sv : forall cx s ip r p1,
  tcp_process_ack_check cx s ip r = Ok p1 ->
  match p1 with
  | Ret _ s' _ => sv_same s s'
  | Cont _ _ => s_state s = Listen \/ s_state s = SynSent \/ r_control r = CRst \/
                is_some (r_ack_number r) = true
  end.
Proof.
  intros cx s ip r p1 H. unfold tcp_process_ack_check in H.
  pose proof (challenge_sv cx s ip r) as C.
  destruct (s_state s); destruct (r_control r); destruct (r_ack_number r);
    repeat match type of H with
           | context [if ?b then _ else _] => destruct b
           | (do _ <- ?m; _) = _ => destruct m; cbn [obind] in H
           | (let '(_, _) := ?m in _) = _ => destruct m
           end; try discriminate; inversion H; subst; cbn [is_some]; auto 6 using sv_same_refl.
Qed.

Lemma window_sv : forall cx s ip r p2,
  tcp_process_window cx s ip r = Ok p2 ->
  match p2 with
  | Cont _ (s2, _, _) => sv_same s s2
  | Ret _ s' _ =>
      s_state s' = s_state s /\ s_tx_buffer s' = s_tx_buffer s /\
      s_syn_unacked_in_fin_wait s' = s_syn_unacked_in_fin_wait s /\
      (s_timer s' = s_timer s \/ timer_is_close (s_timer s') = true)
  end.
Proof.
  intros cx s ip r p2 H. unfold tcp_process_window in H.
  assert (Hmain :
    (let '(in_window, tg) := tcp_segment_in_window (tcp_window_start s) (tcp_window_end s)
                               (r_seq_number r) (seq_add (r_seq_number r) (l_len (r_payload r))) in
     if in_window then
       let overlap_start := seq_max (tcp_window_start s) (r_seq_number r) in
       let overlap_end := seq_min (tcp_window_end s) (seq_add (r_seq_number r) (l_len (r_payload r))) in
       if negb (seq_le overlap_start overlap_end) then Panic else
       let s := upd_local_rx_last_seq s (Some (r_seq_number r)) in
       do a <- seq_sub overlap_start (r_seq_number r);
       do b <- seq_sub overlap_end (r_seq_number r);
       do payload <- slice_range (r_payload r) a b;
       do off <- seq_sub overlap_start (tcp_window_start s);
       Ok (Cont tg (s, payload, off))
     else if control_eqb (r_control r) CRst then Ok (Ret (tg + 1000) s None)
     else
       let s := if tcp_state_eqb (s_state s) TimeWait
                then upd_timer s (timer_set_for_close (cx_now cx)) else s in
       if (match r_payload r with [] => false | _ => true end)
          && (match r_control r with CNone | CPsh | CFin => true | _ => false end)
       then let '(s', p) := tcp_ack_reply cx s ip r in Ok (Ret (tg + 2000) s' (Some p))
       else let '(s', p) := tcp_challenge_ack_reply cx s ip r in Ok (Ret (tg + 3000) s' p)) = Ok p2 ->
    match p2 with
    | Cont _ (s2, _, _) => sv_same s s2
    | Ret _ s' _ =>
        s_state s' = s_state s /\ s_tx_buffer s' = s_tx_buffer s /\
        s_syn_unacked_in_fin_wait s' = s_syn_unacked_in_fin_wait s /\
        (s_timer s' = s_timer s \/ timer_is_close (s_timer s') = true)
    end).
  { clear H. intros H. cbv zeta in H.
    destruct (tcp_segment_in_window _ _ _ _) as (inw, tg). destruct inw.
    - destruct (negb (seq_le _ _)); [discriminate|].
      repeat (match type of H with (do _ <- ?m; _) = _ => destruct m; cbn [obind] in H end;
              try discriminate).
      inversion H; subst p2. sv_triv.
    - destruct (control_eqb (r_control r) CRst); [inversion H; subst p2; auto|].
      set (q := if tcp_state_eqb (s_state s) TimeWait
                then upd_timer s (timer_set_for_close (cx_now cx)) else s) in *.
      assert (Hq : s_state q = s_state s /\ s_tx_buffer q = s_tx_buffer s /\
                   s_syn_unacked_in_fin_wait q = s_syn_unacked_in_fin_wait s /\
                   (s_timer q = s_timer s \/ timer_is_close (s_timer q) = true)).
      { unfold q. destruct (tcp_state_eqb (s_state s) TimeWait); sproj; auto 6. }
      clearbody q. destruct Hq as (Q1 & Q2 & Q3 & Q4).
      pose proof (ack_reply_sv cx q ip r) as (A1 & A2 & A3 & A4).
      pose proof (challenge_sv cx q ip r) as (C1 & C2 & C3 & C4).
      destruct (tcp_ack_reply cx q ip r) as (sa, pa).
      destruct (tcp_challenge_ack_reply cx q ip r) as (sc, pc). cbn [fst] in *.
      match type of H with (if ?b then _ else _) = _ => destruct b end;
        inversion H; subst p2; rewrite ?A1, ?A2, ?A3, ?A4, ?C1, ?C2, ?C3, ?C4; auto. }
  destruct (s_state s); try exact (Hmain H); inversion H; subst p2; apply sv_same_refl.
Qed.

Lemma reset_sinv13 : forall s, sinv13 (tcp_reset s).
Proof.
  intros s. unfold sinv13, zwp_ok, synfw_ok, tcp_reset. sproj. split; [exact I|discriminate].
Qed.

Lemma closed_sinv13 : forall s, sinv13 s -> sinv13 (upd_tuple (tcp_set_state s Closed) None).
Proof.
  intros s (Hz & Hf). unfold sinv13, zwp_ok, synfw_ok in *. sproj. split; [exact Hz|auto].
Qed.

Lemma transition_ret_sinv13 : forall cx s ip r c al aof tg s' reply,
  tcp_process_transition cx s ip r c al aof = Ok (Ret tg s' reply) -> sinv13 s -> sinv13 s'.
Proof.
  intros cx s ip r c al aof tg s' reply H I. unfold tcp_process_transition in H.
  pose proof (challenge_sv cx s ip r) as C.
  destruct (s_state s) eqn:Hst; destruct c;
    repeat match type of H with
           | context [if ?b then _ else _] => destruct b eqn:?
           | (let '(_, _) := ?m in _) = _ => destruct m
           end;
    try discriminate; try (inversion H; subst s'; exact I);
    try (inversion H; subst s'; apply closed_sinv13; exact I);
    try (cbv zeta in H; inversion H; subst s';
         assert (Rt : s_timer (tcp_reset s) = timer_new) by (unfold tcp_reset; sproj; reflexivity);
         assert (Rf : s_syn_unacked_in_fin_wait (tcp_reset s) = false) by (unfold tcp_reset; sproj; reflexivity);
         revert Rt Rf; generalize (tcp_reset s);
         intros q Rt Rf; unfold sinv13, zwp_ok, synfw_ok in *; sproj; rewrite Rt, Rf;
         split; [exact Logic.I|discriminate]).
  all: try (inversion H; subst s'; cbn [fst] in C; exact (sinv13_same _ _ C I)).
Qed.

Lemma apply_mss_sv : forall s r, sv_same s (tcp_apply_mss s r).
Proof.
  intros. unfold tcp_apply_mss. destruct (r_max_seg_size r) as [m|]; [destruct (m =? 0)|]; sv_triv.
Qed.

Lemma transition_cont_sv : forall cx s ip r c al aof tg s3,
  tcp_process_transition cx s ip r c al aof = Ok (Cont tg s3) ->
  s_tx_buffer s3 = s_tx_buffer s /\
  s_syn_unacked_in_fin_wait s3 = s_syn_unacked_in_fin_wait s /\ c <> CRst /\
  (s_timer s3 = s_timer s \/ timer_is_idle (s_timer s3) = true \/ timer_is_close (s_timer s3) = true).
Proof.
  intros cx s ip r c al aof tg s3 H. unfold tcp_process_transition in H.
  pose proof (apply_mss_sv s r) as (A1 & A2 & A3 & A4).
  destruct (s_state s); destruct c;
    repeat match type of H with
           | context [if aof then _ else _] => destruct aof
           | context [if negb (le_port _ =? 0) then _ else _] => destruct (negb (le_port (s_listen_endpoint s) =? 0))
           | context [if (al =? 0) && _ then _ else _] => destruct ((al =? 0) && rb_is_empty (s_tx_buffer s))
           | (let '(_, _) := ?m in _) = _ => destruct m
           end; try discriminate.
  (* Listen + SYN *)
  { revert H A2 A3 A4. generalize (tcp_apply_mss s r). intros q H A2 A3 A4.
    repeat match type of H with context [if ?b then _ else _] => destruct b end;
      inversion H; subst; sproj; (split; [exact A3|]); (split; [exact A4|]); (split; [discriminate|]);
      right; left; reflexivity. }
  (* SynSent + SYN *)
  { revert H A2 A3 A4. generalize (tcp_apply_mss s r). intros q H A2 A3 A4.
    repeat match type of H with context [if ?b then _ else _] => destruct b end;
      inversion H; subst; sproj; (split; [exact A3|]); (split; [exact A4|]); (split; [discriminate|]);
      left; exact A2. }
  all: unfold tcp_enter_time_wait, tcp_fin_received in H; inversion H; subst; sproj;
       (split; [reflexivity|]); (split; [reflexivity|]); (split; [discriminate|]); cbn; auto.
Qed.

Lemma quash_rst : forall s r, r_control r = CRst -> tcp_process_quash s r = CRst.
Proof. intros s r H. unfold tcp_process_quash. rewrite H. reflexivity. Qed.

Lemma update_remote_sv : forall cx s r al s4 wu,
  tcp_process_update_remote cx s r al = Ok (s4, wu) ->
  s_timer s4 = s_timer s /\ s_syn_unacked_in_fin_wait s4 = s_syn_unacked_in_fin_wait s /\
  s_rtte s4 = s_rtte s.
Proof.
  intros cx s r al s4 wu H. unfold tcp_process_update_remote in H. sproj in H.
  destruct (al >? 0).
  - destruct (negb (rb_len (s_tx_buffer s) >=? al)); [discriminate|].
    obind_inv H. inversion H; subst. sproj. auto.
  - inversion H; subst. sproj. auto.
Qed.

Lemma dup_ack_sv : forall cx s r al wu s5 tg,
  tcp_process_dup_ack cx s r al wu = Ok (s5, tg) ->
  (s_timer s5 = s_timer s \/ s_timer s5 = TFastRetransmit) /\
  s_syn_unacked_in_fin_wait s5 =
    (if is_some (r_ack_number r) then false else s_syn_unacked_in_fin_wait s).
Proof.
  intros cx s r al wu s5 tg H. unfold tcp_process_dup_ack in H.
  destruct (r_ack_number r) as [a|]; [|inversion H; subst; auto].
  obind_inv H. destruct a0 as (q, tq).
  assert (Hq : s_timer q = s_timer s \/ s_timer q = TFastRetransmit).
  { clear H. match type of E with (if ?b then _ else _) = _ => destruct b end.
    - obind_inv E. inversion E; subst q tq.
      match goal with |- context [if ?b then upd_timer _ TFastRetransmit else _] => destruct b end;
        sproj; auto.
    - obind_inv E. obind_inv E. obind_inv E. inversion E; subst q tq.
      destruct (s_local_rx_dup_acks s >? 0); sproj; auto. }
  clear E. sproj in H.
  destruct (seq_lt (s_remote_last_seq q) a); inversion H; subst; sproj; auto.
Qed.

Lemma timers_sv : forall cx s al aall,
  let s6 := fst (tcp_process_timers cx s al aall) in
  s_syn_unacked_in_fin_wait s6 = s_syn_unacked_in_fin_wait s.
Proof.
  intros. unfold s6, tcp_process_timers.
  destruct (s_timer s); try destruct aall; try destruct (al >? 0); cbn [fst]; sproj; reflexivity.
Qed.

Lemma zwp_sv : forall cx s al,
  let s7 := fst (tcp_process_zwp cx s al) in
  s_syn_unacked_in_fin_wait s7 = s_syn_unacked_in_fin_wait s.
Proof.
  intros. unfold s7, tcp_process_zwp.
  destruct ((s_remote_win_len s =? 0) && negb (rb_is_empty (s_tx_buffer s))
            && (timer_is_idle (s_timer s) || (al >? 0))); sproj;
  match goal with |- context [if ?b && ?c then _ else _] => destruct (b && c) end; sproj;
  try destruct (negb (s_remote_last_seq s =? s_local_seq_no s)); cbn [fst]; sproj; reflexivity.
Qed.

Lemma payload_sv : forall cx s ip r payload off s8 reply tg,
  tcp_process_payload cx s ip r payload off = Ok (s8, reply, tg) -> sv_same s s8.
Proof.
  intros cx s ip r payload off s8 reply tg H. unfold tcp_process_payload in H.
  destruct (l_len payload =? 0); [inversion H; subst; apply sv_same_refl|].
  destruct (asm_atrf _ _ _ _) as (asm', res).
  destruct res as [contig|]; [|inversion H; subst; apply sv_same_refl].
  destruct (rb_write_unallocated _ _ _) as (rx, lw).
  destruct (negb (lw =? l_len payload)); [discriminate|].
  obind_inv H.
  set (q := upd_rx_buffer (upd_assembler s asm') a) in *.
  assert (Cq : sv_same s q) by (unfold q; sv_triv). clearbody q.
  match type of H with (let '(_, _) := ?m in _) = _ =>
    assert (Cm : sv_same q (fst m)); [|destruct m as (q1, t1)] end.
  { destruct (s_ack_delay q); [|apply sv_same_refl].
    destruct (tcp_ack_to_transmit q); [|apply sv_same_refl].
    destruct (s_ack_delay_timer q); try apply sv_same_refl; cbn [fst]; try sv_triv.
    destruct (tcp_immediate_ack_to_transmit q); cbn [fst]; [sv_triv | apply sv_same_refl]. }
  cbn [fst] in Cm.
  destruct (negb (asm_is_empty (s_assembler q1)) || negb (asm_is_empty (s_assembler s))).
  - pose proof (ack_reply_sv cx q1 ip r) as Ca. destruct (tcp_ack_reply cx q1 ip r) as (q2, p).
    inversion H; subst s8. cbn [fst] in Ca.
    eapply sv_same_trans; [exact Cq|]. eapply sv_same_trans; [exact Cm | exact Ca].
  - inversion H; subst s8. eapply sv_same_trans; [exact Cq | exact Cm].
Qed.

(* ------------------------------------------------------------------------------------------ *)
(* the two timer phases and the probe timer                                                     *)
(* ------------------------------------------------------------------------------------------ *)
Lemma timers_fn_zwp : forall t now ka rto al aall e d,
  timers_fn t now ka rto al aall = TZeroWindowProbe e d -> t = TZeroWindowProbe e d.
Proof.
  intros t now ka rto al aall e d H. unfold timers_fn in H.
  destruct t; try destruct aall; try destruct (al >? 0); cbn in H; try discriminate; auto.
Qed.

Lemma zwp_fn_zwp : forall t now ka rto al w len fl e d,
  zwp_fn t now ka rto al w len fl = TZeroWindowProbe e d ->
  len <> 0 /\ (d = rto \/ t = TZeroWindowProbe e d).
Proof.
  intros t now ka rto al w len fl e d H. unfold zwp_fn in H.
  destruct (Z.eqb_spec w 0); destruct (Z.eqb_spec len 0); cbn [negb andb orb] in H.
  - destruct (timer_is_zero_window_probe t) eqn:Ez; [destruct fl; cbn in H; discriminate|].
    rewrite H in Ez. discriminate.
  - destruct (timer_is_idle t || (al >? 0)).
    + cbn in H. inversion H. auto.
    + cbn [andb] in H. auto.
  - destruct (timer_is_zero_window_probe t) eqn:Ez; [destruct fl; cbn in H; discriminate|].
    rewrite H in Ez. discriminate.
  - destruct (timer_is_zero_window_probe t) eqn:Ez; [destruct fl; cbn in H; discriminate|].
    rewrite H in Ez. discriminate.
Qed.

Theorem process_sinv13 : forall cx s ip r s' reply tags,
  TcpLiveProofs.ctx_ok cx -> seg_ok r -> tcp_live_inv s -> sinv13 s ->
  tcp_process cx s ip r = Ok (s', reply, tags) -> sinv13 s'.
Proof.
  intros cx s ip r s' reply tags Hcx Hseg I S H.
  pose proof (process_inv _ _ _ _ _ _ _ Hcx Hseg I H) as I'.
  unfold tcp_process in H.
  destruct (negb (tcp_accepts s ip r)); [discriminate|].
  obind_inv H. rename a into p1. rename E into H1.
  pose proof (ack_check_sv _ _ _ _ _ H1) as A1.
  destruct p1 as [t1 []|t1 s1 rep1].
  2:{ inversion H; subst s'. exact (sinv13_same _ _ A1 S). }
  obind_inv H. rename a into p2. rename E into H2.
  pose proof (process_window_spec _ _ _ _ _ H2 I) as P2.
  pose proof (window_sv _ _ _ _ _ H2) as A2.
  destruct p2 as [t2 ((s2, payload), off)|t2 s2r rep2].
  2:{ inversion H; subst s'. destruct A2 as (E1 & E2 & E3 & E4). destruct S as (Sz & Sf).
      unfold sinv13, zwp_ok, synfw_ok in *. rewrite E1, E2, E3. split; [|exact Sf].
      destruct E4 as [-> | E4]; [exact Sz|]. destruct (s_timer s2r); try discriminate. exact Logic.I. }
  pose proof (inv_core_eq _ _ P2 I) as I2.
  pose proof (sinv13_same _ _ A2 S) as S2. destruct A2 as (Est2 & Etm2 & Etx2 & Efw2).
  obind_inv H. destruct a as ((al, aof), aall). rename E into Hal.
  obind_inv H. rename a into p3. rename E into H3.
  destruct p3 as [t3 s3|t3 s3r rep3].
  2:{ inversion H; subst s'. exact (transition_ret_sinv13 _ _ _ _ _ _ _ _ _ _ H3 S2). }
  destruct (transition_cont _ _ _ _ _ _ _ _ _ H3 (inv_weak _ I2) Hcx Hseg) as (W3 & _).
  destruct (transition_cont_sv _ _ _ _ _ _ _ _ _ H3) as (Etx3 & Efw3 & Hnrst & Etm3).
  obind_inv H. destruct a as (s4, wu). rename E into H4.
  destruct (update_remote_spec _ _ _ _ _ _ H4 W3 Hseg) as (W4 & _).
  destruct (update_remote_sv _ _ _ _ _ _ H4) as (Etm4 & Efw4 & _).
  obind_inv H. destruct a as (s5, t5). rename E into H5.
  destruct (dup_ack_spec _ _ _ _ _ _ _ H5 W4 Hseg) as (W5 & _).
  destruct (dup_ack_sv _ _ _ _ _ _ _ H5) as (Etm5 & Efw5).
  set (q5 := match r_timestamp r with
             | Some (tsval, _) => upd_last_remote_tsval s5 tsval
             | None => s5
             end) in *.
  assert (Cq : s_timer q5 = s_timer s5 /\ s_rtte q5 = s_rtte s5 /\
               s_syn_unacked_in_fin_wait q5 = s_syn_unacked_in_fin_wait s5).
  { unfold q5. destruct (r_timestamp r) as [(tv, te)|]; sproj; auto. }
  destruct Cq as (D2 & D10 & Dfw). clearbody q5.
  pose proof (rtte_timeout_bounds _ (wi_rtte s5 W5)) as Hr.
  pose proof (timers_spec cx q5 al aall) as P6. pose proof (timers_sv cx q5 al aall) as Q6.
  destruct (tcp_process_timers cx q5 al aall) as (s6, t6). cbn [fst] in P6, Q6. cbv zeta in Q6.
  cbn [fst] in Q6.
  destruct P6 as ((_ & _ & F3 & _ & _ & _ & _ & _ & F9 & _) & Ft6).
  pose proof (zwp_spec cx s6 al) as P7. pose proof (zwp_sv cx s6 al) as Q7.
  destruct (tcp_process_zwp cx s6 al) as (s7, t7). cbn [fst] in P7, Q7. cbv zeta in Q7.
  cbn [fst] in Q7.
  destruct P7 as ((_ & _ & G3 & _) & Ft7).
  obind_inv H. destruct a as ((s8, rep8), t8). rename E into H8.
  destruct (payload_sv _ _ _ _ _ _ _ _ _ H8) as (C1 & C2 & C3 & C4).
  inversion H; subst s'. clear H.
  split.
  - (* the probe timer *)
    unfold zwp_ok. rewrite C2, C3.
    destruct (s_timer s7) as [k|e| |e d|e] eqn:Et7; try exact Logic.I.
    symmetry in Ft7. destruct (zwp_fn_zwp _ _ _ _ _ _ _ _ _ _ Ft7) as (Hlen & Hd).
    pose proof (li_tx _ I') as (Hl0 & _). rewrite C3, G3 in Hl0. rewrite G3.
    split; [|lia].
    destruct Hd as [-> | Hd]; [rewrite F9, D10; apply Hr|].
    rewrite Ft6 in Hd. apply timers_fn_zwp in Hd. rewrite D2 in Hd.
    destruct Etm5 as [E5|E5]; rewrite E5 in Hd; [|discriminate].
    rewrite Etm4 in Hd.
    destruct Etm3 as [E3|[E3|E3]]; [|rewrite Hd in E3; discriminate|rewrite Hd in E3; discriminate].
    rewrite E3, Etm2 in Hd. destruct S as (Sz & _). unfold zwp_ok in Sz. rewrite Hd in Sz. apply Sz.
  - (* the SYN|ACK flag is cleared by any acknowledgement *)
    unfold synfw_ok. rewrite C4, Q7, Q6, Dfw, Efw5.
    destruct (is_some (r_ack_number r)) eqn:Eack; [discriminate|].
    rewrite Efw4, Efw3, Efw2. intros X. exfalso.
    destruct S as (_ & Sf). destruct (Sf X) as [Y|Y];
    destruct A1 as [A|[A|[A|A]]]; try congruence.
    + apply Hnrst. apply quash_rst. exact A.
    + apply Hnrst. apply quash_rst. exact A.
Qed.

Lemma ingress_sinv13 : forall cx s ip r s' reply tags,
  TcpLiveProofs.ctx_ok cx -> seg_ok r -> tcp_live_inv s -> sinv13 s ->
  iface_tcp_ingress cx s ip r = Ok (s', reply, tags) -> sinv13 s'.
Proof.
  intros cx s ip r s' reply tags Hcx Hseg I S H. unfold iface_tcp_ingress in H.
  destruct ((ip_src ip =? 0) || (ip_dst ip =? 0)); [inversion H; subst; exact S|].
  destruct ((r_src_port r =? 0) || (r_dst_port r =? 0)); [inversion H; subst; exact S|].
  destruct (tcp_accepts s ip r); [exact (process_sinv13 _ _ _ _ _ _ _ Hcx Hseg I S H)|].
  destruct (control_eqb (r_control r) CRst); [inversion H; subst; exact S|].
  obind_inv H. inversion H; subst; exact S.
Qed.

(* ------------------------------------------------------------------------------------------ *)
(* dispatch                                                                                     *)
(* ------------------------------------------------------------------------------------------ *)
Lemma dtimers_flag : forall cx s s1 tg,
  tcp_dispatch_timers cx s = Ok (s1, tg) ->
  s_syn_unacked_in_fin_wait s1 = s_syn_unacked_in_fin_wait s /\
  (s_state s1 = s_state s \/ s_state s1 = Closed).
Proof.
  intros cx s s1 tg H. unfold tcp_dispatch_timers in H. fold (dt_pre cx s) in H.
  assert (Q : s_syn_unacked_in_fin_wait (dt_pre cx s) = s_syn_unacked_in_fin_wait s /\
              s_state (dt_pre cx s) = s_state s).
  { unfold dt_pre. destruct (is_some (s_remote_last_ts s)); auto. }
  revert H Q. generalize (dt_pre cx s). intros q H (Q1 & Q2). rewrite <- Q1, <- Q2.
  destruct (tcp_timed_out q (cx_now cx)); [injection H as <- _; sproj; auto|].
  destruct (timer_should_retransmit (s_timer q) (cx_now cx)); [|injection H as <- _; auto].
  obind_inv H.
  destruct (s_timer q) as [k|e| |e d|e]; sproj in H;
    repeat match type of H with context [if ?b then _ else _] => destruct b end;
    injection H as <- _; sproj; auto.
Qed.

Lemma build_data_sv : forall cx s repr s3 o z tg,
  tcp_dispatch_build_data cx s repr = Ok (s3, o, z, tg) -> sv_same s s3.
Proof.
  intros cx s repr s3 o z tg H. unfold tcp_dispatch_build_data in H.
  obind_inv H. obind_inv H. obind_inv H. destruct a1 as ((((s', r'), off), zw), tg').
  injection H as <- _ _ _.
  destruct (s_pending_fast_retransmit s && (s_remote_win_len s >? 0)).
  - injection E1 as <- _ _ _ _. sv_triv.
  - obind_inv E1. obind_inv E1. obind_inv E1. injection E1 as <- _ _ _ _. apply sv_same_refl.
Qed.

Lemma build_sv : forall cx s t s3 o z k tg,
  tcp_dispatch_build cx s t = Ok (s3, o, z, k, tg) -> sv_same s s3.
Proof.
  intros cx s t s3 o z k tg H. unfold tcp_dispatch_build in H.
  obind_inv H. destruct a as (((sb, ob), zb), tb).
  assert (Hb : sv_same s sb).
  { destruct (s_state s); try (inversion E; subst; apply sv_same_refl);
      try (eapply build_data_sv; exact E).
    destruct (s_syn_unacked_in_fin_wait s);
      [inversion E; subst; apply sv_same_refl | eapply build_data_sv; exact E]. }
  destruct ob as [repr|].
  - obind_inv H. inversion H; subst. exact Hb.
  - inversion H; subst. exact Hb.
Qed.

Lemma finish_sinv13 : forall cx s3 r z k s' tg,
  tcp_dispatch_finish cx s3 r z k = (s', tg) -> sinv13 s3 -> sinv13 s'.
Proof.
  intros cx s3 r z k s' tg H (Sz & Sf).
  assert (Hzk : z = true \/ k = true \/ (z = false /\ k = false)) by (destruct z, k; auto).
  set (tk := timer_rewind_keep_alive (s_timer s3) (cx_now cx) (s_keep_alive s3)).
  assert (Htk : match tk with
                | TZeroWindowProbe e d => s_timer s3 = TZeroWindowProbe e d
                | _ => True end).
  { unfold tk. destruct (s_timer s3); cbn; auto. }
  destruct Hzk as [Hz|[Hz|(-> & ->)]].
  1, 2: (pose proof (finish_zk_fields cx s3 r z k s' tg ltac:(auto) H) as X; cbv zeta in X;
    destruct X as ((F1 & _ & _ & _ & _ & F6 & _ & _ & _ & F10 & _) & _ & _ & _ & _ & _ & Etm);
    fold tk in Etm; split;
    [ unfold zwp_ok in *; rewrite Etm, F1;
      destruct z;
      [ destruct tk as [a|a| |a d|a]; cbn [timer_rewind_zero_window_probe]; try exact I;
        rewrite Htk in Sz; pose proof max_rto_us_pos; split; [lia|apply Sz]
      | destruct tk as [a|a| |a d|a]; try exact I; rewrite Htk in Sz; exact Sz ]
    | unfold synfw_ok in *; rewrite F6, F10; exact Sf ]).
  pose proof (finish_n_fields cx s3 r s' tg H) as X. cbv zeta in X. fold tk in X.
  destruct X as ((F1 & _ & _ & _ & _ & F6 & _ & _ & _ & F10 & _) & _ & _ & _ & _ & _ & Etm).
  split.
  - unfold zwp_ok in *. rewrite Etm, F1.
    destruct ((repr_segment_len r >? 0) && negb (timer_is_retransmit tk)).
    + destruct tk; cbn; exact I.
    + destruct tk as [a|a| |a d|a]; try exact I. rewrite Htk in Sz. exact Sz.
  - unfold synfw_ok in *. rewrite F6, F10. exact Sf.
Qed.

Theorem dispatch_sinv13 : forall cx s e s' res tags,
  tcp_live_inv s -> sinv13 s -> tcp_dispatch cx s e = Ok (s', res, tags) -> sinv13 s'.
Proof.
  intros cx s e s' res tags I (Sz & Sf) H. unfold tcp_dispatch in H.
  destruct (s_tuple s) as [t|]; [|inversion H; subst; split; assumption].
  destruct (negb (tu_local_addr t =? cx_addr cx)); [inversion H; subst; apply reset_sinv13|].
  obind_inv H. destruct a as (s1, t1).
  destruct (dtimers_mine _ _ _ _ E (li_rtte s I) (li_tx s I) Sz) as (_ & Sz1).
  destruct (dtimers_flag _ _ _ _ E) as (Ef1 & Est1).
  assert (S1 : sinv13 s1).
  { split; [exact Sz1|]. unfold synfw_ok in *. rewrite Ef1. intros X. specialize (Sf X).
    destruct Est1 as [-> | ->]; auto. }
  obind_inv H. destruct a as ((s2, go), t2).
  assert (S2 : sinv13 s2).
  { destruct (decide_spec _ _ _ _ _ E0) as [(_ & ->) | [(_ & ->) | (_ & -> & _)]];
      [exact S1|apply closed_sinv13; exact S1|exact S1]. }
  destruct (negb go); [inversion H; subst; exact S2|].
  obind_inv H. destruct a as ((((s3, o), z), k), t3).
  pose proof (sinv13_same _ _ (build_sv _ _ _ _ _ _ _ _ E1) S2) as S3.
  destruct o as [repr|]; [|inversion H; subst; exact S3].
  destruct (negb e); [inversion H; subst; exact S3|].
  destruct (tcp_dispatch_finish cx s3 repr z k) as (s4, t4) eqn:E4. inversion H; subst.
  exact (finish_sinv13 _ _ _ _ _ _ _ E4 S3).
Qed.

(* ------------------------------------------------------------------------------------------ *)
(* API calls                                                                                    *)
(* ------------------------------------------------------------------------------------------ *)
Lemma reset_then_sinv13 : forall q, s_timer q = timer_new -> s_syn_unacked_in_fin_wait q = false ->
  sinv13 q.
Proof.
  intros q Ht Hf. unfold sinv13, zwp_ok, synfw_ok. rewrite Ht, Hf. split; [exact I|discriminate].
Qed.

Lemma listen_sinv13 : forall s ep s', sinv13 s -> tcp_listen s ep = Ok s' -> sinv13 s'.
Proof.
  intros s ep s' S H. unfold tcp_listen in H.
  destruct (le_port ep =? 0); [discriminate|].
  destruct (tcp_is_open s).
  - destruct (_ && _); [inversion H; subst; exact S|discriminate].
  - inversion H; subst s'.
    assert (Rt : s_timer (tcp_reset s) = timer_new) by (unfold tcp_reset; sproj; reflexivity).
    assert (Rf : s_syn_unacked_in_fin_wait (tcp_reset s) = false) by (unfold tcp_reset; sproj; reflexivity).
    revert Rt Rf. generalize (tcp_reset s). intros q Rt Rf. apply reset_then_sinv13; sproj; assumption.
Qed.

Lemma connect_sinv13 : forall cx s ra rp le s', sinv13 s ->
  tcp_connect cx s ra rp le = Ok s' -> sinv13 s'.
Proof.
  intros cx s ra rp le s' S H. unfold tcp_connect in H.
  destruct (tcp_is_open s); [discriminate|].
  destruct ((rp =? 0) || (ra =? 0)); [discriminate|].
  destruct (le_port le =? 0); [discriminate|].
  obind_inv H. inversion H; subst s'.
  assert (Rt : s_timer (tcp_reset s) = timer_new) by (unfold tcp_reset; sproj; reflexivity).
  assert (Rf : s_syn_unacked_in_fin_wait (tcp_reset s) = false) by (unfold tcp_reset; sproj; reflexivity).
  revert Rt Rf. generalize (tcp_reset s). intros q Rt Rf. apply reset_then_sinv13; sproj; assumption.
Qed.

Lemma close_sinv13 : forall s, sinv13 s -> sinv13 (tcp_close s).
Proof.
  intros s (Sz & Sf). unfold tcp_close, sinv13, zwp_ok, synfw_ok in *.
  destruct (s_state s) eqn:Est; sproj; rewrite ?Est; (split; [exact Sz|]); auto;
    intros X; specialize (Sf X); destruct Sf; discriminate.
Qed.

Lemma abort_sinv13 : forall s, sinv13 s -> sinv13 (tcp_abort s).
Proof.
  intros s (Sz & Sf). unfold tcp_abort, sinv13, zwp_ok, synfw_ok in *. sproj. split; [exact Sz|auto].
Qed.

Lemma send_slice_sinv13 : forall s data s' n,
  tcp_live_inv s -> sinv13 s -> tcp_send_slice s data = Ok (s', n) -> sinv13 s'.
Proof.
  intros s data s' n I (Sz & Sf) H. unfold tcp_send_slice in H.
  destruct (negb (tcp_may_send s)); [discriminate|].
  destruct (rb_enqueue_slice (s_tx_buffer s) data) as (tx, size) eqn:Eq.
  destruct (rb_enqueue_slice_spec _ _ _ _ (li_tx s I) Eq) as (_ & _ & Hlen & Hn & _).
  pose proof (li_tx s I) as (Hl0 & _).
  pose proof (rtte_timeout_bounds _ (li_rtte s I)) as Hr.
  (* the socket with the octets enqueued (and remote_last_ts possibly cleared) *)
  assert (Hq : forall q, s_timer q = s_timer s -> s_tx_buffer q = tx -> s_rtte q = s_rtte s ->
               s_state q = s_state s ->
               s_syn_unacked_in_fin_wait q = s_syn_unacked_in_fin_wait s -> sinv13 q).
  { intros q Q1 Q2 Q3 Q4 Q5. unfold sinv13, zwp_ok, synfw_ok in *. rewrite Q1, Q2, Q4, Q5.
    split; [|exact Sf]. destruct (s_timer s); try exact Logic.I. split; [apply Sz|].
    destruct Sz as (_ & Sl). lia. }
  destruct (Z.gtb_spec size 0) as [Hpos|Hnp].
  - set (q := if rb_len (s_tx_buffer s) =? 0
              then upd_remote_last_ts (upd_tx_buffer s tx) None else upd_tx_buffer s tx) in *.
    assert (Q : s_timer q = s_timer s /\ s_tx_buffer q = tx /\ s_rtte q = s_rtte s /\
                s_state q = s_state s /\
                s_syn_unacked_in_fin_wait q = s_syn_unacked_in_fin_wait s /\
                s_remote_win_len q = s_remote_win_len s).
    { unfold q. destruct (rb_len (s_tx_buffer s) =? 0); sproj; repeat split; reflexivity. }
    clearbody q. destruct Q as (Q1 & Q2 & Q3 & Q4 & Q5 & Q6).
    destruct ((s_remote_win_len q =? 0) && timer_is_idle (s_timer q)); inversion H; subst s' n.
    + unfold sinv13, zwp_ok, synfw_ok in *. sproj. rewrite Q2, Q3, Q4, Q5.
      cbn [timer_set_for_zero_window_probe]. split; [split; lia|exact Sf].
    + apply Hq; assumption.
  - inversion H; subst s' n. apply Hq; sproj; reflexivity.
Qed.

Lemma set_keep_alive_sinv13 : forall s d, sinv13 s -> sinv13 (tcp_set_keep_alive s d).
Proof.
  intros s d (Sz & Sf). unfold tcp_set_keep_alive, sinv13, zwp_ok, synfw_ok in *.
  destruct (is_some d); sproj; (split; [|exact Sf]); [|exact Sz].
  destruct (s_timer s) as [[k|]|e| |e dd|e]; cbn; auto.
Qed.

Theorem step_sinv13 : forall cx s ev s' out tags,
  TcpLiveProofs.ctx_ok cx -> ev_ok ev -> tcp_live_inv s -> sinv13 s ->
  tcp_step cx s ev = Ok (s', out, tags) -> sinv13 s'.
Proof.
  intros cx s ev s' out tags Hcx Hev I S H. destruct ev; cbn [tcp_step ev_ok] in *.
  - destruct (tcp_listen s ep) eqn:E; inversion H; subst; eauto using listen_sinv13.
  - destruct (tcp_connect cx s remote_addr remote_port local) eqn:E; inversion H; subst;
      eauto using connect_sinv13.
  - inversion H; subst. apply close_sinv13; exact S.
  - inversion H; subst. apply abort_sinv13; exact S.
  - destruct (tcp_send_slice s data) as [(s1, n)|e|] eqn:E; inversion H; subst;
      eauto using send_slice_sinv13.
  - destruct (tcp_recv_slice s n) as [(s1, l)|e|] eqn:E; [|inversion H; subst; exact S|discriminate].
    assert (X : sv_same s s1).
    { unfold tcp_recv_slice in E. obind_inv E.
      destruct (rb_dequeue_slice (s_rx_buffer s) n) as (rx, bytes). inversion E. sv_triv. }
    inversion H; subst. exact (sinv13_same _ _ X S).
  - destruct (tcp_peek s n); inversion H; subst; exact S.
  - destruct (tcp_peek_slice s n); inversion H; subst; exact S.
  - inversion H; subst. apply (sinv13_same s); [unfold tcp_set_timeout; sv_triv|exact S].
  - inversion H; subst. apply set_keep_alive_sinv13; exact S.
  - inversion H; subst. apply (sinv13_same s); [unfold tcp_set_ack_delay; sv_triv|exact S].
  - inversion H; subst. apply (sinv13_same s); [unfold tcp_set_nagle_enabled; sv_triv|exact S].
  - obind_inv H. inversion H; subst. unfold tcp_set_hop_limit in E.
    destruct h as [[|p|p]|]; inversion E; subst; apply (sinv13_same s); try sv_triv; exact S.
  - obind_inv H. destruct a as ((s1, reply), tg). inversion H; subst.
    exact (ingress_sinv13 _ _ _ _ _ _ _ Hcx Hev I S E).
  - obind_inv H. destruct a as ((s1, res), tg). inversion H; subst.
    exact (dispatch_sinv13 _ _ _ _ _ _ I S E).
Qed.

(* ------------------------------------------------------------------------------------------ *)
(* every reachable socket                                                                       *)
(* ------------------------------------------------------------------------------------------ *)
Lemma new_sinv13 : forall rx tx cc ts s, tcp_new rx tx cc ts = Ok s -> sinv13 s.
Proof.
  intros rx tx cc ts s H. unfold tcp_new in H. destruct (rb_cap (rb_new rx) >? 2 ^ 30); [discriminate|].
  inversion H; subst s. unfold sinv13, zwp_ok, synfw_ok. sproj. split; [exact I|discriminate].
Qed.

Lemma ctx_ok_weaken : forall cx, TcpSendInv.ctx_ok cx -> TcpLiveProofs.ctx_ok cx.
Proof. intros cx (H & _). exact H. Qed.

Lemma ev_ok_weaken : forall ev, tx_ev_ok ev -> ev_ok ev.
Proof.
  intros [] H; cbn in *; try exact I. destruct H as (_ & Ha & Hw & Hs).
  unfold seg_ok, u32. auto.
Qed.

(* the reachable sockets: created by tcp_new (sane congestion controller, transmit buffer of at
   most 2^30 octets) and driven by ANY sequence of API calls, parsed segments and dispatches, at
   any times, with or without a device that accepts the frames *)
Inductive burst_reach : socket -> Prop :=
| breach_new : forall rx tx cc ts s,
    cc_ok cc -> l_len tx <= 2 ^ 30 -> tcp_new rx tx cc ts = Ok s -> burst_reach s
| breach_step : forall cx s ev s' out tags,
    burst_reach s -> TcpSendInv.ctx_ok cx -> tx_ev_ok ev ->
    tcp_step cx s ev = Ok (s', out, tags) -> burst_reach s'.

Lemma rmss_of_inv : forall g s, inv g s -> rmss_ok s.
Proof. intros g s (_ & _ & (_ & _ & H & _)). exact H. Qed.

Theorem burst_reach_inv : forall s, burst_reach s ->
  tcp_live_inv s /\ (exists g, inv g s) /\ sinv s.
Proof.
  induction 1 as [rx tx cc ts s Hcc Hl H|cx s ev s' out tags R (IL & (g & IG) & IS) Hcx Hev H].
  - pose proof (TcpSendTrace.new_inv _ _ _ _ _ H Hl) as G.
    split; [exact (TcpLiveProofs.new_inv _ _ _ _ _ Hcc H)|]. split; [exists ghost0; exact G|].
    destruct (new_sinv13 _ _ _ _ _ H) as (A & B). split; [exact A|]. split; [|exact B].
    exact (rmss_of_inv _ _ G).
  - pose proof (step_inv _ _ _ _ _ _ (ctx_ok_weaken _ Hcx) (ev_ok_weaken _ Hev) IL H) as IL'.
    destruct (tx_step_inv _ _ _ _ _ _ _ IG Hcx Hev H) as (g' & IG' & _).
    destruct IS as (Sz & _ & Sf).
    destruct (step_sinv13 _ _ _ _ _ _ (ctx_ok_weaken _ Hcx) (ev_ok_weaken _ Hev) IL (conj Sz Sf) H)
      as (A & B).
    split; [exact IL'|]. split; [exists g'; exact IG'|]. split; [exact A|]. split; [|exact B].
    exact (rmss_of_inv _ _ IG').
Qed.

(* the burst theorems for reachable sockets: what remains are the receive-side arithmetic fact
   (below: it follows from C04's invariant) and the two user-settable hypotheses *)
Theorem burst_reach_binv : forall cx s,
  burst_reach s -> TcpSendInv.ctx_ok cx -> mtu_ok cx -> rx_ok s -> ka_pos s -> binv cx s.
Proof.
  intros cx s R Hcx Hm Hrx Hka. destruct (burst_reach_inv s R) as (A & B & C).
  unfold binv. auto 8.
Qed.

Theorem tcp_poll_egress_returns_reachable : forall fuel cx s budget s' sent tags fin,
  burst_reach s -> TcpSendInv.ctx_ok cx -> mtu_ok cx -> rx_ok s -> ka_pos s ->
  iface_poll_egress fuel cx s budget = Ok (s', sent, tags, fin) ->
  Z.of_nat (length sent) <= burst_bound cx s /\
  (burst_bound cx s < Z.of_nat fuel -> fin = true).
Proof.
  intros fuel cx s budget s' sent tags fin R Hcx Hm Hrx Hka H.
  destruct (tcp_poll_egress_returns _ _ _ _ _ _ _ _ (burst_reach_binv cx s R Hcx Hm Hrx Hka) H)
    as (A & B & C).
  split; [lia|exact C].
Qed.
