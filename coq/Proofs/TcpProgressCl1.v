(* C02 (liveness half), close, layer 1: THE CLOSING HANDSHAKE AT SOCKET LEVEL - what `process` does with the
   segment the peer of an orderly close sends: no payload, sequence number = RCV.NXT, acknowledging
   everything sent (the FIN included, when one was sent), control none or FIN.
     inorder_window     such a segment passes the window check untrimmed, whatever the advertised window
     inorder_ack_check  ... and the acknowledgment check;  inorder_ack_len: ack_len = 0, ack_of_fin = "a FIN was sent"
     ctl_tail           the phases of `process` after the transition table, for it: SND.UNA := ack number,
                        nothing replied, receive side untouched, the timer: a retransmission timer is
                        cleared when everything is acknowledged, TIME-WAIT's timer is kept
     process_ctl        the composition, up to the row of the transition table
     fin_received / ack_of_fin / fin_in_finwait2 / ack_in_last_ack
                        the four rows of the orderly close: ESTABLISHED + FIN -> CLOSE-WAIT (RCV.NXT + 1, ACK owed);
                        FIN-WAIT-1 + ACK of the FIN -> FIN-WAIT-2; FIN-WAIT-2 + FIN -> TIME-WAIT (timer 10 s, ACK
                        owed); LAST-ACK + ACK of the FIN -> CLOSED (tuple released)
   All statements are about Model/Tcp.v only. *)
From SV Require Import Lib.Base Gen.Consts.
From SV Require Import Model.Seq32 Model.Assembler Model.TcpBuf Model.TcpTypes Model.Tcp.
From SV Require Import Proofs.AssemblerProofs Proofs.TcpRecvBase Proofs.TcpRecvWindow
  Proofs.TcpRecvPayload Proofs.TcpRecvInv Proofs.TcpRecvProcess.
From SV Require Proofs.TcpSendBase Proofs.TcpRecvDispatch.
From SV Require Proofs.TcpLiveBase Proofs.TcpLiveProofs.
From SV Require Import Proofs.TcpProgressFrame Proofs.TcpProgressCtl Proofs.TcpProgressHs.

Module LP := TcpLiveProofs.

Notation sq := TcpSendBase.sq.

(* ---------------------------------------------------------------------------------------- *)
(* sequence arithmetic without magnitude hypotheses                                          *)
(* ---------------------------------------------------------------------------------------- *)
Lemma seq_gt_lt a b : seq_gt a b = true -> seq_lt b a = true.
Proof.
  unfold seq_gt, seq_lt, seq_sdiff, seq_modulus, seq_half.
  change (2 ^ 32) with 4294967296. change (2 ^ 31) with 2147483648.
  intros H.
  assert (Hd : 0 < (a - b) mod 4294967296 < 2147483648).
  { pose proof (Z.mod_pos_bound (a - b) 4294967296 ltac:(lia)).
    destruct (Z.ltb_spec ((a - b) mod 4294967296) 2147483648); lia. }
  replace (b - a) with (- (a - b)) by lia.
  rewrite Z_mod_nz_opp_full by lia.
  destruct (Z.ltb_spec (4294967296 - (a - b) mod 4294967296) 2147483648); lia.
Qed.

Lemma seq_gt_not_lt a b : seq_gt a b = true -> seq_lt a b = false.
Proof.
  unfold seq_gt, seq_lt. intros H. destruct (Z.ltb_spec (seq_sdiff a b) 0); [lia | reflexivity].
Qed.

Lemma seq_lt_refl a : seq_lt a a = false.
Proof. unfold seq_lt. rewrite seq_sdiff_refl. reflexivity. Qed.
Lemma seq_gt_refl a : seq_gt a a = false.
Proof. unfold seq_gt. rewrite seq_sdiff_refl. reflexivity. Qed.
Lemma seq_le_refl a : seq_le a a = true.
Proof. unfold seq_le. rewrite seq_sdiff_refl. reflexivity. Qed.
Lemma seq_sub_refl a : seq_sub a a = Ok 0.
Proof. unfold seq_sub. rewrite seq_sdiff_refl. reflexivity. Qed.

Lemma window_start_u32 s : 0 <= tcp_window_start s < 4294967296.
Proof. unfold tcp_window_start, seq_add, seq_modulus. change (2 ^ 32) with 4294967296. apply Z.mod_pos_bound. lia. Qed.

Lemma seq_add_0_u32 a : 0 <= a < 4294967296 -> seq_add a 0 = a.
Proof. intros H. unfold seq_add, seq_modulus. change (2 ^ 32) with 4294967296. rewrite Z.add_0_r. apply Z.mod_small. exact H. Qed.

Lemma subn1_ne a : 0 <= a < 4294967296 -> (a =? seq_subn a 1) = false.
Proof.
  intros H. apply Z.eqb_neq. unfold seq_subn, seq_modulus. change (2 ^ 32) with 4294967296.
  destruct (Z.eq_dec a 0) as [-> | Hn]; [cbn; lia|]. rewrite Z.mod_small by lia. lia.
Qed.

(* the advertised right edge is the left edge or beyond it *)
Lemma window_end_cases s :
  tcp_window_end s = tcp_window_start s \/ seq_gt (tcp_window_end s) (tcp_window_start s) = true.
Proof.
  unfold tcp_window_end. destruct (s_remote_last_ack s) as [la|]; [|left; reflexivity].
  unfold seq_max. destruct (seq_gt _ _) eqn:E; [right; exact E | left; reflexivity].
Qed.

(* ---------------------------------------------------------------------------------------- *)
(* the window check                                                                          *)
(* ---------------------------------------------------------------------------------------- *)
Lemma inorder_in_window ws we :
  0 <= ws < 4294967296 -> (we = ws \/ seq_gt we ws = true) ->
  exists tg, tcp_segment_in_window ws we ws ws = (true, tg).
Proof.
  intros Hu Hwe. unfold tcp_segment_in_window. rewrite Z.eqb_refl. cbn [andb].
  rewrite (subn1_ne ws Hu).
  destruct (Z.eqb_spec ws we) as [E | E].
  - cbn [andb]. eexists. reflexivity.
  - destruct Hwe as [-> | Hg]; [contradiction|]. cbn [andb].
    rewrite seq_le_refl, (seq_gt_lt _ _ Hg). eexists. reflexivity.
Qed.

Lemma slice_range_nil : slice_range [] 0 0 = Ok [].
Proof. reflexivity. Qed.

Lemma inorder_window cx s ip r :
  s_state s <> Listen -> s_state s <> SynSent ->
  r_payload r = [] -> r_seq_number r = tcp_window_start s ->
  exists tg, tcp_process_window cx s ip r =
             Ok (Cont tg (upd_local_rx_last_seq s (Some (r_seq_number r)), [], 0)).
Proof.
  intros N1 N2 Hp Hs. unfold tcp_process_window. rewrite Hp, Hs.
  change (l_len []) with 0. rewrite (seq_add_0_u32 _ (window_start_u32 s)).
  destruct (inorder_in_window _ _ (window_start_u32 s) (window_end_cases s)) as (tg & ->).
  assert (Hmax : seq_max (tcp_window_start s) (tcp_window_start s) = tcp_window_start s)
    by (unfold seq_max; rewrite seq_gt_refl; reflexivity).
  assert (Hmin : seq_min (tcp_window_end s) (tcp_window_start s) = tcp_window_start s).
  { unfold seq_min. destruct (window_end_cases s) as [-> | Hg]; [rewrite seq_lt_refl; reflexivity|].
    rewrite (seq_gt_not_lt _ _ Hg). reflexivity. }
  rewrite Hmax, Hmin, seq_le_refl. cbn [negb]. rewrite seq_sub_refl. cbn [obind].
  rewrite slice_range_nil. cbn [obind].
  exists tg. destruct (s_state s); try contradiction; reflexivity.
Qed.

(* the FIN of an in-order segment without payload is not quashed *)
Lemma inorder_quash s r :
  r_payload r = [] -> r_seq_number r = tcp_window_start s ->
  tcp_process_quash s r = quash_psh (r_control r).
Proof.
  intros Hp Hs. unfold tcp_process_quash. rewrite Hp, Hs. change (l_len []) with 0.
  rewrite (seq_add_0_u32 _ (window_start_u32 s)), seq_lt_refl. cbn [orb].
  destruct (window_end_cases s) as [-> | Hg]; [rewrite seq_lt_refl | rewrite (seq_gt_not_lt _ _ Hg)];
    rewrite andb_false_r; reflexivity.
Qed.

(* ---------------------------------------------------------------------------------------- *)
(* the acknowledgment check and ack_len                                                      *)
(* ---------------------------------------------------------------------------------------- *)
(* the states of a synchronised connection that has not been reset *)
Definition st_sync (st : tcp_state) : Prop :=
  match st with Closed | Listen | SynSent | SynReceived => False | _ => True end.

Definition ctl_plain (c : control) : Prop := c = CNone \/ c = CPsh \/ c = CFin.

Lemma sent_syn_sync s : st_sync (s_state s) -> s_syn_unacked_in_fin_wait s = false -> tcp_sent_syn s = false.
Proof. unfold tcp_sent_syn. intros H Hs. destruct (s_state s); try contradiction; try reflexivity. exact Hs. Qed.

Lemma seq_cmp_off_lt a i j : - 2 ^ 31 <= i - j < 2 ^ 31 -> seq_lt (seq_add a i) (seq_add a j) = (i <? j).
Proof. intros H. rewrite !TcpSendBase.seq_add_raw. apply TcpSendBase.seq_lt_sq. exact H. Qed.
Lemma seq_cmp_off_gt a i j : - 2 ^ 31 <= i - j < 2 ^ 31 -> seq_gt (seq_add a i) (seq_add a j) = (i >? j).
Proof. intros H. rewrite !TcpSendBase.seq_add_raw. apply TcpSendBase.seq_gt_sq. exact H. Qed.
Lemma seq_cmp_off_ge a i j : - 2 ^ 31 <= i - j < 2 ^ 31 -> seq_ge (seq_add a i) (seq_add a j) = (i >=? j).
Proof. intros H. rewrite !TcpSendBase.seq_add_raw. apply TcpSendBase.seq_ge_sq. exact H. Qed.
Lemma seq_cmp_off_sub a i j : - 2 ^ 31 <= i - j < 2 ^ 31 ->
  seq_sub (seq_add a i) (seq_add a j) = if i <? j then Panic else Ok (i - j).
Proof. intros H. rewrite !TcpSendBase.seq_add_raw. apply TcpSendBase.seq_sub_sq. exact H. Qed.

Lemma b2z_01 b : 0 <= b2z b <= 1.
Proof. destruct b; cbn; lia. Qed.

Lemma inorder_ack_check cx s ip r :
  st_sync (s_state s) -> s_syn_unacked_in_fin_wait s = false -> rb_len (s_tx_buffer s) = 0 ->
  ctl_plain (r_control r) ->
  r_ack_number r = Some (seq_add (s_local_seq_no s) (b2z (tcp_sent_fin s))) ->
  tcp_process_ack_check cx s ip r = Ok (Cont 116 tt).
Proof.
  intros Hst Hsuf Htx Hc Ha. unfold tcp_process_ack_check. rewrite Ha.
  rewrite (sent_syn_sync s Hst Hsuf), Htx. cbn [b2z]. rewrite !Z.add_0_l.
  pose proof (b2z_01 (tcp_sent_fin s)) as Hb.
  rewrite seq_cmp_off_lt by (change (2 ^ 31) with 2147483648; lia).
  rewrite seq_cmp_off_gt by (change (2 ^ 31) with 2147483648; lia).
  replace (b2z (tcp_sent_fin s) <? 0) with false by (symmetry; apply Z.ltb_ge; lia).
  rewrite Z.gtb_ltb, Z.ltb_irrefl.
  destruct (s_state s); try contradiction; destruct Hc as [-> | [-> | ->]]; reflexivity.
Qed.

Lemma inorder_ack_len s r :
  st_sync (s_state s) -> s_syn_unacked_in_fin_wait s = false -> rb_len (s_tx_buffer s) = 0 ->
  ctl_plain (r_control r) ->
  r_ack_number r = Some (seq_add (s_local_seq_no s) (b2z (tcp_sent_fin s))) ->
  tcp_process_ack_len s r =
    Ok (0, tcp_sent_fin s, seq_le (s_remote_last_seq s) (seq_add (s_local_seq_no s) (b2z (tcp_sent_fin s)))).
Proof.
  intros Hst Hsuf Htx Hc Ha. unfold tcp_process_ack_len. rewrite Ha.
  assert (Hnr : control_eqb (r_control r) CRst = false) by (destruct Hc as [-> | [-> | ->]]; reflexivity).
  rewrite Hnr, (sent_syn_sync s Hst Hsuf), Htx. cbn [b2z].
  pose proof (b2z_01 (tcp_sent_fin s)) as Hb.
  rewrite seq_cmp_off_ge by (change (2 ^ 31) with 2147483648; lia).
  replace (b2z (tcp_sent_fin s) >=? 0) with true by (symmetry; apply Z.geb_le; lia).
  rewrite seq_cmp_off_sub by (change (2 ^ 31) with 2147483648; lia).
  replace (b2z (tcp_sent_fin s) <? 0) with false by (symmetry; apply Z.ltb_ge; lia).
  cbn [obind]. rewrite Z.sub_0_r.
  destruct (tcp_sent_fin s); cbn [b2z andb]; reflexivity.
Qed.

(* ---------------------------------------------------------------------------------------- *)
(* the phases after the transition table                                                     *)
(* ---------------------------------------------------------------------------------------- *)
(* pending_fast_retransmit is kept, the RTO stays at or above its minimum *)
Definition xpf (s' s : socket) : Prop :=
  s_pending_fast_retransmit s' = s_pending_fast_retransmit s /\
  (tcp_RTTE_MIN_RTO <= rt_rto (s_rtte s) -> tcp_RTTE_MIN_RTO <= rt_rto (s_rtte s')) /\
  (s_syn_unacked_in_fin_wait s = false -> s_syn_unacked_in_fin_wait s' = false).

Lemma xpf_refl s : xpf s s.
Proof. split; [reflexivity | auto]. Qed.
Lemma xpf_trans a b c : xpf a b -> xpf b c -> xpf a c.
Proof. intros (A1 & A2 & A3) (B1 & B2 & B3). split; [congruence | auto]. Qed.

Ltac xpf_solve :=
  unfold xpf; rproj; split; [reflexivity | split; [intros Hlb; exact Hlb | first [intros Hsf; exact Hsf | intros _; reflexivity]]].

Lemma rtte_sample_lb r x r' : rtte_sample r x = Ok r' -> tcp_RTTE_MIN_RTO <= rt_rto r'.
Proof.
  unfold rtte_sample. intros H.
  apply obind_ok_inv in H. destruct H as ((sv & rv) & _ & H).
  apply obind_ok_inv in H. destruct H as (m & _ & H).
  apply obind_ok_inv in H. destruct H as (y & _ & H).
  inversion H; subst. cbn [rt_rto].
  destruct (Z.ltb_spec y tcp_RTTE_MIN_RTO); [lia|].
  destruct (Z.gtb_spec y tcp_RTTE_MAX_RTO); [vm_compute; discriminate | lia].
Qed.

Lemma rtte_on_ack_lb r t a r' :
  rtte_on_ack r t a = Ok r' -> tcp_RTTE_MIN_RTO <= rt_rto r -> tcp_RTTE_MIN_RTO <= rt_rto r'.
Proof.
  unfold rtte_on_ack. intros H Hlb.
  destruct (rt_timestamp r) as [(st0, sq0)|]; [|inversion H; subst; exact Hlb].
  destruct (seq_ge a sq0); [|inversion H; subst; exact Hlb].
  apply obind_ok_inv in H. destruct H as (r1 & H1 & H). inversion H; subst. cbn [rt_rto].
  exact (rtte_sample_lb _ _ _ H1).
Qed.

Lemma update_remote_xpf cx s r al s' iwu :
  tcp_process_update_remote cx s r al = Ok (s', iwu) -> xpf s' s.
Proof.
  unfold tcp_process_update_remote. intros H. des_all H.
  all: try (apply obind_ok_inv in H; destruct H as (tx & _ & H)).
  all: inversion H; subst; xpf_solve.
Qed.

Lemma dup_ack_xpf cx s r al iwu s' tg :
  tcp_process_dup_ack cx s r al iwu = Ok (s', tg) -> xpf s' s.
Proof.
  unfold tcp_process_dup_ack. intros H.
  destruct (r_ack_number r) as [a|]; [|inversion H; subst; apply xpf_refl].
  apply obind_ok_inv in H. destruct H as ((s1, tg1) & H1 & H).
  assert (Hf1 : xpf s1 s).
  { des1 H1.
    - repeat (apply obind_ok_inv in H1; destruct H1 as (? & _ & H1)).
      inversion H1; subst. des_all H1; xpf_solve.
    - apply obind_ok_inv in H1. destruct H1 as (rt' & Hrt & H1).
      repeat (apply obind_ok_inv in H1; destruct H1 as (? & _ & H1)).
      inversion H1; subst. pose proof (rtte_on_ack_lb _ _ _ _ Hrt) as Hm. revert Hm. rproj. intros Hm.
      des_all H1; unfold xpf; rproj; (split; [reflexivity | split; [exact Hm | intros Hsf; exact Hsf]]). }
  cbv beta iota zeta in H.
  eapply xpf_trans; [|exact Hf1].
  des_all H; inversion H; subst; xpf_solve.
Qed.

Lemma timers_xpf cx s al aall : xpf (fst (tcp_process_timers cx s al aall)) s.
Proof.
  unfold tcp_process_timers. destruct (s_timer s); try destruct aall; try destruct (al >? 0);
    cbn [fst]; xpf_solve.
Qed.

Lemma zwp_xpf cx s al : xpf (fst (tcp_process_zwp cx s al)) s.
Proof.
  unfold tcp_process_zwp.
  repeat match goal with
  | |- context [if ?c then _ else _] => destruct c
  end; cbn [fst]; xpf_solve.
Qed.

Lemma tsval_xpf s r :
  xpf (match r_timestamp r with Some (tsval, _) => upd_last_remote_tsval s tsval | None => s end) s.
Proof. destruct (r_timestamp r) as [(a, b)|]; xpf_solve. Qed.

(* the timer after the two timer phases, when nothing is queued and no keep-alive is configured *)
Definition ctl_timer (t : timer) (aall : bool) : timer :=
  match t with
  | TRetransmit _ | TFastRetransmit => if aall then TIdle None else t
  | TIdle _ => TIdle None
  | _ => t
  end.

Lemma update_remote_timer cx s r al s' iwu :
  tcp_process_update_remote cx s r al = Ok (s', iwu) ->
  s_timer s' = s_timer s /\ s_keep_alive s' = s_keep_alive s /\ (al <= 0 -> s_tx_buffer s' = s_tx_buffer s).
Proof.
  unfold tcp_process_update_remote. intros H.
  destruct (Z.gtb_spec al 0) as [G | G].
  - destruct (negb _); [discriminate|].
    apply obind_ok_inv in H; destruct H as (tx & _ & H).
    inversion H; subst; rproj. split; [reflexivity|]. split; [reflexivity|]. intros; lia.
  - inversion H; subst; rproj. repeat split; reflexivity.
Qed.

Lemma dup_ack_timer cx s r al wu s5 tg :
  tcp_process_dup_ack cx s r al wu = Ok (s5, tg) -> rb_len (s_tx_buffer s) = 0 ->
  s_timer s5 = s_timer s /\ s_keep_alive s5 = s_keep_alive s /\ s_tx_buffer s5 = s_tx_buffer s /\
  s_remote_win_len s5 = s_remote_win_len s.
Proof.
  intros H Htx. unfold tcp_process_dup_ack in H.
  assert (Hemp : rb_is_empty (s_tx_buffer s) = true) by (unfold rb_is_empty; rewrite Htx; reflexivity).
  destruct (r_ack_number r) as [a|]; [|inversion H; auto].
  apply obind_ok_inv in H. destruct H as ((q, tq) & E & H).
  assert (Eq : s_timer q = s_timer s /\ s_keep_alive q = s_keep_alive s /\ s_tx_buffer q = s_tx_buffer s /\
               s_remote_win_len q = s_remote_win_len s).
  { match type of E with (if ?b then _ else _) = _ => destruct b end.
    - revert E. rproj. rewrite Hemp, andb_false_r. intros E.
      apply obind_ok_inv in E. destruct E as (fl & _ & E). inversion E; subst q. rproj. auto.
    - repeat (apply obind_ok_inv in E; destruct E as (? & _ & E)). inversion E; subst q. rproj.
      destruct (s_local_rx_dup_acks s >? 0); rproj; auto. }
  destruct Eq as (Q1 & Q2 & Q3 & Q4).
  inversion H; subst s5; clear H.
  repeat match goal with |- context [if ?b then _ else _] => destruct b end; rproj; auto.
Qed.

(* after the transition table, for a segment without payload whose ACK takes nothing out of the (empty)
   transmit queue *)
Lemma ctl_tail cx s3 ip r aall s' rep tags t0 :
  rb_len (s_tx_buffer s3) = 0 -> s_keep_alive s3 = None ->
  (do ur <- tcp_process_update_remote cx s3 r 0;
   let '(s4, is_window_update) := ur in
   do da <- tcp_process_dup_ack cx s4 r 0 is_window_update;
   let '(s5, t5) := da in
   let s5 := match r_timestamp r with
             | Some (tsval, _) => upd_last_remote_tsval s5 tsval
             | None => s5
             end in
   let '(s6, t6) := tcp_process_timers cx s5 0 aall in
   let '(s7, t7) := tcp_process_zwp cx s6 0 in
   do pr <- tcp_process_payload cx s7 ip r [] 0;
   let '(s8, reply, t8) := pr in
   Ok (s8, reply, t0 ++ [t5; t6; t7; t8])) = Ok (s', rep, tags) ->
  rep = None /\ stf s' s3 /\ s_tx_buffer s' = s_tx_buffer s3 /\ rxv_eq s' s3 /\ auxf s' s3 /\ xpf s' s3 /\
  match r_ack_number r with
  | None => s_local_seq_no s' = s_local_seq_no s3 /\ s_remote_last_seq s' = s_remote_last_seq s3
  | Some a => s_local_seq_no s' = a /\
              s_remote_last_seq s' = (if seq_lt (s_remote_last_seq s3) a then a else s_remote_last_seq s3)
  end /\
  s_timer s' = LP.zwp_fn (ctl_timer (s_timer s3) aall) (cx_now cx) None
                         (rtte_retransmission_timeout (s_rtte s')) 0 (s_remote_win_len s') 0
                         (negb (s_remote_last_seq s' =? s_local_seq_no s')).
Proof.
  intros Htx Hka H.
  destruct (process_tail cx s3 ip r 0 aall [] 0 s' rep tags t0 ltac:(lia) H) as (T1 & T2 & T3 & T4 & T5 & _).
  destruct (T5 eq_refl) as (T5a & _).
  apply obind_ok_inv in H. destruct H as ((s4 & wu) & H4 & H).
  pose proof (update_remote_frame _ _ _ _ _ _ H4) as F4.
  pose proof (update_remote_auxf _ _ _ _ _ _ H4) as A4.
  pose proof (update_remote_xpf _ _ _ _ _ _ H4) as X4.
  destruct (update_remote_timer _ _ _ _ _ _ H4) as (M4 & K4 & B4). specialize (B4 ltac:(lia)).
  apply obind_ok_inv in H. destruct H as ((s5 & t5) & H5 & H).
  pose proof (dup_ack_frame _ _ _ _ _ _ _ H5) as F5.
  pose proof (dup_ack_auxf _ _ _ _ _ _ _ H5) as A5.
  pose proof (dup_ack_xpf _ _ _ _ _ _ _ H5) as X5.
  destruct (dup_ack_timer _ _ _ _ _ _ _ H5 ltac:(rewrite B4; exact Htx)) as (M5 & K5 & B5 & W5).
  pose proof (tsval_frame s5 r) as F5'. pose proof (tsval_auxf s5 r) as A5'. pose proof (tsval_xpf s5 r) as X5'.
  set (q5 := match r_timestamp r with
             | Some (tsval, _) => upd_last_remote_tsval s5 tsval
             | None => s5
             end) in *.
  assert (Cq : s_timer q5 = s_timer s5 /\ s_keep_alive q5 = s_keep_alive s5 /\ s_tx_buffer q5 = s_tx_buffer s5)
    by (unfold q5; destruct (r_timestamp r) as [(tv, te)|]; rproj; auto).
  destruct Cq as (M5' & K5' & B5'). clearbody q5. cbv zeta in H.
  pose proof (timers_frame cx q5 0 aall) as F6. pose proof (timers_auxf cx q5 0 aall) as A6.
  pose proof (timers_xpf cx q5 0 aall) as X6.
  pose proof (LP.timers_spec cx q5 0 aall) as P6.
  destruct (tcp_process_timers cx q5 0 aall) as (s6, t6). cbn [fst] in F6, A6, X6, P6.
  destruct P6 as (C6 & M6).
  pose proof (zwp_frame cx s6 0) as F7. pose proof (zwp_auxf cx s6 0) as A7. pose proof (zwp_xpf cx s6 0) as X7.
  pose proof (LP.zwp_spec cx s6 0) as P7.
  destruct (tcp_process_zwp cx s6 0) as (s7, t7). cbn [fst] in F7, A7, X7, P7.
  destruct P7 as (C7 & M7).
  rewrite payload_nil in H. cbn [obind] in H. inversion H; subst s' rep tags; clear H.
  split; [reflexivity|]. split; [exact T1|]. split; [exact T2|].
  pose proof (frame_trans _ _ _ F7 (frame_trans _ _ _ F6 (frame_trans _ _ _ F5' (frame_trans _ _ _ F5 F4)))) as (E & _).
  split; [exact E|].
  split; [exact (auxf_trans _ _ _ A7 (auxf_trans _ _ _ A6 (auxf_trans _ _ _ A5' (auxf_trans _ _ _ A5 A4))))|].
  split; [exact (xpf_trans _ _ _ X7 (xpf_trans _ _ _ X6 (xpf_trans _ _ _ X5' (xpf_trans _ _ _ X5 X4))))|].
  split; [exact T4|].
  rewrite M7, M6, M5', M5, M4, K5', K5, K4, Hka.
  assert (Ht : LP.timers_fn (s_timer s3) (cx_now cx) None (rtte_retransmission_timeout (s_rtte q5)) 0 aall
               = ctl_timer (s_timer s3) aall).
  { unfold LP.timers_fn, ctl_timer. destruct (s_timer s3); try reflexivity; destruct aall; reflexivity. }
  rewrite Ht.
  assert (Hk6 : s_keep_alive s6 = None).
  { destruct A6 as ((_ & _ & K) & _). rewrite K, K5', K5, K4. exact Hka. }
  rewrite Hk6.
  assert (Htx6 : rb_len (s_tx_buffer s6) = 0).
  { destruct C6 as (_ & _ & Z1 & _). rewrite Z1, B5', B5, B4. exact Htx. }
  rewrite Htx6.
  destruct C7 as (_ & _ & _ & Y5 & Y6 & Y7 & _ & _ & Y10 & _).
  rewrite <- Y5, <- Y6, <- Y7, <- Y10. reflexivity.
Qed.

Lemma zwp_fn_len0 t now ka rto al w fl :
  timer_is_zero_window_probe t = false -> LP.zwp_fn t now ka rto al w 0 fl = t.
Proof.
  intros H. unfold LP.zwp_fn. change (0 =? 0) with true. cbn [negb]. rewrite !andb_false_r. cbn [andb].
  rewrite H, andb_false_r. reflexivity.
Qed.

(* ---------------------------------------------------------------------------------------- *)
(* process, up to the row of the transition table                                            *)
(* ---------------------------------------------------------------------------------------- *)
Theorem process_ctl cx s ip r s' rep tags :
  st_sync (s_state s) -> s_syn_unacked_in_fin_wait s = false -> rb_len (s_tx_buffer s) = 0 ->
  s_keep_alive s = None ->
  ctl_plain (r_control r) -> r_payload r = [] -> r_seq_number r = tcp_window_start s ->
  r_ack_number r = Some (seq_add (s_local_seq_no s) (b2z (tcp_sent_fin s))) ->
  tcp_process cx s ip r = Ok (s', rep, tags) ->
  let s2 := upd_local_rx_last_seq s (Some (r_seq_number r)) in
  let a := seq_add (s_local_seq_no s) (b2z (tcp_sent_fin s)) in
  let aall := seq_le (s_remote_last_seq s) a in
  exists p3, tcp_process_transition cx s2 ip r (quash_psh (r_control r)) 0 (tcp_sent_fin s) = Ok p3 /\
    match p3 with
    | Ret _ s1 rp => s' = s1 /\ rep = rp
    | Cont _ s3 =>
        (rb_len (s_tx_buffer s3) = 0 -> s_keep_alive s3 = None ->
         rep = None /\ stf s' s3 /\ s_tx_buffer s' = s_tx_buffer s3 /\ rxv_eq s' s3 /\ auxf s' s3 /\ xpf s' s3 /\
         s_local_seq_no s' = a /\
         s_remote_last_seq s' = (if seq_lt (s_remote_last_seq s3) a then a else s_remote_last_seq s3) /\
         s_timer s' = LP.zwp_fn (ctl_timer (s_timer s3) aall) (cx_now cx) None
                                (rtte_retransmission_timeout (s_rtte s')) 0 (s_remote_win_len s') 0
                                (negb (s_remote_last_seq s' =? s_local_seq_no s')))
    end.
Proof.
  intros Hst Hsuf Htx Hka Hc Hp Hs Ha H s2 a aall. unfold tcp_process in H.
  destruct (negb (tcp_accepts s ip r)); [discriminate|].
  rewrite (inorder_ack_check cx s ip r Hst Hsuf Htx Hc Ha) in H. cbn [obind] in H.
  destruct (inorder_window cx s ip r) as (tg & Hw).
  { intros E. rewrite E in Hst. exact Hst. } { intros E. rewrite E in Hst. exact Hst. } { exact Hp. } { exact Hs. }
  rewrite Hw in H. cbn [obind] in H. fold s2 in H.
  assert (F2 : s_state s2 = s_state s /\ s_syn_unacked_in_fin_wait s2 = s_syn_unacked_in_fin_wait s /\
               s_tx_buffer s2 = s_tx_buffer s /\ s_local_seq_no s2 = s_local_seq_no s /\
               s_remote_last_seq s2 = s_remote_last_seq s /\ tcp_sent_fin s2 = tcp_sent_fin s /\
               tcp_window_start s2 = tcp_window_start s)
    by (unfold s2, tcp_sent_fin, tcp_window_start; rproj; repeat split; reflexivity).
  destruct F2 as (E1 & E2 & E3 & E4 & E5 & E6 & E7).
  rewrite (inorder_ack_len s2 r) in H;
    [| rewrite E1; exact Hst | rewrite E2; exact Hsuf | rewrite E3; exact Htx | exact Hc | rewrite E4, E6; exact Ha].
  cbn [obind] in H. rewrite (inorder_quash s2 r Hp ltac:(rewrite E7; exact Hs)) in H.
  rewrite E4, E5, E6 in H.
  apply obind_ok_inv in H. destruct H as (p3 & H3 & H).
  exists p3. split; [exact H3|].
  destruct p3 as [t3 s3|t3 s1 rp]; [|inversion H; auto].
  intros Htx3 Hka3.
  destruct (ctl_tail cx s3 ip r _ s' rep tags [116; tg; t3] Htx3 Hka3 H) as (T1 & T2 & T3 & T4 & T5 & T6 & T7 & T8).
  rewrite Ha in T7. destruct T7 as (T7a & T7b).
  repeat (split; [assumption|]). exact T8.
Qed.

(* ---------------------------------------------------------------------------------------- *)
(* the rows of the orderly close                                                             *)
(* ---------------------------------------------------------------------------------------- *)
Lemma window_start_fin s q :
  s_rx_buffer q = s_rx_buffer s -> s_remote_seq_no q = seq_add (s_remote_seq_no s) 1 ->
  tcp_window_start q = seq_add (tcp_window_start s) 1.
Proof.
  intros E1 E2. unfold tcp_window_start. rewrite E1, E2. rewrite !TcpSendBase.seq_add_raw.
  rewrite !TcpSendBase.sq_sq_add. f_equal. lia.
Qed.

(* ESTABLISHED + FIN -> CLOSE-WAIT;  FIN-WAIT-2 + FIN -> TIME-WAIT.  The segment is in order, carries no
   data, acknowledges SND.UNA; nothing is in flight; the timer is idle *)
Theorem proc_fin cx s ip r s' rep tags :
  (s_state s = Established \/ s_state s = FinWait2) ->
  s_syn_unacked_in_fin_wait s = false -> rb_len (s_tx_buffer s) = 0 -> s_keep_alive s = None ->
  0 <= s_local_seq_no s < 4294967296 -> s_remote_last_seq s = s_local_seq_no s -> s_timer s = TIdle None ->
  r_control r = CFin -> r_payload r = [] -> r_seq_number r = tcp_window_start s ->
  r_ack_number r = Some (s_local_seq_no s) ->
  tcp_process cx s ip r = Ok (s', rep, tags) ->
  rep = None /\
  s_state s' = (if tcp_state_eqb (s_state s) Established then CloseWait else TimeWait) /\
  s_timer s' = (if tcp_state_eqb (s_state s) Established then TIdle None else TClose (cx_now cx + tcp_CLOSE_DELAY)) /\
  s_tuple s' = s_tuple s /\ s_tx_buffer s' = s_tx_buffer s /\
  s_local_seq_no s' = s_local_seq_no s /\ s_remote_last_seq s' = s_remote_last_seq s /\
  tcp_window_start s' = seq_add (tcp_window_start s) 1 /\ s_rx_fin_received s' = true /\
  s_remote_last_ack s' = s_remote_last_ack s /\ s_remote_last_win s' = s_remote_last_win s /\
  s_remote_win_shift s' = s_remote_win_shift s /\ s_rx_buffer s' = s_rx_buffer s /\
  auxf s' s /\ xpf s' s /\ rt_max_seq_sent (s_rtte s') = rt_max_seq_sent (s_rtte s).
Proof.
  intros Hst Hsuf Htx Hka Hu Hfl Htm Hc Hp Hs Ha H.
  assert (Hsync : st_sync (s_state s)) by (destruct Hst as [-> | ->]; exact I).
  assert (Hsf : tcp_sent_fin s = false) by (unfold tcp_sent_fin; destruct Hst as [-> | ->]; reflexivity).
  assert (Ha' : r_ack_number r = Some (seq_add (s_local_seq_no s) (b2z (tcp_sent_fin s))))
    by (rewrite Hsf; cbn [b2z]; rewrite (seq_add_0_u32 _ Hu); exact Ha).
  destruct (process_ctl cx s ip r s' rep tags Hsync Hsuf Htx Hka ltac:(right; right; exact Hc) Hp Hs Ha' H)
    as (p3 & H3 & HR).
  rewrite Hsf in H3, HR. cbn [b2z] in HR. rewrite (seq_add_0_u32 _ Hu) in HR.
  rewrite Hc in H3. cbn [quash_psh] in H3.
  set (s2 := upd_local_rx_last_seq s (Some (r_seq_number r))) in *.
  unfold tcp_process_transition in H3.
  assert (E2 : s_state s2 = s_state s) by (unfold s2; rproj; reflexivity).
  rewrite E2 in H3.
  destruct Hst as [Est | Est]; rewrite Est in *; cbn [tcp_state_eqb] in *; inversion H3; subst p3; clear H3.
  - destruct HR as (R1 & (S1 & S2 & _ & S4) & R3 & R4 & R5 & R6 & R7 & R8 & R9).
    { unfold tcp_set_state, tcp_fin_received, s2. rproj. exact Htx. }
    { unfold tcp_set_state, tcp_fin_received, s2. rproj. exact Hka. }
    destruct R4 as (_ & Q2 & Q3 & Q4 & Q5 & Q6 & Q7).
    revert S1 S2 S4 R3 Q2 Q3 Q4 Q5 Q6 Q7 R5 R6 R8 R9. unfold tcp_set_state, tcp_fin_received, s2. rproj.
    intros S1 S2 S4 R3 Q2 Q3 Q4 Q5 Q6 Q7 R5 R6 R8 R9.
    rewrite Hfl, seq_lt_refl in R8. rewrite Htm in R9. cbn [ctl_timer] in R9.
    rewrite zwp_fn_len0 in R9 by reflexivity.
    split; [exact R1|]. split; [exact S1|]. split; [exact R9|]. split; [exact S2|]. split; [exact R3|].
    split; [exact R7|]. split; [rewrite R8; symmetry; exact Hfl|].
    split; [apply window_start_fin; assumption|]. split; [exact Q3|].
    split; [exact Q5|]. split; [exact Q6|]. split; [exact Q7|]. split; [exact Q2|].
    split; [exact R5|]. split; [exact R6 | exact S4].
  - destruct HR as (R1 & (S1 & S2 & _ & S4) & R3 & R4 & R5 & R6 & R7 & R8 & R9).
    { unfold tcp_enter_time_wait, tcp_set_state, tcp_fin_received, s2. rproj. exact Htx. }
    { unfold tcp_enter_time_wait, tcp_set_state, tcp_fin_received, s2. rproj. exact Hka. }
    destruct R4 as (_ & Q2 & Q3 & Q4 & Q5 & Q6 & Q7).
    revert S1 S2 S4 R3 Q2 Q3 Q4 Q5 Q6 Q7 R5 R6 R8 R9.
    unfold tcp_enter_time_wait, tcp_set_state, tcp_fin_received, s2, timer_set_for_close. rproj.
    intros S1 S2 S4 R3 Q2 Q3 Q4 Q5 Q6 Q7 R5 R6 R8 R9.
    rewrite Hfl, seq_lt_refl in R8. cbn [ctl_timer] in R9.
    rewrite zwp_fn_len0 in R9 by reflexivity.
    split; [exact R1|]. split; [exact S1|]. split; [exact R9|]. split; [exact S2|]. split; [exact R3|].
    split; [exact R7|]. split; [rewrite R8; symmetry; exact Hfl|].
    split; [apply window_start_fin; assumption|]. split; [exact Q3|].
    split; [exact Q5|]. split; [exact Q6|]. split; [exact Q7|]. split; [exact Q2|].
    split; [exact R5|]. split; [exact R6 | exact S4].
Qed.

Lemma u32_as_sq a : 0 <= a < 4294967296 -> a = sq (a + 0).
Proof. intros H. unfold TcpSendBase.sq. rewrite Z.add_0_r. symmetry. apply Z.mod_small. change (2 ^ 32) with 4294967296. exact H. Qed.

Lemma seq_lt_succ' a : 0 <= a < 4294967296 -> seq_lt a (seq_add a 1) = true.
Proof.
  intros H. rewrite TcpSendBase.seq_add_raw. rewrite (u32_as_sq a H) at 1.
  rewrite TcpSendBase.seq_lt_sq by (change (2 ^ 31) with 2147483648; lia). reflexivity.
Qed.
Lemma seq_le_succ' a : 0 <= a < 4294967296 -> seq_le a (seq_add a 1) = true.
Proof.
  intros H. rewrite TcpSendBase.seq_add_raw. rewrite (u32_as_sq a H) at 1.
  rewrite TcpSendBase.seq_le_sq by (change (2 ^ 31) with 2147483648; lia). reflexivity.
Qed.

(* FIN-WAIT-1 + ACK of the FIN -> FIN-WAIT-2;  LAST-ACK + ACK of the FIN -> CLOSED, tuple released *)
Theorem proc_ack_of_fin cx s ip r s' rep tags :
  (s_state s = FinWait1 \/ s_state s = LastAck) ->
  s_syn_unacked_in_fin_wait s = false -> rb_len (s_tx_buffer s) = 0 -> s_keep_alive s = None ->
  0 <= s_local_seq_no s < 4294967296 ->
  (s_remote_last_seq s = s_local_seq_no s \/ s_remote_last_seq s = seq_add (s_local_seq_no s) 1) ->
  (timer_is_idle (s_timer s) = true \/ exists e, s_timer s = TRetransmit e) ->
  (r_control r = CNone \/ r_control r = CPsh) -> r_payload r = [] -> r_seq_number r = tcp_window_start s ->
  r_ack_number r = Some (seq_add (s_local_seq_no s) 1) ->
  tcp_process cx s ip r = Ok (s', rep, tags) ->
  rep = None /\
  s_state s' = (if tcp_state_eqb (s_state s) FinWait1 then FinWait2 else Closed) /\
  s_tuple s' = (if tcp_state_eqb (s_state s) FinWait1 then s_tuple s else None) /\
  s_timer s' = TIdle None /\ s_tx_buffer s' = s_tx_buffer s /\
  s_local_seq_no s' = seq_add (s_local_seq_no s) 1 /\ s_remote_last_seq s' = seq_add (s_local_seq_no s) 1 /\
  rxv_eq s' s /\ auxf s' s /\ xpf s' s /\ rt_max_seq_sent (s_rtte s') = rt_max_seq_sent (s_rtte s).
Proof.
  intros Hst Hsuf Htx Hka Hu Hfl Htm Hc Hp Hs Ha H.
  assert (Hsync : st_sync (s_state s)) by (destruct Hst as [-> | ->]; exact I).
  assert (Hsf : tcp_sent_fin s = true) by (unfold tcp_sent_fin; destruct Hst as [-> | ->]; [rewrite Hsuf|]; reflexivity).
  assert (Ha' : r_ack_number r = Some (seq_add (s_local_seq_no s) (b2z (tcp_sent_fin s))))
    by (rewrite Hsf; exact Ha).
  assert (Hcp : ctl_plain (r_control r)) by (destruct Hc as [-> | ->]; [left | right; left]; reflexivity).
  destruct (process_ctl cx s ip r s' rep tags Hsync Hsuf Htx Hka Hcp Hp Hs Ha' H) as (p3 & H3 & HR).
  rewrite Hsf in H3, HR. cbn [b2z] in HR.
  assert (Hq : quash_psh (r_control r) = CNone) by (destruct Hc as [-> | ->]; reflexivity).
  rewrite Hq in H3.
  set (s2 := upd_local_rx_last_seq s (Some (r_seq_number r))) in *.
  unfold tcp_process_transition in H3.
  assert (E2 : s_state s2 = s_state s) by (unfold s2; rproj; reflexivity).
  rewrite E2 in H3.
  assert (Hall : seq_le (s_remote_last_seq s) (seq_add (s_local_seq_no s) 1) = true)
    by (destruct Hfl as [-> | ->]; [apply seq_le_succ'; exact Hu | apply seq_le_refl]).
  assert (Hnx : (if seq_lt (s_remote_last_seq s) (seq_add (s_local_seq_no s) 1)
                 then seq_add (s_local_seq_no s) 1 else s_remote_last_seq s) = seq_add (s_local_seq_no s) 1)
    by (destruct Hfl as [-> | ->]; [rewrite (seq_lt_succ' _ Hu) | rewrite seq_lt_refl]; reflexivity).
  assert (Hct : ctl_timer (s_timer s) true = TIdle None)
    by (destruct Htm as [Hi | (e & ->)]; [destruct (s_timer s); try discriminate|]; reflexivity).
  rewrite Hall in HR.
  destruct Hst as [Est | Est]; rewrite Est in *; cbn [tcp_state_eqb] in *; inversion H3; subst p3; clear H3.
  - destruct HR as (R1 & (S1 & S2 & _ & S4) & R3 & R4 & R5 & R6 & R7 & R8 & R9).
    { unfold tcp_set_state, s2. rproj. exact Htx. }
    { unfold tcp_set_state, s2. rproj. exact Hka. }
    revert S1 S2 S4 R3 R4 R5 R6 R8 R9. unfold tcp_set_state, s2, rxv_eq, auxf, cfgf, xpf. rproj.
    intros S1 S2 S4 R3 R4 R5 R6 R8 R9.
    rewrite Hnx in R8. rewrite Hct in R9. rewrite zwp_fn_len0 in R9 by reflexivity.
    split; [exact R1|]. split; [exact S1|]. split; [exact S2|]. split; [exact R9|]. split; [exact R3|].
    split; [exact R7|]. split; [exact R8|]. split; [exact R4|]. split; [exact R5|]. split; [exact R6 | exact S4].
  - destruct HR as (R1 & (S1 & S2 & _ & S4) & R3 & R4 & R5 & R6 & R7 & R8 & R9).
    { unfold tcp_set_state, s2. rproj. exact Htx. }
    { unfold tcp_set_state, s2. rproj. exact Hka. }
    revert S1 S2 S4 R3 R4 R5 R6 R8 R9. unfold tcp_set_state, s2, rxv_eq, auxf, cfgf, xpf. rproj.
    intros S1 S2 S4 R3 R4 R5 R6 R8 R9.
    rewrite Hnx in R8. rewrite Hct in R9. rewrite zwp_fn_len0 in R9 by reflexivity.
    split; [exact R1|]. split; [exact S1|]. split; [exact S2|]. split; [exact R9|]. split; [exact R3|].
    split; [exact R7|]. split; [exact R8|]. split; [exact R4|]. split; [exact R5|]. split; [exact R6 | exact S4].
Qed.
