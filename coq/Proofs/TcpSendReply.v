(* C05: the segments [tcp_process] itself builds (ACK / challenge ACK / RST replies) carry no
   payload and no SYN/FIN: every data-bearing segment of a socket comes from [tcp_dispatch]. *)
From SV Require Import Lib.Base Gen.Consts.
From SV Require Import Model.Seq32 Model.Assembler Model.TcpBuf Model.TcpTypes Model.Tcp.
From SV Require Import Proofs.TcpSendBase Proofs.TcpSendInv.

Definition reply_shape (o : option packet) : Prop :=
  match o with
  | None => True
  | Some p => r_payload (snd p) = [] /\ (r_control (snd p) = CNone \/ r_control (snd p) = CRst)
  end.

Lemma rst_reply_shape : forall ip r p, tcp_rst_reply ip r = Ok p -> reply_shape (Some p).
Proof.
  intros ip r p H. unfold tcp_rst_reply, tcp_reply, with_payload_len in H.
  destruct (control_eqb (r_control r) CRst); [discriminate|].
  destruct (_ && _); injection H as <-; cbn; auto.
Qed.

Lemma ack_reply_shape : forall cx s ip r, reply_shape (Some (snd (tcp_ack_reply cx s ip r))).
Proof. intros. unfold tcp_ack_reply, tcp_reply, with_payload_len. cbn. auto. Qed.

Lemma challenge_shape : forall cx s ip r, reply_shape (snd (tcp_challenge_ack_reply cx s ip r)).
Proof.
  intros. unfold tcp_challenge_ack_reply. destruct (cx_now cx <? s_challenge_ack_timer s); [exact I|].
  destruct (tcp_ack_reply cx (upd_challenge_ack_timer s (cx_now cx + 1000000)) ip r) as [s' p] eqn:E.
  cbn [snd]. change p with (snd (s', p)). rewrite <- E. apply ack_reply_shape.
Qed.

Lemma ack_check_reply : forall cx s ip r t s' o,
  tcp_process_ack_check cx s ip r = Ok (Ret t s' o) -> reply_shape o.
Proof.
  intros cx s ip r t s' o H. unfold tcp_process_ack_check in H.
  destruct (s_state s), (r_control r), (r_ack_number r) as [a|];
  repeat match type of H with
  | context [if ?b then _ else _] => destruct b eqn:?
  | context [tcp_rst_reply ?a ?b] =>
      let E := fresh "E" in destruct (tcp_rst_reply a b) eqn:E; cbn [obind] in H;
      [apply rst_reply_shape in E|..]
  | context [tcp_challenge_ack_reply ?a ?b ?c ?d] =>
      let E := fresh "E" in pose proof (challenge_shape a b c d) as E;
      destruct (tcp_challenge_ack_reply a b c d) as [s'' p'']; cbn [snd] in E
  end; try discriminate; injection H as <- <- <-; try exact I; assumption.
Qed.

Lemma window_reply : forall cx s ip r t s' o,
  tcp_process_window cx s ip r = Ok (Ret t s' o) -> reply_shape o.
Proof.
  intros cx s ip r t s' o H. unfold tcp_process_window in H.
  destruct (tcp_segment_in_window _ _ _ _) as [inw tg].
  destruct (s_state s); try discriminate;
  (destruct inw;
   [ destruct (negb (seq_le _ _)); [discriminate|];
     repeat match type of H with context [obind ?x _] => destruct x; cbn [obind] in H; try discriminate end;
     discriminate
   | destruct (control_eqb (r_control r) CRst); [injection H as <- <- <-; exact I|];
     cbn [tcp_state_eqb] in H;
     match type of H with context [if ?b then _ else _] => destruct b end;
     match type of H with
     | context [tcp_ack_reply ?a ?b ?c ?d] =>
        let E := fresh "E" in pose proof (ack_reply_shape a b c d) as E;
        destruct (tcp_ack_reply a b c d) as [s'' p'']; cbn [snd] in E; injection H as <- <- <-; exact E
     | context [tcp_challenge_ack_reply ?a ?b ?c ?d] =>
        let E := fresh "E" in pose proof (challenge_shape a b c d) as E;
        destruct (tcp_challenge_ack_reply a b c d) as [s'' p'']; cbn [snd] in E; injection H as <- <- <-; exact E
     end ]).
Qed.

Lemma transition_reply : forall cx s ip r c al aof t s' o,
  tcp_process_transition cx s ip r c al aof = Ok (Ret t s' o) -> reply_shape o.
Proof.
  intros cx s ip r c al aof t s' o H. unfold tcp_process_transition in H.
  destruct (s_state s), c;
  repeat match type of H with
  | context [if ?b then _ else _] => destruct b eqn:?
  | context [tcp_challenge_ack_reply ?a ?b ?c ?d] =>
      let E := fresh "E" in pose proof (challenge_shape a b c d) as E;
      destruct (tcp_challenge_ack_reply a b c d) as [s'' p'']; cbn [snd] in E
  end; try discriminate; injection H as <- <- <-; try exact I; assumption.
Qed.

Lemma payload_reply : forall cx s ip r pl po s' o tg,
  tcp_process_payload cx s ip r pl po = Ok (s', o, tg) -> reply_shape o.
Proof.
  intros cx s ip r pl po s' o tg H. unfold tcp_process_payload in H.
  destruct (l_len pl =? 0); [injection H as <- <- <-; exact I|].
  destruct (asm_atrf _ _ _ _) as [asm' res]. destruct res as [cl|]; [|injection H as <- <- <-; exact I].
  destruct (rb_write_unallocated _ _ _) as [rx lw].
  destruct (negb (lw =? l_len pl)); [discriminate|].
  match type of H with context [obind ?x _] => destruct x as [rx2| |]; cbn [obind] in H; try discriminate end.
  match type of H with context [let '(_, _) := ?x in _] => destruct x as [s1 tg1] end.
  match type of H with context [if ?b then _ else _] => destruct b end.
  - pose proof (ack_reply_shape cx s1 ip r) as E.
    destruct (tcp_ack_reply cx s1 ip r) as [s2 p2]. cbn [snd] in E. injection H as <- <- <-. exact E.
  - injection H as <- <- <-. exact I.
Qed.

Theorem process_reply_no_data : forall cx s ip r s' o tags,
  tcp_process cx s ip r = Ok (s', o, tags) -> reply_shape o.
Proof.
  intros cx s ip r s' o tags H. unfold tcp_process in H.
  destruct (negb (tcp_accepts s ip r)); [discriminate|].
  destruct (tcp_process_ack_check cx s ip r) as [[t1 []|t1 s1 o1]| |] eqn:E1; cbn [obind] in H; try discriminate.
  2: { injection H as <- <- <-. eapply ack_check_reply. exact E1. }
  destruct (tcp_process_window cx s ip r) as [[t2 [[s2 pl] po]|t2 s2 o2]| |] eqn:E2; cbn [obind] in H;
    try discriminate.
  2: { injection H as <- <- <-. eapply window_reply. exact E2. }
  destruct (tcp_process_ack_len s2 r) as [[[al aof] aa]| |]; cbn [obind] in H; try discriminate.
  destruct (tcp_process_transition cx s2 ip r (tcp_process_quash s2 r) al aof) as [[t3 s3|t3 s3 o3]| |] eqn:E3;
    cbn [obind] in H; try discriminate.
  2: { injection H as <- <- <-. eapply transition_reply. exact E3. }
  destruct (tcp_process_update_remote cx s3 r al) as [[s4 wu]| |]; cbn [obind] in H; try discriminate.
  destruct (tcp_process_dup_ack cx s4 r al wu) as [[s5 t5]| |]; cbn [obind] in H; try discriminate.
  match type of H with context [tcp_process_timers cx ?x al aa] => destruct (tcp_process_timers cx x al aa) as [s6 t6] end.
  destruct (tcp_process_zwp cx s6 al) as [s7 t7].
  destruct (tcp_process_payload cx s7 ip r pl po) as [[[s8 o8] t8]| |] eqn:E8; cbn [obind] in H; try discriminate.
  injection H as <- <- <-. eapply payload_reply. exact E8.
Qed.

Theorem ingress_reply_no_data : forall cx s ip r s' o tags,
  iface_tcp_ingress cx s ip r = Ok (s', o, tags) -> reply_shape o.
Proof.
  intros cx s ip r s' o tags H. unfold iface_tcp_ingress in H.
  destruct (_ || _); [injection H as <- <- <-; exact I|].
  destruct (_ || _); [injection H as <- <- <-; exact I|].
  destruct (tcp_accepts s ip r); [eapply process_reply_no_data; exact H|].
  destruct (control_eqb (r_control r) CRst); [injection H as <- <- <-; exact I|].
  destruct (tcp_rst_reply ip r) eqn:E; cbn [obind] in H; try discriminate.
  injection H as <- <- <-. eapply rst_reply_shape. exact E.
Qed.
