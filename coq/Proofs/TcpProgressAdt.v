(* C02 (liveness half): A'S DELAYED-ACK TIMER IS NEVER ARMED in the one-way workload - socket level.
   The delayed-ACK timer is written only by the payload stage of process (armed, or made immediate) and cleared by an
   emission or a reset:
     process_nopayload_adt   a segment without payload leaves it, or clears it
     process_est_syn_adt     a SYN at an ESTABLISHED socket never reaches the payload stage (the state table returns) *)
From SV Require Import Lib.Base Gen.Consts.
From SV Require Import Model.Seq32 Model.Assembler Model.TcpBuf Model.TcpTypes Model.Tcp.
From SV Require Import Proofs.AssemblerProofs Proofs.TcpRecvBase Proofs.TcpRecvWindow
  Proofs.TcpRecvPayload Proofs.TcpRecvInv Proofs.TcpRecvProcess.
From SV Require Import Proofs.TcpProgressFrame Proofs.TcpProgressCtl Proofs.TcpProgressHs.

Definition adt_keep (s' s : socket) : Prop :=
  s_ack_delay_timer s' = s_ack_delay_timer s \/ s_ack_delay_timer s' = ADIdle.

Lemma auxr_adt s' s : auxr s' s -> adt_keep s' s.
Proof. intros (_ & [H | (H & _)]); [left | right]; exact H. Qed.
Lemma auxf_adt s' s : auxf s' s -> adt_keep s' s.
Proof. intros (_ & H). left. exact H. Qed.

Theorem process_nopayload_adt cx s ip r s' rep tags :
  r_payload r = [] -> tcp_process cx s ip r = Ok (s', rep, tags) -> adt_keep s' s.
Proof.
  intros Hp H. unfold tcp_process in H.
  destruct (negb (tcp_accepts s ip r)); [discriminate|].
  apply obind_ok_inv in H. destruct H as (p1 & H1 & H).
  destruct p1 as [t1 []|t1 s1 rep1].
  2:{ inversion H; subst. exact (auxf_adt _ _ (ack_check_ret_auxf _ _ _ _ _ _ _ H1)). }
  apply obind_ok_inv in H. destruct H as (p2 & H2 & H).
  pose proof (window_auxf _ _ _ _ _ H2) as P2. pose proof (window_ws _ _ _ _ _ H2) as W2.
  destruct p2 as [t2 ((s2, payload), off)|t2 s2r rep2].
  2:{ inversion H; subst. exact (auxf_adt _ _ P2). }
  destruct W2 as (_ & Wp). specialize (Wp Hp). subst payload.
  apply obind_ok_inv in H. destruct H as (((al & aof) & aall) & _ & H).
  apply obind_ok_inv in H. destruct H as (p3 & H3 & H).
  pose proof (transition_auxr _ _ _ _ _ _ _ _ H3) as P3.
  destruct p3 as [t3 s3|t3 s3r rep3].
  2:{ inversion H; subst. exact (auxr_adt _ _ (auxr_auxf_trans _ _ _ P3 P2)). }
  apply obind_ok_inv in H. destruct H as ((s4 & wu) & H4 & H).
  pose proof (update_remote_auxf _ _ _ _ _ _ H4) as P4.
  apply obind_ok_inv in H. destruct H as ((s5 & t5) & H5 & H).
  pose proof (dup_ack_auxf _ _ _ _ _ _ _ H5) as P5.
  pose proof (tsval_auxf s5 r) as P5'.
  set (q5 := match r_timestamp r with
             | Some (tsval, _) => upd_last_remote_tsval s5 tsval
             | None => s5
             end) in *. clearbody q5.
  pose proof (timers_auxf cx q5 al aall) as P6.
  destruct (tcp_process_timers cx q5 al aall) as (s6, t6). cbn [fst] in P6.
  pose proof (zwp_auxf cx s6 al) as P7.
  destruct (tcp_process_zwp cx s6 al) as (s7, t7). cbn [fst] in P7.
  rewrite payload_nil in H. cbn [obind] in H. inversion H; subst s' rep tags.
  apply auxf_adt.
  eapply auxf_trans; [exact P7|]. eapply auxf_trans; [exact P6|]. eapply auxf_trans; [exact P5'|].
  eapply auxf_trans; [exact P5|]. eapply auxf_trans; [exact P4|]. eapply auxf_trans; [exact P3 | exact P2].
Qed.

Theorem process_est_syn_adt cx s ip r s' rep tags :
  s_state s = Established -> r_control r = CSyn -> tcp_process cx s ip r = Ok (s', rep, tags) -> adt_keep s' s.
Proof.
  intros Hst Hc H. unfold tcp_process in H.
  destruct (negb (tcp_accepts s ip r)); [discriminate|].
  apply obind_ok_inv in H. destruct H as (p1 & H1 & H).
  destruct p1 as [t1 []|t1 s1 rep1].
  2:{ inversion H; subst. exact (auxf_adt _ _ (ack_check_ret_auxf _ _ _ _ _ _ _ H1)). }
  apply obind_ok_inv in H. destruct H as (p2 & H2 & H).
  pose proof (window_auxf _ _ _ _ _ H2) as P2. pose proof (window_stf _ _ _ _ _ H2) as S2.
  destruct p2 as [t2 ((s2, payload), off)|t2 s2r rep2].
  2:{ inversion H; subst. exact (auxf_adt _ _ P2). }
  apply obind_ok_inv in H. destruct H as (((al & aof) & aall) & _ & H).
  apply obind_ok_inv in H. destruct H as (p3 & H3 & H).
  pose proof (transition_auxr _ _ _ _ _ _ _ _ H3) as P3.
  destruct p3 as [t3 s3|t3 s3r rep3].
  2:{ inversion H; subst. exact (auxr_adt _ _ (auxr_auxf_trans _ _ _ P3 P2)). }
  exfalso. destruct S2 as (S2 & _).
  assert (Hq : tcp_process_quash s2 r = CSyn).
  { unfold tcp_process_quash. rewrite Hc. cbn. reflexivity. }
  rewrite Hq in H3. unfold tcp_process_transition in H3. rewrite S2, Hst in H3. cbv beta iota in H3. discriminate.
Qed.
