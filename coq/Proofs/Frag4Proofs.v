(* Lemmas about Model/Frag4.v and Model/Egress.v (property C12, sender side). *)
From SV Require Import Lib.Base Gen.Consts Gen.WireFields Model.Frag4 Model.Egress.

(* ---------- list slices ---------- *)

Lemma zlen_nonneg l : 0 <= zlen l.
Proof. unfold zlen. lia. Qed.

Lemma zlen_app l1 l2 : zlen (l1 ++ l2) = zlen l1 + zlen l2.
Proof. unfold zlen. rewrite app_length. lia. Qed.

Lemma zlen_firstn n l : 0 <= n -> zlen (firstn (Z.to_nat n) l) = Z.min n (zlen l).
Proof. intros Hn. unfold zlen. rewrite firstn_length. lia. Qed.

Lemma zlen_skipn n l : 0 <= n -> zlen (skipn (Z.to_nat n) l) = Z.max 0 (zlen l - n).
Proof. intros Hn. unfold zlen. rewrite skipn_length. lia. Qed.

Lemma skipn_skipn_nat {A} (a b : nat) (l : list A) : skipn a (skipn b l) = skipn (b + a) l.
Proof.
  revert l; induction b as [|b IH]; intros l; [reflexivity|].
  destruct l as [|x l]; [rewrite !skipn_nil; reflexivity | cbn [skipn Nat.add]; apply IH].
Qed.

(* writing [data] at [off] and reading |data| bytes back at [off] *)
Lemma slice_write buf off data :
  0 <= off -> off + zlen data <= zlen buf ->
  f4_slice (f4_write buf off data) off (zlen data) = data.
Proof.
  intros Ho Hfit. unfold f4_slice, f4_write, zlen in *.
  assert (Hl : length (firstn (Z.to_nat off) buf) = Z.to_nat off) by (rewrite firstn_length; lia).
  rewrite skipn_app, Hl, Nat.sub_diag. cbn [skipn].
  rewrite skipn_all2 by lia. cbn [app].
  rewrite Nat2Z.id, firstn_app, Nat.sub_diag, firstn_all. cbn [firstn]. apply app_nil_r.
Qed.

Lemma write_length buf off data :
  0 <= off -> off + zlen data <= zlen buf -> zlen (f4_write buf off data) = zlen buf.
Proof.
  intros Ho Hfit. unfold f4_write, zlen in *. rewrite !app_length, firstn_length, skipn_length. lia.
Qed.

(* a window of a buffer that holds [P] at [base]: reading inside the window reads [P] *)
Lemma slice_inside buf base P off n :
  0 <= base -> 0 <= off -> 0 <= n -> off + n <= zlen P ->
  f4_slice buf base (zlen P) = P ->
  f4_slice buf (off + base) n = firstn (Z.to_nat n) (skipn (Z.to_nat off) P).
Proof.
  intros Hb Ho Hn Hfit HP. unfold f4_slice in *. rewrite <- HP at 1.
  rewrite skipn_firstn_comm, firstn_firstn, skipn_skipn_nat.
  replace (Z.to_nat base + Z.to_nat off)%nat with (Z.to_nat (off + base)) by lia.
  f_equal. unfold zlen in *. lia.
Qed.

Lemma skipn_skipn_z a b (l : list Z) :
  0 <= a -> 0 <= b -> skipn (Z.to_nat a) (skipn (Z.to_nat b) l) = skipn (Z.to_nat (b + a)) l.
Proof. intros Ha Hb. rewrite skipn_skipn_nat. f_equal. lia. Qed.

(* ---------- the fragment size ---------- *)

Definition f4_maxsz (ip_mtu : Z) : Z := f4_max_ipv4_fragment_size ip_mtu f4_hdr.

Lemma hdr_value : f4_hdr = 20.
Proof. reflexivity. Qed.

Lemma maxsz_facts ip_mtu :
  f4_hdr + 8 <= ip_mtu ->
  8 <= f4_maxsz ip_mtu /\ f4_maxsz ip_mtu mod 8 = 0 /\ f4_hdr + f4_maxsz ip_mtu <= ip_mtu /\
  ip_mtu - f4_hdr - 8 < f4_maxsz ip_mtu.
Proof.
  unfold f4_maxsz, f4_max_ipv4_fragment_size, f4_align, phy_IPV4_FRAGMENT_PAYLOAD_ALIGNMENT.
  cbv zeta. intros H. lia.
Qed.

(* MTU >= 68 on either medium leaves room for the header and one 8-byte unit *)
Lemma mtu68_room m mtu : 68 <= mtu -> f4_hdr + 8 <= f4_ip_mtu m mtu.
Proof.
  unfold f4_ip_mtu, f4_eth_hdr, weth_f_PAYLOAD, f4_hdr, wipv4_HEADER_LEN. destruct m; lia.
Qed.

(* ---------- what a correct fragment train is ---------- *)

(* [frs] carries exactly [data], first byte at offset [off]: idents equal, offsets consistent,
   every fragment fits the MTU, MF set on all but the last, every non-last fragment has a
   non-zero length that is a multiple of 8, payloads are consecutive pieces of [data] *)
Fixpoint train_ok (ip_mtu ident off : Z) (frs : list ip4pkt) (data : list Z) : Prop :=
  match frs with
  | [] => False
  | p :: rest =>
      p_ident p = ident /\ p_offset p = off /\ f4_hdr + zlen (p_payload p) <= ip_mtu /\
      match rest with
      | [] => p_mf p = false /\ p_payload p = data
      | _ :: _ =>
          p_mf p = true /\ zlen (p_payload p) mod 8 = 0 /\ 0 < zlen (p_payload p) /\
          p_payload p = firstn (length (p_payload p)) data /\
          train_ok ip_mtu ident (off + zlen (p_payload p)) rest (skipn (length (p_payload p)) data)
      end
  end.

Fixpoint offsets_consistent (off : Z) (frs : list ip4pkt) : Prop :=
  match frs with
  | [] => True
  | p :: rest => p_offset p = off /\ offsets_consistent (off + zlen (p_payload p)) rest
  end.

Fixpoint mf_all_but_last (frs : list ip4pkt) : Prop :=
  match frs with
  | [] => False
  | p :: rest =>
      match rest with
      | [] => p_mf p = false
      | _ :: _ => p_mf p = true /\ zlen (p_payload p) mod 8 = 0 /\ 0 < zlen (p_payload p) /\
                  mf_all_but_last rest
      end
  end.

Lemma train_ok_last ip_mtu ident off p data :
  train_ok ip_mtu ident off [p] data <->
  p_ident p = ident /\ p_offset p = off /\ f4_hdr + zlen (p_payload p) <= ip_mtu /\
  p_mf p = false /\ p_payload p = data.
Proof. reflexivity. Qed.

Lemma train_ok_more ip_mtu ident off p q rest data :
  train_ok ip_mtu ident off (p :: q :: rest) data <->
  p_ident p = ident /\ p_offset p = off /\ f4_hdr + zlen (p_payload p) <= ip_mtu /\
  p_mf p = true /\ zlen (p_payload p) mod 8 = 0 /\ 0 < zlen (p_payload p) /\
  p_payload p = firstn (length (p_payload p)) data /\
  train_ok ip_mtu ident (off + zlen (p_payload p)) (q :: rest) (skipn (length (p_payload p)) data).
Proof. reflexivity. Qed.

Lemma train_ok_nonempty ip_mtu ident off frs data : train_ok ip_mtu ident off frs data -> frs <> [].
Proof. destruct frs; cbn; [tauto | discriminate]. Qed.

Lemma train_ok_props ip_mtu ident frs : forall off data,
  train_ok ip_mtu ident off frs data ->
  concat (map p_payload frs) = data /\
  offsets_consistent off frs /\
  mf_all_but_last frs /\
  Forall (fun p => p_ident p = ident) frs /\
  Forall (fun p => f4_hdr + zlen (p_payload p) <= ip_mtu) frs /\
  Forall (fun p => p_offset p mod 8 = 0) frs \/ off mod 8 <> 0.
Proof.
  induction frs as [|p rest IH]; intros off data H; [destruct H|].
  destruct (Z.eq_dec (off mod 8) 0) as [Hoff|Hoff]; [left | right; exact Hoff].
  cbn [train_ok] in H. destruct H as (Hid & Hof & Hfit & H).
  destruct rest as [|q rest'].
  - destruct H as (Hmf & Hp). cbn. rewrite app_nil_r.
    repeat split; try assumption; try (constructor; [assumption | constructor]).
    constructor; [lia | constructor].
  - destruct H as (Hmf & Hal & Hpos & Hp & Hrest).
    specialize (IH _ _ Hrest). destruct IH as [IH | IH]; [|exfalso; lia].
    destruct IH as (Hc & Ho & Hm & Hi & Hf & Ha).
    split; [|split; [|split; [|split; [|split]]]].
    + cbn [map concat]. cbn [map concat] in Hc. rewrite Hc. rewrite Hp at 1. apply firstn_skipn.
    + cbn [offsets_consistent]. split; [exact Hof | exact Ho].
    + cbn [mf_all_but_last]. repeat split; assumption.
    + constructor; assumption.
    + constructor; assumption.
    + constructor; [lia | assumption].
Qed.

(* ---------- the fragmenter mid-datagram ---------- *)

(* the fragmenter holds datagram [P]; [off] payload bytes are already on the wire *)
Definition fr_progress (fr : fragmenter) (P : list Z) (off : Z) : Prop :=
  f4_slice (fr_buffer fr) f4_hdr (zlen P) = P /\
  fr_packet_len fr = f4_hdr + zlen P /\
  fr_sent_bytes fr = f4_hdr + off /\
  fr_frag_offset fr = off /\
  0 < off /\ off mod 8 = 0 /\ off < zlen P /\
  f4_hdr + zlen P <= zlen (fr_buffer fr).

Lemma progress_not_finished fr P off : fr_progress fr P off -> fr_finished fr = false.
Proof. intros (_ & H1 & H2 & _ & _ & _ & H3 & _). unfold fr_finished. lia. Qed.

(* one dispatch_ipv4_frag step from a mid-datagram state *)
Lemma frag_step ip_mtu fr P off :
  f4_hdr + 8 <= ip_mtu -> fr_progress fr P off ->
  let '(fr', p) := f4_dispatch_ipv4_frag ip_mtu fr in
  let n := Z.min (zlen P - off) (f4_maxsz ip_mtu) in
  p = mkPkt (fr_ident fr) off (negb (zlen P - off =? n))
            (firstn (Z.to_nat n) (skipn (Z.to_nat off) P)) /\
  fr_buffer fr' = fr_buffer fr /\ fr_ident fr' = fr_ident fr /\
  fr_packet_len fr' = fr_packet_len fr /\
  (zlen P - off <= f4_maxsz ip_mtu -> fr_finished fr' = true) /\
  (f4_maxsz ip_mtu < zlen P - off -> fr_progress fr' P (off + f4_maxsz ip_mtu)).
Proof.
  intros Hmtu (Hbuf & Hpl & Hsb & Hfo & Ho0 & Ho8 & Holt & Hcap).
  pose proof (maxsz_facts ip_mtu Hmtu) as (Hm8 & Hmm & Hmfit & _).
  unfold f4_dispatch_ipv4_frag. fold (f4_maxsz ip_mtu). cbv zeta.
  rewrite Hpl, Hsb, Hfo.
  replace (f4_hdr + zlen P - (f4_hdr + off)) with (zlen P - off) by lia.
  set (n := Z.min (zlen P - off) (f4_maxsz ip_mtu)).
  assert (Hn : 0 < n <= zlen P - off) by lia.
  split.
  - f_equal.
    + unfold f4_wire_offset. lia.
    + apply slice_inside; try lia; [unfold f4_hdr, wipv4_HEADER_LEN; lia | exact Hbuf].
  - cbn [fr_buffer fr_ident fr_packet_len fr_sent_bytes fr_frag_offset].
    split; [reflexivity|]. split; [reflexivity|]. split; [reflexivity|]. split.
    + intros Hle. unfold fr_finished. cbn. lia.
    + intros Hgt. unfold fr_progress. cbn [fr_buffer fr_ident fr_packet_len fr_sent_bytes fr_frag_offset].
      repeat split; try assumption; try lia.
Qed.

(* the remaining fragments of a mid-datagram fragmenter form a correct train tail *)
Lemma drain_train ip_mtu : f4_hdr + 8 <= ip_mtu -> forall fuel fr P off,
  fr_progress fr P off -> (Z.to_nat (zlen P - off) <= fuel)%nat ->
  train_ok ip_mtu (fr_ident fr) off (f4_drain fuel ip_mtu fr) (skipn (Z.to_nat off) P).
Proof.
  intros Hmtu. pose proof (maxsz_facts ip_mtu Hmtu) as (Hm8 & Hmm & Hmfit & _).
  induction fuel as [|k IH]; intros fr P off Hp Hfuel.
  - destruct Hp as (_ & _ & _ & _ & _ & _ & Hlt & _). lia.
  - cbn [f4_drain]. rewrite (progress_not_finished _ _ _ Hp).
    pose proof (frag_step ip_mtu fr P off Hmtu Hp) as Hs.
    destruct (f4_dispatch_ipv4_frag ip_mtu fr) as (fr', p). cbv zeta in Hs.
    destruct Hs as (Hpk & Hb' & Hi' & Hl' & Hfin & Hprog).
    pose proof Hp as (_ & _ & _ & _ & Ho0 & Ho8 & Holt & _).
    set (n := Z.min (zlen P - off) (f4_maxsz ip_mtu)) in *.
    assert (Hlenp : zlen (p_payload p) = n).
    { rewrite Hpk. cbn [p_payload]. rewrite zlen_firstn by lia. rewrite zlen_skipn by lia. lia. }
    destruct (Z_le_gt_dec (zlen P - off) (f4_maxsz ip_mtu)) as [Hle | Hgt].
    + (* last fragment *)
      assert (Hd : f4_drain k ip_mtu fr' = []).
      { destruct k; cbn [f4_drain]; [reflexivity|]. rewrite (Hfin Hle). reflexivity. }
      rewrite Hd. apply train_ok_last. rewrite Hlenp. rewrite Hpk. cbn [p_ident p_offset p_mf p_payload].
      split; [reflexivity|]. split; [reflexivity|]. split; [lia|]. split.
      * replace (zlen P - off =? n) with true by lia. reflexivity.
      * apply firstn_all2. rewrite skipn_length. unfold zlen in *. lia.
    + (* more to come *)
      specialize (Hprog ltac:(lia)).
      specialize (IH fr' P (off + f4_maxsz ip_mtu) Hprog ltac:(lia)).
      assert (Hne : f4_drain k ip_mtu fr' <> []) by (eapply train_ok_nonempty; exact IH).
      destruct (f4_drain k ip_mtu fr') as [|q rest] eqn:Hdr; [congruence|].
      apply train_ok_more. rewrite Hlenp.
      assert (Hn : n = f4_maxsz ip_mtu) by lia.
      assert (Hlen_nat : length (p_payload p) = Z.to_nat n) by (unfold zlen in Hlenp; lia).
      rewrite Hlen_nat. rewrite Hpk. cbn [p_ident p_offset p_mf p_payload].
      split; [reflexivity|]. split; [reflexivity|]. split; [lia|].
      split; [replace (zlen P - off =? n) with false by lia; reflexivity|].
      split; [lia|]. split; [lia|]. split; [reflexivity|].
      rewrite Hi' in IH. rewrite skipn_skipn_z by lia. rewrite Hn. exact IH.
Qed.

(* ---------- dispatch_ip ---------- *)

Lemma dispatch_ip_small ip_mtu ident fr P :
  f4_hdr + zlen P <= ip_mtu ->
  f4_dispatch_ip ip_mtu ident fr P = (fr, [mkPkt 0 0 false P], DipSent).
Proof. intros H. unfold f4_dispatch_ip. cbv zeta. replace (f4_hdr + zlen P >? ip_mtu) with false by lia. reflexivity. Qed.

Lemma dispatch_ip_too_big ip_mtu ident fr P :
  ip_mtu < f4_hdr + zlen P -> zlen (fr_buffer fr) < f4_hdr + zlen P ->
  f4_dispatch_ip ip_mtu ident fr P = (fr, [], DipDroppedTooBig).
Proof.
  intros H1 H2. unfold f4_dispatch_ip. cbv zeta.
  replace (f4_hdr + zlen P >? ip_mtu) with true by lia.
  replace (zlen (fr_buffer fr) <? f4_hdr + zlen P) with true by lia. reflexivity.
Qed.

(* while fragments are unsent, no call of dispatch_ip changes the fragmenter *)
Lemma dispatch_ip_busy_preserves ip_mtu ident fr P :
  fr_finished fr = false -> fst (fst (f4_dispatch_ip ip_mtu ident fr P)) = fr.
Proof.
  intros H. unfold f4_dispatch_ip. cbv zeta. rewrite H.
  destruct (f4_hdr + zlen P >? ip_mtu); [|reflexivity].
  destruct (zlen (fr_buffer fr) <? f4_hdr + zlen P); reflexivity.
Qed.

Lemma dispatch_ip_busy_emits_no_fragment ip_mtu ident fr P :
  fr_finished fr = false ->
  filter p_is_fragment (snd (fst (f4_dispatch_ip ip_mtu ident fr P))) = [].
Proof.
  intros H. unfold f4_dispatch_ip. cbv zeta. rewrite H.
  destruct (f4_hdr + zlen P >? ip_mtu); [|reflexivity].
  destruct (zlen (fr_buffer fr) <? f4_hdr + zlen P); reflexivity.
Qed.

Lemma dispatch_ip_start ip_mtu ident fr P :
  f4_hdr + 8 <= ip_mtu -> fr_finished fr = true ->
  ip_mtu < f4_hdr + zlen P -> f4_hdr + zlen P <= zlen (fr_buffer fr) ->
  exists fr',
    f4_dispatch_ip ip_mtu ident fr P =
      (fr', [mkPkt ident 0 true (firstn (Z.to_nat (f4_maxsz ip_mtu)) P)], DipFragStarted) /\
    fr_progress fr' P (f4_maxsz ip_mtu) /\ fr_ident fr' = ident /\
    zlen (fr_buffer fr') = zlen (fr_buffer fr).
Proof.
  intros Hmtu Hfin Hbig Hfit.
  pose proof (maxsz_facts ip_mtu Hmtu) as (Hm8 & Hmm & Hmfit & _).
  unfold f4_dispatch_ip. cbv zeta. fold (f4_maxsz ip_mtu).
  replace (f4_hdr + zlen P >? ip_mtu) with true by lia.
  replace (zlen (fr_buffer fr) <? f4_hdr + zlen P) with false by lia.
  rewrite Hfin. cbn [negb].
  assert (Hh : 0 <= f4_hdr) by (unfold f4_hdr, wipv4_HEADER_LEN; lia).
  pose proof (slice_write (fr_buffer fr) f4_hdr P Hh Hfit) as Hsw.
  eexists. split; [|split; [|split]].
  - f_equal. f_equal. f_equal.
    replace (f4_hdr) with (0 + f4_hdr) at 2 by lia.
    rewrite (slice_inside _ f4_hdr P 0 (f4_maxsz ip_mtu)); try lia; [reflexivity | exact Hsw].
  - unfold fr_progress. cbn [fr_buffer fr_packet_len fr_sent_bytes fr_frag_offset].
    rewrite write_length by lia.
    repeat split; try assumption; try lia.
  - reflexivity.
  - cbn [fr_buffer]. apply write_length; lia.
Qed.

(* ---------- C12: fragments_cover_exactly ---------- *)

Lemma fragment_datagram_train ip_mtu ident fr0 P :
  f4_hdr + 8 <= ip_mtu -> fr_finished fr0 = true ->
  ip_mtu < f4_hdr + zlen P -> f4_hdr + zlen P <= zlen (fr_buffer fr0) ->
  train_ok ip_mtu ident 0 (f4_fragment_datagram ip_mtu ident fr0 P) P /\
  (2 <= length (f4_fragment_datagram ip_mtu ident fr0 P))%nat.
Proof.
  intros Hmtu Hfin Hbig Hfit.
  pose proof (maxsz_facts ip_mtu Hmtu) as (Hm8 & Hmm & Hmfit & _).
  destruct (dispatch_ip_start ip_mtu ident fr0 P Hmtu Hfin Hbig Hfit) as (fr' & Hd & Hp & Hid & _).
  unfold f4_fragment_datagram. rewrite Hd.
  pose proof (drain_train ip_mtu Hmtu (length P) fr' P (f4_maxsz ip_mtu) Hp) as Ht.
  specialize (Ht ltac:(unfold zlen; lia)). rewrite Hid in Ht.
  assert (Hne := train_ok_nonempty _ _ _ _ _ Ht).
  destruct (f4_drain (length P) ip_mtu fr') as [|q rest] eqn:Hdr; [congruence|].
  split; [|cbn; lia].
  cbn [app train_ok p_ident p_offset p_mf p_payload].
  assert (Hl : zlen (firstn (Z.to_nat (f4_maxsz ip_mtu)) P) = f4_maxsz ip_mtu) by (rewrite zlen_firstn; lia).
  assert (Hln : length (firstn (Z.to_nat (f4_maxsz ip_mtu)) P) = Z.to_nat (f4_maxsz ip_mtu)) by (unfold zlen in Hl; lia).
  rewrite Hl, Hln.
  split; [reflexivity|]. split; [reflexivity|]. split; [lia|]. split; [reflexivity|].
  split; [exact Hmm|]. split; [lia|]. split; [reflexivity|].
  replace (0 + f4_maxsz ip_mtu) with (f4_maxsz ip_mtu) by lia. exact Ht.
Qed.

Lemma c12_fragments_cover_exactly ip_mtu ident fr0 P :
  f4_hdr + 8 <= ip_mtu -> fr_finished fr0 = true ->
  ip_mtu < f4_hdr + zlen P -> f4_hdr + zlen P <= zlen (fr_buffer fr0) ->
  let frs := f4_fragment_datagram ip_mtu ident fr0 P in
  concat (map p_payload frs) = P /\
  offsets_consistent 0 frs /\
  mf_all_but_last frs /\
  Forall (fun p => p_ident p = ident) frs /\
  Forall (fun p => f4_hdr + zlen (p_payload p) <= ip_mtu) frs /\
  Forall (fun p => p_offset p mod 8 = 0) frs /\
  (2 <= length frs)%nat.
Proof.
  intros Hmtu Hfin Hbig Hfit frs.
  destruct (fragment_datagram_train ip_mtu ident fr0 P Hmtu Hfin Hbig Hfit) as (Ht & Hlen).
  destruct (train_ok_props _ _ _ _ _ Ht) as [(H1 & H2 & H3 & H4 & H5 & H6) | H]; [|cbn in H; lia].
  repeat split; assumption.
Qed.

(* the same for a device MTU >= 68 on either medium and the configured buffer *)
Lemma c12_fragments_cover_exactly_mtu m mtu ident fr0 P :
  68 <= mtu -> fr_finished fr0 = true ->
  zlen (fr_buffer fr0) = cfg_FRAGMENTATION_BUFFER_SIZE ->
  f4_ip_mtu m mtu < f4_hdr + zlen P -> f4_hdr + zlen P <= cfg_FRAGMENTATION_BUFFER_SIZE ->
  let frs := f4_fragment_datagram (f4_ip_mtu m mtu) ident fr0 P in
  concat (map p_payload frs) = P /\
  offsets_consistent 0 frs /\
  mf_all_but_last frs /\
  Forall (fun p => p_ident p = ident) frs /\
  Forall (fun p => f4_hdr + zlen (p_payload p) <= f4_ip_mtu m mtu) frs /\
  Forall (fun p => p_offset p mod 8 = 0) frs /\
  (2 <= length frs)%nat.
Proof.
  intros Hmtu Hfin Hb Hbig Hfit.
  apply c12_fragments_cover_exactly; [apply mtu68_room; exact Hmtu | exact Hfin | exact Hbig | lia].
Qed.

(* ================= egress order: back to back datagrams (Model/Egress.v) ================= *)

(* one dispatch_ipv4_frag step in terms of trains *)
Lemma frag_step_train ip_mtu fr P off :
  f4_hdr + 8 <= ip_mtu -> fr_progress fr P off ->
  let '(fr', p) := f4_dispatch_ipv4_frag ip_mtu fr in
  p_is_fragment p = true /\ fr_ident fr' = fr_ident fr /\
  zlen (fr_buffer fr') = zlen (fr_buffer fr) /\
  ((zlen P - off <= f4_maxsz ip_mtu /\ fr_finished fr' = true /\
    train_ok ip_mtu (fr_ident fr) off [p] (skipn (Z.to_nat off) P))
   \/
   (f4_maxsz ip_mtu < zlen P - off /\ fr_progress fr' P (off + f4_maxsz ip_mtu) /\
    forall tail,
      train_ok ip_mtu (fr_ident fr) (off + f4_maxsz ip_mtu) tail
               (skipn (Z.to_nat (off + f4_maxsz ip_mtu)) P) ->
      train_ok ip_mtu (fr_ident fr) off (p :: tail) (skipn (Z.to_nat off) P))).
Proof.
  intros Hmtu Hp. pose proof (maxsz_facts ip_mtu Hmtu) as (Hm8 & Hmm & Hmfit & _).
  pose proof (frag_step ip_mtu fr P off Hmtu Hp) as Hs.
  destruct (f4_dispatch_ipv4_frag ip_mtu fr) as (fr', p). cbv zeta in Hs.
  destruct Hs as (Hpk & Hb' & Hi' & Hl' & Hfin & Hprog).
  pose proof Hp as (_ & _ & _ & _ & Ho0 & Ho8 & Holt & _).
  set (n := Z.min (zlen P - off) (f4_maxsz ip_mtu)) in *.
  assert (Hlenp : zlen (p_payload p) = n).
  { rewrite Hpk. cbn [p_payload]. rewrite zlen_firstn by lia. rewrite zlen_skipn by lia. lia. }
  split.
  { rewrite Hpk. unfold p_is_fragment. cbn [p_mf p_offset]. replace (off =? 0) with false by lia.
    cbn. apply orb_true_r. }
  split; [exact Hi'|]. split; [rewrite Hb'; reflexivity|].
  destruct (Z_le_gt_dec (zlen P - off) (f4_maxsz ip_mtu)) as [Hle | Hgt].
  - left. split; [exact Hle|]. split; [exact (Hfin Hle)|].
    apply train_ok_last. rewrite Hlenp. rewrite Hpk. cbn [p_ident p_offset p_mf p_payload].
    split; [reflexivity|]. split; [reflexivity|]. split; [lia|]. split.
    + replace (zlen P - off =? n) with true by lia. reflexivity.
    + apply firstn_all2. rewrite skipn_length. unfold zlen in *. lia.
  - right. split; [lia|]. split; [apply Hprog; lia|].
    intros tail Ht. assert (Hne := train_ok_nonempty _ _ _ _ _ Ht).
    destruct tail as [|q rest]; [congruence|].
    apply train_ok_more. rewrite Hlenp.
    assert (Hn : n = f4_maxsz ip_mtu) by lia.
    assert (Hlen_nat : length (p_payload p) = Z.to_nat n) by (unfold zlen in Hlenp; lia).
    rewrite Hlen_nat. rewrite Hpk. cbn [p_ident p_offset p_mf p_payload].
    split; [reflexivity|]. split; [reflexivity|]. split; [lia|].
    split; [replace (zlen P - off =? n) with false by lia; reflexivity|].
    split; [lia|]. split; [lia|]. split; [reflexivity|].
    rewrite skipn_skipn_z by lia. rewrite Hn. exact Ht.
Qed.

Lemma first_fragment_extends ip_mtu ident P tail :
  f4_hdr + 8 <= ip_mtu -> f4_maxsz ip_mtu < zlen P ->
  train_ok ip_mtu ident (f4_maxsz ip_mtu) tail (skipn (Z.to_nat (f4_maxsz ip_mtu)) P) ->
  train_ok ip_mtu ident 0 (mkPkt ident 0 true (firstn (Z.to_nat (f4_maxsz ip_mtu)) P) :: tail) P.
Proof.
  intros Hmtu Hbig Ht. pose proof (maxsz_facts ip_mtu Hmtu) as (Hm8 & Hmm & Hmfit & _).
  assert (Hne := train_ok_nonempty _ _ _ _ _ Ht). destruct tail as [|q rest]; [congruence|].
  apply train_ok_more. cbn [p_ident p_offset p_mf p_payload].
  assert (Hl : zlen (firstn (Z.to_nat (f4_maxsz ip_mtu)) P) = f4_maxsz ip_mtu) by (rewrite zlen_firstn; lia).
  assert (Hln : length (firstn (Z.to_nat (f4_maxsz ip_mtu)) P) = Z.to_nat (f4_maxsz ip_mtu)) by (unfold zlen in Hl; lia).
  rewrite Hl, Hln.
  split; [reflexivity|]. split; [reflexivity|]. split; [lia|]. split; [reflexivity|].
  split; [exact Hmm|]. split; [lia|]. split; [reflexivity|].
  replace (0 + f4_maxsz ip_mtu) with (f4_maxsz ip_mtu) by lia. exact Ht.
Qed.

(* a call of dispatch_ip that finds the fragmenter busy does not start a train *)
Lemma dispatch_ip_busy_result ip_mtu ident fr P :
  fr_finished fr = false -> snd (f4_dispatch_ip ip_mtu ident fr P) <> DipFragStarted.
Proof.
  intros H. unfold f4_dispatch_ip. cbv zeta. rewrite H.
  destruct (f4_hdr + zlen P >? ip_mtu); [|discriminate].
  destruct (zlen (fr_buffer fr) <? f4_hdr + zlen P); discriminate.
Qed.

(* a correct train whose frames all go to the link-layer address [hw] *)
Definition ltrain_ok (ip_mtu ident hw off : Z) (t : list frame) (data : list Z) : Prop :=
  Forall (fun f => fst f = hw) t /\ train_ok ip_mtu ident off (map snd t) data.

Lemma filter_frames_pair hw out :
  filter frame_is_fragment (map (pair hw) out) = map (pair hw) (filter p_is_fragment out).
Proof.
  induction out as [|p out IH]; [reflexivity|]. cbn [map filter]. unfold frame_is_fragment at 1. cbn [snd].
  destruct (p_is_fragment p); cbn [map]; rewrite IH; reflexivity.
Qed.

Lemma eg_dispatch_ip_parts ip_mtu ident fr hwst d :
  eg_dispatch_ip ip_mtu ident fr hwst d =
  (fst (fst (f4_dispatch_ip ip_mtu ident fr (snd d))),
   match snd (f4_dispatch_ip ip_mtu ident fr (snd d)) with DipFragStarted => fst d | _ => hwst end,
   map (pair (fst d)) (snd (fst (f4_dispatch_ip ip_mtu ident fr (snd d)))),
   snd (f4_dispatch_ip ip_mtu ident fr (snd d))).
Proof. unfold eg_dispatch_ip. destruct (f4_dispatch_ip ip_mtu ident fr (snd d)) as ((fr', out), r). reflexivity. Qed.

Section EgressOrder.
Variable ip_mtu : Z.
Hypothesis Hmtu : f4_hdr + 8 <= ip_mtu.
(* every datagram handed to the stack (by a socket or as an ingress-triggered reply), with the
   link-layer address resolved for its next hop *)
Variable sub : list dgram.

(* a complete fragment train of one of the submitted datagrams, every frame addressed to the
   link-layer address resolved for that datagram *)
Definition is_train (t : list frame) : Prop :=
  exists ident d, In d sub /\ ltrain_ok ip_mtu ident (fst d) 0 t (snd d).

(* [cur] = the frames of the datagram in the fragmenter that are already on the wire; [hwst] =
   the address stored in the fragmenter: whatever correct tail follows, the whole is a correct
   train of that datagram, and the stored address is the datagram's *)
Definition cur_ok (fr : fragmenter) (hwst : Z) (cur : list frame) : Prop :=
  (fr_finished fr = true /\ cur = []) \/
  (exists d off, In d sub /\ hwst = fst d /\ fr_progress fr (snd d) off /\
     Forall (fun f => fst f = hwst) cur /\
     forall tail, train_ok ip_mtu (fr_ident fr) off tail (skipn (Z.to_nat off) (snd d)) ->
                  train_ok ip_mtu (fr_ident fr) 0 (map snd cur ++ tail) (snd d)).

(* [hist] = all fragment frames emitted so far, in wire order *)
Definition stream_ok (fr : fragmenter) (hwst : Z) (hist : list frame) : Prop :=
  exists done cur, hist = concat done ++ cur /\ Forall is_train done /\ cur_ok fr hwst cur.

Lemma dispatch_ip_stream ident fr hwst d hist :
  stream_ok fr hwst hist -> In d sub ->
  let '(fr', hw', out, _) := eg_dispatch_ip ip_mtu ident fr hwst d in
  stream_ok fr' hw' (hist ++ filter frame_is_fragment out).
Proof.
  intros Hs HP. unfold eg_dispatch_ip. destruct d as (hw, P). cbn [fst snd] in *.
  destruct (Z_le_gt_dec (f4_hdr + zlen P) ip_mtu) as [Hsmall | Hbig].
  { rewrite dispatch_ip_small by exact Hsmall. cbn. rewrite app_nil_r. exact Hs. }
  destruct (Z_lt_ge_dec (zlen (fr_buffer fr)) (f4_hdr + zlen P)) as [Htoo | Hfit].
  { rewrite dispatch_ip_too_big by lia. cbn. rewrite app_nil_r. exact Hs. }
  destruct (fr_finished fr) eqn:Hfin.
  - destruct (dispatch_ip_start ip_mtu ident fr P Hmtu Hfin ltac:(lia) ltac:(lia)) as (fr' & Hd & Hp & Hid & _).
    rewrite Hd. cbn [map filter frame_is_fragment snd p_is_fragment p_mf p_offset orb].
    destruct Hs as (done & cur & Hh & Hdone & Hcur).
    assert (cur = []) as ->.
    { destruct Hcur as [(_ & Hc) | (d0 & off0 & _ & _ & Hp0 & _)]; [exact Hc|].
      rewrite (progress_not_finished _ _ _ Hp0) in Hfin. discriminate. }
    exists done, [(hw, mkPkt ident 0 true (firstn (Z.to_nat (f4_maxsz ip_mtu)) P))].
    split; [rewrite Hh, app_nil_r; reflexivity|]. split; [exact Hdone|].
    right. exists (hw, P), (f4_maxsz ip_mtu). cbn [fst snd].
    split; [exact HP|]. split; [reflexivity|]. split; [exact Hp|].
    split; [constructor; [reflexivity | constructor]|].
    intros tail Ht. rewrite Hid in *. cbn [map snd app].
    apply first_fragment_extends; [exact Hmtu | destruct Hp as (_ & _ & _ & _ & _ & _ & H & _); exact H | exact Ht].
  - pose proof (dispatch_ip_busy_preserves ip_mtu ident fr P Hfin) as H1.
    pose proof (dispatch_ip_busy_emits_no_fragment ip_mtu ident fr P Hfin) as H2.
    pose proof (dispatch_ip_busy_result ip_mtu ident fr P Hfin) as H3.
    destruct (f4_dispatch_ip ip_mtu ident fr P) as ((fr', out), r). cbn [fst snd] in *.
    subst fr'. rewrite filter_frames_pair, H2. cbn [map]. rewrite app_nil_r.
    destruct r; try exact Hs. congruence.
Qed.

Lemma ipv4_egress_stream can fr hwst hist :
  stream_ok fr hwst hist ->
  let '(fr', hw', out) := eg_ipv4_egress ip_mtu can fr hwst in
  stream_ok fr' hw' (hist ++ filter frame_is_fragment out).
Proof.
  intros (done & cur & Hh & Hdone & Hcur). unfold eg_ipv4_egress, f4_ipv4_egress.
  destruct (fr_finished fr) eqn:Hfin.
  - (* finished: reset, nothing to send *)
    assert (cur = []) as ->.
    { destruct Hcur as [(_ & Hc) | (d0 & off0 & _ & _ & Hp0 & _)]; [exact Hc|].
      rewrite (progress_not_finished _ _ _ Hp0) in Hfin. discriminate. }
    assert (He : fr_is_empty (fr_reset fr) = true) by reflexivity. rewrite He.
    cbn [map filter]. rewrite app_nil_r. exists done, []. split; [exact Hh|]. split; [exact Hdone|].
    left. split; reflexivity.
  - destruct Hcur as [(Hc & _) | (d & off & HP & Hhw & Hp & Hall & Hk)]; [congruence|].
    pose proof Hp as (_ & Hpl & Hsb & _ & Ho0 & _ & Holt & _).
    assert (Hne : fr_is_empty fr = false).
    { unfold fr_is_empty. rewrite Hpl. pose proof (zlen_nonneg (snd d)). unfold f4_hdr, wipv4_HEADER_LEN. lia. }
    rewrite Hne. replace (fr_packet_len fr >? fr_sent_bytes fr) with true by lia.
    destruct can; cbn [andb].
    + pose proof (frag_step_train ip_mtu fr (snd d) off Hmtu Hp) as Hs.
      destruct (f4_dispatch_ipv4_frag ip_mtu fr) as (fr', p).
      destruct Hs as (Hisf & Hid & _ & [(Hle & Hfin' & Hlast) | (Hgt & Hp' & Hmore)]).
      * cbn [map filter]. unfold frame_is_fragment at 1. cbn [snd]. rewrite Hisf.
        exists (done ++ [cur ++ [(hwst, p)]]), []. split.
        { rewrite Hh, concat_app. cbn [concat]. rewrite !app_nil_r, app_assoc. reflexivity. }
        split.
        { apply Forall_app. split; [exact Hdone|]. constructor; [|constructor].
          exists (fr_ident fr), d. split; [exact HP|]. split.
          - rewrite <- Hhw. apply Forall_app. split; [exact Hall | constructor; [reflexivity | constructor]].
          - rewrite map_app. cbn [map snd]. apply Hk; exact Hlast. }
        left. split; [exact Hfin' | reflexivity].
      * cbn [map filter]. unfold frame_is_fragment at 1. cbn [snd]. rewrite Hisf.
        exists done, (cur ++ [(hwst, p)]). split; [rewrite Hh, app_assoc; reflexivity|].
        split; [exact Hdone|]. right. exists d, (off + f4_maxsz ip_mtu).
        split; [exact HP|]. split; [exact Hhw|]. split; [exact Hp'|].
        split; [apply Forall_app; split; [exact Hall | constructor; [reflexivity | constructor]]|].
        intros tail Ht. rewrite Hid in *.
        rewrite map_app, <- app_assoc. cbn [map snd app]. apply Hk. apply Hmore. exact Ht.
    + cbn [map filter]. rewrite app_nil_r. exists done, cur. split; [exact Hh|]. split; [exact Hdone|].
      right. exists d, off. split; [exact HP|]. split; [exact Hhw|]. split; [exact Hp|]. split; [exact Hall | exact Hk].
Qed.

Definition queues_in_sub (socks : list (list dgram)) : Prop :=
  Forall (Forall (fun d => In d sub)) socks.

Lemma ingress_stream : forall rx fr hwst id b hist,
  stream_ok fr hwst hist -> Forall (fun d => In d sub) rx ->
  let '(fr', hw', _, _, rx', out) := eg_ingress ip_mtu fr hwst id b rx in
  stream_ok fr' hw' (hist ++ filter frame_is_fragment out) /\ Forall (fun d => In d sub) rx'.
Proof.
  induction rx as [|reply rest IH]; intros fr hwst id b hist Hs Hrx; cbn [eg_ingress].
  - cbn. rewrite app_nil_r. split; [exact Hs | constructor].
  - destruct (bud_has b).
    + inversion Hrx as [|? ? Hr Hrest]; subst.
      pose proof (dispatch_ip_stream id fr hwst reply hist Hs Hr) as H1.
      destruct (eg_dispatch_ip ip_mtu id fr hwst reply) as (((fr1, hw1), out), r).
      specialize (IH fr1 hw1 (eg_next_id id) (match out with [] => b | _ :: _ => bud_dec b end)
                     (hist ++ filter frame_is_fragment out) H1 Hrest).
      destruct (eg_ingress ip_mtu fr1 hw1 (eg_next_id id) _ rest) as (((((fr2, hw2), id2), b2), rx2), out2).
      destruct IH as (IH1 & IH2). split; [|exact IH2].
      rewrite filter_app, app_assoc. exact IH1.
    + cbn. rewrite app_nil_r. split; [exact Hs | exact Hrx].
Qed.

Lemma socket_egress_stream : forall socks fr hwst id b hist,
  stream_ok fr hwst hist -> queues_in_sub socks ->
  let '(fr', hw', _, _, socks', out, _) := eg_socket_egress ip_mtu fr hwst id b socks in
  stream_ok fr' hw' (hist ++ filter frame_is_fragment out) /\ queues_in_sub socks'.
Proof.
  induction socks as [|q rest IH]; intros fr hwst id b hist Hs Hq; cbn [eg_socket_egress].
  - cbn. rewrite app_nil_r. split; [exact Hs | constructor].
  - inversion Hq as [|? ? Hq1 Hqrest]; subst.
    destruct q as [|d q'].
    + specialize (IH fr hwst id b hist Hs Hqrest).
      destruct (eg_socket_egress ip_mtu fr hwst id b rest) as ((((((fr2, hw2), id2), b2), rest2), out2), ch).
      destruct IH as (IH1 & IH2). split; [exact IH1 | constructor; assumption].
    + destruct (negb (fr_finished fr)).
      * specialize (IH fr hwst id b hist Hs Hqrest).
        destruct (eg_socket_egress ip_mtu fr hwst id b rest) as ((((((fr2, hw2), id2), b2), rest2), out2), ch).
        destruct IH as (IH1 & IH2). split; [exact IH1 | constructor; assumption].
      * destruct (negb (bud_has b)).
        -- cbn. rewrite app_nil_r. split; [exact Hs | exact Hq].
        -- inversion Hq1 as [|? ? Hp Hq']; subst.
           pose proof (dispatch_ip_stream id fr hwst d hist Hs Hp) as H1.
           destruct (eg_dispatch_ip ip_mtu id fr hwst d) as (((fr1, hw1), out), r).
           specialize (IH fr1 hw1 (eg_next_id id) (match out with [] => b | _ :: _ => bud_dec b end)
                          (hist ++ filter frame_is_fragment out) H1 Hqrest).
           destruct (eg_socket_egress ip_mtu fr1 hw1 (eg_next_id id) _ rest)
             as ((((((fr2, hw2), id2), b2), rest2), out2), ch).
           destruct IH as (IH1 & IH2). split; [|constructor; assumption].
           rewrite filter_app, app_assoc. exact IH1.
Qed.

(* invariant of the whole interface state together with the fragment frames emitted so far *)
Definition eg_inv (st : egress) (hist : list frame) : Prop :=
  stream_ok (eg_fr st) (eg_hw st) hist /\ queues_in_sub (eg_socks st) /\
  Forall (fun d => In d sub) (eg_rx st).

Lemma poll_egress_inv st b hist :
  eg_inv st hist ->
  let '(st', _, out, _) := eg_poll_egress ip_mtu st b in
  eg_inv st' (hist ++ filter frame_is_fragment out).
Proof.
  intros (Hs & Hq & Hr). unfold eg_poll_egress.
  pose proof (ipv4_egress_stream (bud_has b) (eg_fr st) (eg_hw st) hist Hs) as H1.
  destruct (eg_ipv4_egress ip_mtu (bud_has b) (eg_fr st) (eg_hw st)) as ((fr1, hw1), out1).
  pose proof (socket_egress_stream (eg_socks st) fr1 hw1 (eg_id st)
                (match out1 with [] => b | _ :: _ => bud_dec b end) _ H1 Hq) as H2.
  destruct (eg_socket_egress ip_mtu fr1 hw1 (eg_id st) _ (eg_socks st))
    as ((((((fr2, hw2), id2), b2), socks2), out2), ch).
  destruct H2 as (H2 & H3). unfold eg_inv. cbn [eg_fr eg_hw eg_socks eg_rx].
  rewrite filter_app, app_assoc. repeat split; assumption.
Qed.

Lemma egress_loop_inv : forall fuel st b hist,
  eg_inv st hist ->
  let '(st', _, out) := eg_egress_loop fuel ip_mtu st b in
  eg_inv st' (hist ++ filter frame_is_fragment out).
Proof.
  induction fuel as [|k IH]; intros st b hist Hi; cbn [eg_egress_loop].
  - cbn. rewrite app_nil_r. exact Hi.
  - pose proof (poll_egress_inv st b hist Hi) as H1.
    destruct (eg_poll_egress ip_mtu st b) as (((st1, b1), out1), ch).
    destruct ch; [|exact H1].
    specialize (IH st1 b1 _ H1).
    destruct (eg_egress_loop k ip_mtu st1 b1) as ((st2, b2), out2).
    rewrite filter_app, app_assoc. exact IH.
Qed.

Lemma poll_inv st b hist :
  eg_inv st hist ->
  let '(st', out) := eg_poll ip_mtu st b in
  eg_inv st' (hist ++ filter frame_is_fragment out).
Proof.
  intros (Hs & Hq & Hr). unfold eg_poll.
  pose proof (ingress_stream (eg_rx st) (eg_fr st) (eg_hw st) (eg_id st) b hist Hs Hr) as H1.
  destruct (eg_ingress ip_mtu (eg_fr st) (eg_hw st) (eg_id st) b (eg_rx st))
    as (((((fr1, hw1), id1), b1), rx1), out1).
  destruct H1 as (H1 & H1r).
  assert (Hi1 : eg_inv (mkEg fr1 hw1 id1 (eg_socks st) rx1) (hist ++ filter frame_is_fragment out1))
    by (repeat split; assumption).
  pose proof (egress_loop_inv (S (eg_queued (eg_socks st))) _ b1 _ Hi1) as H2.
  destruct (eg_egress_loop (S (eg_queued (eg_socks st))) ip_mtu _ b1) as ((st2, b2), out2).
  rewrite filter_app, app_assoc. exact H2.
Qed.

Definition op_in_sub (op : eg_op) : Prop :=
  match op with
  | ESend _ d => In d sub
  | ERecv d => In d sub
  | EPoll _ => True
  end.

Lemma enqueue_in_sub : forall socks i d,
  queues_in_sub socks -> In d sub -> queues_in_sub (eg_enqueue socks i d).
Proof.
  induction socks as [|q rest IH]; intros i d Hq HP; cbn [eg_enqueue]; [constructor|].
  inversion Hq as [|? ? H1 H2]; subst. destruct i as [|j].
  - constructor; [|exact H2]. apply Forall_app. split; [exact H1 | constructor; [exact HP | constructor]].
  - constructor; [exact H1 | apply IH; assumption].
Qed.

Lemma step_inv st op hist :
  eg_inv st hist -> op_in_sub op ->
  let '(st', out) := eg_step ip_mtu st op in
  eg_inv st' (hist ++ filter frame_is_fragment out).
Proof.
  intros Hi Hop. destruct op as [i P | P | b]; cbn [eg_step op_in_sub] in *.
  - destruct Hi as (Hs & Hq & Hr). cbn. rewrite app_nil_r. repeat split; cbn [eg_fr eg_hw eg_socks eg_rx];
      [exact Hs | apply enqueue_in_sub; assumption | exact Hr].
  - destruct Hi as (Hs & Hq & Hr). cbn. rewrite app_nil_r. repeat split; cbn [eg_fr eg_hw eg_socks eg_rx];
      [exact Hs | exact Hq | apply Forall_app; split; [exact Hr | constructor; [exact Hop | constructor]]].
  - apply poll_inv. exact Hi.
Qed.

Lemma run_inv : forall ops st hist,
  eg_inv st hist -> Forall op_in_sub ops ->
  let '(st', out) := eg_run ip_mtu st ops in
  eg_inv st' (hist ++ filter frame_is_fragment out).
Proof.
  induction ops as [|op rest IH]; intros st hist Hi Hops; cbn [eg_run].
  - cbn. rewrite app_nil_r. exact Hi.
  - inversion Hops as [|? ? Ho Hr]; subst.
    pose proof (step_inv st op hist Hi Ho) as H1.
    destruct (eg_step ip_mtu st op) as (st1, out1).
    specialize (IH st1 _ H1 Hr).
    destruct (eg_run ip_mtu st1 rest) as (st2, out2).
    rewrite filter_app, app_assoc. exact IH.
Qed.


(* ---------- no socket packet between the fragments of a train ---------- *)

(* the datagrams that are ingress-triggered replies (they bypass socket_egress) *)
Variable replies : list dgram.

Definition is_reply (f : frame) : Prop :=
  exists P, In (fst f, P) replies /\ snd f = mkPkt 0 0 false P.

(* scan of the wire: [in_train] = a first fragment has been seen and its last fragment not yet.
   A fragment sets the state to its MF flag; a whole packet seen inside a train must be an
   ingress-triggered reply (never a socket packet) *)
Fixpoint wire_ok (in_train : bool) (out : list frame) : Prop :=
  match out with
  | [] => True
  | f :: rest =>
      if frame_is_fragment f then wire_ok (p_mf (snd f)) rest
      else (in_train = true -> is_reply f) /\ wire_ok in_train rest
  end.

Fixpoint train_state (b : bool) (out : list frame) : bool :=
  match out with
  | [] => b
  | f :: rest => train_state (if frame_is_fragment f then p_mf (snd f) else b) rest
  end.

Lemma train_state_app o1 : forall b o2, train_state b (o1 ++ o2) = train_state (train_state b o1) o2.
Proof. induction o1 as [|f o1 IH]; intros b o2; [reflexivity | cbn; apply IH]. Qed.

Lemma wire_ok_app o1 : forall b o2,
  wire_ok b (o1 ++ o2) <-> wire_ok b o1 /\ wire_ok (train_state b o1) o2.
Proof.
  induction o1 as [|f o1 IH]; intros b o2; cbn [app wire_ok train_state]; [tauto|].
  destruct (frame_is_fragment f); rewrite IH; tauto.
Qed.

(* [out] emitted while the fragmenter goes from [fr] to [fr']: correct on the wire, and the scan
   state tracks "fragmenter not finished" *)
Definition wire_step (fr : fragmenter) (out : list frame) (fr' : fragmenter) : Prop :=
  wire_ok (negb (fr_finished fr)) out /\
  train_state (negb (fr_finished fr)) out = negb (fr_finished fr').

Lemma wire_step_nil fr fr' : fr_finished fr' = fr_finished fr -> wire_step fr [] fr'.
Proof. intros H. split; [exact I | cbn; rewrite H; reflexivity]. Qed.

Lemma wire_step_app fr o1 fr1 o2 fr2 :
  wire_step fr o1 fr1 -> wire_step fr1 o2 fr2 -> wire_step fr (o1 ++ o2) fr2.
Proof.
  intros (H1 & H2) (H3 & H4). split.
  - apply wire_ok_app. rewrite H2. split; assumption.
  - rewrite train_state_app, H2. exact H4.
Qed.

Lemma stream_ok_wf fr hwst hist :
  stream_ok fr hwst hist -> fr_finished fr = true \/ exists P off, fr_progress fr P off.
Proof.
  intros (done & cur & _ & _ & [(H & _) | (d & off & _ & _ & Hp & _)]); [left; exact H|].
  right. exists (snd d), off. exact Hp.
Qed.

(* dispatch_ip: a packet dispatched while fragments are unsent must be an ingress reply *)
Lemma dispatch_ip_wire ident fr hwst d :
  (fr_finished fr = false -> In d replies) ->
  let '(fr', _, out, _) := eg_dispatch_ip ip_mtu ident fr hwst d in
  wire_step fr out fr'.
Proof.
  intros Hrep. rewrite eg_dispatch_ip_parts. destruct d as (hw, P). cbn [fst snd] in *.
  destruct (Z_le_gt_dec (f4_hdr + zlen P) ip_mtu) as [Hsmall | Hbig].
  { rewrite dispatch_ip_small by exact Hsmall. cbn [fst snd map]. split.
    - cbn [wire_ok frame_is_fragment snd p_is_fragment p_mf p_offset orb].
      change (negb (0 =? 0)) with false. cbn [orb]. split; [|exact I].
      intros Hb. exists P. split; [|reflexivity]. apply Hrep. destruct (fr_finished fr); [discriminate | reflexivity].
    - reflexivity. }
  destruct (Z_lt_ge_dec (zlen (fr_buffer fr)) (f4_hdr + zlen P)) as [Htoo | Hfit].
  { rewrite dispatch_ip_too_big by lia. cbn [fst snd map]. apply wire_step_nil. reflexivity. }
  destruct (fr_finished fr) eqn:Hfin.
  - destruct (dispatch_ip_start ip_mtu ident fr P Hmtu Hfin ltac:(lia) ltac:(lia)) as (fr' & Hd & Hp & _).
    rewrite Hd. cbn [fst snd map]. unfold wire_step. rewrite Hfin, (progress_not_finished _ _ _ Hp).
    split; [exact I | reflexivity].
  - pose proof (dispatch_ip_busy_preserves ip_mtu ident fr P Hfin) as H1.
    assert (H2 : snd (fst (f4_dispatch_ip ip_mtu ident fr P)) = []).
    { unfold f4_dispatch_ip. cbv zeta. rewrite Hfin.
      replace (f4_hdr + zlen P >? ip_mtu) with true by lia.
      replace (zlen (fr_buffer fr) <? f4_hdr + zlen P) with false by lia. reflexivity. }
    rewrite H1, H2. cbn [map]. apply wire_step_nil. reflexivity.
Qed.

Lemma frag_step_mf fr P off :
  fr_progress fr P off ->
  let '(fr', p) := f4_dispatch_ipv4_frag ip_mtu fr in
  p_is_fragment p = true /\ p_mf p = negb (fr_finished fr').
Proof.
  intros Hp. pose proof (frag_step_train ip_mtu fr P off Hmtu Hp) as Hs.
  pose proof (frag_step ip_mtu fr P off Hmtu Hp) as Hfs.
  destruct (f4_dispatch_ipv4_frag ip_mtu fr) as (fr', p). cbv zeta in Hfs.
  destruct Hs as (Hisf & _). split; [exact Hisf|].
  destruct Hfs as (Hpk & _ & _ & _ & Hfin & Hprog).
  pose proof (maxsz_facts ip_mtu Hmtu) as (Hm8 & _).
  destruct Hp as (_ & _ & _ & _ & _ & _ & Holt & _).
  rewrite Hpk. cbn [p_mf].
  destruct (Z_le_gt_dec (zlen P - off) (f4_maxsz ip_mtu)) as [Hle | Hgt].
  - rewrite (Hfin Hle). cbn [negb]. lia.
  - rewrite (progress_not_finished _ _ _ (Hprog ltac:(lia))). cbn [negb]. lia.
Qed.

Lemma ipv4_egress_wire can fr hwst hist :
  stream_ok fr hwst hist ->
  let '(fr', _, out) := eg_ipv4_egress ip_mtu can fr hwst in
  wire_step fr out fr'.
Proof.
  intros Hs. destruct (stream_ok_wf _ _ _ Hs) as [Hfin | (P & off & Hp)]; unfold eg_ipv4_egress, f4_ipv4_egress.
  - rewrite Hfin. assert (He : fr_is_empty (fr_reset fr) = true) by reflexivity. rewrite He.
    cbn [map]. apply wire_step_nil. rewrite Hfin. reflexivity.
  - rewrite (progress_not_finished _ _ _ Hp).
    pose proof Hp as (_ & Hpl & Hsb & _ & _ & _ & Holt & _).
    assert (Hne : fr_is_empty fr = false).
    { unfold fr_is_empty. rewrite Hpl. pose proof (zlen_nonneg P). unfold f4_hdr, wipv4_HEADER_LEN. lia. }
    rewrite Hne. replace (fr_packet_len fr >? fr_sent_bytes fr) with true by lia.
    destruct can; cbn [andb].
    + pose proof (frag_step_mf fr P off Hp) as Hm.
      destruct (f4_dispatch_ipv4_frag ip_mtu fr) as (fr', p). destruct Hm as (Hisf & Hmf).
      cbn [map]. unfold wire_step. cbn [wire_ok train_state]. unfold frame_is_fragment. cbn [snd].
      rewrite Hisf. split; [exact I | exact Hmf].
    + cbn [map]. apply wire_step_nil. reflexivity.
Qed.

Lemma ingress_wire : forall rx fr hwst id b hist,
  stream_ok fr hwst hist -> Forall (fun d => In d sub) rx -> Forall (fun d => In d replies) rx ->
  let '(fr', _, _, _, _, out) := eg_ingress ip_mtu fr hwst id b rx in
  wire_step fr out fr'.
Proof.
  induction rx as [|reply rest IH]; intros fr hwst id b hist Hs Hsub Hrx; cbn [eg_ingress].
  - apply wire_step_nil. reflexivity.
  - destruct (bud_has b); [|apply wire_step_nil; reflexivity].
    inversion Hrx as [|? ? Hr Hrest]; subst. inversion Hsub as [|? ? Hr' Hrest']; subst.
    pose proof (dispatch_ip_stream id fr hwst reply hist Hs Hr') as H1.
    pose proof (dispatch_ip_wire id fr hwst reply (fun _ => Hr)) as H2.
    destruct (eg_dispatch_ip ip_mtu id fr hwst reply) as (((fr1, hw1), out), r).
    specialize (IH fr1 hw1 (eg_next_id id) (match out with [] => b | _ :: _ => bud_dec b end) _ H1 Hrest' Hrest).
    destruct (eg_ingress ip_mtu fr1 hw1 (eg_next_id id) _ rest) as (((((fr2, hw2), id2), b2), rx2), out2).
    eapply wire_step_app; eassumption.
Qed.

Lemma socket_egress_wire : forall socks fr hwst id b hist,
  stream_ok fr hwst hist -> queues_in_sub socks ->
  let '(fr', _, _, _, _, out, _) := eg_socket_egress ip_mtu fr hwst id b socks in
  wire_step fr out fr'.
Proof.
  induction socks as [|q rest IH]; intros fr hwst id b hist Hs Hq; cbn [eg_socket_egress].
  - apply wire_step_nil. reflexivity.
  - inversion Hq as [|? ? Hq1 Hqrest]; subst.
    destruct q as [|d q'].
    + specialize (IH fr hwst id b hist Hs Hqrest).
      destruct (eg_socket_egress ip_mtu fr hwst id b rest) as ((((((fr2, hw2), id2), b2), rest2), out2), ch).
      exact IH.
    + destruct (negb (fr_finished fr)) eqn:Hbusy.
      * specialize (IH fr hwst id b hist Hs Hqrest).
        destruct (eg_socket_egress ip_mtu fr hwst id b rest) as ((((((fr2, hw2), id2), b2), rest2), out2), ch).
        exact IH.
      * destruct (negb (bud_has b)); [apply wire_step_nil; reflexivity|].
        inversion Hq1 as [|? ? Hp Hq']; subst.
        assert (Hfin : fr_finished fr = true) by (destruct (fr_finished fr); [reflexivity | discriminate]).
        pose proof (dispatch_ip_stream id fr hwst d hist Hs Hp) as H1.
        pose proof (dispatch_ip_wire id fr hwst d ltac:(intros H; congruence)) as H2.
        destruct (eg_dispatch_ip ip_mtu id fr hwst d) as (((fr1, hw1), out), r).
        specialize (IH fr1 hw1 (eg_next_id id) (match out with [] => b | _ :: _ => bud_dec b end) _ H1 Hqrest).
        destruct (eg_socket_egress ip_mtu fr1 hw1 (eg_next_id id) _ rest)
          as ((((((fr2, hw2), id2), b2), rest2), out2), ch).
        eapply wire_step_app; eassumption.
Qed.

Definition eg_inv_w (st : egress) (hist : list frame) : Prop :=
  eg_inv st hist /\ Forall (fun d => In d replies) (eg_rx st).

Lemma poll_egress_wire st b hist :
  eg_inv st hist ->
  let '(st', _, out, _) := eg_poll_egress ip_mtu st b in
  wire_step (eg_fr st) out (eg_fr st').
Proof.
  intros (Hs & Hq & Hr). unfold eg_poll_egress.
  pose proof (ipv4_egress_stream (bud_has b) (eg_fr st) (eg_hw st) hist Hs) as H1.
  pose proof (ipv4_egress_wire (bud_has b) (eg_fr st) (eg_hw st) hist Hs) as W1.
  destruct (eg_ipv4_egress ip_mtu (bud_has b) (eg_fr st) (eg_hw st)) as ((fr1, hw1), out1).
  pose proof (socket_egress_wire (eg_socks st) fr1 hw1 (eg_id st)
                (match out1 with [] => b | _ :: _ => bud_dec b end) _ H1 Hq) as W2.
  destruct (eg_socket_egress ip_mtu fr1 hw1 (eg_id st) _ (eg_socks st))
    as ((((((fr2, hw2), id2), b2), socks2), out2), ch).
  cbn [eg_fr]. eapply wire_step_app; eassumption.
Qed.

Lemma egress_loop_wire : forall fuel st b hist,
  eg_inv st hist ->
  let '(st', _, out) := eg_egress_loop fuel ip_mtu st b in
  wire_step (eg_fr st) out (eg_fr st').
Proof.
  induction fuel as [|k IH]; intros st b hist Hi; cbn [eg_egress_loop].
  - apply wire_step_nil. reflexivity.
  - pose proof (poll_egress_inv st b hist Hi) as H1.
    pose proof (poll_egress_wire st b hist Hi) as W1.
    destruct (eg_poll_egress ip_mtu st b) as (((st1, b1), out1), ch).
    destruct ch; [|exact W1].
    specialize (IH st1 b1 _ H1).
    destruct (eg_egress_loop k ip_mtu st1 b1) as ((st2, b2), out2).
    eapply wire_step_app; eassumption.
Qed.

Lemma ingress_rx_Forall (Q : dgram -> Prop) : forall rx fr hwst id b,
  Forall Q rx -> Forall Q (snd (fst (eg_ingress ip_mtu fr hwst id b rx))).
Proof.
  induction rx as [|r rest IH]; intros fr hw id b H; cbn [eg_ingress]; [constructor|].
  inversion H; subst. destruct (bud_has b); [|cbn; assumption].
  destruct (eg_dispatch_ip ip_mtu id fr hw r) as (((fr1, hw1), out), rr).
  specialize (IH fr1 hw1 (eg_next_id id) (match out with [] => b | _ :: _ => bud_dec b end) H3).
  destruct (eg_ingress ip_mtu fr1 hw1 (eg_next_id id) _ rest) as (((((fr2, hw2), id2), b2), rx2), out2).
  exact IH.
Qed.

Lemma poll_egress_rx st b : eg_rx (fst (fst (fst (eg_poll_egress ip_mtu st b)))) = eg_rx st.
Proof.
  unfold eg_poll_egress.
  destruct (eg_ipv4_egress ip_mtu (bud_has b) (eg_fr st) (eg_hw st)) as ((fra, hwa), oa).
  destruct (eg_socket_egress ip_mtu fra hwa (eg_id st) _ (eg_socks st)) as ((((((frb, hwb), idb), bb), sb), ob), ch).
  reflexivity.
Qed.

Lemma egress_loop_rx : forall fuel st b, eg_rx (fst (fst (eg_egress_loop fuel ip_mtu st b))) = eg_rx st.
Proof.
  induction fuel as [|k IH]; intros st b; cbn [eg_egress_loop]; [reflexivity|].
  pose proof (poll_egress_rx st b) as H1.
  destruct (eg_poll_egress ip_mtu st b) as (((st1, b1), out1), ch). cbn [fst] in H1.
  destruct ch; [|exact H1].
  specialize (IH st1 b1). destruct (eg_egress_loop k ip_mtu st1 b1) as ((st2, b2), out2).
  cbn [fst] in *. congruence.
Qed.

Lemma poll_wire st b hist :
  eg_inv_w st hist ->
  let '(st', out) := eg_poll ip_mtu st b in
  wire_step (eg_fr st) out (eg_fr st') /\ Forall (fun d => In d replies) (eg_rx st').
Proof.
  intros ((Hs & Hq & Hr) & Hrep). unfold eg_poll.
  pose proof (ingress_stream (eg_rx st) (eg_fr st) (eg_hw st) (eg_id st) b hist Hs Hr) as H1.
  pose proof (ingress_wire (eg_rx st) (eg_fr st) (eg_hw st) (eg_id st) b hist Hs Hr Hrep) as W1.
  pose proof (ingress_rx_Forall _ (eg_rx st) (eg_fr st) (eg_hw st) (eg_id st) b Hrep) as Hrx.
  destruct (eg_ingress ip_mtu (eg_fr st) (eg_hw st) (eg_id st) b (eg_rx st))
    as (((((fr1, hw1), id1), b1), rx1), out1).
  cbn [fst snd] in Hrx. destruct H1 as (H1 & H1r).
  assert (Hi1 : eg_inv (mkEg fr1 hw1 id1 (eg_socks st) rx1) (hist ++ filter frame_is_fragment out1))
    by (repeat split; assumption).
  pose proof (egress_loop_wire (S (eg_queued (eg_socks st))) _ b1 _ Hi1) as W2.
  pose proof (egress_loop_rx (S (eg_queued (eg_socks st))) (mkEg fr1 hw1 id1 (eg_socks st) rx1) b1) as Hrx2.
  destruct (eg_egress_loop (S (eg_queued (eg_socks st))) ip_mtu _ b1) as ((st2, b2), out2).
  cbn [fst eg_fr eg_rx] in *. split; [eapply wire_step_app; eassumption | rewrite Hrx2; exact Hrx].
Qed.

Definition op_in_replies (op : eg_op) : Prop :=
  match op with ERecv d => In d replies | _ => True end.

Lemma step_wire st op hist :
  eg_inv_w st hist -> op_in_sub op -> op_in_replies op ->
  let '(st', out) := eg_step ip_mtu st op in
  wire_step (eg_fr st) out (eg_fr st') /\ eg_inv_w st' (hist ++ filter frame_is_fragment out).
Proof.
  intros Hw Hop Hrp. pose proof Hw as (Hi & Hrep).
  pose proof (step_inv st op hist Hi Hop) as H1.
  destruct op as [i P | P | b]; cbn [eg_step op_in_sub op_in_replies] in *.
  - split; [apply wire_step_nil; reflexivity|]. split; [exact H1 | exact Hrep].
  - split; [apply wire_step_nil; reflexivity|]. split; [exact H1|].
    cbn [eg_rx]. apply Forall_app. split; [exact Hrep | constructor; [exact Hrp | constructor]].
  - pose proof (poll_wire st b hist Hw) as W.
    destruct (eg_poll ip_mtu st b) as (st', out). destruct W as (W1 & W2).
    split; [exact W1 | split; assumption].
Qed.

Lemma run_wire : forall ops st hist,
  eg_inv_w st hist -> Forall op_in_sub ops -> Forall op_in_replies ops ->
  let '(st', out) := eg_run ip_mtu st ops in
  wire_step (eg_fr st) out (eg_fr st').
Proof.
  induction ops as [|op rest IH]; intros st hist Hi Hops Hrs; cbn [eg_run].
  - apply wire_step_nil. reflexivity.
  - inversion Hops as [|? ? Ho Hr]; subst. inversion Hrs as [|? ? Ho' Hr']; subst.
    pose proof (step_wire st op hist Hi Ho Ho') as H1.
    destruct (eg_step ip_mtu st op) as (st1, out1). destruct H1 as (W1 & Hi1).
    specialize (IH st1 _ Hi1 Hr Hr').
    destruct (eg_run ip_mtu st1 rest) as (st2, out2).
    eapply wire_step_app; eassumption.
Qed.

End EgressOrder.

(* the datagrams an operation sequence hands to the stack *)
Fixpoint ops_payloads (ops : list eg_op) : list dgram :=
  match ops with
  | [] => []
  | ESend _ d :: rest => d :: ops_payloads rest
  | ERecv d :: rest => d :: ops_payloads rest
  | EPoll _ :: rest => ops_payloads rest
  end.

Lemma ops_in_payloads ops : Forall (op_in_sub (ops_payloads ops)) ops.
Proof.
  assert (H : forall sub, (forall P, In P (ops_payloads ops) -> In P sub) -> Forall (op_in_sub sub) ops).
  { induction ops as [|op rest IH]; intros sub Hsub; [constructor|].
    constructor.
    - destruct op; cbn in *; try exact I; apply Hsub; left; reflexivity.
    - apply IH. intros P HP. apply Hsub. destruct op; cbn; try (right; exact HP); exact HP. }
  apply H. tauto.
Qed.

(* C12 back_to_back_not_mixed: for every sequence of sends, ingress-triggered replies and polls
   with any device budgets, the fragment frames on the wire are, in order, complete correct
   trains of submitted datagrams -- every frame of a train addressed to the link-layer address
   resolved for that datagram when it was admitted -- followed by the part of the train in
   progress; the address stored in the fragmenter is that datagram's; and what the fragmenter
   will still send (one fragment per egress step) completes that train correctly. *)
Lemma c12_back_to_back ip_mtu bufsize id0 nsocks ops :
  f4_hdr + 8 <= ip_mtu ->
  let '(st, out) := eg_run ip_mtu (eg_init bufsize id0 nsocks) ops in
  exists done cur,
    filter frame_is_fragment out = concat done ++ cur /\
    Forall (fun t => exists ident d, In d (ops_payloads ops) /\
                       ltrain_ok ip_mtu ident (fst d) 0 t (snd d)) done /\
    ((fr_finished (eg_fr st) = true /\ cur = []) \/
     (exists d, In d (ops_payloads ops) /\ fr_finished (eg_fr st) = false /\
        eg_hw st = fst d /\ Forall (fun f => fst f = fst d) cur /\
        forall fuel, (length (snd d) <= fuel)%nat ->
          train_ok ip_mtu (fr_ident (eg_fr st)) 0
                   (map snd cur ++ f4_drain fuel ip_mtu (eg_fr st)) (snd d))).
Proof.
  intros Hmtu.
  assert (Hi0 : eg_inv ip_mtu (ops_payloads ops) (eg_init bufsize id0 nsocks) []).
  { unfold eg_inv, eg_init. cbn [eg_fr eg_hw eg_socks eg_rx]. split; [|split; [|constructor]].
    - exists [], []. split; [reflexivity|]. split; [constructor|]. left. split; reflexivity.
    - unfold queues_in_sub. apply Forall_forall. intros q Hq. apply repeat_spec in Hq. subst q. constructor. }
  pose proof (run_inv ip_mtu Hmtu (ops_payloads ops) ops _ [] Hi0 (ops_in_payloads ops)) as H.
  destruct (eg_run ip_mtu (eg_init bufsize id0 nsocks) ops) as (st, out).
  cbn [app] in H. destruct H as ((done & cur & Hh & Hdone & Hcur) & _ & _).
  exists done, cur. split; [exact Hh|]. split; [exact Hdone|].
  destruct Hcur as [Hc | (d & off & HP & Hhw & Hp & Hall & Hk)]; [left; exact Hc|].
  right. exists d. split; [exact HP|]. split; [exact (progress_not_finished _ _ _ Hp)|].
  split; [exact Hhw|]. split; [rewrite <- Hhw; exact Hall|].
  intros fuel Hfuel. apply Hk. apply drain_train; [exact Hmtu | exact Hp|].
  destruct Hp as (_ & _ & _ & _ & Ho & _). unfold zlen. lia.
Qed.

(* the datagrams that enter as ingress-triggered replies *)
Fixpoint ops_replies (ops : list eg_op) : list dgram :=
  match ops with
  | [] => []
  | ERecv d :: rest => d :: ops_replies rest
  | _ :: rest => ops_replies rest
  end.

Lemma ops_in_replies ops : Forall (op_in_replies (ops_replies ops)) ops.
Proof.
  assert (H : forall rs, (forall P, In P (ops_replies ops) -> In P rs) -> Forall (op_in_replies rs) ops).
  { induction ops as [|op rest IH]; intros rs Hsub; [constructor|].
    constructor.
    - destruct op; cbn in *; try exact I. apply Hsub; left; reflexivity.
    - apply IH. intros P HP. apply Hsub. destruct op; cbn; try (right; exact HP); exact HP. }
  apply H. tauto.
Qed.

(* C12 back to back, wire order: scanning everything the interface emits, between the first and
   the last fragment of a train NO socket packet appears -- the only whole packets there are
   ingress-triggered replies -- and the scan ends "inside a train" exactly when the fragmenter
   still holds unsent fragments.  (A small datagram queued behind an oversized one can therefore
   not overtake its remaining fragments.) *)
Lemma c12_no_socket_packet_inside_train ip_mtu bufsize id0 nsocks ops :
  f4_hdr + 8 <= ip_mtu ->
  let '(st, out) := eg_run ip_mtu (eg_init bufsize id0 nsocks) ops in
  wire_ok (ops_replies ops) false out /\
  train_state false out = negb (fr_finished (eg_fr st)).
Proof.
  intros Hmtu.
  assert (Hi0 : eg_inv_w ip_mtu (ops_payloads ops) (ops_replies ops) (eg_init bufsize id0 nsocks) []).
  { split; [|constructor]. unfold eg_inv, eg_init. cbn [eg_fr eg_hw eg_socks eg_rx]. split; [|split; [|constructor]].
    - exists [], []. split; [reflexivity|]. split; [constructor|]. left. split; reflexivity.
    - unfold queues_in_sub. apply Forall_forall. intros q Hq. apply repeat_spec in Hq. subst q. constructor. }
  pose proof (run_wire ip_mtu Hmtu (ops_payloads ops) (ops_replies ops) ops _ [] Hi0
                (ops_in_payloads ops) (ops_in_replies ops)) as H.
  destruct (eg_run ip_mtu (eg_init bufsize id0 nsocks) ops) as (st, out).
  exact H.
Qed.

(* the defect scenario: one socket, 1400 / 1200 / 10 bytes queued back to back at IP MTU 576: the
   10-byte datagram leaves after both trains, not between the fragments of the first *)
Definition c12_overtake_ops : list eg_op :=
  [ESend 0 (1, repeat 17 1408); ESend 0 (1, repeat 34 1208); ESend 0 (1, repeat 51 18);
   EPoll None; EPoll None; EPoll None; EPoll None].

Lemma c12_overtake_example :
  map (fun f => (p_is_fragment (snd f), p_offset (snd f), zlen (p_payload (snd f)), hd 0 (p_payload (snd f))))
      (snd (eg_run 576 (eg_init cfg_FRAGMENTATION_BUFFER_SIZE 7 1) c12_overtake_ops)) =
  [(true, 0, 552, 17); (true, 552, 552, 17); (true, 1104, 304, 17);
   (true, 0, 552, 34); (true, 552, 552, 34); (true, 1104, 104, 34); (false, 0, 18, 51)].
Proof. vm_compute. reflexivity. Qed.

(* a packet that is dropped (buffer too small, fragmenter busy) or emitted whole changes nothing
   in the fragmenter, in particular not the stored link-layer address; only starting a train
   stores the address resolved for that datagram *)
Lemma dispatch_ip_hw ip_mtu ident fr hwst d :
  let '(fr', hw', out, r) := eg_dispatch_ip ip_mtu ident fr hwst d in
  Forall (fun f => fst f = fst d) out /\
  (r <> DipFragStarted -> fr' = fr /\ hw' = hwst) /\
  (r = DipFragStarted -> hw' = fst d) /\
  (fr_finished fr = false -> r <> DipFragStarted).
Proof.
  unfold eg_dispatch_ip.
  pose proof (dispatch_ip_busy_result ip_mtu ident fr (snd d)) as Hb.
  assert (Hsame : snd (f4_dispatch_ip ip_mtu ident fr (snd d)) <> DipFragStarted ->
                  fst (fst (f4_dispatch_ip ip_mtu ident fr (snd d))) = fr).
  { unfold f4_dispatch_ip. cbv zeta. destruct (f4_hdr + zlen (snd d) >? ip_mtu); [|reflexivity].
    destruct (zlen (fr_buffer fr) <? f4_hdr + zlen (snd d)); [reflexivity|].
    destruct (negb (fr_finished fr)); [reflexivity|]. cbn [snd]. congruence. }
  destruct (f4_dispatch_ip ip_mtu ident fr (snd d)) as ((fr', out), r). cbn [fst snd] in *.
  split; [apply Forall_forall; intros f Hf; apply in_map_iff in Hf; destruct Hf as (p & <- & _); reflexivity|].
  split; [intros Hr; split; [apply Hsame; exact Hr | destruct r; congruence]|].
  split; [intros ->; reflexivity | exact Hb].
Qed.

(* a datagram leaves a socket only by being emitted whole, by starting its own fragment train on
   an idle fragmenter, or because it can never fit the fragmentation buffer; in particular a
   busy fragmenter never makes a socket lose a datagram *)
Definition dequeued_ok (ip_mtu B : Z) (out : list frame) (q q' : list dgram) : Prop :=
  q' = q \/
  exists d, q = d :: q' /\
    ((f4_hdr + zlen (snd d) <= ip_mtu /\ In (fst d, mkPkt 0 0 false (snd d)) out) \/
     (ip_mtu < f4_hdr + zlen (snd d) /\ B < f4_hdr + zlen (snd d)) \/
     (exists ident, In (fst d, mkPkt ident 0 true (firstn (Z.to_nat (f4_maxsz ip_mtu)) (snd d))) out)).

Lemma Forall2_impl' {A B} (R1 R2 : A -> B -> Prop) l l' :
  (forall a b, R1 a b -> R2 a b) -> Forall2 R1 l l' -> Forall2 R2 l l'.
Proof. intros H HF. induction HF; constructor; auto. Qed.

Lemma dispatch_ip_buflen ip_mtu ident fr P :
  zlen (fr_buffer (fst (fst (f4_dispatch_ip ip_mtu ident fr P)))) = zlen (fr_buffer fr).
Proof.
  unfold f4_dispatch_ip. cbv zeta.
  destruct (f4_hdr + zlen P >? ip_mtu); [|reflexivity].
  destruct (zlen (fr_buffer fr) <? f4_hdr + zlen P) eqn:Hb; [reflexivity|].
  destruct (negb (fr_finished fr)); [reflexivity|]. cbn [fst fr_buffer].
  apply write_length; [unfold f4_hdr, wipv4_HEADER_LEN; lia | lia].
Qed.

Lemma dequeued_ok_mono ip_mtu B out out' q q' :
  (forall p, In p out -> In p out') -> dequeued_ok ip_mtu B out q q' -> dequeued_ok ip_mtu B out' q q'.
Proof.
  intros Hsub [H | (P & Hq & [(H1 & H2) | [H | (id & H)]])]; [left; exact H | right; exists P; split; [exact Hq|]..].
  - left. split; [exact H1 | apply Hsub; exact H2].
  - right. left. exact H.
  - right. right. exists id. apply Hsub. exact H.
Qed.

Lemma socket_egress_conserves ip_mtu B : f4_hdr + 8 <= ip_mtu -> forall socks fr hwst id b,
  zlen (fr_buffer fr) = B ->
  let '(fr', _, _, _, socks', out, _) := eg_socket_egress ip_mtu fr hwst id b socks in
  zlen (fr_buffer fr') = B /\ Forall2 (dequeued_ok ip_mtu B out) socks socks'.
Proof.
  intros Hmtu. induction socks as [|q rest IH]; intros fr hwst id b HB; cbn [eg_socket_egress].
  - split; [exact HB | constructor].
  - assert (Hrefl : forall l out, Forall2 (dequeued_ok ip_mtu B out) l l).
    { induction l; intros; constructor; [left; reflexivity | apply IHl]. }
    destruct q as [|d q'].
    + specialize (IH fr hwst id b HB).
      destruct (eg_socket_egress ip_mtu fr hwst id b rest) as ((((((fr2, hw2), id2), b2), rest2), out2), ch).
      destruct IH as (IH1 & IH2). split; [exact IH1 | constructor; [left; reflexivity | exact IH2]].
    + destruct (negb (fr_finished fr)) eqn:Hbusy.
      * specialize (IH fr hwst id b HB).
        destruct (eg_socket_egress ip_mtu fr hwst id b rest) as ((((((fr2, hw2), id2), b2), rest2), out2), ch).
        destruct IH as (IH1 & IH2). split; [exact IH1 | constructor; [left; reflexivity | exact IH2]].
      * destruct (negb (bud_has b)).
        -- split; [exact HB | apply Hrefl].
        -- pose proof (dispatch_ip_buflen ip_mtu id fr (snd d)) as Hlen.
           assert (Hd : dequeued_ok ip_mtu B (map (pair (fst d)) (snd (fst (f4_dispatch_ip ip_mtu id fr (snd d))))) (d :: q') q').
           { right. exists d. split; [reflexivity|].
             destruct (Z_le_gt_dec (f4_hdr + zlen (snd d)) ip_mtu) as [Hs | Hbig].
             - left. split; [exact Hs|]. rewrite dispatch_ip_small by exact Hs. left. reflexivity.
             - destruct (Z_lt_ge_dec B (f4_hdr + zlen (snd d))) as [Htoo | Hfit].
               + right. left. split; lia.
               + right. right. exists id.
                 assert (Hfin : fr_finished fr = true) by (destruct (fr_finished fr); [reflexivity | discriminate]).
                 destruct (dispatch_ip_start ip_mtu id fr (snd d) Hmtu Hfin ltac:(lia) ltac:(lia)) as (fr' & Hd & _).
                 rewrite Hd. left. reflexivity. }
           destruct (eg_dispatch_ip ip_mtu id fr hwst d) as (((fr1, hw1), out), r) eqn:He.
           rewrite eg_dispatch_ip_parts in He. inversion He; subst fr1 out; clear He.
           match goal with |- context [eg_socket_egress ip_mtu ?f ?h ?i ?bb rest] =>
             specialize (IH f h i bb ltac:(lia));
             destruct (eg_socket_egress ip_mtu f h i bb rest) as ((((((fr2, hw2), id2), b2), rest2), out2), ch)
           end.
           destruct IH as (IH1 & IH2). split; [exact IH1|]. constructor.
           ++ eapply dequeued_ok_mono; [|exact Hd]. intros p Hp. apply in_or_app. left. exact Hp.
           ++ eapply Forall2_impl'; [|exact IH2]. intros a c Hac.
              eapply dequeued_ok_mono; [|exact Hac]. intros p Hp. apply in_or_app. right. exact Hp.
Qed.

(* pending fragments go first: a poll_egress pass with device capacity and a datagram in
   progress starts by emitting that datagram's next fragment, to the stored address *)
Lemma poll_egress_pending_first ip_mtu st b P off :
  f4_hdr + 8 <= ip_mtu -> fr_progress (eg_fr st) P off -> bud_has b = true ->
  let '(_, _, out, _) := eg_poll_egress ip_mtu st b in
  exists rest, out = (eg_hw st, snd (f4_dispatch_ipv4_frag ip_mtu (eg_fr st))) :: rest.
Proof.
  intros Hmtu Hp Hb. unfold eg_poll_egress, eg_ipv4_egress, f4_ipv4_egress.
  rewrite (progress_not_finished _ _ _ Hp).
  pose proof Hp as (_ & Hpl & Hsb & _ & Ho0 & _ & Holt & _).
  assert (Hne : fr_is_empty (eg_fr st) = false).
  { unfold fr_is_empty. rewrite Hpl. pose proof (zlen_nonneg P). unfold f4_hdr, wipv4_HEADER_LEN. lia. }
  rewrite Hne, Hb. replace (fr_packet_len (eg_fr st) >? fr_sent_bytes (eg_fr st)) with true by lia.
  cbn [andb]. destruct (f4_dispatch_ipv4_frag ip_mtu (eg_fr st)) as (fr', p). cbn [snd map].
  destruct (eg_socket_egress ip_mtu fr' (eg_hw st) (eg_id st) _ (eg_socks st))
    as ((((((fr2, hw2), id2), b2), socks2), out2), ch).
  exists out2. reflexivity.
Qed.

(* non-vacuity / the D8 scenario: two 1200-byte datagrams queued back to back on one socket,
   Medium::Ip, MTU 576, polled until idle: six fragments, two complete trains, in order *)
Definition c12_d8_ops : list eg_op :=
  [ESend 0 (1, repeat 17 1208); ESend 0 (1, repeat 34 1208); EPoll None; EPoll None; EPoll None; EPoll None].

Lemma c12_d8_example :
  map (fun f => (fst f, p_ident (snd f), p_offset (snd f), p_mf (snd f), zlen (p_payload (snd f)),
                 hd 0 (p_payload (snd f))))
      (snd (eg_run 576 (eg_init cfg_FRAGMENTATION_BUFFER_SIZE 7 1) c12_d8_ops)) =
  [(1, 7, 0, true, 552, 17); (1, 7, 552, true, 552, 17); (1, 7, 1104, false, 104, 17);
   (1, 8, 0, true, 552, 34); (1, 8, 552, true, 552, 34); (1, 8, 1104, false, 104, 34)].
Proof. vm_compute. reflexivity. Qed.

(* a datagram to neighbour 1 mid-fragmentation under back-pressure (one frame per poll); an
   oversized reply towards neighbour 2 arrives: it is dropped as a whole and the remaining
   fragments of the first datagram still go to neighbour 1 *)
Definition c12_two_neighbours_ops : list eg_op :=
  [ESend 0 (1, repeat 17 1408); EPoll (Some 1); ERecv (2, repeat 51 1008);
   EPoll (Some 1); EPoll (Some 1); EPoll None].

Lemma c12_two_neighbours_example :
  map (fun f => (fst f, p_ident (snd f), p_offset (snd f), p_mf (snd f), zlen (p_payload (snd f)),
                 hd 0 (p_payload (snd f))))
      (snd (eg_run 562 (eg_init cfg_FRAGMENTATION_BUFFER_SIZE 7 1) c12_two_neighbours_ops)) =
  [(1, 7, 0, true, 536, 17); (1, 7, 536, true, 536, 17); (1, 7, 1072, false, 336, 17)].
Proof. vm_compute. reflexivity. Qed.

(* 1200-byte UDP payload (1208 bytes of IP payload) at MTU 576: three fragments *)
Lemma c12_three_fragments_example :
  map (fun p => (p_offset p, p_mf p, zlen (p_payload p)))
      (f4_fragment_datagram 576 42 (fr_new cfg_FRAGMENTATION_BUFFER_SIZE) (repeat 1 1208)) =
  [(0, true, 552); (552, true, 552); (1104, false, 104)].
Proof. vm_compute. reflexivity. Qed.
