(* C02 (liveness half): the witnesses of the compositions under the shortest list of premises (Proofs/TcpProgressCl22.v),
   and the two facts of Proofs/TcpProgressSrNet.v for runs from net_init. *)
From SV Require Import Lib.Base Gen.Consts.
From SV Require Import Model.Seq32 Model.Assembler Model.TcpBuf Model.TcpTypes Model.Tcp Model.TcpNet.
From SV Require Import Proofs.TcpSendBase Proofs.TcpLiveBase Proofs.TcpLiveProofs Proofs.TcpLiveMore
  Proofs.TcpLiveProgress.
From SV Require Import Proofs.TcpNetBase.
From SV Require Proofs.TcpNetInv.
From SV Require Import Proofs.TcpProgressBase Proofs.TcpProgressFrame Proofs.TcpProgressCtl Proofs.TcpProgressRecv
  Proofs.TcpProgressSend Proofs.TcpProgressNet Proofs.TcpProgressData Proofs.TcpProgressAck
  Proofs.TcpProgressAll Proofs.TcpProgressSafe Proofs.TcpProgressHs Proofs.TcpProgressHsD
  Proofs.TcpProgressHsNet Proofs.TcpProgressHsInit Proofs.TcpProgressHsLive Proofs.TcpProgressHsLive2
  Proofs.TcpProgressZwp Proofs.TcpProgressExample Proofs.TcpProgressWitness Proofs.TcpProgressSafeWitness Proofs.TcpProgressZwDup
  Proofs.TcpProgressZw1 Proofs.TcpProgressZw1b Proofs.TcpProgressZw2 Proofs.TcpProgressZw3 Proofs.TcpProgressZwWitness
  Proofs.TcpProgressZw4 Proofs.TcpProgressZw5 Proofs.TcpProgressZw6 Proofs.TcpProgressZwWitness3 Proofs.TcpProgressZw7
  Proofs.TcpProgressCl1 Proofs.TcpProgressCl2 Proofs.TcpProgressCl3 Proofs.TcpProgressCl4 Proofs.TcpProgressCl5
  Proofs.TcpProgressCl6 Proofs.TcpProgressCl7 Proofs.TcpProgressCl8 Proofs.TcpProgressCl9
  Proofs.TcpProgressCl10 Proofs.TcpProgressCl11 Proofs.TcpProgressCl12 Proofs.TcpProgressCl13 Proofs.TcpProgressCl14 Proofs.TcpProgressCl15
  Proofs.TcpProgressHsRtx Proofs.TcpProgressRtxWitness Proofs.TcpProgressHsSrv1 Proofs.TcpProgressHsSrv2
  Proofs.TcpProgressHsSrvWitness
  Proofs.TcpProgressCl16 Proofs.TcpProgressCap Proofs.TcpProgressCapNet Proofs.TcpProgressCl19 Proofs.TcpProgressCl20
  Proofs.TcpProgressSynWin Proofs.TcpProgressSynWinNet Proofs.TcpProgressSr Proofs.TcpProgressSrNet Proofs.TcpProgressCl21 Proofs.TcpProgressCl22.

(* the two facts, for every run without close() from net_init *)
Theorem sr_from_net_init ca cb st0 evs st z :
  net_init ca cb = Ok st0 -> Forall noclose evs -> net_run st0 evs = Ok st ->
  s_syn_unacked_in_fin_wait (net_sock st z) = false /\ tcp_RTTE_MIN_RTO <= rt_rto (s_rtte (net_sock st z)).
Proof. intros Hi Hn Hr. exact (srst_run _ _ _ Hn Hr (srst_init ca cb st0 Hi) z). Qed.

Theorem transfer_quiesce_close_applies_min :
  exists st0 stD stQ st_m st',
    start_ok 10000 zcfg_a zcfg_b st0 /\ cfg_rx zcfg_a zcfg_b /\
    reliable_schedule 5000 5000 st0 (tqc_evsD ++ tqc_evsQ ++ NClose SA :: tqc_evs1 ++ NClose SB :: tqc_evs2) /\
    net_run st0 tqc_evsD = Ok stD /\
    net_run stD tqc_evsQ = Ok stQ /\ run_all qregime'' stD tqc_evsQ /\
    net_run stQ (NClose SA :: tqc_evs1) = Ok st_m /\ net_run st_m (NClose SB :: tqc_evs2) = Ok st' /\
    (exists p1 p2 sta,
       tqc_evsQ = p1 ++ p2 /\ net_run stD p1 = Ok sta /\ net_run sta p2 = Ok stQ /\
       una_off (net_get sta SA) = l_len (ep_written (net_get stD SA)) /\
       read_off (net_get sta SB) = l_len (ep_written (net_get stD SA))) /\
    (exists pre post st_c,
       tqc_evs2 = pre ++ post /\ net_run st_m (NClose SB :: pre) = Ok st_c /\ net_run st_c post = Ok st' /\
       both_closed st_c).
Proof.
  destruct transfer_quiesce_close_applies' as (st0 & stD & stQ & st_m & st' & H1 & H2 & H3 & H4 & _ & H6 & H7 & H8).
  exists st0, stD, stQ, st_m, st'. split; [exact H1|]. split; [exact H2|]. split; [exact H3|]. split; [exact H4|]. split; [exact H6|].
  split; [apply (run_all_impl qregime'); [exact qregime_weaken' | exact H7]|]. exact H8.
Qed.

Theorem handshake_quiesce_close_after_fault_prefix_applies_min :
  exists st0 st stD stQ st_m st',
    start_ok 10000 zcfg_a zcfg_b st0 /\ cfg_rx zcfg_a zcfg_b /\ net_run st0 hqc_pre = Ok st /\
    s_state (net_sock st SA) = SynSent /\
    reliable_schedule 5000 5000 st (hqc_evsH ++ hqc_evsQ ++ NClose SA :: hqc_evs1 ++ NClose SB :: hqc_evs2) /\
    net_run st hqc_evsH = Ok stD /\
    net_run stD hqc_evsQ = Ok stQ /\ run_all qregime'' stD hqc_evsQ /\
    net_run stQ (NClose SA :: hqc_evs1) = Ok st_m /\ net_run st_m (NClose SB :: hqc_evs2) = Ok st' /\
    (exists h1 h2 sth,
       hqc_evsH = h1 ++ h2 /\ net_run st h1 = Ok sth /\ net_run sth h2 = Ok stD /\
       (forall z, s_state (net_sock sth z) = Established) /\
       net_now sth SA <= net_now st SA + max_rto_us + 3 * 5000) /\
    (exists p1 p2 sta,
       hqc_evsQ = p1 ++ p2 /\ net_run stD p1 = Ok sta /\ net_run sta p2 = Ok stQ /\
       una_off (net_get sta SA) = l_len (ep_written (net_get stD SA)) /\
       read_off (net_get sta SB) = l_len (ep_written (net_get stD SA))) /\
    (exists pre2 post st_c,
       hqc_evs2 = pre2 ++ post /\ net_run st_m (NClose SB :: pre2) = Ok st_c /\ net_run st_c post = Ok st' /\
       both_closed st_c).
Proof.
  destruct handshake_quiesce_close_after_fault_prefix_applies'
    as (st0 & st & stD & stQ & st_m & st' & H1 & H2 & H3 & H4 & H5 & H6 & H7 & H8 & H9).
  exists st0, st, stD, stQ, st_m, st'. split; [exact H1|]. split; [exact H2|]. split; [exact H3|]. split; [exact H4|].
  split; [exact H5|]. split; [exact H6|]. split; [exact H7|].
  split; [apply (run_all_impl qregime'); [exact qregime_weaken' | exact H8]|]. exact H9.
Qed.
