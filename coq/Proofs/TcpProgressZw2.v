(* C02 (liveness half), step 4 (zero window), layer 2: THE WINDOW REOPENS, for every reliable schedule.
   Direction x -> y as in Proofs/TcpProgressData.v, both ESTABLISHED, y has written nothing.  The
   sender x believes the peer's window closed (remote_win_len = 0) and has octets queued.

   [zsafe x Dack st]   the safety facts taken of every state of the run: [safe3] (Proofs/TcpProgressAck.v)
                       WITHOUT "the window is open", plus two facts that are not derived here:
                       zs_zwp  a probe timer runs only with nothing in flight,
                       zs_capw an empty receive buffer advertises a non-zero window.
   reliable run        [fair_run] and [once_run] (Proofs/TcpProgressZwDup.v: a frame is delivered at
                       most once) - fair_run alone is refuted (zero_window_starved_by_redelivery).
   Phases (each left in bounded virtual time):
     R   y's buffer is non-empty: the application reads within Da                      (goal)
     Z1  the probe deadline: ZWP e -> e; RTO e -> e + RTO_MAX (the RTO arms the probe timer);
         fast retransmit -> now + 2 RTO_MAX.  Every frame that can still arrive advertises an open
         window (it was emitted by y with an empty buffer), so an arriving frame opens the window (goal)
         or changes nothing.  At the deadline one octet from SND.UNA goes out.
     Z2  the probe is in flight: delivered within Dt; y accepts it (-> R) or answers at once with an
         ACK that advertises its open window.
     Z4  that ACK is in flight: delivered within Dt, the window x has learned is open         (goal)
   zero_window_eventually_reopens: before x's clock has advanced by 2 RTO_MAX + 2 Dt + Da the run passes
   through a state in which SND.UNA of x has advanced, or y's application has read, or the window x
   has learned is open. *)
From SV Require Import Lib.Base Gen.Consts.
From SV Require Import Model.Seq32 Model.Assembler Model.TcpBuf Model.TcpTypes Model.Tcp Model.TcpNet.
From SV Require Import Proofs.TcpSendBase Proofs.TcpLiveBase Proofs.TcpLiveProofs Proofs.TcpLiveMore
  Proofs.TcpLiveProgress.
From SV Require Import Proofs.TcpNetBase.
From SV Require Proofs.TcpRecvBase Proofs.TcpRecvWindow Proofs.TcpRecvInv Proofs.TcpRecvProcess Proofs.TcpRecvDispatch.
From SV Require Import Proofs.TcpProgressBase Proofs.TcpProgressFrame Proofs.TcpProgressRecv
  Proofs.TcpProgressSend Proofs.TcpProgressNet Proofs.TcpProgressData Proofs.TcpProgressAck Proofs.TcpProgressAll
  Proofs.TcpProgressZwp Proofs.TcpProgressExample Proofs.TcpProgressWitness Proofs.TcpProgressZwDup Proofs.TcpProgressZw1.

(* ---------------------------------------------------------------------------------------- *)
(* the induction principle for reliable runs                                                 *)
(* ---------------------------------------------------------------------------------------- *)
Theorem rel_leads (Dt Da : Z) (R : net -> Prop) (J Q : fair_aux -> net -> Prop) (x : side) (T : Z) :
  (forall fa st, J fa st -> net_now st x <= T) ->
  (forall fa st ev st', R st -> R st' -> J fa st -> fair_ev fa st ev -> once_ev fa ev -> net_step st ev = Ok st' ->
     Q (fa_after Dt Da fa ev st') st' \/ J (fa_after Dt Da fa ev st') st') ->
  forall evs fa st st',
    J fa st -> run_all R st evs -> fair_run Dt Da fa st evs -> once_run Dt Da fa st evs ->
    net_run st evs = Ok st' -> T < net_now st' x ->
    exists pre post fa1 st1,
      evs = pre ++ post /\ net_run st pre = Ok st1 /\ net_run st1 post = Ok st' /\
      run_all R st1 post /\ fair_run Dt Da fa1 st1 post /\ once_run Dt Da fa1 st1 post /\ Q fa1 st1 /\
      exists fa0 st0 ev0, J fa0 st0 /\ R st0 /\ fair_ev fa0 st0 ev0 /\ net_step st0 ev0 = Ok st1 /\
                          fa1 = fa_after Dt Da fa0 ev0 st1.
Proof.
  intros Hclock Hstep. induction evs as [|ev r IH]; intros fa st st' HJ HR Hfair Honce Hrun Hpast.
  - cbn [net_run] in Hrun. inversion Hrun; subst. specialize (Hclock _ _ HJ). lia.
  - cbn [net_run] in Hrun. apply obind_ok in Hrun. destruct Hrun as (st1 & Hs & Hr).
    cbn [fair_run] in Hfair. destruct Hfair as (Hev & Hrest). rewrite Hs in Hrest.
    cbn [once_run] in Honce. destruct Honce as (Hoe & Horest). rewrite Hs in Horest.
    cbn [run_all] in HR. destruct HR as (HR0 & HR1). rewrite Hs in HR1.
    destruct (Hstep _ _ _ _ HR0 (run_all_here _ _ _ HR1) HJ Hev Hoe Hs) as [HQ | HJ'].
    + exists [ev], r, (fa_after Dt Da fa ev st1), st1.
      split; [reflexivity|]. split; [cbn [net_run]; rewrite Hs; reflexivity|].
      split; [exact Hr|]. split; [exact HR1|]. split; [exact Hrest|]. split; [exact Horest|]. split; [exact HQ|].
      exists fa, st, ev. auto.
    + destruct (IH _ _ _ HJ' HR1 Hrest Horest Hr Hpast)
        as (pre & post & fa1 & st2 & -> & Hp1 & Hp2 & HR2 & Hf & Ho & HQ & Hlast).
      exists (ev :: pre), post, fa1, st2.
      split; [reflexivity|]. split; [cbn [net_run]; rewrite Hs; exact Hp1|].
      split; [exact Hp2|]. split; [exact HR2|]. split; [exact Hf|]. split; [exact Ho|]. split; [exact HQ | exact Hlast].
Qed.

(* ---------------------------------------------------------------------------------------- *)
(* tracked frames: what the bookkeeping remembers of an old index                            *)
(* ---------------------------------------------------------------------------------------- *)
Lemma mark_delivered_some i l j t :
  nth_error (mark_delivered i l) j = Some (Some t) -> nth_error l j = Some (Some t).
Proof.
  revert i j. induction l as [|a l IH]; intros [|i] [|j] H; cbn in *; try discriminate; try exact H.
  apply (IH i j H).
Qed.

Lemma fa_after_dl_old Dt Da fa ev st' x j t :
  (j < length (fa_dl fa x))%nat ->
  nth_error (fa_dl (fa_after Dt Da fa ev st') x) j = Some (Some t) ->
  nth_error (fa_dl fa x) j = Some (Some t).
Proof.
  intros Hj H. cbn [fa_after fa_dl] in H.
  destruct ev; try (rewrite pad_dl_nth_old in H by exact Hj; exact H).
  destruct (side_eqb to x).
  - rewrite pad_dl_nth_old in H by (rewrite mark_delivered_length; exact Hj).
    exact (mark_delivered_some _ _ _ _ H).
  - rewrite pad_dl_nth_old in H by exact Hj. exact H.
Qed.

(* the frame delivered by a tracked delivery is no longer tracked *)
Lemma fa_after_dl_delivered Dt Da fa st' x j :
  (j < length (fa_dl fa x))%nat ->
  nth_error (fa_dl (fa_after Dt Da fa (NDeliver x j) st') x) j = Some None.
Proof.
  intros Hj. cbn [fa_after fa_dl]. rewrite side_eqb_refl.
  rewrite pad_dl_nth_old by (rewrite mark_delivered_length; exact Hj).
  apply mark_delivered_nth_same. exact Hj.
Qed.

Lemma scaled_window_u16 s : 0 <= tcp_scaled_window s -> tcp_scaled_window s mod 65536 = tcp_scaled_window s.
Proof.
  unfold tcp_scaled_window, u16_try. intros H. apply Z.mod_small.
  destruct (Z.leb_spec (shr (rb_window (s_rx_buffer s)) (s_remote_win_shift s)) u16_max) as [L | L];
    rewrite ?(proj2 (Z.leb_le _ _) L) in *; unfold u16_max in *; lia.
Qed.

Section Zw.
Variable x : side.
Let y := side_other x.
Variables Dt Da Dack : Z.

(* the safety facts used, of every state of the run *)
Record zsafe (st : net) : Prop := mkZS {
  zs_est : forall z, s_state (net_sock st z) = Established;
  zs_tuple : forall z, exists t, s_tuple (net_sock st z) = Some t /\
                                 tu_local_addr t = cx_addr (ep_cx (net_get st z));
  zs_acc : forall z p, In p (chan_to st z) -> accepts_ok (net_sock st z) p;
  zs_mss : mss_ok (ep_cx (net_get st x)) (net_sock st x);
  zs_txb : rb_len (s_tx_buffer (net_sock st x)) < 2 ^ 30;
  zs_ytx : rb_len (s_tx_buffer (net_sock st y)) = 0;
  zs_rcv : rcv_wf (net_sock st y) /\ adv_ok (net_sock st y) /\
           TcpRecvBase.rb_wf (s_rx_buffer (net_sock st y)) /\ 0 <= s_remote_win_shift (net_sock st y);
  zs_chan : forall p, In p (chan_to st y) -> seg_to_rcv (net_sock st y) (wire_parse (snd p));
  zs_cross : tcp_window_start (net_sock st y) =
               sq (s_local_seq_no (net_sock st x) + (rcv_off (net_get st y) - una_off (net_get st x))) /\
             0 <= rcv_off (net_get st y) - una_off (net_get st x) <= rb_len (s_tx_buffer (net_sock st x));
  zs_xadv : adv_ok (net_sock st x);
  zs_xchan : forall q, In q (chan_to st x) -> seg_to_snd (net_sock st x) (wire_parse (snd q));
  (* not derived from the regime invariant *)
  zs_zwp : timer_is_zero_window_probe (s_timer (net_sock st x)) = true ->
           s_remote_last_seq (net_sock st x) = s_local_seq_no (net_sock st x);
  zs_capw : rb_len (s_rx_buffer (net_sock st y)) = 0 -> 0 < tcp_scaled_window (net_sock st y)
}.

(* the open-window regime implies it *)
Lemma zsafe_of_safe3 st :
  safe3 x Dack st ->
  (rb_len (s_rx_buffer (net_sock st y)) = 0 -> 0 < tcp_scaled_window (net_sock st y)) -> zsafe st.
Proof.
  intros (HR & HA) Hc. constructor.
  - exact (ow_est x st HR).
  - exact (ow_tuple x st HR).
  - exact (ow_acc x st HR).
  - exact (ow_mss x st HR).
  - exact (ow_txb x st HR).
  - exact (ow_ytx x st HR).
  - destruct (ow_rcv x st HR) as (A & B & C & D). split; [exact A|]. split; [apply adv_open_ok; exact B|]. split; assumption.
  - exact (ow_chan x st HR).
  - exact (ow_cross x st HR).
  - exact (as_xadv x Dack st HA).
  - exact (as_xchan x Dack st HA).
  - intros Hz. rewrite (ow_nozwp x st HR) in Hz. discriminate.
  - exact Hc.
Qed.

(* an event of the receiver never moves RCV.NXT back *)
Lemma zy_event_mono st ev ev0 e' :
  NI st -> zsafe st ->
  sock_event st ev y ev0 -> ep_step (net_get st y) ev0 = Ok e' ->
  rcv_off (net_get st y) <= rcv_off e'.
Proof.
  intros HN HR Hse He.
  pose proof (NI_live st y HN) as Iy. unfold net_sock in Iy.
  destruct (zs_rcv st HR) as (Hrw & Hadv & Hrxwf & Hsh). unfold net_sock in *.
  destruct (ep_step_spec _ _ _ He) as (s' & out & tags & Hs & Hk & _).
  destruct ev; cbn [sock_event] in Hse; try contradiction.
  - destruct Hse as (-> & p & Hn & ->).
    rewrite (ep_step_rcv_off _ _ _ _ _ _ He Hs) by discriminate.
    cbn [tcp_step] in Hs. apply obind_ok in Hs. destruct Hs as (((s1 & rp) & tg) & Hi & Hs).
    assert (E : s1 = s') by (inversion Hs; reflexivity). subst s1.
    pose proof (nth_error_In _ _ Hn) as Hin.
    rewrite (ingress_is_process _ _ _ (zs_acc st HR y p Hin)) in Hi. unfold net_sock in Hi.
    pose proof (zs_est st HR y) as Hst. unfold net_sock in Hst.
    destruct (zs_chan st HR p Hin) as [(Hc & Ha) | (Hc & Ha & Hl)]; unfold net_sock in *.
    + destruct (process_syn_ignored _ _ _ _ _ _ _ Hst Hc Ha Hi) as (-> & _). lia.
    + pose proof (zs_ytx st HR) as Hytx. unfold net_sock in Hytx.
      assert (Hu : 0 <= s_local_seq_no (ep_sock (net_get st y)) < 4294967296) by apply (li_una _ Iy).
      assert (Hl30 : l_len (r_payload (wire_parse (snd p))) <= p30) by (unfold TcpRecvWindow.p30; lia).
      assert (Htx31 : 0 <= rb_len (s_tx_buffer (ep_sock (net_get st y))) < 2147483648) by lia.
      destruct (process_rcv_mono _ _ _ _ _ _ _ Hst Hrw Hadv
                  Hl30 (wire_parse_seq (snd p)) Hc Ha Hu Htx31 Hi)
        as (_ & Hm & _). lia.
  - destruct Hse as (-> & ->).
    rewrite (ep_step_rcv_off _ _ _ _ _ _ He Hs) by discriminate.
    cbn [tcp_step] in Hs. apply obind_ok in Hs. destruct Hs as (((s1 & rs) & tg) & Hd & Hs).
    assert (E : s1 = s') by (inversion Hs; reflexivity). subst s1.
    destruct (zs_tuple st HR y) as (t & Ht & Hta). unfold net_sock in Ht.
    destruct (TcpRecvDispatch.dispatch_spec _ _ _ _ _ _ Hrxwf Hsh Hd) as [(Hres & _) | (_ & (_ & Hrx & _) & _)].
    + unfold TcpRecvDispatch.dispatch_resets in Hres. rewrite Ht, Hta, Z.eqb_refl in Hres. discriminate.
    + rewrite Hrx. lia.
  - destruct Hse as (-> & ->).
    destruct (ep_step_send_una_off _ _ _ (li_tx _ Iy) He) as (_ & _ & _ & _ & _ & Hrx & Hrd).
    unfold rcv_off. rewrite Hrx, Hrd. lia.
  - destruct Hse as (-> & ->).
    assert (Hn0 : 0 <= Z.max 0 n) by lia.
    destruct (ep_step_recv _ _ _ Hrxwf Hn0 He) as (E & _). lia.
  - destruct Hse as (-> & ->).
    rewrite (ep_step_rcv_off _ _ _ _ _ _ He Hs) by discriminate.
    cbn [tcp_step] in Hs. inversion Hs; subst s'. unfold tcp_close.
    destruct (s_state (ep_sock (net_get st y))); sproj; lia.
Qed.

(* ---------------------------------------------------------------------------------------- *)
(* the goal, and phase R: y's receive buffer is non-empty - the application reads within Da    *)
(* ---------------------------------------------------------------------------------------- *)
Definition Qz (u0 d0 : Z) (st : net) : Prop :=
  u0 < una_off (net_get st x) \/ d0 < read_off (net_get st y) \/ 0 < s_remote_win_len (net_sock st x).

Definition JR (d0 T : Z) (fa : fair_aux) (st : net) : Prop :=
  NI st /\ opts_ok st /\ dl_sync Da fa st /\
  read_off (net_get st y) = d0 /\ d0 < rcv_off (net_get st y) /\
  net_now st y <= T /\ (exists t, fa_rd fa y = Some t /\ t <= T).

Lemma zrx_is_diff st : rx_len st y = rcv_off (net_get st y) - read_off (net_get st y).
Proof. unfold rx_len, rcv_off, read_off, net_sock. lia. Qed.

Lemma JR_step d0 T fa st ev st' :
  zsafe st -> zsafe st' -> JR d0 T fa st -> fair_ev fa st ev -> net_step st ev = Ok st' ->
  d0 < read_off (net_get st' y) \/ JR d0 T (fa_after Dt Da fa ev st') st'.
Proof.
  intros HR HR' (HN & Ho & Hsy & Hrd & Hrc & Hclk & t & Ht & HtT) Hfe H.
  pose proof (NI_step _ _ _ HN H) as HN'. pose proof (opts_step _ _ _ Ho H) as Ho'.
  pose proof (fa_after_sync Dt Da _ _ _ _ Hsy Hfe H) as Hsy'.
  assert (Hy : (d0 < read_off (net_get st' y)) \/
               (read_off (net_get st' y) = d0 /\ rcv_off (net_get st y) <= rcv_off (net_get st' y) /\
                (forall z n, ev = NRecv z n -> side_eqb z y && (0 <? n) = false))).
  { destruct (net_step_kind _ _ _ H) as [w ev0 e' Hse He E | to i E1 _ E | d E1 E | w isn ts E1 E | to i Hd].
    - destruct (side_cases x w) as [Ew | Ew]; subst w st'.
      + right. rewrite net_get_set_other. split; [exact Hrd|]. split; [apply Z.le_refl|].
        intros z n E. subst ev. cbn [sock_event] in Hse. destruct Hse as (-> & _).
        rewrite side_eqb_other. reflexivity.
      + change (side_other x) with y in He, Hse |- *. rewrite net_get_set_same.
        pose proof (zy_event_mono _ _ _ _ HN HR Hse He) as Hm.
        destruct (ep_step_spec _ _ _ He) as (s' & out & tags & Hs & Hk & _ & _ & _ & _ & Hrd' & _).
        destruct ev; cbn [sock_event] in Hse; try contradiction.
        * destruct Hse as (_ & p & _ & ->). right. unfold read_off. rewrite Hrd'. cbn [log_read].
          split; [exact Hrd|]. split; [exact Hm|]. intros; discriminate.
        * destruct Hse as (_ & ->). right. unfold read_off. rewrite Hrd'. cbn [log_read].
          split; [exact Hrd|]. split; [exact Hm|]. intros; discriminate.
        * destruct Hse as (_ & ->). right. unfold read_off. rewrite Hrd'. cbn [log_read].
          split; [exact Hrd|]. split; [exact Hm|]. intros; discriminate.
        * destruct Hse as (-> & ->).
          destruct (zs_rcv st HR) as (_ & _ & Hrxwf & _).
          pose proof (zs_est st HR y) as Hst. unfold net_sock in *.
          cbn [tcp_step] in Hs. unfold tcp_recv_slice, tcp_recv_error_check, tcp_may_recv in Hs.
          rewrite Hst in Hs. cbn [negb obind] in Hs.
          destruct (rb_dequeue_slice (s_rx_buffer (ep_sock (net_get st y))) (Z.max 0 n)) as (rx, b) eqn:Ed.
          assert (Hn0 : 0 <= Z.max 0 n) by lia.
          destruct (TcpRecvBase.rb_dequeue_slice_spec _ _ _ _ Hrxwf Hn0 Ed) as (Hkk & _). cbv zeta in Hkk.
          assert (Eo : out = OBytes b) by (inversion Hs; reflexivity). subst out.
          unfold read_off in *. rewrite Hrd'. cbn [log_read]. rewrite TcpSendBase.l_len_app.
          pose proof (zrx_is_diff st) as Hdiff. unfold rx_len, net_sock, read_off in Hdiff.
          destruct (Z.ltb_spec 0 n) as [Hpos | Hnp].
          -- left. lia.
          -- right. split; [lia|]. split; [exact Hm|].
             intros z n0 E. inversion E; subst. rewrite side_eqb_refl. cbn [andb].
             destruct (Z.ltb_spec 0 n0); [lia | reflexivity].
        * destruct Hse as (_ & ->). right. unfold read_off. rewrite Hrd'. cbn [log_read].
          split; [exact Hrd|]. split; [exact Hm|]. intros; discriminate.
    - subst st' ev. right. split; [exact Hrd|]. split; [apply Z.le_refl|]. intros; discriminate.
    - subst st' ev. right. destruct (tick_same st d y) as (E1 & _ & E3 & _).
      unfold read_off, rcv_off. rewrite E1, E3. split; [exact Hrd|]. split; [apply Z.le_refl|]. intros; discriminate.
    - subst st' ev. right. destruct (rand_same st w isn ts y) as (E1 & _ & E3 & _).
      unfold read_off, rcv_off. rewrite E1, E3. split; [exact Hrd|]. split; [apply Z.le_refl|]. intros; discriminate.
    - exfalso. destruct Hd as [-> | ->]; exact Hfe. }
  destruct Hy as [Hq | (Hr' & Hm & Hnr)]; [left; exact Hq|].
  right. split; [exact HN'|]. split; [exact Ho'|]. split; [exact Hsy'|].
  split; [exact Hr'|]. split; [lia|].
  split.
  { rewrite (net_step_now _ _ _ y H). destruct ev; try lia.
    destruct Hfe as (Hd0 & Hperm). destruct (Z.eq_dec d 0) as [-> | Hnz]; [lia|].
    destruct (Hperm ltac:(lia) y) as (_ & _ & Hrdl). specialize (Hrdl t Ht). lia. }
  exists t. split; [|exact HtT].
  cbn [fa_after fa_rd].
  assert (Hne : (rx_len st' y =? 0) = false) by (apply Z.eqb_neq; rewrite zrx_is_diff; lia).
  rewrite Hne, Ht.
  destruct ev; try reflexivity. rewrite (Hnr _ _ eq_refl). reflexivity.
Qed.

Lemma enter_R d0 T fa st ev st' :
  NI st -> opts_ok st -> dl_sync Da fa st -> fair_ev fa st ev -> net_step st ev = Ok st' ->
  read_off (net_get st' y) = d0 -> d0 < rcv_off (net_get st' y) -> net_now st' y + Da <= T -> 0 <= Da ->
  JR d0 T (fa_after Dt Da fa ev st') st'.
Proof.
  intros HN Ho Hsy Hfe H Hrd Hrc HT HDa.
  pose proof (fa_after_sync Dt Da _ _ _ _ Hsy Hfe H) as Hsy'.
  split; [exact (NI_step _ _ _ HN H)|]. split; [exact (opts_step _ _ _ Ho H)|]. split; [exact Hsy'|].
  split; [exact Hrd|]. split; [exact Hrc|]. split; [lia|].
  destruct Hsy' as (_ & Hr). specialize (Hr y). pose proof (zrx_is_diff st') as Hd.
  destruct (fa_rd (fa_after Dt Da fa ev st') y) as [t|]; [|lia].
  exists t. split; [reflexivity|]. lia.
Qed.

(* ---------------------------------------------------------------------------------------- *)
(* every frame that can still be delivered to x advertises an open window                    *)
(* ---------------------------------------------------------------------------------------- *)
Definition wpos (fa : fair_aux) (st : net) : Prop :=
  forall j q t, nth_error (chan_to st x) j = Some q -> nth_error (fa_dl fa x) j = Some (Some t) ->
                0 < r_window_len (snd q) < 65536.

Lemma wpos_step fa st ev st' :
  dl_sync Da fa st -> fair_ev fa st ev -> net_step st ev = Ok st' -> wpos fa st ->
  (forall q, chan_to st' x = chan_to st x ++ [q] -> 0 < r_window_len (snd q) < 65536) ->
  wpos (fa_after Dt Da fa ev st') st'.
Proof.
  intros (Hlen & _) Hfe H Hw Hnew j q t Hn Hdl.
  destruct (fair_step_chan _ _ _ _ x Hfe H) as (l & Hch & Hl1).
  destruct (Nat.lt_ge_cases j (length (chan_to st x))) as [Hj | Hj].
  - rewrite Hch, nth_error_app1 in Hn by exact Hj.
    apply (Hw j q t Hn). apply (fa_after_dl_old Dt Da fa ev st' x j t); [rewrite (Hlen x); exact Hj | exact Hdl].
  - rewrite Hch in Hn. rewrite nth_error_app2 in Hn by exact Hj.
    destruct l as [|q0 [|q1 l]]; cbn [length] in Hl1; try lia.
    + destruct (j - length (chan_to st x))%nat; discriminate.
    + destruct (j - length (chan_to st x))%nat as [|k] eqn:Ek; [|destruct k; discriminate].
      cbn in Hn. inversion Hn; subst q0. apply Hnew. exact Hch.
Qed.

(* send at a sender that believes the window closed: nothing but the queue changes *)
Lemma send_slice_zw s data s' n :
  tcp_send_slice s data = Ok (s', n) -> timer_is_idle (s_timer s) = false ->
  s_timer s' = s_timer s /\ s_remote_win_len s' = s_remote_win_len s.
Proof.
  intros H Hni. unfold tcp_send_slice in H. destruct (negb (tcp_may_send s)); [discriminate|].
  destruct (rb_enqueue_slice (s_tx_buffer s) data) as (tx, size).
  destruct (size >? 0); [|inversion H; subst; sproj; auto].
  inversion H; subst s' n; clear H.
  destruct (rb_len (s_tx_buffer s) =? 0); sproj; rewrite Hni, andb_false_r; sproj; auto.
Qed.

(* ---------------------------------------------------------------------------------------- *)
(* one event of the sender while it believes the window closed                               *)
(* ---------------------------------------------------------------------------------------- *)
Lemma zb_x_event fa st ev ev0 e' :
  NI st -> opts_ok st -> zsafe st -> zsafe (net_set st x e') ->
  fair_ev fa st ev -> once_ev fa ev -> wpos fa st ->
  s_remote_win_len (net_sock st x) = 0 -> 0 < txl x st ->
  sock_event st ev x ev0 -> ep_step (net_get st x) ev0 = Ok e' ->
  (una_off (net_get st x) < una_off e' \/ 0 < s_remote_win_len (ep_sock e')) \/
  (una_off e' = una_off (net_get st x) /\
   s_local_seq_no (ep_sock e') = s_local_seq_no (net_sock st x) /\
   rb_len (s_tx_buffer (net_sock st x)) <= rb_len (s_tx_buffer (ep_sock e')) /\
   s_remote_win_len (ep_sock e') = 0 /\
   (ev = NPoll x true \/ s_timer (ep_sock e') = s_timer (net_sock st x))).
Proof.
  intros HN Ho HR HR' Hfe Hoe Hw Hwin Hlen Hse He.
  pose proof (NI_live st x HN) as Ix. destruct (HN x) as (Hcx & Hnow & _ & _).
  pose proof (zs_est st HR x) as Hst. pose proof (zs_est _ HR' x) as Hst'.
  pose proof (zs_txb st HR) as Htxb.
  destruct (zs_tuple st HR x) as (t & Htu & Hta).
  destruct (Ho x) as (Hto & _).
  unfold net_sock, txl in *. rewrite net_get_set_same in Hst'.
  destruct (ep_step_spec _ _ _ He) as (s' & out & tags & Hs & Hk & _ & Hout & _).
  assert (Hni : timer_is_idle (s_timer (ep_sock (net_get st x))) = false).
  { assert (L : st_live (s_state (ep_sock (net_get st x))) = true) by (rewrite Hst; reflexivity).
    destruct (li_K _ Ix L) as [Ha | (_ & Hw0)]; [destruct (s_timer (ep_sock (net_get st x))); try discriminate; reflexivity|].
    exfalso. apply Hw0; [exact Hlen | exact Hwin]. }
  destruct ev; cbn [sock_event] in Hse; try contradiction.
  - (* a segment arrives *)
    destruct Hse as (-> & p & Hn & ->).
    pose proof (ep_step_una_off _ (EvSegment (fst p) (wire_parse (snd p))) _ _ _ _ I (li_tx _ Ix) He Hs ltac:(discriminate)) as Hu.
    cbn [tcp_step] in Hs. apply obind_ok in Hs. destruct Hs as (((s1 & rp) & tg) & Hi & Hs).
    assert (E : s1 = s') by (inversion Hs; reflexivity). subst s1.
    pose proof (nth_error_In _ _ Hn) as Hin.
    rewrite (ingress_is_process _ _ _ (zs_acc st HR x p Hin)) in Hi. unfold net_sock in Hi.
    rewrite Hk in Hst'.
    cbn [once_ev] in Hoe. destruct Hoe as (t0 & Hdl).
    destruct (Hw i p t0 Hn Hdl) as (Hwl0 & Hwl1).
    assert (Htx31 : rb_len (s_tx_buffer (ep_sock (net_get st x))) < 2 ^ 31)
      by (change (2 ^ 30) with 1073741824 in Htxb; change (2 ^ 31) with 2147483648; lia).
    destruct (process_sender_win _ _ _ _ _ _ _ Hcx (seg_ok_parse (snd p)) Ix Hst Hst' Htx31 Hi)
      as [(_ & C2 & _ & C4 & C5 & _ & C7 & _) | (_ & Hwn)].
    + right. rewrite Hk, Hu, C4, C5, C7, C2. split; [lia|]. split; [reflexivity|]. split; [lia|].
      split; [exact Hwin | right; reflexivity].
    + left. right. rewrite Hk, Hwn. unfold wire_parse at 1. cbn [r_window_len].
      rewrite Z.mod_small by lia. unfold shl, win_scale_of.
      pose proof (li_scale _ Ix) as Hsc.
      assert (0 < 2 ^ (match r_control (wire_parse (snd p)) with
                       | CSyn => 0
                       | _ => match s_remote_win_scale (ep_sock (net_get st x)) with Some v => v | None => 0 end
                       end)).
      { apply Z.pow_pos_nonneg; [lia|].
        destruct (r_control (wire_parse (snd p))); destruct (s_remote_win_scale (ep_sock (net_get st x))); lia. }
      nia.
  - (* poll *)
    destruct Hse as (-> & ->). cbn [fair_ev] in Hfe. subst emit_ok.
    pose proof (ep_step_una_off _ (EvDispatch true) _ _ _ _ I (li_tx _ Ix) He Hs ltac:(discriminate)) as Hu.
    cbn [tcp_step] in Hs. apply obind_ok in Hs. destruct Hs as (((s1 & rs) & tg) & Hd & Hs).
    assert (E : s1 = s') by (inversion Hs; auto). subst s1.
    destruct (dispatch_una_tx _ _ _ _ _ _ _ Ix Hst Hto Htu Hta Hd) as (D1 & D2 & _ & D4).
    right. rewrite Hk, Hu, D2, D1, D4. split; [lia|]. split; [reflexivity|]. split; [lia|].
    split; [exact Hwin | left; reflexivity].
  - (* send *)
    destruct Hse as (-> & ->).
    destruct (ep_step_send_una_off _ _ _ (li_tx _ Ix) He) as (U1 & U2 & U3 & _).
    right. split; [exact U1|]. split; [exact U3|]. split; [exact U2|].
    cbn [tcp_step] in Hs. rewrite Hk.
    destruct (tcp_send_slice (ep_sock (net_get st x)) data) as [(s2, n)|err|] eqn:E; [| |discriminate].
    + assert (E1 : s2 = s') by (inversion Hs; reflexivity). subst s2.
      destruct (send_slice_zw _ _ _ _ E Hni) as (A1 & A2). rewrite A2. split; [exact Hwin | right; exact A1].
    + assert (E1 : s' = ep_sock (net_get st x)) by (inversion Hs; reflexivity). rewrite E1.
      split; [exact Hwin | right; reflexivity].
  - (* recv *)
    destruct Hse as (-> & ->).
    pose proof (ep_step_una_off _ (EvRecv (Z.max 0 n)) _ _ _ _ I (li_tx _ Ix) He Hs ltac:(discriminate)) as Hu.
    cbn [tcp_step] in Hs. rewrite Hk.
    destruct (tcp_recv_slice (ep_sock (net_get st x)) (Z.max 0 n)) as [(s2, b)|err|] eqn:E; [| |discriminate].
    + assert (E1 : s2 = s') by (inversion Hs; reflexivity). subst s2.
      destruct (recv_slice_core _ _ _ _ E) as (_ & C2 & _ & C4 & C5 & _ & C7 & _).
      right. rewrite Hu, C4, C5, C7, C2. split; [lia|]. split; [reflexivity|]. split; [lia|].
      split; [exact Hwin | right; reflexivity].
    + assert (E1 : s' = ep_sock (net_get st x)) by (inversion Hs; reflexivity). rewrite E1 in *.
      right. rewrite Hu. split; [lia|]. split; [reflexivity|]. split; [lia|]. split; [exact Hwin | right; reflexivity].
  - (* close: not in this regime *)
    destruct Hse as (-> & ->). exfalso.
    cbn [tcp_step] in Hs. assert (E1 : tcp_close (ep_sock (net_get st x)) = s') by (inversion Hs; reflexivity).
    rewrite Hk, <- E1 in Hst'. unfold tcp_close in Hst'. rewrite Hst in Hst'. sproj in Hst'. discriminate.
Qed.

(* ---------------------------------------------------------------------------------------- *)
(* one event of the receiver while its buffer is empty                                       *)
(* ---------------------------------------------------------------------------------------- *)
Lemma scaled_pos_bounds st : zsafe st -> rcv_off (net_get st y) = read_off (net_get st y) ->
  0 < tcp_scaled_window (net_sock st y) < 65536.
Proof.
  intros HR E. assert (H0 : rb_len (s_rx_buffer (net_sock st y)) = 0).
  { pose proof (zrx_is_diff st) as Hd. unfold rx_len in Hd. lia. }
  pose proof (zs_capw st HR H0) as Hp. split; [exact Hp|].
  pose proof (scaled_window_u16 (net_sock st y) ltac:(lia)) as Hm.
  pose proof (Z.mod_pos_bound (tcp_scaled_window (net_sock st y)) 65536 ltac:(lia)). lia.
Qed.

Lemma zb_y_event st ev ev0 e' d0 :
  NI st -> zsafe st -> zsafe (net_set st y e') ->
  rcv_off (net_get st y) = d0 -> read_off (net_get st y) = d0 ->
  sock_event st ev y ev0 -> ep_step (net_get st y) ev0 = Ok e' ->
  read_off e' = d0 /\
  (d0 < rcv_off e' \/
   (rcv_off e' = d0 /\
    forall q, ep_out e' = ep_out (net_get st y) ++ [q] -> 0 < r_window_len (snd q) < 65536)).
Proof.
  intros HN HR HR' Hrc Hrd Hse He.
  pose proof (zy_event_mono st ev ev0 e' HN HR Hse He) as Hm.
  destruct (ep_step_spec _ _ _ He) as (s' & out & tags & Hs & Hk & _ & Hout & _ & _ & Hrd' & _).
  destruct (zs_rcv st HR) as (_ & _ & Hrxwf & Hsh).
  pose proof (zs_est st HR y) as Hst. pose proof (zs_est _ HR' y) as Hst'.
  destruct (zs_tuple st HR y) as (t & Htu & Hta).
  unfold net_sock in Hst, Hst', Htu, Hrxwf, Hsh. rewrite net_get_set_same in Hst'. rewrite Hk in Hst'.
  (* the window of whatever is emitted *)
  assert (Hemit : rcv_off e' = read_off e' ->
                  (forall q, wire_out out = Some q -> r_window_len (snd q) = tcp_scaled_window s') ->
                  forall q, ep_out e' = ep_out (net_get st y) ++ [q] -> 0 < r_window_len (snd q) < 65536).
  { intros Heq Hwin q Hq. rewrite Hout in Hq. apply app_inv_head in Hq.
    destruct (wire_out out) as [q0|] eqn:Ew; cbn [opt_list] in Hq; [|discriminate]. inversion Hq; subst q0.
    rewrite (Hwin q eq_refl), <- Hk.
    pose proof (scaled_pos_bounds (net_set st y e') HR') as B. unfold net_sock in B. rewrite net_get_set_same in B.
    apply B. exact Heq. }
  destruct ev; cbn [sock_event] in Hse; try contradiction.
  - (* a segment arrives *)
    destruct Hse as (-> & p & Hn & ->).
    assert (Hr : read_off e' = d0) by (unfold read_off in *; rewrite Hrd'; cbn [log_read]; exact Hrd).
    split; [exact Hr|].
    destruct (Z_lt_le_dec d0 (rcv_off e')) as [Hgt | Hle]; [left; exact Hgt|]. right.
    assert (Hrc' : rcv_off e' = d0) by lia. split; [exact Hrc'|].
    cbn [tcp_step] in Hs. apply obind_ok in Hs. destruct Hs as (((s1 & rp) & tg) & Hi & Hs).
    assert (E : s1 = s' /\ out = OReply rp) by (inversion Hs; auto). destruct E as (-> & ->).
    pose proof (nth_error_In _ _ Hn) as Hin.
    rewrite (ingress_is_process _ _ _ (zs_acc st HR y p Hin)) in Hi. unfold net_sock in Hi.
    apply Hemit; [lia|].
    intros q Eq. destruct rp as [q0|]; cbn [wire_out] in Eq; [|discriminate]. inversion Eq; subst q0.
    destruct (process_reply_win _ _ _ _ _ _ _ Hi) as [X | X]; [exfalso | exact X].
    pose proof (TcpProgressCtl.process_reply_shape _ _ _ _ _ _ _ Hi) as Hsh'. cbn in Hsh'.
    destruct Hsh' as (_ & [(_ & [Y | Y]) | (Y & _)]); [rewrite Hst in Y; discriminate | rewrite Hst in Y; discriminate|].
    rewrite Y in X. discriminate.
  - (* poll *)
    destruct Hse as (-> & ->).
    assert (Hr : read_off e' = d0) by (unfold read_off in *; rewrite Hrd'; cbn [log_read]; exact Hrd).
    split; [exact Hr|].
    destruct (Z_lt_le_dec d0 (rcv_off e')) as [Hgt | Hle]; [left; exact Hgt|]. right.
    assert (Hrc' : rcv_off e' = d0) by lia. split; [exact Hrc'|].
    cbn [tcp_step] in Hs. apply obind_ok in Hs. destruct Hs as (((s1 & rs) & tg) & Hd & Hs).
    assert (E : s1 = s' /\ out = ODispatch rs) by (inversion Hs; auto). destruct E as (-> & ->).
    apply Hemit; [lia|].
    intros q Eq. destruct rs as [|q0|q0]; cbn [wire_out] in Eq; try discriminate. inversion Eq; subst q0.
    exact (dispatch_est_win _ _ _ _ _ _ _ Hst Hst' Htu Hta Hd q eq_refl).
  - (* send *)
    destruct Hse as (-> & ->).
    assert (Hr : read_off e' = d0) by (unfold read_off in *; rewrite Hrd'; cbn [log_read]; exact Hrd).
    split; [exact Hr|].
    destruct (Z_lt_le_dec d0 (rcv_off e')) as [Hgt | Hle]; [left; exact Hgt|]. right.
    split; [lia|]. intros q Hq. exfalso. rewrite Hout in Hq. apply app_inv_head in Hq.
    cbn [tcp_step] in Hs. destruct (tcp_send_slice _ _) as [(s2, n)|err|]; [| |discriminate]; inversion Hs; subst; discriminate.
  - (* recv: nothing to read *)
    destruct Hse as (-> & ->).
    assert (Hn0 : 0 <= Z.max 0 n) by lia.
    destruct (ep_step_recv _ _ _ Hrxwf Hn0 He) as (E1 & _).
    pose proof (ep_step_mono _ _ _ He) as (_ & Hpr & _).
    apply TcpNetCompose_l_len_prefix in Hpr. fold (read_off (net_get st y)) in Hpr. fold (read_off e') in Hpr.
    destruct (zs_rcv _ HR') as (_ & _ & ((Hl0 & _) & _) & _). unfold net_sock in Hl0. rewrite net_get_set_same in Hl0.
    assert (Hd : rb_len (s_rx_buffer (ep_sock e')) = rcv_off e' - read_off e') by (unfold rcv_off, read_off; lia).
    assert (Hr : read_off e' = d0) by lia.
    split; [exact Hr|]. right. split; [lia|]. intros q Hq. exfalso. rewrite Hout in Hq. apply app_inv_head in Hq.
    cbn [tcp_step] in Hs. destruct (tcp_recv_slice _ _) as [(s2, b)|err|]; [| |discriminate]; inversion Hs; subst; discriminate.
  - (* close: not in this regime *)
    destruct Hse as (-> & ->). exfalso.
    cbn [tcp_step] in Hs. assert (E1 : tcp_close (ep_sock (net_get st y)) = s') by (inversion Hs; reflexivity).
    rewrite <- E1 in Hst'. unfold tcp_close in Hst'. rewrite Hst in Hst'. sproj in Hst'. discriminate.
Qed.

(* ---------------------------------------------------------------------------------------- *)
(* one step of the system while x believes the window closed and y's buffer is empty          *)
(* ---------------------------------------------------------------------------------------- *)
Definition Zb (u0 d0 dk : Z) (fa : fair_aux) (st : net) : Prop :=
  NI st /\ opts_ok st /\ dl_sync Da fa st /\ net_now st y - net_now st x = dk /\
  una_off (net_get st x) = u0 /\ read_off (net_get st y) = d0 /\ rcv_off (net_get st y) = d0 /\
  0 < txl x st /\ s_remote_win_len (net_sock st x) = 0 /\ wpos fa st.

Definition zkeep (st : net) (ev : net_event) (st' : net) : Prop :=
  s_local_seq_no (net_sock st' x) = s_local_seq_no (net_sock st x) /\ txl x st <= txl x st' /\
  (ev = NPoll x true \/ s_timer (net_sock st' x) = s_timer (net_sock st x)).

Lemma zb_step u0 d0 dk fa st ev st' :
  0 <= Da ->
  zsafe st -> zsafe st' -> Zb u0 d0 dk fa st -> fair_ev fa st ev -> once_ev fa ev -> net_step st ev = Ok st' ->
  Qz u0 d0 st' \/ JR d0 (net_now st' y + Da) (fa_after Dt Da fa ev st') st' \/
  (Zb u0 d0 dk (fa_after Dt Da fa ev st') st' /\ zkeep st ev st').
Proof.
  intros HDa HR HR' (HN & Ho & Hsy & Hdk & Hu & Hrd & Hrc & Hl & Hwin & Hw) Hfe Hoe H.
  pose proof (NI_step _ _ _ HN H) as HN'. pose proof (opts_step _ _ _ Ho H) as Ho'.
  pose proof (fa_after_sync Dt Da _ _ _ _ Hsy Hfe H) as Hsy'.
  assert (Hdk' : net_now st' y - net_now st' x = dk).
  { rewrite (net_step_now _ _ _ x H), (net_step_now _ _ _ y H). lia. }
  assert (Hsame : ep_same_data (net_get st' x) (net_get st x) -> ep_same_data (net_get st' y) (net_get st y) ->
                  ev <> NPoll x true \/ True ->
                  Qz u0 d0 st' \/ JR d0 (net_now st' y + Da) (fa_after Dt Da fa ev st') st' \/
                  (Zb u0 d0 dk (fa_after Dt Da fa ev st') st' /\ zkeep st ev st')).
  { intros (X1 & X2 & X3 & X4) (Y1 & Y2 & Y3 & Y4) _. right. right.
    assert (Hch : chan_to st' x = chan_to st x) by (unfold chan_to; exact Y4).
    split.
    - unfold Zb, txl, net_sock, una_off, rcv_off, read_off. rewrite X1, X2, Y1, Y3.
      split; [exact HN'|]. split; [exact Ho'|]. split; [exact Hsy'|]. split; [exact Hdk'|].
      split; [exact Hu|]. split; [exact Hrd|]. split; [exact Hrc|]. split; [exact Hl|]. split; [exact Hwin|].
      apply (wpos_step fa st ev st' Hsy Hfe H Hw). intros q Hq. exfalso. rewrite Hch in Hq.
      apply (f_equal (@length packet)) in Hq. rewrite app_length in Hq. cbn [length] in Hq. lia.
    - unfold zkeep, txl, net_sock. rewrite X1. split; [reflexivity|]. split; [lia | right; reflexivity]. }
  destruct (net_step_kind _ _ _ H) as [w ev0 e' Hse He E | to i E1 _ E | d E1 E | w isn ts E1 E | to i Hd].
  - destruct (side_cases x w) as [Ew | Ew]; subst w st'.
    + (* an event of the sender *)
      destruct (zb_x_event fa st ev ev0 e' HN Ho HR HR' Hfe Hoe Hw Hwin Hl Hse He)
        as [[Hp | Hp] | (U1 & U2 & U3 & U4 & U5)].
      * left. left. rewrite net_get_set_same, <- Hu. exact Hp.
      * left. right. right. unfold net_sock. rewrite net_get_set_same. exact Hp.
      * right. right.
        assert (Ey : net_get (net_set st x e') y = net_get st y) by apply net_get_set_other.
        assert (Hch : chan_to (net_set st x e') x = chan_to st x) by (unfold chan_to; fold y; rewrite Ey; reflexivity).
        split.
        -- unfold Zb, txl, net_sock. rewrite net_get_set_same, Ey.
           split; [exact HN'|]. split; [exact Ho'|]. split; [exact Hsy'|]. split; [exact Hdk'|].
           split; [rewrite U1; exact Hu|]. split; [exact Hrd|]. split; [exact Hrc|].
           split; [unfold txl, net_sock in Hl, U3; lia|]. split; [exact U4|].
           apply (wpos_step fa st ev _ Hsy Hfe H Hw). intros q Hq. exfalso. rewrite Hch in Hq.
           apply (f_equal (@length packet)) in Hq. rewrite app_length in Hq. cbn [length] in Hq. lia.
        -- unfold zkeep, txl, net_sock. rewrite net_get_set_same. split; [exact U2|]. split; [exact U3 | exact U5].
    + (* an event of the receiver *)
      change (side_other x) with y in He, Hse, HR', HN', Ho', Hsy', Hdk', H |- *.
      assert (Ex : net_get (net_set st y e') x = net_get st x).
      { pose proof (net_get_set_other st y e') as X. unfold y in X at 2 3. rewrite side_other_inv in X. exact X. }
      destruct (zb_y_event st ev ev0 e' d0 HN HR HR' Hrc Hrd Hse He) as (Hr' & [Hgt | (Hrc' & Hnew)]).
      * right. left. apply (enter_R d0 _ fa st ev _ HN Ho Hsy Hfe H); [rewrite net_get_set_same; exact Hr' | rewrite net_get_set_same; exact Hgt | lia | exact HDa].
      * right. right. split.
        -- unfold Zb, txl, net_sock. rewrite Ex, net_get_set_same.
           split; [exact HN'|]. split; [exact Ho'|]. split; [exact Hsy'|]. split; [exact Hdk'|].
           split; [exact Hu|]. split; [exact Hr'|]. split; [exact Hrc'|]. split; [exact Hl|]. split; [exact Hwin|].
           apply (wpos_step fa st ev _ Hsy Hfe H Hw). intros q Hq. apply Hnew.
           unfold chan_to in Hq. fold y in Hq. rewrite net_get_set_same in Hq. exact Hq.
        -- unfold zkeep, txl, net_sock. rewrite Ex. split; [reflexivity|]. split; [lia | right; reflexivity].
  - subst st'. apply Hsame; [repeat split | repeat split | right; exact I].
  - subst st'. apply Hsame; [apply tick_same | apply tick_same | right; exact I].
  - subst st'. apply Hsame; [apply rand_same | apply rand_same | right; exact I].
  - exfalso. destruct Hd as [-> | ->]; exact Hfe.
Qed.

Lemma JR_mono d0 T T' fa st : T <= T' -> JR d0 T fa st -> JR d0 T' fa st.
Proof.
  intros HT (A1 & A2 & A3 & A4 & A5 & A6 & t & A7 & A8).
  split; [exact A1|]. split; [exact A2|]. split; [exact A3|]. split; [exact A4|]. split; [exact A5|].
  split; [lia|]. exists t. split; [exact A7 | lia].
Qed.

(* ---------------------------------------------------------------------------------------- *)
(* Z1: the probe deadline                                                                    *)
(* ---------------------------------------------------------------------------------------- *)
Definition zdl (T : Z) (st : net) : Prop :=
  net_now st x <= T /\
  match s_timer (net_sock st x) with
  | TZeroWindowProbe e _ => e <= T
  | TRetransmit e => e + max_rto_us <= T /\ net_now st x + max_rto_us <= T
  | TFastRetransmit => net_now st x + 2 * max_rto_us <= T
  | _ => False
  end.

Definition Z1 (u0 d0 dk T1 : Z) (fa : fair_aux) (st : net) : Prop := Zb u0 d0 dk fa st /\ zdl T1 st.

Definition Z2 (u0 d0 dk T2 : Z) (fa : fair_aux) (st : net) : Prop :=
  Zb u0 d0 dk fa st /\
  exists i p t, nth_error (chan_to st y) i = Some p /\ nth_error (fa_dl fa y) i = Some (Some t) /\
                net_now st y <= t /\ t <= T2 /\
                r_seq_number (snd p) = s_local_seq_no (net_sock st x) /\
                0 < l_len (r_payload (snd p)) /\ r_ack_number (snd p) <> None.

Definition Z4 (u0 d0 dk T4 : Z) (fa : fair_aux) (st : net) : Prop :=
  Zb u0 d0 dk fa st /\
  exists j q t d, nth_error (chan_to st x) j = Some q /\ nth_error (fa_dl fa x) j = Some (Some t) /\
                  net_now st x <= t /\ t <= T4 /\
                  r_control (snd q) = CNone /\ r_payload (snd q) = [] /\
                  r_ack_number (snd q) = Some (sq (s_local_seq_no (net_sock st x) + d)) /\
                  0 <= d <= txl x st.

Lemma zdl_clock T st : zdl T st -> net_now st x <= T.
Proof. intros (A & _). exact A. Qed.

(* the state after the step when x's socket is not touched by a dispatch: the deadline stands *)
Lemma zdl_keep T fa st ev st' :
  zsafe st -> fair_ev fa st ev -> net_step st ev = Ok st' ->
  s_timer (net_sock st' x) = s_timer (net_sock st x) -> zdl T st -> zdl T st'.
Proof.
  intros HR Hfe H Ht (Hc & Hd). unfold zdl. rewrite Ht.
  rewrite (net_step_now _ _ _ x H).
  destruct ev; try (rewrite Z.add_0_r; split; [exact Hc | exact Hd]).
  (* a tick: the clock cannot pass poll_at, which is not later than the armed timer *)
  destruct Hfe as (Hd0 & Hperm). destruct (Z.eq_dec d 0) as [-> | Hnz];
    [change (Z.max 0 0) with 0; rewrite Z.add_0_r; split; [exact Hc | exact Hd]|].
  destruct (Hperm ltac:(lia) x) as (Hpp & _). unfold poll_permits, net_poll_at in Hpp.
  destruct (zs_tuple st HR x) as (t & Htu & _).
  pose proof (poll_at_le_timer (ep_cx (net_get st x)) (net_sock st x) ltac:(rewrite Htu; discriminate)) as Hpa.
  unfold net_sock in *.
  destruct (tcp_poll_at (ep_cx (net_get st x)) (ep_sock (net_get st x))) as [[|t0|]|err|]; try contradiction.
  - destruct (s_timer (ep_sock (net_get st x))) as [k|e| |e d1|e]; try contradiction; unfold net_now in *; pose proof max_rto_us_pos; lia.
  - destruct (s_timer (ep_sock (net_get st x))) as [k|e| |e d1|e]; contradiction.
Qed.

(* a dispatch of x in phase Z1: the probe goes out, or the deadline stands *)
Lemma z1_poll T1 st e' :
  NI st -> opts_ok st -> zsafe st -> NI (net_set st x e') ->
  s_remote_win_len (net_sock st x) = 0 -> 0 < txl x st ->
  s_remote_win_len (ep_sock e') = 0 -> 0 < rb_len (s_tx_buffer (ep_sock e')) ->
  zdl T1 st -> ep_step (net_get st x) (EvDispatch true) = Ok e' ->
  (exists p, ep_out e' = ep_out (net_get st x) ++ [p] /\
             r_seq_number (snd p) = s_local_seq_no (net_sock st x) /\
             0 < l_len (r_payload (snd p)) /\ r_ack_number (snd p) <> None) \/
  zdl T1 (net_set st x e').
Proof.
  intros HN Ho HR HN' Hwin Hlen Hwin' Hlen' (Hc & Hd) He.
  pose proof (NI_live st x HN) as Ix. destruct (HN x) as (Hcx & Hnow & (_ & Hb) & _).
  pose proof (zs_est st HR x) as Hst. destruct (zs_tuple st HR x) as (t & Htu & Hta).
  destruct (Ho x) as (Hto & _). pose proof max_rto_us_pos as Hmr.
  unfold net_sock, txl in *.
  destruct (ep_step_spec _ _ _ He) as (s' & out & tags & Hs & Hk & Hcx' & Hout & _).
  cbn [tcp_step] in Hs. apply obind_ok in Hs. destruct Hs as (((s1 & rs) & tg) & Hdp & Hs).
  assert (E : s1 = s' /\ out = ODispatch rs) by (inversion Hs; auto). destruct E as (-> & ->).
  assert (Hnow' : net_now (net_set st x e') x = cx_now (ep_cx (net_get st x)))
    by (unfold net_now; rewrite net_get_set_same, Hcx'; reflexivity).
  assert (Hzdl : forall tm, s_timer s' = tm ->
            match tm with
            | TZeroWindowProbe e _ => e <= T1
            | TRetransmit e => e + max_rto_us <= T1 /\ cx_now (ep_cx (net_get st x)) + max_rto_us <= T1
            | TFastRetransmit => cx_now (ep_cx (net_get st x)) + 2 * max_rto_us <= T1
            | _ => False
            end -> zdl T1 (net_set st x e')).
  { intros tm Etm X. unfold zdl. rewrite Hnow'. unfold net_sock. rewrite net_get_set_same, Hk, Etm.
    split; [unfold net_now in Hc; exact Hc | exact X]. }
  unfold net_now in Hc, Hd.
  destruct (s_timer (ep_sock (net_get st x))) as [k|e| |e d1|e] eqn:Ht; try contradiction.
  - (* retransmission timer *)
    destruct Hd as (Hd1 & Hd2).
    destruct (Z_le_gt_dec e (cx_now (ep_cx (net_get st x)))) as [Hdue | Hnd].
    + destruct (dispatch_zw_rto _ _ _ _ _ _ _ _ Ix Hst Hto Htu Hta Hwin Hlen Ht Hdue Hdp) as ((e1 & d2 & Ht' & Hb') & _).
      right. apply (Hzdl _ Ht'). lia.
    + right. apply (Hzdl (TRetransmit e)); [|split; assumption].
      exact (dispatch_not_due _ _ _ _ _ _ _ _ Ix Hst Hto Htu Hta Ht ltac:(lia) Hdp).
  - (* fast retransmit: whatever the timer becomes, it is bounded *)
    right. destruct (HN' x) as (_ & _ & (I' & Hb') & _). rewrite net_get_set_same in Hb', I'. rewrite Hcx', Hk in Hb'. rewrite Hk in I'.
    assert (L : st_live (s_state s') = true).
    { destruct (dispatch_una_tx _ _ _ _ _ _ _ Ix Hst Hto Htu Hta Hdp) as (_ & _ & X & _). rewrite X. reflexivity. }
    destruct (s_timer s') as [k|e| |e d1|e] eqn:Ht'.
    + exfalso. destruct (li_K _ I' L) as [Ha | (_ & Hw0)]; [rewrite Ht' in Ha; discriminate|]. rewrite Hk in Hlen', Hwin'. exact (Hw0 Hlen' Hwin').
    + apply (Hzdl _ eq_refl). unfold timer_bounded in Hb'. lia.
    + apply (Hzdl _ eq_refl). exact Hd.
    + apply (Hzdl _ eq_refl). unfold timer_bounded in Hb'. lia.
    + exfalso. destruct (li_close _ I' ltac:(rewrite Ht'; reflexivity)) as [X | X];
        destruct (dispatch_una_tx _ _ _ _ _ _ _ Ix Hst Hto Htu Hta Hdp) as (_ & _ & Y & _); rewrite Y in X; discriminate.
  - (* the probe timer *)
    destruct (Z_le_gt_dec e (cx_now (ep_cx (net_get st x)))) as [Hdue | Hnd].
    + left. destruct Hb as (_ & Hd1).
      assert (Hfl : s_remote_last_seq (ep_sock (net_get st x)) = s_local_seq_no (ep_sock (net_get st x))).
      { pose proof (zs_zwp st HR) as Z. unfold net_sock in Z. apply Z. rewrite Ht. reflexivity. }
      assert (Haddr : forall t0, s_tuple (ep_sock (net_get st x)) = Some t0 -> tu_local_addr t0 = cx_addr (ep_cx (net_get st x)))
        by (intros t0 Ht0; rewrite Htu in Ht0; inversion Ht0; subst; exact Hta).
      destruct (zero_window_probe_sent _ _ _ _ _ _ _ Ix Hst Ht Hdue ltac:(lia) Hwin Hlen Hfl Hto Haddr (zs_mss st HR) Hdp)
        as (ipr & repr & -> & Hsq & Hpl & _).
      exists (ipr, repr). cbn [wire_out opt_list] in Hout. split; [exact Hout|]. cbn [snd].
      split; [exact Hsq|]. split; [lia|].
      destruct (dispatch_established _ _ _ _ _ _ _ Hst Htu Hta Hdp) as (Hack & _).
      destruct (Hack (ipr, repr) (or_introl eq_refl)) as (Ha & _). cbn [snd] in Ha. rewrite Ha. discriminate.
    + right. apply (Hzdl (TZeroWindowProbe e d1)); [|exact Hd].
      assert (Hfl : s_remote_last_seq (ep_sock (net_get st x)) = s_local_seq_no (ep_sock (net_get st x))).
      { pose proof (zs_zwp st HR) as Z. unfold net_sock in Z. apply Z. rewrite Ht. reflexivity. }
      destruct (dispatch_zw_not_due _ _ _ _ _ _ _ _ _ Ix Hst Hto Htu Hta Hwin Hfl Ht ltac:(lia) Hdp) as (X & _). exact X.
Qed.

Lemma chan_y_out st : chan_to st y = ep_out (net_get st x).
Proof. unfold chan_to, y. rewrite side_other_inv. reflexivity. Qed.

Lemma Z1_step u0 d0 dk T1 fa st ev st' :
  0 <= Dt -> 0 <= Da ->
  zsafe st -> zsafe st' -> Z1 u0 d0 dk T1 fa st -> fair_ev fa st ev -> once_ev fa ev -> net_step st ev = Ok st' ->
  (Qz u0 d0 st' \/ JR d0 (T1 + dk + Da) (fa_after Dt Da fa ev st') st' \/
   Z2 u0 d0 dk (T1 + dk + Dt) (fa_after Dt Da fa ev st') st') \/
  Z1 u0 d0 dk T1 (fa_after Dt Da fa ev st') st'.
Proof.
  intros HDt HDa HR HR' (HB & HD) Hfe Hoe H.
  pose proof HB as (HN & Ho & Hsy & Hdk & Hu & Hrd & Hrc & Hl & Hwin & Hw).
  pose proof (zdl_clock _ _ HD) as Hclk.
  destruct (zb_step u0 d0 dk fa st ev st' HDa HR HR' HB Hfe Hoe H) as [HQ | [HJ | (HB' & Hlsn & Htl & Hk)]].
  - left. left. exact HQ.
  - left. right. left. apply (JR_mono d0 (net_now st' y + Da)); [|exact HJ].
    rewrite (net_step_now _ _ _ y H). destruct ev; try lia.
    (* a tick does not fill y's buffer *)
    exfalso. destruct HJ as (_ & _ & _ & A4 & A5 & _).
    rewrite (net_step_tick _ _ _ H) in A5. destruct (tick_same st d y) as (E1 & _ & E3 & _).
    unfold rcv_off in *. rewrite E1, E3 in A5. unfold read_off in Hrd. lia.
  - destruct Hk as [-> | Hts].
    + (* a dispatch of x *)
      pose proof HB' as (HN' & _ & Hsy' & Hdk' & _ & _ & _ & Hl' & Hwin' & _).
      unfold net_step in H. apply obind_ok in H. destruct H as (e' & He & H). inversion H; subst st'; clear H.
      unfold txl, net_sock in Hwin', Hl'. rewrite net_get_set_same in Hwin', Hl'.
      destruct (z1_poll T1 st e' HN Ho HR HN' Hwin Hl Hwin' Hl' HD He) as [(p & Hout & Hsq & Hpl & Hak) | HD'].
      * left. right. right. split; [exact HB'|].
        set (st' := net_set st x e') in *.
        assert (Hch : chan_to st' y = chan_to st y ++ [p]).
        { rewrite !chan_y_out. unfold st'. rewrite net_get_set_same. exact Hout. }
        assert (Hnowy : net_now st' y = net_now st y).
        { unfold st', net_now. rewrite net_get_set_other. reflexivity. }
        exists (length (chan_to st y)), p, (net_now st' y + Dt).
        split; [rewrite Hch, nth_error_app2 by lia; rewrite Nat.sub_diag; reflexivity|].
        split; [apply (fa_after_dl_new Dt Da fa st (NPoll x true) st' y _ Hsy); rewrite Hch, app_length; cbn [length]; lia|].
        split; [lia|]. split; [rewrite Hnowy; lia|].
        split; [rewrite Hlsn; exact Hsq|]. split; [exact Hpl | exact Hak].
      * right. split; [exact HB' | exact HD'].
    + right. split; [exact HB'|]. exact (zdl_keep T1 fa st ev st' HR Hfe H Hts HD).
Qed.

(* ---------------------------------------------------------------------------------------- *)
(* Z2: the probe reaches y                                                                   *)
(* ---------------------------------------------------------------------------------------- *)
(* y does not accept it (RCV.NXT stays): an ACK of RCV.NXT goes out at once *)
Lemma z2_deliver st i p st' :
  NI st -> zsafe st ->
  nth_error (chan_to st y) i = Some p ->
  r_seq_number (snd p) = s_local_seq_no (net_sock st x) ->
  0 < l_len (r_payload (snd p)) -> r_ack_number (snd p) <> None ->
  net_step st (NDeliver y i) = Ok st' ->
  rcv_off (net_get st' y) = rcv_off (net_get st y) ->
  exists q, chan_to st' x = chan_to st x ++ [q] /\ r_control (snd q) = CNone /\ r_payload (snd q) = [] /\
            r_ack_number (snd q) = Some (tcp_window_start (net_sock st' y)).
Proof.
  intros HN HR Hn Hsq Hpl Hak H Hsame.
  unfold net_step in H. fold (chan_to st y) in H. rewrite Hn in H.
  apply obind_ok in H. destruct H as (e' & He & H). inversion H; subst st'; clear H.
  assert (Ecx : forall st0, chan_to st0 x = ep_out (net_get st0 y)) by (intros; reflexivity).
  rewrite !Ecx. unfold net_sock. rewrite !net_get_set_same. rewrite net_get_set_same in Hsame.
  destruct (ep_step_spec _ _ _ He) as (s' & out & tags & Hs & Hk & _ & Hout & _).
  pose proof (ep_step_rcv_off _ (EvSegment (fst p) (wire_parse (snd p))) _ _ _ _ He Hs ltac:(discriminate)) as Hro.
  cbn [tcp_step] in Hs. apply obind_ok in Hs. destruct Hs as (((s1 & rp) & tg) & Hi & Hs).
  assert (E : s1 = s' /\ out = OReply rp) by (inversion Hs; auto). destruct E as (-> & ->).
  pose proof (nth_error_In _ _ Hn) as Hin.
  rewrite (ingress_is_process _ _ _ (zs_acc st HR y p Hin)) in Hi. unfold net_sock in Hi.
  pose proof (NI_live st y HN) as Iy. pose proof (NI_live st x HN) as Ix. unfold net_sock in Iy, Ix.
  destruct (zs_rcv st HR) as (Hrw & (W & HW & Hwe) & _ & _). unfold net_sock in Hrw, Hwe.
  destruct (wire_parse_same (snd p)) as (Wc & Wp & Wsq).
  destruct (zs_chan st HR p Hin) as [(_ & Ha) | (Hc & Ha & Hl)]; unfold net_sock in *.
  { exfalso. unfold wire_parse in Ha. cbn [r_ack_number] in Ha. destruct (r_ack_number (snd p)); [discriminate | congruence]. }
  destruct (zs_cross st HR) as (Hcr & Hk0 & Hk1). unfold net_sock in Hcr, Hk1.
  set (k := rcv_off (net_get st y) - una_off (net_get st x)) in *.
  pose proof (zs_txb st HR) as Htxb. unfold net_sock in Htxb. change (2 ^ 30) with 1073741824 in Htxb.
  assert (Hux : u32 (s_local_seq_no (ep_sock (net_get st x)))) by apply (li_una _ Ix).
  assert (Hseq : r_seq_number (wire_parse (snd p)) = seq_norm (tcp_window_start (ep_sock (net_get st y)) - k)).
  { rewrite Wsq, Hsq, Hcr. change (seq_norm (sq (s_local_seq_no (ep_sock (net_get st x)) + k) - k))
      with (seq_subn (sq (s_local_seq_no (ep_sock (net_get st x)) + k)) k).
    rewrite seq_subn_sq. replace (s_local_seq_no (ep_sock (net_get st x)) + k - k) with (s_local_seq_no (ep_sock (net_get st x))) by lia.
    reflexivity. }
  assert (Hpl' : 0 < l_len (r_payload (wire_parse (snd p))) <= p30) by (rewrite Wp in *; unfold TcpRecvWindow.p30; lia).
  assert (Huy : 0 <= s_local_seq_no (ep_sock (net_get st y)) < 4294967296) by apply (li_una _ Iy).
  pose proof (zs_ytx st HR) as Hytx. unfold net_sock in Hytx.
  assert (Htx31 : 0 <= rb_len (s_tx_buffer (ep_sock (net_get st y))) < 2147483648) by lia.
  pose proof (zs_est st HR y) as Hst. unfold net_sock in Hst.
  assert (Hk30 : 0 <= k <= p30) by (unfold TcpRecvWindow.p30; lia).
  destruct (process_data_below _ _ _ _ _ _ _ W k Hst Hrw Hwe HW Hseq Hk30 Hpl' Hc Ha Huy Htx31 Hi)
    as (_ & _ & _ & [(q & -> & Hp & _) | (-> & _ & m & Hm & L)]).
  - exists q. cbn [wire_out opt_list] in Hout. rewrite Hk. split; [exact Hout|].
    destruct Hp as (A1 & A2 & A3 & _). auto.
  - exfalso. rewrite Hro in Hsame. lia.
Qed.

Lemma Z2_step u0 d0 dk T2 fa st ev st' :
  0 <= Dt -> 0 <= Da ->
  zsafe st -> zsafe st' -> Z2 u0 d0 dk T2 fa st -> fair_ev fa st ev -> once_ev fa ev -> net_step st ev = Ok st' ->
  (Qz u0 d0 st' \/ JR d0 (T2 + Da) (fa_after Dt Da fa ev st') st' \/
   Z4 u0 d0 dk (T2 - dk + Dt) (fa_after Dt Da fa ev st') st') \/
  Z2 u0 d0 dk T2 (fa_after Dt Da fa ev st') st'.
Proof.
  intros HDt HDa HR HR' (HB & i & p & t & Hn & Hdl & Hnow & HtT & Hsq & Hpl & Hak) Hfe Hoe H.
  pose proof HB as (HN & Ho & Hsy & Hdk & Hu & Hrd & Hrc & Hl & Hwin & Hw).
  assert (Hclky : net_now st' y <= T2).
  { rewrite (net_step_now _ _ _ y H). destruct ev; try lia.
    pose proof (tick_respects_dl fa st d y i t Hfe Hdl Hnow). lia. }
  destruct (zb_step u0 d0 dk fa st ev st' HDa HR HR' HB Hfe Hoe H) as [HQ | [HJ | (HB' & Hlsn & Htl & Hk)]].
  - left. left. exact HQ.
  - left. right. left. apply (JR_mono d0 (net_now st' y + Da)); [lia | exact HJ].
  - pose proof HB' as (HN' & _ & Hsy' & Hdk' & Hu' & Hrd' & Hrc' & Hl' & Hwin' & Hw').
    destruct (match ev with NDeliver to j => if side_eqb to y then Nat.eqb j i else false | _ => false end) eqn:Htr.
    + (* the probe is delivered and not accepted: the ACK is on the wire *)
      destruct ev; try discriminate. destruct (side_eqb to y) eqn:Es; [|discriminate].
      apply side_eqb_true in Es. apply Nat.eqb_eq in Htr. subst to i0.
      destruct (z2_deliver st i p st' HN HR Hn Hsq Hpl Hak H ltac:(lia)) as (q & Hch & Hc & Hp & Ha).
      left. right. right. split; [exact HB'|].
      assert (Hclkx : net_now st' x = net_now st x) by (rewrite (net_step_now _ _ _ x H); lia).
      exists (length (chan_to st x)), q, (net_now st' x + Dt), (rcv_off (net_get st' y) - una_off (net_get st' x)).
      split; [rewrite Hch, nth_error_app2 by lia; rewrite Nat.sub_diag; reflexivity|].
      split; [apply (fa_after_dl_new Dt Da fa st (NDeliver y i) st' x _ Hsy); rewrite Hch, app_length; cbn [length]; lia|].
      split; [lia|]. split; [rewrite Hclkx; lia|].
      split; [exact Hc|]. split; [exact Hp|].
      destruct (zs_cross st' HR') as (Hcr & Hk0 & Hk1).
      split; [rewrite Ha, Hcr; reflexivity|]. unfold txl. lia.
    + right. split; [exact HB'|].
      exists i, p, t.
      split; [apply (fair_step_nth fa st ev st' y i p Hfe H Hn)|].
      split.
      { apply fa_after_dl_keep; [exact Hdl|]. intros to E Eto. subst ev to.
        rewrite side_eqb_refl, Nat.eqb_refl in Htr. discriminate. }
      split.
      { rewrite (net_step_now _ _ _ y H). destruct ev; try lia.
        apply (tick_respects_dl fa st d y i t Hfe Hdl Hnow). }
      split; [exact HtT|]. split; [rewrite Hlsn; exact Hsq|]. split; assumption.
Qed.

(* ---------------------------------------------------------------------------------------- *)
(* Z4: the ACK that advertises the open window reaches x                                      *)
(* ---------------------------------------------------------------------------------------- *)
Lemma z4_deliver st j q d st' :
  NI st -> zsafe st ->
  nth_error (chan_to st x) j = Some q ->
  r_control (snd q) = CNone -> r_payload (snd q) = [] ->
  r_ack_number (snd q) = Some (sq (s_local_seq_no (net_sock st x) + d)) -> 0 <= d <= txl x st ->
  0 < r_window_len (snd q) < 65536 ->
  net_step st (NDeliver x j) = Ok st' ->
  0 < s_remote_win_len (net_sock st' x).
Proof.
  intros HN HR Hn Hc Hp Hak Hd Hwl H.
  unfold net_step in H. fold (chan_to st x) in H. rewrite Hn in H.
  apply obind_ok in H. destruct H as (e' & He & H). inversion H; subst st'; clear H.
  unfold net_sock. rewrite net_get_set_same.
  pose proof (NI_live st x HN) as Ix. destruct (HN x) as (Hcx & _). unfold net_sock in *.
  destruct (ep_step_spec _ _ _ He) as (s' & out & tags & Hs & Hk & _).
  cbn [tcp_step] in Hs. apply obind_ok in Hs. destruct Hs as (((s1 & rp) & tg) & Hi & Hs).
  assert (E : s1 = s') by (inversion Hs; reflexivity). subst s1.
  pose proof (nth_error_In _ _ Hn) as Hin.
  rewrite (ingress_is_process _ _ _ (zs_acc st HR x q Hin)) in Hi. unfold net_sock in Hi.
  destruct (wire_parse_same (snd q)) as (Wc & Wp & _).
  destruct (zs_xchan st HR q Hin) as [Hsyn | (_ & _ & Hsq)]; [rewrite Wc, Hc in Hsyn; discriminate|].
  destruct (zs_xadv st HR) as (W & HW & Hwe). unfold net_sock in *.
  pose proof (zs_txb st HR) as Htxb. unfold net_sock in Htxb.
  pose proof (zs_est st HR x) as Hst. unfold net_sock in Hst.
  assert (Hack : r_ack_number (wire_parse (snd q)) = Some (sq (s_local_seq_no (ep_sock (net_get st x)) + d))).
  { unfold wire_parse. cbn [r_ack_number]. rewrite Hak. f_equal. unfold seq_norm, sq, seq_modulus.
    apply Z.mod_mod. change (2 ^ 32) with 4294967296. lia. }
  unfold txl, net_sock in Hd.
  assert (HW' : 0 <= W <= 2 ^ 30) by (unfold TcpRecvWindow.p30 in HW; change (2 ^ 30) with 1073741824; lia).
  assert (Hwl' : 0 < r_window_len (wire_parse (snd q))).
  { unfold wire_parse. cbn [r_window_len]. rewrite Z.mod_small by lia. lia. }
  destruct (window_update_learned _ _ _ _ _ _ _ d W Hcx (seg_ok_parse (snd q)) Ix Hst
              ltac:(rewrite Wc; exact Hc) ltac:(rewrite Wp; exact Hp) Hsq Hwe HW' Hack Hd Htxb Hwl' Hi)
    as (_ & Hpos & _).
  rewrite Hk. exact Hpos.
Qed.

Lemma Z4_step u0 d0 dk T4 fa st ev st' :
  0 <= Da ->
  zsafe st -> zsafe st' -> Z4 u0 d0 dk T4 fa st -> fair_ev fa st ev -> once_ev fa ev -> net_step st ev = Ok st' ->
  (Qz u0 d0 st' \/ JR d0 (T4 + dk + Da) (fa_after Dt Da fa ev st') st') \/
  Z4 u0 d0 dk T4 (fa_after Dt Da fa ev st') st'.
Proof.
  intros HDa HR HR' (HB & j & q & t & d & Hn & Hdl & Hnow & HtT & Hc & Hp & Hak & Hd) Hfe Hoe H.
  pose proof HB as (HN & Ho & Hsy & Hdk & Hu & Hrd & Hrc & Hl & Hwin & Hw).
  assert (Hclkx : net_now st' x <= T4).
  { rewrite (net_step_now _ _ _ x H). destruct ev; try lia.
    pose proof (tick_respects_dl fa st d1 x j t Hfe Hdl Hnow). lia. }
  destruct (match ev with NDeliver to i => if side_eqb to x then Nat.eqb i j else false | _ => false end) eqn:Htr.
  { destruct ev; try discriminate. destruct (side_eqb to x) eqn:Es; [|discriminate].
    apply side_eqb_true in Es. apply Nat.eqb_eq in Htr. subst to i.
    left. left. right. right.
    exact (z4_deliver st j q d st' HN HR Hn Hc Hp Hak Hd (Hw j q t Hn Hdl) H). }
  destruct (zb_step u0 d0 dk fa st ev st' HDa HR HR' HB Hfe Hoe H) as [HQ | [HJ | (HB' & Hlsn & Htl & Hk)]].
  - left. left. exact HQ.
  - left. right. apply (JR_mono d0 (net_now st' y + Da)); [|exact HJ].
    pose proof (net_run_skew2 [ev] st st' y x ltac:(cbn [net_run]; rewrite H; reflexivity)) as Hsk. lia.
  - right. split; [exact HB'|].
    exists j, q, t, d.
    split; [apply (fair_step_nth fa st ev st' x j q Hfe H Hn)|].
    split.
    { apply fa_after_dl_keep; [exact Hdl|]. intros to E Eto. subst ev to.
      rewrite side_eqb_refl, Nat.eqb_refl in Htr. discriminate. }
    split.
    { rewrite (net_step_now _ _ _ x H). destruct ev; try lia.
      apply (tick_respects_dl fa st d1 x j t Hfe Hdl Hnow). }
    split; [exact HtT|]. split; [exact Hc|]. split; [exact Hp|]. split; [rewrite Hlsn; exact Hak | lia].
Qed.

(* ---------------------------------------------------------------------------------------- *)
(* STEP 4: THE WINDOW REOPENS                                                                *)
(* ---------------------------------------------------------------------------------------- *)
(* x believes the window closed and has octets queued; every frame that can still be delivered to x
   advertises an open window (in particular: nothing is in flight towards x any more).  On every
   reliable run on which the safety facts hold, before x's clock has advanced by more than
   2 RTTE_MAX_RTO + 2 Dt + Da the run passes through a state in which SND.UNA of x has advanced, or y's
   application has read, or the window x has learned is open. *)
Theorem zero_window_eventually_reopens : forall evs fa st st' u0 d0,
  0 <= Dt -> 0 <= Da ->
  NI st -> opts_ok st -> dl_sync Da fa st ->
  run_all zsafe st evs -> fair_run Dt Da fa st evs -> once_run Dt Da fa st evs -> net_run st evs = Ok st' ->
  0 < txl x st -> s_remote_win_len (net_sock st x) = 0 -> wpos fa st ->
  una_off (net_get st x) = u0 -> read_off (net_get st y) = d0 ->
  net_now st x + 2 * max_rto_us + 2 * Dt + Da < net_now st' x ->
  exists pre post st1, evs = pre ++ post /\ net_run st pre = Ok st1 /\ net_run st1 post = Ok st' /\
                       Qz u0 d0 st1.
Proof.
  intros evs fa st st' u0 d0 HDt HDa HN Ho Hsy HRun Hfair Honce Hrun Hl Hwin Hw Hu Hrd Hlate.
  set (dk := net_now st y - net_now st x).
  set (T1 := net_now st x + 2 * max_rto_us).
  set (TR := T1 + dk + 2 * Dt + Da).
  pose proof max_rto_us_pos as Hmr.
  assert (Hdk' : net_now st' y - net_now st' x = dk) by (unfold dk; apply (net_run_skew2 _ _ _ y x Hrun)).
  pose proof (run_all_here _ _ _ HRun) as HR0.
  (* the last phase: the application reads *)
  assert (Hread : forall pre0 post1 fa1 st1 T, evs = pre0 ++ post1 -> net_run st pre0 = Ok st1 ->
            T <= TR -> JR d0 T fa1 st1 -> run_all zsafe st1 post1 ->
            fair_run Dt Da fa1 st1 post1 -> once_run Dt Da fa1 st1 post1 -> net_run st1 post1 = Ok st' ->
            exists pre post st1, evs = pre ++ post /\ net_run st pre = Ok st1 /\ net_run st1 post = Ok st' /\
                                 Qz u0 d0 st1).
  { intros pre0 post1 fa1 st1 T E0 R0 HT HJ HR1 Hf1 Ho1 Hr1.
    destruct (rel_leads Dt Da zsafe (JR d0 TR) (fun _ s => d0 < read_off (net_get s y)) y TR
                ltac:(intros fa0 st0 (_ & _ & _ & _ & _ & A & _); exact A)
                ltac:(intros fa0 st0 ev0 st0' R1 R1' J0 F0 _ S0; exact (JR_step _ _ _ _ _ _ R1 R1' J0 F0 S0))
                post1 fa1 st1 st' (JR_mono _ _ _ _ _ HT HJ) HR1 Hf1 Ho1 Hr1 ltac:(unfold TR, T1 in *; lia))
      as (pre2 & post2 & fa2 & st2 & -> & Hq1 & Hq2 & _ & _ & _ & HQ & _).
    exists (pre0 ++ pre2), post2, st2. split; [rewrite E0, app_assoc; reflexivity|].
    split; [eapply net_run_app; eassumption|]. split; [exact Hq2|]. right. left. exact HQ. }
  (* y's buffer is not empty at the start: the application reads *)
  destruct (Z_lt_le_dec d0 (rcv_off (net_get st y))) as [Hne | Hemp].
  { apply (Hread [] evs fa st (net_now st y + Da)); auto; [unfold TR, T1, dk; lia|].
    split; [exact HN|]. split; [exact Ho|]. split; [exact Hsy|]. split; [exact Hrd|]. split; [exact Hne|].
    split; [lia|].
    destruct Hsy as (_ & Hr). specialize (Hr y). pose proof (zrx_is_diff st) as Hd.
    destruct (fa_rd fa y) as [t|]; [|lia]. exists t. split; [reflexivity|]. lia. }
  assert (Hrc : rcv_off (net_get st y) = d0).
  { destruct (zs_rcv st HR0) as (_ & _ & ((Hl0 & _) & _) & _). pose proof (zrx_is_diff st) as Hd. unfold rx_len in Hd. lia. }
  (* phase Z1 *)
  assert (HZ1 : Z1 u0 d0 dk T1 fa st).
  { split; [split; [exact HN|]; split; [exact Ho|]; split; [exact Hsy|]; split; [reflexivity|]; split; [exact Hu|];
             split; [exact Hrd|]; split; [exact Hrc|]; split; [exact Hl|]; split; [exact Hwin | exact Hw]|].
    split; [unfold T1; lia|].
    pose proof (NI_live st x HN) as Ix. destruct (HN x) as (_ & _ & (_ & Hb) & _).
    pose proof (zs_est st HR0 x) as Hst.
    assert (L : st_live (s_state (net_sock st x)) = true) by (rewrite Hst; reflexivity).
    unfold net_sock, txl in *.
    destruct (s_timer (ep_sock (net_get st x))) as [k|e| |e d1|e] eqn:Ht.
    - destruct (li_K _ Ix L) as [Ha | (_ & Hw0)]; [rewrite Ht in Ha; discriminate|]. exact (Hw0 Hl Hwin).
    - unfold timer_bounded in Hb. unfold T1, net_now. lia.
    - unfold T1, net_now. lia.
    - unfold timer_bounded in Hb. unfold T1, net_now. lia.
    - destruct (li_close _ Ix ltac:(rewrite Ht; reflexivity)) as [X | X]; rewrite Hst in X; discriminate. }
  destruct (rel_leads Dt Da zsafe (Z1 u0 d0 dk T1)
              (fun fa s => Qz u0 d0 s \/ JR d0 (T1 + dk + Da) fa s \/ Z2 u0 d0 dk (T1 + dk + Dt) fa s) x T1
              ltac:(intros fa0 st0 (_ & A); exact (zdl_clock _ _ A))
              ltac:(intros fa0 st0 ev0 st0' R0 R0' J0 F0 O0 S0; exact (Z1_step _ _ _ _ _ _ _ _ HDt HDa R0 R0' J0 F0 O0 S0))
              evs fa st st' HZ1 HRun Hfair Honce Hrun ltac:(unfold T1 in *; lia))
    as (pre & post & fa1 & st1 & E & Hp1 & Hp2 & HR1 & Hf1 & Ho1 & [HQ | [HJ | HZ2]] & _).
  { exists pre, post, st1. auto. }
  { apply (Hread pre post fa1 st1 (T1 + dk + Da)); auto. unfold TR. lia. }
  (* phase Z2 *)
  set (T2 := T1 + dk + Dt) in *.
  destruct (rel_leads Dt Da zsafe (Z2 u0 d0 dk T2)
              (fun fa s => Qz u0 d0 s \/ JR d0 (T2 + Da) fa s \/ Z4 u0 d0 dk (T2 - dk + Dt) fa s) y T2
              ltac:(intros fa0 st0 (_ & i0 & p0 & t0 & _ & _ & A & B & _); lia)
              ltac:(intros fa0 st0 ev0 st0' R0 R0' J0 F0 O0 S0; exact (Z2_step _ _ _ _ _ _ _ _ HDt HDa R0 R0' J0 F0 O0 S0))
              post fa1 st1 st' HZ2 HR1 Hf1 Ho1 Hp2 ltac:(unfold T2, T1 in *; lia))
    as (pre2 & post2 & fa2 & st2 & E2 & Hq1 & Hq2 & HR2 & Hf2 & Ho2 & [HQ | [HJ | HZ4]] & _).
  { exists (pre ++ pre2), post2, st2. split; [rewrite E, E2, app_assoc; reflexivity|].
    split; [eapply net_run_app; eassumption|]. split; assumption. }
  { apply (Hread (pre ++ pre2) post2 fa2 st2 (T2 + Da)); auto.
    - rewrite E, E2, app_assoc. reflexivity.
    - eapply net_run_app; eassumption.
    - unfold TR, T2. lia. }
  (* phase Z4 *)
  set (T4 := T2 - dk + Dt) in *.
  destruct (rel_leads Dt Da zsafe (Z4 u0 d0 dk T4)
              (fun fa s => Qz u0 d0 s \/ JR d0 (T4 + dk + Da) fa s) x T4
              ltac:(intros fa0 st0 (_ & j0 & q0 & t0 & d1 & _ & _ & A & B & _); lia)
              ltac:(intros fa0 st0 ev0 st0' R0 R0' J0 F0 O0 S0; exact (Z4_step _ _ _ _ _ _ _ _ HDa R0 R0' J0 F0 O0 S0))
              post2 fa2 st2 st' HZ4 HR2 Hf2 Ho2 Hq2 ltac:(unfold T4, T2, T1 in *; lia))
    as (pre3 & post3 & fa3 & st3 & E3 & Hs1 & Hs2 & HR3 & Hf3 & Ho3 & [HQ | HJ] & _).
  { exists (pre ++ pre2 ++ pre3), post3, st3. split; [rewrite E, E2, E3, !app_assoc; reflexivity|].
    split; [eapply net_run_app; [exact Hp1|]; eapply net_run_app; eassumption|]. split; assumption. }
  apply (Hread (pre ++ pre2 ++ pre3) post3 fa3 st3 (T4 + dk + Da)); auto.
  - rewrite E, E2, E3, !app_assoc. reflexivity.
  - eapply net_run_app; [exact Hp1|]. eapply net_run_app; eassumption.
  - unfold TR, T4, T2. lia.
Qed.

End Zw.
