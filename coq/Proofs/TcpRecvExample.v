(* C04: non-vacuity.  A concrete reachable state of the socket model in which an out-of-order
   segment is parked in the assembler: listen, SYN, SYN|ACK dispatched, ACK, then three octets at
   stream offset 4.  All hypotheses of the C04 theorems are satisfiable (the state is reachable by
   admissible events) and the invariant says what it should about it. *)
From SV Require Import Lib.Base Gen.Consts.
From SV Require Import Model.Seq32 Model.Assembler Model.TcpBuf Model.TcpTypes Model.Tcp.
From SV Require Import Proofs.AssemblerProofs Proofs.TcpRecvBase Proofs.TcpRecvWindow
  Proofs.TcpRecvPayload Proofs.TcpRecvInv Proofs.TcpRecvProcess Proofs.TcpRecvStep
  Proofs.TcpRecvSync Proofs.TcpRecvDispatch Proofs.TcpRecvTrace Proofs.TcpRecvTheorems.

(* the peer of the harness: octet k of the stream is (7k+3) mod 253; FIN after 9 octets *)
Definition ex_S (e : nat) (k : Z) : Z := (7 * k + 3) mod 253.
Definition ex_F (e : nat) : option Z := Some 9.
Lemma ex_F_nonneg : forall e f, ex_F e = Some f -> 0 <= f.
Proof. intros e f H. inversion H. lia. Qed.

Definition ex_cx : ctx := mkCtx 0 1500 1 0 5000.
Definition ex_ip : ip_repr := mkIp 2 1 64 0.
Definition ex_seg (c : control) (seq : Z) (ack : option Z) (payload : list Z) : tcp_repr :=
  mkRepr 4000 80 c seq ack 1000 None None false no_sack None payload.

Definition ex_step (s : socket) (ev : event) : socket :=
  match tcp_step ex_cx s ev with Ok (s', _, _) => s' | _ => s end.

Definition ex_s0 : socket :=
  match tcp_new (repeat 0 16) (repeat 0 16) CcNone false with Ok s => s | _ => tcp_reset (mkSocket Closed timer_new rtte_default [] (rb_new []) false (rb_new []) None None None (mkListenEp None 0) None 0 0 0 None 0 0 0 None false 0 None None None 0 false false None ADIdle 0 true CcNone false 0) end.

Definition ex_ev1 := EvListen (mkListenEp None 80).
Definition ex_ev2 := EvSegment ex_ip (ex_seg CSyn 1000 None []).
Definition ex_ev3 := EvDispatch true.
Definition ex_ev4 := EvSegment ex_ip (ex_seg CNone 1001 (Some 5001) []).
Definition ex_ev5 := EvSegment ex_ip (ex_seg CNone 1005 (Some 5001) [31; 38; 45]).

Definition ex_s1 := Eval vm_compute in ex_step ex_s0 ex_ev1.
Definition ex_s2 := Eval vm_compute in ex_step ex_s1 ex_ev2.
Definition ex_s3 := Eval vm_compute in ex_step ex_s2 ex_ev3.
Definition ex_s4 := Eval vm_compute in ex_step ex_s3 ex_ev4.
Definition ex_s5 := Eval vm_compute in ex_step ex_s4 ex_ev5.

Lemma ex_reach :
  exists g, rx_reach ex_S ex_F ex_s5 g /\ g_irs g = Some 1000 /\ g_consumed g = 0 /\ g_epoch g = 1%nat.
Proof.
  assert (R0 : rx_reach ex_S ex_F ex_s0 g_init).
  { eapply reach_new with (rxs := repeat 0 16) (txs := repeat 0 16) (cc := CcNone) (ts := false).
    vm_compute. reflexivity. }
  assert (R1 : rx_reach ex_S ex_F ex_s1 (ghost_step ex_cx g_init ex_s0 ex_ev1 ex_s1 OUnit)).
  { eapply reach_step with (tags := []); [exact R0 | exact I | vm_compute; reflexivity]. }
  cbn [ghost_step ex_ev1] in R1.
  set (g1 := g_unsync g_init) in *.
  assert (R2 : rx_reach ex_S ex_F ex_s2 (ghost_step ex_cx g1 ex_s1 ex_ev2 ex_s2 (OReply None))).
  { eapply reach_step; [exact R1 | | vm_compute; reflexivity].
    unfold ev_ok, ex_ev2, ex_seg. cbn [r_seq_number]. split; [lia | exact I]. }
  assert (G2 : ghost_step ex_cx g1 ex_s1 ex_ev2 ex_s2 (OReply None)
               = mkGhost 1 (Some 1000) 0 [] (fun _ => False)) by reflexivity.
  rewrite G2 in R2. clear G2. set (g2 := mkGhost 1 (Some 1000) 0 [] (fun _ => False)) in *.
  assert (R3 : exists p t, rx_reach ex_S ex_F ex_s3 (ghost_step ex_cx g2 ex_s2 ex_ev3 ex_s3 (ODispatch (DSent p)))
                           /\ tcp_step ex_cx ex_s2 ex_ev3 = Ok (ex_s3, ODispatch (DSent p), t)).
  { eexists. eexists. split; [eapply reach_step; [exact R2 | exact I |]|]; vm_compute; reflexivity. }
  destruct R3 as (p3 & t3 & R3 & _).
  assert (G3 : ghost_step ex_cx g2 ex_s2 ex_ev3 ex_s3 (ODispatch (DSent p3)) = g2) by reflexivity.
  rewrite G3 in R3. clear G3.
  assert (R4 : rx_reach ex_S ex_F ex_s4 (ghost_step ex_cx g2 ex_s3 ex_ev4 ex_s4 (OReply None))).
  { eapply reach_step; [exact R3 | | vm_compute; reflexivity].
    unfold ev_ok, ex_ev4. split; [unfold ex_seg; cbn [r_seq_number]; lia|]. cbn [g_irs g2]. unfold seg_ok.
    assert (Hd : seg_d ex_s3 (ex_seg CNone 1001 (Some 5001) []) = 0) by (vm_compute; reflexivity).
    cbn [ex_seg r_payload r_seq_number r_control]. change (l_len (@nil Z)) with 0.
    split; [lia|]. split; [lia|].
    intros _. split; [intros j Hj _; lia|]. split; [intros Hn; lia | discriminate]. }
  set (g4 := ghost_step ex_cx g2 ex_s3 ex_ev4 ex_s4 (OReply None)) in *.
  assert (E4 : g_irs g4 = Some 1000 /\ g_consumed g4 = 0 /\ g_epoch g4 = 1%nat) by (vm_compute; repeat split).
  destruct E4 as (E4a & E4b & E4c).
  assert (R5 : exists rep t, rx_reach ex_S ex_F ex_s5 (ghost_step ex_cx g4 ex_s4 ex_ev5 ex_s5 (OReply rep))
                 /\ tcp_step ex_cx ex_s4 ex_ev5 = Ok (ex_s5, OReply rep, t)).
  { eexists. eexists. split; [eapply reach_step; [exact R4 | |]|]; try (vm_compute; reflexivity).
    unfold ev_ok, ex_ev5. split; [unfold ex_seg; cbn [r_seq_number]; lia|]. rewrite E4a, E4b, E4c. unfold seg_ok.
    cbn [ex_seg r_payload r_seq_number r_control]. change (l_len [31; 38; 45]) with 3.
    split; [lia|]. split; [lia|].
    intros _.
    assert (Hq : seg_q 0 ex_s4 (ex_seg CNone 1005 (Some 5001) [31; 38; 45]) = 4) by (vm_compute; reflexivity).
    first [rewrite Hq | (unfold ex_seg in Hq; rewrite Hq)].
    split; [|split; [intros _ _ f Hf; inversion Hf; lia | discriminate]].
    intros j Hj _. assert (Hc : j = 0 \/ j = 1 \/ j = 2) by lia.
    destruct Hc as [-> | [-> | ->]]; vm_compute; reflexivity. }
  destruct R5 as (rep5 & t5 & R5 & _).
  eexists. split; [exact R5|]. cbn [ghost_step ex_ev5]. rewrite E4a.
  assert (Hl : is_state ex_s5 Listen = false) by (vm_compute; reflexivity). rewrite Hl.
  cbn [g_irs g_consumed g_epoch]. repeat split; assumption.
Qed.

(* the parked segment: assembler = one range [4,7), ring still empty, the three octets sit in the
   unallocated area, the ACK that was sent still says 1001 *)
Lemma ex_state :
  s_assembler ex_s5 = [mkContig 4 3] /\ rb_len (s_rx_buffer ex_s5) = 0 /\
  s_remote_last_ack ex_s5 = Some 1001 /\ s_state ex_s5 = Established /\
  map (rb_cell (s_rx_buffer ex_s5)) [4; 5; 6] = [ex_S 1 4; ex_S 1 5; ex_S 1 6].
Proof. vm_compute. repeat split. Qed.

(* the invariant instantiated on it *)
Lemma ex_invariant : exists g, ginv ex_S ex_F g ex_s5 /\ g_irs g = Some 1000.
Proof.
  destruct ex_reach as (g & Hr & Hi & _). exists g. split; [|exact Hi].
  exact (rx_invariant_preserved ex_S ex_F ex_F_nonneg _ _ Hr).
Qed.
