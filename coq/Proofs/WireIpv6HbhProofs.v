(* Lemmas about Model/WireIpv6Hbh.v (properties C06, C07): the Hop-by-Hop options header.
   [v6hbh_bytes r] = the options' octets back to back; emit produces exactly them
   ([v6hbh_emit_spec], by induction over the options with Proofs/WireIpv6OptProofs.v), the
   options iterator reads them back ([v6opt_iter_bytes]) and the collecting loop keeps all of them
   because there are at most IPV6_HBH_MAX_OPTIONS ([v6hbh_collect_oks]).  In the other direction
   [v6hbh_collect_inv] bounds what parse returns. *)
From SV Require Import Lib.Base Gen.Consts Gen.WireFields Model.WireBase Model.WireIpv6Opt Model.WireIpv6Hbh
  Proofs.WireBaseProofs Proofs.Wire2Kit Proofs.WireIpv6OptProofs.

Definition v6hbh_bytes (r : v6hbh_repr) : list Z := v6opt_bytes_list (v6hbh_opts r).

Lemma v6opt_buffer_len_pos o : v6opt_wf o = true -> 1 <= v6opt_buffer_len o.
Proof.
  destruct o; cbn [v6opt_wf v6opt_buffer_len]; unfold v6opt_f_DATA; cbn [snd]; intros; bsplit; zfold; lia.
Qed.

Lemma v6hbh_opts_len_nonneg opts : forallb v6opt_wf opts = true -> 0 <= v6hbh_opts_len opts.
Proof.
  induction opts as [|o os IH]; cbn [forallb v6hbh_opts_len fold_right]; intros H; [lia|].
  apply andb_prop in H. destruct H as [Wo Wos]. pose proof (v6opt_buffer_len_pos o Wo). specialize (IH Wos).
  fold (v6hbh_opts_len os). lia.
Qed.

Lemma v6hbh_bytes_list_len opts : forallb v6opt_wf opts = true ->
  blen (v6opt_bytes_list opts) = v6hbh_opts_len opts.
Proof.
  induction opts as [|o os IH]; intros H; [reflexivity|].
  cbn [forallb] in H. apply andb_prop in H. destruct H as [Wo Wos].
  unfold v6opt_bytes_list in *. cbn [map concat v6hbh_opts_len fold_right]. fold (v6hbh_opts_len os).
  rewrite blen_app, v6opt_bytes_len, IH by assumption. reflexivity.
Qed.

Lemma wb_upto_ok l n : 0 <= n <= blen l -> wb_upto l n = Ok (firstn (Z.to_nat n) l).
Proof. intros. unfold wb_upto. zbool. reflexivity. Qed.

(* ---------- C06 ---------- *)

Lemma v6hbh_emit_opts_spec opts : forallb v6opt_wf opts = true ->
  forall b, blen b = v6hbh_opts_len opts -> v6hbh_emit_opts opts b = Ok (v6opt_bytes_list opts).
Proof.
  induction opts as [|o os IH]; intros H b Hb.
  - cbn [v6hbh_opts_len fold_right] in Hb. apply blen_0_nil in Hb. subst. reflexivity.
  - cbn [forallb] in H. apply andb_prop in H. destruct H as [Wo Wos].
    cbn [v6hbh_opts_len fold_right] in Hb. fold (v6hbh_opts_len os) in Hb.
    pose proof (v6opt_buffer_len_pos o Wo). pose proof (v6hbh_opts_len_nonneg os Wos).
    cbn [v6hbh_emit_opts]. rewrite wb_upto_ok by lia. cbn [obind].
    rewrite v6opt_emit_spec by (try assumption; rewrite blen_firstn; lia). cbn [obind].
    rewrite wb_from_ok by lia. cbn [obind].
    rewrite IH by (try assumption; rewrite blen_skipn; lia). reflexivity.
Qed.

Lemma v6hbh_wf_inv r : v6hbh_wf r = true ->
  forallb v6opt_wf (v6hbh_opts r) = true /\
  Z.of_nat (length (v6hbh_opts r)) <= cfg_IPV6_HBH_MAX_OPTIONS /\ v6hbh_opts r <> [].
Proof.
  unfold v6hbh_wf. intros H. bsplit. repeat split; try assumption. intros E. rewrite E in *. cbn in *. lia.
Qed.

Lemma v6hbh_emit_spec r b : v6hbh_wf r = true -> blen b = v6hbh_buffer_len r ->
  v6hbh_emit r b = Ok (v6hbh_bytes r).
Proof.
  intros Hwf Hb. apply v6hbh_wf_inv in Hwf. destruct Hwf as (W & _ & _).
  apply v6hbh_emit_opts_spec; assumption.
Qed.

Lemma v6hbh_collect_oks os : forall acc,
  Z.of_nat (length acc) + Z.of_nat (length os) <= cfg_IPV6_HBH_MAX_OPTIONS ->
  v6hbh_collect (map Ok os) acc = Ok (acc ++ os).
Proof.
  induction os as [|o os IH]; intros acc H; cbn [map v6hbh_collect].
  - rewrite app_nil_r. reflexivity.
  - cbn [length] in H. unfold v6hbh_push. zbool.
    rewrite IH by (rewrite app_length; cbn [length]; lia). rewrite <- app_assoc. reflexivity.
Qed.

Lemma v6hbh_parse_bytes r : v6hbh_wf r = true -> v6hbh_parse (v6hbh_bytes r) = Ok r.
Proof.
  intros Hwf. apply v6hbh_wf_inv in Hwf. destruct Hwf as (W & L & N).
  destruct r as [opts]; cbn [v6hbh_opts] in *. unfold v6hbh_bytes; cbn [v6hbh_opts].
  unfold v6hbh_parse, v6hbh_check_len, v6hbh_options.
  assert (1 <= blen (v6opt_bytes_list opts)).
  { rewrite v6hbh_bytes_list_len by assumption. destruct opts as [|o os]; [congruence|].
    cbn [forallb] in W. apply andb_prop in W. destruct W as [Wo Wos].
    cbn [v6hbh_opts_len fold_right]. fold (v6hbh_opts_len os).
    pose proof (v6opt_buffer_len_pos o Wo). pose proof (v6hbh_opts_len_nonneg os Wos). lia. }
  zbool. cbn [obind]. rewrite v6opt_iter_bytes by assumption.
  rewrite v6hbh_collect_oks by (cbn [length]; lia). reflexivity.
Qed.

Lemma v6hbh_buffer_len_bytes r : v6hbh_wf r = true -> blen (v6hbh_bytes r) = v6hbh_buffer_len r.
Proof. intros Hwf. apply v6hbh_wf_inv in Hwf. apply v6hbh_bytes_list_len, Hwf. Qed.

Lemma v6hbh_emit_no_panic r b : v6hbh_wf r = true -> blen b = v6hbh_buffer_len r -> v6hbh_emit r b <> Panic.
Proof. intros; rewrite v6hbh_emit_spec by assumption; discriminate. Qed.

Lemma v6hbh_emit_ignores_old_bytes r b1 b2 : v6hbh_wf r = true ->
  blen b1 = v6hbh_buffer_len r -> blen b2 = v6hbh_buffer_len r -> v6hbh_emit r b1 = v6hbh_emit r b2.
Proof. intros; rewrite !v6hbh_emit_spec by assumption; reflexivity. Qed.

Lemma v6hbh_roundtrip r b : v6hbh_wf r = true -> blen b = v6hbh_buffer_len r ->
  exists bs, v6hbh_emit r b = Ok bs /\ blen bs = v6hbh_buffer_len r /\ v6hbh_parse bs = Ok r.
Proof.
  intros Hwf Hb. exists (v6hbh_bytes r). split; [apply v6hbh_emit_spec; assumption|].
  split; [apply v6hbh_buffer_len_bytes; assumption | apply v6hbh_parse_bytes; assumption].
Qed.

(* what the collecting loop returns: the accumulator extended by options the iterator produced,
   never more than the capacity *)
Lemma v6hbh_collect_inv items : forall acc r, v6hbh_collect items acc = Ok r ->
  Z.of_nat (length acc) <= cfg_IPV6_HBH_MAX_OPTIONS ->
  exists extra, r = acc ++ extra /\ (forall o, In o extra -> In (Ok o) items) /\
                Z.of_nat (length r) <= cfg_IPV6_HBH_MAX_OPTIONS.
Proof.
  induction items as [|x items IH]; intros acc r H L; cbn [v6hbh_collect] in H.
  - injection H as <-. exists []. rewrite app_nil_r. split; [reflexivity|]. split; [intros o []|assumption].
  - destruct x as [o| |]; try discriminate. unfold v6hbh_push in H.
    destruct (Z.of_nat (length acc) <? cfg_IPV6_HBH_MAX_OPTIONS) eqn:E.
    + bsplit. apply IH in H; [|rewrite app_length; cbn [length]; lia].
      destruct H as (extra & -> & I & L'). exists (o :: extra). rewrite <- app_assoc in *.
      split; [reflexivity|]. split; [|assumption].
      intros o' [<-|Ho]; [left; reflexivity | right; apply I, Ho].
    + injection H as <-. exists []. rewrite app_nil_r. split; [reflexivity|]. split; [intros o' []|assumption].
Qed.

Lemma v6hbh_collect_no_panic items : ~ In Panic items -> forall acc, v6hbh_collect items acc <> Panic.
Proof.
  induction items as [|x items IH]; intros N acc; cbn [v6hbh_collect]; [discriminate|].
  destruct x as [o| |]; [|discriminate|exfalso; apply N; left; reflexivity].
  destruct (v6hbh_push acc o); [|discriminate|discriminate].
  apply IH. intros I. apply N. right. exact I.
Qed.

Lemma v6hbh_parse_wf bs r : bytes_ok bs = true -> v6hbh_parse bs = Ok r -> v6hbh_wf r = true.
Proof.
  intros Hb H. unfold v6hbh_parse, v6hbh_check_len, v6hbh_options in H.
  destruct (blen bs =? 0) eqn:E; [discriminate|]. cbn [obind] in H. bsplit.
  destruct (v6hbh_collect (v6opt_iter bs) []) as [opts| |] eqn:C; try discriminate.
  cbn [obind] in H. injection H as <-.
  assert (N : opts <> []).
  { intros ->. revert C. unfold v6opt_iter. destruct bs as [|z bs]; [exfalso; apply E; reflexivity|].
    cbn [length v6opt_iter_fuel]. pose proof (blen_nonneg bs). rewrite blen_cons. zbool.
    destruct (v6opt_iter_next (z :: bs) 0) as [o| |]; cbn [v6hbh_collect]; try discriminate.
    unfold v6hbh_push. cbn [length]. zfold. intros C.
    apply v6hbh_collect_inv in C; [|cbn [length app]; zfold; lia]. destruct C as (extra & X & _). discriminate. }
  apply v6hbh_collect_inv in C; [|cbn [length]; zfold; lia]. destruct C as (extra & -> & I & L).
  cbn [app] in *. unfold v6hbh_wf; cbn [v6hbh_opts].
  assert (W : forallb v6opt_wf extra = true).
  { apply forallb_forall. intros o Ho. apply (v6opt_iter_fuel_wf bs Hb (length bs) 0 o ltac:(lia)). apply I, Ho. }
  rewrite W. destruct extra; [congruence|]. cbn [length] in *. zbool. reflexivity.
Qed.

Lemma v6hbh_reparse bs r : bytes_ok bs = true -> v6hbh_parse bs = Ok r ->
  v6hbh_wf r = true /\
  forall b, blen b = v6hbh_buffer_len r ->
    exists bs', v6hbh_emit r b = Ok bs' /\ v6hbh_parse bs' = Ok r.
Proof.
  intros Hb H. pose proof (v6hbh_parse_wf bs r Hb H) as Hwf. split; [assumption|].
  intros b Hlen. destruct (v6hbh_roundtrip r b Hwf Hlen) as (bs' & He & _ & Hp). eauto.
Qed.

(* the helpers of the repr *)
Lemma v6hbh_mldv2_router_alert_ok :
  v6hbh_mldv2_router_alert = Ok (mkV6Hbh [V6OptRouterAlert 0]) /\ v6hbh_wf (mkV6Hbh [V6OptRouterAlert 0]) = true.
Proof. split; reflexivity. Qed.

Lemma v6hbh_push_padn_option_ok r n : v6hbh_wf r = true -> is_u8 n = true ->
  Z.of_nat (length (v6hbh_opts r)) < cfg_IPV6_HBH_MAX_OPTIONS ->
  exists r', v6hbh_push_padn_option r n = Ok r' /\ v6hbh_wf r' = true /\
             v6hbh_buffer_len r' = v6hbh_buffer_len r + (n + 2).
Proof.
  intros Hwf Hn L. apply v6hbh_wf_inv in Hwf. destruct Hwf as (W & _ & N).
  destruct r as [opts]; cbn [v6hbh_opts] in *.
  unfold v6hbh_push_padn_option, v6hbh_push; cbn [v6hbh_opts]. zbool.
  eexists; split; [reflexivity|]. split.
  - unfold v6hbh_wf; cbn [v6hbh_opts]. rewrite forallb_app, W. cbn [forallb v6opt_wf]. rewrite Hn.
    rewrite app_length. cbn [length andb]. zbool. reflexivity.
  - unfold v6hbh_buffer_len, v6hbh_opts_len; cbn [v6hbh_opts]. rewrite fold_right_app.
    cbn [fold_right v6opt_buffer_len]. unfold v6opt_f_DATA; cbn [snd].
    clear. induction opts as [|o os IH]; cbn [fold_right]; lia.
Qed.

(* ---------- C07 ---------- *)

Lemma v6hbh_accessors_safe bs : v6hbh_check_len bs = Ok tt -> v6hbh_options bs <> Panic.
Proof. intros _. discriminate. Qed.

Lemma v6hbh_parse_total bs : bytes_ok bs = true -> v6hbh_parse bs <> Panic.
Proof.
  intros Hb. unfold v6hbh_parse, v6hbh_check_len, v6hbh_options.
  destruct (blen bs =? 0); [discriminate|]. cbn [obind].
  pose proof (v6hbh_collect_no_panic (v6opt_iter bs) (v6opt_iter_no_panic bs Hb) []) as N.
  destruct (v6hbh_collect (v6opt_iter bs) []); [discriminate|discriminate|congruence].
Qed.
