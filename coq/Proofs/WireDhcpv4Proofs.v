(* Lemmas about Model/WireDhcpv4.v (properties C06, C07): DHCPv4 packets, the options walk,
   DhcpOptionWriter, Repr::{parse, buffer_len, emit}. *)
From SV Require Import Lib.Base Gen.Consts Gen.WireFields Model.WireBase Model.WireDhcpv4
  Proofs.WireBaseProofs Proofs.Wire2Kit.

(* the chunk pattern of [dhcpw_chunks4] is the source's IP_ADDR_BYTE_LEN *)
Example dhcpw_chunk_len_is_4 : wdhcp_IP_ADDR_BYTE_LEN = 4.
Proof. reflexivity. Qed.

(* ====================================================================================== *)
(* C07: the options walk                                                                  *)
(* ====================================================================================== *)

(* what the iterator can yield: a kind octet other than PAD / END, at most 255 data octets *)
Definition dhcpw_opt_good (o : dhcpw_opt) : Prop :=
  dhcpw_opt_ok o = true /\ dhcpw_o_kind o <> wdhcp_OPT_PAD /\ dhcpw_o_kind o <> wdhcp_OPT_END.

(* one `next()`: never an error, never a panic; a yielded option is well formed and the
   iterator state strictly shrinks (by at least the two header octets) *)
Lemma dhcpw_opt_next_spec : forall fuel buf, bytes_ok buf = true -> (length buf < fuel)%nat ->
  dhcpw_opt_next fuel buf = Ok None \/
  exists o rest, dhcpw_opt_next fuel buf = Ok (Some (o, rest)) /\
    (length rest + 2 <= length buf)%nat /\ bytes_ok rest = true /\ dhcpw_opt_good o.
Proof.
  induction fuel as [|fuel IH]; intros buf Hb Hf; [lia|].
  destruct buf as [|kind t]; [left; reflexivity|].
  cbn [dhcpw_opt_next].
  assert (Hk : 0 <= kind < 256) by (apply (bytes_ok_nth (kind :: t) 0 Hb); cbn [length]; lia).
  assert (Ht : bytes_ok t = true) by (rewrite bytes_ok_cons in Hb; bsplit; assumption).
  pose proof (blen_nonneg t) as Hn.
  destruct (kind =? wdhcp_OPT_END) eqn:E1; [left; reflexivity|].
  destruct (kind =? wdhcp_OPT_PAD) eqn:E2.
  - rewrite wb_from_ok by (rewrite blen_cons; lia). cbn [obind].
    change (Z.to_nat 1) with 1%nat. cbn [skipn].
    cbn [length] in Hf.
    destruct (IH t Ht ltac:(lia)) as [H|(o & rest & H & L & B & G)].
    + left; exact H.
    + right. exists o, rest. split; [exact H|]. split; [cbn [length]; lia|]. auto.
  - destruct (blen (kind :: t) <? 2) eqn:E3; [left; reflexivity|]. bsplit.
    rewrite wb_get_u8_ok by lia. cbn [obind].
    set (len := nth (Z.to_nat 1) (kind :: t) 0).
    assert (Hl : 0 <= len < 256) by (apply bytes_ok_byte; [assumption|lia]).
    destruct (blen (kind :: t) <? 2 + len) eqn:E4; [left; reflexivity|]. bsplit.
    rewrite wb_sub_ok by lia. rewrite wb_from_ok by lia. cbn [obind].
    right. eexists _, _. split; [reflexivity|]. split; [|split].
    + rewrite skipn_length. unfold blen in *. lia.
    + apply bytes_ok_skipn; assumption.
    + unfold dhcpw_opt_good, dhcpw_opt_ok, is_u8; cbn [dhcpw_o_kind dhcpw_o_data].
      split; [|split; assumption].
      rewrite bytes_ok_sub by assumption.
      rewrite blen_firstn by (rewrite blen_skipn by lia; lia).
      zbool. reflexivity.
Qed.

(* fuel suffices: any fuel above the buffer length gives the same result *)
Lemma dhcpw_opt_next_fuel : forall f1 f2 buf, (length buf < f1)%nat -> (length buf < f2)%nat ->
  dhcpw_opt_next f1 buf = dhcpw_opt_next f2 buf.
Proof.
  induction f1 as [|f1 IH]; intros f2 buf H1 H2; [lia|]. destruct f2 as [|f2]; [lia|].
  destruct buf as [|kind t]; [reflexivity|]. cbn [dhcpw_opt_next].
  destruct (kind =? wdhcp_OPT_END); [reflexivity|].
  destruct (kind =? wdhcp_OPT_PAD); [|reflexivity].
  pose proof (blen_nonneg t).
  rewrite wb_from_ok by (rewrite blen_cons; lia). cbn [obind].
  change (Z.to_nat 1) with 1%nat. cbn [skipn]. cbn [length] in *. apply IH; lia.
Qed.

Lemma dhcpw_options_go_spec : forall fuel buf, bytes_ok buf = true -> (length buf < fuel)%nat ->
  exists l, dhcpw_options_go fuel buf = Ok l /\ Forall dhcpw_opt_good l.
Proof.
  induction fuel as [|fuel IH]; intros buf Hb Hf; [lia|]. cbn [dhcpw_options_go].
  destruct (dhcpw_opt_next_spec (S (length buf)) buf Hb ltac:(lia)) as [H|(o & rest & H & L & B & G)];
    rewrite H; cbn [obind].
  - exists []. split; [reflexivity | constructor].
  - destruct (IH rest B ltac:(lia)) as (l & Hl & Fl). rewrite Hl. cbn [obind].
    exists (o :: l). split; [reflexivity|]. constructor; assumption.
Qed.

Lemma dhcpw_options_go_fuel : forall f1 f2 buf, bytes_ok buf = true ->
  (length buf < f1)%nat -> (length buf < f2)%nat ->
  dhcpw_options_go f1 buf = dhcpw_options_go f2 buf.
Proof.
  induction f1 as [|f1 IH]; intros f2 buf Hb H1 H2; [lia|]. destruct f2 as [|f2]; [lia|].
  cbn [dhcpw_options_go].
  destruct (dhcpw_opt_next_spec (S (length buf)) buf Hb ltac:(lia)) as [H|(o & rest & H & L & B & G)];
    rewrite H; cbn [obind]; [reflexivity|].
  rewrite (IH f2 rest B) by lia. reflexivity.
Qed.

(* the walk over ANY octet string terminates without error or panic *)
Lemma dhcpw_options_go_total buf : bytes_ok buf = true ->
  exists l, dhcpw_options_go (S (length buf)) buf = Ok l /\ Forall dhcpw_opt_good l.
Proof. intros Hb. apply dhcpw_options_go_spec; [assumption | lia]. Qed.

(* ====================================================================================== *)
(* C07: check_len and the accessors                                                       *)
(* ====================================================================================== *)

Lemma dhcpw_check_len_inv bs : dhcpw_check_len bs = Ok tt -> 240 <= blen bs.
Proof. unfold dhcpw_check_len. zfold. case_if; [discriminate|]. bsplit. intros _. lia. Qed.

Lemma dhcpw_check_len_ok bs : 240 <= blen bs -> dhcpw_check_len bs = Ok tt.
Proof. intros. unfold dhcpw_check_len. zfold. zbool. reflexivity. Qed.

Lemma dhcpw_check_len_nopanic bs : dhcpw_check_len bs <> Panic.
Proof. unfold dhcpw_check_len. case_if; discriminate. Qed.

(* a fixed-size array field *)
Lemma dhcpw_arr_field_ok bs lo hi n : 0 <= lo -> hi = lo + n -> 0 <= n -> hi <= blen bs ->
  exists s, (do s <- wb_field bs (lo, hi); wb_arr n s) = Ok s /\ is_arr n s = bytes_ok s /\
            blen s = n /\ (bytes_ok bs = true -> bytes_ok s = true).
Proof.
  intros H0 -> Hn Hh. unfold wb_field; cbn [fst snd].
  destruct (wb_sub_ok_len bs lo (lo + n) ltac:(lia) Hh) as (s & Hs & Ls & Bs).
  rewrite Hs. cbn [obind]. exists s. unfold wb_arr, is_arr.
  replace (lo + n - lo) with n in Ls by lia. rewrite Ls.
  rewrite Z.eqb_refl. cbn [andb]. split; [reflexivity|]. split; [reflexivity|].
  split; [reflexivity | assumption].
Qed.

Lemma dhcpw_position0_range l n : dhcpw_position0 l = Some n -> 0 <= n < blen l.
Proof.
  revert n; induction l as [|x t IH]; intros n H; cbn [dhcpw_position0] in H; [discriminate|].
  rewrite blen_cons. pose proof (blen_nonneg t).
  destruct (x =? 0); [injection H as <-; lia|].
  destruct (dhcpw_position0 t) as [m|]; [|discriminate]. injection H as <-.
  specialize (IH m eq_refl). lia.
Qed.

Lemma dhcpw_get_str_nopanic bs f : 0 <= fst f <= snd f -> snd f <= blen bs -> dhcpw_get_str bs f <> Panic.
Proof.
  intros H1 H2. unfold dhcpw_get_str, wb_field.
  destruct (wb_sub_ok_len bs (fst f) (snd f) H1 H2) as (s & Hs & Ls & _). rewrite Hs. cbn [obind].
  destruct (dhcpw_position0 s) as [n|] eqn:E; [|discriminate].
  apply dhcpw_position0_range in E.
  destruct (n =? 0); [discriminate|].
  unfold wb_upto. zbool. cbn [obind]. case_if; discriminate.
Qed.

(* every fixed-header accessor returns a value of its type's range *)
Lemma dhcpw_fixed_ok bs : bytes_ok bs = true -> 240 <= blen bs ->
  (exists v, dhcpw_opcode bs = Ok v /\ 0 <= v < 256) /\
  (exists v, dhcpw_hardware_type bs = Ok v /\ 0 <= v < 256) /\
  (exists v, dhcpw_hardware_len bs = Ok v /\ 0 <= v < 256) /\
  (exists v, dhcpw_hops bs = Ok v /\ 0 <= v < 256) /\
  (exists v, dhcpw_transaction_id bs = Ok v /\ 0 <= v < 4294967296) /\
  (exists v, dhcpw_secs bs = Ok v /\ 0 <= v < 65536) /\
  (exists v, dhcpw_magic_number bs = Ok v /\ 0 <= v < 4294967296) /\
  (exists v, dhcpw_flags bs = Ok v) /\
  (exists v, dhcpw_client_hardware_address bs = Ok v /\ is_arr 6 v = true) /\
  (exists v, dhcpw_client_ip bs = Ok v /\ is_arr 4 v = true) /\
  (exists v, dhcpw_your_ip bs = Ok v /\ is_arr 4 v = true) /\
  (exists v, dhcpw_server_ip bs = Ok v /\ is_arr 4 v = true) /\
  (exists v, dhcpw_relay_agent_ip bs = Ok v /\ is_arr 4 v = true).
Proof.
  intros Hb Hl.
  assert (A : forall lo hi n, 0 <= lo -> hi = lo + n -> 0 <= n -> hi <= 240 ->
            exists v, (do s <- wb_field bs (lo, hi); wb_arr n s) = Ok v /\ is_arr n v = true).
  { intros lo hi n H0 H1 H2 H3.
    destruct (dhcpw_arr_field_ok bs lo hi n H0 H1 H2 ltac:(lia)) as (s & Hs & Ia & _ & Bs).
    exists s. split; [assumption|]. rewrite Ia. auto. }
  unfold dhcpw_opcode, dhcpw_hardware_type, dhcpw_hardware_len, dhcpw_hops, dhcpw_transaction_id,
    dhcpw_secs, dhcpw_magic_number, dhcpw_flags, dhcpw_client_hardware_address, dhcpw_client_ip,
    dhcpw_your_ip, dhcpw_server_ip, dhcpw_relay_agent_ip.
  zfold.
  repeat split.
  - apply wb_get_u8_byte; [lia | assumption].
  - apply wb_get_u8_byte; [lia | assumption].
  - apply wb_get_u8_byte; [lia | assumption].
  - apply wb_get_u8_byte; [lia | assumption].
  - apply wb_get_u32_ok'; zfold; try lia; assumption.
  - apply wb_get_u16_ok'; zfold; try lia; assumption.
  - apply wb_get_u32_ok'; zfold; try lia; assumption.
  - destruct (wb_get_u16_ok' bs wdhcp_f_FLAGS) as (v & Hv & _); zfold; try lia; try assumption.
    rewrite Hv. cbn [obind]. eauto.
  - apply A; lia.
  - apply A; lia.
  - apply A; lia.
  - apply A; lia.
  - apply A; lia.
Qed.

Lemma dhcpw_options_ok bs : bytes_ok bs = true -> 240 <= blen bs ->
  exists l, dhcpw_options bs = Ok l /\ Forall dhcpw_opt_good l.
Proof.
  intros Hb Hl. unfold dhcpw_options. zfold. rewrite wb_from_ok by lia. cbn [obind].
  apply dhcpw_options_go_total. apply bytes_ok_skipn, Hb.
Qed.

Theorem dhcpw_options_walk_total bs : bytes_ok bs = true -> dhcpw_check_len bs = Ok tt ->
  exists l, dhcpw_options bs = Ok l /\ Forall dhcpw_opt_good l.
Proof. intros Hb H. apply dhcpw_options_ok; [assumption | apply dhcpw_check_len_inv, H]. Qed.

Theorem dhcpw_accessors_safe bs : bytes_ok bs = true -> dhcpw_check_len bs = Ok tt ->
  dhcpw_opcode bs <> Panic /\ dhcpw_hardware_type bs <> Panic /\ dhcpw_hardware_len bs <> Panic /\
  dhcpw_transaction_id bs <> Panic /\ dhcpw_client_hardware_address bs <> Panic /\
  dhcpw_hops bs <> Panic /\ dhcpw_secs bs <> Panic /\ dhcpw_magic_number bs <> Panic /\
  dhcpw_client_ip bs <> Panic /\ dhcpw_your_ip bs <> Panic /\ dhcpw_server_ip bs <> Panic /\
  dhcpw_relay_agent_ip bs <> Panic /\ dhcpw_flags bs <> Panic /\ dhcpw_options bs <> Panic /\
  dhcpw_get_sname bs <> Panic /\ dhcpw_get_boot_file bs <> Panic.
Proof.
  intros Hb H. apply dhcpw_check_len_inv in H.
  destruct (dhcpw_fixed_ok bs Hb H) as
    ((? & -> & _) & (? & -> & _) & (? & -> & _) & (? & -> & _) & (? & -> & _) & (? & -> & _) &
     (? & -> & _) & (? & ->) & (? & -> & _) & (? & -> & _) & (? & -> & _) & (? & -> & _) & (? & -> & _)).
  destruct (dhcpw_options_ok bs Hb H) as (l & -> & _).
  repeat split; try discriminate.
  - apply dhcpw_get_str_nopanic; zfold; cbn [fst snd]; lia.
  - apply dhcpw_get_str_nopanic; zfold; cbn [fst snd]; lia.
Qed.

(* ====================================================================================== *)
(* C07: Repr::parse never panics                                                          *)
(* ====================================================================================== *)

Lemma dhcpw_be4_ok d : blen d = 4 -> bytes_ok d = true ->
  exists v, dhcpw_be4 d = Ok v /\ 0 <= v < 4294967296.
Proof.
  intros H Hb. apply (blen_length _ 4) in H. cells H.
  unfold dhcpw_be4. rewrite !wb_get_u8_ok by (autorewrite with blen; lia). cbn [obind]. zfold. cbn [nth].
  eexists; split; [reflexivity|].
  cbn [bytes_ok forallb] in Hb. bsplit. apply be_dec4_range; lia.
Qed.

Lemma dhcpw_forallb_firstn {A} (p : A -> bool) n l : forallb p l = true -> forallb p (firstn n l) = true.
Proof. rewrite !forallb_forall. intros H x Hx. apply H. eapply In_firstn'; eauto. Qed.

Lemma dhcpw_chunks4_ok : forall n d, (length d <= n)%nat -> bytes_ok d = true ->
  forallb (is_arr 4) (dhcpw_chunks4 d) = true.
Proof.
  induction n as [|n IH]; intros d Hn Hb.
  - destruct d; [reflexivity | cbn [length] in Hn; lia].
  - destruct d as [|a [|b [|c [|e t]]]]; try reflexivity.
    cbn [dhcpw_chunks4 forallb]. cbn [bytes_ok forallb] in Hb.
    rewrite (IH t); [| cbn [length] in Hn; lia |].
    + unfold is_arr. replace (blen [a; b; c; e]) with 4 by reflexivity. cbn [bytes_ok forallb].
      destruct (is_u8 a); [|discriminate]. destruct (is_u8 b); [|discriminate].
      destruct (is_u8 c); [|discriminate]. destruct (is_u8 e); [|discriminate]. reflexivity.
    + destruct (is_u8 a); [|discriminate]. destruct (is_u8 b); [|discriminate].
      destruct (is_u8 c); [|discriminate]. destruct (is_u8 e); [|discriminate]. exact Hb.
Qed.

Lemma dhcpw_dns_parse_ok d : bytes_ok d = true -> dhcpw_dns_ok (dhcpw_dns_parse d) = true.
Proof.
  intros Hb. unfold dhcpw_dns_ok, dhcpw_dns_parse. zfold.
  rewrite dhcpw_forallb_firstn by (apply (dhcpw_chunks4_ok (length d)); [lia | assumption]).
  rewrite firstn_length. zbool. reflexivity.
Qed.

(* the invariant of the option loop: every `let mut` variable holds a value of its type *)
Definition dhcpw_acc_wf (a : dhcpw_acc) : Prop :=
  dhcpw_opt_all is_u8 (dhcpw_a_message_type a) = true /\
  dhcpw_opt_all (is_arr 4) (dhcpw_a_requested_ip a) = true /\
  dhcpw_opt_all (is_arr 6) (dhcpw_a_client_identifier a) = true /\
  dhcpw_opt_all (is_arr 4) (dhcpw_a_server_identifier a) = true /\
  dhcpw_opt_all (is_arr 4) (dhcpw_a_router a) = true /\
  dhcpw_opt_all (is_arr 4) (dhcpw_a_subnet_mask a) = true /\
  dhcpw_opt_all dhcpw_prl_ok (dhcpw_a_parameter_request_list a) = true /\
  dhcpw_opt_all dhcpw_dns_ok (dhcpw_a_dns_servers a) = true /\
  dhcpw_opt_all is_u16 (dhcpw_a_max_size a) = true /\
  dhcpw_opt_all is_u32 (dhcpw_a_lease_duration a) = true /\
  dhcpw_opt_all is_u32 (dhcpw_a_renew_duration a) = true /\
  dhcpw_opt_all is_u32 (dhcpw_a_rebind_duration a) = true.

Ltac dhcpw_acc_fin :=
  split; [discriminate |
    let a' := fresh "a'" in let E := fresh "E" in
    intros a' E; first [ discriminate E |
      injection E as <-; unfold dhcpw_acc_wf;
      cbn [dhcpw_a_message_type dhcpw_a_requested_ip dhcpw_a_client_identifier dhcpw_a_server_identifier
           dhcpw_a_router dhcpw_a_subnet_mask dhcpw_a_parameter_request_list dhcpw_a_dns_servers
           dhcpw_a_max_size dhcpw_a_lease_duration dhcpw_a_renew_duration dhcpw_a_rebind_duration];
      repeat split; try assumption; cbn [dhcpw_opt_all] ] ].

(* one iteration of the loop body: no panic (the length in each match arm covers the indexing
   done in it), and the invariant is kept *)
Lemma dhcpw_parse_opt_spec bs a o : 1 <= blen bs -> dhcpw_opt_ok o = true -> dhcpw_acc_wf a ->
  dhcpw_parse_opt bs a o <> Panic /\ forall a', dhcpw_parse_opt bs a o = Ok a' -> dhcpw_acc_wf a'.
Proof.
  intros Hl Ho Ha. destruct a as [mt rip cid sid rt sm prl dns ms ld rn rb]. destruct o as [kind data].
  unfold dhcpw_acc_wf in Ha;
    cbn [dhcpw_a_message_type dhcpw_a_requested_ip dhcpw_a_client_identifier dhcpw_a_server_identifier
         dhcpw_a_router dhcpw_a_subnet_mask dhcpw_a_parameter_request_list dhcpw_a_dns_servers
         dhcpw_a_max_size dhcpw_a_lease_duration dhcpw_a_renew_duration dhcpw_a_rebind_duration] in Ha.
  destruct Ha as (A1 & A2 & A3 & A4 & A5 & A6 & A7 & A8 & A9 & A10 & A11 & A12).
  unfold dhcpw_opt_ok in Ho; cbn [dhcpw_o_kind dhcpw_o_data] in Ho.
  apply andb_prop in Ho; destruct Ho as [Ho Hd255]; apply andb_prop in Ho; destruct Ho as [Hk Hd].
  pose proof (blen_nonneg data) as Hn.
  unfold dhcpw_parse_opt; cbn [dhcpw_o_kind dhcpw_o_data].
  destruct ((kind =? wdhcp_OPT_DHCP_MESSAGE_TYPE) && (blen data =? 1)) eqn:C.
  { apply andb_prop in C; destruct C as [_ C]; apply Z.eqb_eq in C.
    destruct (wb_get_u8_byte data 0 ltac:(lia) Hd) as (v & -> & Rv). cbn [obind].
    unfold dhcpw_opcode. zfold. rewrite wb_get_u8_ok by lia. cbn [obind].
    case_if; dhcpw_acc_fin. unfold is_u8. zbool. reflexivity. }
  clear C. destruct ((kind =? wdhcp_OPT_REQUESTED_IP) && (blen data =? 4)) eqn:C.
  { apply andb_prop in C; destruct C as [_ C]; apply Z.eqb_eq in C.
    unfold wb_arr. rewrite C. zfold. cbn [obind]. dhcpw_acc_fin.
    unfold is_arr. rewrite C, Hd. reflexivity. }
  clear C. destruct ((kind =? wdhcp_OPT_CLIENT_ID) && (blen data =? 7)) eqn:C.
  { apply andb_prop in C; destruct C as [_ C]; apply Z.eqb_eq in C.
    destruct (wb_get_u8_byte data 0 ltac:(lia) Hd) as (v & -> & Rv). cbn [obind].
    destruct (negb (v =? dhcpw_HW_ETHERNET)); [dhcpw_acc_fin|].
    rewrite wb_from_ok by lia. cbn [obind].
    assert (Ls : blen (skipn (Z.to_nat 1) data) = 6) by (rewrite blen_skipn by lia; lia).
    assert (Bs : bytes_ok (skipn (Z.to_nat 1) data) = true) by (apply bytes_ok_skipn, Hd).
    set (s := skipn (Z.to_nat 1) data) in *. unfold wb_arr. rewrite Ls. zfold. cbn [obind]. dhcpw_acc_fin.
    unfold is_arr. rewrite Ls, Bs. reflexivity. }
  clear C. destruct ((kind =? wdhcp_OPT_SERVER_IDENTIFIER) && (blen data =? 4)) eqn:C.
  { apply andb_prop in C; destruct C as [_ C]; apply Z.eqb_eq in C.
    unfold wb_arr. rewrite C. zfold. cbn [obind]. dhcpw_acc_fin.
    unfold is_arr. rewrite C, Hd. reflexivity. }
  clear C. destruct ((kind =? wdhcp_OPT_ROUTER) && (blen data =? 4)) eqn:C.
  { apply andb_prop in C; destruct C as [_ C]; apply Z.eqb_eq in C.
    unfold wb_arr. rewrite C. zfold. cbn [obind]. dhcpw_acc_fin.
    unfold is_arr. rewrite C, Hd. reflexivity. }
  clear C. destruct ((kind =? wdhcp_OPT_SUBNET_MASK) && (blen data =? 4)) eqn:C.
  { apply andb_prop in C; destruct C as [_ C]; apply Z.eqb_eq in C.
    unfold wb_arr. rewrite C. zfold. cbn [obind]. dhcpw_acc_fin.
    unfold is_arr. rewrite C, Hd. reflexivity. }
  clear C. destruct ((kind =? wdhcp_OPT_MAX_DHCP_MESSAGE_SIZE) && (blen data =? 2)) eqn:C.
  { apply andb_prop in C; destruct C as [_ C]; apply Z.eqb_eq in C.
    destruct (wb_get_u8_byte data 0 ltac:(lia) Hd) as (x & -> & Rx).
    destruct (wb_get_u8_byte data 1 ltac:(lia) Hd) as (y & -> & Ry). cbn [obind].
    dhcpw_acc_fin. pose proof (be_dec2_range x y Rx Ry). unfold is_u16. zbool. reflexivity. }
  clear C. destruct ((kind =? wdhcp_OPT_RENEWAL_TIME_VALUE) && (blen data =? 4)) eqn:C.
  { apply andb_prop in C; destruct C as [_ C]; apply Z.eqb_eq in C.
    destruct (dhcpw_be4_ok data C Hd) as (v & -> & Rv). cbn [obind].
    dhcpw_acc_fin. unfold is_u32. zbool. reflexivity. }
  clear C. destruct ((kind =? wdhcp_OPT_REBINDING_TIME_VALUE) && (blen data =? 4)) eqn:C.
  { apply andb_prop in C; destruct C as [_ C]; apply Z.eqb_eq in C.
    destruct (dhcpw_be4_ok data C Hd) as (v & -> & Rv). cbn [obind].
    dhcpw_acc_fin. unfold is_u32. zbool. reflexivity. }
  clear C. destruct ((kind =? wdhcp_OPT_IP_LEASE_TIME) && (blen data =? 4)) eqn:C.
  { apply andb_prop in C; destruct C as [_ C]; apply Z.eqb_eq in C.
    destruct (dhcpw_be4_ok data C Hd) as (v & -> & Rv). cbn [obind].
    dhcpw_acc_fin. unfold is_u32. zbool. reflexivity. }
  clear C. destruct (kind =? wdhcp_OPT_PARAMETER_REQUEST_LIST).
  { dhcpw_acc_fin. unfold dhcpw_prl_ok. rewrite Hd, Hd255. reflexivity. }
  destruct (kind =? wdhcp_OPT_DOMAIN_NAME_SERVER).
  { dhcpw_acc_fin. apply dhcpw_dns_parse_ok, Hd. }
  dhcpw_acc_fin.
Qed.

Lemma dhcpw_parse_opts_spec bs : 1 <= blen bs -> forall l a,
  Forall dhcpw_opt_good l -> dhcpw_acc_wf a ->
  dhcpw_parse_opts bs a l <> Panic /\ forall a', dhcpw_parse_opts bs a l = Ok a' -> dhcpw_acc_wf a'.
Proof.
  intros Hl. induction l as [|o t IH]; intros a Hf Ha; cbn [dhcpw_parse_opts].
  - split; [discriminate|]. intros a' E. injection E as <-. assumption.
  - inversion Hf as [|? ? (Ho & _) Hf']; subst.
    destruct (dhcpw_parse_opt_spec bs a o Hl Ho Ha) as (Np & Hw).
    destruct (dhcpw_parse_opt bs a o) as [a1| |]; cbn [obind]; [| split; discriminate | congruence].
    apply IH; [assumption | apply Hw; reflexivity].
Qed.

Lemma dhcpw_acc0_wf : dhcpw_acc_wf dhcpw_acc0.
Proof. unfold dhcpw_acc_wf, dhcpw_acc0. cbn. repeat split. Qed.

Theorem dhcpw_parse_total bs : bytes_ok bs = true -> dhcpw_parse bs <> Panic.
Proof.
  intros Hb. unfold dhcpw_parse.
  destruct (dhcpw_check_len bs) as [[]| |] eqn:E; cbn [obind]; try discriminate;
    [| exfalso; eapply dhcpw_check_len_nopanic; eassumption].
  apply dhcpw_check_len_inv in E.
  destruct (dhcpw_fixed_ok bs Hb E) as
    ((? & _ & _) & (? & -> & _) & (? & -> & _) & _ & (? & -> & _) & (? & -> & _) &
     (? & -> & _) & (? & ->) & (? & -> & _) & (? & -> & _) & (? & -> & _) & (? & -> & _) & (? & -> & _)).
  destruct (dhcpw_options_ok bs Hb E) as (l & -> & Fl).
  destruct (dhcpw_parse_opts_spec bs ltac:(lia) l dhcpw_acc0 Fl dhcpw_acc0_wf) as (Np & _).
  cbn [obind]. nopanic.
Qed.

(* ====================================================================================== *)
(* C06: DhcpOptionWriter                                                                  *)
(* ====================================================================================== *)

(* the octets of one option / of a list of options *)
Definition dhcpw_opt_bytes (o : dhcpw_opt) : list Z :=
  dhcpw_o_kind o :: blen (dhcpw_o_data o) :: dhcpw_o_data o.
Definition dhcpw_opts_bytes (l : list dhcpw_opt) : list Z := flat_map dhcpw_opt_bytes l.

Lemma dhcpw_opts_bytes_app a b : dhcpw_opts_bytes (a ++ b) = dhcpw_opts_bytes a ++ dhcpw_opts_bytes b.
Proof. apply flat_map_app. Qed.

Lemma dhcpw_opt_bytes_len o : blen (dhcpw_opt_bytes o) = 2 + blen (dhcpw_o_data o).
Proof. unfold dhcpw_opt_bytes. autorewrite with blen. lia. Qed.

Lemma dhcpw_ow_emit_ok done buffer o :
  blen (dhcpw_o_data o) <= 255 -> 2 + blen (dhcpw_o_data o) <= blen buffer ->
  dhcpw_ow_emit (done, buffer) o =
    Ok (done ++ dhcpw_opt_bytes o, skipn (Z.to_nat (2 + blen (dhcpw_o_data o))) buffer).
Proof.
  intros H1 H2. destruct o as [k d]; unfold dhcpw_opt_bytes; cbn [dhcpw_o_kind dhcpw_o_data] in *.
  pose proof (blen_nonneg d) as Hd.
  unfold dhcpw_ow_emit; cbn [dhcpw_o_kind dhcpw_o_data]. zbool.
  destruct (split_hdr buffer (2 + blen d) ltac:(lia)) as (h & t & -> & Hh & Ht).
  assert (Lh : blen h = 2 + blen d) by (unfold blen in *; lia).
  rewrite wb_upto_app_l by lia. rewrite wb_upto_all' by lia. rewrite wb_from_tail by lia. cbn [obind].
  destruct h as [|c0 [|c1 h']]; autorewrite with blen in Lh; try lia.
  unfold wb_set_u8 at 1. rewrite !blen_cons. zbool. zfold. cbn [firstn skipn app obind].
  unfold wb_set_u8 at 1. rewrite !blen_cons. zbool. zfold. cbn [firstn skipn app obind].
  change (k :: blen d mod 256 :: h') with ([k; blen d mod 256] ++ h').
  rewrite (wb_set_slice_tail [k; blen d mod 256] h' 2 _ d) by (autorewrite with blen; lia).
  cbn [obind app]. rewrite Z.mod_small by lia.
  change (c0 :: c1 :: h' ++ t) with ((c0 :: c1 :: h') ++ t). rewrite <- Hh.
  rewrite skipn_app, skipn_all, Nat.sub_diag. reflexivity.
Qed.

Lemma dhcpw_skipn_skipn {A} : forall y x (l : list A), skipn x (skipn y l) = skipn (y + x) l.
Proof.
  induction y as [|y IH]; intros x l; [reflexivity|].
  destruct l; cbn [skipn Nat.add]; [apply skipn_nil | apply IH].
Qed.

Lemma dhcpw_ow_emit_all_ok : forall l done buffer,
  Forall (fun o => blen (dhcpw_o_data o) <= 255) l -> blen (dhcpw_opts_bytes l) <= blen buffer ->
  dhcpw_ow_emit_all (done, buffer) l =
    Ok (done ++ dhcpw_opts_bytes l, skipn (Z.to_nat (blen (dhcpw_opts_bytes l))) buffer).
Proof.
  induction l as [|o l IH]; intros done buffer Hf Hl.
  - cbn. rewrite app_nil_r. reflexivity.
  - inversion Hf as [|? ? Ho Hf']; subst.
    change (dhcpw_opts_bytes (o :: l)) with (dhcpw_opt_bytes o ++ dhcpw_opts_bytes l) in *.
    rewrite blen_app, dhcpw_opt_bytes_len in *.
    pose proof (blen_nonneg (dhcpw_opts_bytes l)). pose proof (blen_nonneg (dhcpw_o_data o)).
    cbn [dhcpw_ow_emit_all]. rewrite dhcpw_ow_emit_ok by lia. cbn [obind].
    rewrite IH; [| assumption | rewrite blen_skipn by lia; lia].
    rewrite <- app_assoc, dhcpw_skipn_skipn. do 3 f_equal. lia.
Qed.

Lemma dhcpw_ow_end_ok done x : dhcpw_ow_end (done, [x]) = Ok (done ++ [wdhcp_OPT_END], []).
Proof. reflexivity. Qed.

(* ====================================================================================== *)
(* C06: the options Repr::emit writes                                                      *)
(* ====================================================================================== *)

Definition dhcpw_seg {A} (f : A -> dhcpw_opt) (o : option A) : list dhcpw_opt :=
  match o with Some v => [f v] | None => [] end.

(* the options in emit order *)
Definition dhcpw_opts_of (r : dhcpw_repr) : list dhcpw_opt :=
  mkDhcpwOpt wdhcp_OPT_DHCP_MESSAGE_TYPE [dhcpw_r_message_type r] ::
  dhcpw_seg (fun v => mkDhcpwOpt wdhcp_OPT_CLIENT_ID (dhcpw_HW_ETHERNET :: v)) (dhcpw_r_client_identifier r) ++
  dhcpw_seg (mkDhcpwOpt wdhcp_OPT_SERVER_IDENTIFIER) (dhcpw_r_server_identifier r) ++
  dhcpw_seg (mkDhcpwOpt wdhcp_OPT_ROUTER) (dhcpw_r_router r) ++
  dhcpw_seg (mkDhcpwOpt wdhcp_OPT_SUBNET_MASK) (dhcpw_r_subnet_mask r) ++
  dhcpw_seg (mkDhcpwOpt wdhcp_OPT_REQUESTED_IP) (dhcpw_r_requested_ip r) ++
  dhcpw_seg (fun v => mkDhcpwOpt wdhcp_OPT_MAX_DHCP_MESSAGE_SIZE (be_enc2 v)) (dhcpw_r_max_size r) ++
  dhcpw_seg (fun v => mkDhcpwOpt wdhcp_OPT_IP_LEASE_TIME (be_enc4 v)) (dhcpw_r_lease_duration r) ++
  dhcpw_seg (fun v => mkDhcpwOpt wdhcp_OPT_RENEWAL_TIME_VALUE (be_enc4 v)) (dhcpw_r_renew_duration r) ++
  dhcpw_seg (fun v => mkDhcpwOpt wdhcp_OPT_REBINDING_TIME_VALUE (be_enc4 v)) (dhcpw_r_rebind_duration r) ++
  dhcpw_seg (mkDhcpwOpt wdhcp_OPT_PARAMETER_REQUEST_LIST) (dhcpw_r_parameter_request_list r) ++
  dhcpw_seg (fun ips => mkDhcpwOpt wdhcp_OPT_DOMAIN_NAME_SERVER (concat ips)) (dhcpw_r_dns_servers r) ++
  dhcpw_r_additional_options r.

Lemma dhcpw_ow_emit_all_seg {A} (f : A -> dhcpw_opt) o w l :
  dhcpw_ow_emit_all w (dhcpw_seg f o ++ l) =
  do w <- dhcpw_ow_emit_opt w (option_map f o); dhcpw_ow_emit_all w l.
Proof. destruct o; reflexivity. Qed.

(* the DNS server array of emit *)
Lemma dhcpw_dns_data_ok ips : dhcpw_dns_ok ips = true -> dhcpw_dns_data ips = Ok (concat ips).
Proof.
  unfold dhcpw_dns_ok. zfold. intros H. apply andb_prop in H. destruct H as [Hn Hf]. bsplit.
  destruct ips as [|a [|b [|c [|d ips]]]]; cbn [length] in Hn; try lia; cbn [forallb] in Hf; bsplit;
    repeat match goal with H : blen _ = 4 |- _ => apply (blen_length _ 4) in H; cells H end;
    vm_compute; reflexivity.
Qed.

(* Repr::emit's option block is the writer run over [dhcpw_opts_of] *)
Lemma dhcpw_emit_options_eq r s :
  dhcpw_opt_all dhcpw_dns_ok (dhcpw_r_dns_servers r) = true ->
  dhcpw_emit_options r s =
  do w <- dhcpw_ow_emit_all ([], s) (dhcpw_opts_of r); do w <- dhcpw_ow_end w; Ok (fst w ++ snd w).
Proof.
  intros Hdns. unfold dhcpw_emit_options, dhcpw_opts_of. cbn [dhcpw_ow_emit_all].
  rewrite obind_assoc.
  destruct (dhcpw_ow_emit ([], s) _) as [w| |]; cbn [obind]; try reflexivity.
  do 10 (rewrite dhcpw_ow_emit_all_seg, obind_assoc;
         match goal with |- obind ?x _ = _ => destruct x as [?w| |]; cbn [obind]; try reflexivity end).
  destruct (dhcpw_r_dns_servers r) as [ips|]; cbn [dhcpw_seg app dhcpw_opt_all] in *.
  - rewrite (dhcpw_dns_data_ok ips Hdns). cbn [obind dhcpw_ow_emit_all]. rewrite obind_assoc. reflexivity.
  - reflexivity.
Qed.

(* ---------- the proviso, clause by clause ---------- *)

Lemma dhcpw_wf_emit_inv r : dhcpw_wf_emit r = true ->
  is_u8 (dhcpw_r_message_type r) = true /\ is_u32 (dhcpw_r_transaction_id r) = true /\
  is_u16 (dhcpw_r_secs r) = true /\ is_arr 6 (dhcpw_r_client_hardware_address r) = true /\
  is_arr 4 (dhcpw_r_client_ip r) = true /\ is_arr 4 (dhcpw_r_your_ip r) = true /\
  is_arr 4 (dhcpw_r_server_ip r) = true /\ is_arr 4 (dhcpw_r_relay_agent_ip r) = true /\
  dhcpw_opt_all (is_arr 4) (dhcpw_r_router r) = true /\
  dhcpw_opt_all (is_arr 4) (dhcpw_r_subnet_mask r) = true /\
  dhcpw_opt_all (is_arr 4) (dhcpw_r_requested_ip r) = true /\
  dhcpw_opt_all (is_arr 6) (dhcpw_r_client_identifier r) = true /\
  dhcpw_opt_all (is_arr 4) (dhcpw_r_server_identifier r) = true /\
  dhcpw_opt_all dhcpw_prl_ok (dhcpw_r_parameter_request_list r) = true /\
  dhcpw_opt_all dhcpw_dns_ok (dhcpw_r_dns_servers r) = true /\
  dhcpw_opt_all is_u16 (dhcpw_r_max_size r) = true /\
  dhcpw_opt_all is_u32 (dhcpw_r_lease_duration r) = true /\
  dhcpw_opt_all is_u32 (dhcpw_r_renew_duration r) = true /\
  dhcpw_opt_all is_u32 (dhcpw_r_rebind_duration r) = true /\
  forallb dhcpw_opt_ok (dhcpw_r_additional_options r) = true.
Proof.
  unfold dhcpw_wf_emit. intros H. do 19 (apply andb_prop in H; destruct H as [H ?]).
  repeat split; assumption.
Qed.

Lemma dhcpw_Forall_app {A} (P : A -> Prop) a b : Forall P a -> Forall P b -> Forall P (a ++ b).
Proof. intros. apply Forall_app. split; assumption. Qed.

Lemma dhcpw_seg_forall {A} (P : dhcpw_opt -> Prop) (f : A -> dhcpw_opt) (p : A -> bool) o :
  dhcpw_opt_all p o = true -> (forall v, p v = true -> P (f v)) -> Forall P (dhcpw_seg f o).
Proof. destruct o; cbn; intros H Hp; constructor; auto. Qed.

Lemma dhcpw_seg_len {A} (f : A -> dhcpw_opt) (p : A -> bool) o n :
  dhcpw_opt_all p o = true -> (forall v, p v = true -> 2 + blen (dhcpw_o_data (f v)) = n) ->
  blen (dhcpw_opts_bytes (dhcpw_seg f o)) = dhcpw_if_some o n.
Proof.
  destruct o as [v|]; cbn [dhcpw_seg dhcpw_opt_all dhcpw_if_some]; intros H Hp; [|reflexivity].
  cbn [dhcpw_opts_bytes flat_map]. rewrite app_nil_r, dhcpw_opt_bytes_len. auto.
Qed.

Lemma dhcpw_concat4_len ips : forallb (is_arr 4) ips = true -> blen (concat ips) = Z.of_nat (length ips) * 4.
Proof.
  induction ips as [|a t IH]; cbn [forallb concat length]; intros H; [reflexivity|].
  apply andb_prop in H. destruct H as [Ha Ht]. unfold is_arr in Ha. bsplit.
  rewrite blen_app, IH by assumption. lia.
Qed.

Lemma dhcpw_concat4_bytes ips : forallb (is_arr 4) ips = true -> bytes_ok (concat ips) = true.
Proof.
  induction ips as [|a t IH]; cbn [forallb concat]; intros H; [reflexivity|].
  apply andb_prop in H. destruct H as [Ha Ht]. unfold is_arr in Ha. apply andb_prop in Ha. destruct Ha as [_ Ha].
  rewrite bytes_ok_app, Ha, IH by assumption. reflexivity.
Qed.

Lemma dhcpw_opts_len_eq : forall l acc,
  fold_left (fun len o => len + (2 + blen (dhcpw_o_data o))) l acc = acc + blen (dhcpw_opts_bytes l).
Proof.
  induction l as [|o l IH]; intros acc; cbn [fold_left].
  - change (dhcpw_opts_bytes []) with (@nil Z). rewrite blen_nil. lia.
  - rewrite IH. change (dhcpw_opts_bytes (o :: l)) with (dhcpw_opt_bytes o ++ dhcpw_opts_bytes l).
    rewrite blen_app, dhcpw_opt_bytes_len. lia.
Qed.

(* what the emitted options satisfy: octet kinds other than PAD/END, <= 255 data octets *)
Ltac dhcpw_good :=
  unfold dhcpw_opt_good, dhcpw_opt_ok; cbn [dhcpw_o_kind dhcpw_o_data]; zfold;
  split; [| split; discriminate].

Lemma dhcpw_opts_of_good r : dhcpw_wf_emit r = true ->
  Forall dhcpw_opt_good (dhcpw_r_additional_options r) -> Forall dhcpw_opt_good (dhcpw_opts_of r).
Proof.
  intros Hwf Hadd. destruct (dhcpw_wf_emit_inv r Hwf) as
    (Hmt & _ & _ & _ & _ & _ & _ & _ & Hrt & Hsm & Hrip & Hcid & Hsid & Hprl & Hdns & Hms & Hld & Hrn & Hrb & _).
  unfold dhcpw_opts_of. constructor.
  { dhcpw_good. cbn [bytes_ok forallb]. rewrite Hmt. reflexivity. }
  repeat apply dhcpw_Forall_app; try assumption.
  - eapply dhcpw_seg_forall; [exact Hcid|]. intros v Hv. dhcpw_good.
    unfold is_arr in Hv. apply andb_prop in Hv. destruct Hv as [Hl Hb]. bsplit.
    rewrite bytes_ok_cons, Hb, blen_cons. zbool. reflexivity.
  - eapply dhcpw_seg_forall; [exact Hsid|]. intros v Hv. dhcpw_good.
    unfold is_arr in Hv. apply andb_prop in Hv. destruct Hv as [Hl Hb]. bsplit. rewrite Hb. zbool. reflexivity.
  - eapply dhcpw_seg_forall; [exact Hrt|]. intros v Hv. dhcpw_good.
    unfold is_arr in Hv. apply andb_prop in Hv. destruct Hv as [Hl Hb]. bsplit. rewrite Hb. zbool. reflexivity.
  - eapply dhcpw_seg_forall; [exact Hsm|]. intros v Hv. dhcpw_good.
    unfold is_arr in Hv. apply andb_prop in Hv. destruct Hv as [Hl Hb]. bsplit. rewrite Hb. zbool. reflexivity.
  - eapply dhcpw_seg_forall; [exact Hrip|]. intros v Hv. dhcpw_good.
    unfold is_arr in Hv. apply andb_prop in Hv. destruct Hv as [Hl Hb]. bsplit. rewrite Hb. zbool. reflexivity.
  - eapply dhcpw_seg_forall; [exact Hms|]. intros v Hv. dhcpw_good. rewrite be_enc2_bytes. reflexivity.
  - eapply dhcpw_seg_forall; [exact Hld|]. intros v Hv. dhcpw_good. rewrite be_enc4_bytes. reflexivity.
  - eapply dhcpw_seg_forall; [exact Hrn|]. intros v Hv. dhcpw_good. rewrite be_enc4_bytes. reflexivity.
  - eapply dhcpw_seg_forall; [exact Hrb|]. intros v Hv. dhcpw_good. rewrite be_enc4_bytes. reflexivity.
  - eapply dhcpw_seg_forall; [exact Hprl|]. intros v Hv. dhcpw_good.
    unfold dhcpw_prl_ok in Hv. apply andb_prop in Hv. destruct Hv as [Hb Hl]. rewrite Hb, Hl. reflexivity.
  - eapply dhcpw_seg_forall; [exact Hdns|]. intros v Hv. dhcpw_good.
    unfold dhcpw_dns_ok in Hv. zfold_in Hv. apply andb_prop in Hv. destruct Hv as [Hn Hf]. bsplit.
    rewrite dhcpw_concat4_bytes, dhcpw_concat4_len by assumption. zbool. reflexivity.
Qed.

Lemma dhcpw_opt_ok_len o : dhcpw_opt_ok o = true -> blen (dhcpw_o_data o) <= 255.
Proof. unfold dhcpw_opt_ok. intros H. bsplit. assumption. Qed.

(* without the PAD/END restriction on additional options: all data fit one length octet *)
Lemma dhcpw_opts_of_short r : dhcpw_wf_emit r = true ->
  Forall (fun o => blen (dhcpw_o_data o) <= 255) (dhcpw_opts_of r).
Proof.
  intros Hwf.
  set (r0 := mkDhcpw (dhcpw_r_message_type r) (dhcpw_r_transaction_id r) (dhcpw_r_secs r)
    (dhcpw_r_client_hardware_address r) (dhcpw_r_client_ip r) (dhcpw_r_your_ip r) (dhcpw_r_server_ip r)
    (dhcpw_r_router r) (dhcpw_r_subnet_mask r) (dhcpw_r_relay_agent_ip r) (dhcpw_r_broadcast r)
    (dhcpw_r_requested_ip r) (dhcpw_r_client_identifier r) (dhcpw_r_server_identifier r)
    (dhcpw_r_parameter_request_list r) (dhcpw_r_dns_servers r) (dhcpw_r_max_size r)
    (dhcpw_r_lease_duration r) (dhcpw_r_renew_duration r) (dhcpw_r_rebind_duration r) []).
  assert (Hwf0 : dhcpw_wf_emit r0 = true).
  { revert Hwf. unfold dhcpw_wf_emit, r0. cbn [dhcpw_r_message_type dhcpw_r_transaction_id dhcpw_r_secs
      dhcpw_r_client_hardware_address dhcpw_r_client_ip dhcpw_r_your_ip dhcpw_r_server_ip dhcpw_r_router
      dhcpw_r_subnet_mask dhcpw_r_relay_agent_ip dhcpw_r_broadcast dhcpw_r_requested_ip
      dhcpw_r_client_identifier dhcpw_r_server_identifier dhcpw_r_parameter_request_list dhcpw_r_dns_servers
      dhcpw_r_max_size dhcpw_r_lease_duration dhcpw_r_renew_duration dhcpw_r_rebind_duration
      dhcpw_r_additional_options forallb]. intros H. apply andb_prop in H. destruct H as [H _].
    rewrite H. reflexivity. }
  pose proof (dhcpw_opts_of_good r0 Hwf0 (Forall_nil _)) as G.
  assert (E : dhcpw_opts_of r = dhcpw_opts_of r0 ++ dhcpw_r_additional_options r).
  { unfold dhcpw_opts_of, r0. cbn [dhcpw_r_message_type dhcpw_r_client_identifier dhcpw_r_server_identifier
      dhcpw_r_router dhcpw_r_subnet_mask dhcpw_r_requested_ip dhcpw_r_max_size dhcpw_r_lease_duration
      dhcpw_r_renew_duration dhcpw_r_rebind_duration dhcpw_r_parameter_request_list dhcpw_r_dns_servers
      dhcpw_r_additional_options]. rewrite app_nil_r. cbn [app]. f_equal. rewrite <- !app_assoc. reflexivity. }
  rewrite E. apply dhcpw_Forall_app.
  - eapply Forall_impl; [|exact G]. intros o (Ho & _). apply dhcpw_opt_ok_len, Ho.
  - destruct (dhcpw_wf_emit_inv r Hwf) as (_ & _ & _ & _ & _ & _ & _ & _ & _ & _ & _ & _ & _ & _ & _ & _ & _ & _ & _ & Ha).
    apply Forall_forall. intros o Ho. rewrite forallb_forall in Ha. apply dhcpw_opt_ok_len, Ha, Ho.
Qed.

(* Repr::buffer_len is the fixed header + the options emit writes + END *)
Lemma dhcpw_buffer_len_eq r : dhcpw_wf_emit r = true ->
  dhcpw_buffer_len r = 240 + blen (dhcpw_opts_bytes (dhcpw_opts_of r)) + 1.
Proof.
  intros Hwf. destruct (dhcpw_wf_emit_inv r Hwf) as
    (Hmt & _ & _ & _ & _ & _ & _ & _ & Hrt & Hsm & Hrip & Hcid & Hsid & Hprl & Hdns & Hms & Hld & Hrn & Hrb & _).
  unfold dhcpw_buffer_len, dhcpw_opts_of, dhcpw_opts_len. rewrite dhcpw_opts_len_eq.
  change (dhcpw_opts_bytes (?o :: ?l)) with (dhcpw_opt_bytes o ++ dhcpw_opts_bytes l).
  rewrite !dhcpw_opts_bytes_app, !blen_app, dhcpw_opt_bytes_len. cbn [dhcpw_o_data].
  rewrite (dhcpw_seg_len _ (is_arr 6) (dhcpw_r_client_identifier r) 9 Hcid)
    by (intros v Hv; cbn [dhcpw_o_data]; unfold is_arr in Hv; bsplit; rewrite blen_cons; lia).
  rewrite (dhcpw_seg_len _ (is_arr 4) (dhcpw_r_server_identifier r) 6 Hsid)
    by (intros v Hv; cbn [dhcpw_o_data]; unfold is_arr in Hv; bsplit; lia).
  rewrite (dhcpw_seg_len _ (is_arr 4) (dhcpw_r_router r) 6 Hrt)
    by (intros v Hv; cbn [dhcpw_o_data]; unfold is_arr in Hv; bsplit; lia).
  rewrite (dhcpw_seg_len _ (is_arr 4) (dhcpw_r_subnet_mask r) 6 Hsm)
    by (intros v Hv; cbn [dhcpw_o_data]; unfold is_arr in Hv; bsplit; lia).
  rewrite (dhcpw_seg_len _ (is_arr 4) (dhcpw_r_requested_ip r) 6 Hrip)
    by (intros v Hv; cbn [dhcpw_o_data]; unfold is_arr in Hv; bsplit; lia).
  rewrite (dhcpw_seg_len _ is_u16 (dhcpw_r_max_size r) 4 Hms) by (intros v Hv; reflexivity).
  rewrite (dhcpw_seg_len _ is_u32 (dhcpw_r_lease_duration r) 6 Hld) by (intros v Hv; reflexivity).
  rewrite (dhcpw_seg_len _ is_u32 (dhcpw_r_renew_duration r) 6 Hrn) by (intros v Hv; reflexivity).
  rewrite (dhcpw_seg_len _ is_u32 (dhcpw_r_rebind_duration r) 6 Hrb) by (intros v Hv; reflexivity).
  assert (Eprl : blen (dhcpw_opts_bytes (dhcpw_seg (mkDhcpwOpt wdhcp_OPT_PARAMETER_REQUEST_LIST)
                         (dhcpw_r_parameter_request_list r))) =
                 match dhcpw_r_parameter_request_list r with Some l => blen l + 2 | None => 0 end).
  { destruct (dhcpw_r_parameter_request_list r); [|reflexivity].
    cbn [dhcpw_seg dhcpw_opts_bytes flat_map]. rewrite app_nil_r, dhcpw_opt_bytes_len. cbn [dhcpw_o_data]. lia. }
  assert (Edns : blen (dhcpw_opts_bytes (dhcpw_seg (fun ips => mkDhcpwOpt wdhcp_OPT_DOMAIN_NAME_SERVER (concat ips))
                         (dhcpw_r_dns_servers r))) =
                 match dhcpw_r_dns_servers r with Some s => 2 + Z.of_nat (length s) * 4 | None => 0 end).
  { destruct (dhcpw_r_dns_servers r) as [ips|]; [|reflexivity]. cbn [dhcpw_opt_all] in Hdns.
    unfold dhcpw_dns_ok in Hdns. apply andb_prop in Hdns. destruct Hdns as [_ Hf].
    cbn [dhcpw_seg dhcpw_opts_bytes flat_map]. rewrite app_nil_r, dhcpw_opt_bytes_len. cbn [dhcpw_o_data].
    rewrite dhcpw_concat4_len by assumption. reflexivity. }
  rewrite Eprl, Edns. replace (blen [dhcpw_r_message_type r]) with 1 by reflexivity. zfold. lia.
Qed.

(* the option block on an options area of exactly the declared size *)
Lemma dhcpw_emit_options_spec r s : dhcpw_wf_emit r = true ->
  blen s = blen (dhcpw_opts_bytes (dhcpw_opts_of r)) + 1 ->
  dhcpw_emit_options r s = Ok (dhcpw_opts_bytes (dhcpw_opts_of r) ++ [wdhcp_OPT_END]).
Proof.
  intros Hwf Hs. pose proof (dhcpw_opts_of_short r Hwf) as Hsh.
  destruct (dhcpw_wf_emit_inv r Hwf) as
    (_ & _ & _ & _ & _ & _ & _ & _ & _ & _ & _ & _ & _ & _ & Hdns & _).
  rewrite dhcpw_emit_options_eq by assumption.
  pose proof (blen_nonneg (dhcpw_opts_bytes (dhcpw_opts_of r))) as Hn.
  rewrite dhcpw_ow_emit_all_ok by (try assumption; lia). cbn [obind app].
  set (n := blen (dhcpw_opts_bytes (dhcpw_opts_of r))) in *.
  assert (L : length (skipn (Z.to_nat n) s) = 1%nat) by (rewrite skipn_length; unfold blen in Hs; lia).
  destruct (skipn (Z.to_nat n) s) as [|c [|? ?]]; cbn [length] in L; try lia.
  rewrite dhcpw_ow_end_ok. cbn [obind fst snd]. rewrite app_nil_r. reflexivity.
Qed.

(* ====================================================================================== *)
(* C06: the fixed header                                                                  *)
(* ====================================================================================== *)

(* the 240 octets of the fixed header: op, htype, hlen, hops, xid, secs, flags, ciaddr, yiaddr,
   siaddr, giaddr, chaddr (6 octets), 202 zero octets (chaddr padding, sname, file), magic cookie *)
Definition dhcpw_hdr (r : dhcpw_repr) : list Z :=
  [dhcpw_mt_opcode (dhcpw_r_message_type r); dhcpw_HW_ETHERNET; 6; 0] ++
  be_enc4 (dhcpw_r_transaction_id r) ++ be_enc2 (dhcpw_r_secs r) ++
  be_enc2 (if dhcpw_r_broadcast r then dhcpw_FLAG_BROADCAST else 0) ++
  dhcpw_r_client_ip r ++ dhcpw_r_your_ip r ++ dhcpw_r_server_ip r ++ dhcpw_r_relay_agent_ip r ++
  dhcpw_r_client_hardware_address r ++ repeat 0 202 ++ be_enc4 wdhcp_DHCP_MAGIC_NUMBER.

Definition dhcpw_bytes (r : dhcpw_repr) : list Z :=
  dhcpw_hdr r ++ dhcpw_opts_bytes (dhcpw_opts_of r) ++ [wdhcp_OPT_END].

Ltac dhcpw_unfold_setters :=
  unfold dhcpw_emit_fixed, dhcpw_set_sname_and_boot_file_to_zero, dhcpw_set_opcode, dhcpw_set_hardware_type,
    dhcpw_set_hardware_len, dhcpw_set_transaction_id, dhcpw_set_client_hardware_address, dhcpw_set_hops,
    dhcpw_set_secs, dhcpw_set_magic_number, dhcpw_set_client_ip, dhcpw_set_your_ip, dhcpw_set_server_ip,
    dhcpw_set_relay_agent_ip, dhcpw_set_flags, wb_fill, wb_set_field, wb_put_u32, wb_put_u16.

(* the setters only touch the first 240 octets *)
Lemma dhcpw_emit_fixed_frame r h t : blen h = 240 ->
  dhcpw_emit_fixed r (h ++ t) = omap (fun x => x ++ t) (dhcpw_emit_fixed r h).
Proof. intros Hh. dhcpw_unfold_setters. zfold. frame. Qed.

Lemma dhcpw_hdr_len r : dhcpw_wf_emit r = true -> blen (dhcpw_hdr r) = 240.
Proof.
  intros Hwf. destruct (dhcpw_wf_emit_inv r Hwf) as (_ & _ & _ & Hch & Hci & Hyi & Hsi & Hgi & _).
  unfold is_arr in *. bsplit. unfold dhcpw_hdr, be_enc4, be_enc2. autorewrite with blen.
  zfold. lia.
Qed.

(* the setters overwrite every one of the 240 octets *)
Lemma dhcpw_emit_fixed_spec r h : dhcpw_wf_emit r = true -> blen h = 240 ->
  dhcpw_emit_fixed r h = Ok (dhcpw_hdr r).
Proof.
  intros Hwf Hh. destruct (dhcpw_wf_emit_inv r Hwf) as (_ & _ & _ & Hch & Hci & Hyi & Hsi & Hgi & _).
  unfold is_arr in *. bsplit.
  destruct r as [mt xid secs ch ci yi si rt sm gi bc rip cid sid prl dns ms ld rn rb add].
  cbn [dhcpw_r_message_type dhcpw_r_transaction_id dhcpw_r_secs dhcpw_r_client_hardware_address
       dhcpw_r_client_ip dhcpw_r_your_ip dhcpw_r_server_ip dhcpw_r_relay_agent_ip dhcpw_r_broadcast] in *.
  unfold dhcpw_hdr;
  cbn [dhcpw_r_message_type dhcpw_r_transaction_id dhcpw_r_secs dhcpw_r_client_hardware_address
       dhcpw_r_client_ip dhcpw_r_your_ip dhcpw_r_server_ip dhcpw_r_relay_agent_ip dhcpw_r_broadcast].
  repeat match goal with H : blen _ = 4 |- _ => apply (blen_length _ 4) in H; cells H end.
  match goal with H : blen _ = 6 |- _ => apply (blen_length _ 6) in H; cells H end.
  apply (blen_length _ 240) in Hh. cells Hh.
  unfold dhcpw_emit_fixed;
  cbn [dhcpw_r_message_type dhcpw_r_transaction_id dhcpw_r_secs dhcpw_r_client_hardware_address
       dhcpw_r_client_ip dhcpw_r_your_ip dhcpw_r_server_ip dhcpw_r_relay_agent_ip dhcpw_r_broadcast].
  clear. remember (dhcpw_mt_opcode mt) as op. clear Heqop.
  destruct bc;
    cbv - [Z.div Z.modulo Z.land Z.lor Z.shiftl Z.shiftr Z.lxor Z.lnot be_dec]; zfold; reflexivity.
Qed.

(* ====================================================================================== *)
(* C06: Repr::emit                                                                        *)
(* ====================================================================================== *)

Theorem dhcpw_emit_spec r b : dhcpw_wf_emit r = true -> blen b = dhcpw_buffer_len r ->
  dhcpw_emit r b = Ok (dhcpw_bytes r).
Proof.
  intros Hwf Hb. rewrite dhcpw_buffer_len_eq in Hb by assumption.
  pose proof (blen_nonneg (dhcpw_opts_bytes (dhcpw_opts_of r))) as Hn.
  destruct (split_hdr b 240 ltac:(lia)) as (h & t & -> & Hh & Ht).
  assert (Lh : blen h = 240) by (unfold blen; lia).
  unfold dhcpw_emit. rewrite dhcpw_emit_fixed_frame, dhcpw_emit_fixed_spec by assumption. cbn [omap obind].
  zfold. rewrite wb_on_from_tail by (rewrite dhcpw_hdr_len by assumption; reflexivity).
  rewrite dhcpw_emit_options_spec by (assumption || lia). cbn [obind]. reflexivity.
Qed.

Lemma dhcpw_bytes_len r : dhcpw_wf_emit r = true -> blen (dhcpw_bytes r) = dhcpw_buffer_len r.
Proof.
  intros Hwf. rewrite dhcpw_buffer_len_eq by assumption. unfold dhcpw_bytes.
  rewrite !blen_app, dhcpw_hdr_len by assumption. autorewrite with blen. lia.
Qed.

Theorem dhcpw_emit_no_panic r b : dhcpw_wf_emit r = true -> blen b = dhcpw_buffer_len r ->
  dhcpw_emit r b <> Panic.
Proof. intros. rewrite dhcpw_emit_spec by assumption. discriminate. Qed.

Theorem dhcpw_emit_ignores_old_bytes r b1 b2 : dhcpw_wf_emit r = true ->
  blen b1 = dhcpw_buffer_len r -> blen b2 = dhcpw_buffer_len r -> dhcpw_emit r b1 = dhcpw_emit r b2.
Proof. intros. rewrite !dhcpw_emit_spec by assumption. reflexivity. Qed.

(* ====================================================================================== *)
(* C06: parsing what emit wrote                                                           *)
(* ====================================================================================== *)

(* the walk over emitted options (followed by END and anything) yields exactly those options *)
Lemma dhcpw_options_go_bytes : forall l rest fuel, Forall dhcpw_opt_good l ->
  (length (dhcpw_opts_bytes l ++ wdhcp_OPT_END :: rest) < fuel)%nat ->
  dhcpw_options_go fuel (dhcpw_opts_bytes l ++ wdhcp_OPT_END :: rest) = Ok l.
Proof.
  induction l as [|o l IH]; intros rest fuel Hf Hfuel; (destruct fuel as [|fuel]; [lia|]).
  - cbn [dhcpw_opts_bytes flat_map app dhcpw_options_go length dhcpw_opt_next].
    rewrite Z.eqb_refl. reflexivity.
  - inversion Hf as [|? ? (Ho & Hk0 & Hk255) Hf']; subst.
    destruct o as [k d]. unfold dhcpw_opt_ok, is_u8 in Ho. cbn [dhcpw_o_kind dhcpw_o_data] in *. bsplit.
    change (dhcpw_opts_bytes ({| dhcpw_o_kind := k; dhcpw_o_data := d |} :: l))
      with (([k; blen d] ++ d) ++ dhcpw_opts_bytes l).
    rewrite <- app_assoc.
    set (tail := dhcpw_opts_bytes l ++ wdhcp_OPT_END :: rest) in *.
    pose proof (blen_nonneg d) as Hd. pose proof (blen_nonneg tail) as Htl.
    assert (Lb : blen (([k; blen d] ++ d) ++ tail) = 2 + blen d + blen tail)
      by (autorewrite with blen; lia).
    cbn [dhcpw_options_go].
    remember (S (length (([k; blen d] ++ d) ++ tail))) as f1 eqn:Ef1.
    destruct f1 as [|f1]; [discriminate|].
    change (([k; blen d] ++ d) ++ tail) with (k :: (blen d :: d) ++ tail) at 1.
    cbn [dhcpw_opt_next].
    change (k :: (blen d :: d) ++ tail) with (([k; blen d] ++ d) ++ tail).
    replace (k =? wdhcp_OPT_END) with false by (symmetry; apply Z.eqb_neq; assumption).
    replace (k =? wdhcp_OPT_PAD) with false by (symmetry; apply Z.eqb_neq; assumption).
    rewrite Lb. zbool.
    rewrite wb_get_u8_app_l by (autorewrite with blen; lia).
    rewrite wb_get_u8_app_l by (autorewrite with blen; lia).
    rewrite wb_get_u8_ok by (autorewrite with blen; lia). zfold. cbn [nth obind]. zbool.
    rewrite wb_sub_app_l by (autorewrite with blen; lia).
    rewrite wb_sub_tail by (autorewrite with blen; lia).
    rewrite wb_from_tail by (autorewrite with blen; lia). cbn [obind].
    unfold tail. rewrite IH; [reflexivity | assumption |]. fold tail.
    unfold tail. rewrite app_length. cbn [length].
    change (dhcpw_opts_bytes ({| dhcpw_o_kind := k; dhcpw_o_data := d |} :: l))
      with (k :: blen d :: d ++ dhcpw_opts_bytes l) in Hfuel.
    rewrite app_length in Hfuel. cbn [length] in Hfuel. rewrite app_length in Hfuel. lia.
Qed.

Lemma dhcpw_parse_opts_app bs : forall l1 l2 a,
  dhcpw_parse_opts bs a (l1 ++ l2) = do a' <- dhcpw_parse_opts bs a l1; dhcpw_parse_opts bs a' l2.
Proof.
  induction l1 as [|o l1 IH]; intros l2 a; cbn [app dhcpw_parse_opts obind]; [reflexivity|].
  destruct (dhcpw_parse_opt bs a o); cbn [obind]; [apply IH | reflexivity | reflexivity].
Qed.

(* option kinds the parser interprets *)
Definition dhcpw_kind_known (k : Z) : bool :=
  existsb (Z.eqb k)
    [wdhcp_OPT_DHCP_MESSAGE_TYPE; wdhcp_OPT_REQUESTED_IP; wdhcp_OPT_CLIENT_ID; wdhcp_OPT_SERVER_IDENTIFIER;
     wdhcp_OPT_ROUTER; wdhcp_OPT_SUBNET_MASK; wdhcp_OPT_MAX_DHCP_MESSAGE_SIZE; wdhcp_OPT_RENEWAL_TIME_VALUE;
     wdhcp_OPT_REBINDING_TIME_VALUE; wdhcp_OPT_IP_LEASE_TIME; wdhcp_OPT_PARAMETER_REQUEST_LIST;
     wdhcp_OPT_DOMAIN_NAME_SERVER].

Lemma dhcpw_parse_opt_unknown bs a o : dhcpw_kind_known (dhcpw_o_kind o) = false ->
  dhcpw_parse_opt bs a o = Ok a.
Proof.
  unfold dhcpw_kind_known. cbn [existsb]. intros H.
  repeat (apply orb_false_elim in H; destruct H as [?E H]).
  destruct a. unfold dhcpw_parse_opt. rewrite E, E0, E1, E2, E3, E4, E5, E6, E7, E8, E9, E10.
  reflexivity.
Qed.

Lemma dhcpw_parse_opts_unknown bs a l : forallb (fun o => negb (dhcpw_kind_known (dhcpw_o_kind o))) l = true ->
  dhcpw_parse_opts bs a l = Ok a.
Proof.
  induction l as [|o l IH]; cbn [forallb dhcpw_parse_opts]; intros H; [reflexivity|].
  apply andb_prop in H. destruct H as [Ho Hl]. apply negb_true_iff in Ho.
  rewrite dhcpw_parse_opt_unknown by assumption. cbn [obind]. apply IH, Hl.
Qed.

Lemma dhcpw_chunks4_concat ips : forallb (is_arr 4) ips = true -> dhcpw_chunks4 (concat ips) = ips.
Proof.
  induction ips as [|a t IH]; cbn [forallb concat]; intros H; [reflexivity|].
  apply andb_prop in H. destruct H as [Ha Ht]. unfold is_arr in Ha. bsplit.
  match goal with H : blen a = 4 |- _ => apply (blen_length _ 4) in H; cells H end.
  cbn [app dhcpw_chunks4]. rewrite IH by assumption. reflexivity.
Qed.

(* ---------- the option loop over one emitted option (or none): it sets exactly its variable ---------- *)
Ltac dhcpw_eval :=
  cbv - [Z.div Z.modulo Z.land Z.lor Z.shiftl Z.shiftr Z.lxor Z.lnot be_dec].

Section DhcpwFold.
Variable bs : list Z.
Variables (mt : option Z) (rip cid sid rt sm prl : option (list Z)) (dns : option (list (list Z)))
          (ms ld rn rb : option Z).

Lemma dhcpw_pseg_mt v : is_u8 v = true -> dhcpw_opcode bs = Ok (dhcpw_mt_opcode v) ->
  dhcpw_parse_opt bs (mkDhcpwAcc None rip cid sid rt sm prl dns ms ld rn rb)
    (mkDhcpwOpt wdhcp_OPT_DHCP_MESSAGE_TYPE [v]) =
  Ok (mkDhcpwAcc (Some v) rip cid sid rt sm prl dns ms ld rn rb).
Proof.
  intros Hv Hop. unfold dhcpw_parse_opt; cbn [dhcpw_o_kind dhcpw_o_data].
  replace (blen [v]) with 1 by reflexivity. zfold. cbn [andb].
  rewrite wb_get_u8_ok by (autorewrite with blen; lia). zfold. cbn [nth obind].
  rewrite Hop. cbn [obind]. rewrite Z.eqb_refl. reflexivity.
Qed.

Lemma dhcpw_pseg_cid o : dhcpw_opt_all (is_arr 6) o = true ->
  dhcpw_parse_opts bs (mkDhcpwAcc mt rip None sid rt sm prl dns ms ld rn rb)
    (dhcpw_seg (fun v => mkDhcpwOpt wdhcp_OPT_CLIENT_ID (dhcpw_HW_ETHERNET :: v)) o) =
  Ok (mkDhcpwAcc mt rip o sid rt sm prl dns ms ld rn rb).
Proof.
  destruct o as [v|]; cbn [dhcpw_opt_all dhcpw_seg dhcpw_parse_opts]; intros H; [|reflexivity].
  unfold is_arr in H. bsplit. match goal with H : blen v = 6 |- _ => apply (blen_length _ 6) in H; cells H end.
  dhcpw_eval. reflexivity.
Qed.

Lemma dhcpw_pseg_sid o : dhcpw_opt_all (is_arr 4) o = true ->
  dhcpw_parse_opts bs (mkDhcpwAcc mt rip cid None rt sm prl dns ms ld rn rb)
    (dhcpw_seg (mkDhcpwOpt wdhcp_OPT_SERVER_IDENTIFIER) o) =
  Ok (mkDhcpwAcc mt rip cid o rt sm prl dns ms ld rn rb).
Proof.
  destruct o as [v|]; cbn [dhcpw_opt_all dhcpw_seg dhcpw_parse_opts]; intros H; [|reflexivity].
  unfold is_arr in H. bsplit. match goal with H : blen v = 4 |- _ => apply (blen_length _ 4) in H; cells H end.
  dhcpw_eval. reflexivity.
Qed.

Lemma dhcpw_pseg_rt o : dhcpw_opt_all (is_arr 4) o = true ->
  dhcpw_parse_opts bs (mkDhcpwAcc mt rip cid sid None sm prl dns ms ld rn rb)
    (dhcpw_seg (mkDhcpwOpt wdhcp_OPT_ROUTER) o) =
  Ok (mkDhcpwAcc mt rip cid sid o sm prl dns ms ld rn rb).
Proof.
  destruct o as [v|]; cbn [dhcpw_opt_all dhcpw_seg dhcpw_parse_opts]; intros H; [|reflexivity].
  unfold is_arr in H. bsplit. match goal with H : blen v = 4 |- _ => apply (blen_length _ 4) in H; cells H end.
  dhcpw_eval. reflexivity.
Qed.

Lemma dhcpw_pseg_sm o : dhcpw_opt_all (is_arr 4) o = true ->
  dhcpw_parse_opts bs (mkDhcpwAcc mt rip cid sid rt None prl dns ms ld rn rb)
    (dhcpw_seg (mkDhcpwOpt wdhcp_OPT_SUBNET_MASK) o) =
  Ok (mkDhcpwAcc mt rip cid sid rt o prl dns ms ld rn rb).
Proof.
  destruct o as [v|]; cbn [dhcpw_opt_all dhcpw_seg dhcpw_parse_opts]; intros H; [|reflexivity].
  unfold is_arr in H. bsplit. match goal with H : blen v = 4 |- _ => apply (blen_length _ 4) in H; cells H end.
  dhcpw_eval. reflexivity.
Qed.

Lemma dhcpw_pseg_rip o : dhcpw_opt_all (is_arr 4) o = true ->
  dhcpw_parse_opts bs (mkDhcpwAcc mt None cid sid rt sm prl dns ms ld rn rb)
    (dhcpw_seg (mkDhcpwOpt wdhcp_OPT_REQUESTED_IP) o) =
  Ok (mkDhcpwAcc mt o cid sid rt sm prl dns ms ld rn rb).
Proof.
  destruct o as [v|]; cbn [dhcpw_opt_all dhcpw_seg dhcpw_parse_opts]; intros H; [|reflexivity].
  unfold is_arr in H. bsplit. match goal with H : blen v = 4 |- _ => apply (blen_length _ 4) in H; cells H end.
  dhcpw_eval. reflexivity.
Qed.

Lemma dhcpw_pseg_ms o : dhcpw_opt_all is_u16 o = true ->
  dhcpw_parse_opts bs (mkDhcpwAcc mt rip cid sid rt sm prl dns None ld rn rb)
    (dhcpw_seg (fun v => mkDhcpwOpt wdhcp_OPT_MAX_DHCP_MESSAGE_SIZE (be_enc2 v)) o) =
  Ok (mkDhcpwAcc mt rip cid sid rt sm prl dns o ld rn rb).
Proof.
  destruct o as [v|]; cbn [dhcpw_opt_all dhcpw_seg dhcpw_parse_opts]; intros H; [|reflexivity].
  bsplit. dhcpw_eval. rewrite be_dec_cells2 by lia. reflexivity.
Qed.

Lemma dhcpw_pseg_ld o : dhcpw_opt_all is_u32 o = true ->
  dhcpw_parse_opts bs (mkDhcpwAcc mt rip cid sid rt sm prl dns ms None rn rb)
    (dhcpw_seg (fun v => mkDhcpwOpt wdhcp_OPT_IP_LEASE_TIME (be_enc4 v)) o) =
  Ok (mkDhcpwAcc mt rip cid sid rt sm prl dns ms o rn rb).
Proof.
  destruct o as [v|]; cbn [dhcpw_opt_all dhcpw_seg dhcpw_parse_opts]; intros H; [|reflexivity].
  bsplit. dhcpw_eval. rewrite be_dec_cells4 by lia. reflexivity.
Qed.

Lemma dhcpw_pseg_rn o : dhcpw_opt_all is_u32 o = true ->
  dhcpw_parse_opts bs (mkDhcpwAcc mt rip cid sid rt sm prl dns ms ld None rb)
    (dhcpw_seg (fun v => mkDhcpwOpt wdhcp_OPT_RENEWAL_TIME_VALUE (be_enc4 v)) o) =
  Ok (mkDhcpwAcc mt rip cid sid rt sm prl dns ms ld o rb).
Proof.
  destruct o as [v|]; cbn [dhcpw_opt_all dhcpw_seg dhcpw_parse_opts]; intros H; [|reflexivity].
  bsplit. dhcpw_eval. rewrite be_dec_cells4 by lia. reflexivity.
Qed.

Lemma dhcpw_pseg_rb o : dhcpw_opt_all is_u32 o = true ->
  dhcpw_parse_opts bs (mkDhcpwAcc mt rip cid sid rt sm prl dns ms ld rn None)
    (dhcpw_seg (fun v => mkDhcpwOpt wdhcp_OPT_REBINDING_TIME_VALUE (be_enc4 v)) o) =
  Ok (mkDhcpwAcc mt rip cid sid rt sm prl dns ms ld rn o).
Proof.
  destruct o as [v|]; cbn [dhcpw_opt_all dhcpw_seg dhcpw_parse_opts]; intros H; [|reflexivity].
  bsplit. dhcpw_eval. rewrite be_dec_cells4 by lia. reflexivity.
Qed.

Lemma dhcpw_pseg_prl o :
  dhcpw_parse_opts bs (mkDhcpwAcc mt rip cid sid rt sm None dns ms ld rn rb)
    (dhcpw_seg (mkDhcpwOpt wdhcp_OPT_PARAMETER_REQUEST_LIST) o) =
  Ok (mkDhcpwAcc mt rip cid sid rt sm o dns ms ld rn rb).
Proof.
  destruct o as [v|]; cbn [dhcpw_seg dhcpw_parse_opts]; [|reflexivity].
  unfold dhcpw_parse_opt; cbn [dhcpw_o_kind dhcpw_o_data]. zfold. cbn [andb obind]. reflexivity.
Qed.

Lemma dhcpw_pseg_dns o : dhcpw_opt_all dhcpw_dns_ok o = true ->
  dhcpw_parse_opts bs (mkDhcpwAcc mt rip cid sid rt sm prl None ms ld rn rb)
    (dhcpw_seg (fun ips => mkDhcpwOpt wdhcp_OPT_DOMAIN_NAME_SERVER (concat ips)) o) =
  Ok (mkDhcpwAcc mt rip cid sid rt sm prl o ms ld rn rb).
Proof.
  destruct o as [ips|]; cbn [dhcpw_opt_all dhcpw_seg dhcpw_parse_opts]; intros H; [|reflexivity].
  unfold dhcpw_dns_ok in H. zfold_in H. apply andb_prop in H. destruct H as [Hn Hf]. bsplit.
  unfold dhcpw_parse_opt; cbn [dhcpw_o_kind dhcpw_o_data]. zfold. cbn [andb obind].
  unfold dhcpw_dns_parse. zfold. rewrite dhcpw_chunks4_concat by assumption.
  rewrite firstn_all2 by lia. reflexivity.
Qed.
End DhcpwFold.

(* the whole loop over the emitted options *)
Lemma dhcpw_parse_opts_of bs r : dhcpw_wf_emit r = true ->
  dhcpw_opcode bs = Ok (dhcpw_mt_opcode (dhcpw_r_message_type r)) ->
  forallb (fun o => negb (dhcpw_kind_known (dhcpw_o_kind o))) (dhcpw_r_additional_options r) = true ->
  dhcpw_parse_opts bs dhcpw_acc0 (dhcpw_opts_of r) =
  Ok (mkDhcpwAcc (Some (dhcpw_r_message_type r)) (dhcpw_r_requested_ip r) (dhcpw_r_client_identifier r)
        (dhcpw_r_server_identifier r) (dhcpw_r_router r) (dhcpw_r_subnet_mask r)
        (dhcpw_r_parameter_request_list r) (dhcpw_r_dns_servers r) (dhcpw_r_max_size r)
        (dhcpw_r_lease_duration r) (dhcpw_r_renew_duration r) (dhcpw_r_rebind_duration r)).
Proof.
  intros Hwf Hop Hadd. destruct (dhcpw_wf_emit_inv r Hwf) as
    (Hmt & _ & _ & _ & _ & _ & _ & _ & Hrt & Hsm & Hrip & Hcid & Hsid & Hprl & Hdns & Hms & Hld & Hrn & Hrb & _).
  unfold dhcpw_opts_of, dhcpw_acc0. cbn [dhcpw_parse_opts].
  rewrite dhcpw_pseg_mt by assumption. cbn [obind].
  rewrite dhcpw_parse_opts_app, dhcpw_pseg_cid by assumption. cbn [obind].
  rewrite dhcpw_parse_opts_app, dhcpw_pseg_sid by assumption. cbn [obind].
  rewrite dhcpw_parse_opts_app, dhcpw_pseg_rt by assumption. cbn [obind].
  rewrite dhcpw_parse_opts_app, dhcpw_pseg_sm by assumption. cbn [obind].
  rewrite dhcpw_parse_opts_app, dhcpw_pseg_rip by assumption. cbn [obind].
  rewrite dhcpw_parse_opts_app, dhcpw_pseg_ms by assumption. cbn [obind].
  rewrite dhcpw_parse_opts_app, dhcpw_pseg_ld by assumption. cbn [obind].
  rewrite dhcpw_parse_opts_app, dhcpw_pseg_rn by assumption. cbn [obind].
  rewrite dhcpw_parse_opts_app, dhcpw_pseg_rb by assumption. cbn [obind].
  rewrite dhcpw_parse_opts_app, dhcpw_pseg_prl. cbn [obind].
  rewrite dhcpw_parse_opts_app, dhcpw_pseg_dns by assumption. cbn [obind].
  apply dhcpw_parse_opts_unknown, Hadd.
Qed.

(* ---------- the fixed header read back ---------- *)

(* the fixed-header accessors (and check_len, options) only look at / start after the first 240 octets *)
Lemma dhcpw_fixed_app_l h t : blen h = 240 ->
  dhcpw_check_len (h ++ t) = Ok tt /\
  dhcpw_opcode (h ++ t) = dhcpw_opcode h /\
  dhcpw_hardware_type (h ++ t) = dhcpw_hardware_type h /\
  dhcpw_hardware_len (h ++ t) = dhcpw_hardware_len h /\
  dhcpw_transaction_id (h ++ t) = dhcpw_transaction_id h /\
  dhcpw_secs (h ++ t) = dhcpw_secs h /\
  dhcpw_magic_number (h ++ t) = dhcpw_magic_number h /\
  dhcpw_flags (h ++ t) = dhcpw_flags h /\
  dhcpw_client_hardware_address (h ++ t) = dhcpw_client_hardware_address h /\
  dhcpw_client_ip (h ++ t) = dhcpw_client_ip h /\
  dhcpw_your_ip (h ++ t) = dhcpw_your_ip h /\
  dhcpw_server_ip (h ++ t) = dhcpw_server_ip h /\
  dhcpw_relay_agent_ip (h ++ t) = dhcpw_relay_agent_ip h /\
  dhcpw_options (h ++ t) = dhcpw_options_go (S (length t)) t.
Proof.
  intros Hh. pose proof (blen_nonneg t).
  unfold dhcpw_opcode, dhcpw_hardware_type, dhcpw_hardware_len, dhcpw_transaction_id, dhcpw_secs,
    dhcpw_magic_number, dhcpw_flags, dhcpw_client_hardware_address, dhcpw_client_ip, dhcpw_your_ip,
    dhcpw_server_ip, dhcpw_relay_agent_ip, dhcpw_options, wb_get_u32, wb_get_u16, wb_field.
  zfold.
  rewrite !wb_get_u8_app_l, !wb_get_be_app_l, !wb_sub_app_l by lia.
  rewrite wb_from_tail by lia. cbn [obind].
  repeat split. apply dhcpw_check_len_ok. rewrite blen_app. lia.
Qed.

Lemma dhcpw_hdr_fields r : dhcpw_wf_emit r = true ->
  dhcpw_opcode (dhcpw_hdr r) = Ok (dhcpw_mt_opcode (dhcpw_r_message_type r)) /\
  dhcpw_hardware_type (dhcpw_hdr r) = Ok dhcpw_HW_ETHERNET /\
  dhcpw_hardware_len (dhcpw_hdr r) = Ok 6 /\
  dhcpw_transaction_id (dhcpw_hdr r) = Ok (dhcpw_r_transaction_id r) /\
  dhcpw_secs (dhcpw_hdr r) = Ok (dhcpw_r_secs r) /\
  dhcpw_magic_number (dhcpw_hdr r) = Ok wdhcp_DHCP_MAGIC_NUMBER /\
  dhcpw_flags (dhcpw_hdr r) = Ok (if dhcpw_r_broadcast r then dhcpw_FLAG_BROADCAST else 0) /\
  dhcpw_client_hardware_address (dhcpw_hdr r) = Ok (dhcpw_r_client_hardware_address r) /\
  dhcpw_client_ip (dhcpw_hdr r) = Ok (dhcpw_r_client_ip r) /\
  dhcpw_your_ip (dhcpw_hdr r) = Ok (dhcpw_r_your_ip r) /\
  dhcpw_server_ip (dhcpw_hdr r) = Ok (dhcpw_r_server_ip r) /\
  dhcpw_relay_agent_ip (dhcpw_hdr r) = Ok (dhcpw_r_relay_agent_ip r).
Proof.
  intros Hwf. destruct (dhcpw_wf_emit_inv r Hwf) as (_ & Hxid & Hsecs & Hch & Hci & Hyi & Hsi & Hgi & _).
  unfold is_arr in *. bsplit.
  destruct r as [mt xid secs ch ci yi si rt sm gi bc rip cid sid prl dns ms ld rn rb add].
  cbn [dhcpw_r_message_type dhcpw_r_transaction_id dhcpw_r_secs dhcpw_r_client_hardware_address
       dhcpw_r_client_ip dhcpw_r_your_ip dhcpw_r_server_ip dhcpw_r_relay_agent_ip dhcpw_r_broadcast] in *.
  unfold dhcpw_hdr;
  cbn [dhcpw_r_message_type dhcpw_r_transaction_id dhcpw_r_secs dhcpw_r_client_hardware_address
       dhcpw_r_client_ip dhcpw_r_your_ip dhcpw_r_server_ip dhcpw_r_relay_agent_ip dhcpw_r_broadcast].
  repeat match goal with H : blen _ = 4 |- _ => apply (blen_length _ 4) in H; cells H end.
  match goal with H : blen _ = 6 |- _ => apply (blen_length _ 6) in H; cells H end.
  remember (dhcpw_mt_opcode mt) as op. clear Heqop Hwf.
  destruct bc; repeat split; dhcpw_eval;
    rewrite ?be_dec_cells4 by lia; rewrite ?be_dec_cells2 by lia; reflexivity.
Qed.

(* a Repr as parse returns it: no additional options *)
Definition dhcpw_clear_additional (r : dhcpw_repr) : dhcpw_repr :=
  mkDhcpw (dhcpw_r_message_type r) (dhcpw_r_transaction_id r) (dhcpw_r_secs r)
    (dhcpw_r_client_hardware_address r) (dhcpw_r_client_ip r) (dhcpw_r_your_ip r) (dhcpw_r_server_ip r)
    (dhcpw_r_router r) (dhcpw_r_subnet_mask r) (dhcpw_r_relay_agent_ip r) (dhcpw_r_broadcast r)
    (dhcpw_r_requested_ip r) (dhcpw_r_client_identifier r) (dhcpw_r_server_identifier r)
    (dhcpw_r_parameter_request_list r) (dhcpw_r_dns_servers r) (dhcpw_r_max_size r)
    (dhcpw_r_lease_duration r) (dhcpw_r_renew_duration r) (dhcpw_r_rebind_duration r) [].

(* additional options the parser skips and the iterator can carry: unknown kinds other than PAD/END *)
Definition dhcpw_add_ok (o : dhcpw_opt) : bool :=
  negb (dhcpw_kind_known (dhcpw_o_kind o)) &&
  negb (dhcpw_o_kind o =? wdhcp_OPT_PAD) && negb (dhcpw_o_kind o =? wdhcp_OPT_END).

(* parsing the emitted octets (followed by anything: the walk stops at END) *)
Lemma dhcpw_parse_bytes r rest : dhcpw_wf_emit r = true ->
  forallb dhcpw_add_ok (dhcpw_r_additional_options r) = true ->
  dhcpw_parse (dhcpw_hdr r ++ dhcpw_opts_bytes (dhcpw_opts_of r) ++ wdhcp_OPT_END :: rest) =
  Ok (dhcpw_clear_additional r).
Proof.
  intros Hwf Hadd.
  assert (Hunk : forallb (fun o => negb (dhcpw_kind_known (dhcpw_o_kind o))) (dhcpw_r_additional_options r) = true).
  { rewrite forallb_forall in *. intros o Ho. specialize (Hadd o Ho). unfold dhcpw_add_ok in Hadd.
    bsplit. apply negb_true_iff. assumption. }
  assert (Hgood : Forall dhcpw_opt_good (dhcpw_r_additional_options r)).
  { destruct (dhcpw_wf_emit_inv r Hwf) as (_ & _ & _ & _ & _ & _ & _ & _ & _ & _ & _ & _ & _ & _ & _ & _ & _ & _ & _ & Ha).
    apply Forall_forall. intros o Ho. rewrite forallb_forall in Hadd, Ha.
    specialize (Hadd o Ho). specialize (Ha o Ho). unfold dhcpw_add_ok in Hadd. bsplit.
    split; [assumption|]. split; assumption. }
  pose proof (dhcpw_hdr_len r Hwf) as Lh.
  set (t := dhcpw_opts_bytes (dhcpw_opts_of r) ++ wdhcp_OPT_END :: rest).
  destruct (dhcpw_fixed_app_l (dhcpw_hdr r) t Lh) as
    (Ec & Eop & Eht & Ehl & Exid & Esecs & Emag & Efl & Ech & Eci & Eyi & Esi & Egi & Eopts).
  destruct (dhcpw_hdr_fields r Hwf) as (Fop & Fht & Fhl & Fxid & Fsecs & Fmag & Ffl & Fch & Fci & Fyi & Fsi & Fgi).
  unfold dhcpw_parse.
  rewrite Ec, Exid, Fxid, Ech, Fch, Eci, Fci, Eyi, Fyi, Esi, Fsi, Egi, Fgi, Esecs, Fsecs, Eht, Fht. cbn [obind].
  rewrite Z.eqb_refl. rewrite Ehl, Fhl. cbn [obind wb_guard]. zfold. cbn [obind].
  rewrite Emag, Fmag. cbn [obind]. zfold. cbn [wb_guard obind].
  rewrite Eopts. unfold t. rewrite dhcpw_options_go_bytes by (try apply dhcpw_opts_of_good; auto).
  cbn [obind]. fold t.
  rewrite dhcpw_parse_opts_of by (try assumption; rewrite Eop; exact Fop). cbn [obind].
  rewrite Efl, Ffl. cbn [obind dhcpw_a_message_type dhcpw_a_requested_ip dhcpw_a_client_identifier
    dhcpw_a_server_identifier dhcpw_a_router dhcpw_a_subnet_mask dhcpw_a_parameter_request_list
    dhcpw_a_dns_servers dhcpw_a_max_size dhcpw_a_lease_duration dhcpw_a_renew_duration dhcpw_a_rebind_duration].
  unfold dhcpw_clear_additional. destruct (dhcpw_r_broadcast r); reflexivity.
Qed.

(* ====================================================================================== *)
(* C06: round trip, re-parse                                                              *)
(* ====================================================================================== *)

Lemma dhcpw_wf_inv r : dhcpw_wf r = true ->
  dhcpw_wf_emit r = true /\ dhcpw_r_additional_options r = [].
Proof.
  unfold dhcpw_wf. intros H. apply andb_prop in H. destruct H as [H1 H2]. split; [assumption|].
  destruct (dhcpw_r_additional_options r); [reflexivity | discriminate].
Qed.

Lemma dhcpw_clear_additional_id r : dhcpw_r_additional_options r = [] -> dhcpw_clear_additional r = r.
Proof. destruct r; unfold dhcpw_clear_additional; cbn. intros ->. reflexivity. Qed.

(* with additional options: everything but them comes back (the parser does not keep unknown
   options; kinds it would interpret, PAD and END are excluded) *)
Theorem dhcpw_roundtrip_additional r b : dhcpw_wf_emit r = true ->
  forallb dhcpw_add_ok (dhcpw_r_additional_options r) = true -> blen b = dhcpw_buffer_len r ->
  exists bs, dhcpw_emit r b = Ok bs /\ blen bs = dhcpw_buffer_len r /\
             dhcpw_parse bs = Ok (dhcpw_clear_additional r).
Proof.
  intros Hwf Hadd Hb. exists (dhcpw_bytes r). split; [apply dhcpw_emit_spec; assumption|].
  split; [apply dhcpw_bytes_len; assumption|]. apply dhcpw_parse_bytes; assumption.
Qed.

Theorem dhcpw_roundtrip r b : dhcpw_wf r = true -> blen b = dhcpw_buffer_len r ->
  exists bs, dhcpw_emit r b = Ok bs /\ blen bs = dhcpw_buffer_len r /\ dhcpw_parse bs = Ok r.
Proof.
  intros Hwf Hb. destruct (dhcpw_wf_inv r Hwf) as (Hwe & Hadd).
  destruct (dhcpw_roundtrip_additional r b Hwe) as (bs & He & Hl & Hp); [rewrite Hadd; reflexivity | assumption |].
  rewrite dhcpw_clear_additional_id in Hp by assumption. eauto.
Qed.

(* whatever parse accepts is inside the proviso *)
Theorem dhcpw_parse_wf bs r : bytes_ok bs = true -> dhcpw_parse bs = Ok r -> dhcpw_wf r = true.
Proof.
  intros Hb H. unfold dhcpw_parse in H.
  destruct (dhcpw_check_len bs) as [[]| |] eqn:E; cbn [obind] in H; try discriminate.
  apply dhcpw_check_len_inv in E.
  destruct (dhcpw_fixed_ok bs Hb E) as
    (_ & (ht & Hht & _) & (hl & Hhl & _) & _ & (xid & Hxid & Rxid) & (secs & Hsecs & Rsecs) &
     (mg & Hmg & _) & (fl & Hfl) & (ch & Hch & Ach) & (ci & Hci & Aci) & (yi & Hyi & Ayi) &
     (si & Hsi & Asi) & (gi & Hgi & Agi)).
  rewrite Hxid, Hch, Hci, Hyi, Hsi, Hgi, Hsecs, Hht in H. cbn [obind] in H.
  destruct (ht =? dhcpw_HW_ETHERNET); [|discriminate]. rewrite Hhl in H. cbn [obind] in H.
  destruct (hl =? 6); cbn [wb_guard obind] in H; [|discriminate].
  rewrite Hmg in H. cbn [obind] in H.
  destruct (mg =? wdhcp_DHCP_MAGIC_NUMBER); cbn [wb_guard obind] in H; [|discriminate].
  destruct (dhcpw_options_ok bs Hb E) as (l & Hl & Fl). rewrite Hl in H. cbn [obind] in H.
  destruct (dhcpw_parse_opts_spec bs ltac:(lia) l dhcpw_acc0 Fl dhcpw_acc0_wf) as (_ & Hw).
  destruct (dhcpw_parse_opts bs dhcpw_acc0 l) as [a| |]; cbn [obind] in H; try discriminate.
  specialize (Hw a eq_refl). rewrite Hfl in H. cbn [obind] in H.
  destruct a as [mt rip cid sid rt sm prl dns ms ld rn rb].
  unfold dhcpw_acc_wf in Hw.
  cbn [dhcpw_a_message_type dhcpw_a_requested_ip dhcpw_a_client_identifier dhcpw_a_server_identifier
       dhcpw_a_router dhcpw_a_subnet_mask dhcpw_a_parameter_request_list dhcpw_a_dns_servers
       dhcpw_a_max_size dhcpw_a_lease_duration dhcpw_a_renew_duration dhcpw_a_rebind_duration] in *.
  destruct Hw as (A1 & A2 & A3 & A4 & A5 & A6 & A7 & A8 & A9 & A10 & A11 & A12).
  destruct mt as [mt|]; [|discriminate]. injection H as <-. cbn [dhcpw_opt_all] in A1.
  assert (Uxid : is_u32 xid = true) by (unfold is_u32; zbool; reflexivity).
  assert (Usecs : is_u16 secs = true) by (unfold is_u16; zbool; reflexivity).
  unfold dhcpw_wf, dhcpw_wf_emit.
  cbn [dhcpw_r_message_type dhcpw_r_transaction_id dhcpw_r_secs dhcpw_r_client_hardware_address
       dhcpw_r_client_ip dhcpw_r_your_ip dhcpw_r_server_ip dhcpw_r_router dhcpw_r_subnet_mask
       dhcpw_r_relay_agent_ip dhcpw_r_broadcast dhcpw_r_requested_ip dhcpw_r_client_identifier
       dhcpw_r_server_identifier dhcpw_r_parameter_request_list dhcpw_r_dns_servers dhcpw_r_max_size
       dhcpw_r_lease_duration dhcpw_r_renew_duration dhcpw_r_rebind_duration dhcpw_r_additional_options].
  rewrite A1, Uxid, Usecs, Ach, Aci, Ayi, Asi, Agi, A2, A3, A4, A5, A6, A7, A8, A9, A10, A11, A12.
  reflexivity.
Qed.

Theorem dhcpw_reparse bs r : bytes_ok bs = true -> dhcpw_parse bs = Ok r ->
  dhcpw_wf r = true /\
  forall b, blen b = dhcpw_buffer_len r ->
    exists bs', dhcpw_emit r b = Ok bs' /\ dhcpw_parse bs' = Ok r.
Proof.
  intros Hb H. pose proof (dhcpw_parse_wf bs r Hb H) as Hwf. split; [assumption|].
  intros b Hlen. destruct (dhcpw_roundtrip r b Hwf Hlen) as (bs' & He & _ & Hp). eauto.
Qed.

(* wf is wf_emit plus "no additional options" *)
Lemma dhcpw_wf_wf_emit r : dhcpw_wf r = true -> dhcpw_wf_emit r = true.
Proof. intros H. apply dhcpw_wf_inv in H. tauto. Qed.

(* ====================================================================================== *)
(* non-vacuity witnesses (concrete computations)                                          *)
(* ====================================================================================== *)

Definition dhcpw_example_repr : dhcpw_repr :=
  mkDhcpw 5 305419896 3 [2; 0; 0; 0; 0; 1] [0; 0; 0; 0] [192; 168; 1; 100] [192; 168; 1; 1]
    (Some [192; 168; 1; 1]) (Some [255; 255; 255; 0]) [0; 0; 0; 0] true None (Some [2; 0; 0; 0; 0; 1])
    (Some [192; 168; 1; 1]) (Some [1; 3; 6]) (Some [[8; 8; 8; 8]; [1; 1; 1; 1]]) (Some 1500)
    (Some 3600) (Some 1800) (Some 3150) [].

Example dhcpw_example_wf : dhcpw_wf dhcpw_example_repr = true.
Proof. vm_compute. reflexivity. Qed.

Example dhcpw_example_roundtrip :
  let r := dhcpw_example_repr in
  match dhcpw_emit r (repeat 165 (Z.to_nat (dhcpw_buffer_len r))) with
  | Ok bs => dhcpw_parse bs = Ok r /\ blen bs = 308
  | _ => False
  end.
Proof. vm_compute. split; reflexivity. Qed.

(* the iterator on malformed option areas: it stops silently *)
Example dhcpw_walk_zero_length :        (* a zero length is fine: the walk advances by 2 *)
  dhcpw_options_go 8 [12; 0; 12; 0; 255] = Ok [mkDhcpwOpt 12 []; mkDhcpwOpt 12 []].
Proof. vm_compute. reflexivity. Qed.
Example dhcpw_walk_length_past_end :    (* a length running past the buffer ends the iteration *)
  dhcpw_options_go 8 [53; 1; 5; 12; 9; 1; 2] = Ok [mkDhcpwOpt 53 [5]].
Proof. vm_compute. reflexivity. Qed.
Example dhcpw_walk_missing_end_pads :   (* PAD is one octet; a missing END is not an error *)
  dhcpw_options_go 8 [0; 0; 53; 1; 5; 0] = Ok [mkDhcpwOpt 53 [5]].
Proof. vm_compute. reflexivity. Qed.
Example dhcpw_walk_truncated_header :   (* a kind octet without a length octet *)
  dhcpw_options_go 8 [53] = Ok [].
Proof. vm_compute. reflexivity. Qed.
