(* Lemmas about Model/WireDhcpv4.v (properties C06, C07): DHCPv4 packets, the options walk,
   DhcpOptionWriter, Repr::{parse, buffer_len, emit}. *)
From SV Require Import Lib.Base Gen.Consts Gen.WireFields Model.WireBase Model.WireDhcpv4
  Proofs.WireBaseProofs Proofs.Wire2Kit.

(* the chunk pattern of [dhcpw_chunks4] is the source's IP_ADDR_BYTE_LEN *)
Example dhcpw_chunk_len_is_4 : wdhcp_IP_ADDR_BYTE_LEN = 4.
Proof. reflexivity. Qed.

(* ====================================================================================== *)
(* C07: the options walk                                                                  *)
(* ====================================================================================== *)

(* what the iterator can yield: a kind octet other than PAD / END, at most 255 data octets *)
Definition dhcpw_opt_good (o : dhcpw_opt) : Prop :=
  dhcpw_opt_ok o = true /\ dhcpw_o_kind o <> wdhcp_OPT_PAD /\ dhcpw_o_kind o <> wdhcp_OPT_END.

(* one `next()`: never an error, never a panic; a yielded option is well formed and the
   iterator state strictly shrinks (by at least the two header octets) *)
Lemma dhcpw_opt_next_spec : forall fuel buf, bytes_ok buf = true -> (length buf < fuel)%nat ->
  dhcpw_opt_next fuel buf = Ok None \/
  exists o rest, dhcpw_opt_next fuel buf = Ok (Some (o, rest)) /\
    (length rest + 2 <= length buf)%nat /\ bytes_ok rest = true /\ dhcpw_opt_good o.
Proof.
  induction fuel as [|fuel IH]; intros buf Hb Hf; [lia|].
  destruct buf as [|kind t]; [left; reflexivity|].
  cbn [dhcpw_opt_next].
  assert (Hk : 0 <= kind < 256) by (apply (bytes_ok_nth (kind :: t) 0 Hb); cbn [length]; lia).
  assert (Ht : bytes_ok t = true) by (rewrite bytes_ok_cons in Hb; bsplit; assumption).
  pose proof (blen_nonneg t) as Hn.
  destruct (kind =? wdhcp_OPT_END) eqn:E1; [left; reflexivity|].
  destruct (kind =? wdhcp_OPT_PAD) eqn:E2.
  - rewrite wb_from_ok by (rewrite blen_cons; lia). cbn [obind].
    change (Z.to_nat 1) with 1%nat. cbn [skipn].
    cbn [length] in Hf.
    destruct (IH t Ht ltac:(lia)) as [H|(o & rest & H & L & B & G)].
    + left; exact H.
    + right. exists o, rest. split; [exact H|]. split; [cbn [length]; lia|]. auto.
  - destruct (blen (kind :: t) <? 2) eqn:E3; [left; reflexivity|]. bsplit.
    rewrite wb_get_u8_ok by lia. cbn [obind].
    set (len := nth (Z.to_nat 1) (kind :: t) 0).
    assert (Hl : 0 <= len < 256) by (apply bytes_ok_byte; [assumption|lia]).
    destruct (blen (kind :: t) <? 2 + len) eqn:E4; [left; reflexivity|]. bsplit.
    rewrite wb_sub_ok by lia. rewrite wb_from_ok by lia. cbn [obind].
    right. eexists _, _. split; [reflexivity|]. split; [|split].
    + rewrite skipn_length. unfold blen in *. lia.
    + apply bytes_ok_skipn; assumption.
    + unfold dhcpw_opt_good, dhcpw_opt_ok, is_u8; cbn [dhcpw_o_kind dhcpw_o_data].
      split; [|split; assumption].
      rewrite bytes_ok_sub by assumption.
      rewrite blen_firstn by (rewrite blen_skipn by lia; lia).
      zbool. reflexivity.
Qed.

(* fuel suffices: any fuel above the buffer length gives the same result *)
Lemma dhcpw_opt_next_fuel : forall f1 f2 buf, (length buf < f1)%nat -> (length buf < f2)%nat ->
  dhcpw_opt_next f1 buf = dhcpw_opt_next f2 buf.
Proof.
  induction f1 as [|f1 IH]; intros f2 buf H1 H2; [lia|]. destruct f2 as [|f2]; [lia|].
  destruct buf as [|kind t]; [reflexivity|]. cbn [dhcpw_opt_next].
  destruct (kind =? wdhcp_OPT_END); [reflexivity|].
  destruct (kind =? wdhcp_OPT_PAD); [|reflexivity].
  pose proof (blen_nonneg t).
  rewrite wb_from_ok by (rewrite blen_cons; lia). cbn [obind].
  change (Z.to_nat 1) with 1%nat. cbn [skipn]. cbn [length] in *. apply IH; lia.
Qed.

Lemma dhcpw_options_go_spec : forall fuel buf, bytes_ok buf = true -> (length buf < fuel)%nat ->
  exists l, dhcpw_options_go fuel buf = Ok l /\ Forall dhcpw_opt_good l.
Proof.
  induction fuel as [|fuel IH]; intros buf Hb Hf; [lia|]. cbn [dhcpw_options_go].
  destruct (dhcpw_opt_next_spec (S (length buf)) buf Hb ltac:(lia)) as [H|(o & rest & H & L & B & G)];
    rewrite H; cbn [obind].
  - exists []. split; [reflexivity | constructor].
  - destruct (IH rest B ltac:(lia)) as (l & Hl & Fl). rewrite Hl. cbn [obind].
    exists (o :: l). split; [reflexivity|]. constructor; assumption.
Qed.

Lemma dhcpw_options_go_fuel : forall f1 f2 buf, bytes_ok buf = true ->
  (length buf < f1)%nat -> (length buf < f2)%nat ->
  dhcpw_options_go f1 buf = dhcpw_options_go f2 buf.
Proof.
  induction f1 as [|f1 IH]; intros f2 buf Hb H1 H2; [lia|]. destruct f2 as [|f2]; [lia|].
  cbn [dhcpw_options_go].
  destruct (dhcpw_opt_next_spec (S (length buf)) buf Hb ltac:(lia)) as [H|(o & rest & H & L & B & G)];
    rewrite H; cbn [obind]; [reflexivity|].
  rewrite (IH f2 rest B) by lia. reflexivity.
Qed.

(* the walk over ANY octet string terminates without error or panic *)
Lemma dhcpw_options_go_total buf : bytes_ok buf = true ->
  exists l, dhcpw_options_go (S (length buf)) buf = Ok l /\ Forall dhcpw_opt_good l.
Proof. intros Hb. apply dhcpw_options_go_spec; [assumption | lia]. Qed.

(* ====================================================================================== *)
(* C07: check_len and the accessors                                                       *)
(* ====================================================================================== *)

Lemma dhcpw_check_len_inv bs : dhcpw_check_len bs = Ok tt -> 240 <= blen bs.
Proof. unfold dhcpw_check_len. zfold. case_if; [discriminate|]. bsplit. intros _. lia. Qed.

Lemma dhcpw_check_len_ok bs : 240 <= blen bs -> dhcpw_check_len bs = Ok tt.
Proof. intros. unfold dhcpw_check_len. zfold. zbool. reflexivity. Qed.

Lemma dhcpw_check_len_nopanic bs : dhcpw_check_len bs <> Panic.
Proof. unfold dhcpw_check_len. case_if; discriminate. Qed.

(* a fixed-size array field *)
Lemma dhcpw_arr_field_ok bs lo hi n : 0 <= lo -> hi = lo + n -> 0 <= n -> hi <= blen bs ->
  exists s, (do s <- wb_field bs (lo, hi); wb_arr n s) = Ok s /\ is_arr n s = bytes_ok s /\
            blen s = n /\ (bytes_ok bs = true -> bytes_ok s = true).
Proof.
  intros H0 -> Hn Hh. unfold wb_field; cbn [fst snd].
  destruct (wb_sub_ok_len bs lo (lo + n) ltac:(lia) Hh) as (s & Hs & Ls & Bs).
  rewrite Hs. cbn [obind]. exists s. unfold wb_arr, is_arr.
  replace (lo + n - lo) with n in Ls by lia. rewrite Ls.
  rewrite Z.eqb_refl. cbn [andb]. split; [reflexivity|]. split; [reflexivity|].
  split; [reflexivity | assumption].
Qed.

Lemma dhcpw_position0_range l n : dhcpw_position0 l = Some n -> 0 <= n < blen l.
Proof.
  revert n; induction l as [|x t IH]; intros n H; cbn [dhcpw_position0] in H; [discriminate|].
  rewrite blen_cons. pose proof (blen_nonneg t).
  destruct (x =? 0); [injection H as <-; lia|].
  destruct (dhcpw_position0 t) as [m|]; [|discriminate]. injection H as <-.
  specialize (IH m eq_refl). lia.
Qed.

Lemma dhcpw_get_str_nopanic bs f : 0 <= fst f <= snd f -> snd f <= blen bs -> dhcpw_get_str bs f <> Panic.
Proof.
  intros H1 H2. unfold dhcpw_get_str, wb_field.
  destruct (wb_sub_ok_len bs (fst f) (snd f) H1 H2) as (s & Hs & Ls & _). rewrite Hs. cbn [obind].
  destruct (dhcpw_position0 s) as [n|] eqn:E; [|discriminate].
  apply dhcpw_position0_range in E.
  destruct (n =? 0); [discriminate|].
  unfold wb_upto. zbool. cbn [obind]. case_if; discriminate.
Qed.

(* every fixed-header accessor returns a value of its type's range *)
Lemma dhcpw_fixed_ok bs : bytes_ok bs = true -> 240 <= blen bs ->
  (exists v, dhcpw_opcode bs = Ok v /\ 0 <= v < 256) /\
  (exists v, dhcpw_hardware_type bs = Ok v /\ 0 <= v < 256) /\
  (exists v, dhcpw_hardware_len bs = Ok v /\ 0 <= v < 256) /\
  (exists v, dhcpw_hops bs = Ok v /\ 0 <= v < 256) /\
  (exists v, dhcpw_transaction_id bs = Ok v /\ 0 <= v < 4294967296) /\
  (exists v, dhcpw_secs bs = Ok v /\ 0 <= v < 65536) /\
  (exists v, dhcpw_magic_number bs = Ok v /\ 0 <= v < 4294967296) /\
  (exists v, dhcpw_flags bs = Ok v) /\
  (exists v, dhcpw_client_hardware_address bs = Ok v /\ is_arr 6 v = true) /\
  (exists v, dhcpw_client_ip bs = Ok v /\ is_arr 4 v = true) /\
  (exists v, dhcpw_your_ip bs = Ok v /\ is_arr 4 v = true) /\
  (exists v, dhcpw_server_ip bs = Ok v /\ is_arr 4 v = true) /\
  (exists v, dhcpw_relay_agent_ip bs = Ok v /\ is_arr 4 v = true).
Proof.
  intros Hb Hl.
  assert (A : forall lo hi n, 0 <= lo -> hi = lo + n -> 0 <= n -> hi <= 240 ->
            exists v, (do s <- wb_field bs (lo, hi); wb_arr n s) = Ok v /\ is_arr n v = true).
  { intros lo hi n H0 H1 H2 H3.
    destruct (dhcpw_arr_field_ok bs lo hi n H0 H1 H2 ltac:(lia)) as (s & Hs & Ia & _ & Bs).
    exists s. split; [assumption|]. rewrite Ia. auto. }
  unfold dhcpw_opcode, dhcpw_hardware_type, dhcpw_hardware_len, dhcpw_hops, dhcpw_transaction_id,
    dhcpw_secs, dhcpw_magic_number, dhcpw_flags, dhcpw_client_hardware_address, dhcpw_client_ip,
    dhcpw_your_ip, dhcpw_server_ip, dhcpw_relay_agent_ip.
  zfold.
  repeat split.
  - apply wb_get_u8_byte; [lia | assumption].
  - apply wb_get_u8_byte; [lia | assumption].
  - apply wb_get_u8_byte; [lia | assumption].
  - apply wb_get_u8_byte; [lia | assumption].
  - apply wb_get_u32_ok'; zfold; try lia; assumption.
  - apply wb_get_u16_ok'; zfold; try lia; assumption.
  - apply wb_get_u32_ok'; zfold; try lia; assumption.
  - destruct (wb_get_u16_ok' bs wdhcp_f_FLAGS) as (v & Hv & _); zfold; try lia; try assumption.
    rewrite Hv. cbn [obind]. eauto.
  - apply A; lia.
  - apply A; lia.
  - apply A; lia.
  - apply A; lia.
  - apply A; lia.
Qed.

Lemma dhcpw_options_ok bs : bytes_ok bs = true -> 240 <= blen bs ->
  exists l, dhcpw_options bs = Ok l /\ Forall dhcpw_opt_good l.
Proof.
  intros Hb Hl. unfold dhcpw_options. zfold. rewrite wb_from_ok by lia. cbn [obind].
  apply dhcpw_options_go_total. apply bytes_ok_skipn, Hb.
Qed.

Theorem dhcpw_options_walk_total bs : bytes_ok bs = true -> dhcpw_check_len bs = Ok tt ->
  exists l, dhcpw_options bs = Ok l /\ Forall dhcpw_opt_good l.
Proof. intros Hb H. apply dhcpw_options_ok; [assumption | apply dhcpw_check_len_inv, H]. Qed.

Theorem dhcpw_accessors_safe bs : bytes_ok bs = true -> dhcpw_check_len bs = Ok tt ->
  dhcpw_opcode bs <> Panic /\ dhcpw_hardware_type bs <> Panic /\ dhcpw_hardware_len bs <> Panic /\
  dhcpw_transaction_id bs <> Panic /\ dhcpw_client_hardware_address bs <> Panic /\
  dhcpw_hops bs <> Panic /\ dhcpw_secs bs <> Panic /\ dhcpw_magic_number bs <> Panic /\
  dhcpw_client_ip bs <> Panic /\ dhcpw_your_ip bs <> Panic /\ dhcpw_server_ip bs <> Panic /\
  dhcpw_relay_agent_ip bs <> Panic /\ dhcpw_flags bs <> Panic /\ dhcpw_options bs <> Panic /\
  dhcpw_get_sname bs <> Panic /\ dhcpw_get_boot_file bs <> Panic.
Proof.
  intros Hb H. apply dhcpw_check_len_inv in H.
  destruct (dhcpw_fixed_ok bs Hb H) as
    ((? & -> & _) & (? & -> & _) & (? & -> & _) & (? & -> & _) & (? & -> & _) & (? & -> & _) &
     (? & -> & _) & (? & ->) & (? & -> & _) & (? & -> & _) & (? & -> & _) & (? & -> & _) & (? & -> & _)).
  destruct (dhcpw_options_ok bs Hb H) as (l & -> & _).
  repeat split; try discriminate.
  - apply dhcpw_get_str_nopanic; zfold; cbn [fst snd]; lia.
  - apply dhcpw_get_str_nopanic; zfold; cbn [fst snd]; lia.
Qed.

(* ====================================================================================== *)
(* C07: Repr::parse never panics                                                          *)
(* ====================================================================================== *)

Lemma dhcpw_be4_ok d : blen d = 4 -> bytes_ok d = true ->
  exists v, dhcpw_be4 d = Ok v /\ 0 <= v < 4294967296.
Proof.
  intros H Hb. apply (blen_length _ 4) in H. cells H.
  unfold dhcpw_be4. rewrite !wb_get_u8_ok by (autorewrite with blen; lia). cbn [obind]. zfold. cbn [nth].
  eexists; split; [reflexivity|].
  cbn [bytes_ok forallb] in Hb. bsplit. apply be_dec4_range; lia.
Qed.

Lemma dhcpw_forallb_firstn {A} (p : A -> bool) n l : forallb p l = true -> forallb p (firstn n l) = true.
Proof. rewrite !forallb_forall. intros H x Hx. apply H. eapply In_firstn'; eauto. Qed.

Lemma dhcpw_chunks4_ok : forall n d, (length d <= n)%nat -> bytes_ok d = true ->
  forallb (is_arr 4) (dhcpw_chunks4 d) = true.
Proof.
  induction n as [|n IH]; intros d Hn Hb.
  - destruct d; [reflexivity | cbn [length] in Hn; lia].
  - destruct d as [|a [|b [|c [|e t]]]]; try reflexivity.
    cbn [dhcpw_chunks4 forallb]. cbn [bytes_ok forallb] in Hb.
    rewrite (IH t); [| cbn [length] in Hn; lia |].
    + unfold is_arr. replace (blen [a; b; c; e]) with 4 by reflexivity. cbn [bytes_ok forallb].
      destruct (is_u8 a); [|discriminate]. destruct (is_u8 b); [|discriminate].
      destruct (is_u8 c); [|discriminate]. destruct (is_u8 e); [|discriminate]. reflexivity.
    + destruct (is_u8 a); [|discriminate]. destruct (is_u8 b); [|discriminate].
      destruct (is_u8 c); [|discriminate]. destruct (is_u8 e); [|discriminate]. exact Hb.
Qed.

Lemma dhcpw_dns_parse_ok d : bytes_ok d = true -> dhcpw_dns_ok (dhcpw_dns_parse d) = true.
Proof.
  intros Hb. unfold dhcpw_dns_ok, dhcpw_dns_parse. zfold.
  rewrite dhcpw_forallb_firstn by (apply (dhcpw_chunks4_ok (length d)); [lia | assumption]).
  rewrite firstn_length. zbool. reflexivity.
Qed.

(* the invariant of the option loop: every `let mut` variable holds a value of its type *)
Definition dhcpw_acc_wf (a : dhcpw_acc) : Prop :=
  dhcpw_opt_all is_u8 (dhcpw_a_message_type a) = true /\
  dhcpw_opt_all (is_arr 4) (dhcpw_a_requested_ip a) = true /\
  dhcpw_opt_all (is_arr 6) (dhcpw_a_client_identifier a) = true /\
  dhcpw_opt_all (is_arr 4) (dhcpw_a_server_identifier a) = true /\
  dhcpw_opt_all (is_arr 4) (dhcpw_a_router a) = true /\
  dhcpw_opt_all (is_arr 4) (dhcpw_a_subnet_mask a) = true /\
  dhcpw_opt_all dhcpw_prl_ok (dhcpw_a_parameter_request_list a) = true /\
  dhcpw_opt_all dhcpw_dns_ok (dhcpw_a_dns_servers a) = true /\
  dhcpw_opt_all is_u16 (dhcpw_a_max_size a) = true /\
  dhcpw_opt_all is_u32 (dhcpw_a_lease_duration a) = true /\
  dhcpw_opt_all is_u32 (dhcpw_a_renew_duration a) = true /\
  dhcpw_opt_all is_u32 (dhcpw_a_rebind_duration a) = true.

Ltac dhcpw_acc_fin :=
  split; [discriminate |
    let a' := fresh "a'" in let E := fresh "E" in
    intros a' E; first [ discriminate E |
      injection E as <-; unfold dhcpw_acc_wf;
      cbn [dhcpw_a_message_type dhcpw_a_requested_ip dhcpw_a_client_identifier dhcpw_a_server_identifier
           dhcpw_a_router dhcpw_a_subnet_mask dhcpw_a_parameter_request_list dhcpw_a_dns_servers
           dhcpw_a_max_size dhcpw_a_lease_duration dhcpw_a_renew_duration dhcpw_a_rebind_duration];
      repeat split; try assumption; cbn [dhcpw_opt_all] ] ].

(* one iteration of the loop body: no panic (the length in each match arm covers the indexing
   done in it), and the invariant is kept *)
Lemma dhcpw_parse_opt_spec bs a o : 1 <= blen bs -> dhcpw_opt_ok o = true -> dhcpw_acc_wf a ->
  dhcpw_parse_opt bs a o <> Panic /\ forall a', dhcpw_parse_opt bs a o = Ok a' -> dhcpw_acc_wf a'.
Proof.
  intros Hl Ho Ha. destruct a as [mt rip cid sid rt sm prl dns ms ld rn rb]. destruct o as [kind data].
  unfold dhcpw_acc_wf in Ha;
    cbn [dhcpw_a_message_type dhcpw_a_requested_ip dhcpw_a_client_identifier dhcpw_a_server_identifier
         dhcpw_a_router dhcpw_a_subnet_mask dhcpw_a_parameter_request_list dhcpw_a_dns_servers
         dhcpw_a_max_size dhcpw_a_lease_duration dhcpw_a_renew_duration dhcpw_a_rebind_duration] in Ha.
  destruct Ha as (A1 & A2 & A3 & A4 & A5 & A6 & A7 & A8 & A9 & A10 & A11 & A12).
  unfold dhcpw_opt_ok in Ho; cbn [dhcpw_o_kind dhcpw_o_data] in Ho.
  apply andb_prop in Ho; destruct Ho as [Ho Hd255]; apply andb_prop in Ho; destruct Ho as [Hk Hd].
  pose proof (blen_nonneg data) as Hn.
  unfold dhcpw_parse_opt; cbn [dhcpw_o_kind dhcpw_o_data].
  destruct ((kind =? wdhcp_OPT_DHCP_MESSAGE_TYPE) && (blen data =? 1)) eqn:C.
  { apply andb_prop in C; destruct C as [_ C]; apply Z.eqb_eq in C.
    destruct (wb_get_u8_byte data 0 ltac:(lia) Hd) as (v & -> & Rv). cbn [obind].
    unfold dhcpw_opcode. zfold. rewrite wb_get_u8_ok by lia. cbn [obind].
    case_if; dhcpw_acc_fin. unfold is_u8. zbool. reflexivity. }
  clear C. destruct ((kind =? wdhcp_OPT_REQUESTED_IP) && (blen data =? 4)) eqn:C.
  { apply andb_prop in C; destruct C as [_ C]; apply Z.eqb_eq in C.
    unfold wb_arr. rewrite C. zfold. cbn [obind]. dhcpw_acc_fin.
    unfold is_arr. rewrite C, Hd. reflexivity. }
  clear C. destruct ((kind =? wdhcp_OPT_CLIENT_ID) && (blen data =? 7)) eqn:C.
  { apply andb_prop in C; destruct C as [_ C]; apply Z.eqb_eq in C.
    destruct (wb_get_u8_byte data 0 ltac:(lia) Hd) as (v & -> & Rv). cbn [obind].
    destruct (negb (v =? dhcpw_HW_ETHERNET)); [dhcpw_acc_fin|].
    rewrite wb_from_ok by lia. cbn [obind].
    assert (Ls : blen (skipn (Z.to_nat 1) data) = 6) by (rewrite blen_skipn by lia; lia).
    assert (Bs : bytes_ok (skipn (Z.to_nat 1) data) = true) by (apply bytes_ok_skipn, Hd).
    set (s := skipn (Z.to_nat 1) data) in *. unfold wb_arr. rewrite Ls. zfold. cbn [obind]. dhcpw_acc_fin.
    unfold is_arr. rewrite Ls, Bs. reflexivity. }
  clear C. destruct ((kind =? wdhcp_OPT_SERVER_IDENTIFIER) && (blen data =? 4)) eqn:C.
  { apply andb_prop in C; destruct C as [_ C]; apply Z.eqb_eq in C.
    unfold wb_arr. rewrite C. zfold. cbn [obind]. dhcpw_acc_fin.
    unfold is_arr. rewrite C, Hd. reflexivity. }
  clear C. destruct ((kind =? wdhcp_OPT_ROUTER) && (blen data =? 4)) eqn:C.
  { apply andb_prop in C; destruct C as [_ C]; apply Z.eqb_eq in C.
    unfold wb_arr. rewrite C. zfold. cbn [obind]. dhcpw_acc_fin.
    unfold is_arr. rewrite C, Hd. reflexivity. }
  clear C. destruct ((kind =? wdhcp_OPT_SUBNET_MASK) && (blen data =? 4)) eqn:C.
  { apply andb_prop in C; destruct C as [_ C]; apply Z.eqb_eq in C.
    unfold wb_arr. rewrite C. zfold. cbn [obind]. dhcpw_acc_fin.
    unfold is_arr. rewrite C, Hd. reflexivity. }
  clear C. destruct ((kind =? wdhcp_OPT_MAX_DHCP_MESSAGE_SIZE) && (blen data =? 2)) eqn:C.
  { apply andb_prop in C; destruct C as [_ C]; apply Z.eqb_eq in C.
    destruct (wb_get_u8_byte data 0 ltac:(lia) Hd) as (x & -> & Rx).
    destruct (wb_get_u8_byte data 1 ltac:(lia) Hd) as (y & -> & Ry). cbn [obind].
    dhcpw_acc_fin. pose proof (be_dec2_range x y Rx Ry). unfold is_u16. zbool. reflexivity. }
  clear C. destruct ((kind =? wdhcp_OPT_RENEWAL_TIME_VALUE) && (blen data =? 4)) eqn:C.
  { apply andb_prop in C; destruct C as [_ C]; apply Z.eqb_eq in C.
    destruct (dhcpw_be4_ok data C Hd) as (v & -> & Rv). cbn [obind].
    dhcpw_acc_fin. unfold is_u32. zbool. reflexivity. }
  clear C. destruct ((kind =? wdhcp_OPT_REBINDING_TIME_VALUE) && (blen data =? 4)) eqn:C.
  { apply andb_prop in C; destruct C as [_ C]; apply Z.eqb_eq in C.
    destruct (dhcpw_be4_ok data C Hd) as (v & -> & Rv). cbn [obind].
    dhcpw_acc_fin. unfold is_u32. zbool. reflexivity. }
  clear C. destruct ((kind =? wdhcp_OPT_IP_LEASE_TIME) && (blen data =? 4)) eqn:C.
  { apply andb_prop in C; destruct C as [_ C]; apply Z.eqb_eq in C.
    destruct (dhcpw_be4_ok data C Hd) as (v & -> & Rv). cbn [obind].
    dhcpw_acc_fin. unfold is_u32. zbool. reflexivity. }
  clear C. destruct (kind =? wdhcp_OPT_PARAMETER_REQUEST_LIST).
  { dhcpw_acc_fin. unfold dhcpw_prl_ok. rewrite Hd, Hd255. reflexivity. }
  destruct (kind =? wdhcp_OPT_DOMAIN_NAME_SERVER).
  { dhcpw_acc_fin. apply dhcpw_dns_parse_ok, Hd. }
  dhcpw_acc_fin.
Qed.

Lemma dhcpw_parse_opts_spec bs : 1 <= blen bs -> forall l a,
  Forall dhcpw_opt_good l -> dhcpw_acc_wf a ->
  dhcpw_parse_opts bs a l <> Panic /\ forall a', dhcpw_parse_opts bs a l = Ok a' -> dhcpw_acc_wf a'.
Proof.
  intros Hl. induction l as [|o t IH]; intros a Hf Ha; cbn [dhcpw_parse_opts].
  - split; [discriminate|]. intros a' E. injection E as <-. assumption.
  - inversion Hf as [|? ? (Ho & _) Hf']; subst.
    destruct (dhcpw_parse_opt_spec bs a o Hl Ho Ha) as (Np & Hw).
    destruct (dhcpw_parse_opt bs a o) as [a1| |]; cbn [obind]; [| split; discriminate | congruence].
    apply IH; [assumption | apply Hw; reflexivity].
Qed.

Lemma dhcpw_acc0_wf : dhcpw_acc_wf dhcpw_acc0.
Proof. unfold dhcpw_acc_wf, dhcpw_acc0. cbn. repeat split. Qed.

Theorem dhcpw_parse_total bs : bytes_ok bs = true -> dhcpw_parse bs <> Panic.
Proof.
  intros Hb. unfold dhcpw_parse.
  destruct (dhcpw_check_len bs) as [[]| |] eqn:E; cbn [obind]; try discriminate;
    [| exfalso; eapply dhcpw_check_len_nopanic; eassumption].
  apply dhcpw_check_len_inv in E.
  destruct (dhcpw_fixed_ok bs Hb E) as
    ((? & _ & _) & (? & -> & _) & (? & -> & _) & _ & (? & -> & _) & (? & -> & _) &
     (? & -> & _) & (? & ->) & (? & -> & _) & (? & -> & _) & (? & -> & _) & (? & -> & _) & (? & -> & _)).
  destruct (dhcpw_options_ok bs Hb E) as (l & -> & Fl).
  destruct (dhcpw_parse_opts_spec bs ltac:(lia) l dhcpw_acc0 Fl dhcpw_acc0_wf) as (Np & _).
  cbn [obind]. nopanic.
Qed.
