(* C01, layer 0: structural facts about the two-endpoint system model Model/TcpNet.v that need
   nothing from the socket proofs:
   - what one [ep_step] / [net_step] does to the channels and to the application log;
   - "channel is a subset of emitted": every in-flight segment is in the sender's [ep_sent] log, so
     whatever [NDeliver] hands to a socket was emitted by the other socket ([chan_sub_sent]);
   - the application log only grows ([net_step_mono]);
   - a CLOSED socket stays CLOSED under the events of the system model and emits nothing but
     payload-free RSTs ([closed_step]). *)
From SV Require Import Lib.Base Gen.Consts.
From SV Require Import Model.Seq32 Model.Assembler Model.TcpBuf Model.TcpTypes Model.Tcp Model.TcpNet.

(* ---------------------------------------------------------------------------------------- *)
(* sides                                                                                     *)
(* ---------------------------------------------------------------------------------------- *)
Lemma side_other_inv x : side_other (side_other x) = x.
Proof. destruct x; reflexivity. Qed.

Lemma side_other_neq x : side_other x <> x.
Proof. destruct x; discriminate. Qed.

Lemma net_get_set_same st x e : net_get (net_set st x e) x = e.
Proof. destruct x; reflexivity. Qed.

Lemma net_get_set_other st x e : net_get (net_set st x e) (side_other x) = net_get st (side_other x).
Proof. destruct x; reflexivity. Qed.

Lemma net_get_set st x y e :
  net_get (net_set st x e) y = if match x, y with SA, SA | SB, SB => true | _, _ => false end
                               then e else net_get st y.
Proof. destruct x, y; reflexivity. Qed.

Lemma side_cases x y : y = x \/ y = side_other x.
Proof. destruct x, y; auto. Qed.

(* ---------------------------------------------------------------------------------------- *)
(* one socket event at an endpoint                                                           *)
(* ---------------------------------------------------------------------------------------- *)
Definition opt_list {A} (o : option A) : list A := match o with Some a => [a] | None => [] end.

Lemma obind_ok {A B} (x : outcome A) (f : A -> outcome B) b :
  obind x f = Ok b -> exists a, x = Ok a /\ f a = Ok b.
Proof. destruct x; cbn [obind]; intros H; try discriminate. exists a. split; [reflexivity | exact H]. Qed.

(* an invariant of [ep_step] that holds for a fresh endpoint holds after [ep_create] *)
Lemma ep_create_ind (P : endpoint -> Prop) c e :
  (forall s, tcp_new (c_rx_storage c) (c_tx_storage c) (c_cc c) (c_ts c) = Ok s ->
             P (mkEp s (cfg_ctx c) [] [] [] [] false false)) ->
  (forall e0 ev e1, P e0 -> ep_step e0 ev = Ok e1 ->
     match ev with
     | EvSetTimeout _ | EvSetKeepAlive _ | EvSetAckDelay _ | EvSetNagle _ | EvSetHopLimit _ => P e1
     | _ => True
     end) ->
  ep_create c = Ok e -> P e.
Proof.
  intros H0 Hs H. unfold ep_create in H.
  apply obind_ok in H. destruct H as (s & Hn & H).
  apply obind_ok in H. destruct H as (e1 & H1 & H).
  apply obind_ok in H. destruct H as (e2 & H2 & H).
  apply obind_ok in H. destruct H as (e3 & H3 & H).
  apply obind_ok in H. destruct H as (e4 & H4 & H).
  pose proof (Hs _ _ _ (H0 _ Hn) H1) as P1. cbv beta iota in P1.
  pose proof (Hs _ _ _ P1 H2) as P2. cbv beta iota in P2.
  pose proof (Hs _ _ _ P2 H3) as P3. cbv beta iota in P3.
  pose proof (Hs _ _ _ P3 H4) as P4. cbv beta iota in P4.
  exact (Hs _ _ _ P4 H).
Qed.

(* the application log after an event with a given observable result *)
Definition log_written (w : list Z) (ev : event) (out : step_out) : list Z :=
  match ev, out with EvSend data, OSize n => w ++ l_take n data | _, _ => w end.
Definition log_read (rd : list Z) (ev : event) (out : step_out) : list Z :=
  match ev, out with EvRecv _, OBytes b => rd ++ b | _, _ => rd end.
Definition log_finished (f : bool) (ev : event) (out : step_out) : bool :=
  match ev, out with EvRecv _, OErr 2 => true | _, _ => f end.
Definition log_closed (c : bool) (st : tcp_state) (ev : event) : bool :=
  match ev with EvClose => c || closes_stream st | _ => c end.

Lemma ep_step_spec e ev e' :
  ep_step e ev = Ok e' ->
  exists s' out tags,
    tcp_step (ep_cx e) (ep_sock e) ev = Ok (s', out, tags) /\
    ep_sock e' = s' /\ ep_cx e' = ep_cx e /\
    ep_out e' = ep_out e ++ opt_list (wire_out out) /\
    ep_sent e' = ep_sent e ++ opt_list (wire_out out) /\
    ep_written e' = log_written (ep_written e) ev out /\
    ep_read e' = log_read (ep_read e) ev out /\
    ep_finished e' = log_finished (ep_finished e) ev out /\
    ep_closed e' = log_closed (ep_closed e) (s_state (ep_sock e)) ev.
Proof.
  unfold ep_step. intros H.
  destruct (tcp_step (ep_cx e) (ep_sock e) ev) as [((s', out), tags)|err|] eqn:Hs; cbn [obind] in H;
    try discriminate.
  exists s', out, tags. split; [reflexivity|].
  assert (Hemit : forall o,
    let e1 := ep_emit (ep_set_sock e s') o in
    ep_sock e1 = s' /\ ep_cx e1 = ep_cx e /\ ep_out e1 = ep_out e ++ opt_list o /\
    ep_sent e1 = ep_sent e ++ opt_list o /\ ep_written e1 = ep_written e /\
    ep_read e1 = ep_read e /\ ep_finished e1 = ep_finished e /\ ep_closed e1 = ep_closed e).
  { intros [p|]; cbn; rewrite ?app_nil_r; repeat split; reflexivity. }
  specialize (Hemit (wire_out out)). cbv zeta in Hemit.
  set (e1 := ep_emit (ep_set_sock e s') (wire_out out)) in *.
  destruct Hemit as (E1 & E2 & E3 & E4 & E5 & E6 & E7 & E8).
  inversion H; subst e'; clear H.
  unfold log_written, log_read, log_finished, log_closed.
  destruct ev; try (repeat split; assumption).
  - (* close *) destruct out; cbn [ep_sock ep_cx ep_out ep_sent ep_written ep_read ep_finished ep_closed];
      rewrite ?E8; repeat split; assumption.
  - (* send *) destruct out; cbn [ep_sock ep_cx ep_out ep_sent ep_written ep_read ep_finished ep_closed];
      rewrite ?E5; repeat split; assumption.
  - (* recv *) destruct out as [|err| |b| |]; try (repeat split; assumption).
    destruct err as [|[|[| |]|]|]; cbn [ep_sock ep_cx ep_out ep_sent ep_written ep_read ep_finished ep_closed];
      repeat split; assumption.
Qed.

(* ---------------------------------------------------------------------------------------- *)
(* lists                                                                                     *)
(* ---------------------------------------------------------------------------------------- *)
Lemma remove_nth_incl {A} i (l : list A) : incl (remove_nth i l) l.
Proof.
  revert i. induction l as [|a l IH]; intros i x Hx; [destruct i; exact Hx|].
  destruct i; cbn in Hx.
  - right. exact Hx.
  - destruct Hx as [-> | Hx]; [left; reflexivity | right; eapply IH; exact Hx].
Qed.

Definition prefix {A} (a b : list A) : Prop := exists c, b = a ++ c.

Lemma prefix_refl {A} (a : list A) : prefix a a.
Proof. exists []. rewrite app_nil_r. reflexivity. Qed.

Lemma prefix_app {A} (a b : list A) : prefix a (a ++ b).
Proof. exists b. reflexivity. Qed.

Lemma prefix_trans {A} (a b c : list A) : prefix a b -> prefix b c -> prefix a c.
Proof. intros (x & ->) (y & ->). exists (x ++ y). rewrite app_assoc. reflexivity. Qed.

(* ---------------------------------------------------------------------------------------- *)
(* channel is a subset of emitted; the log only grows                                        *)
(* ---------------------------------------------------------------------------------------- *)
Definition chan_sub (st : net) : Prop :=
  forall x, incl (ep_out (net_get st x)) (ep_sent (net_get st x)).

(* everything the application log can tell, monotonically *)
Definition ep_mono (e e' : endpoint) : Prop :=
  prefix (ep_written e) (ep_written e') /\ prefix (ep_read e) (ep_read e') /\
  prefix (ep_sent e) (ep_sent e') /\
  (ep_closed e = true -> ep_closed e' = true) /\
  (ep_finished e = true -> ep_finished e' = true).

Lemma ep_mono_refl e : ep_mono e e.
Proof. unfold ep_mono. repeat split; auto using prefix_refl. Qed.

Lemma ep_mono_same e e' :
  ep_written e' = ep_written e -> ep_read e' = ep_read e -> ep_sent e' = ep_sent e ->
  ep_closed e' = ep_closed e -> ep_finished e' = ep_finished e -> ep_mono e e'.
Proof.
  intros E1 E2 E3 E4 E5. unfold ep_mono. rewrite E1, E2, E3, E4, E5.
  repeat split; auto using prefix_refl.
Qed.

Lemma ep_step_mono e ev e' : ep_step e ev = Ok e' -> ep_mono e e'.
Proof.
  intros H. destruct (ep_step_spec _ _ _ H) as (s' & out & tags & _ & _ & _ & _ & Hsent & Hw & Hr & Hf & Hc).
  unfold ep_mono. rewrite Hsent, Hw, Hr, Hf, Hc.
  unfold log_written, log_read, log_finished, log_closed.
  split; [destruct ev, out; auto using prefix_refl, prefix_app|].
  split; [destruct ev, out; auto using prefix_refl, prefix_app|].
  split; [apply prefix_app|].
  split; [destruct ev; auto; intros ->; reflexivity|].
  destruct ev; auto. destruct out; auto. destruct e0 as [|[|[| |]|]|]; auto.
Qed.

Lemma ep_step_chan e ev e' :
  ep_step e ev = Ok e' -> incl (ep_out e) (ep_sent e) -> incl (ep_out e') (ep_sent e').
Proof.
  intros H Hi. destruct (ep_step_spec _ _ _ H) as (s' & out & tags & _ & _ & _ & Ho & Hs & _).
  rewrite Ho, Hs. apply incl_app; [apply incl_appl; exact Hi | apply incl_appr; apply incl_refl].
Qed.

Lemma net_step_chan st ev st' : net_step st ev = Ok st' -> chan_sub st -> chan_sub st'.
Proof.
  intros H Hc. unfold net_step in H.
  assert (Hep : forall x e ev0, ep_step (net_get st x) ev0 = Ok e -> chan_sub (net_set st x e)).
  { intros x e ev0 He y. destruct (side_cases x y) as [-> | ->].
    - rewrite net_get_set_same. eapply ep_step_chan; [exact He | apply Hc].
    - rewrite net_get_set_other. apply Hc. }
  assert (Hbind : forall x ev0,
            (do e <- ep_step (net_get st x) ev0; Ok (net_set st x e)) = Ok st' -> chan_sub st').
  { intros x ev0 Hb. destruct (ep_step (net_get st x) ev0) as [e|err|] eqn:He; cbn [obind] in Hb;
      try discriminate. inversion Hb; subst. eapply Hep. exact He. }
  assert (Hdrop : forall to i,
            chan_sub (net_set st (side_other to)
                        (ep_set_out (net_get st (side_other to))
                                    (remove_nth i (ep_out (net_get st (side_other to))))))).
  { intros to i y. destruct (side_cases (side_other to) y) as [-> | ->].
    - rewrite net_get_set_same. cbn [ep_set_out ep_out ep_sent].
      eapply incl_tran; [apply remove_nth_incl | apply Hc].
    - rewrite net_get_set_other. apply Hc. }
  destruct ev.
  - destruct (nth_error _ i); [eapply Hbind; exact H | inversion H; subst; exact Hc].
  - inversion H; subst. apply Hdrop.
  - inversion H; subst. apply Hdrop.
  - inversion H; subst. intros [|]; cbn; [apply (Hc SA) | apply (Hc SB)].
  - inversion H; subst. intros y. destruct (side_cases x y) as [-> | ->].
    + rewrite net_get_set_same. cbn. apply (Hc x).
    + rewrite net_get_set_other. apply Hc.
  - eapply Hbind; exact H.
  - eapply Hbind; exact H.
  - eapply Hbind; exact H.
  - eapply Hbind; exact H.
Qed.

Lemma net_init_chan ca cb st : net_init ca cb = Ok st -> chan_sub st.
Proof.
  unfold net_init. intros H.
  assert (Hc : forall c e, ep_create c = Ok e -> incl (ep_out e) (ep_sent e)).
  { intros c e He. apply (ep_create_ind (fun e => incl (ep_out e) (ep_sent e)) c e); [| |exact He].
    - intros s _. cbn [ep_out ep_sent]. apply incl_refl.
    - intros e0 ev e1 P0 Hs. pose proof (ep_step_chan _ _ _ Hs P0). destruct ev; auto. }
  apply obind_ok in H. destruct H as (a & Ea & H).
  apply obind_ok in H. destruct H as (b & Eb & H).
  apply obind_ok in H. destruct H as (b' & Eb' & H).
  apply obind_ok in H. destruct H as (a' & Ea' & H).
  inversion H; subst. intros [|]; cbn [net_get n_a n_b].
  - eapply ep_step_chan; [exact Ea' | eapply Hc; exact Ea].
  - eapply ep_step_chan; [exact Eb' | eapply Hc; exact Eb].
Qed.

(* "channel is a subset of emitted" in every reachable state *)
Theorem chan_sub_sent ca cb st0 evs st :
  net_init ca cb = Ok st0 -> net_run st0 evs = Ok st -> chan_sub st.
Proof.
  intros Hi. pose proof (net_init_chan _ _ _ Hi) as Hc. clear Hi. revert st0 Hc.
  induction evs as [|ev evs IH]; intros st0 Hc Hr; cbn [net_run] in Hr.
  - inversion Hr; subst. exact Hc.
  - destruct (net_step st0 ev) as [st1| |] eqn:E; cbn [obind] in Hr; try discriminate.
    eapply IH; [|exact Hr]. eapply net_step_chan; eassumption.
Qed.

(* the application log only grows along a run *)
Definition net_mono (st st' : net) : Prop := forall x, ep_mono (net_get st x) (net_get st' x).

Lemma ep_mono_trans a b c : ep_mono a b -> ep_mono b c -> ep_mono a c.
Proof.
  intros (A1 & A2 & A3 & A4 & A5) (B1 & B2 & B3 & B4 & B5). unfold ep_mono.
  repeat split; eauto using prefix_trans.
Qed.

Lemma net_step_mono st ev st' : net_step st ev = Ok st' -> net_mono st st'.
Proof.
  intros H. unfold net_step in H.
  assert (Hbind : forall x ev0,
            (do e <- ep_step (net_get st x) ev0; Ok (net_set st x e)) = Ok st' -> net_mono st st').
  { intros x ev0 Hb. destruct (ep_step (net_get st x) ev0) as [e|err|] eqn:He; cbn [obind] in Hb;
      try discriminate. inversion Hb; subst. intros y. destruct (side_cases x y) as [-> | ->].
    - rewrite net_get_set_same. eapply ep_step_mono. exact He.
    - rewrite net_get_set_other. apply ep_mono_refl. }
  assert (Hset : forall x e, ep_mono (net_get st x) e -> net_mono st (net_set st x e)).
  { intros x e He y. destruct (side_cases x y) as [-> | ->].
    - rewrite net_get_set_same. exact He.
    - rewrite net_get_set_other. apply ep_mono_refl. }
  destruct ev.
  - destruct (nth_error _ i); [eapply Hbind; exact H | inversion H; subst; intros y; apply ep_mono_refl].
  - inversion H; subst. apply Hset. apply ep_mono_same; reflexivity.
  - inversion H; subst. apply Hset. apply ep_mono_same; reflexivity.
  - inversion H; subst. intros [|]; cbn [net_get n_a n_b]; apply ep_mono_same; reflexivity.
  - inversion H; subst. apply Hset. apply ep_mono_same; reflexivity.
  - eapply Hbind; exact H.
  - eapply Hbind; exact H.
  - eapply Hbind; exact H.
  - eapply Hbind; exact H.
Qed.

Lemma net_run_mono st evs st' : net_run st evs = Ok st' -> net_mono st st'.
Proof.
  revert st. induction evs as [|ev evs IH]; intros st Hr; cbn [net_run] in Hr.
  - inversion Hr; subst. intros y. apply ep_mono_refl.
  - destruct (net_step st ev) as [st1| |] eqn:E; cbn [obind] in Hr; try discriminate.
    intros y. eapply ep_mono_trans; [apply (net_step_mono _ _ _ E) | apply (IH _ Hr)].
Qed.
