(* Property C03 (Interface::poll returns): instantiation of the shared-environment egress loop
   (Model/EgressLoop.v, Proofs/EgressLoopProofs.v) for sets of UDP / ICMP / raw sockets of the datagram
   model (Model/Dgram.v).  The environment is arbitrary: an oracle [decide] reads it (device budget,
   neighbor cache, fragmenter ...) and fixes the result code of the emit closure for this dispatch
   (EMIT_OK / EMIT_EXHAUSTED / EMIT_DISPATCH) and the next environment.  Measure: number of datagrams
   in the transmit queue; invariant: [sock_wf].  Uses only [dispatch_step] of Proofs/DgramProofs.v. *)
From SV Require Import Lib.Base Gen.Consts Model.DgramQueue Model.Dgram Proofs.DgramProofs
                       Model.EgressLoop Proofs.EgressLoopProofs.

Section DgramLoop.
  Variable E : Type.
  Variable ev : env.
  Variable decide : E -> sock -> Z * E.
  Variable pre : E -> E.

  (* one socket's turn in socket_egress *)
  Definition dg_dispatch (e : E) (s : sock) : E * sock * dres :=
    let '(code, e') := decide e s in
    match sock_dispatch ev s (log_emit code) None with
    | Ok (s', em, c) =>
        (e', s', match em with
                 | None => RSilent                               (* nothing queued, or datagram dropped *)
                 | Some _ => if c =? EMIT_OK then RSent
                             else if c =? EMIT_EXHAUSTED then RExhausted else RSilent
                 end)
    | _ => (e', s, RSilent)                                      (* excluded by dispatch_step *)
    end.

  Definition dg_mu (s : sock) : nat := length (tx_pending s).

  Lemma dg_inv_step : forall e s e' s' r, sock_wf s -> dg_dispatch e s = (e', s', r) -> sock_wf s'.
  Proof.
    intros e s e' s' r W H. unfold dg_dispatch in H.
    destruct (decide e s) as (code, e1).
    destruct (dispatch_step ev s code W) as (s2 & em & c & Hd & W2 & _).
    rewrite Hd in H. inversion H; subst. exact W2.
  Qed.

  Lemma dg_mu_sent : forall e s e' s', sock_wf s -> dg_dispatch e s = (e', s', RSent) ->
    (dg_mu s' < dg_mu s)%nat.
  Proof.
    intros e s e' s' W H. unfold dg_dispatch in H.
    destruct (decide e s) as (code, e1).
    destruct (dispatch_step ev s code W) as (s2 & em & c & Hd & _ & R).
    rewrite Hd in H. cbn [step_rel] in R. destruct R as (_ & R).
    unfold dg_mu.
    destruct em as [p|]; [|inversion H].
    destruct (c =? EMIT_OK) eqn:Hc; [|destruct (c =? EMIT_EXHAUSTED); inversion H].
    inversion H; subst; clear H.
    destruct (tx_pending s) as [|(h, d) rest]; [destruct R as (_ & R & _); discriminate|].
    destruct R as (_ & R).
    destruct (sock_prepare ev s h d).
    - destruct R as (_ & Hcode & Ht). subst c. unfold EMIT_OK in Hc. rewrite Hc in Ht. rewrite Ht. cbn [length]. lia.
    - destruct R as (R & _). discriminate.
  Qed.

  Lemma dg_mu_else : forall e s e' s' r, sock_wf s -> dg_dispatch e s = (e', s', r) -> r <> RSent ->
    (dg_mu s' <= dg_mu s)%nat.
  Proof.
    intros e s e' s' r W H _. unfold dg_dispatch in H.
    destruct (decide e s) as (code, e1).
    destruct (dispatch_step ev s code W) as (s2 & em & c & Hd & _ & R).
    rewrite Hd in H. cbn [step_rel] in R. destruct R as (_ & R).
    inversion H; subst; clear H. unfold dg_mu.
    destruct (tx_pending s) as [|(h, d) rest].
    - destruct R as (_ & _ & _ & Ht). rewrite Ht. cbn. lia.
    - destruct R as (_ & R). destruct (sock_prepare ev s h d).
      + destruct R as (_ & _ & Ht). rewrite Ht. destruct (code =? 0); cbn [length]; lia.
      + destruct R as (_ & _ & Ht). rewrite Ht. cbn [length]. lia.
  Qed.

  (* Interface::poll's egress loop over ANY set of datagram sockets, any environment: returns after at
     most (number of queued datagrams) emitting passes. *)
  Theorem dgram_socket_set_egress_returns : forall fuel e ss,
    Forall sock_wf ss -> (total2 sock dg_mu ss < fuel)%nat ->
    exists e' r n, poll_loop2 E sock dg_dispatch pre fuel e ss = Some (e', r, n) /\
                   (n + total2 sock dg_mu r <= total2 sock dg_mu ss)%nat /\
                   length r = length ss /\ Forall sock_wf r.
  Proof.
    intros fuel e ss HI Hf.
    exact (poll_loop2_returns E sock dg_dispatch pre sock_wf dg_mu dg_inv_step dg_mu_sent dg_mu_else
             fuel e ss HI Hf).
  Qed.
End DgramLoop.
