(* C02 (liveness half): one more fact of qstatic derived - "no ACK owed -> the last ACK sent is RCV.NXT", for both sockets
   of the regime (Proofs/TcpProgressRla.v, RlaNet.v) - and the compositions with qregime4 = zx_zwp and, in the drained
   states, qstatic4: for both sockets no fast retransmit pending, the timer idle, a delayed-ACK timer only while an ACK
   is owed. *)
From SV Require Import Lib.Base Gen.Consts.
From SV Require Import Model.Seq32 Model.Assembler Model.TcpBuf Model.TcpTypes Model.Tcp Model.TcpNet.
From SV Require Import Proofs.TcpSendBase Proofs.TcpLiveBase Proofs.TcpLiveProofs Proofs.TcpLiveMore
  Proofs.TcpLiveProgress.
From SV Require Import Proofs.TcpNetBase.
From SV Require Proofs.TcpNetInv.
From SV Require Import Proofs.TcpProgressBase Proofs.TcpProgressFrame Proofs.TcpProgressCtl Proofs.TcpProgressRecv
  Proofs.TcpProgressSend Proofs.TcpProgressNet Proofs.TcpProgressData Proofs.TcpProgressAck
  Proofs.TcpProgressAll Proofs.TcpProgressSafe Proofs.TcpProgressHs Proofs.TcpProgressHsD
  Proofs.TcpProgressHsNet Proofs.TcpProgressHsInit Proofs.TcpProgressHsLive Proofs.TcpProgressHsLive2
  Proofs.TcpProgressZwp Proofs.TcpProgressExample Proofs.TcpProgressWitness Proofs.TcpProgressSafeWitness Proofs.TcpProgressZwDup
  Proofs.TcpProgressZw1 Proofs.TcpProgressZw1b Proofs.TcpProgressZw2 Proofs.TcpProgressZw3 Proofs.TcpProgressZwWitness
  Proofs.TcpProgressZw4 Proofs.TcpProgressZw5 Proofs.TcpProgressZw6 Proofs.TcpProgressZw7
  Proofs.TcpProgressCl1 Proofs.TcpProgressCl2 Proofs.TcpProgressCl3 Proofs.TcpProgressCl4 Proofs.TcpProgressCl5
  Proofs.TcpProgressCl6 Proofs.TcpProgressCl7 Proofs.TcpProgressCl8 Proofs.TcpProgressCl9
  Proofs.TcpProgressCl10 Proofs.TcpProgressCl11 Proofs.TcpProgressCl12 Proofs.TcpProgressCl13
  Proofs.TcpProgressHsRtx Proofs.TcpProgressHsAll Proofs.TcpProgressHsSrv1 Proofs.TcpProgressHsSrv2
  Proofs.TcpProgressCl15 Proofs.TcpProgressCap Proofs.TcpProgressCapNet
  Proofs.TcpProgressCl19 Proofs.TcpProgressSynWin Proofs.TcpProgressSynWinNet Proofs.TcpProgressSr Proofs.TcpProgressSrNet Proofs.TcpProgressCl21 Proofs.TcpProgressCl22
  Proofs.TcpProgressAdt Proofs.TcpProgressAdtNet Proofs.TcpProgressCl24
  Proofs.TcpProgressRla Proofs.TcpProgressRlaNet.

Module NV := TcpNetInv.
Notation sz st z := (net_sock st z).

(* qstatic3 without "no ACK owed -> the last ACK sent is RCV.NXT" *)
Definition qstatic4 (st : net) : Prop :=
  forall z, s_pending_fast_retransmit (sz st z) = false /\
            s_timer (sz st z) = TIdle None /\
            (s_ack_delay_timer (sz st z) = ADIdle \/ tcp_ack_to_transmit (sz st z) = true).

Definition qregime4 (st : net) : Prop := zx_zwp st /\ (drained st -> qstatic4 st).

Lemma qregime_weaken4 st : qregime3 st -> qregime4 st.
Proof.
  intros (Hz & Hq). split; [exact Hz|]. intros HD z. destruct (Hq HD z) as (A & B & C & _). auto.
Qed.

Definition G (Dack : Z) (st : net) : Prop := NI st /\ reg SA Dack st /\ inv_at SA st.

Lemma qregime_strengthen4 Dack st : (G Dack st /\ arla st) /\ qregime4 st -> qregime3 st.
Proof.
  intros (((HN & HG & HI) & Ha) & Hz & Hq). split; [exact Hz|]. intros HD z. destruct (Hq HD z) as (A & B & C).
  split; [exact A|]. split; [exact B|]. split; [exact C|]. exact (reg_rla Dack st z HN HG HI Ha).
Qed.

Lemma G_run Dack : forall evs st st',
  reach st -> NI st -> opts_ok st -> reg SA Dack st ->
  Forall (script_ev SA) evs -> net_run st evs = Ok st' -> NV.small st' ->
  run_all (G Dack) st evs.
Proof.
  induction evs as [|ev r IH]; intros st st' Hre HN Ho HG Hsc Hr Hsm.
  - cbn [net_run] in Hr. inversion Hr; subst. cbn [run_all].
    split; [|exact I]. split; [exact HN|]. split; [exact HG|].
    exact (reach_inv_at SA st' Hre Hsm (rg_closed SA Dack st' HG)).
  - cbn [net_run] in Hr. apply obind_ok in Hr. destruct Hr as (st1 & Hs & Hr).
    inversion Hsc as [|? ? Hsc1 Hsc2]; subst.
    pose proof (net_run_mono _ _ _ Hr) as Hm1. pose proof (net_step_mono _ _ _ Hs) as Hm0.
    assert (Hsm1 : NV.small st1) by exact (NV.small_mono _ _ Hm1 Hsm).
    assert (Hsm0 : NV.small st) by exact (NV.small_mono _ _ Hm0 Hsm1).
    pose proof (reach_inv_at SA st Hre Hsm0 (rg_closed SA Dack st HG)) as HI.
    pose proof (reach_step _ _ _ Hre Hs) as Hre1. pose proof (NI_step _ _ _ HN Hs) as HN1.
    pose proof (opts_step _ _ _ Ho Hs) as Ho1.
    pose proof (closed_step SA _ _ _ Hsc1 Hs (rg_closed SA Dack st HG)) as Hcl1.
    pose proof (reach_inv_at SA st1 Hre1 Hsm1 Hcl1) as HI1.
    pose proof (reg_step SA Dack _ _ _ HN Ho HG HI HI1 Hsc1 Hs) as HG1.
    cbn [run_all]. rewrite Hs. split; [split; [exact HN|]; split; assumption|].
    exact (IH st1 st' Hre1 HN1 Ho1 HG1 Hsc2 Hr Hsm).
Qed.

(* from the regime at the start of the quiet part *)
Lemma run_all_g4 Dack ca cb st0 : start_ok Dack ca cb st0 ->
  forall pre stD evsQ stQ,
  net_run st0 pre = Ok stD -> Forall (script_ev SA) pre -> reg SA Dack stD -> opts_ok stD ->
  Forall qev evsQ -> net_run stD evsQ = Ok stQ -> NV.small stQ ->
  run_all qregime4 stD evsQ -> run_all qregime3 stD evsQ.
Proof.
  intros Hstart pre stD evsQ stQ Hpre Hscp HG Ho HEQ HrQ HsmQ HqQ.
  pose proof Hstart as (Hi & _ & Ga & Gb & _).
  assert (Hre : reach stD) by (exists ca, cb, st0, pre; auto).
  pose proof (G_run Dack evsQ stD stQ Hre (reach_NI _ Hre) Ho HG (qev_script_all _ HEQ) HrQ HsmQ) as HGall.
  pose proof (arla_from_net_init Dack ca cb st0 Hstart pre stD evsQ stQ Hpre Hscp (qev_script_all _ HEQ) HrQ HsmQ) as Hal.
  apply (run_all_impl (fun s => (G Dack s /\ arla s) /\ qregime4 s)); [exact (qregime_strengthen4 Dack)|].
  exact (run_all_and _ _ evsQ stD (run_all_and _ _ evsQ stD HGall Hal) HqQ).
Qed.

Theorem transfer_quiesce_close_from_net_init_min3 Dt Da Dack ca cb st0 (n : nat) :
  forall evsD evsQ evs1 evs2 stD stQ stC st_m st',
  start_ok Dack ca cb st0 -> cfg_rx ca cb -> 2 * Dt < tcp_RTTE_MIN_RTO * 1000 -> 0 <= Dack ->
  reliable_schedule Dt Da st0 (evsD ++ evsQ ++ NClose SA :: evs1 ++ NClose SB :: evs2) ->
  Forall (app_ev SA) evsD -> net_run st0 evsD = Ok stD ->
  net_now st0 SA + 3 * Dt < net_now stD SA ->
  Forall qev evsQ -> net_run stD evsQ = Ok stQ ->
  (forall z, l_len (ep_written (net_get stQ z)) < 2 ^ 30) ->
  run_all qregime4 stD evsQ ->
  (l_len (ep_written (net_get stD SA)) - una_off (net_get stD SA)) +
  (l_len (ep_written (net_get stD SA)) - read_off (net_get stD SB)) <= Z.of_nat n ->
  net_now stD SA + Z.of_nat n * Wz Dt Da + 2 * Dt + Dack < net_now stQ SA ->
  net_step stQ (NClose SA) = Ok stC ->
  Forall (cl_ev SA false) evs1 -> net_run stC evs1 = Ok st_m -> net_now stQ SA + 2 * Dt < net_now st_m SA ->
  net_run st_m (NClose SB :: evs2) = Ok st' ->
  net_now st_m SA + 3 * Dt + tcp_CLOSE_DELAY < net_now st' SA ->
  (exists p1 p2 sta,
     evsQ = p1 ++ p2 /\ net_run stD p1 = Ok sta /\ net_run sta p2 = Ok stQ /\
     una_off (net_get sta SA) = l_len (ep_written (net_get stD SA)) /\
     read_off (net_get sta SB) = l_len (ep_written (net_get stD SA))) /\
  (exists pre post st_c,
     evs2 = pre ++ post /\ net_run st_m (NClose SB :: pre) = Ok st_c /\ net_run st_c post = Ok st' /\
     both_closed st_c).
Proof.
  intros evsD evsQ evs1 evs2 stD stQ stC st_m st' Hstart Hcfg HDt2 HDack Hrel HappD HrD HlD HEQ HrQ Hsz HqQ.
  assert (HsmQ : NV.small stQ).
  { split; [specialize (Hsz SA) | specialize (Hsz SB)]; cbn [net_get] in Hsz; change (2 ^ 30) with 1073741824 in Hsz; lia. }
  assert (HsmD : NV.small stD) by exact (NV.small_mono _ _ (net_run_mono _ _ _ HrQ) HsmQ).
  pose proof Hrel as ((HDt & HDa & Ho0 & Hfall) & Hoall).
  assert (HfsD : fair_schedule Dt Da st0 evsD).
  { destruct (fair_run_app Dt Da evsD _ _ st0 stD HrD Hfall) as (X & _). split; [exact HDt|]. split; [exact HDa|]. split; assumption. }
  destruct (handshake_completes_cfg Dt Da Dack ca cb st0 Hstart Hcfg evsD stD HfsD HappD HrD HsmD HlD)
    as (h1 & h2 & fa1 & sth & EH & Hh1 & Hh2 & HG & Hre & Hoh & _).
  assert (Hsc2 : Forall (script_ev SA) h2).
  { pose proof (app_script_all _ HappD) as X. rewrite EH in X. apply Forall_app in X. exact (proj2 X). }
  pose proof (reg_run_all SA Dack h2 sth stD Hre (reach_NI _ Hre) Hoh HG Hsc2 Hh2 HsmD) as HGall.
  pose proof (run_all_end _ _ _ _ HGall Hh2) as HGD.
  exact (transfer_quiesce_close_from_net_init_min2 Dt Da Dack ca cb st0 n evsD evsQ evs1 evs2 stD stQ stC st_m st' Hstart Hcfg HDt2 HDack
           Hrel HappD HrD HlD HEQ HrQ Hsz
           (run_all_g4 Dack ca cb st0 Hstart evsD stD evsQ stQ HrD (app_script_all _ HappD) HGD (opts_run _ _ _ Ho0 HrD) HEQ HrQ HsmQ HqQ)).
Qed.

Theorem handshake_quiesce_close_after_fault_prefix_min3 Dt Da Dack ca cb st0 (n : nat) :
  forall pre st evsH evsQ evs1 evs2 stD stQ stC st_m st',
  start_ok Dack ca cb st0 -> cfg_rx ca cb -> 2 * Dt < tcp_RTTE_MIN_RTO * 1000 -> 0 <= Dack ->
  (* the fault prefix: the SYN or the SYN|ACK lost, duplicated, late - A is still in SYN-SENT *)
  net_run st0 pre = Ok st -> Forall (script_ev SA) pre ->
  s_state (net_sock st SA) = SynSent ->
  reliable_schedule Dt Da st (evsH ++ evsQ ++ NClose SA :: evs1 ++ NClose SB :: evs2) ->
  (* the handshake completes; A writes, B reads *)
  Forall (app_ev SA) evsH -> net_run st evsH = Ok stD ->
  net_now st SA + max_rto_us + 3 * Dt < net_now stD SA ->
  (* the applications neither write nor close *)
  Forall qev evsQ -> net_run stD evsQ = Ok stQ ->
  (forall z, l_len (ep_written (net_get stQ z)) < 2 ^ 30) ->
  run_all qregime4 stD evsQ ->
  (l_len (ep_written (net_get stD SA)) - una_off (net_get stD SA)) +
  (l_len (ep_written (net_get stD SA)) - read_off (net_get stD SB)) <= Z.of_nat n ->
  net_now stD SA + Z.of_nat n * Wz Dt Da + 2 * Dt + Dack < net_now stQ SA ->
  (* A closes; B closes in CLOSE-WAIT *)
  net_step stQ (NClose SA) = Ok stC ->
  Forall (cl_ev SA false) evs1 -> net_run stC evs1 = Ok st_m -> net_now stQ SA + 2 * Dt < net_now st_m SA ->
  net_run st_m (NClose SB :: evs2) = Ok st' ->
  net_now st_m SA + 3 * Dt + tcp_CLOSE_DELAY < net_now st' SA ->
  (exists h1 h2 sth,
     evsH = h1 ++ h2 /\ net_run st h1 = Ok sth /\ net_run sth h2 = Ok stD /\
     (forall z, s_state (net_sock sth z) = Established) /\
     net_now sth SA <= net_now st SA + max_rto_us + 3 * Dt) /\
  (exists p1 p2 sta,
     evsQ = p1 ++ p2 /\ net_run stD p1 = Ok sta /\ net_run sta p2 = Ok stQ /\
     una_off (net_get sta SA) = l_len (ep_written (net_get stD SA)) /\
     read_off (net_get sta SB) = l_len (ep_written (net_get stD SA))) /\
  (exists pre2 post st_c,
     evs2 = pre2 ++ post /\ net_run st_m (NClose SB :: pre2) = Ok st_c /\ net_run st_c post = Ok st' /\
     both_closed st_c).
Proof.
  intros pre st evsH evsQ evs1 evs2 stD stQ stC st_m st' Hstart Hcfg HDt2 HDack Hpre Hscp Hsa Hrel HappH HrH HlH HEQ HrQ Hsz HqQ.
  assert (HsmQ : NV.small stQ).
  { split; [specialize (Hsz SA) | specialize (Hsz SB)]; cbn [net_get] in Hsz; change (2 ^ 30) with 1073741824 in Hsz; lia. }
  assert (HsmD : NV.small stD) by exact (NV.small_mono _ _ (net_run_mono _ _ _ HrQ) HsmQ).
  pose proof Hrel as ((HDt & HDa & Ho0 & Hfall) & Hoall).
  assert (HfsH : fair_schedule Dt Da st evsH).
  { destruct (fair_run_app Dt Da evsH _ _ st stD HrH Hfall) as (X & _). split; [exact HDt|]. split; [exact HDa|]. split; assumption. }
  destruct (handshake_completes_after_loss_cfg Dt Da Dack ca cb st0 Hstart Hcfg pre st evsH stD Hpre Hscp Hsa HfsH HappH HrH HsmD HlH)
    as (h1 & h2 & fa1 & sth & EH & Hh1 & Hh2 & HG & Hre & Hoh & _).
  assert (Hsc2 : Forall (script_ev SA) h2).
  { pose proof (app_script_all _ HappH) as X. rewrite EH in X. apply Forall_app in X. exact (proj2 X). }
  pose proof (reg_run_all SA Dack h2 sth stD Hre (reach_NI _ Hre) Hoh HG Hsc2 Hh2 HsmD) as HGall.
  pose proof (run_all_end _ _ _ _ HGall Hh2) as HGD.
  assert (Hsc : Forall (script_ev SA) (pre ++ evsH)) by (apply Forall_app; split; [exact Hscp | exact (app_script_all _ HappH)]).
  exact (handshake_quiesce_close_after_fault_prefix_min2 Dt Da Dack ca cb st0 n pre st evsH evsQ evs1 evs2 stD stQ stC st_m st' Hstart Hcfg
           HDt2 HDack Hpre Hscp Hsa Hrel HappH HrH HlH HEQ HrQ Hsz
           (run_all_g4 Dack ca cb st0 Hstart (pre ++ evsH) stD evsQ stQ (net_run_app pre evsH st0 st stD Hpre HrH) Hsc HGD
              (opts_run _ _ _ Ho0 HrH) HEQ HrQ HsmQ HqQ)).
Qed.

Theorem server_quiesce_close_after_fault_prefix_min3 Dt Da Dack ca cb st0 (n : nat) :
  forall pre st evsH evsQ evs1 evs2 stD stQ stC st_m st',
  start_ok Dack ca cb st0 -> cfg_rx ca cb -> 2 * Dt < tcp_RTTE_MIN_RTO * 1000 -> 0 <= Dack ->
  (* the fault prefix: everything A transmitted since its SYN is lost *)
  net_run st0 pre = Ok st -> Forall (script_ev SA) pre ->
  s_state (net_sock st SA) = Established -> s_state (net_sock st SB) = SynReceived ->
  fresh (cx_isn (ep_cx (n_a st0))) st ->
  reliable_schedule Dt Da st (evsH ++ evsQ ++ NClose SA :: evs1 ++ NClose SB :: evs2) ->
  (* the handshake completes; A writes, B reads *)
  Forall (app_ev SA) evsH -> net_run st evsH = Ok stD ->
  Z.max (net_now st SA) (cA st) + max_rto_us + 2 * Dt < net_now stD SA ->
  (* the applications neither write nor close *)
  Forall qev evsQ -> net_run stD evsQ = Ok stQ ->
  (forall z, l_len (ep_written (net_get stQ z)) < 2 ^ 30) ->
  run_all qregime4 stD evsQ ->
  (l_len (ep_written (net_get stD SA)) - una_off (net_get stD SA)) +
  (l_len (ep_written (net_get stD SA)) - read_off (net_get stD SB)) <= Z.of_nat n ->
  net_now stD SA + Z.of_nat n * Wz Dt Da + 2 * Dt + Dack < net_now stQ SA ->
  (* A closes; B closes in CLOSE-WAIT *)
  net_step stQ (NClose SA) = Ok stC ->
  Forall (cl_ev SA false) evs1 -> net_run stC evs1 = Ok st_m -> net_now stQ SA + 2 * Dt < net_now st_m SA ->
  net_run st_m (NClose SB :: evs2) = Ok st' ->
  net_now st_m SA + 3 * Dt + tcp_CLOSE_DELAY < net_now st' SA ->
  (exists h1 h2 sth,
     evsH = h1 ++ h2 /\ net_run st h1 = Ok sth /\ net_run sth h2 = Ok stD /\
     (forall z, s_state (net_sock sth z) = Established) /\
     net_now sth SA <= Z.max (net_now st SA) (cA st) + max_rto_us + 2 * Dt) /\
  (exists p1 p2 sta,
     evsQ = p1 ++ p2 /\ net_run stD p1 = Ok sta /\ net_run sta p2 = Ok stQ /\
     una_off (net_get sta SA) = l_len (ep_written (net_get stD SA)) /\
     read_off (net_get sta SB) = l_len (ep_written (net_get stD SA))) /\
  (exists pre2 post st_c,
     evs2 = pre2 ++ post /\ net_run st_m (NClose SB :: pre2) = Ok st_c /\ net_run st_c post = Ok st' /\
     both_closed st_c).
Proof.
  intros pre st evsH evsQ evs1 evs2 stD stQ stC st_m st' Hstart Hcfg HDt2 HDack Hpre Hscp Hsa Hsb Hfr Hrel HappH HrH HlH HEQ HrQ Hsz HqQ.
  assert (HsmQ : NV.small stQ).
  { split; [specialize (Hsz SA) | specialize (Hsz SB)]; cbn [net_get] in Hsz; change (2 ^ 30) with 1073741824 in Hsz; lia. }
  assert (HsmD : NV.small stD) by exact (NV.small_mono _ _ (net_run_mono _ _ _ HrQ) HsmQ).
  pose proof Hrel as ((HDt & HDa & Ho0 & Hfall) & Hoall).
  assert (HfsH : fair_schedule Dt Da st evsH).
  { destruct (fair_run_app Dt Da evsH _ _ st stD HrH Hfall) as (X & _). split; [exact HDt|]. split; [exact HDa|]. split; assumption. }
  destruct (server_established_after_ack_loss_cfg Dt Da Dack ca cb st0 Hstart Hcfg pre st evsH stD Hpre Hscp Hsa Hsb Hfr HfsH HappH HrH HsmD HlH)
    as (h1 & h2 & fa1 & sth & EH & Hh1 & Hh2 & HG & Hre & Hoh & _).
  assert (Hsc2 : Forall (script_ev SA) h2).
  { pose proof (app_script_all _ HappH) as X. rewrite EH in X. apply Forall_app in X. exact (proj2 X). }
  pose proof (reg_run_all SA Dack h2 sth stD Hre (reach_NI _ Hre) Hoh HG Hsc2 Hh2 HsmD) as HGall.
  pose proof (run_all_end _ _ _ _ HGall Hh2) as HGD.
  assert (Hsc : Forall (script_ev SA) (pre ++ evsH)) by (apply Forall_app; split; [exact Hscp | exact (app_script_all _ HappH)]).
  exact (server_quiesce_close_after_fault_prefix_min2 Dt Da Dack ca cb st0 n pre st evsH evsQ evs1 evs2 stD stQ stC st_m st' Hstart Hcfg
           HDt2 HDack Hpre Hscp Hsa Hsb Hfr Hrel HappH HrH HlH HEQ HrQ Hsz
           (run_all_g4 Dack ca cb st0 Hstart (pre ++ evsH) stD evsQ stQ (net_run_app pre evsH st0 st stD Hpre HrH) Hsc HGD
              (opts_run _ _ _ Ho0 HrH) HEQ HrQ HsmQ HqQ)).
Qed.

Theorem quiesce_close_after_fault_prefix_min3 Dt Da Dack ca cb st0 (n : nat) :
  forall pre st evsD evsQ evs1 evs2 stD stQ stC st_m st',
  start_ok Dack ca cb st0 -> cfg_rx ca cb -> 2 * Dt < tcp_RTTE_MIN_RTO * 1000 -> 0 <= Dack ->
  (* the fault prefix: any run of the one-way workload - drops, duplicates, reordering, any clock - that ends
     with both sockets ESTABLISHED *)
  net_run st0 pre = Ok st -> Forall (script_ev SA) pre ->
  (forall z, s_state (net_sock st z) = Established) ->
  (* from there on delivery is reliable *)
  reliable_schedule Dt Da st (evsD ++ evsQ ++ NClose SA :: evs1 ++ NClose SB :: evs2) ->
  (* A may go on writing, B reads *)
  Forall (app_ev SA) evsD -> net_run st evsD = Ok stD ->
  (* the applications neither write nor close *)
  Forall qev evsQ -> net_run stD evsQ = Ok stQ ->
  (forall z, l_len (ep_written (net_get stQ z)) < 2 ^ 30) ->
  run_all qregime4 stD evsQ ->
  (l_len (ep_written (net_get stD SA)) - una_off (net_get stD SA)) +
  (l_len (ep_written (net_get stD SA)) - read_off (net_get stD SB)) <= Z.of_nat n ->
  net_now stD SA + Z.of_nat n * Wz Dt Da + 2 * Dt + Dack < net_now stQ SA ->
  (* A closes; B closes in CLOSE-WAIT *)
  net_step stQ (NClose SA) = Ok stC ->
  Forall (cl_ev SA false) evs1 -> net_run stC evs1 = Ok st_m -> net_now stQ SA + 2 * Dt < net_now st_m SA ->
  net_run st_m (NClose SB :: evs2) = Ok st' ->
  net_now st_m SA + 3 * Dt + tcp_CLOSE_DELAY < net_now st' SA ->
  (exists p1 p2 sta,
     evsQ = p1 ++ p2 /\ net_run stD p1 = Ok sta /\ net_run sta p2 = Ok stQ /\
     una_off (net_get sta SA) = l_len (ep_written (net_get stD SA)) /\
     read_off (net_get sta SB) = l_len (ep_written (net_get stD SA))) /\
  (exists pre2 post st_c,
     evs2 = pre2 ++ post /\ net_run st_m (NClose SB :: pre2) = Ok st_c /\ net_run st_c post = Ok st' /\
     both_closed st_c).
Proof.
  intros pre st evsD evsQ evs1 evs2 stD stQ stC st_m st' Hstart Hcfg HDt2 HDack Hpre Hscp Hest Hrel HappD HrD HEQ HrQ Hsz HqQ.
  assert (HsmQ : NV.small stQ).
  { split; [specialize (Hsz SA) | specialize (Hsz SB)]; cbn [net_get] in Hsz; change (2 ^ 30) with 1073741824 in Hsz; lia. }
  assert (HsmD : NV.small stD) by exact (NV.small_mono _ _ (net_run_mono _ _ _ HrQ) HsmQ).
  pose proof Hrel as ((HDt & HDa & Ho0 & Hfall) & Hoall).
  pose proof Hstart as (Hi & Hst0 & Ga & Gb & Pa & Pb & Haddr & Hdel).
  assert (Hsm : NV.small st) by exact (NV.small_mono _ _ (net_run_mono _ _ _ HrD) HsmD).
  destruct (hs_init ca cb st0 (cx_isn (ep_cx (n_a st0))) Dack Hi Hst0 Pa Pb Haddr Hdel) as (HP0 & Ho00).
  destruct (hs_run Dack ca cb st0 Hstart pre [] st0 st eq_refl (or_introl HP0) Ho00 Hscp Hpre Hsm) as (Hinv & _).
  assert (HG : reg SA Dack st).
  { destruct Hinv as [HP | HG]; [|exact HG]. exfalso.
    destruct (ph_phase _ _ _ HP) as [(_ & [B | B]) | (_ & B)]; rewrite (Hest SB) in B; discriminate. }
  assert (Hre : reach st) by (exists ca, cb, st0, pre; auto).
  pose proof (reg_run_all SA Dack evsD st stD Hre (reach_NI _ Hre) Ho0 HG (app_script_all _ HappD) HrD HsmD) as HGall.
  pose proof (run_all_end _ _ _ _ HGall HrD) as HGD.
  assert (Hsc : Forall (script_ev SA) (pre ++ evsD)) by (apply Forall_app; split; [exact Hscp | exact (app_script_all _ HappD)]).
  exact (quiesce_close_after_fault_prefix_min2 Dt Da Dack ca cb st0 n pre st evsD evsQ evs1 evs2 stD stQ stC st_m st' Hstart Hcfg
           HDt2 HDack Hpre Hscp Hest Hrel HappD HrD HEQ HrQ Hsz
           (run_all_g4 Dack ca cb st0 Hstart (pre ++ evsD) stD evsQ stQ (net_run_app pre evsD st0 st stD Hpre HrD) Hsc HGD
              (opts_run _ _ _ Ho0 HrD) HEQ HrQ HsmQ HqQ)).
Qed.
