(* C01, layer 0b: model-level frame facts about Model/Tcp.v's [tcp_step] that the composition
   needs and that neither C04's receive view nor C05's send view talks about:
   - the listen endpoint is only changed by listen()/reset(), and the only way back to LISTEN is a
     RST in SYN-RECEIVED of a socket that was listening ([le_step], [to_listen]);
   - a CLOSED socket stays CLOSED and emits only RSTs ([closed_step]).
   The events of the system model's runs are [run_ev]: segment, dispatch, send, recv, close. *)
From SV Require Import Lib.Base Gen.Consts.
From SV Require Import Model.Seq32 Model.Assembler Model.TcpBuf Model.TcpTypes Model.Tcp.
From SV Require Import Proofs.AssemblerProofs Proofs.TcpRecvBase Proofs.TcpRecvWindow
  Proofs.TcpRecvPayload Proofs.TcpRecvInv Proofs.TcpRecvProcess.

Definition run_ev (ev : event) : Prop :=
  match ev with
  | EvSegment _ _ | EvDispatch _ | EvSend _ | EvRecv _ | EvClose => True
  | _ => False
  end.

(* same listen endpoint, same state *)
Definition tailf (s' s : socket) : Prop :=
  s_listen_endpoint s' = s_listen_endpoint s /\ s_state s' = s_state s.

Lemma tailf_refl s : tailf s s.
Proof. split; reflexivity. Qed.
Lemma tailf_trans a b c : tailf a b -> tailf b c -> tailf a c.
Proof. intros (H1 & H2) (H3 & H4). split; congruence. Qed.

Ltac tf := unfold tailf; rproj; split; reflexivity.

Lemma ack_reply_tailf cx s ip r : tailf (fst (tcp_ack_reply cx s ip r)) s.
Proof. unfold tcp_ack_reply. destruct (tcp_reply ip r) as (ip', reply). cbn [fst]. tf. Qed.

Lemma challenge_tailf cx s ip r : tailf (fst (tcp_challenge_ack_reply cx s ip r)) s.
Proof.
  unfold tcp_challenge_ack_reply. destruct (cx_now cx <? s_challenge_ack_timer s); [apply tailf_refl|].
  destruct (tcp_ack_reply cx (upd_challenge_ack_timer s (cx_now cx + 1000000)) ip r) as (s1, p) eqn:E.
  cbn [fst]. change s1 with (fst (s1, p)). rewrite <- E.
  eapply tailf_trans; [apply ack_reply_tailf|]. tf.
Qed.

Lemma ack_check_tailf cx s ip r t s1 rep :
  tcp_process_ack_check cx s ip r = Ok (Ret t s1 rep) -> tailf s1 s.
Proof.
  unfold tcp_process_ack_check. intros H. des_all H.
  all: try (apply obind_ok_inv in H; destruct H as (? & _ & H)).
  all: try (inversion H; subst; apply tailf_refl).
  all: match goal with
       | E : tcp_challenge_ack_reply ?cx ?s ?ip ?r = (_, _) |- _ =>
           inversion H; subst;
           pose proof (challenge_tailf cx s ip r) as Hc; rewrite E in Hc; exact Hc
       end.
Qed.

Lemma window_tailf cx s ip r res :
  tcp_process_window cx s ip r = Ok res ->
  match res with
  | Cont _ (s2, _, _) => tailf s2 s
  | Ret _ s1 _ => tailf s1 s
  end.
Proof.
  unfold tcp_process_window. intros H.
  destruct (s_state s) eqn:Est;
    try (inversion H; subst; apply tailf_refl).
  all: destruct (tcp_segment_in_window _ _ _ _) as (inw, tg);
       destruct inw;
       [ destruct (negb _); [discriminate|];
         repeat (apply obind_ok_inv in H; destruct H as (? & _ & H)); inversion H; subst; tf
       | destruct (control_eqb (r_control r) CRst); [inversion H; subst; apply tailf_refl|] ].
  all: match type of H with
       | context [if ?c then tcp_ack_reply _ ?s0 _ _ else tcp_challenge_ack_reply _ _ _ _] => idtac
       | _ => idtac
       end.
  all: match type of H with
       | (if ?c then _ else _) = _ => destruct c
       end.
  all: match type of H with
       | (let '(_, _) := tcp_ack_reply ?cx ?s0 ?ip ?r in _) = _ =>
           pose proof (ack_reply_tailf cx s0 ip r) as Hc;
           destruct (tcp_ack_reply cx s0 ip r) as (s9, p9); inversion H; subst;
           cbn [fst] in Hc; eapply tailf_trans; [exact Hc|]
       | (let '(_, _) := tcp_challenge_ack_reply ?cx ?s0 ?ip ?r in _) = _ =>
           pose proof (challenge_tailf cx s0 ip r) as Hc;
           destruct (tcp_challenge_ack_reply cx s0 ip r) as (s9, p9); inversion H; subst;
           cbn [fst] in Hc; eapply tailf_trans; [exact Hc|]
       end.
  all: try apply tailf_refl; try (rewrite Est; cbn [tcp_state_eqb]; apply tailf_refl);
       try (unfold tailf; destruct (tcp_state_eqb _ _); rproj; split; reflexivity).
Qed.

Lemma apply_mss_tailf s r : tailf (tcp_apply_mss s r) s.
Proof.
  unfold tcp_apply_mss. destruct (r_max_seg_size r) as [m|]; [destruct (m =? 0)|]; tf.
Qed.

Definition phase_sock (p : phase socket) : socket :=
  match p with Cont _ s => s | Ret _ s _ => s end.

(* the table: the listen endpoint is never touched; LISTEN is entered only from SYN-RECEIVED of a
   socket that was listening; CLOSED is never left *)
Lemma transition_le cx s ip r ctl al aof res :
  tcp_process_transition cx s ip r ctl al aof = Ok res ->
  s_listen_endpoint (phase_sock res) = s_listen_endpoint s /\
  (s_state (phase_sock res) = Listen ->
     s_state s = Listen \/ le_port (s_listen_endpoint s) <> 0).
Proof.
  intros H. unfold tcp_process_transition in H.
  pose proof (apply_mss_tailf s r) as (M1 & M2).
  destruct (s_state s) eqn:Est; destruct ctl; cbv beta iota in H; des_all H;
    inversion H; subst; clear H; cbn [phase_sock];
    unfold tcp_enter_time_wait, tcp_fin_received; rproj; rewrite ?M1.
  all: try (split; [reflexivity|]; intros E; first [discriminate E | left; reflexivity | (rewrite Est in E; discriminate E)]).
  all: try match goal with
       | E : tcp_challenge_ack_reply ?cx ?s0 ?ip ?r = (_, _) |- _ =>
           pose proof (challenge_tailf cx s0 ip r) as (C1 & C2); rewrite E in C1, C2; cbn [fst] in C1, C2;
           rewrite C1, C2; split; [reflexivity|]; intros E'; rewrite Est in E'; discriminate E'
       end.
  all: try (split; [reflexivity|]; intros _; right;
            match goal with
            | E : negb (_ =? 0) = true |- _ =>
                apply negb_true_iff in E; apply Z.eqb_neq in E; exact E
            end).
Qed.

(* ---- the phases after the table ---- *)
Lemma update_remote_tailf cx s r al s' iwu :
  tcp_process_update_remote cx s r al = Ok (s', iwu) -> tailf s' s.
Proof.
  unfold tcp_process_update_remote. intros H. des_all H.
  all: try (apply obind_ok_inv in H; destruct H as (tx & _ & H)).
  all: inversion H; subst; tf.
Qed.

Lemma dup_ack_tailf cx s r al iwu s' tg :
  tcp_process_dup_ack cx s r al iwu = Ok (s', tg) -> tailf s' s.
Proof.
  unfold tcp_process_dup_ack. intros H.
  destruct (r_ack_number r) as [a|]; [|inversion H; subst; apply tailf_refl].
  apply obind_ok_inv in H. destruct H as ((s1, tg1) & H1 & H).
  assert (Hf1 : tailf s1 s).
  { des1 H1.
    - repeat (apply obind_ok_inv in H1; destruct H1 as (? & _ & H1)).
      inversion H1; subst. des_all H1; tf.
    - repeat (apply obind_ok_inv in H1; destruct H1 as (? & _ & H1)).
      inversion H1; subst. des_all H1; tf. }
  cbv beta iota zeta in H.
  eapply tailf_trans; [|exact Hf1].
  des_all H; inversion H; subst; tf.
Qed.

Lemma timers_tailf cx s al aall : tailf (fst (tcp_process_timers cx s al aall)) s.
Proof.
  unfold tcp_process_timers. destruct (s_timer s); try destruct aall; try destruct (al >? 0);
    cbn [fst]; tf.
Qed.

Lemma zwp_tailf cx s al : tailf (fst (tcp_process_zwp cx s al)) s.
Proof.
  unfold tcp_process_zwp.
  repeat match goal with
  | |- context [if ?c then _ else _] => destruct c
  end; cbn [fst]; tf.
Qed.

Lemma payload_tailf cx s ip r payload off s' rep tg :
  tcp_process_payload cx s ip r payload off = Ok (s', rep, tg) -> tailf s' s.
Proof.
  unfold tcp_process_payload. intros H.
  destruct (l_len payload =? 0); [inversion H; subst; apply tailf_refl|].
  destruct (asm_atrf _ _ _ _) as (asm', res). destruct res as [cl|]; [|inversion H; subst; apply tailf_refl].
  destruct (rb_write_unallocated _ _ _) as (rx, lw). rproj.
  destruct (negb (lw =? l_len payload)); [discriminate|].
  apply obind_ok_inv in H. destruct H as (rx' & _ & H).
  match type of H with
  | (let '(_, _) := ?X in _) = _ => destruct X as (s9, tg9) eqn:E9
  end.
  assert (H9 : tailf s9 s).
  { des_all E9; inversion E9; subst; tf. }
  destruct (_ || _).
  - pose proof (ack_reply_tailf cx s9 ip r) as Hc.
    destruct (tcp_ack_reply cx s9 ip r) as (s10, p10). inversion H; subst. cbn [fst] in Hc.
    eapply tailf_trans; eassumption.
  - inversion H; subst. exact H9.
Qed.

(* ---- process as a whole ---- *)
Lemma process_le cx s ip r s' rep tags :
  tcp_process cx s ip r = Ok (s', rep, tags) ->
  s_listen_endpoint s' = s_listen_endpoint s /\
  (s_state s' = Listen -> s_state s = Listen \/ le_port (s_listen_endpoint s) <> 0).
Proof.
  intros H. unfold tcp_process in H. destruct (negb (tcp_accepts s ip r)); [discriminate|].
  apply obind_ok_inv in H. destruct H as (p1 & Hp1 & H).
  destruct p1 as [t1 []|t1 s1 rep1].
  2:{ inversion H; subst. destruct (ack_check_tailf _ _ _ _ _ _ _ Hp1) as (E1 & E2).
      split; [exact E1|]. intros E. left. congruence. }
  apply obind_ok_inv in H. destruct H as (p2 & Hp2 & H).
  pose proof (window_tailf _ _ _ _ _ Hp2) as Hw.
  destruct p2 as [t2 ((s2 & payload) & off)|t2 s2 rep2].
  2:{ inversion H; subst. destruct Hw as (E1 & E2). split; [exact E1|]. intros E. left. congruence. }
  destruct Hw as (W1 & W2).
  apply obind_ok_inv in H. destruct H as (((al & aof) & aall) & _ & H).
  apply obind_ok_inv in H. destruct H as (p3 & Hp3 & H).
  pose proof (transition_le _ _ _ _ _ _ _ _ Hp3) as (T1 & T2).
  destruct p3 as [t3 s3|t3 s3 rep3]; cbn [phase_sock] in T1, T2.
  2:{ inversion H; subst. split; [congruence|]. intros E. rewrite <- W1, <- W2. apply T2. exact E. }
  apply obind_ok_inv in H. destruct H as ((s4 & iwu) & H4 & H).
  apply obind_ok_inv in H. destruct H as ((s5 & t5) & H5 & H).
  cbv beta iota zeta in H.
  set (s5' := match r_timestamp r with Some (tsval, _) => upd_last_remote_tsval s5 tsval | None => s5 end) in *.
  assert (H5' : tailf s5' s5) by (unfold s5'; destruct (r_timestamp r) as [(a, b)|]; tf).
  pose proof (timers_tailf cx s5' al aall) as H6.
  destruct (tcp_process_timers cx s5' al aall) as (s6, t6). cbn [fst] in H6.
  pose proof (zwp_tailf cx s6 al) as H7.
  destruct (tcp_process_zwp cx s6 al) as (s7, t7). cbn [fst] in H7.
  apply obind_ok_inv in H. destruct H as (((s8 & rep8) & t8) & H8 & H).
  inversion H; subst; clear H.
  pose proof (payload_tailf _ _ _ _ _ _ _ _ _ H8) as H8'.
  pose proof (update_remote_tailf _ _ _ _ _ _ H4) as H4'.
  pose proof (dup_ack_tailf _ _ _ _ _ _ _ H5) as H5''.
  assert (Ht : tailf s' s3).
  { eapply tailf_trans; [exact H8'|]. eapply tailf_trans; [exact H7|]. eapply tailf_trans; [exact H6|].
    eapply tailf_trans; [exact H5'|]. eapply tailf_trans; [exact H5''|]. exact H4'. }
  destruct Ht as (E1 & E2). split; [congruence|].
  intros E. rewrite <- W1, <- W2. apply T2. congruence.
Qed.

Lemma ingress_le cx s ip r s' rep tags :
  iface_tcp_ingress cx s ip r = Ok (s', rep, tags) ->
  s_listen_endpoint s' = s_listen_endpoint s /\
  (s_state s' = Listen -> s_state s = Listen \/ le_port (s_listen_endpoint s) <> 0) /\
  (s_state s = Closed -> s' = s /\ match rep with Some p => r_control (snd p) = CRst | None => True end).
Proof.
  unfold iface_tcp_ingress. intros H.
  assert (Hsame : forall rp, (s, rp, tags) = (s', rep, tags) -> 
            s_listen_endpoint s' = s_listen_endpoint s /\
            (s_state s' = Listen -> s_state s = Listen \/ le_port (s_listen_endpoint s) <> 0)).
  { intros rp E. inversion E; subst. split; [reflexivity|]. intros E'. left. exact E'. }
  destruct (_ || _); [inversion H; subst; split; [reflexivity|]; split; [intros E; left; exact E|]; intros _; split; [reflexivity | exact I]|].
  destruct (_ || _); [inversion H; subst; split; [reflexivity|]; split; [intros E; left; exact E|]; intros _; split; [reflexivity | exact I]|].
  destruct (tcp_accepts s ip r) eqn:Ha.
  - destruct (process_le _ _ _ _ _ _ _ H) as (P1 & P2). split; [exact P1|]. split; [exact P2|].
    intros Ec. exfalso. unfold tcp_accepts in Ha. rewrite Ec in Ha. cbn in Ha. discriminate.
  - destruct (control_eqb (r_control r) CRst).
    + inversion H; subst. split; [reflexivity|]. split; [intros E; left; exact E|]. intros _. split; [reflexivity | exact I].
    + apply obind_ok_inv in H. destruct H as (p & Hp & H). inversion H; subst.
      split; [reflexivity|]. split; [intros E; left; exact E|]. intros _. split; [reflexivity|].
      eapply rst_reply_control. exact Hp.
Qed.

(* ---- dispatch ---- *)
(* same listen endpoint; the state is kept or becomes CLOSED *)
Definition dtf (s' s : socket) : Prop :=
  s_listen_endpoint s' = s_listen_endpoint s /\ (s_state s' = s_state s \/ s_state s' = Closed).

Lemma dtf_refl s : dtf s s.
Proof. split; [reflexivity | left; reflexivity]. Qed.
Lemma dtf_trans a b c : dtf a b -> dtf b c -> dtf a c.
Proof. intros (H1 & H2) (H3 & H4). split; [congruence|]. destruct H2 as [H2|H2]; [|right; exact H2].
  destruct H4 as [H4|H4]; [left | right]; congruence. Qed.
Lemma tailf_dtf a b : tailf a b -> dtf a b.
Proof. intros (H1 & H2). split; [exact H1 | left; exact H2]. Qed.

Ltac dt := unfold dtf; rproj; split; [reflexivity | first [left; reflexivity | right; reflexivity]].

Lemma dispatch_timers_dtf cx s s1 t : tcp_dispatch_timers cx s = Ok (s1, t) -> dtf s1 s.
Proof.
  unfold tcp_dispatch_timers. intros H.
  set (s0 := if is_some (s_remote_last_ts s) then s else upd_remote_last_ts s (Some (cx_now cx))) in *.
  assert (H0 : tailf s0 s) by (unfold s0; destruct (is_some _); [apply tailf_refl | tf]).
  eapply dtf_trans; [|apply tailf_dtf; exact H0].
  destruct (tcp_timed_out s0 (cx_now cx)); [inversion H; subst; dt|].
  destruct (timer_should_retransmit (s_timer s0) (cx_now cx)); [|inversion H; subst; apply dtf_refl].
  apply obind_ok_inv in H. destruct H as (fl & _ & H).
  destruct (s_timer s0); cbv beta iota zeta in H; des_all H; inversion H; subst; dt.
Qed.

Lemma dispatch_decide_dtf cx s s2 go t : tcp_dispatch_decide cx s = Ok (s2, go, t) -> dtf s2 s.
Proof.
  unfold tcp_dispatch_decide. intros H.
  apply obind_ok_inv in H. destruct H as (stt & _ & H).
  destruct stt; [inversion H; subst; apply dtf_refl|].
  destruct (_ && _); [inversion H; subst; apply dtf_refl|].
  apply obind_ok_inv in H. destruct H as (wtu & _ & H).
  des_all H; inversion H; subst; first [apply dtf_refl | dt].
Qed.

Lemma build_data_tailf cx s repr s' orepr zwp tg :
  tcp_dispatch_build_data cx s repr = Ok (s', orepr, zwp, tg) -> tailf s' s.
Proof.
  unfold tcp_dispatch_build_data. intros H.
  apply obind_ok_inv in H. destruct H as (ol & _ & H).
  apply obind_ok_inv in H. destruct H as (lm & _ & H).
  apply obind_ok_inv in H. destruct H as (((((s1 & r1) & o1) & z1) & t1) & H1 & H).
  cbv beta iota zeta in H. inversion H; subst; clear H.
  des1 H1.
  - inversion H1; subst. tf.
  - repeat (apply obind_ok_inv in H1; destruct H1 as (? & _ & H1)). inversion H1; subst. apply tailf_refl.
Qed.

Lemma dispatch_build_spec_le cx s t s' orepr zwp ka tg :
  tcp_dispatch_build cx s t = Ok (s', orepr, zwp, ka, tg) ->
  tailf s' s /\
  (s_state s = Closed -> forall repr, orepr = Some repr -> r_control repr = CRst).
Proof.
  unfold tcp_dispatch_build. intros H.
  apply obind_ok_inv in H. destruct H as ((((s1 & o1) & z1) & t1) & H1 & H).
  cbv beta iota zeta in H.
  assert (Hb : tailf s1 s /\
               (s_state s = Closed -> forall repr, o1 = Some repr -> r_control repr = CRst)).
  { destruct (s_state s) eqn:Est.
    2-11: split; [|discriminate].
    all: try (inversion H1; subst; apply tailf_refl).
    all: try (eapply build_data_tailf; exact H1).
    - inversion H1; subst. split; [apply tailf_refl|]. intros _ repr E. inversion E; subst. reflexivity.
    - destruct (s_syn_unacked_in_fin_wait s); [inversion H1; subst; apply tailf_refl|].
      eapply build_data_tailf; exact H1. }
  destruct Hb as (Hb1 & Hb2).
  destruct o1 as [repr1|]; [|inversion H; subst; split; [exact Hb1 | intros _ repr E; discriminate]].
  apply obind_ok_inv in H. destruct H as (repr3 & H3 & H). inversion H; subst; clear H.
  split; [exact Hb1|]. intros Ec repr E. inversion E; subst; clear E.
  specialize (Hb2 Ec repr1 eq_refl).
  rewrite Hb2 in H3. cbn [control_eqb] in H3. rewrite andb_false_r in H3.
  match type of H3 with
  | (if control_eqb (r_control ?R) CSyn then _ else _) = _ =>
      assert (Hc2 : r_control R = CRst)
  end.
  { match goal with |- r_control (if ?c then _ else _) = _ => destruct c end;
      [unfold repr_set_payload, repr_set_seq; cbn [r_control]|]; exact Hb2. }
  rewrite Hc2 in H3. cbn [control_eqb] in H3. inversion H3; subst. exact Hc2.
Qed.

Lemma dispatch_finish_tailf cx s repr zwp ka : tailf (fst (tcp_dispatch_finish cx s repr zwp ka)) s.
Proof.
  unfold tcp_dispatch_finish.
  repeat match goal with
  | |- context [if ?c then _ else _] => destruct c
  end; cbn [fst]; tf.
Qed.

Lemma dispatch_le cx s ok s' res tags :
  tcp_dispatch cx s ok = Ok (s', res, tags) ->
  (s' = tcp_reset s /\ res = DNothing) \/
  (dtf s' s /\
   (s_state s = Closed ->
      forall p, res = DSent p \/ res = DEmitFailed p -> r_control (snd p) = CRst)).
Proof.
  unfold tcp_dispatch. intros H.
  destruct (s_tuple s) as [t|]; [|inversion H; subst; right; split; [apply dtf_refl|]; intros _ p [E|E]; discriminate].
  destruct (negb (tu_local_addr t =? cx_addr cx)); [inversion H; subst; left; split; reflexivity|].
  right.
  apply obind_ok_inv in H. destruct H as ((s1 & t1) & H1 & H).
  apply obind_ok_inv in H. destruct H as (((s2 & go) & t2) & H2 & H).
  pose proof (dispatch_timers_dtf _ _ _ _ H1) as D1.
  pose proof (dispatch_decide_dtf _ _ _ _ _ H2) as D2.
  pose proof (dtf_trans _ _ _ D2 D1) as D12.
  destruct (negb go); [inversion H; subst; split; [exact D12|]; intros _ p [E|E]; discriminate|].
  apply obind_ok_inv in H. destruct H as (((((s3 & orepr) & zwp) & ka) & t3) & H3 & H).
  destruct (dispatch_build_spec_le _ _ _ _ _ _ _ _ H3) as (B1 & B2).
  pose proof (dtf_trans _ _ _ (tailf_dtf _ _ B1) D12) as D123.
  destruct orepr as [repr|]; [|inversion H; subst; split; [exact D123|]; intros _ p [E|E]; discriminate].
  assert (Hrst : s_state s = Closed -> r_control repr = CRst).
  { intros Ec. apply B2; [|reflexivity].
    destruct D12 as (_ & [E|E]); congruence. }
  destruct (negb ok).
  - inversion H; subst. split; [exact D123|]. intros Ec p [E|E]; inversion E; subst.
    unfold with_payload_len. cbn [snd]. apply Hrst. exact Ec.
  - pose proof (dispatch_finish_tailf cx s3 repr zwp ka) as F1.
    destruct (tcp_dispatch_finish cx s3 repr zwp ka) as (s4, t4). cbn [fst] in F1.
    inversion H; subst; clear H. split.
    + eapply dtf_trans; [|exact D123]. eapply dtf_trans; [|apply tailf_dtf; exact F1].
      apply dtf_refl.
    + intros Ec p [E|E]; inversion E; subst. unfold with_payload_len. cbn [snd]. apply Hrst. exact Ec.
Qed.

(* ---- one event of a run ---- *)
Definition out_rst_only (out : step_out) : Prop :=
  match out with
  | OReply (Some p) | ODispatch (DSent p) | ODispatch (DEmitFailed p) => r_control (snd p) = CRst
  | _ => True
  end.

Lemma reset_fields_le s :
  s_state (tcp_reset s) = Closed /\ le_port (s_listen_endpoint (tcp_reset s)) = 0.
Proof. unfold tcp_reset. rproj. split; reflexivity. Qed.

Lemma send_slice_tailf s data s' n : tcp_send_slice s data = Ok (s', n) -> tailf s' s.
Proof.
  unfold tcp_send_slice. intros H. destruct (negb (tcp_may_send s)); [discriminate|].
  destruct (rb_enqueue_slice (s_tx_buffer s) data) as (tx, size).
  des_all H; inversion H; subst; tf.
Qed.

Lemma recv_slice_tailf s n s' b : tcp_recv_slice s n = Ok (s', b) -> tailf s' s.
Proof.
  unfold tcp_recv_slice. intros H. apply obind_ok_inv in H. destruct H as (u & _ & H).
  destruct (rb_dequeue_slice (s_rx_buffer s) n) as (rx, bytes). inversion H; subst. tf.
Qed.

Theorem step_le cx s ev s' out tags :
  run_ev ev -> tcp_step cx s ev = Ok (s', out, tags) ->
  (le_port (s_listen_endpoint s') = le_port (s_listen_endpoint s) \/
   le_port (s_listen_endpoint s') = 0) /\
  (s_state s' = Listen -> s_state s = Listen \/ le_port (s_listen_endpoint s) <> 0) /\
  (s_state s = Closed ->
     s_state s' = Closed /\ out_rst_only out /\
     (forall d, ev = EvSend d -> exists e, out = OErr e) /\
     (forall ip r, ev = EvSegment ip r -> s' = s)).
Proof.
  intros Hev H. destruct ev; try contradiction; cbn [tcp_step] in H.
  - (* close *)
    inversion H; subst; clear H. unfold tcp_close.
    split; [left; destruct (s_state s); rproj; reflexivity|].
    split.
    + intros E. left. destruct (s_state s) eqn:Est; rproj; try discriminate E; try reflexivity;
        rewrite Est in E; discriminate E.
    + intros Ec. rewrite Ec. split; [exact Ec|]. split; [exact I|]. split; intros; discriminate.
  - (* send *)
    destruct (tcp_send_slice s data) as [(s1, n)|e|] eqn:E; [| |discriminate]; inversion H; subst; clear H.
    + destruct (send_slice_tailf _ _ _ _ E) as (T1 & T2).
      split; [left; rewrite T1; reflexivity|]. split; [intros E'; left; congruence|].
      intros Ec. exfalso. unfold tcp_send_slice, tcp_may_send in E. rewrite Ec in E. discriminate.
    + split; [left; reflexivity|]. split; [intros E'; left; exact E'|].
      intros Ec. split; [exact Ec|]. split; [exact I|]. split; [intros d _; exists e; reflexivity | intros; discriminate].
  - (* recv *)
    destruct (tcp_recv_slice s n) as [(s1, b)|e|] eqn:E; [| |discriminate]; inversion H; subst; clear H.
    + destruct (recv_slice_tailf _ _ _ _ E) as (T1 & T2).
      split; [left; rewrite T1; reflexivity|]. split; [intros E'; left; congruence|].
      intros Ec. split; [congruence|]. split; [exact I|]. split; intros; discriminate.
    + split; [left; reflexivity|]. split; [intros E'; left; exact E'|].
      intros Ec. split; [exact Ec|]. split; [exact I|]. split; intros; discriminate.
  - (* segment *)
    apply obind_ok_inv in H. destruct H as (((s1 & rep) & tg) & Hi & H). inversion H; subst; clear H.
    destruct (ingress_le _ _ _ _ _ _ _ Hi) as (I1 & I2 & I3).
    split; [left; rewrite I1; reflexivity|]. split; [exact I2|].
    intros Ec. destruct (I3 Ec) as (-> & Hr). split; [exact Ec|].
    split; [destruct rep; exact Hr|]. split; [intros; discriminate | intros; reflexivity].
  - (* dispatch *)
    apply obind_ok_inv in H. destruct H as (((s1 & res) & tg) & Hd & H). inversion H; subst; clear H.
    destruct (dispatch_le _ _ _ _ _ _ Hd) as [(-> & ->) | ((D1 & D2) & D3)].
    + destruct (reset_fields_le s) as (R1 & R2).
      split; [right; exact R2|]. split; [intros E; rewrite R1 in E; discriminate|].
      intros _. split; [exact R1|]. split; [exact I|]. split; intros; discriminate.
    + split; [left; rewrite D1; reflexivity|].
      split; [intros E; left; destruct D2 as [D2|D2]; congruence|].
      intros Ec. split; [destruct D2 as [D2|D2]; congruence|].
      split; [|split; intros; discriminate].
      unfold out_rst_only. destruct res; [exact I | apply D3; [exact Ec | left; reflexivity] |
                                          apply D3; [exact Ec | right; reflexivity]].
Qed.

(* ---- the TCP header is at least 20 octets ---- *)
Lemma fold_sack_nonneg l acc : 0 <= acc ->
  0 <= fold_left (fun acc (o : option (Z * Z)) => match o with Some _ => acc + 8 | None => acc end) l acc.
Proof.
  revert acc. induction l as [|o l IH]; intros acc H; cbn [fold_left]; [exact H|]. apply IH. destruct o; lia.
Qed.

Lemma repr_header_len_ge r : 20 <= repr_header_len r.
Proof.
  unfold repr_header_len, wtcp_HEADER_LEN.
  pose proof (fold_sack_nonneg (r_sack_ranges r) 0 ltac:(lia)) as Hs.
  set (srl := fold_left _ (r_sack_ranges r) 0) in *.
  repeat match goal with |- context [if ?c then _ else _] => destruct c end; lia.
Qed.

(* ---- the branch tags of a dispatch that sent a segment: the last tag is the model's
   is_keep_alive decision (245 / 246), every other tag is below 245 ---- *)
Lemma dispatch_timers_tag cx s s1 t : tcp_dispatch_timers cx s = Ok (s1, t) -> t < 245.
Proof.
  unfold tcp_dispatch_timers. intros H.
  set (s0 := if is_some (s_remote_last_ts s) then s else upd_remote_last_ts s (Some (cx_now cx))) in *.
  destruct (tcp_timed_out s0 (cx_now cx)); [inversion H; lia|].
  destruct (timer_should_retransmit (s_timer s0) (cx_now cx)); [|inversion H; lia].
  apply obind_ok_inv in H. destruct H as (fl & _ & H).
  destruct (s_timer s0); cbv beta iota zeta in H; inversion H; lia.
Qed.

Lemma dispatch_decide_tag cx s s2 go t : tcp_dispatch_decide cx s = Ok (s2, go, t) -> t < 245.
Proof.
  unfold tcp_dispatch_decide. intros H.
  apply obind_ok_inv in H. destruct H as (stt & _ & H).
  destruct stt; [inversion H; lia|].
  destruct (_ && _); [inversion H; lia|].
  apply obind_ok_inv in H. destruct H as (wtu & _ & H).
  des_all H; inversion H; lia.
Qed.

Lemma build_data_tag cx s repr s' orepr zwp tg :
  tcp_dispatch_build_data cx s repr = Ok (s', orepr, zwp, tg) -> tg < 245.
Proof.
  unfold tcp_dispatch_build_data. intros H.
  apply obind_ok_inv in H. destruct H as (ol & _ & H).
  apply obind_ok_inv in H. destruct H as (lm & _ & H).
  apply obind_ok_inv in H. destruct H as (((((s1 & r1) & o1) & z1) & t1) & H1 & H).
  cbv beta iota zeta in H. inversion H; subst; clear H.
  des1 H1.
  - inversion H1; subst. lia.
  - repeat (apply obind_ok_inv in H1; destruct H1 as (? & _ & H1)). inversion H1; subst.
    match goal with |- (if ?c then _ else _) < _ => destruct c end; lia.
Qed.

Lemma dispatch_build_tag cx s t s' orepr zwp ka tg :
  tcp_dispatch_build cx s t = Ok (s', orepr, zwp, ka, tg) -> tg < 245.
Proof.
  unfold tcp_dispatch_build. intros H.
  apply obind_ok_inv in H. destruct H as ((((s1 & o1) & z1) & t1) & H1 & H).
  cbv beta iota zeta in H.
  assert (Ht : t1 < 245).
  { destruct (s_state s); try (inversion H1; lia); try (eapply build_data_tag; exact H1).
    destruct (s_syn_unacked_in_fin_wait s); [inversion H1; lia | eapply build_data_tag; exact H1]. }
  destruct o1 as [repr1|]; [|inversion H; subst; exact Ht].
  apply obind_ok_inv in H. destruct H as (repr3 & _ & H). inversion H; subst. exact Ht.
Qed.

Lemma dispatch_finish_tag cx s repr zwp ka : snd (tcp_dispatch_finish cx s repr zwp ka) < 245.
Proof.
  unfold tcp_dispatch_finish.
  repeat match goal with
  | |- context [if ?c then _ else _] => destruct c
  end; cbn [snd]; lia.
Qed.

Lemma dispatch_sent_tags cx s ok s' p tags :
  tcp_dispatch cx s ok = Ok (s', DSent p, tags) ->
  exists kam : bool, forall t, In t tags -> t = (if kam then 245 else 246) \/ t < 245.
Proof.
  unfold tcp_dispatch. intros H.
  destruct (s_tuple s) as [t|]; [|inversion H].
  destruct (negb (tu_local_addr t =? cx_addr cx)); [inversion H|].
  apply obind_ok_inv in H. destruct H as ((s1 & t1) & H1 & H).
  apply obind_ok_inv in H. destruct H as (((s2 & go) & t2) & H2 & H).
  destruct (negb go); [inversion H|].
  apply obind_ok_inv in H. destruct H as (((((s3 & orepr) & zwp) & ka) & t3) & H3 & H).
  destruct orepr as [repr|]; [|inversion H].
  destruct (negb ok); [inversion H|].
  pose proof (dispatch_finish_tag cx s3 repr zwp ka) as H4.
  destruct (tcp_dispatch_finish cx s3 repr zwp ka) as (s4, t4). cbn [snd] in H4.
  inversion H; subst; clear H. exists ka.
  pose proof (dispatch_timers_tag _ _ _ _ H1). pose proof (dispatch_decide_tag _ _ _ _ _ H2).
  pose proof (dispatch_build_tag _ _ _ _ _ _ _ _ H3).
  intros t0 [<- | [<- | [<- | [<- | [<- | []]]]]]; auto.
Qed.
